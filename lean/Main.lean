import PolyVerif.Driver.C11
import PolyVerif.Driver.C12
import PolyVerif.Driver.C04
import PolyVerif.Driver.C05
/-
`polymodel` — the line-protocol driver.
  polymodel render <prop>                 : stdin = abstract cases, stdout = harness requests
  polymodel judge  <prop> <cases> <outs>  : one verdict line per case
Imports models, specs and regenerated tables only (no proof module, no Mathlib).
-/
open PolyVerif

def drivers : List (String × PropDriver) := [
  ("C11", Driver.C11.driver),
  ("C12", Driver.C12.driver),
  ("C04", Driver.C04.driver),
  ("C05", Driver.C05.driver)
]

def stripNl (cs : List Char) : List Char :=
  match cs.getLast? with
  | some '\n' => cs.dropLast
  | _ => cs

partial def renderLoop (d : PropDriver) (h : IO.FS.Stream) (out : IO.FS.Stream) : IO Unit := do
  let line ← h.getLine
  if line.isEmpty then return ()
  let line := String.ofList (stripNl line.toList)
  out.putStrLn (lineOf (d.render (fieldsOf line)))
  renderLoop d h out

def main (args : List String) : IO UInt32 := do
  match args with
  | ["render", p] =>
    match drivers.lookup p with
    | some d => renderLoop d (← IO.getStdin) (← IO.getStdout); (← IO.getStdout).flush; return 0
    | none => IO.eprintln s!"unknown property {p}"; return 2
  | ["judge", p, casesPath, outsPath] =>
    match drivers.lookup p with
    | some d =>
      let cases ← IO.FS.lines casesPath
      let outs ← IO.FS.lines outsPath
      let stdout ← IO.getStdout
      for i in [0:cases.size] do
        let o := if h : i < outs.size then fieldsOf outs[i] else ["missing"]
        stdout.putStrLn (d.judge (fieldsOf cases[i]!) o).toLine
      stdout.flush
      return 0
    | none => IO.eprintln s!"unknown property {p}"; return 2
  | _ => IO.eprintln "usage: polymodel render <prop> | judge <prop> <cases> <outs>"; return 2
