import PolyVerif.Driver.C07
import PolyVerif.Base.DriverMain
def main (args : List String) : IO UInt32 := PolyVerif.driverMain PolyVerif.Driver.C07.driver args
