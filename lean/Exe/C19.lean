import PolyVerif.Driver.C19
import PolyVerif.Base.DriverMain
def main (args : List String) : IO UInt32 := PolyVerif.driverMain PolyVerif.Driver.C19.driver args
