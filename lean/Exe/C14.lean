import PolyVerif.Driver.C14
import PolyVerif.Base.DriverMain
def main (args : List String) : IO UInt32 := PolyVerif.driverMain PolyVerif.Driver.C14.driver args
