import PolyVerif.Driver.C03
import PolyVerif.Base.DriverMain
def main (args : List String) : IO UInt32 := PolyVerif.driverMain PolyVerif.Driver.C03.driver args
