import PolyVerif.Driver.C11
import PolyVerif.Base.DriverMain
def main (args : List String) : IO UInt32 := PolyVerif.driverMain PolyVerif.Driver.C11.driver args
