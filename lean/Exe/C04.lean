import PolyVerif.Driver.C04
import PolyVerif.Base.DriverMain
def main (args : List String) : IO UInt32 := PolyVerif.driverMain PolyVerif.Driver.C04.driver args
