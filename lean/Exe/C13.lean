import PolyVerif.Driver.C13
import PolyVerif.Base.DriverMain
def main (args : List String) : IO UInt32 := PolyVerif.driverMain PolyVerif.Driver.C13.driver args
