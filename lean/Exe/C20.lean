import PolyVerif.Driver.C20
import PolyVerif.Base.DriverMain
def main (args : List String) : IO UInt32 := PolyVerif.driverMain PolyVerif.Driver.C20.driver args
