import PolyVerif.Driver.C09
import PolyVerif.Base.DriverMain
def main (args : List String) : IO UInt32 := PolyVerif.driverMain PolyVerif.Driver.C09.driver args
