import PolyVerif.Driver.C15
import PolyVerif.Base.DriverMain
def main (args : List String) : IO UInt32 := PolyVerif.driverMain PolyVerif.Driver.C15.driver args
