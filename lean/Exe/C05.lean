import PolyVerif.Driver.C05
import PolyVerif.Base.DriverMain
def main (args : List String) : IO UInt32 := PolyVerif.driverMain PolyVerif.Driver.C05.driver args
