import PolyVerif.Driver.C10
import PolyVerif.Base.DriverMain
def main (args : List String) : IO UInt32 := PolyVerif.driverMain PolyVerif.Driver.C10.driver args
