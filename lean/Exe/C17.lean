import PolyVerif.Driver.C17
import PolyVerif.Base.DriverMain
def main (args : List String) : IO UInt32 := PolyVerif.driverMain PolyVerif.Driver.C17.driver args
