import PolyVerif.Driver.C01
import PolyVerif.Base.DriverMain
def main (args : List String) : IO UInt32 := PolyVerif.driverMain PolyVerif.Driver.C01.driver args
