import PolyVerif.Driver.C18
import PolyVerif.Base.DriverMain
def main (args : List String) : IO UInt32 := PolyVerif.driverMain PolyVerif.Driver.C18.driver args
