import PolyVerif.Driver.C12
import PolyVerif.Base.DriverMain
def main (args : List String) : IO UInt32 := PolyVerif.driverMain PolyVerif.Driver.C12.driver args
