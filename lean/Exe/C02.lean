import PolyVerif.Driver.C02
import PolyVerif.Base.DriverMain
def main (args : List String) : IO UInt32 := PolyVerif.driverMain PolyVerif.Driver.C02.driver args
