import PolyVerif.Driver.C08
import PolyVerif.Base.DriverMain
def main (args : List String) : IO UInt32 := PolyVerif.driverMain PolyVerif.Driver.C08.driver args
