import PolyVerif.Driver.C06
import PolyVerif.Base.DriverMain
def main (args : List String) : IO UInt32 := PolyVerif.driverMain PolyVerif.Driver.C06.driver args
