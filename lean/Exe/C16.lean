import PolyVerif.Driver.C16
import PolyVerif.Base.DriverMain
def main (args : List String) : IO UInt32 := PolyVerif.driverMain PolyVerif.Driver.C16.driver args
