-- Root of the library: every proof module (each imports its models and specs), so that `lake build` checks them all.
import PolyVerif.Props.C04
import PolyVerif.Props.C05
import PolyVerif.Props.C11
import PolyVerif.Props.C12
import PolyVerif.Props.C12Booth
import PolyVerif.Props.C10
import PolyVerif.Props.C13
import PolyVerif.Props.C08
import PolyVerif.Props.C19
import PolyVerif.Props.C06
import PolyVerif.Props.C07
import PolyVerif.Props.C15
import PolyVerif.Props.C14
import PolyVerif.Props.C18
import PolyVerif.Props.C02
import PolyVerif.Props.C20
import PolyVerif.Props.C16
