-- Root of the library: every model, spec, driver and proof module (so that `lake build` checks them all).
import PolyVerif.Props.C11
import PolyVerif.Driver.C11
