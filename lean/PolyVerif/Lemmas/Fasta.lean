import PolyVerif.Spec.FastaLayout
/-
Helper lemmas for C13: the line scanner on rendered lines, the parser loop on blocks of lines
(ignored lines, header, body), and the line cutter of the layout spec.
-/
namespace PolyVerif.Fasta
open PolyVerif PolyVerif.Spec.FastaSpec

/-! ### scanner -/

theorem dropCR_append_cr (l : Str) : dropCR (l ++ ['\r']) = l := by
  simp [dropCR]

theorem dropCR_of_no_cr {l : Str} (h : '\r' ∉ l) : dropCR l = l := by
  unfold dropCR
  split
  · rename_i hl
    exact absurd (List.mem_of_getLast? hl) h
  · rfl

theorem takeWhile_all {α : Type} (p : α → Bool) : ∀ (l : List α), (∀ x ∈ l, p x = true) → l.takeWhile p = l
  | [], _ => rfl
  | x :: l, h => by
    simp only [List.takeWhile_cons, h x (by simp), if_true]
    rw [takeWhile_all p l (fun y hy => h y (by simp [hy]))]

theorem scanLines_of_fit {m : Nat} {s : Str} (h : LinesFit m s) : scanLines m s = (rawLines s).map dropCR := by
  unfold scanLines
  rw [takeWhile_all _ _ (fun l hl => by simpa using h l hl)]

/-- the scanner's raw token for a rendered line -/
def rawOf (l : Line) : Str := l.1 ++ (if l.2 then ['\r'] else [])

/-- the scanner's raw tokens for rendered lines -/
def rawsOf : List Line → Bool → List Str
  | [], _ => []
  | l :: ls, f => if ls.isEmpty && !f then (if l.1 = [] then [] else [l.1]) else rawOf l :: rawsOf ls f

theorem rawLines_render : ∀ (ls : List Line) (f : Bool), (∀ l ∈ ls, '\n' ∉ l.1) →
    rawLines (renderLines ls f) = rawsOf ls f
  | [], _, _ => rfl
  | l :: ls, f, h => by
    have hl : '\n' ∉ l.1 := h l (by simp)
    unfold renderLines rawsOf
    by_cases c : (ls.isEmpty && !f) = true
    · simp only [c, if_true]
      exact rawLines_of_no_nl _ hl
    · simp only [c, Bool.false_eq_true, if_false]
      have ih := rawLines_render ls f (fun x hx => h x (by simp [hx]))
      have hr : renderLine l = rawOf l ++ ['\n'] := by
        unfold renderLine rawOf; cases l.2 <;> simp
      have hn : '\n' ∉ rawOf l := by
        unfold rawOf; cases l.2 <;> simp [hl]
      rw [hr, List.append_assoc, List.singleton_append, rawLines_line _ _ hn, ih]

def nonEmpty (l : Str) : Bool := !l.isEmpty

theorem dropCR_rawOf {l : Line} (h : '\r' ∉ l.1) : dropCR (rawOf l) = l.1 := by
  unfold rawOf
  cases l.2
  · simpa using dropCR_of_no_cr h
  · exact dropCR_append_cr _

theorem scanned_render : ∀ (ls : List Line) (f : Bool), (∀ l ∈ ls, '\r' ∉ l.1) →
    ((rawsOf ls f).map dropCR).filter nonEmpty = (ls.map (·.1)).filter nonEmpty
  | [], _, _ => rfl
  | l :: ls, f, h => by
    have hl : '\r' ∉ l.1 := h l (by simp)
    unfold rawsOf
    by_cases c : (ls.isEmpty && !f) = true
    · simp only [c, if_true]
      have hls : ls = [] := by
        simp only [Bool.and_eq_true, List.isEmpty_iff] at c; exact c.1
      subst hls
      by_cases e : l.1 = []
      · simp [e, nonEmpty]
      · simp [e, dropCR_of_no_cr hl]
    · simp only [c, Bool.false_eq_true, if_false]
      have ih := scanned_render ls f (fun x hx => h x (by simp [hx]))
      simp only [List.map_cons, dropCR_rawOf hl, List.filter_cons, ih]

/-! ### the parser loop -/

theorem parseLines_filter : ∀ (ls : List Str) (start : Bool) (name : Str) (acc : List Str),
    parseLines start name acc (ls.filter nonEmpty) = parseLines start name acc ls
  | [], _, _, _ => rfl
  | [] :: ls, start, name, acc => by
    simp only [List.filter_cons, nonEmpty, List.isEmpty_nil, Bool.not_true, Bool.false_eq_true, if_false]
    rw [parseLines_filter ls]
    simp [parseLines]
  | (c :: tl) :: ls, start, name, acc => by
    simp only [List.filter_cons, nonEmpty, List.isEmpty_cons, Bool.not_false, if_true]
    simp only [parseLines]
    split
    · exact parseLines_filter ls _ _ _
    · split
      · exact parseLines_filter ls _ _ _
      · split
        · exact parseLines_filter ls _ _ _
        · split
          · rw [parseLines_filter ls]
          · exact parseLines_filter ls _ _ _

/-- REFINEMENT: the channel operations of the goroutine's loop are one send per record of `parseLines`, in the
same order, followed by exactly one close — for every token list and every loop state -/
theorem loopOps_eq : ∀ (ls : List Str) (start : Bool) (name : Str) (acc : List Str),
    loopOps start name acc ls = (parseLines start name acc ls).map (Chan.Op.send 0) ++ [Chan.Op.close 0]
  | [], _, _, _ => rfl
  | [] :: ls, start, name, acc => by simpa [loopOps, parseLines] using loopOps_eq ls start name acc
  | (c :: tl) :: ls, start, name, acc => by
    simp only [loopOps, parseLines]
    split
    · exact loopOps_eq ls _ _ _
    · split
      · exact loopOps_eq ls _ _ _
      · split
        · exact loopOps_eq ls _ _ _
        · split
          · simp [loopOps_eq ls false tl []]
          · exact loopOps_eq ls _ _ _

theorem producer_eq (m : Nat) (s : Str) :
    producer m s = (parse m s).map (Chan.Op.send 0) ++ [Chan.Op.close 0] := loopOps_eq _ _ _ _

/-- a line the loop skips: empty or white space only, or a `;` comment -/
def Ignored (l : Str) : Prop := blankLine l = true ∨ ∃ t, l = ';' :: t

/-- a line that is not a header -/
def BodyLine (l : Str) : Prop := blankLine l = true ∨ ∃ c t, l = c :: t ∧ c ≠ '>'

/-- a line that is appended to `sequenceLines` -/
def isSeqLine (l : Str) : Bool :=
  !blankLine l && (match l with | [] => false | c :: _ => c != ';')

theorem Ignored.bodyLine {l : Str} (h : Ignored l) : BodyLine l := by
  rcases h with h | ⟨t, h⟩
  · exact .inl h
  · exact .inr ⟨';', t, h, by decide⟩

theorem filter_ignored : ∀ (ls : List Str), (∀ l ∈ ls, Ignored l) → ls.filter isSeqLine = []
  | [], _ => rfl
  | l :: ls, h => by
    have ih := filter_ignored ls (fun x hx => h x (by simp [hx]))
    rcases h l (by simp) with e | ⟨t, e⟩
    · simp [isSeqLine, e, ih]
    · subst e; simp [isSeqLine, ih]

theorem parseLines_body : ∀ (body rest : List Str) (start : Bool) (name : Str) (acc : List Str),
    (∀ l ∈ body, BodyLine l) →
    parseLines start name acc (body ++ rest) = parseLines start name ((body.filter isSeqLine).reverse ++ acc) rest
  | [], _, _, _, _, _ => rfl
  | l :: body, rest, start, name, acc, h => by
    have ih := fun acc' => parseLines_body body rest start name acc' (fun x hx => h x (by simp [hx]))
    cases l with
    | nil =>
      simp only [List.cons_append, parseLines, List.filter_cons, isSeqLine, blankLine, List.all_nil,
        Bool.not_true, Bool.false_and, Bool.false_eq_true, if_false]
      exact ih acc
    | cons c t =>
      by_cases hb : blankLine (c :: t) = true
      · simp only [List.cons_append, parseLines, hb, if_true, List.filter_cons, isSeqLine, Bool.not_true,
          Bool.false_and, Bool.false_eq_true, if_false]
        exact ih acc
      · have hc : c ≠ '>' := by
          rcases h (c :: t) (by simp) with e | ⟨c', t', e, hc'⟩
          · exact absurd e hb
          · cases e; exact hc'
        have hbf : blankLine (c :: t) = false := by simpa using hb
        by_cases hs : c = ';'
        · subst hs
          simp only [List.cons_append, parseLines, hbf, Bool.false_eq_true, if_false, if_true, List.filter_cons,
            isSeqLine, bne_self_eq_false, Bool.and_false]
          exact ih acc
        · have hne : (c != ';') = true := by simpa using hs
          simp only [List.cons_append, parseLines, hbf, Bool.false_eq_true, if_false, if_neg hs, hc, ne_eq,
            not_false_eq_true, if_true, List.filter_cons, isSeqLine, hne, Bool.not_false, Bool.and_self]
          rw [ih]
          simp

/-- a record as a block of lines: ignored lines, the header, body lines -/
structure Block where
  pre : List Str
  name : Str
  body : List Str

def Block.lines (b : Block) : List Str := b.pre ++ ('>' :: b.name) :: b.body

def Block.toRec (b : Block) : Rec := ⟨b.name, (b.body.filter isSeqLine).flatten⟩

def Block.ok (b : Block) : Prop := (∀ l ∈ b.pre, Ignored l) ∧ (∀ l ∈ b.body, BodyLine l)

theorem header_not_blank (n : Str) : blankLine ('>' :: n) = false := by
  simp [blankLine, goIsSpace, spaceChars]

theorem parseLines_blocks_from : ∀ (bs : List Block), (∀ b ∈ bs, b.ok) → ∀ (name : Str) (acc : List Str),
    parseLines false name acc (bs.flatMap Block.lines) = ⟨name, acc.reverse.flatten⟩ :: bs.map Block.toRec
  | [], _, _, _ => rfl
  | b :: bs, h, name, acc => by
    have hb := h b (by simp)
    have ih := parseLines_blocks_from bs (fun x hx => h x (by simp [hx]))
    simp only [List.flatMap_cons, Block.lines, List.append_assoc, List.cons_append]
    rw [parseLines_body _ _ _ _ _ (fun l hl => (hb.1 l hl).bodyLine), filter_ignored _ hb.1]
    simp only [List.reverse_nil, List.nil_append, parseLines, header_not_blank, Bool.false_eq_true, if_false]
    simp only [show ¬ ('>' = ';') by decide, if_false, ne_eq, not_true_eq_false, Bool.not_false, if_true]
    rw [parseLines_body _ _ _ _ _ hb.2, ih]
    simp [Block.toRec]

theorem parseLines_blocks (bs : List Block) (h : ∀ b ∈ bs, b.ok) (hne : bs ≠ []) :
    parseLines true [] [] (bs.flatMap Block.lines) = bs.map Block.toRec := by
  cases bs with
  | nil => exact absurd rfl hne
  | cons b bs =>
    have hb := h b (by simp)
    simp only [List.flatMap_cons, Block.lines, List.append_assoc, List.cons_append]
    rw [parseLines_body _ _ _ _ _ (fun l hl => (hb.1 l hl).bodyLine), filter_ignored _ hb.1]
    simp only [List.reverse_nil, List.nil_append, parseLines, header_not_blank, Bool.false_eq_true, if_false]
    simp only [show ¬ ('>' = ';') by decide, if_false, ne_eq, not_true_eq_false, Bool.not_true]
    rw [parseLines_body _ _ _ _ _ hb.2, parseLines_blocks_from bs (fun x hx => h x (by simp [hx]))]
    simp [Block.toRec]

/-! ### the line cutter -/

theorem chunkUniform_flatten (w : Nat) : ∀ (fuel : Nat) (s : Str), s.length ≤ fuel →
    (chunkUniform w fuel s).flatten = s
  | 0, s, h => by
    have : s = [] := List.eq_nil_of_length_eq_zero (by omega)
    subst this; rfl
  | fuel + 1, s, h => by
    unfold chunkUniform
    by_cases e : s = []
    · simp [e]
    · simp only [e, if_false, List.flatten_cons]
      rw [chunkUniform_flatten w fuel _ (by
        have : 0 < s.length := List.length_pos_iff.mpr e
        simp only [List.length_drop]; omega)]
      exact List.take_append_drop _ _

theorem chunkUniform_mem (w : Nat) : ∀ (fuel : Nat) (s c : Str), c ∈ chunkUniform w fuel s →
    c ≠ [] ∧ ∀ x ∈ c, x ∈ s
  | 0, _, _, h => by simp [chunkUniform] at h
  | fuel + 1, s, c, h => by
    unfold chunkUniform at h
    by_cases e : s = []
    · simp [e] at h
    · simp only [e, if_false, List.mem_cons] at h
      rcases h with h | h
      · subst h
        refine ⟨?_, fun x hx => List.mem_of_mem_take hx⟩
        cases s with
        | nil => exact absurd rfl e
        | cons a s => simp
      · have := chunkUniform_mem w fuel _ c h
        exact ⟨this.1, fun x hx => List.mem_of_mem_drop (this.2 x hx)⟩

theorem chunks_flatten : ∀ (ws : List Nat) (w : Nat) (s : Str), (chunks ws w s).flatten = s
  | [], w, s => chunkUniform_flatten w _ s (Nat.le_refl _)
  | x :: ws, w, s => by
    unfold chunks
    by_cases e : s = []
    · simp [e]
    · simp only [e, if_false, List.flatten_cons, chunks_flatten ws w]
      exact List.take_append_drop _ _

theorem chunks_mem : ∀ (ws : List Nat) (w : Nat) (s c : Str), c ∈ chunks ws w s → c ≠ [] ∧ ∀ x ∈ c, x ∈ s
  | [], w, s, c, h => chunkUniform_mem w _ s c h
  | x :: ws, w, s, c, h => by
    unfold chunks at h
    by_cases e : s = []
    · simp [e] at h
    · simp only [e, if_false, List.mem_cons] at h
      rcases h with h | h
      · subst h
        refine ⟨?_, fun x hx => List.mem_of_mem_take hx⟩
        cases s with
        | nil => exact absurd rfl e
        | cons a s => simp
      · have := chunks_mem ws w _ c h
        exact ⟨this.1, fun x hx => List.mem_of_mem_drop (this.2 x hx)⟩

/-! ### characters -/

theorem printable_clean {c : Char} (h : printable c = true) : c ≠ '\n' ∧ c ≠ '\r' := by
  constructor <;> (intro e; subst e; revert h; decide)

theorem letter_clean {c : Char} (h : letter c = true) : c ≠ '\n' ∧ c ≠ '\r' ∧ c ≠ '>' ∧ c ≠ ';' := by
  refine ⟨?_, ?_, ?_, ?_⟩ <;> (intro e; subst e; revert h; decide)

theorem letter_not_space {c : Char} (h : letter c = true) : goIsSpace c = false := by
  cases hs : goIsSpace c with
  | false => rfl
  | true =>
    exfalso
    have hm : c ∈ spaceChars := by simpa [goIsSpace] using hs
    have hall : ∀ x ∈ spaceChars, letter x = false := by decide
    rw [hall c hm] at h; cases h

theorem blankchar_space {c : Char} (h : (c == ' ' || c == '\t') = true) : goIsSpace c = true ∧ c ≠ '\n' ∧ c ≠ '\r' := by
  simp only [Bool.or_eq_true, beq_iff_eq] at h
  rcases h with rfl | rfl <;> decide

theorem junkchar_clean {c : Char} (h : (printable c || c == '\t') = true) : c ≠ '\n' ∧ c ≠ '\r' := by
  constructor <;> (intro e; subst e; revert h; decide)

/-- no line break characters -/
def CleanStr (t : Str) : Prop := '\n' ∉ t ∧ '\r' ∉ t

theorem cleanStr_of {t : Str} (h : ∀ c ∈ t, c ≠ '\n' ∧ c ≠ '\r') : CleanStr t :=
  ⟨fun hm => (h _ hm).1 rfl, fun hm => (h _ hm).2 rfl⟩

theorem cleanStr_cons {c : Char} {t : Str} (hc : c ≠ '\n' ∧ c ≠ '\r') (h : CleanStr t) : CleanStr (c :: t) := by
  constructor
  · intro hm; rcases List.mem_cons.mp hm with e | e
    · exact hc.1 e.symm
    · exact h.1 e
  · intro hm; rcases List.mem_cons.mp hm with e | e
    · exact hc.2 e.symm
    · exact h.2 e

theorem junk_line_clean {j : Junk} (h : j.ok = true) : CleanStr j.line := by
  cases j with
  | blank => exact ⟨by simp [Junk.line], by simp [Junk.line]⟩
  | comment t =>
    simp only [Junk.ok, List.all_eq_true] at h
    exact cleanStr_cons ⟨by decide, by decide⟩ (cleanStr_of fun c hc => junkchar_clean (h c hc))
  | spaces t =>
    simp only [Junk.ok, List.all_eq_true] at h
    exact cleanStr_of fun c hc => (blankchar_space (h c hc)).2

theorem junk_line_ignored {j : Junk} (h : j.ok = true) : Ignored j.line := by
  cases j with
  | blank => exact .inl rfl
  | comment t => exact .inr ⟨t, rfl⟩
  | spaces t =>
    simp only [Junk.ok, List.all_eq_true] at h
    exact .inl (by simp only [Junk.line, blankLine, List.all_eq_true]; exact fun c hc => (blankchar_space (h c hc)).1)

/-! ### the layout as blocks -/

def seqLinesOf (l : RecLayout) (seq : Str) : List Str :=
  (chunks l.widths l.width seq).flatMap (fun c => c :: l.between.map Junk.line)

def blockOf (r : Rec) (l : RecLayout) : Block :=
  ⟨l.before.map Junk.line, r.name, l.after.map Junk.line ++ seqLinesOf l r.seq⟩

def blocksOf : List Rec → List RecLayout → List Block
  | [], _ => []
  | r :: rs, ls => blockOf r (ls.headD {}) :: blocksOf rs ls.tail

theorem allLines_texts : ∀ (rs : List Rec) (ls : List RecLayout),
    (allLines rs ls).map (·.1) = (blocksOf rs ls).flatMap Block.lines
  | [], _ => rfl
  | r :: rs, ls => by
    simp only [allLines, blocksOf, List.map_append, List.map_map, List.flatMap_cons, allLines_texts rs ls.tail]
    congr 1
    simp [Function.comp_def, recLines, Block.lines, blockOf, seqLinesOf]

theorem isSeqLine_of_letters {c : Str} (hne : c ≠ []) (hl : ∀ x ∈ c, letter x = true) : isSeqLine c = true := by
  cases c with
  | nil => exact absurd rfl hne
  | cons a t =>
    have ha := hl a (by simp)
    have hb : blankLine (a :: t) = false := by
      simp [blankLine, letter_not_space ha]
    simpa [isSeqLine, hb] using (letter_clean ha).2.2.2

theorem bodyLine_of_letters {c : Str} (hl : ∀ x ∈ c, letter x = true) : BodyLine c := by
  cases c with
  | nil => exact .inl rfl
  | cons a t => exact .inr ⟨a, t, rfl, (letter_clean (hl a (by simp))).2.2.1⟩

/-- the ignorable lines of a record's layout are well formed -/
def JunkOk (l : RecLayout) : Prop := ∀ j ∈ l.before ++ l.after ++ l.between, j.ok = true

theorem junkOk_default : JunkOk {} := by intro j hj; simp at hj

theorem junkOk_headD {ls : List RecLayout} (h : ∀ l ∈ ls, JunkOk l) : JunkOk (ls.headD {}) := by
  cases ls with
  | nil => exact junkOk_default
  | cons l ls => exact h l (by simp)

theorem filter_junk_lines {js : List Junk} (h : ∀ j ∈ js, j.ok = true) : (js.map Junk.line).filter isSeqLine = [] :=
  filter_ignored _ (fun l hl => by
    obtain ⟨j, hj, rfl⟩ := List.mem_map.mp hl
    exact junk_line_ignored (h j hj))

theorem filter_seqLines {between : List Junk} (hb : ∀ j ∈ between, j.ok = true) : ∀ (cs : List Str),
    (∀ c ∈ cs, isSeqLine c = true) → (cs.flatMap (fun c => c :: between.map Junk.line)).filter isSeqLine = cs
  | [], _ => rfl
  | c :: cs, h => by
    simp only [List.flatMap_cons, List.cons_append, List.filter_cons, h c (by simp), if_true,
      List.filter_append, filter_junk_lines hb, List.nil_append,
      filter_seqLines hb cs (fun x hx => h x (by simp [hx]))]

theorem blockOf_toRec (r : Rec) (l : RecLayout) (hj : JunkOk l) (h : ∀ c ∈ r.seq, letter c = true) :
    (blockOf r l).toRec = r := by
  have hcs : ∀ c ∈ chunks l.widths l.width r.seq, isSeqLine c = true := fun c hc =>
    let ⟨hne, hsub⟩ := chunks_mem _ _ _ c hc
    isSeqLine_of_letters hne (fun x hx => h x (hsub x hx))
  have ha : ∀ j ∈ l.after, j.ok = true := fun j hm => hj j (List.mem_append_left _ (List.mem_append_right _ hm))
  have hb : ∀ j ∈ l.between, j.ok = true := fun j hm => hj j (List.mem_append_right _ hm)
  simp only [Block.toRec, blockOf, seqLinesOf, List.filter_append, filter_junk_lines ha, List.nil_append,
    filter_seqLines hb _ hcs, chunks_flatten]

theorem blockOf_ok (r : Rec) (l : RecLayout) (hj : JunkOk l) (h : ∀ c ∈ r.seq, letter c = true) : (blockOf r l).ok := by
  constructor
  · intro x hx
    obtain ⟨j, hm, rfl⟩ := List.mem_map.mp hx
    exact junk_line_ignored (hj j (List.mem_append_left _ (List.mem_append_left _ hm)))
  · intro x hx
    simp only [blockOf, seqLinesOf, List.mem_append, List.mem_map, List.mem_flatMap, List.mem_cons] at hx
    rcases hx with ⟨j, hm, rfl⟩ | ⟨c, hc, rfl | ⟨j, hm, rfl⟩⟩
    · exact (junk_line_ignored (hj j (List.mem_append_left _ (List.mem_append_right _ hm)))).bodyLine
    · exact bodyLine_of_letters (fun y hy => h y ((chunks_mem _ _ _ _ hc).2 y hy))
    · exact (junk_line_ignored (hj j (List.mem_append_right _ hm))).bodyLine

theorem blocksOf_toRec : ∀ (rs : List Rec) (ls : List RecLayout), (∀ l ∈ ls, JunkOk l) →
    (∀ r ∈ rs, ∀ c ∈ r.seq, letter c = true) → (blocksOf rs ls).map Block.toRec = rs
  | [], _, _, _ => rfl
  | r :: rs, ls, hl, h => by
    simp only [blocksOf, List.map_cons, blockOf_toRec r _ (junkOk_headD hl) (h r (by simp)),
      blocksOf_toRec rs ls.tail (fun l hm => hl l (List.mem_of_mem_tail hm)) (fun x hx => h x (by simp [hx]))]

theorem blocksOf_ok : ∀ (rs : List Rec) (ls : List RecLayout), (∀ l ∈ ls, JunkOk l) →
    (∀ r ∈ rs, ∀ c ∈ r.seq, letter c = true) → ∀ b ∈ blocksOf rs ls, b.ok
  | [], _, _, _ => by simp [blocksOf]
  | r :: rs, ls, hl, h => by
    intro b hb
    simp only [blocksOf, List.mem_cons] at hb
    rcases hb with rfl | hb
    · exact blockOf_ok r _ (junkOk_headD hl) (h r (by simp))
    · exact blocksOf_ok rs ls.tail (fun l hm => hl l (List.mem_of_mem_tail hm)) (fun x hx => h x (by simp [hx])) b hb

theorem blocksOf_ne_nil {rs : List Rec} (ls : List RecLayout) (h : rs ≠ []) : blocksOf rs ls ≠ [] := by
  cases rs with
  | nil => exact absurd rfl h
  | cons r rs => simp [blocksOf]

/-- every line of the layout is free of line break characters -/
theorem allLines_clean : ∀ (rs : List Rec) (ls : List RecLayout),
    (∀ r ∈ rs, (∀ c ∈ r.name, printable c = true) ∧ (∀ c ∈ r.seq, letter c = true)) →
    (∀ l ∈ ls, ∀ j ∈ l.before ++ l.after ++ l.between, j.ok = true) →
    ∀ x ∈ allLines rs ls, CleanStr x.1
  | [], _, _, _ => by simp [allLines]
  | r :: rs, ls, hr, hl => by
    intro x hx
    simp only [allLines, List.mem_append, List.mem_map] at hx
    rcases hx with ⟨t, ht, rfl⟩ | hx
    · have hj : ∀ j ∈ (ls.headD {}).before ++ (ls.headD {}).after ++ (ls.headD {}).between, j.ok = true := by
        cases ls with
        | nil => intro j hj; simp at hj
        | cons l ls => exact hl l (by simp)
      have hrr := hr r (by simp)
      simp only [recLines, List.mem_append, List.mem_map, List.mem_cons, List.mem_flatMap] at ht
      rcases ht with ⟨j, hjm, rfl⟩ | rfl | ⟨j, hjm, rfl⟩ | ⟨c, hc, rfl | ⟨j, hjm, rfl⟩⟩
      · exact junk_line_clean (hj j (List.mem_append_left _ (List.mem_append_left _ hjm)))
      · exact cleanStr_cons ⟨by decide, by decide⟩ (cleanStr_of fun c hc => printable_clean (hrr.1 c hc))
      · exact junk_line_clean (hj j (List.mem_append_left _ (List.mem_append_right _ hjm)))
      · exact cleanStr_of fun y hy =>
          let h := letter_clean (hrr.2 y ((chunks_mem _ _ _ _ hc).2 y hy)); ⟨h.1, h.2.1⟩
      · exact junk_line_clean (hj j (List.mem_append_right _ hjm))
    · exact allLines_clean rs ls.tail (fun y hy => hr y (by simp [hy]))
        (fun l hlm => hl l (List.mem_of_mem_tail hlm)) x hx

/-! ### `build` as a rendering of blocks -/

def buildLines (rs : List Rec) : List Line := rs.flatMap (fun r => [('>' :: r.name, false), (r.seq, false)])

def buildBlocks (rs : List Rec) : List Block := rs.map (fun r => ⟨[], r.name, [r.seq]⟩)

theorem renderLines_true : ∀ (ls : List Line), renderLines ls true = ls.flatMap renderLine
  | [] => rfl
  | l :: ls => by simp [renderLines, renderLines_true ls]

theorem build_eq_render (rs : List Rec) : build rs = renderLines (buildLines rs) true := by
  rw [renderLines_true]
  induction rs with
  | nil => rfl
  | cons r rs ih =>
    simp only [build, buildLines, List.flatMap_cons] at ih ⊢
    rw [ih]
    simp [renderLine]

theorem buildLines_texts (rs : List Rec) : (buildLines rs).map (·.1) = (buildBlocks rs).flatMap Block.lines := by
  induction rs with
  | nil => rfl
  | cons r rs ih =>
    simp only [buildLines, buildBlocks, List.flatMap_cons, List.map_append, List.map_cons] at ih ⊢
    rw [ih]
    simp [Block.lines]

theorem buildBlocks_toRec : ∀ (rs : List Rec), (∀ r ∈ rs, ∀ c ∈ r.seq, letter c = true) →
    (buildBlocks rs).map Block.toRec = rs
  | [], _ => rfl
  | r :: rs, h => by
    have ih := buildBlocks_toRec rs (fun x hx => h x (by simp [hx]))
    simp only [buildBlocks, List.map_cons, List.map_map] at ih ⊢
    rw [ih]
    congr 1
    obtain ⟨name, seq⟩ := r
    simp only [Block.toRec, Rec.mk.injEq, true_and]
    cases seq with
    | nil => rfl
    | cons a t =>
      have := isSeqLine_of_letters (c := a :: t) (by simp) (h ⟨name, a :: t⟩ (by simp))
      simp [this]

theorem buildBlocks_ok (rs : List Rec) (h : ∀ r ∈ rs, ∀ c ∈ r.seq, letter c = true) : ∀ b ∈ buildBlocks rs, b.ok := by
  intro b hb
  obtain ⟨r, hr, rfl⟩ := List.mem_map.mp hb
  exact ⟨by simp, fun x hx => by
    simp only [List.mem_singleton] at hx; subst hx
    exact bodyLine_of_letters (h r hr)⟩

theorem buildLines_clean (rs : List Rec)
    (h : ∀ r ∈ rs, (∀ c ∈ r.name, printable c = true) ∧ (∀ c ∈ r.seq, letter c = true)) :
    ∀ x ∈ buildLines rs, CleanStr x.1 := by
  intro x hx
  simp only [buildLines, List.mem_flatMap, List.mem_cons, List.not_mem_nil, or_false] at hx
  obtain ⟨r, hr, rfl | rfl⟩ := hx
  · exact cleanStr_cons ⟨by decide, by decide⟩ (cleanStr_of fun c hc => printable_clean ((h r hr).1 c hc))
  · exact cleanStr_of fun c hc => let h := letter_clean ((h r hr).2 c hc); ⟨h.1, h.2.1⟩

/-- the common core of `parse_build` and `parse_layout`: a text rendered from clean lines that form
well-formed blocks parses to the blocks' records -/
theorem parse_render (m : Nat) (ls : List Line) (f : Bool) (bs : List Block)
    (hclean : ∀ x ∈ ls, CleanStr x.1) (htexts : ls.map (·.1) = bs.flatMap Block.lines)
    (hok : ∀ b ∈ bs, b.ok) (hne : bs ≠ []) (hfit : LinesFit m (renderLines ls f)) :
    parse m (renderLines ls f) = bs.map Block.toRec := by
  unfold parse
  rw [scanLines_of_fit hfit, rawLines_render ls f (fun x hx => (hclean x hx).1),
    ← parseLines_filter, scanned_render ls f (fun x hx => (hclean x hx).2), parseLines_filter, htexts,
    parseLines_blocks bs hok hne]

end PolyVerif.Fasta
