import PolyVerif.Lemmas.GenbankRef
/-
C01: the feature table — `getFeatures` on the lines of `featsLines`.
-/
set_option linter.unusedSimpArgs false
namespace PolyVerif.Lemmas.Genbank
open PolyVerif PolyVerif.Str PolyVerif.Genbank PolyVerif.GbLayout

/-! ### reading lines by index -/

theorem lineAt_mid (A : List Str) (l : Str) (B : List Str) : lineAt (A ++ l :: B) A.length = .ok l := by
  simp [lineAt]

theorem getElem?_mid (A : List Str) (l : Str) (B : List Str) : (A ++ l :: B)[A.length]? = some l := by simp

/-! ### column facts: a line that starts with 21 blanks -/

theorem spaces21_get (c : Str) (j : Nat) (h : j < 21) : (spaces 21 ++ c)[j]? = some ' ' := by
  rw [List.getElem?_append_left (by simp [spaces]; exact h)]
  simp only [spaces, List.getElem?_replicate, h, if_true]

theorem spaces21_get21 (c : Str) : (spaces 21 ++ c)[21]? = c.head? := by
  rw [List.getElem?_append_right (by simp [spaces])]
  simp [spaces]; cases c <;> rfl

theorem trimSpace_spaces_only (n : Nat) : trimSpace (spaces n) = [] := by
  have := trimSpace_spaces n 0 [] (by simp) (by simp); simpa [spaces] using this

/-- a chunk of a location: non-empty, location characters only -/
def LocChunk (c : Str) : Prop := c ≠ [] ∧ ∀ x ∈ c, isLocChar x = true

theorem isVisible_facts {x : Char} (h : isVisible x = true) : x ≠ ' ' ∧ isSpace x = false ∧ isPrint x = true := by
  simp only [isVisible, Bool.and_eq_true, bne_iff_ne, ne_eq] at h
  exact ⟨h.2, isSpace_false_of_print h.1 h.2, h.1⟩

theorem isLocChar_facts {x : Char} (h : isLocChar x = true) : x ≠ ' ' ∧ isSpace x = false := by
  have := isVisible_facts (x := x) h; exact ⟨this.1, this.2.1⟩

theorem LocChunk.trim {c : Str} (h : LocChunk c) (n : Nat) : trimSpace (spaces n ++ c) = c := by
  have := trimSpace_spaces n 0 c
    (fun x hx => (isLocChar_facts (h.2 x (List.mem_of_mem_head? hx))).2)
    (fun x hx => (isLocChar_facts (h.2 x (List.mem_of_getLast? hx))).2)
  simpa [spaces] using this

/-- the condition of the location-continuation loop -/
def IsLocCont (l : Str) : Prop :=
  l.length > qualifierIndex ∧ trimSpace (l.take qualifierIndex) = [] ∧ l[qualifierIndex]? ≠ some '/'

instance (l : Str) : Decidable (IsLocCont l) := by unfold IsLocCont; exact inferInstance

theorem isLocCont_chunk {c : Str} (h : LocChunk c) (hs : c.head? ≠ some '/') : IsLocCont (spaces 21 ++ c) := by
  obtain ⟨hne, hall⟩ := h
  obtain ⟨x, xs, rfl⟩ : ∃ x xs, c = x :: xs := by cases c with | nil => exact absurd rfl hne | cons x xs => exact ⟨x, xs, rfl⟩
  refine ⟨by simp [spaces, qualifierIndex], ?_, ?_⟩
  · have : (spaces 21 ++ x :: xs).take qualifierIndex = spaces 21 := by
      simp [qualifierIndex, spaces, List.take_append]
    rw [this]; exact trimSpace_spaces_only 21
  · rw [show qualifierIndex = 21 from rfl, spaces21_get21]
    simpa using hs

/-- the location loop runs over the continuation lines and stops at the first other line -/
theorem locLoop_conts (lines : List Str) (lineIndex : Nat) (conts : List Str) (stop : Str) (B : List Str)
    (hc : ∀ c ∈ conts, LocChunk c ∧ c.head? ≠ some '/') (hstop : ¬ IsLocCont stop) :
    ∀ (A : List Str) (n : Nat) (loc : Str) (fuel : Nat),
      lines = A ++ (conts.map (spaces 21 ++ ·) ++ stop :: B) → lineIndex + n + 1 = A.length → conts.length < fuel →
      locLoop lines lineIndex fuel n loc = .ok (loc ++ conts.flatten, n + conts.length + 1) := by
  induction conts with
  | nil =>
    intro A n loc fuel hl hi hf
    obtain ⟨f, rfl⟩ : ∃ f, fuel = f + 1 := ⟨fuel - 1, by simp at hf; omega⟩
    simp only [List.map_nil, List.nil_append] at hl
    subst hl
    simp only [locLoop]
    rw [show lineIndex + (n + 1) = A.length by omega, lineAt_mid]
    simp only [Outcome.bind_ok']
    simp only [IsLocCont] at hstop
    rw [if_neg hstop]; simp
  | cons c cs ih =>
    intro A n loc fuel hl hi hf
    obtain ⟨f, rfl⟩ : ∃ f, fuel = f + 1 := ⟨fuel - 1, by simp at hf; omega⟩
    obtain ⟨hcc, hcs⟩ := hc c (by simp)
    simp only [List.map_cons, List.cons_append] at hl
    subst hl
    simp only [locLoop]
    rw [show lineIndex + (n + 1) = A.length by omega, lineAt_mid]
    simp only [Outcome.bind_ok']
    have hpos := isLocCont_chunk hcc hcs
    simp only [IsLocCont] at hpos
    rw [if_pos hpos, hcc.trim 21]
    rw [ih (fun x hx => hc x (by simp [hx])) (A ++ [spaces 21 ++ c]) (n + 1) (loc ++ c) f (by simp)
      (by simp; omega) (by simp at hf; omega)]
    simp [List.append_assoc]; omega

/-! ### the continuation loop of a qualifier -/

/-- the test `unclosedQuote` of the continuation loop -/
abbrev unclosed (qualifier : Str) : Bool := unclosedQuote qualifier

/-- `qualifier += " " + chunk` / `qualifier += chunk` -/
def appendQ (isTr : Bool) (q d : Str) : Str := if !isTr then q ++ c!" " ++ d else q ++ d

/-- what the continuation loop needs of the qualifier text so far and of the chunks still to come: a
chunk that begins with '/' is accepted only while the quotation mark is open -/
def QState (isTr : Bool) : Str → List Str → Prop
  | q, [] => unclosed q = false
  | q, d :: rest => (d.head? = some '/' → unclosed q = true) ∧ d ≠ [] ∧ trimSpace (spaces 21 ++ d) = d
      ∧ QState isTr (appendQ isTr q d) rest

/-- a continuation line that does not begin with '/' is accepted by its column -/
theorem cont_line_plain (d : Str) (hd : d ≠ []) (hs : d.head? ≠ some '/') :
    quickQualifierSubLineCheck (spaces 21 ++ d) = .ok true := by
  obtain ⟨x, xs, rfl⟩ : ∃ x xs, d = x :: xs := by cases d with | nil => exact absurd rfl hd | cons x xs => exact ⟨x, xs, rfl⟩
  have hx : x ≠ '/' := by simpa using hs
  have g0 := spaces21_get (x :: xs) 0 (by omega)
  have g5 := spaces21_get (x :: xs) 5 (by omega)
  have g20 := spaces21_get (x :: xs) 20 (by omega)
  have g21 : (spaces 21 ++ x :: xs)[21]? = some x := by rw [spaces21_get21]; rfl
  simp [quickQualifierSubLineCheck, Str.at, subMetaIndex, qualifierIndex, g0, g5, g20, g21, hx]

/-- one that begins with '/' only by the open quotation mark -/
theorem cont_line_slash (d : Str) (hs : d.head? = some '/') :
    quickQualifierSubLineCheck (spaces 21 ++ d) = .ok false ∧ quickQualifierCheck (spaces 21 ++ d) = .ok true := by
  obtain ⟨xs, rfl⟩ : ∃ xs, d = '/' :: xs := by
    cases d with
    | nil => simp at hs
    | cons x xs => simp at hs; subst hs; exact ⟨xs, rfl⟩
  have g0 := spaces21_get ('/' :: xs) 0 (by omega)
  have g5 := spaces21_get ('/' :: xs) 5 (by omega)
  have g21 : (spaces 21 ++ '/' :: xs)[21]? = some '/' := by rw [spaces21_get21]; rfl
  simp [quickQualifierSubLineCheck, quickQualifierCheck, Str.at, subMetaIndex, qualifierIndex, g0, g5, g21]

theorem subLoop_conts (lines : List Str) (isTr : Bool) (ds : List Str) (stop : Str) (B : List Str)
    (hstop : quickQualifierSubLineCheck stop = .ok false) :
    ∀ (A : List Str) (q : Str) (fuel : Nat),
      lines = A ++ (ds.map (spaces 21 ++ ·) ++ stop :: B) → QState isTr q ds → ds.length < fuel →
      subLoop lines isTr fuel q A.length ((ds.map (spaces 21 ++ ·) ++ [stop]).headD []) =
        .ok (ds.foldl (appendQ isTr) q, A.length + ds.length, stop) := by
  induction ds with
  | nil =>
    intro A q fuel hl hq hf
    obtain ⟨f, rfl⟩ : ∃ f, fuel = f + 1 := ⟨fuel - 1, by simp at hf; omega⟩
    simp only [QState] at hq
    simp only [List.map_nil, List.nil_append, List.headD_cons, subLoop, hstop, Outcome.bind_ok']
    simp [hq]
  | cons d rest ih =>
    intro A q fuel hl hq hf
    obtain ⟨f, rfl⟩ : ∃ f, fuel = f + 1 := ⟨fuel - 1, by simp at hf; omega⟩
    obtain ⟨hu, hd, htr, hq'⟩ := hq
    simp only [List.map_cons, List.cons_append] at hl
    subst hl
    have hnext : lineAt (A ++ (spaces 21 ++ d) :: (rest.map (spaces 21 ++ ·) ++ stop :: B)) (A.length + 1)
        = .ok ((rest.map (spaces 21 ++ ·) ++ [stop]).headD []) := by
      have e : A ++ (spaces 21 ++ d) :: (rest.map (spaces 21 ++ ·) ++ stop :: B)
          = (A ++ [spaces 21 ++ d]) ++ (rest.map (spaces 21 ++ ·) ++ stop :: B) := by simp
      rw [e]
      cases rest with
      | nil => simpa using lineAt_mid (A ++ [spaces 21 ++ d]) stop B
      | cons r rs =>
        simpa using lineAt_mid (A ++ [spaces 21 ++ d]) (spaces 21 ++ r) (rs.map (spaces 21 ++ ·) ++ stop :: B)
    have hrec := ih (A ++ [spaces 21 ++ d]) (appendQ isTr q d) f (by simp) hq' (by simp at hf; omega)
    simp only [List.length_append, List.length_cons, List.length_nil] at hrec
    simp only [List.map_cons, List.cons_append, List.headD_cons, subLoop]
    have happ : (if !isTr then q ++ c!" " ++ trimSpace (spaces 21 ++ d) else q ++ trimSpace (spaces 21 ++ d)) = appendQ isTr q d := by
      rw [htr]; rfl
    by_cases hs : d.head? = some '/'
    · obtain ⟨h1, h2⟩ := cont_line_slash d hs
      simp only [h1, Outcome.bind_ok', Bool.false_eq_true, if_false, hu hs, if_true, h2, Bool.not_true, happ, hnext]
      rw [hrec]; simp [List.foldl_cons]; omega
    · have h1 := cont_line_plain d hd hs
      simp only [h1, Outcome.bind_ok', if_true, Bool.not_true, Bool.false_eq_true, if_false, happ, hnext]
      rw [hrec]; simp [List.foldl_cons]; omega

/-! ### the text of one qualifier -/

/-- `/key="` -/
def W (k : Str) : Str := '/' :: (k ++ c!"=\"")

/-- the separator the parser puts between continuation lines -/
def sepOf (isTr : Bool) : Str := if isTr then [] else c!" "

theorem appendQ_eq (isTr : Bool) (q d : Str) : appendQ isTr q d = q ++ sepOf isTr ++ d := by
  cases isTr <;> simp [appendQ, sepOf]

/-- the last character is not white space -/
def NSLast (s : Str) : Prop := ∀ c, s.getLast? = some c → isSpace c = false

theorem trimSpace_21 (X : Str) (c : Char) (r : Str) (hX : X = c :: r) (hc : isSpace c = false) (hl : NSLast X) :
    trimSpace (spaces 21 ++ X) = X := by
  have := trimSpace_spaces 21 0 X (by intro y hy; rw [hX] at hy; simp at hy; subst hy; exact hc) hl
  simpa [spaces] using this

theorem count_quote_append (a b : Str) : (a ++ b).count '"' = a.count '"' + b.count '"' := List.count_append

theorem count_zero_of_not_mem {s : Str} (h : '"' ∉ s) : s.count '"' = 0 := List.count_eq_zero.mpr h

structure KeyOK (k : Str) : Prop where
  ne : k ≠ []
  noq : '"' ∉ k
  noeq : '=' ∉ k
  nosp : ∀ c ∈ k, isSpace c = false

theorem keyOK_of_wf {k : Str} (h1 : k ≠ []) (h2 : k.all isQualKeyChar = true) : KeyOK k := by
  rw [List.all_eq_true] at h2
  have hv : ∀ c ∈ k, isVisible c = true ∧ c ≠ '=' ∧ c ≠ '/' ∧ c ≠ '"' := by
    intro c hc
    have := h2 c hc
    simp only [isQualKeyChar, Bool.and_eq_true, bne_iff_ne, ne_eq] at this
    exact ⟨this.1.1.1, this.1.1.2, this.1.2, this.2⟩
  refine ⟨h1, ?_, ?_, ?_⟩
  · intro hm; exact (hv _ hm).2.2.2 rfl
  · intro hm; exact (hv _ hm).2.1 rfl
  · intro c hc; exact (isVisible_facts (hv c hc).1).2.1

theorem count_W (k : Str) (hk : KeyOK k) : (W k).count '"' = 1 := by
  simp only [W]
  rw [List.count_cons, count_quote_append, count_zero_of_not_mem hk.noq]
  decide

/-- the qualifier text so far is open: it holds a quotation mark and does not end with one -/
theorem unclosed_open (k : Str) (body : Str) (hl : NSLast (W k ++ body)) (hend : (W k ++ body).getLast? ≠ some '"') :
    unclosed (spaces 21 ++ (W k ++ body)) = true := by
  simp only [unclosed, unclosedQuote]
  rw [trimSpace_21 (W k ++ body) '/' (k ++ c!"=\"" ++ body) (by simp [W]) (by decide) hl]
  have he : List.elem '"' (W k ++ body) = true := by simp [W]
  have hs : hasSuffix (W k ++ body) c!"\"" = false := by
    cases h : hasSuffix (W k ++ body) c!"\"" with
    | false => rfl
    | true =>
      exfalso; apply hend
      simp only [hasSuffix, List.reverse_cons, List.reverse_nil, List.nil_append] at h
      rw [← List.head?_reverse]
      cases hr : (W k ++ body).reverse with
      | nil => rw [hr] at h; simp [List.isPrefixOf] at h
      | cons y ys => rw [hr] at h; simp [List.isPrefixOf] at h; rw [← h]; rfl
  rw [he, hs]; simp

theorem hasSuffix_append_self (a b : Str) : hasSuffix (a ++ b) b = true := by
  simp [hasSuffix, List.reverse_append]

/-- the complete text is closed: the opening and the closing quotation mark, the closing one last -/
theorem unclosed_closed (k : Str) (body : Str) :
    unclosed (spaces 21 ++ (W k ++ body ++ c!"\"")) = false := by
  simp only [unclosed, unclosedQuote]
  have hl : NSLast (W k ++ body ++ c!"\"") := by
    intro c hc; rw [getLast?_append_ne _ _ (by simp)] at hc; simp at hc; subst hc; decide
  rw [trimSpace_21 (W k ++ body ++ c!"\"") '/' (k ++ c!"=\"" ++ body ++ c!"\"") (by simp [W]) (by decide) hl]
  have hc : 2 ≤ (W k ++ body ++ c!"\"").count '"' := by
    rw [count_quote_append, count_quote_append]
    have h1 : 1 ≤ (W k).count '"' := by
      simp only [W]; rw [List.count_cons, count_quote_append]
      have : (c!"=\"").count '"' = 1 := by decide
      omega
    have h2 : (c!"\"").count '"' = 1 := by decide
    omega
  rw [hasSuffix_append_self]
  have : decide ((W k ++ body ++ c!"\"").count '"' ≥ 2) = true := by simpa using hc
  rw [this]; simp

/-- chunk lists as the writer produces them for a value: boundaries `BndQ`, printable -/
structure ValChunks (p : Char) (cs : List Str) : Prop where
  bnd : BndQ p cs
  pr : ∀ c ∈ cs, ∀ x ∈ c, isPrint x = true

theorem join_cons_cons (sep a b : Str) (r : List Str) : join sep (a :: b :: r) = a ++ sep ++ join sep (b :: r) := rfl

theorem closeLast_cons_cons (a b : Str) (r : List Str) : closeLast (a :: b :: r) = a :: closeLast (b :: r) := rfl

theorem closeLast_ne_nil (a : Str) (r : List Str) : closeLast (a :: r) ≠ [] := by
  cases r <;> simp [closeLast]

theorem isSpace_iff_of_print {c : Char} (h : isPrint c = true) : isSpace c = false ↔ c ≠ ' ' := by
  constructor
  · intro hs; rintro rfl; revert hs; decide
  · exact isSpace_false_of_print h

/-- the continuation loop over the chunks of one value: a chunk beginning with '/' finds the quotation
mark open, the complete text is closed, and the text put together is `/key="` + the chunks joined by the
separator + `"` -/
theorem qstate_chunks (isTr : Bool) (k : Str) :
    ∀ (cs : List Str) (c0 pre : Str) (p : Char), ValChunks p (c0 :: cs) →
      (cs ≠ [] → ∃ x, c0.getLast? = some x ∧ x ≠ ' ') →
      ∃ d0 ds, closeLast (c0 :: cs) = d0 :: ds ∧
        QState isTr (spaces 21 ++ (W k ++ pre ++ d0)) ds ∧
        ds.foldl (appendQ isTr) (spaces 21 ++ (W k ++ pre ++ d0))
          = spaces 21 ++ (W k ++ pre ++ join (sepOf isTr) (c0 :: cs) ++ c!"\"") := by
  intro cs
  induction cs with
  | nil =>
    intro c0 pre p hv _
    refine ⟨c0 ++ c!"\"", [], rfl, ?_, ?_⟩
    · simp only [QState]
      have := unclosed_closed k (pre ++ c0)
      simpa [List.append_assoc] using this
    · simp [join, List.append_assoc]
  | cons c1 cs' ih =>
    intro c0 pre p hv hlast
    obtain ⟨x0, hx0, hx0ne⟩ := hlast (by simp)
    obtain ⟨hb1, ⟨y, ys, hy, hyne, hguard⟩, hb3⟩ := hv.bnd
    subst hy
    have hv' : ValChunks p ((y :: ys) :: cs') := ⟨hb3, fun c hc => hv.pr c (by simp [hc])⟩
    have hlast' : cs' ≠ [] → ∃ x, (y :: ys).getLast? = some x ∧ x ≠ ' ' := by
      intro hne
      obtain ⟨c2, cs'', rfl⟩ : ∃ c2 cs'', cs' = c2 :: cs'' := by
        cases cs' with | nil => exact absurd rfl hne | cons a b => exact ⟨a, b, rfl⟩
      have h := hb3.1
      have e : (y :: ys).getLast? = some ((y :: ys).getLast (by simp)) := List.getLast?_eq_some_getLast (by simp)
      rw [e] at h
      exact ⟨_, e, by simpa using h⟩
    obtain ⟨d1, ds', hcl, hqs, hfold⟩ := ih (y :: ys) (pre ++ c0 ++ sepOf isTr) p hv' hlast'
    have hc0ne : c0 ≠ [] := by rintro rfl; simp at hx0
    have hlastq : (W k ++ pre ++ c0).getLast? = some x0 := by rw [getLast?_append_ne _ _ hc0ne, hx0]
    refine ⟨c0, d1 :: ds', by rw [closeLast_cons_cons, hcl], ?_, ?_⟩
    · -- d1 is y :: ys (possibly with the closing quotation mark)
      have hd1 : ∃ t, d1 = y :: t ∧ NSLast d1 := by
        cases cs' with
        | nil =>
          have hcl1 : d1 = (y :: ys) ++ c!"\"" := by
            have : closeLast [y :: ys] = [(y :: ys) ++ c!"\""] := rfl
            rw [this] at hcl; exact (List.cons.inj hcl).1.symm
          refine ⟨ys ++ c!"\"", by rw [hcl1]; rfl, ?_⟩
          intro c hc; rw [hcl1, getLast?_append_ne _ _ (by simp)] at hc; simp at hc; subst hc; decide
        | cons c2 cs'' =>
          rw [closeLast_cons_cons] at hcl
          simp at hcl
          refine ⟨ys, hcl.1.symm, ?_⟩
          obtain ⟨x, hx, hxne⟩ := hlast' (by simp)
          intro c hc; rw [← hcl.1, hx] at hc; cases hc
          exact isSpace_false_of_print (hv.pr (y :: ys) (by simp) x (List.mem_of_getLast? hx)) hxne
      obtain ⟨t, hd1eq, hd1last⟩ := hd1
      have hyprint : isPrint y = true := hv.pr (y :: ys) (by simp) y (by simp)
      refine ⟨?_, by rw [hd1eq]; simp, trimSpace_21 d1 y t hd1eq (isSpace_false_of_print hyprint hyne) hd1last, ?_⟩
      · -- a chunk beginning with '/': the text so far does not end with a quotation mark
        intro hslash
        have hy : y = '/' := by rw [hd1eq] at hslash; simpa using hslash
        rw [List.append_assoc (W k)]
        apply unclosed_open k (pre ++ c0)
        · intro c hc
          rw [← List.append_assoc, hlastq] at hc; cases hc
          exact isSpace_false_of_print (hv.pr c0 (by simp) x0 (List.mem_of_getLast? hx0)) hx0ne
        · rw [← List.append_assoc, hlastq]
          intro e; cases e
          apply hguard
          rw [hx0]; exact ⟨rfl, hy⟩
      · rw [appendQ_eq]
        have : spaces 21 ++ (W k ++ pre ++ c0) ++ sepOf isTr ++ d1 = spaces 21 ++ (W k ++ (pre ++ c0 ++ sepOf isTr) ++ d1) := by
          simp [List.append_assoc]
        rw [this]; exact hqs
    · rw [List.foldl_cons, appendQ_eq]
      have : spaces 21 ++ (W k ++ pre ++ c0) ++ sepOf isTr ++ d1 = spaces 21 ++ (W k ++ (pre ++ c0 ++ sepOf isTr) ++ d1) := by
        simp [List.append_assoc]
      rw [this, hfold, join_cons_cons]
      simp [List.append_assoc]

/-! ### from the qualifier text to key and value -/

theorem takeWhile_append_stop (p : Char → Bool) (a : Str) (c : Char) (r : Str) (ha : ∀ x ∈ a, p x = true) (hc : p c = false) :
    (a ++ c :: r).takeWhile p = a ∧ (a ++ c :: r).dropWhile p = c :: r := by
  induction a with
  | nil => simp [List.takeWhile, List.dropWhile, hc]
  | cons x xs ih =>
    have := ih (fun y hy => ha y (by simp [hy]))
    simp [List.takeWhile, List.dropWhile, ha x (by simp), this.1, this.2]

/-- the enclosing quotation marks are stripped as a set of characters: the value comes back when it
neither begins nor ends with one -/
theorem trim_quotes (v : Str) (h1 : v.head? ≠ some '"') (h2 : v.getLast? ≠ some '"') :
    trim ('"' :: (v ++ c!"\"")) c!"\"" = v := by
  have hq : (c!"\"").contains '"' = true := by decide
  simp only [trim]
  rw [List.dropWhile_cons_of_pos hq]
  cases v with
  | nil => simp [List.dropWhile]
  | cons x xs =>
    have hx : (c!"\"").contains x = false := by
      have : x ≠ '"' := by simpa using h1
      simp [this]
    rw [List.cons_append, List.dropWhile_cons_of_neg (by rw [hx]; simp)]
    have : (x :: (xs ++ c!"\"")).reverse = '"' :: (x :: xs).reverse := by simp
    rw [this, List.dropWhile_cons_of_pos hq]
    cases hrev : (x :: xs).reverse with
    | nil => simp at hrev
    | cons y ys =>
      have hy : y ≠ '"' := by
        have : (x :: xs).getLast? = some y := by rw [← List.head?_reverse, hrev]; rfl
        rintro rfl; exact h2 this
      rw [List.dropWhile_cons_of_neg (by simp [hy]), ← hrev, List.reverse_reverse]

/-- key and value from the complete qualifier text -/
theorem parse_qual_text (k v : Str) (hk : KeyOK k) (h1 : v.head? ≠ some '"') (h2 : v.getLast? ≠ some '"') :
    let qf := spaces 21 ++ (W k ++ v ++ c!"\"")
    let sp := splitN2 '=' (trimSpace qf)
    sp = ['/' :: k, '"' :: (v ++ c!"\"")] ∧ trimPrefix (trimSpace ('/' :: k)) c!"/" = k
      ∧ unquoteValue (trimSpace ('"' :: (v ++ c!"\""))) = v := by
  have hl : NSLast (W k ++ v ++ c!"\"") := by
    intro c hc; rw [getLast?_append_ne _ _ (by simp)] at hc; simp at hc; subst hc; decide
  have ht : trimSpace (spaces 21 ++ (W k ++ v ++ c!"\"")) = W k ++ v ++ c!"\"" :=
    trimSpace_21 _ '/' (k ++ c!"=\"" ++ v ++ c!"\"") (by simp [W]) (by decide) hl
  have hform : W k ++ v ++ c!"\"" = ('/' :: k) ++ '=' :: ('"' :: (v ++ c!"\"")) := by simp [W]
  have hall : ∀ x ∈ '/' :: k, (x != '=') = true := by
    intro x hx
    simp only [List.mem_cons] at hx
    rcases hx with rfl | hx
    · decide
    · simp; rintro rfl; exact hk.noeq hx
  obtain ⟨t1, t2⟩ := takeWhile_append_stop (· != '=') ('/' :: k) '=' ('"' :: (v ++ c!"\"")) hall (by decide)
  refine ⟨?_, ?_, ?_⟩
  · simp only [ht]
    have hc : List.contains (W k ++ v ++ c!"\"") '=' = true := by simp [W]
    simp only [splitN2, hc, if_true]
    rw [hform, t1, t2]; rfl
  · have : trimSpace ('/' :: k) = '/' :: k := by
      apply trimSpace_id
      · intro c hc; simp at hc; subst hc; decide
      · intro c hc
        rw [List.getLast?_cons] at hc
        cases hkl : k.getLast? with
        | none => exact absurd (List.getLast?_eq_none_iff.mp hkl) hk.ne
        | some y => rw [hkl] at hc; simp at hc; subst hc; exact hk.nosp y (List.mem_of_getLast? hkl)
    rw [this]; simp [trimPrefix]
  · have : trimSpace ('"' :: (v ++ c!"\"")) = '"' :: (v ++ c!"\"") := by
      apply trimSpace_id
      · intro c hc; simp at hc; subst hc; decide
      · intro c hc
        rw [← List.cons_append, getLast?_append_ne _ _ (by simp)] at hc; simp at hc; subst hc; decide
    rw [this]
    unfold unquoteValue
    have hpre : hasPrefix ('"' :: (v ++ c!"\"")) c!"\"" = true := by simp [hasPrefix, List.isPrefixOf]
    have hsuf : hasSuffix ('"' :: (v ++ c!"\"")) c!"\"" = true := by
      simp [hasSuffix, List.reverse_cons, List.reverse_append, List.isPrefixOf]
    rw [if_pos ⟨by simp, hpre, hsuf⟩]
    simp [List.dropLast_concat]

/-! ### the first line of a qualifier -/

/-- `L0 = 21 blanks + /key=" + first chunk` -/
theorem qual_first_line (k d0 : Str) (hk : KeyOK k) :
    quickQualifierCheck (spaces 21 ++ (W k ++ d0)) = .ok true ∧
      quickQualifierSubLineCheck (spaces 21 ++ (W k ++ d0)) = .ok false ∧
      trimSpace (headOf (split (spaces 21 ++ (W k ++ d0)) c!"=")) = '/' :: k := by
  have e : W k ++ d0 = '/' :: (k ++ c!"=\"" ++ d0) := by simp [W]
  have g0 := spaces21_get (W k ++ d0) 0 (by omega)
  have g5 := spaces21_get (W k ++ d0) 5 (by omega)
  have g21 : (spaces 21 ++ (W k ++ d0))[21]? = some '/' := by rw [spaces21_get21, e]; rfl
  refine ⟨?_, ?_, ?_⟩
  · simp [quickQualifierCheck, Str.at, subMetaIndex, qualifierIndex, g0, g5, g21]
  · simp [quickQualifierSubLineCheck, Str.at, subMetaIndex, qualifierIndex, g0, g5, g21]
  · have hform : spaces 21 ++ (W k ++ d0) = (spaces 21 ++ '/' :: k) ++ '=' :: ('"' :: d0) := by simp [W]
    have hne : '=' ∉ spaces 21 ++ '/' :: k := by
      simp only [List.mem_append, List.mem_cons, not_or, spaces, List.mem_replicate]
      exact ⟨by simp, by decide, hk.noeq⟩
    show trimSpace (headOf (splitC '=' _)) = _
    rw [hform, splitC_append '=' _ _ hne]
    simp only [headOf]
    have := trimSpace_spaces 21 0 ('/' :: k) (by intro c hc; simp at hc; subst hc; decide) (by
      intro c hc
      rw [List.getLast?_cons] at hc
      cases hkl : k.getLast? with
      | none => exact absurd (List.getLast?_eq_none_iff.mp hkl) hk.ne
      | some y => rw [hkl] at hc; simp at hc; subst hc; exact hk.nosp y (List.mem_of_getLast? hkl))
    simpa [spaces] using this

/-! ### the chunks the writer makes of a value -/

theorem wfQual_parts {q : Str × Str} (h : wfQual q = true) :
    KeyOK q.1 ∧ (∀ x ∈ q.2, isPrint x = true) ∧ q.2.head? ≠ some '"' ∧ q.2.getLast? ≠ some '"' := by
  simp only [wfQual, Bool.and_eq_true, bne_iff_ne, ne_eq, List.all_eq_true] at h
  obtain ⟨⟨⟨⟨h1, h2⟩, h3⟩, h4⟩, h5⟩ := h
  exact ⟨keyOK_of_wf h1 (by rw [List.all_eq_true]; exact h2), h3, h4, h5⟩

theorem valueChunks_ok (k v : Str) (bs : List Nat) (hp : ∀ x ∈ v, isPrint x = true) :
    ∃ c0 cs, valueChunks k v bs = c0 :: cs ∧ ValChunks ' ' (c0 :: cs) ∧
      join (sepOf (('/' :: k) == c!"/translation")) (c0 :: cs) = v ∧
      (cs ≠ [] → ∃ x, c0.getLast? = some x ∧ x ≠ ' ') := by
  have hlast : ∀ (c0 : Str) (cs : List Str), BndQ ' ' (c0 :: cs) → cs ≠ [] → ∃ x, c0.getLast? = some x ∧ x ≠ ' ' := by
    intro c0 cs hb hne
    obtain ⟨c1, cs', rfl⟩ : ∃ c1 cs', cs = c1 :: cs' := by
      cases cs with | nil => exact absurd rfl hne | cons a b => exact ⟨a, b, rfl⟩
    have h := hb.1
    cases hc : c0.getLast? with
    | none => rw [hc] at h; simp at h
    | some x => rw [hc] at h; exact ⟨x, rfl, by simpa using h⟩
  unfold valueChunks
  by_cases hk : k = c!"translation"
  · subst hk
    have hsep : sepOf (('/' :: c!"translation") == c!"/translation") = [] := rfl
    rw [if_pos rfl]
    have hne := cutAuxV_ne_nil bs 0 ' ' v
    cases hw : cutTextV bs v with
    | nil => exact absurd hw hne
    | cons c0 cs =>
      have hb : BndQ ' ' (c0 :: cs) := by rw [← hw]; exact BndQ_cutAuxV bs 0 ' ' v
      have hf : (c0 :: cs).flatten = v := by rw [← hw]; exact flatten_cutAuxV bs 0 ' ' v
      have hmem : ∀ c ∈ c0 :: cs, ∀ x ∈ c, x ∈ v := by
        intro c hc x hx; rw [← hf]; exact mem_of_mem_flatten_chunk _ c hc x hx
      refine ⟨c0, cs, rfl, ⟨hb, fun c hc x hx => hp x (hmem c hc x hx)⟩, ?_, hlast c0 cs hb⟩
      rw [hsep, join_nil_eq_flatten]; exact hf
  · have hsep : sepOf (('/' :: k) == c!"/translation") = c!" " := by
      have : (('/' :: k) == c!"/translation") = false := by
        rw [beq_eq_false_iff_ne]; intro e; exact hk (List.cons.inj e).2
      rw [this]; rfl
    simp only [hk, if_false]
    have hne := wrapAuxV_ne_nil bs 0 ' ' v
    cases hw : wrapTextV bs v with
    | nil => exact absurd hw hne
    | cons c0 cs =>
      have hb : BndQ ' ' (c0 :: cs) := by rw [← hw]; exact BndQ_wrapAuxV bs 0 ' ' v
      have hj : join c!" " (c0 :: cs) = v := by rw [← hw]; exact join_wrapAuxV bs 0 ' ' v
      have hmem : ∀ c ∈ c0 :: cs, ∀ x ∈ c, x ∈ v := by
        intro c hc x hx; rw [← hj]; exact mem_of_join_mem _ _ c hc x hx
      refine ⟨c0, cs, rfl, ⟨hb, fun c hc x hx => hp x (hmem c hc x hx)⟩, ?_, hlast c0 cs hb⟩
      rw [hsep]; exact hj

/-- `qualifierKey == "/translation"` as the loop computes it from the first line -/
def keyTr (L0 : Str) : Bool := trimSpace (headOf (split L0 c!"=")) == c!"/translation"

/-- label and value as the loop takes them from the complete qualifier text -/
def qualKV (q : Str) : Str × Str :=
  let sp := splitN2 '=' (trimSpace q)
  (trimPrefix (trimSpace (headOf sp)) c!"/", attributeValueOf sp)

/-- what the qualifier loop needs of the lines of one qualifier `(k, v)`: a first line that is a
qualifier line, continuation chunks that keep the continuation loop going exactly to the end, and a text
from which key and value come out -/
def QLines (k v : Str) (lines : List Str) : Prop :=
  ∃ L0 ds, lines = L0 :: ds.map (spaces 21 ++ ·) ∧ quickQualifierCheck L0 = .ok true
    ∧ quickQualifierSubLineCheck L0 = .ok false ∧ L0[21]? = some '/'
    ∧ QState (keyTr L0) L0 ds ∧ qualKV (ds.foldl (appendQ (keyTr L0)) L0) = (k, v)

/-- a first line `21 blanks + /key + tail` where the tail is empty or starts with '=' -/
theorem slashKey_line (k tail : Str) (hk : KeyOK k) (ht : tail = [] ∨ ∃ r, tail = '=' :: r) :
    quickQualifierCheck (spaces 21 ++ ('/' :: (k ++ tail))) = .ok true ∧
      quickQualifierSubLineCheck (spaces 21 ++ ('/' :: (k ++ tail))) = .ok false ∧
      (spaces 21 ++ ('/' :: (k ++ tail)))[21]? = some '/' ∧
      trimSpace (headOf (split (spaces 21 ++ ('/' :: (k ++ tail))) c!"=")) = '/' :: k := by
  have g0 := spaces21_get ('/' :: (k ++ tail)) 0 (by omega)
  have g5 := spaces21_get ('/' :: (k ++ tail)) 5 (by omega)
  have g21 : (spaces 21 ++ ('/' :: (k ++ tail)))[21]? = some '/' := by rw [spaces21_get21]; rfl
  have hne : '=' ∉ spaces 21 ++ '/' :: k := by
    simp only [List.mem_append, List.mem_cons, not_or, spaces, List.mem_replicate]
    exact ⟨by simp, by decide, hk.noeq⟩
  have htrim : trimSpace (spaces 21 ++ '/' :: k) = '/' :: k := by
    have := trimSpace_spaces 21 0 ('/' :: k) (by intro c hc; simp at hc; subst hc; decide) (by
      intro c hc
      rw [List.getLast?_cons] at hc
      cases hkl : k.getLast? with
      | none => exact absurd (List.getLast?_eq_none_iff.mp hkl) hk.ne
      | some y => rw [hkl] at hc; simp at hc; subst hc; exact hk.nosp y (List.mem_of_getLast? hkl))
    simpa [spaces] using this
  refine ⟨?_, ?_, g21, ?_⟩
  · simp [quickQualifierCheck, Str.at, subMetaIndex, qualifierIndex, g0, g5, g21]
  · simp [quickQualifierSubLineCheck, Str.at, subMetaIndex, qualifierIndex, g0, g5, g21]
  · show trimSpace (headOf (splitC '=' _)) = _
    rcases ht with rfl | ⟨r, rfl⟩
    · rw [List.append_nil, splitC_of_not_mem '=' _ hne]; exact htrim
    · have hform : spaces 21 ++ ('/' :: (k ++ '=' :: r)) = (spaces 21 ++ '/' :: k) ++ '=' :: r := by simp
      rw [hform, splitC_append '=' _ _ hne]; exact htrim

theorem W_eq (k d0 : Str) : W k ++ d0 = '/' :: (k ++ ('=' :: '"' :: d0)) := by simp [W]

theorem keyTr_eq (k tail : Str) (hk : KeyOK k) (ht : tail = [] ∨ ∃ r, tail = '=' :: r) :
    keyTr (spaces 21 ++ ('/' :: (k ++ tail))) = (('/' :: k) == c!"/translation") := by
  unfold keyTr; rw [(slashKey_line k tail hk ht).2.2.2]

theorem trimSpace_slashKey (k : Str) (hk : KeyOK k) : trimSpace ('/' :: k) = '/' :: k := by
  apply trimSpace_id
  · intro c hc; simp at hc; subst hc; decide
  · intro c hc
    rw [List.getLast?_cons] at hc
    cases hkl : k.getLast? with
    | none => exact absurd (List.getLast?_eq_none_iff.mp hkl) hk.ne
    | some y => rw [hkl] at hc; simp at hc; subst hc; exact hk.nosp y (List.mem_of_getLast? hkl)

theorem unclosed_noquote (X : Str) (h : '"' ∉ trimSpace X) : unclosed X = false := by
  simp only [unclosed, unclosedQuote]
  have : List.elem '"' (trimSpace X) = false := by simpa using h
  rw [this]; rfl

/-- the lines the writer makes of a qualifier, whatever the style, are such lines -/
theorem qualLines_ok (k v : Str) (bs : List Nat) (st : Nat) (h : wfQual (k, v) = true) : QLines k v (qualLines k v bs st) := by
  obtain ⟨hk, hp, hh1, hh2⟩ := wfQual_parts h
  unfold qualLines
  split
  · -- `/key`
    obtain ⟨c1, c2, c3, c4⟩ := slashKey_line k [] hk (Or.inl rfl)
    rename_i hst
    simp only [List.append_nil] at c1 c2 c3 c4
    have hL : spaces 21 ++ c!"/" ++ k = spaces 21 ++ ('/' :: k) := by simp
    refine ⟨spaces 21 ++ ('/' :: k), [], by rw [hL]; rfl, c1, c2, c3, ?_, ?_⟩
    · simp only [QState]
      apply unclosed_noquote
      have := trimSpace_spaces 21 0 ('/' :: k) (by intro c hc; simp at hc; subst hc; decide)
        (by intro c hc; have := trimSpace_slashKey k hk; rw [← this] at hc; rw [this] at hc
            rw [List.getLast?_cons] at hc
            cases hkl : k.getLast? with
            | none => exact absurd (List.getLast?_eq_none_iff.mp hkl) hk.ne
            | some y => rw [hkl] at hc; simp at hc; subst hc; exact hk.nosp y (List.mem_of_getLast? hkl))
      have e : trimSpace (spaces 21 ++ '/' :: k) = '/' :: k := by simpa [spaces] using this
      rw [e]; simp only [List.mem_cons, not_or]; exact ⟨by decide, hk.noq⟩
    · simp only [List.foldl_nil, qualKV]
      have e : trimSpace (spaces 21 ++ '/' :: k) = '/' :: k := by
        have := (slashKey_line k [] hk (Or.inl rfl)).2.2.2
        simp only [List.append_nil] at this
        have hs : split (spaces 21 ++ '/' :: k) c!"=" = [spaces 21 ++ '/' :: k] := by
          show splitC '=' _ = _
          apply splitC_of_not_mem
          simp only [List.mem_append, List.mem_cons, not_or, spaces, List.mem_replicate]
          exact ⟨by simp, by decide, hk.noeq⟩
        rw [hs] at this; exact this
      rw [e]
      have hc : List.contains ('/' :: k) '=' = false := by
        simp only [List.contains_cons, Bool.or_eq_false_iff]
        exact ⟨by decide, by simpa using hk.noeq⟩
      simp only [splitN2, hc, Bool.false_eq_true, if_false, headOf, trimSpace_slashKey k hk]
      rw [hst.2]; simp [trimPrefix, attributeValueOf]
  · split
    · -- `/key=value`
      rename_i _ hst
      have hcu := hst.2
      simp only [canUnquote, Bool.and_eq_true, bne_iff_ne, ne_eq, Bool.not_eq_true'] at hcu
      obtain ⟨⟨hvne, hvsp⟩, hvq⟩ := hcu
      have hvsp' : ' ' ∉ v := by simpa using hvsp
      have hq : '"' ∉ v := by simpa using hvq
      obtain ⟨c1, c2, c3, c4⟩ := slashKey_line k ('=' :: v) hk (Or.inr ⟨v, rfl⟩)
      have hL : spaces 21 ++ c!"/" ++ k ++ c!"=" ++ v = spaces 21 ++ ('/' :: (k ++ '=' :: v)) := by simp
      have hvlast : ∀ c, v.getLast? = some c → isSpace c = false := by
        intro c hc
        exact isSpace_false_of_print (hp c (List.mem_of_getLast? hc)) (by rintro rfl; exact hvsp' (List.mem_of_getLast? hc))
      have hvhead : ∀ c, v.head? = some c → isSpace c = false := by
        intro c hc
        exact isSpace_false_of_print (hp c (List.mem_of_mem_head? hc)) (by rintro rfl; exact hvsp' (List.mem_of_mem_head? hc))
      have e : trimSpace (spaces 21 ++ '/' :: (k ++ '=' :: v)) = '/' :: (k ++ '=' :: v) := by
        have := trimSpace_spaces 21 0 ('/' :: (k ++ '=' :: v)) (by intro c hc; simp at hc; subst hc; decide) (by
          intro c hc
          have : '/' :: (k ++ '=' :: v) = ('/' :: k ++ ['=']) ++ v := by simp
          rw [this, getLast?_append_ne _ _ hvne] at hc
          exact hvlast c hc)
        simpa [spaces] using this
      refine ⟨spaces 21 ++ ('/' :: (k ++ '=' :: v)), [], by rw [hL]; rfl, c1, c2, c3, ?_, ?_⟩
      · simp only [QState]
        apply unclosed_noquote
        rw [e]
        simp only [List.mem_cons, List.mem_append, not_or]
        exact ⟨by decide, hk.noq, by decide, hq⟩
      · simp only [List.foldl_nil, qualKV, e]
        have hall : ∀ x ∈ '/' :: k, (x != '=') = true := by
          intro x hx
          simp only [List.mem_cons] at hx
          rcases hx with rfl | hx
          · decide
          · simp; rintro rfl; exact hk.noeq hx
        obtain ⟨t1, t2⟩ := takeWhile_append_stop (· != '=') ('/' :: k) '=' v hall (by decide)
        have hform : '/' :: (k ++ '=' :: v) = ('/' :: k) ++ '=' :: v := by simp
        have hc : List.contains ('/' :: (k ++ '=' :: v)) '=' = true := by simp
        simp only [splitN2, hc, if_true]
        rw [hform, t1, t2]
        simp only [List.drop_succ_cons, List.drop_zero, headOf, trimSpace_slashKey k hk]
        have hv1 : trimSpace v = v := trimSpace_id v hvhead hvlast
        have hv2 : trim v c!"\"" = v := by
          have hnot : ∀ x ∈ v, (c!"\"").contains x = false := by
            intro x hx; simp; rintro rfl; exact hq hx
          simp only [trim]
          cases v with
          | nil => rfl
          | cons x xs =>
            rw [List.dropWhile_cons_of_neg (by rw [hnot x (by simp)]; simp)]
            have hl : ∃ y ys, (x :: xs).reverse = y :: ys ∧ y ∈ x :: xs := by
              cases h : (x :: xs).reverse with
              | nil => simp at h
              | cons y ys => exact ⟨y, ys, rfl, by rw [← List.mem_reverse, h]; simp⟩
            obtain ⟨y, ys, hrev, hy⟩ := hl
            rw [hrev, List.dropWhile_cons_of_neg (by rw [hnot y hy]; simp), ← hrev, List.reverse_reverse]
        have hv3 : unquoteValue v = v := by
          unfold unquoteValue
          rw [if_neg]
          · exact hv2
          · rintro ⟨_, hpre, _⟩
            cases v with
            | nil => exact hvne rfl
            | cons x xs =>
              simp only [hasPrefix, List.isPrefixOf, Bool.and_eq_true, beq_iff_eq] at hpre
              exact hq (by rw [← hpre.1]; simp)
        simp only [attributeValueOf]
        rw [hv1, hv3]; simp [trimPrefix]
    · -- `/key="value"`, wrapped
      obtain ⟨c0, cs, hvc, hV, hj, hl⟩ := valueChunks_ok k v bs hp
      obtain ⟨d0, ds, hcl, hqs, hfold⟩ := qstate_chunks (('/' :: k) == c!"/translation") k cs c0 [] ' ' hV hl
      simp only [List.append_nil] at hqs hfold
      obtain ⟨c1, c2, c3, c4⟩ := slashKey_line k ('=' :: '"' :: d0) hk (Or.inr ⟨_, rfl⟩)
      have hkt := keyTr_eq k ('=' :: '"' :: d0) hk (Or.inr ⟨_, rfl⟩)
      rw [← W_eq] at c1 c2 c3 hkt
      refine ⟨spaces 21 ++ (W k ++ d0), ds, ?_, c1, c2, c3, ?_, ?_⟩
      · rw [hvc, hcl]; simp [hang, W, List.append_assoc]
      · rw [hkt]; exact hqs
      · rw [hkt, hfold, hj]
        obtain ⟨p1, p2, p3⟩ := parse_qual_text k v hk hh1 hh2
        simp only [qualKV, p1, headOf, p2, attributeValueOf, p3]

/-! ### map insertion with fresh keys -/

theorem mapInsert_fresh (m : List (Str × Str)) (k v : Str) (h : k ∉ m.map (·.1)) : mapInsert m k v = m ++ [(k, v)] := by
  induction m with
  | nil => rfl
  | cons a r ih =>
    obtain ⟨k', v'⟩ := a
    have hk : k' ≠ k := fun e => h (by simp [e])
    simp only [mapInsert, hk, if_false, List.cons_append]
    rw [ih (fun hm => h (by simp [hm]))]

theorem distinct_cons {k : Str} {ks : List Str} (h : distinct (k :: ks) = true) : k ∉ ks ∧ distinct ks = true := by
  simp only [distinct, Bool.and_eq_true, Bool.not_eq_true'] at h
  exact ⟨by intro hm; have := h.1; simp [hm] at this, h.2⟩

/-- inserting pairs with pairwise distinct keys that are not yet in the map appends them -/
theorem foldl_mapInsert (qs : List (Str × Str)) (m : List (Str × Str)) (hd : distinct (qs.map (·.1)) = true)
    (hm : ∀ q ∈ qs, q.1 ∉ m.map (·.1)) :
    qs.foldl (fun m q => mapInsert m q.1 q.2) m = m ++ qs := by
  induction qs generalizing m with
  | nil => simp
  | cons q r ih =>
    obtain ⟨h1, h2⟩ := distinct_cons (by simpa using hd)
    rw [List.foldl_cons, mapInsert_fresh m q.1 q.2 (hm q (by simp)), ih _ h2]
    · simp
    · intro x hx
      simp only [List.map_append, List.map_cons, List.map_nil, List.mem_append, List.mem_singleton, not_or]
      refine ⟨hm x (by simp [hx]), ?_⟩
      intro e; exact h1 (by rw [← e]; exact List.mem_map.mpr ⟨x, hx, rfl⟩)

/-! ### the qualifier loop -/

theorem head_split (X : List Str) (stop : Str) (B : List Str) :
    ∃ B', X ++ stop :: B = (X ++ [stop]).headD [] :: B' := by
  cases X with
  | nil => exact ⟨B, rfl⟩
  | cons x xs => exact ⟨xs ++ stop :: B, rfl⟩

theorem qualsLines_cons (k v : Str) (qs : List (Str × Str)) (ls : List (List Nat)) (sts : List Nat) :
    qualsLines ((k, v) :: qs) ls sts = qualLines k v (ls.headD []) (sts.headD 0) ++ qualsLines qs ls.tail sts.tail := rfl

/-- the first line after the lines of a qualifier list does not look like a continuation line -/
theorem next_not_subline (qs : List (Str × Str)) (ls : List (List Nat)) (sts : List Nat) (stop : Str)
    (hq : ∀ q ∈ qs, wfQual q = true) (hs2 : quickQualifierSubLineCheck stop = .ok false) :
    quickQualifierSubLineCheck ((qualsLines qs ls sts ++ [stop]).headD []) = .ok false := by
  cases qs with
  | nil => exact hs2
  | cons q r =>
    obtain ⟨k, v⟩ := q
    obtain ⟨L0, ds, hshape, _, c2, _⟩ := qualLines_ok k v (ls.headD []) (sts.headD 0) (hq (k, v) (by simp))
    rw [qualsLines_cons, hshape]
    exact c2

theorem qualLoop_quals (lines : List Str) (stop : Str) (B : List Str)
    (hs1 : quickQualifierCheck stop = .ok false) (hs2 : quickQualifierSubLineCheck stop = .ok false) :
    ∀ (qs : List (Str × Str)) (ls : List (List Nat)) (sts : List Nat) (A : List Str) (attrs : List (Str × Str)) (fuel : Nat),
      lines = A ++ (qualsLines qs ls sts ++ stop :: B) → (∀ q ∈ qs, wfQual q = true) → qs.length < fuel →
      qualLoop lines fuel attrs A.length ((qualsLines qs ls sts ++ [stop]).headD []) =
        .ok (qs.foldl (fun m q => mapInsert m q.1 q.2) attrs, A.length + (qualsLines qs ls sts).length) := by
  intro qs
  induction qs with
  | nil =>
    intro ls sts A attrs fuel hl _ hf
    obtain ⟨f, rfl⟩ : ∃ f, fuel = f + 1 := ⟨fuel - 1, by simp at hf; omega⟩
    simp [qualsLines, qualLoop, hs1]
  | cons q rest ih =>
    intro ls sts A attrs fuel hl hq hf
    obtain ⟨f, rfl⟩ : ∃ f, fuel = f + 1 := ⟨fuel - 1, by simp at hf; omega⟩
    obtain ⟨k, v⟩ := q
    have hwq := hq (k, v) (by simp)
    obtain ⟨L0, ds, hshape, c1, _, _, hqs, hkv⟩ := qualLines_ok k v (ls.headD []) (sts.headD 0) hwq
    obtain ⟨B', hB'⟩ := head_split (qualsLines rest ls.tail sts.tail) stop B
    have hnext := next_not_subline rest ls.tail sts.tail stop (fun x hx => hq x (by simp [hx])) hs2
    generalize hstopR : (qualsLines rest ls.tail sts.tail ++ [stop]).headD [] = stopR at hB' hnext
    rw [qualsLines_cons, hshape] at hl ⊢
    simp only [List.cons_append, List.append_assoc] at hl
    rw [hB'] at hl
    subst hl
    simp only [List.cons_append, List.headD_cons, qualLoop, c1, Outcome.bind_ok', Bool.not_true, Bool.false_eq_true,
      if_false]
    -- the line after the first line of the qualifier
    have e1 : A ++ L0 :: (ds.map (spaces 21 ++ ·) ++ stopR :: B')
        = (A ++ [L0]) ++ (ds.map (spaces 21 ++ ·) ++ stopR :: B') := by simp
    have hline : lineAt (A ++ L0 :: (ds.map (spaces 21 ++ ·) ++ stopR :: B')) (A.length + 1)
        = .ok ((ds.map (spaces 21 ++ ·) ++ [stopR]).headD []) := by
      rw [e1]
      obtain ⟨B'', hB''⟩ := head_split (ds.map (spaces 21 ++ ·)) stopR B'
      rw [hB'']
      simpa using lineAt_mid (A ++ [L0]) _ B''
    rw [hline]
    simp only [Outcome.bind_ok']
    have hsub := subLoop_conts _ (keyTr L0) ds stopR B' hnext (A ++ [L0]) L0
      ((A ++ L0 :: (ds.map (spaces 21 ++ ·) ++ stopR :: B')).length + 1) e1 hqs (by simp; omega)
    simp only [List.length_append, List.length_cons, List.length_nil] at hsub
    simp only [List.length_append, List.length_cons, List.length_map]
    simp only [List.length_append, List.length_cons, List.length_map] at hsub
    rw [show (trimSpace (headOf (split L0 c!"=")) == c!"/translation") = keyTr L0 from rfl, hsub]
    simp only [Outcome.bind_ok']
    have hk1 : trimPrefix (trimSpace (headOf (splitN2 '=' (trimSpace (ds.foldl (appendQ (keyTr L0)) L0))))) c!"/" = k :=
      congrArg Prod.fst hkv
    have hv1 : attributeValueOf (splitN2 '=' (trimSpace (ds.foldl (appendQ (keyTr L0)) L0))) = v := congrArg Prod.snd hkv
    rw [hk1, hv1]
    -- the remaining qualifiers
    have hrec := ih ls.tail sts.tail (A ++ L0 :: ds.map (spaces 21 ++ ·)) (mapInsert attrs k v) f
      (by simp [hB']) (fun x hx => hq x (by simp [hx])) (by simp at hf; omega)
    rw [hstopR] at hrec
    simp only [List.length_append, List.length_cons, List.length_map] at hrec
    simp only [Nat.add_zero] at *
    rw [show A.length + 1 + ds.length = A.length + (ds.length + 1) by omega, hrec]
    simp [List.foldl_cons]; omega

/-! ### a feature line -/

structure FKeyOK (key : Str) : Prop where
  ne : key ≠ []
  len : key.length ≤ 15
  ns : ∀ c ∈ key, isSpace c = false ∧ c ≠ ' '

theorem fkeyOK_of_wf {key : Str} (h1 : key ≠ []) (h2 : key.length ≤ 15) (h3 : key.all isFeatKeyChar = true) : FKeyOK key := by
  rw [List.all_eq_true] at h3
  refine ⟨h1, h2, ?_⟩
  intro c hc
  have := h3 c hc
  refine ⟨?_, by rintro rfl; revert this; decide⟩
  simp only [isSpace, Bool.or_eq_false_iff, beq_eq_false_iff_ne]
  refine ⟨⟨⟨⟨⟨?_, ?_⟩, ?_⟩, ?_⟩, ?_⟩, ?_⟩ <;> (rintro rfl; revert this; decide)

/-- the feature line: 5 blanks, key, blanks up to column 21, first chunk of the location -/
def fLine (key lc0 : Str) : Str := padRight (spaces 5 ++ key) 21 ++ lc0

theorem fLine_eq (key lc0 : Str) (h : FKeyOK key) :
    ∃ k, fLine key lc0 = spaces 5 ++ (key ++ (spaces (k + 1) ++ lc0)) ∧ 5 + key.length + (k + 1) = 21 := by
  refine ⟨15 - key.length, ?_, by have := h.len; omega⟩
  simp only [fLine, padRight, List.length_append, List.append_assoc]
  have : 21 - ((spaces 5).length + key.length) = 15 - key.length + 1 := by have := h.len; simp [spaces]; omega
  rw [this]

theorem fLine_checks (key lc0 : Str) (h : FKeyOK key) :
    quickMetaCheck (fLine key lc0) = .ok false ∧ quickFeatureCheck (fLine key lc0) = .ok true ∧
      quickQualifierCheck (fLine key lc0) = .ok false ∧ quickQualifierSubLineCheck (fLine key lc0) = .ok false := by
  obtain ⟨k, hk, _⟩ := fLine_eq key lc0 h
  obtain ⟨x, xs, rfl⟩ : ∃ x xs, key = x :: xs := by
    cases key with | nil => exact absurd rfl h.ne | cons x xs => exact ⟨x, xs, rfl⟩
  have hx : x ≠ ' ' := (h.ns x (by simp)).2
  rw [hk]
  refine ⟨?_, ?_, ?_, ?_⟩ <;>
    simp [spaces, quickMetaCheck, quickFeatureCheck, quickQualifierCheck, quickQualifierSubLineCheck, Str.at,
      subMetaIndex, hx]

theorem fLine_not_locCont (key lc0 : Str) (h : FKeyOK key) : ¬ IsLocCont (fLine key lc0) := by
  obtain ⟨k, hk, hlen⟩ := fLine_eq key lc0 h
  intro ⟨_, h2, _⟩
  have : (fLine key lc0).take qualifierIndex = spaces 5 ++ key ++ spaces (k + 1) := by
    rw [hk]
    have e : spaces 5 ++ (key ++ (spaces (k + 1) ++ lc0)) = (spaces 5 ++ key ++ spaces (k + 1)) ++ lc0 := by simp
    rw [e, List.take_append_of_le_length (by simp [spaces, qualifierIndex]; omega)]
    exact List.take_of_length_le (by simp [spaces, qualifierIndex]; omega)
  rw [this] at h2
  have hk2 := trimSpace_spaces 5 (k + 1) key
    (fun c hc => (h.ns c (List.mem_of_mem_head? hc)).1) (fun c hc => (h.ns c (List.mem_of_getLast? hc)).1)
  rw [hk2] at h2
  exact h.ne h2

theorem getLastD_append_singleton (xs : List Str) (x d : Str) : (xs ++ [x]).getLastD d = x := by
  rw [List.getLastD_eq_getLast?]; simp

/-- type and first location chunk from the feature line -/
theorem fLine_split (key lc0 : Str) (h : FKeyOK key) (hl : LocChunk lc0) :
    trimSpace (headOf (split (trimSpace (fLine key lc0)) c!" ")) = key ∧
      trimSpace ((split (trimSpace (fLine key lc0)) c!" ").getLastD []) = lc0 := by
  obtain ⟨k, hk, _⟩ := fLine_eq key lc0 h
  have hns : ' ' ∉ key := fun hm => (h.ns _ hm).2 rfl
  have hlns : ' ' ∉ lc0 := fun hm => (isLocChar_facts (hl.2 _ hm)).1 rfl
  have ht : trimSpace (fLine key lc0) = key ++ (spaces (k + 1) ++ lc0) := by
    rw [hk]
    have := trimSpace_spaces 5 0 (key ++ (spaces (k + 1) ++ lc0)) (by
        intro c hc
        cases hkey : key with
        | nil => exact absurd hkey h.ne
        | cons x xs => rw [hkey] at hc; simp at hc; subst hc; exact (h.ns x (by rw [hkey]; simp)).1)
      (by
        intro c hc
        rw [← List.append_assoc, getLast?_append_ne _ _ hl.1] at hc
        exact (isLocChar_facts (hl.2 c (List.mem_of_getLast? hc))).2)
    simpa [spaces] using this
  have hkt : trimSpace key = key :=
    trimSpace_id key (fun c hc => (h.ns c (List.mem_of_mem_head? hc)).1) (fun c hc => (h.ns c (List.mem_of_getLast? hc)).1)
  rw [ht]
  show trimSpace (headOf (splitC ' ' _)) = key ∧ trimSpace ((splitC ' ' _).getLastD []) = lc0
  rw [splitC_gap key lc0 k hns, splitC_of_not_mem ' ' lc0 hlns]
  refine ⟨hkt, ?_⟩
  have : (key :: (List.replicate k ([] : Str) ++ [lc0])) = (key :: List.replicate k []) ++ [lc0] := by simp
  rw [this, getLastD_append_singleton]
  have := hl.trim 0; simpa [spaces] using this

/-! ### the feature loop -/

theorem featLines_eq (f : RFeature) (ℓ : FeatLayout) :
    ∃ lc0 lcs, cutLoc ℓ.loc f.loc = lc0 :: lcs ∧
      featLines f ℓ = fLine f.key lc0 :: (lcs.map (spaces 21 ++ ·) ++ qualsLines f.quals ℓ.quals ℓ.styles) := by
  cases hc : cutLoc ℓ.loc f.loc with
  | nil => exact absurd hc (cutLocAux_ne_nil _ _ _)
  | cons lc0 lcs => exact ⟨lc0, lcs, rfl, by simp [featLines, hc, hang, fLine]⟩

theorem wfFeatureLoose_parts {f : RFeature} (h : wfFeatureLoose f = true) :
    FKeyOK f.key ∧ f.loc ≠ [] ∧ (∀ x ∈ f.loc, isLocChar x = true) ∧ (∀ q ∈ f.quals, wfQual q = true) := by
  simp only [wfFeatureLoose, Bool.and_eq_true, bne_iff_ne, ne_eq, decide_eq_true_eq, List.all_eq_true] at h
  obtain ⟨⟨⟨⟨⟨⟨h1, h2⟩, h3⟩, h4⟩, h5⟩, h6⟩, _⟩ := h
  exact ⟨fkeyOK_of_wf h1 h2 (by rw [List.all_eq_true]; exact h3), h4, h5, h6⟩

theorem wfFeature_loose {f : RFeature} (h : wfFeature f = true) :
    wfFeatureLoose f = true ∧ distinct (f.quals.map (·.1)) = true := by
  simp only [wfFeature, wfFeatureLoose, Bool.and_eq_true] at h ⊢
  obtain ⟨⟨⟨⟨⟨⟨⟨h1, h2⟩, h3⟩, h4⟩, h5⟩, h6⟩, h7⟩, h8⟩ := h
  exact ⟨⟨⟨⟨⟨⟨⟨h1, h2⟩, h3⟩, h4⟩, h5⟩, h6⟩, h8⟩, h7⟩

theorem wfFeature_parts {f : RFeature} (h : wfFeature f = true) :
    FKeyOK f.key ∧ f.loc ≠ [] ∧ (∀ x ∈ f.loc, isLocChar x = true) ∧ (∀ q ∈ f.quals, wfQual q = true)
      ∧ distinct (f.quals.map (·.1)) = true := by
  obtain ⟨hl, hd⟩ := wfFeature_loose h
  obtain ⟨a, b, c, d⟩ := wfFeatureLoose_parts hl
  exact ⟨a, b, c, d, hd⟩

/-- the line that follows a feature's location lines is not a location continuation -/
theorem after_loc_not_cont (qs : List (Str × Str)) (ls : List (List Nat)) (sts : List Nat) (stop : Str)
    (hq : ∀ q ∈ qs, wfQual q = true) (hs : ¬ IsLocCont stop) :
    ¬ IsLocCont ((qualsLines qs ls sts ++ [stop]).headD []) := by
  cases qs with
  | nil => exact hs
  | cons q r =>
    obtain ⟨k, v⟩ := q
    obtain ⟨L0, ds, hshape, _, _, c3, _, _⟩ := qualLines_ok k v (ls.headD []) (sts.headD 0) (hq (k, v) (by simp))
    rw [qualsLines_cons, hshape]
    simp only [List.cons_append, List.headD_cons]
    intro ⟨_, _, h3⟩
    exact h3 c3

/-- stop lines of the feature table: what `featsLines fs ++ [stop]` starts with -/
structure FStop (l : Str) : Prop where
  q1 : quickQualifierCheck l = .ok false
  q2 : quickQualifierSubLineCheck l = .ok false
  nl : ¬ IsLocCont l

theorem featsLines_cons (f : RFeature) (fs : List RFeature) (ls : List FeatLayout) :
    featsLines (f :: fs) ls = featLines f (ls.headD {}) ++ featsLines fs ls.tail := rfl

theorem next_feature_stop (fs : List RFeature) (ls : List FeatLayout) (stop : Str)
    (hf : ∀ f ∈ fs, wfFeatureLoose f = true) (hs : FStop stop) : FStop ((featsLines fs ls ++ [stop]).headD []) := by
  cases fs with
  | nil => exact hs
  | cons f r =>
    obtain ⟨lc0, lcs, _, hfl⟩ := featLines_eq f (ls.headD {})
    obtain ⟨hk, _⟩ := wfFeatureLoose_parts (hf f (by simp))
    rw [featsLines_cons, hfl]
    simp only [List.cons_append, List.headD_cons]
    obtain ⟨_, _, c3, c4⟩ := fLine_checks f.key lc0 hk
    exact ⟨c3, c4, fLine_not_locCont f.key lc0 hk⟩

theorem qualsLines_length (qs : List (Str × Str)) (lq : List (List Nat)) (sts : List Nat) :
    qs.length ≤ (qualsLines qs lq sts).length := by
  induction qs generalizing lq sts with
  | nil => simp
  | cons q r ihq =>
    obtain ⟨k, v⟩ := q
    rw [qualsLines_cons]
    have hne : (qualLines k v (lq.headD []) (sts.headD 0)).length ≥ 1 := by
      unfold qualLines
      split
      · simp
      · split
        · simp
        · cases hcl : closeLast (valueChunks k v (lq.headD [])) <;> simp [hang]
    have := ihq lq.tail sts.tail
    simp only [List.length_cons, List.length_append]; omega

theorem toFeatureM_eq {f : RFeature} (hd : distinct (f.quals.map (·.1)) = true) : toFeatureM f = toFeature f := by
  have := foldl_mapInsert f.quals [] hd (by simp)
  simp only [List.nil_append] at this
  simp [toFeatureM, toFeature, this]

theorem featLoop_feats (lines : List Str) (stop : Str) (B : List Str)
    (hm : quickMetaCheck stop = .ok true) (hs : FStop stop) :
    ∀ (fs : List RFeature) (ls : List FeatLayout) (A : List Str) (acc : List Feature) (fuel : Nat),
      lines = A ++ (featsLines fs ls ++ stop :: B) → (∀ f ∈ fs, wfFeatureLoose f = true) → fs.length < fuel →
      featLoop lines fuel acc A.length = .ok (acc ++ fs.map toFeatureM) := by
  intro fs
  induction fs with
  | nil =>
    intro ls A acc fuel hl _ hf
    obtain ⟨f, rfl⟩ : ∃ f, fuel = f + 1 := ⟨fuel - 1, by simp at hf; omega⟩
    simp only [featsLines, List.nil_append] at hl
    subst hl
    simp [featLoop, hm]
  | cons ft rest ih =>
    intro ls A acc fuel hl hwf hf
    obtain ⟨f, rfl⟩ : ∃ f, fuel = f + 1 := ⟨fuel - 1, by simp at hf; omega⟩
    have hw := hwf ft (by simp)
    obtain ⟨hk, hlne, hlch, hqw⟩ := wfFeatureLoose_parts hw
    obtain ⟨lc0, lcs, hcut, hfl⟩ := featLines_eq ft (ls.headD {})
    -- the chunks of the location
    have hflat : (lc0 :: lcs).flatten = ft.loc := by rw [← hcut]; exact flatten_cutLocAux _ 0 _
    have hchunks : ∀ c ∈ lc0 :: lcs, LocChunk c := by
      intro c hc
      refine ⟨cutLocAux_chunks_ne _ 0 _ hlne c (by rw [← hcut] at hc; exact hc), ?_⟩
      intro x hx; exact hlch x (by rw [← hflat]; exact mem_of_mem_flatten_chunk _ c hc x hx)
    have hl0 := hchunks lc0 (by simp)
    obtain ⟨c1, c2, _, _⟩ := fLine_checks ft.key lc0 hk
    obtain ⟨s1, s2⟩ := fLine_split ft.key lc0 hk hl0
    have hnextF := next_feature_stop rest ls.tail stop (fun x hx => hwf x (by simp [hx])) hs
    obtain ⟨B1, hB1⟩ := head_split (featsLines rest ls.tail) stop B
    generalize hstopF : (featsLines rest ls.tail ++ [stop]).headD [] = stopF at hB1 hnextF
    generalize hQL : qualsLines ft.quals (ls.headD {}).quals (ls.headD {}).styles = QL at hfl
    have hnextQ := after_loc_not_cont ft.quals (ls.headD {}).quals (ls.headD {}).styles stopF hqw hnextF.nl
    rw [hQL] at hnextQ
    obtain ⟨B2, hB2⟩ := head_split QL stopF B1
    generalize hstopQ : (QL ++ [stopF]).headD [] = stopQ at hB2 hnextQ
    rw [featsLines_cons, hfl] at hl
    simp only [List.cons_append, List.append_assoc] at hl
    rw [hB1] at hl
    -- read the feature line
    have hget : lines[A.length]? = some (fLine ft.key lc0) := by rw [hl]; exact getElem?_mid _ _ _
    simp only [featLoop, hget, c1, c2, Outcome.bind_ok', Bool.false_eq_true, if_false, Bool.not_true, s1, s2]
    -- the location lines
    have hloc := locLoop_conts lines A.length lcs stopQ B2
      (fun c hc => ⟨hchunks c (by simp [hc]), by
        have := cutLocAux_tail_heads (ls.headD {}).loc 0 ft.loc c
        rw [show cutLocAux (ls.headD {}).loc 0 ft.loc = cutLoc (ls.headD {}).loc ft.loc from rfl, hcut] at this
        exact this (by simpa using hc)⟩) hnextQ
      (A ++ [fLine ft.key lc0]) 0 lc0 (lines.length + 1) (by rw [hl, ← hB2]; simp) (by simp)
      (by rw [hl]; simp; omega)
    rw [hloc]
    simp only [Outcome.bind_ok']
    -- the first line after the location
    have e3 : lines = (A ++ fLine ft.key lc0 :: lcs.map (spaces 21 ++ ·)) ++ (QL ++ stopF :: B1) := by
      rw [hl]; simp
    have hline : lineAt lines (A.length + (0 + lcs.length + 1)) = .ok stopQ := by
      rw [e3, hB2]
      have := lineAt_mid (A ++ fLine ft.key lc0 :: lcs.map (spaces 21 ++ ·)) stopQ B2
      simp only [List.length_append, List.length_cons, List.length_map] at this
      rw [show A.length + (0 + lcs.length + 1) = A.length + (lcs.length + 1) by omega]; exact this
    rw [hline]
    simp only [Outcome.bind_ok']
    -- the qualifiers
    have hq := qualLoop_quals lines stopF B1 hnextF.q1 hnextF.q2 ft.quals (ls.headD {}).quals (ls.headD {}).styles
      (A ++ fLine ft.key lc0 :: lcs.map (spaces 21 ++ ·)) [] (lines.length + 1) (by rw [hQL]; exact e3) hqw
      (by
        have := qualsLines_length ft.quals (ls.headD {}).quals (ls.headD {}).styles
        rw [hQL] at this
        rw [e3]; simp only [List.length_append, List.length_cons]; omega)
    rw [hQL, hstopQ] at hq
    simp only [List.length_append, List.length_cons, List.length_map] at hq
    rw [show A.length + (0 + lcs.length + 1) = A.length + (lcs.length + 1) by omega, hq]
    simp only [Outcome.bind_ok']
    -- the remaining features
    have hrec := ih ls.tail (A ++ fLine ft.key lc0 :: (lcs.map (spaces 21 ++ ·) ++ QL))
      (acc ++ [{ type := ft.key, gbkLoc := lc0 ++ lcs.flatten, attrs := ft.quals.foldl (fun m q => mapInsert m q.1 q.2) [] }])
      f (by rw [hl, hB1]; simp) (fun x hx => hwf x (by simp [hx])) (by simp at hf; omega)
    simp only [List.length_append, List.length_cons, List.length_map] at hrec
    rw [show A.length + (lcs.length + 1) + QL.length = A.length + (lcs.length + QL.length + 1) by omega, hrec]
    have hlocEq : lc0 ++ lcs.flatten = ft.loc := by rw [← hflat]; rfl
    simp [hlocEq, toFeatureM, List.append_assoc]

end PolyVerif.Lemmas.Genbank
