import PolyVerif.Lemmas.GenbankStr
import PolyVerif.Spec.GbLayout
/-
C01: facts about the writer's wrapping functions (`wrapText`, `cutText`, `cutLoc`): the chunks put
back together give the text, and a chunk boundary has a non-blank character on either side.
-/
set_option linter.unusedSimpArgs false
namespace PolyVerif.Lemmas.Genbank
open PolyVerif PolyVerif.Str PolyVerif.GbLayout

/-! ### join and consHead -/

theorem join_consHead (sep : Str) (c : Char) (l : List Str) (h : l ≠ []) :
    join sep (consHead c l) = c :: join sep l := by
  match l, h with
  | [x], _ => rfl
  | x :: y :: r, _ => rfl

theorem consHead_flatten (c : Char) (l : List Str) : (consHead c l).flatten = c :: l.flatten := by
  cases l <;> simp [consHead]

theorem wrapAux_ne_nil (bs : List Nat) (i : Nat) (p : Char) (s : Str) : wrapAux bs i p s ≠ [] := by
  match s with
  | [] => simp [wrapAux]
  | [c] => simp [wrapAux]
  | c :: n :: rest =>
    simp only [wrapAux]; split
    · simp
    · exact consHead_ne_nil _ _

/-- W1: the chunks joined by single blanks are the text -/
theorem join_wrapAux (bs : List Nat) (i : Nat) (p : Char) (s : Str) : join c!" " (wrapAux bs i p s) = s := by
  induction s generalizing i p with
  | nil => rfl
  | cons c t ih =>
    cases t with
    | nil => rfl
    | cons n rest =>
      simp only [wrapAux]
      split
      · rename_i h
        have hne := wrapAux_ne_nil bs (i + 1) c (n :: rest)
        cases hw : wrapAux bs (i + 1) c (n :: rest) with
        | nil => exact absurd hw hne
        | cons x xs =>
          have := ih (i + 1) c
          rw [hw] at this
          simp only [join, List.nil_append]
          rw [this, h.1]; rfl
      · rw [join_consHead _ _ _ (wrapAux_ne_nil _ _ _ _), ih]

theorem join_wrapText (bs : List Nat) (t : Str) : join c!" " (wrapText bs t) = t := join_wrapAux bs 0 ' ' t

/-! ### chunk boundaries -/

/-- between two consecutive chunks: the earlier one ends with a non-blank (an empty first chunk
stands for the character `p` before it), the later one starts with a non-blank -/
def Bnd : Char → List Str → Prop
  | _, [] => True
  | _, [_] => True
  | p, c :: c' :: r => c.getLast?.getD p ≠ ' ' ∧ (∃ x xs, c' = x :: xs ∧ x ≠ ' ') ∧ Bnd p (c' :: r)

theorem Bnd_irrel (p q : Char) (x : Char) (xs : Str) (r : List Str) : Bnd p ((x :: xs) :: r) → Bnd q ((x :: xs) :: r) := by
  induction r generalizing x xs with
  | nil => intro _; trivial
  | cons c' r' ih =>
    intro h
    obtain ⟨h1, ⟨y, ys, hy, hne⟩, h3⟩ := h
    subst hy
    refine ⟨?_, ⟨y, ys, rfl, hne⟩, ih y ys h3⟩
    have : (x :: xs).getLast? = some ((x :: xs).getLast (by simp)) := List.getLast?_eq_some_getLast (by simp)
    rw [this] at h1 ⊢; exact h1

theorem getLast?_cons_getD (c : Char) (h : Str) (p : Char) : (c :: h).getLast?.getD p = h.getLast?.getD c := by
  cases h with
  | nil => rfl
  | cons y ys =>
    rw [List.getLast?_cons_cons]
    have : (y :: ys).getLast? = some ((y :: ys).getLast (by simp)) := List.getLast?_eq_some_getLast (by simp)
    rw [this]; rfl

theorem Bnd_consHead (p c : Char) (l : List Str) (h : Bnd c l) : Bnd p (consHead c l) := by
  match l, h with
  | [], _ => trivial
  | [x], _ => trivial
  | x :: y :: r, ⟨h1, h2, h3⟩ =>
    obtain ⟨z, zs, hz, hne⟩ := h2
    subst hz
    refine ⟨?_, ⟨z, zs, rfl, hne⟩, Bnd_irrel c p z zs r h3⟩
    rw [getLast?_cons_getD]; exact h1

/-- after a blank the next chunk starts with the next character -/
theorem wrapAux_after_blank (bs : List Nat) (i : Nat) (n : Char) (rest : Str) :
    ∃ xs r, wrapAux bs i ' ' (n :: rest) = (n :: xs) :: r := by
  cases rest with
  | nil => exact ⟨[], [], rfl⟩
  | cons m rest' =>
    simp only [wrapAux]
    rw [if_neg (by simp)]
    have hne := wrapAux_ne_nil bs (i + 1) n (m :: rest')
    cases hw : wrapAux bs (i + 1) n (m :: rest') with
    | nil => exact absurd hw hne
    | cons x xs => exact ⟨x, xs, rfl⟩

theorem Bnd_wrapAux (bs : List Nat) (i : Nat) (p : Char) (s : Str) : Bnd p (wrapAux bs i p s) := by
  induction s generalizing i p with
  | nil => trivial
  | cons c t ih =>
    cases t with
    | nil => trivial
    | cons n rest =>
      simp only [wrapAux]
      split
      · rename_i h
        obtain ⟨hc, hp, hn, _⟩ := h
        subst hc
        obtain ⟨xs, r, hw⟩ := wrapAux_after_blank bs (i + 1) n rest
        have := ih (i + 1) ' '
        rw [hw] at this ⊢
        exact ⟨by simpa using hp, ⟨n, xs, rfl, hn⟩, Bnd_irrel ' ' p n xs r this⟩
      · exact Bnd_consHead p c _ (ih (i + 1) c)

/-! ### chunks of a text: each one non-empty, printable, without outer blanks -/

/-- printable, non-empty, first and last character not blank -/
def Chunk (c : Str) : Prop :=
  (∀ x ∈ c, isPrint x = true) ∧ (∃ x xs, c = x :: xs ∧ x ≠ ' ') ∧ c.getLast? ≠ some ' '

theorem isSpace_false_of_print {c : Char} (h : isPrint c = true) (hne : c ≠ ' ') : isSpace c = false := by
  simp only [isPrint, Bool.and_eq_true, decide_eq_true_eq] at h
  simp only [isSpace, Bool.or_eq_false_iff, beq_eq_false_iff_ne]
  refine ⟨⟨⟨⟨⟨hne, ?_⟩, ?_⟩, ?_⟩, ?_⟩, ?_⟩ <;> (rintro rfl; revert h; decide)

theorem Chunk.trim {c : Str} (h : Chunk c) (n m : Nat) : trimSpace (spaces n ++ c ++ spaces m) = c := by
  obtain ⟨hp, ⟨x, xs, rfl, hx⟩, hl⟩ := h
  apply trimSpace_spaces
  · intro y hy; simp at hy; subst hy; exact isSpace_false_of_print (hp _ (by simp)) hx
  · intro y hy
    exact isSpace_false_of_print (hp y (List.mem_of_getLast? hy)) (by rintro rfl; exact hl hy)

theorem Chunk.trim0 {c : Str} (h : Chunk c) : trimSpace c = c := by
  have := h.trim 0 0; simpa [spaces] using this

theorem Chunk.ne_nil {c : Str} (h : Chunk c) : c ≠ [] := by
  obtain ⟨_, ⟨x, xs, rfl, _⟩, _⟩ := h; simp

/-- two chunks joined by one blank are a chunk -/
theorem Chunk.join {a b : Str} (ha : Chunk a) (hb : Chunk b) : Chunk (a ++ c!" " ++ b) := by
  obtain ⟨hpa, ⟨x, xs, rfl, hx⟩, hla⟩ := ha
  obtain ⟨hpb, ⟨y, ys, rfl, hy⟩, hlb⟩ := hb
  refine ⟨?_, ⟨x, xs ++ c!" " ++ y :: ys, by simp, hx⟩, ?_⟩
  · intro z hz
    simp only [List.mem_append, List.mem_cons] at hz
    rcases hz with (hz | hz) | hz
    · exact hpa z (by simpa using hz)
    · simp at hz; subst hz; decide
    · exact hpb z (by simpa using hz)
  · rw [List.getLast?_append]
    cases hb' : (y :: ys).getLast? with
    | none => simp at hb'
    | some w => simpa [hb'] using hlb

theorem mem_of_join_mem (sep : Str) (l : List Str) (c : Str) (hc : c ∈ l) : ∀ x ∈ c, x ∈ join sep l := by
  induction l with
  | nil => simp at hc
  | cons a r ih =>
    intro x hx
    cases r with
    | nil => simp at hc; subst hc; exact hx
    | cons b r' =>
      simp only [join, List.mem_append]
      rcases List.mem_cons.mp hc with rfl | h
      · exact Or.inl (Or.inl hx)
      · exact Or.inr (ih h x hx)

/-- in a list with boundaries `Bnd`, whose first chunk starts and last chunk ends with a non-blank,
every chunk is a `Chunk` -/
theorem chunks_of_Bnd (p : Char) (l : List Str) (hb : Bnd p l) (hpr : ∀ c ∈ l, ∀ x ∈ c, isPrint x = true)
    (hfirst : ∃ x xs r, l = (x :: xs) :: r ∧ x ≠ ' ') (hlast : ∀ c, l.getLast? = some c → c.getLast? ≠ some ' ') :
    ∀ c ∈ l, Chunk c := by
  obtain ⟨x, xs, r, rfl, hx⟩ := hfirst
  induction r generalizing x xs with
  | nil =>
    intro c hc; simp at hc; subst hc
    exact ⟨hpr _ (by simp), ⟨x, xs, rfl, hx⟩, hlast _ rfl⟩
  | cons c' r' ih =>
    obtain ⟨h1, ⟨y, ys, rfl, hy⟩, h3⟩ := hb
    intro c hc
    rcases List.mem_cons.mp hc with rfl | hc
    · refine ⟨hpr _ (by simp), ⟨x, xs, rfl, hx⟩, ?_⟩
      have : (x :: xs).getLast? = some ((x :: xs).getLast (by simp)) := List.getLast?_eq_some_getLast (by simp)
      rw [this] at h1 ⊢; simpa using h1
    · exact ih y ys hy h3 (fun c (hc : c ∈ (y :: ys) :: r') => hpr c (List.mem_cons_of_mem _ hc)) (by
        intro c hc; apply hlast c; rw [List.getLast?_cons_cons]; exact hc) c hc

theorem getLast?_join (sep : Str) (l : List Str) (c : Str) (hl : l.getLast? = some c) (hc : c ≠ []) :
    (join sep l).getLast? = c.getLast? := by
  induction l with
  | nil => simp at hl
  | cons a r ih =>
    cases r with
    | nil => simp at hl; subst hl; rfl
    | cons b r' =>
      rw [List.getLast?_cons_cons] at hl
      simp only [join]
      have := ih hl
      rw [List.getLast?_append, this]
      cases h : c.getLast? with
      | none => exact absurd (List.getLast?_eq_none_iff.mp h) hc
      | some w => rfl

/-- W2: every chunk of a wrapped text (`isText`, non-empty) is a `Chunk` -/
theorem chunks_wrapText (bs : List Nat) (t : Str) (ht : isText t = true) (hne : t ≠ []) :
    ∀ c ∈ wrapText bs t, Chunk c := by
  simp only [isText, Bool.and_eq_true, List.all_eq_true, bne_iff_ne, ne_eq] at ht
  obtain ⟨⟨hpr, hhead⟩, hlast⟩ := ht
  obtain ⟨x, xs, rfl⟩ : ∃ x xs, t = x :: xs := by cases t with | nil => exact absurd rfl hne | cons x xs => exact ⟨x, xs, rfl⟩
  have hx : x ≠ ' ' := by rintro rfl; exact hhead rfl
  have hj := join_wrapText bs (x :: xs)
  obtain ⟨ys, r, hw⟩ : ∃ ys r, wrapText bs (x :: xs) = (x :: ys) :: r := wrapAux_after_blank bs 0 x xs
  apply chunks_of_Bnd ' ' _ (Bnd_wrapAux bs 0 ' ' (x :: xs))
  · intro c hc y hy
    exact hpr y (by rw [← hj]; exact mem_of_join_mem _ _ c hc y hy)
  · exact ⟨x, ys, r, hw, hx⟩
  · intro c hc hcl
    -- the last chunk is non-empty: it is the first one, or it follows a boundary
    have hcne : c ≠ [] := by
      rintro rfl; simp at hcl
    have := getLast?_join c!" " _ c hc hcne
    have hj' : join c!" " (wrapAux bs 0 ' ' (x :: xs)) = x :: xs := hj
    rw [hj'] at this
    rw [this] at hlast
    exact hlast hcl

/-! ### `cutText` (values cut between two non-blank characters) -/

theorem cutAux_ne_nil (bs : List Nat) (i : Nat) (p : Char) (s : Str) : cutAux bs i p s ≠ [] := by
  cases s with
  | nil => simp [cutAux]
  | cons c rest => simp only [cutAux]; split <;> simp [consHead_ne_nil]

theorem flatten_cutAux (bs : List Nat) (i : Nat) (p : Char) (s : Str) : (cutAux bs i p s).flatten = s := by
  induction s generalizing i p with
  | nil => rfl
  | cons c rest ih =>
    simp only [cutAux]
    split
    · simp [consHead_flatten, ih]
    · simp [consHead_flatten, ih]

theorem Bnd_cutAux (bs : List Nat) (i : Nat) (p : Char) (s : Str) : Bnd p (cutAux bs i p s) := by
  induction s generalizing i p with
  | nil => trivial
  | cons c rest ih =>
    simp only [cutAux]
    split
    · rename_i h
      obtain ⟨hp, hc, _⟩ := h
      have hne := cutAux_ne_nil bs (i + 1) c rest
      cases hw : cutAux bs (i + 1) c rest with
      | nil => exact absurd hw hne
      | cons x xs =>
        have := Bnd_consHead p c _ (ih (i + 1) c)
        rw [hw] at this
        exact ⟨by simpa using hp, ⟨c, x, rfl, hc⟩, this⟩
    · exact Bnd_consHead p c _ (ih (i + 1) c)

theorem join_nil_eq_flatten (l : List Str) : join [] l = l.flatten := by
  induction l with
  | nil => rfl
  | cons a r ih =>
    cases r with
    | nil => simp [join]
    | cons b r' => simp only [join, List.append_nil, List.flatten_cons] at ih ⊢; rw [ih]

/-! ### value wrapping with the quotation-mark guard (`wrapAuxV`, `cutAuxV`) -/

/-- `Bnd` and, in addition, no boundary between a quotation mark and a '/' -/
def BndQ : Char → List Str → Prop
  | _, [] => True
  | _, [_] => True
  | p, c :: c' :: r =>
    c.getLast?.getD p ≠ ' ' ∧ (∃ x xs, c' = x :: xs ∧ x ≠ ' ' ∧ ¬ (c.getLast?.getD p = '"' ∧ x = '/')) ∧ BndQ p (c' :: r)

theorem BndQ_irrel (p q : Char) (x : Char) (xs : Str) (r : List Str) : BndQ p ((x :: xs) :: r) → BndQ q ((x :: xs) :: r) := by
  induction r generalizing x xs with
  | nil => intro _; trivial
  | cons c' r' ih =>
    intro h
    obtain ⟨h1, ⟨y, ys, hy, hne, hg⟩, h3⟩ := h
    subst hy
    have e : (x :: xs).getLast? = some ((x :: xs).getLast (by simp)) := List.getLast?_eq_some_getLast (by simp)
    refine ⟨?_, ⟨y, ys, rfl, hne, ?_⟩, ih y ys h3⟩
    · rw [e] at h1 ⊢; exact h1
    · rw [e] at hg ⊢; exact hg

theorem BndQ_consHead (p c : Char) (l : List Str) (h : BndQ c l) : BndQ p (consHead c l) := by
  match l, h with
  | [], _ => trivial
  | [x], _ => trivial
  | x :: y :: r, ⟨h1, h2, h3⟩ =>
    obtain ⟨z, zs, hz, hne, hg⟩ := h2
    subst hz
    refine ⟨?_, ⟨z, zs, rfl, hne, ?_⟩, BndQ_irrel c p z zs r h3⟩
    · rw [getLast?_cons_getD]; exact h1
    · rw [getLast?_cons_getD]; exact hg

theorem wrapAuxV_ne_nil (bs : List Nat) (i : Nat) (p : Char) (s : Str) : wrapAuxV bs i p s ≠ [] := by
  match s with
  | [] => simp [wrapAuxV]
  | [c] => simp [wrapAuxV]
  | c :: n :: rest =>
    simp only [wrapAuxV]; split
    · simp
    · exact consHead_ne_nil _ _

theorem join_wrapAuxV (bs : List Nat) (i : Nat) (p : Char) (s : Str) : join c!" " (wrapAuxV bs i p s) = s := by
  induction s generalizing i p with
  | nil => rfl
  | cons c t ih =>
    cases t with
    | nil => rfl
    | cons n rest =>
      simp only [wrapAuxV]
      split
      · rename_i h
        have hne := wrapAuxV_ne_nil bs (i + 1) c (n :: rest)
        cases hw : wrapAuxV bs (i + 1) c (n :: rest) with
        | nil => exact absurd hw hne
        | cons x xs =>
          have := ih (i + 1) c
          rw [hw] at this
          simp only [join, List.nil_append]
          rw [this, h.1]; rfl
      · rw [join_consHead _ _ _ (wrapAuxV_ne_nil _ _ _ _), ih]

theorem wrapAuxV_after_blank (bs : List Nat) (i : Nat) (n : Char) (rest : Str) :
    ∃ xs r, wrapAuxV bs i ' ' (n :: rest) = (n :: xs) :: r := by
  cases rest with
  | nil => exact ⟨[], [], rfl⟩
  | cons m rest' =>
    simp only [wrapAuxV]
    rw [if_neg (by simp)]
    have hne := wrapAuxV_ne_nil bs (i + 1) n (m :: rest')
    cases hw : wrapAuxV bs (i + 1) n (m :: rest') with
    | nil => exact absurd hw hne
    | cons x xs => exact ⟨x, xs, rfl⟩

theorem BndQ_wrapAuxV (bs : List Nat) (i : Nat) (p : Char) (s : Str) : BndQ p (wrapAuxV bs i p s) := by
  induction s generalizing i p with
  | nil => trivial
  | cons c t ih =>
    cases t with
    | nil => trivial
    | cons n rest =>
      simp only [wrapAuxV]
      split
      · rename_i h
        obtain ⟨hc, hp, hn, hg, _⟩ := h
        subst hc
        obtain ⟨xs, r, hw⟩ := wrapAuxV_after_blank bs (i + 1) n rest
        have := ih (i + 1) ' '
        rw [hw] at this ⊢
        exact ⟨by simpa using hp, ⟨n, xs, rfl, hn, by simpa using hg⟩, BndQ_irrel ' ' p n xs r this⟩
      · exact BndQ_consHead p c _ (ih (i + 1) c)

theorem cutAuxV_ne_nil (bs : List Nat) (i : Nat) (p : Char) (s : Str) : cutAuxV bs i p s ≠ [] := by
  cases s with
  | nil => simp [cutAuxV]
  | cons c rest => simp only [cutAuxV]; split <;> simp [consHead_ne_nil]

theorem flatten_cutAuxV (bs : List Nat) (i : Nat) (p : Char) (s : Str) : (cutAuxV bs i p s).flatten = s := by
  induction s generalizing i p with
  | nil => rfl
  | cons c rest ih =>
    simp only [cutAuxV]
    split
    · simp [consHead_flatten, ih]
    · simp [consHead_flatten, ih]

theorem BndQ_cutAuxV (bs : List Nat) (i : Nat) (p : Char) (s : Str) : BndQ p (cutAuxV bs i p s) := by
  induction s generalizing i p with
  | nil => trivial
  | cons c rest ih =>
    simp only [cutAuxV]
    split
    · rename_i h
      obtain ⟨hp, hc, hg, _⟩ := h
      have hne := cutAuxV_ne_nil bs (i + 1) c rest
      cases hw : cutAuxV bs (i + 1) c rest with
      | nil => exact absurd hw hne
      | cons x xs =>
        have := BndQ_consHead p c _ (ih (i + 1) c)
        rw [hw] at this
        exact ⟨by simpa using hp, ⟨c, x, rfl, hc, by simpa using hg⟩, this⟩
    · exact BndQ_consHead p c _ (ih (i + 1) c)

/-! ### `cutLoc` (locations cut after a comma) -/

theorem cutLocAux_ne_nil (bs : List Nat) (i : Nat) (s : Str) : cutLocAux bs i s ≠ [] := by
  cases s with
  | nil => simp [cutLocAux]
  | cons c rest => simp only [cutLocAux]; split <;> simp [consHead_ne_nil]

theorem flatten_cutLocAux (bs : List Nat) (i : Nat) (s : Str) : (cutLocAux bs i s).flatten = s := by
  induction s generalizing i with
  | nil => rfl
  | cons c rest ih =>
    simp only [cutLocAux]
    split
    · simp [ih]
    · simp [consHead_flatten, ih]

/-- every chunk of a non-empty location is non-empty -/
theorem cutLocAux_chunks_ne (bs : List Nat) (i : Nat) (s : Str) (hs : s ≠ []) : ∀ c ∈ cutLocAux bs i s, c ≠ [] := by
  induction s generalizing i with
  | nil => exact absurd rfl hs
  | cons c rest ih =>
    simp only [cutLocAux]
    split
    · rename_i h
      intro x hx
      rcases List.mem_cons.mp hx with rfl | hx
      · simp
      · exact ih (i + 1) h.2.1 x hx
    · intro x hx
      cases hw : cutLocAux bs (i + 1) rest with
      | nil => exact absurd hw (cutLocAux_ne_nil _ _ _)
      | cons y ys =>
        rw [hw] at hx
        simp only [consHead, List.mem_cons] at hx
        rcases hx with rfl | hx
        · simp
        · cases rest with
          | nil => simp [cutLocAux] at hw; obtain ⟨_, rfl⟩ := hw; simp at hx
          | cons r rs => exact ih (i + 1) (by simp) x (by rw [hw]; simp [hx])

/-- the first chunk starts with the first character -/
theorem cutLocAux_head (bs : List Nat) (i : Nat) (x : Char) (r : Str) :
    ∃ xs rest, cutLocAux bs i (x :: r) = (x :: xs) :: rest := by
  simp only [cutLocAux]
  split
  · exact ⟨[], _, rfl⟩
  · cases hw : cutLocAux bs (i + 1) r with
    | nil => exact absurd hw (cutLocAux_ne_nil _ _ _)
    | cons y ys => exact ⟨y, ys, rfl⟩

/-- no chunk after the first begins with '/' -/
theorem cutLocAux_tail_heads (bs : List Nat) (i : Nat) (s : Str) : ∀ c ∈ (cutLocAux bs i s).drop 1, c.head? ≠ some '/' := by
  induction s generalizing i with
  | nil => simp [cutLocAux]
  | cons c rest ih =>
    simp only [cutLocAux]
    split
    · rename_i h
      obtain ⟨_, hne, hhead, _⟩ := h
      obtain ⟨x, r, rfl⟩ : ∃ x r, rest = x :: r := by cases rest with | nil => exact absurd rfl hne | cons x r => exact ⟨x, r, rfl⟩
      obtain ⟨xs, more, hw⟩ := cutLocAux_head bs (i + 1) x r
      intro d hd
      simp only [List.drop_succ_cons, List.drop_zero] at hd
      rw [hw] at hd
      rcases List.mem_cons.mp hd with rfl | hd
      · simpa using hhead
      · have := ih (i + 1); rw [hw] at this; exact this d (by simpa using hd)
    · intro d hd
      cases hw : cutLocAux bs (i + 1) rest with
      | nil => exact absurd hw (cutLocAux_ne_nil _ _ _)
      | cons y ys =>
        rw [hw] at hd
        have := ih (i + 1); rw [hw] at this
        exact this d (by simpa [consHead] using hd)

theorem mem_of_mem_flatten_chunk (l : List Str) (c : Str) (hc : c ∈ l) : ∀ x ∈ c, x ∈ l.flatten := by
  intro x hx; exact List.mem_flatten.mpr ⟨c, hc, hx⟩

end PolyVerif.Lemmas.Genbank
