import PolyVerif.Lemmas.GenbankWrap
import PolyVerif.Lemmas.GenbankLocus
/-
C01: keyword blocks — `joinSubLines` puts a wrapped block back together.
-/
set_option linter.unusedSimpArgs false
namespace PolyVerif.Lemmas.Genbank
open PolyVerif PolyVerif.Str PolyVerif.Genbank PolyVerif.GbLayout

/-- a line at which `joinSubLines` stops: a keyword line or a sub-keyword line -/
def Stop (l : Str) : Prop :=
  quickMetaCheck l = .ok true ∨ (quickMetaCheck l = .ok false ∧ quickSubMetaCheck l = .ok true)

/-- a line that starts with at least 6 blanks is neither -/
theorem quick_blank6 (k : Nat) (c : Str) :
    quickMetaCheck (spaces (k + 6) ++ c) = .ok false ∧ quickSubMetaCheck (spaces (k + 6) ++ c) = .ok false := by
  have e : spaces (k + 6) ++ c = ' ' :: ' ' :: ' ' :: ' ' :: ' ' :: ' ' :: (spaces k ++ c) := by
    simp [spaces, List.replicate_succ]
  rw [e]
  constructor
  · simp [quickMetaCheck]
  · simp [quickSubMetaCheck, Str.at, subMetaIndex]

theorem join_merge (a b : Str) (r : List Str) :
    join c!" " ((a ++ c!" " ++ b) :: r) = join c!" " (a :: b :: r) := by
  cases r with
  | nil => rfl
  | cons x xs => simp [join, List.append_assoc]

theorem Chunk_join_list (b : Str) (cs : List Str) (hb : Chunk b) (hcs : ∀ c ∈ cs, Chunk c) :
    Chunk (join c!" " (b :: cs)) := by
  induction cs generalizing b with
  | nil => exact hb
  | cons c r ih =>
    rw [← join_merge]
    exact ih _ (hb.join (hcs c (by simp))) (fun x hx => hcs x (by simp [hx]))

/-- the loop of `joinSubLines` over the continuation lines of a block -/
theorem joinLoop_conts (base : Str) (conts : List Str) (stop : Str) (rest : List Str)
    (hb : Chunk base) (hc : ∀ c ∈ conts, Chunk c) (hs : Stop stop) :
    joinLoop base (conts.map (spaces 12 ++ ·) ++ stop :: rest) = .ok (join c!" " (base :: conts)) := by
  induction conts generalizing base with
  | nil =>
    simp only [List.map_nil, List.nil_append, joinLoop]
    rcases hs with h | ⟨h1, h2⟩
    · simp [h, join]
    · simp [h1, h2, join]
  | cons c r ih =>
    have hcc := hc c (by simp)
    obtain ⟨q1, q2⟩ := quick_blank6 6 c
    simp only [List.map_cons, List.cons_append, joinLoop]
    rw [show spaces 12 = spaces (6 + 6) from rfl, q1, q2]
    simp only [Outcome.bind_ok', Bool.false_eq_true, if_false]
    have e : trimSpace (trimSpace base ++ c!" " ++ trimSpace (spaces (6 + 6) ++ c)) = base ++ c!" " ++ c := by
      have := hcc.trim 12 0
      simp only [spaces, List.replicate_zero, List.append_nil] at this
      rw [hb.trim0, show spaces (6 + 6) = List.replicate 12 ' ' from rfl, this]
      exact (hb.join hcc).trim0
    rw [e, ih _ (hb.join hcc) (fun x hx => hc x (by simp [hx])), join_merge]

theorem joinLoop_empty (stop : Str) (rest : List Str) (hs : Stop stop) : joinLoop [] (stop :: rest) = .ok [] := by
  simp only [joinLoop]
  rcases hs with h | ⟨h1, h2⟩
  · simp [h]
  · simp [h1, h2]

/-- the text after the keyword: `Join(Split(line, " ")[1:], " ")` -/
theorem join_drop_split (kw R : Str) (hk : ' ' ∉ kw) :
    join c!" " ((split (kw ++ ' ' :: R) c!" ").drop 1) = R := by
  show join [' '] ((splitC ' ' (kw ++ ' ' :: R)).drop 1) = R
  rw [splitC_append ' ' kw R hk]
  exact join_splitC ' ' R

/-- a keyword line followed by the continuation lines of its block gives back the text:
`kw` blank-free, at least one blank after it, chunks of a wrapped text -/
theorem joinSubLines_chunks (kw : Str) (k : Nat) (t : Str) (bs : List Nat) (stop : Str) (rest : List Str)
    (hk : ' ' ∉ kw) (ht : isText t = true) (hs : Stop stop) :
    joinSubLines (split (kw ++ (spaces (k + 1) ++ (wrapText bs t).headD [])) c!" ")
      (((wrapText bs t).drop 1).map (spaces 12 ++ ·) ++ stop :: rest) = .ok t := by
  unfold joinSubLines
  rw [spaces_succ_append, join_drop_split kw _ hk]
  by_cases hne : t = []
  · subst hne
    simp only [wrapText, wrapAux, List.headD_cons, List.append_nil, List.drop_succ_cons, List.drop_zero, List.map_nil,
      List.nil_append]
    have : trimSpace (spaces k) = [] := by
      have := trimSpace_spaces k 0 [] (by simp) (by simp)
      simpa [spaces] using this
    rw [this]; exact joinLoop_empty stop rest hs
  · have hch := chunks_wrapText bs t ht hne
    have hj := join_wrapText bs t
    cases hw : wrapText bs t with
    | nil => exact absurd hw (wrapAux_ne_nil _ _ _ _)
    | cons c0 cs =>
      rw [hw] at hch hj
      have h0 := hch c0 (by simp)
      have e : trimSpace (spaces k ++ c0) = c0 := by
        have := h0.trim k 0; simpa [spaces] using this
      simp only [List.headD_cons, List.drop_succ_cons, List.drop_zero]
      rw [e, joinLoop_conts c0 cs stop rest h0 (fun c hc => hch c (by simp [hc])) hs, hj]

/-- first and continuation lines of a block, taken apart -/
theorem block_eq (kw t : Str) (bs : List Nat) :
    block kw t bs = (padRight kw 12 ++ (wrapText bs t).headD []) :: ((wrapText bs t).drop 1).map (spaces 12 ++ ·) := by
  unfold block
  cases hw : wrapText bs t with
  | nil => exact absurd hw (wrapAux_ne_nil _ _ _ _)
  | cons c cs => rfl

end PolyVerif.Lemmas.Genbank
