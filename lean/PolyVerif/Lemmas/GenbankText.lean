import PolyVerif.Lemmas.GenbankParse
/-
C01: from lines to text — every line of a laid-out record is printable (so it holds no line break),
`Split(text, "\n")` gives the lines back, `parse` on the text of a record.
-/
set_option linter.unusedSimpArgs false
namespace PolyVerif.Lemmas.Genbank
open PolyVerif PolyVerif.Str PolyVerif.Genbank PolyVerif.GbLayout

/-- all characters printable -/
def PL (l : Str) : Prop := ∀ c ∈ l, isPrint c = true

instance (l : Str) : Decidable (PL l) := by unfold PL; exact inferInstance

theorem PL_append {a b : Str} (ha : PL a) (hb : PL b) : PL (a ++ b) := by
  intro c hc; rcases List.mem_append.mp hc with h | h
  · exact ha c h
  · exact hb c h

theorem PL_spaces (n : Nat) : PL (spaces n) := by
  intro c hc; simp [spaces] at hc; rw [hc.2]; decide

theorem PL_ofNat (n : Nat) : PL (ofNat n) := fun c hc => isPrint_of_digit (ofNat_isDigit n c hc)

theorem PL_of_all {p : Char → Bool} (hp : ∀ c, p c = true → isPrint c = true) {s : Str} (h : ∀ c ∈ s, p c = true) : PL s :=
  fun c hc => hp c (h c hc)

theorem PL_padRight {s : Str} (h : PL s) (n : Nat) : PL (padRight s n) := PL_append h (PL_spaces _)

theorem PL_wrapText (bs : List Nat) {t : Str} (h : PL t) : ∀ c ∈ wrapText bs t, PL c := by
  intro c hc x hx
  exact h x (by rw [← join_wrapText bs t]; exact mem_of_join_mem _ _ c hc x hx)

theorem PL_cutText (bs : List Nat) {t : Str} (h : PL t) : ∀ c ∈ cutText bs t, PL c := by
  intro c hc x hx
  exact h x (by rw [← flatten_cutAux bs 0 ' ' t]; exact mem_of_mem_flatten_chunk _ c hc x hx)

theorem PL_cutLoc (bs : List Nat) {t : Str} (h : PL t) : ∀ c ∈ cutLoc bs t, PL c := by
  intro c hc x hx
  exact h x (by rw [← flatten_cutLocAux bs 0 t]; exact mem_of_mem_flatten_chunk _ c hc x hx)

theorem PL_closeLast (cs : List Str) (h : ∀ c ∈ cs, PL c) : ∀ c ∈ closeLast cs, PL c := by
  induction cs with
  | nil => simp [closeLast]
  | cons a r ih =>
    cases r with
    | nil =>
      intro c hc; simp [closeLast] at hc; subst hc
      exact PL_append (h a (by simp)) (by intro x hx; simp at hx; subst hx; decide)
    | cons b r' =>
      intro c hc
      rw [closeLast_cons_cons] at hc
      rcases List.mem_cons.mp hc with rfl | hc
      · exact h _ (by simp)
      · exact ih (fun x hx => h x (by simp [hx])) c hc

theorem PL_hang {head : Str} (hh : PL head) (n : Nat) (cs : List Str) (h : ∀ c ∈ cs, PL c) : ∀ l ∈ hang head n cs, PL l := by
  cases cs with
  | nil => intro l hl; simp [hang] at hl; subst hl; exact hh
  | cons c r =>
    intro l hl
    simp only [hang, List.mem_cons, List.mem_map] at hl
    rcases hl with rfl | ⟨x, hx, rfl⟩
    · exact PL_append hh (h c (by simp))
    · exact PL_append (PL_spaces n) (h x (by simp [hx]))

theorem PL_block {kw t : Str} (hk : PL kw) (ht : PL t) (bs : List Nat) : ∀ l ∈ block kw t bs, PL l :=
  PL_hang (PL_padRight hk 12) 12 _ (PL_wrapText bs ht)

theorem PL_optBlock {kw t : Str} (hk : PL kw) (ht : PL t) (bs : List Nat) : ∀ l ∈ optBlock kw t bs, PL l := by
  unfold optBlock; split
  · simp
  · exact PL_block hk ht bs

theorem PL_isText {t : Str} (h : isText t = true) : PL t := (isText_parts h).1

theorem isPrint_of_upper {c : Char} (h : isUpper c = true) : isPrint c = true := by
  simp only [isUpper, isPrint, Bool.and_eq_true, decide_eq_true_eq] at *; omega

theorem isPrint_of_letter {c : Char} (h : isLetter c = true) : isPrint c = true := by
  simp only [isLetter, isUpper, isLower, isPrint, Bool.or_eq_true, Bool.and_eq_true, decide_eq_true_eq] at *; omega

theorem PL_refNumber (i : Nat) (r : RRef) (hn : r.number.all isVisible = true) : PL (refNumber i r) :=
  (refNumber_tok i r hn).2.1

theorem PL_refHead (i : Nat) (r : RRef) (hn : r.number.all isVisible = true) (h : PL r.range) : PL (refHead i r) := by
  unfold refHead; split
  · simpa using PL_refNumber i r hn
  · exact PL_append (PL_refNumber i r hn) (PL_append (by decide) h)

theorem PL_refLines (i : Nat) (r : RRef) (ℓ : RefLayout) (h : wfRef r = true) : ∀ l ∈ refLines i r ℓ, PL l := by
  simp only [wfRef, Bool.and_eq_true] at h
  obtain ⟨⟨⟨⟨⟨⟨h0, h1⟩, h2⟩, h3⟩, h4⟩, h5⟩, h6⟩ := h
  intro l hl
  simp only [refLines, List.mem_append] at hl
  rcases hl with hl | ((((hl | hl) | hl) | hl) | hl)
  · unfold refHeadLines at hl; split at hl
    · simp only [List.mem_singleton] at hl; subst hl
      exact PL_append (PL_append (PL_padRight (by decide) 12) (PL_refNumber i r h0)) (by decide)
    · exact PL_block (by decide) (PL_refHead i r h0 (PL_isText h1)) _ l hl
  · exact PL_optBlock (by decide) (PL_isText h2) _ l hl
  · exact PL_optBlock (by decide) (PL_isText h3) _ l hl
  · exact PL_optBlock (by decide) (PL_isText h4) _ l hl
  · exact PL_optBlock (by decide) (PL_isText h5) _ l hl
  · exact PL_optBlock (by decide) (PL_isText h6) _ l hl

theorem PL_refsLines (rs : List RRef) : ∀ (i : Nat) (ls : List RefLayout), (∀ r ∈ rs, wfRef r = true) →
    ∀ l ∈ refsLines i rs ls, PL l := by
  induction rs with
  | nil => intro i ls _ l hl; simp [refsLines] at hl
  | cons r rs' ih =>
    intro i ls h l hl
    rw [refsLines_cons] at hl
    rcases List.mem_append.mp hl with hl | hl
    · exact PL_refLines i r _ (h r (by simp)) l hl
    · exact ih (i + 1) ls.tail (fun x hx => h x (by simp [hx])) l hl

theorem PL_extrasLines (es : List (Str × Str)) : ∀ (ls : List (List Nat)),
    (∀ e ∈ es, isExtraKey e.1 = true ∧ isText e.2 = true) → ∀ l ∈ extrasLines es ls, PL l := by
  induction es with
  | nil => intro ls _ l hl; simp [extrasLines] at hl
  | cons e r ih =>
    intro ls h l hl
    obtain ⟨k, t⟩ := e
    rw [extrasLines_cons] at hl
    obtain ⟨hk, ht⟩ := h (k, t) (by simp)
    rcases List.mem_append.mp hl with hl | hl
    · exact PL_block (fun c hc => (isVisible_facts ((extraKey_facts hk).1.2.2.1 c hc)).2.2) (PL_isText ht) _ l hl
    · exact ih ls.tail (fun x hx => h x (by simp [hx])) l hl

theorem PL_wrapTextV (bs : List Nat) {t : Str} (h : PL t) : ∀ c ∈ wrapTextV bs t, PL c := by
  intro c hc x hx
  exact h x (by rw [← join_wrapAuxV bs 0 ' ' t]; exact mem_of_join_mem _ _ c hc x hx)

theorem PL_cutTextV (bs : List Nat) {t : Str} (h : PL t) : ∀ c ∈ cutTextV bs t, PL c := by
  intro c hc x hx
  exact h x (by rw [← flatten_cutAuxV bs 0 ' ' t]; exact mem_of_mem_flatten_chunk _ c hc x hx)

theorem PL_qualLines (k v : Str) (bs : List Nat) (st : Nat) (h : wfQual (k, v) = true) : ∀ l ∈ qualLines k v bs st, PL l := by
  obtain ⟨_, hvp, _, _⟩ := wfQual_parts h
  have hkp : PL k := by
    simp only [wfQual, Bool.and_eq_true, List.all_eq_true] at h
    intro c hc
    have := h.1.1.1.2 c hc
    simp only [isQualKeyChar, Bool.and_eq_true] at this
    exact (isVisible_facts this.1.1.1).2.2
  have hhead : PL (spaces 21 ++ c!"/" ++ k) := PL_append (PL_append (PL_spaces 21) (by decide)) hkp
  unfold qualLines
  split
  · intro l hl; simp only [List.mem_singleton] at hl; subst hl; exact hhead
  · split
    · intro l hl; simp only [List.mem_singleton] at hl; subst hl
      exact PL_append (PL_append hhead (by decide)) hvp
    · apply PL_hang
      · exact PL_append hhead (by decide)
      · apply PL_closeLast
        unfold valueChunks; split
        · exact PL_cutTextV bs hvp
        · exact PL_wrapTextV bs hvp

theorem PL_qualsLines (qs : List (Str × Str)) : ∀ (ls : List (List Nat)) (sts : List Nat), (∀ q ∈ qs, wfQual q = true) →
    ∀ l ∈ qualsLines qs ls sts, PL l := by
  induction qs with
  | nil => intro ls sts _ l hl; simp [qualsLines] at hl
  | cons q r ih =>
    intro ls sts h l hl
    obtain ⟨k, v⟩ := q
    rw [qualsLines_cons] at hl
    rcases List.mem_append.mp hl with hl | hl
    · exact PL_qualLines k v _ _ (h (k, v) (by simp)) l hl
    · exact ih ls.tail sts.tail (fun x hx => h x (by simp [hx])) l hl

theorem PL_featLines (f : RFeature) (ℓ : FeatLayout) (h : wfFeatureLoose f = true) : ∀ l ∈ featLines f ℓ, PL l := by
  obtain ⟨hk, _, h5, h6⟩ := wfFeatureLoose_parts h
  have hkp : PL f.key := by
    intro c hc
    simp only [wfFeatureLoose, Bool.and_eq_true, List.all_eq_true] at h
    exact (isVisible_facts (h.1.1.1.1.2 c hc)).2.2
  have hlp : PL f.loc := fun c hc => (isVisible_facts (h5 c hc)).2.2
  intro l hl
  simp only [featLines, List.mem_append] at hl
  rcases hl with hl | hl
  · exact PL_hang (PL_padRight (PL_append (PL_spaces 5) hkp) 21) 21 _ (PL_cutLoc _ hlp) l hl
  · exact PL_qualsLines _ _ _ h6 l hl

theorem PL_featsLines (fs : List RFeature) : ∀ (ls : List FeatLayout), (∀ f ∈ fs, wfFeatureLoose f = true) →
    ∀ l ∈ featsLines fs ls, PL l := by
  induction fs with
  | nil => intro ls _ l hl; simp [featsLines] at hl
  | cons f r ih =>
    intro ls h l hl
    rw [featsLines_cons] at hl
    rcases List.mem_append.mp hl with hl | hl
    · exact PL_featLines f _ (h f (by simp)) l hl
    · exact ih ls.tail (fun x hx => h x (by simp [hx])) l hl

theorem PL_originLine (bl start : Nat) (letters : Str) (h : PL letters) : PL (originLine bl start letters) := by
  simp only [originLine, padLeft]
  apply PL_append (PL_append (PL_spaces _) (PL_ofNat _))
  intro c hc
  rw [List.mem_flatten] at hc
  obtain ⟨l, hl, hcl⟩ := hc
  obtain ⟨x, hx, rfl⟩ := List.mem_map.mp hl
  rcases List.mem_cons.mp hcl with rfl | hcx
  · decide
  · exact h c (by rw [← chunks_flatten bl letters]; exact mem_of_mem_flatten_chunk _ x hx c hcx)

theorem PL_originLinesAux (bl ll : Nat) (ls : List Str) (h : ∀ l ∈ ls, PL l) (start : Nat) :
    ∀ l ∈ originLinesAux bl ll start ls, PL l := by
  induction ls generalizing start with
  | nil => simp [originLinesAux]
  | cons a r ih =>
    intro l hl
    simp only [originLinesAux, List.mem_cons] at hl
    rcases hl with rfl | hl
    · exact PL_originLine bl start a (h a (by simp))
    · exact ih (fun x hx => h x (by simp [hx])) _ l hl

theorem PL_originLines (seq : Str) (bl pl : Nat) (h : PL seq) : ∀ l ∈ originLines seq bl pl, PL l := by
  simp only [originLines]
  apply PL_originLinesAux
  intro l hl x hx
  exact h x (by rw [← chunks_flatten ((bl + 1) * (pl + 1) - 1) seq]; exact mem_of_mem_flatten_chunk _ l hl x hx)

theorem PL_gapped (ps : List (Nat × Str)) (h : ∀ p ∈ ps, PL p.2) : PL (gapped ps) := by
  intro c hc
  simp only [gapped, List.mem_flatten, List.mem_map] at hc
  obtain ⟨l, ⟨p, hp, rfl⟩, hcl⟩ := hc
  exact PL_append (PL_spaces _) (h p hp) c hcl

theorem PL_date {d : Str} (h : isDateText d = true) : PL d := by
  obtain ⟨d1, d2, mon, y1, y2, y3, y4, hd, hmon, a1, a2, b1, b2, b3, b4⟩ := date_parts h
  have hm : ∀ m ∈ monthNames, PL m := by decide
  rw [hd]
  intro c hc
  simp only [List.mem_append, List.mem_cons, List.not_mem_nil, or_false] at hc
  rcases hc with (h | h) | h | h | h | h | h | h | h
  · subst h; exact isPrint_of_digit a1
  · subst h; exact isPrint_of_digit a2
  · subst h; decide
  · exact hm mon hmon c h
  · subst h; decide
  · subst h; exact isPrint_of_digit b1
  · subst h; exact isPrint_of_digit b2
  · subst h; exact isPrint_of_digit b3
  · subst h; exact isPrint_of_digit b4

theorem PL_locusLine (l : RLocus) (ℓ : RecLayout) (h : wfLocus l = true) : PL (locusLine l ℓ) := by
  obtain ⟨_, hmol, hdiv, hdate⟩ := restFacts l h
  simp only [wfLocus, Bool.and_eq_true, isLocusName, List.all_eq_true] at h
  obtain ⟨⟨⟨⟨⟨_, hname⟩, hlen⟩, _⟩, _⟩, _⟩ := h
  have hrest : ∀ t ∈ restToks l, PL t := by
    intro t ht
    simp only [restToks, List.mem_append, List.mem_singleton] at ht
    rcases ht with h | rfl | h | h | h | h
    · obtain ⟨rfl, _⟩ := mem_optS h; exact fun c hc => isPrint_of_digit (hlen c hc)
    · decide
    · have : ∀ m ∈ [] :: molTypes, ∀ w ∈ molWords m, PL w := by decide
      exact this _ hmol t h
    · obtain ⟨rfl, hne⟩ := mem_optS h
      cases htp : l.topo with
      | none => rw [htp] at hne; exact absurd rfl hne
      | some x => cases x <;> decide
    · obtain ⟨rfl, hne⟩ := mem_optS h
      rcases hdiv with hd | hd
      · exact absurd hd hne
      · have : ∀ d ∈ divisionCodes, PL d := by decide
        exact this _ hd
    · obtain ⟨rfl, hne⟩ := mem_optS h
      rcases hdate with hd | hd
      · exact absurd hd hne
      · exact PL_date hd
  have htoks : ∀ p ∈ locusToks l ℓ, PL p.2 := by
    intro p hp
    have : p.2 ∈ (locusToks l ℓ).map (·.2) := List.mem_map.mpr ⟨p, hp, rfl⟩
    rw [locusToks_map] at this
    rcases List.mem_cons.mp this with e | e
    · rw [e]; intro c hc; exact (hname c hc).1
    · exact hrest _ e
  unfold locusLine
  exact PL_append (PL_append (by decide) (PL_gapped _ htoks)) (PL_spaces _)

theorem PL_mblock (om : Bool) {kw t : Str} (hk : PL kw) (ht : PL t) (bs : List Nat) : ∀ l ∈ mblock om kw t bs, PL l := by
  unfold mblock; split
  · simp
  · exact PL_block hk ht bs

/-- every line of a laid-out record is printable -/
theorem PL_layout (r : GbRec) (ℓ : RecLayout) (h : wfLoose r = true) : ∀ l ∈ layout r ℓ, PL l := by
  simp only [wfLoose, Bool.and_eq_true, decide_eq_true_eq, List.all_eq_true] at h
  obtain ⟨⟨⟨⟨⟨⟨⟨⟨⟨⟨⟨⟨hlocus, hdef⟩, hacc⟩, hver⟩, hkey⟩, hsrc⟩, horg⟩, hrefs⟩, hex⟩, hexd⟩, hfeat⟩, hseq⟩, hlen⟩ := h
  have hslot : ∀ k, ∀ l ∈ extraSlot r ℓ k, PL l := fun k =>
    PL_extrasLines _ _ (fun e he => by simpa using hex e (List.mem_of_mem_drop (List.mem_of_mem_take he)))
  have hrest : ∀ l ∈ extraRest r ℓ, PL l :=
    PL_extrasLines _ _ (fun e he => by simpa using hex e (List.mem_of_mem_drop (List.mem_of_mem_take he)))
  have hafter : ∀ l ∈ extraAfterFeat r ℓ, PL l :=
    PL_extrasLines _ _ (fun e he => by simpa using hex e (List.mem_of_mem_drop he))
  have hsrcB : ∀ l ∈ sourceBlock ℓ.omitSource ℓ.omitOrganism r.source r.organism ℓ.source ℓ.organism, PL l := by
    intro l hl
    unfold sourceBlock at hl; split at hl
    · simp at hl
    · rcases List.mem_append.mp hl with hl | hl
      · exact PL_block (by decide) (PL_isText hsrc) _ l hl
      · split at hl
        · simp at hl
        · exact PL_block (by decide) (PL_isText horg) _ l hl
  have hone : ∀ x : Str, PL x → ∀ l ∈ [x], PL l := by
    intro x hx l hl; rw [List.mem_singleton.mp hl]; exact hx
  have happ : ∀ A B : List Str, (∀ l ∈ A, PL l) → (∀ l ∈ B, PL l) → ∀ l ∈ A ++ B, PL l := by
    intro A B hA hB l hl
    rcases List.mem_append.mp hl with h | h
    · exact hA l h
    · exact hB l h
  unfold layout
  refine happ _ _ (happ _ _ (happ _ _ (happ _ _ (happ _ _ (happ _ _ (happ _ _ (happ _ _ (happ _ _ (happ _ _ (happ _ _
    (happ _ _ (happ _ _ (happ _ _ (happ _ _ (happ _ _ (happ _ _ (happ _ _ (happ _ _ ?_ ?_) ?_) ?_) ?_) ?_) ?_) ?_) ?_)
      ?_) ?_) ?_) ?_) ?_) ?_) ?_) ?_) ?_) ?_) ?_
  · exact hone _ (PL_locusLine _ _ hlocus)
  · exact hslot 0
  · exact PL_mblock _ (by decide) (PL_isText hdef) _
  · exact hslot 1
  · exact PL_mblock _ (by decide) (PL_isText hacc) _
  · exact hslot 2
  · exact PL_mblock _ (by decide) (PL_isText hver) _
  · exact hslot 3
  · exact PL_mblock _ (by decide) (PL_isText hkey) _
  · exact hslot 4
  · exact hsrcB
  · exact hslot 5
  · exact PL_refsLines _ _ _ hrefs
  · exact hrest
  · exact hone _ (by decide)
  · exact PL_featsLines _ _ hfeat
  · exact hafter
  · exact hone _ (by split <;> decide)
  · exact PL_originLines _ _ _ (fun c hc => isPrint_of_letter (hseq c hc))
  · exact hone _ (by decide)

/-! ### text of one record -/

theorem nl_not_mem_of_PL {l : Str} (h : PL l) : '\n' ∉ l := by
  intro hm; have := h _ hm; revert this; decide

theorem join_snoc_nil (sep : Str) (L : List Str) (h : L ≠ []) : join sep (L ++ [[]]) = join sep L ++ sep := by
  induction L with
  | nil => exact absurd rfl h
  | cons a r ih =>
    cases r with
    | nil => simp [join]
    | cons b r' =>
      have := ih (by simp)
      simp only [List.cons_append, join] at this ⊢
      rw [this]; simp [List.append_assoc]

theorem layout_ne_nil (r : GbRec) (ℓ : RecLayout) : layout r ℓ ≠ [] := by
  unfold layout
  simp only [List.append_assoc, List.cons_append, List.nil_append, List.singleton_append]
  exact List.cons_ne_nil _ _

/-- `Split(text, "\n")` of a laid-out record gives its lines (and one empty line after a final newline) -/
theorem split_layoutText (r : GbRec) (ℓ : RecLayout) (fnl : Bool) (h : wfLoose r = true) :
    split (layoutText r ℓ fnl) c!"\n" = layout r ℓ ++ (if fnl then [[]] else []) := by
  have hnl : ∀ l ∈ layout r ℓ, '\n' ∉ l := fun l hl => nl_not_mem_of_PL (PL_layout r ℓ h l hl)
  show splitC '\n' _ = _
  unfold layoutText
  cases fnl with
  | false =>
    simp only [Bool.false_eq_true, if_false, List.append_nil]
    exact splitC_join '\n' _ (layout_ne_nil r ℓ) hnl
  | true =>
    simp only [if_true]
    rw [← join_snoc_nil c!"\n" _ (layout_ne_nil r ℓ)]
    exact splitC_join '\n' _ (by simp) (by
      intro l hl
      rcases List.mem_append.mp hl with hl | hl
      · exact hnl l hl
      · simp at hl; subst hl; simp)

/-- `parse` on the text of a laid-out record, with or without the final newline: what the parser's maps
keep of it (repeated qualifier keys: the last value) -/
theorem parse_layoutText_loose (r : GbRec) (ℓ : RecLayout) (fnl : Bool) (h : wfLoose r = true) :
    parse (layoutText r ℓ fnl) = .ok (toSequenceM r) := by
  unfold parse
  rw [split_layoutText r ℓ fnl h]
  apply parseLoop_layout_loose r ℓ _ h
  intro l hl; cases fnl <;> simp at hl; exact hl

/-- … and with pairwise distinct qualifier keys exactly what the record states -/
theorem parse_layoutText (r : GbRec) (ℓ : RecLayout) (fnl : Bool) (h : wf r = true) :
    parse (layoutText r ℓ fnl) = .ok (toSequence r) := by
  obtain ⟨hl, hd⟩ := wf_loose h
  rw [parse_layoutText_loose r ℓ fnl hl, toSequenceM_eq hd]

end PolyVerif.Lemmas.Genbank
