import PolyVerif.Lemmas.GbRoundTrip
import PolyVerif.Lemmas.GbWrapRel
/-
C03: `WrapString` as a choice of break positions, for ANY text without newline whose white space is the
blank (runs of blanks allowed).  `WrappedS p o t` refines `Wrapped`: a newline either replaces exactly ONE
blank whose two neighbours are not blank, or it replaces a longer run (a loss).  Without loss
(`o.length = t.length`) the lines of `o` are `t` broken at the newline positions in the sense of property
C01's `GbLayout.wrapText` — the bridge `parse_build_partial` needs for metadata with runs of blanks and
for a wrapped REFERENCE line.
-/
namespace PolyVerif.Lemmas.GbWrapS
open PolyVerif PolyVerif.StrBuild
open PolyVerif.Lemmas.GbBuild PolyVerif.Lemmas.GbRoundTrip PolyVerif.Lemmas.GbWrapRel
open PolyVerif.Spec.GbStrict (lines)
open PolyVerif.Spec.GbRoundTrip

/-- without loss, the lines of the wrapped text are the text broken at the newline positions (C01's `wrapAux`) -/
theorem wrapAux_of_wrappedS (bs : List Nat) {p : Char} {o t : Str} (h : WrappedS p o t) :
    o.length = t.length → NoNl t → ∀ i, Marks bs i o → GbLayout.wrapAux bs i p t = lines o := by
  induction h with
  | nil p => intro _ _ _ _; rfl
  | keep p c hw ih =>
    rename_i o t
    intro hl hn i hm
    have hc : c ≠ '\n' := hn c List.mem_cons_self
    have hn' : NoNl t := fun d hd => hn d (List.mem_cons_of_mem _ hd)
    have hl' : o.length = t.length := by simpa using hl
    have hm0 := hm 0
    simp only [Nat.add_zero, List.getElem?_cons_zero, Option.some.injEq] at hm0
    have hni : i ∉ bs := fun hi => hc (hm0.mp hi)
    cases t with
    | nil =>
      have : o = [] := List.length_eq_zero_iff.mp (by simpa using hl')
      subst this
      rw [GbLayout.wrapAux, lines_noNl (by intro d hd; rw [List.mem_singleton.mp hd]; exact hc)]
    | cons n rest =>
      rw [GbLayout.wrapAux, if_neg (fun hcond => hni hcond.2.2.2), ih hl' hn' (i + 1) hm.tail, consHead_lines hc]
  | brk p hp hfirst hw ih =>
    rename_i o t
    intro hl hn i hm
    have hn' : NoNl t := fun d hd => hn d (List.mem_cons_of_mem _ hd)
    have hl' : o.length = t.length := by simpa using hl
    have hm0 := hm 0
    simp only [Nat.add_zero, List.getElem?_cons_zero] at hm0
    obtain ⟨c', r, rfl, hc'⟩ := hfirst
    rw [GbLayout.wrapAux, if_pos ⟨rfl, hp, hc', hm0.mpr trivial⟩, ih hl' hn' (i + 1) hm.tail, lines_cons_nl]
  | loss p k hw _ =>
    intro hl _ _ _
    have := hw.length_le
    simp at hl
    omega
  | drop p k =>
    intro hl _ _ _
    simp at hl

theorem wrapAux_prev_irrelevant (bs : List Nat) (i : Nat) (p q : Char) : ∀ t : Str,
    (∀ c r, t = c :: r → c ≠ ' ') → GbLayout.wrapAux bs i p t = GbLayout.wrapAux bs i q t
  | [], _ => rfl
  | [_], _ => rfl
  | c :: n :: rest, h => by
    have hc : c ≠ ' ' := h c _ rfl
    rw [GbLayout.wrapAux, GbLayout.wrapAux, if_neg (fun hh => hc hh.1), if_neg (fun hh => hc hh.1)]

/-- the general bridge: a text without newline whose white space is the blank and which does not begin
with a blank, wrapped WITHOUT LOSS (no run of blanks fell on a wrap point), is the text broken at
`breaks t` in the sense of C01's layout -/
theorem wrapText_breaks_general {t : Str} (hp : Plain t) (hn : NoNl t) (hh : ∀ c r, t = c :: r → c ≠ ' ')
    (hl : (wrapString t 68).length = t.length) :
    GbLayout.wrapText (breaks t) t = lines (wrapString t 68) := by
  have hw := wrapGo_wrappedS 68 t 0 [] [] 'x' hp (by simp) (by simp) (by simp) (by simp) (fun _ _ => by decide)
  simp only [List.reverse_nil, List.nil_append] at hw
  unfold GbLayout.wrapText
  rw [wrapAux_prev_irrelevant _ 0 ' ' 'x' t hh]
  exact wrapAux_of_wrappedS _ hw hl hn 0 (marks_nlPositions _)

end PolyVerif.Lemmas.GbWrapS
