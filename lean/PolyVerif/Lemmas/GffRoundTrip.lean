import PolyVerif.Lemmas.Gff
/-
Helper lemmas for Props/C14, second part: Build's feature line as a nine-column line, the two
header lines, the FASTA section of Build, the lines of the independent writer, slices as
1-based inclusive ranges.
-/
namespace PolyVerif.Gff
open PolyVerif PolyVerif.LineText PolyVerif.Spec.GffLayout

/-! ### Build's feature line is the nine-column line of the independent writer -/

theorem attrs_built (val : Str → Str) : ∀ keys : List Str,
    (if (keys.flatMap fun key => key ++ '=' :: val key ++ [';']).length > 0
      then (keys.flatMap fun key => key ++ '=' :: val key ++ [';']).dropLast
      else (keys.flatMap fun key => key ++ '=' :: val key ++ [';']))
    = joinSep ';' (keys.map fun k => k ++ '=' :: val k)
  | [] => rfl
  | [k] => by
    simp only [List.flatMap_cons, List.flatMap_nil, List.append_nil, List.map_cons, List.map_nil, joinSep]
    rw [if_pos (by simp; omega)]
    exact List.dropLast_concat
  | k :: k' :: r => by
    have ih := attrs_built val (k' :: r)
    have hne : ((k' :: r).flatMap fun key => key ++ '=' :: val key ++ [';']) ≠ [] := by
      simp [List.flatMap_cons]
    have hpos : ((k' :: r).flatMap fun key => key ++ '=' :: val key ++ [';']).length > 0 :=
      List.length_pos_iff.2 hne
    rw [if_pos hpos] at ih
    have hpos' : ((k :: k' :: r).flatMap fun key => key ++ '=' :: val key ++ [';']).length > 0 :=
      List.length_pos_iff.2 (by simp [List.flatMap_cons])
    rw [if_pos hpos']
    rw [List.flatMap_cons, List.dropLast_append_of_ne_nil hne, ih]
    simp [joinSep]

def effName (locus : Str) (f : Feature) : Str := if f.name ≠ [] then f.name else locus
def effSource (f : Feature) : Str := if f.source ≠ [] then f.source else sFeature
def effType (f : Feature) : Str := if f.type ≠ [] then f.type else sUnknown

theorem buildFeature_eq (locus : Str) (f : Feature) :
    buildFeature locus f = joinSep '\t' [effName locus f, effSource f, effType f, itoa (f.start + 1), itoa f.stop,
      f.score, f.strand, f.phase, col9 false (canonAttrs f.attrs)] := by
  have ha := attrs_built (fun k => lookupD [] k f.attrs) (sortStrings (f.attrs.map (·.1)))
  have hc : col9 false (canonAttrs f.attrs)
      = joinSep ';' ((sortStrings (f.attrs.map (·.1))).map fun k => k ++ '=' :: lookupD [] k f.attrs) := by
    simp [col9, attrText, canonAttrs, sortedEntries, List.map_map, Function.comp_def]
  simp only [buildFeature, hc, effName, effSource, effType, joinSep, tab, List.append_assoc, List.cons_append,
    List.nil_append] at ha ⊢
  rw [ha]

/-! ### unpacking the well-formedness predicates -/

theorem inInt_spec {v : Int} (h : inInt v = true) : minInt ≤ v ∧ v ≤ maxInt := of_decide_eq_true h

structure FeatureFacts (locus : Str) (f : Feature) : Prop where
  name : ∀ x ∈ ['\t', '\n', '\r'], x ∉ effName locus f
  source : ∀ x ∈ ['\t', '\n', '\r'], x ∉ effSource f
  type : ∀ x ∈ ['\t', '\n', '\r'], x ∉ effType f
  score : ∀ x ∈ ['\t', '\n', '\r'], x ∉ f.score
  strand : ∀ x ∈ ['\t', '\n', '\r'], x ∉ f.strand
  phase : ∀ x ∈ ['\t', '\n', '\r'], x ∉ f.phase
  start1 : minInt ≤ f.start + 1 ∧ f.start + 1 ≤ maxInt
  stop : minInt ≤ f.stop ∧ f.stop ≤ maxInt
  attrs : AttrFacts f.attrs

theorem sFeature_free : ∀ x ∈ ['\t', '\n', '\r'], x ∉ sFeature := by decide
theorem sUnknown_free : ∀ x ∈ ['\t', '\n', '\r'], x ∉ sUnknown := by decide

theorem featureFacts {locus : Str} {f : Feature} (h : wfFeatureQ locus f = true) : FeatureFacts locus f := by
  simp only [wfFeatureQ, wfCol, Bool.and_eq_true] at h
  obtain ⟨⟨⟨⟨⟨⟨⟨⟨⟨⟨h1, h2⟩, h4⟩, h5⟩, h6⟩, h7⟩, h8⟩, _⟩, h10⟩, h11⟩, h12⟩ := h
  refine ⟨?_, ?_, ?_, fun x hx => free_not_mem h6 hx, fun x hx => free_not_mem h7 hx,
    fun x hx => free_not_mem h8 hx, inInt_spec h10, inInt_spec h11, attrFacts_of_wf h12⟩
  · intro x hx
    unfold effName
    split
    · exact free_not_mem h1 hx
    · exact free_not_mem h2 hx
  · intro x hx
    unfold effSource
    split
    · exact free_not_mem h4 hx
    · exact sFeature_free x hx
  · intro x hx
    unfold effType
    split
    · exact free_not_mem h5 hx
    · exact sUnknown_free x hx

/-- `wfFeature` is `wfFeatureQ` plus "the written seqid does not begin with `#`" -/
theorem wfFeature_split {locus : Str} {f : Feature} (h : wfFeature locus f = true) :
    wfFeatureQ locus f = true ∧ hasPrefix sHash1 (effName locus f) = false := by
  simp only [wfFeature, wfFeatureQ, effName, Bool.and_eq_true, Bool.not_eq_true'] at h ⊢
  obtain ⟨⟨⟨⟨⟨⟨⟨⟨⟨⟨⟨h1, h2⟩, h3⟩, h4⟩, h5⟩, h6⟩, h7⟩, h8⟩, h9⟩, h10⟩, h11⟩, h12⟩ := h
  exact ⟨⟨⟨⟨⟨⟨⟨⟨⟨⟨⟨h1, h2⟩, h4⟩, h5⟩, h6⟩, h7⟩, h8⟩, h9⟩, h10⟩, h11⟩, h12⟩, h3⟩

theorem canonAttrs_perm {a : List (Str × Str)} (h : (a.map (·.1)).Nodup) : (canonAttrs a).Perm a :=
  sortedEntries_perm [] a h

theorem canonAttrs_facts {a : List (Str × Str)} (h : AttrFacts a) : AttrFacts (canonAttrs a) := by
  have hp := canonAttrs_perm h.nodup
  refine ⟨sortedEntries_keys_nodup [] a h.nodup, ?_⟩
  intro kv hkv
  exact h.chars kv (hp.subset hkv)

theorem itoa_free_tabnl (v : Int) : ∀ x ∈ ['\t', '\n', '\r', ' '], x ∉ itoa v := by
  intro x hx
  simp only [List.mem_cons, List.not_mem_nil, or_false] at hx
  rcases hx with rfl | rfl | rfl | rfl <;> exact itoa_free v (by decide) (by decide)

/-! ### Parse ∘ Build, feature by feature -/

theorem parseFeature_build {locus : Str} {f : Feature} (h : wfFeatureQ locus f = true) :
    parseFeature (buildFeature locus f) = .ok (expectedFeature locus f) := by
  have hf := featureFacts h
  rw [buildFeature_eq, parseFeature_cols _ _ _ _ _ _ _ _ _ false ?_ (canonAttrs_facts hf.attrs)]
  · have h1 : atoi (itoa (f.start + 1)) - 1 = f.start := by rw [atoi_itoa hf.start1]; omega
    have h2 : atoi (itoa f.stop) = f.stop := atoi_itoa hf.stop
    rw [h1, h2]
    cases f
    simp [expectedFeature, effName, effSource, effType]
  · intro c hc
    simp only [List.mem_cons, List.not_mem_nil, or_false] at hc
    rcases hc with rfl | rfl | rfl | rfl | rfl | rfl | rfl | rfl
    · exact hf.name _ (by simp)
    · exact hf.source _ (by simp)
    · exact hf.type _ (by simp)
    · exact itoa_free_tabnl _ _ (by simp)
    · exact itoa_free_tabnl _ _ (by simp)
    · exact hf.score _ (by simp)
    · exact hf.strand _ (by simp)
    · exact hf.phase _ (by simp)

theorem buildFeature_line {locus : Str} {f : Feature} (h : wfFeatureQ locus f = true) :
    buildFeature locus f ≠ [] ∧ (∀ x ∈ ['\n', '\r'], x ∉ buildFeature locus f) := by
  have hf := featureFacts h
  rw [buildFeature_eq]
  refine ⟨?_, ?_⟩
  · simp [joinSep]
  · intro x hx hm
    have hx3 : x ∈ ['\t', '\n', '\r'] := by
      simp only [List.mem_cons, List.not_mem_nil, or_false] at hx ⊢
      rcases hx with rfl | rfl <;> simp
    have hx4 : x ∈ ['\t', '\n', '\r', ' '] := by
      simp only [List.mem_cons, List.not_mem_nil, or_false] at hx ⊢
      rcases hx with rfl | rfl <;> simp
    rcases mem_joinSep hm with e | ⟨l, hl, hc⟩
    · simp only [List.mem_cons, List.not_mem_nil, or_false] at hx
      rcases hx with rfl | rfl <;> exact absurd e (by decide)
    · simp only [List.mem_cons, List.not_mem_nil, or_false] at hl
      rcases hl with rfl | rfl | rfl | rfl | rfl | rfl | rfl | rfl | rfl
      · exact hf.name _ hx3 hc
      · exact hf.source _ hx3 hc
      · exact hf.type _ hx3 hc
      · exact itoa_free_tabnl _ _ hx4 hc
      · exact itoa_free_tabnl _ _ hx4 hc
      · exact hf.score _ hx3 hc
      · exact hf.strand _ hx3 hc
      · exact hf.phase _ hx3 hc
      · exact col9_free (canonAttrs_facts hf.attrs) false hx3 hc

/-- a written seqid that does not begin with `#`: the line is not a comment -/
theorem buildFeature_nohash {locus : Str} {f : Feature} (hn : hasPrefix sHash1 (effName locus f) = false) :
    hasPrefix sHash1 (buildFeature locus f) = false := by
  rw [buildFeature_eq, joinSep_cons2]
  exact hasPrefix_hash_col _ hn

/-- a written seqid that begins with `#`: the line is a comment for `Parse` -/
theorem buildFeature_hash {locus : Str} {f : Feature} (hh : hasPrefix sHash1 (effName locus f) = true) :
    hasPrefix sHash1 (buildFeature locus f) = true ∧ buildFeature locus f ≠ sFasta := by
  rw [buildFeature_eq, joinSep_cons2]
  constructor
  · cases hn : effName locus f with
    | nil => rw [hn] at hh; simp [hasPrefix, sHash1] at hh
    | cons a r =>
      rw [hn] at hh
      simpa [hasPrefix, sHash1, List.isPrefixOf] using hh
  · intro e
    have : '\t' ∈ sFasta := by rw [← e]; simp
    exact absurd this (by decide)

/-- the feature lines of a record: a line whose seqid begins with `#` is skipped, every other one is
read back as the expected feature -/
theorem midOk_features (locus : Str) : ∀ (fs : List Feature), (∀ f ∈ fs, wfFeatureQ locus f = true) →
    MidOk (fs.map (buildFeature locus))
      ((fs.filter fun f => !hasPrefix sHash1 (effName locus f)).map (expectedFeature locus))
  | [], _ => MidOk.nil
  | f :: fs, h => by
    have h2 := midOk_features locus fs (fun g hg => h g (by simp [hg]))
    have hl := buildFeature_line (h f (by simp))
    cases hh : hasPrefix sHash1 (effName locus f)
    · have h1 := MidOk.feature hl.1 (buildFeature_nohash hh) (parseFeature_build (h f (by simp)))
      simpa [List.filter, hh] using MidOk.append h1 h2
    · have hs := buildFeature_hash hh
      have h1 := MidOk.skip hs.1 hs.2
      simpa [List.filter, hh] using MidOk.append h1 h2

/-! ### the two header lines -/

theorem sGffVersion_eq : sGffVersion = '#' :: '#' :: 'g' :: "ff-version".toList := by decide
theorem sSeqRegion_eq : sSeqRegion = '#' :: '#' :: 's' :: "equence-region".toList := by decide
theorem sGffVersion_free : ∀ x ∈ [' ', '\n', '\r'], x ∉ sGffVersion := by decide
theorem sSeqRegion_free : ∀ x ∈ [' ', '\n', '\r'], x ∉ sSeqRegion := by decide

theorem header_line_facts (a : Char) (t rest : Str) (ha : a ≠ 'F') :
    hasPrefix sHash1 (('#' :: '#' :: a :: t) ++ rest) = true ∧ ('#' :: '#' :: a :: t) ++ rest ≠ sFasta := by
  refine ⟨by simp [hasPrefix, sHash1, List.isPrefixOf], ?_⟩
  intro e
  simp only [sFasta, List.cons_append, List.cons.injEq, true_and] at e
  exact ha e.1

theorem versionLine_facts (x : Gff) : hasPrefix sHash1 (versionLine x) = true ∧ versionLine x ≠ sFasta := by
  unfold versionLine
  rw [sGffVersion_eq]
  split <;> exact header_line_facts _ _ _ (by decide)

theorem regionLine_facts (x : Gff) : hasPrefix sHash1 (regionLine x) = true ∧ regionLine x ≠ sFasta := by
  unfold regionLine
  rw [sSeqRegion_eq]
  simp only [List.append_assoc]
  exact header_line_facts _ _ _ (by decide)

theorem versionLine_split (x : Gff) (h : free [' ', '\n', '\r'] x.gffVersion = true) :
    idx (split ' ' (versionLine x)) 1 = .ok (if x.gffVersion ≠ [] then x.gffVersion else ['3']) := by
  unfold versionLine
  split
  · rw [split_cons_line _ (sGffVersion_free _ (by simp)), split_nosep (free_not_mem h (by simp))]
    rfl
  · rw [split_cons_line _ (sGffVersion_free _ (by simp))]
    have : split ' ' ['3', ' '] = [['3'], []] := by decide
    rw [this]; rfl

theorem digitsOnly_free (s : Str) : ∀ x ∈ [' ', '\n', '\r'], x ∉ digitsOnly s := by
  intro x hx hm
  have := (List.mem_filter.1 hm).2
  simp only [List.mem_cons, List.not_mem_nil, or_false] at hx
  rcases hx with rfl | rfl | rfl <;> exact absurd this (by decide)

theorem regionStartText_free (x : Gff) : ∀ c ∈ [' ', '\n', '\r'], c ∉ regionStartText x := by
  intro c hc
  unfold regionStartText
  split
  · exact itoa_free_tabnl _ c (by
      simp only [List.mem_cons, List.not_mem_nil, or_false] at hc ⊢
      rcases hc with rfl | rfl | rfl <;> simp)
  · simp only [List.mem_cons, List.not_mem_nil, or_false] at hc
    rcases hc with rfl | rfl | rfl <;> decide

theorem regionEndText_free (x : Gff) : ∀ c ∈ [' ', '\n', '\r'], c ∉ regionEndText x := by
  intro c hc
  unfold regionEndText
  split
  · exact itoa_free_tabnl _ c (by
      simp only [List.mem_cons, List.not_mem_nil, or_false] at hc ⊢
      rcases hc with rfl | rfl | rfl <;> simp)
  · split
    · exact digitsOnly_free _ c hc
    · simp only [List.mem_cons, List.not_mem_nil, or_false] at hc
      rcases hc with rfl | rfl | rfl <;> decide

theorem regionLine_split (x : Gff) (h : free [' ', '\n', '\r'] (regionName x) = true) :
    split ' ' (regionLine x) = [sSeqRegion, regionName x, regionStartText x, regionEndText x] := by
  unfold regionLine
  simp only [List.append_assoc, List.cons_append]
  rw [split_cons_line _ (sSeqRegion_free _ (by simp)), split_cons_line _ (free_not_mem h (by simp)),
    split_cons_line _ (regionStartText_free x _ (by simp)), split_nosep (regionEndText_free x _ (by simp))]

theorem atoi_regionStartText (x : Gff) (h : inInt x.regionStart = true) :
    atoi (regionStartText x) = if x.regionStart ≠ 0 then x.regionStart else 1 := by
  unfold regionStartText
  split
  · exact atoi_itoa (inInt_spec h)
  · decide

theorem atoi_regionEndText (x : Gff) (h : inInt x.regionEnd = true) :
    atoi (regionEndText x) = if x.regionEnd ≠ 0 then x.regionEnd
      else if x.locusSeqLen ≠ [] then atoi (digitsOnly x.locusSeqLen) else 1 := by
  unfold regionEndText
  split
  · exact atoi_itoa (inInt_spec h)
  · split
    · rfl
    · decide

/-! ### the FASTA section of Build -/

theorem fasta_tail (brk : Nat → Bool) (seq : Str) (h : ∀ c ∈ seq, seqChar c = true) :
    TailOk (split '\n' (wrapWith brk 0 seq ++ ['\n'])) seq := by
  have hnl : '\n' ∉ seq := fun hm => (seqChar_facts (h _ hm)).1 rfl
  have hflat : (split '\n' (wrapWith brk 0 seq ++ ['\n'])).flatten = seq := by
    rw [split_flatten, List.filter_append, wrapWith_filter brk 0 seq hnl]
    simp
  have := TailOk.seqlines (split '\n' (wrapWith brk 0 seq ++ ['\n'])) (by
    intro l hl c hc
    have := split_mem hl c hc
    have hmem : c ∈ wrapWith brk 0 seq := by
      rcases List.mem_append.1 this.1 with hm | hm
      · exact hm
      · simp only [List.mem_singleton] at hm
        exact absurd hm this.2
    rcases wrapWith_mem brk 0 seq c hmem with hm | hm
    · exact h c hm
    · exact absurd hm this.2)
  rwa [hflat] at this

/-! ### slices and 1-based inclusive ranges -/

theorem bases_eq_slice (seq : Str) : ∀ (k s : Nat), s + k ≤ seq.length →
    (List.range' (s + 1) k).filterMap (fun i => if i = 0 then none else seq[i - 1]?) = (seq.drop s).take k
  | 0, _, _ => by simp
  | k + 1, s, h => by
    have hlt : s < seq.length := by omega
    have ih := bases_eq_slice seq k (s + 1) (by omega)
    rw [List.range'_succ, List.filterMap_cons]
    simp only [Nat.succ_ne_zero, if_false, Nat.add_sub_cancel, List.getElem?_eq_getElem hlt]
    rw [ih, List.drop_eq_getElem_cons hlt, List.take_succ_cons]

/-- a 0-based half-open slice is the 1-based inclusive range of bases -/
theorem slice_eq_bases (seq : Str) (s e : Nat) (h1 : s ≤ e) (h2 : e ≤ seq.length) :
    slice seq s e = .ok (bases seq (s + 1) e) := by
  have hb : bases seq (s + 1) e = (seq.drop s).take (e - s) := by
    unfold bases
    have : e + 1 - (s + 1) = e - s := by omega
    rw [this]
    exact bases_eq_slice seq (e - s) s (by omega)
  rw [hb]
  unfold slice
  have hc : ¬ ((s : Int) < 0 ∨ (e : Int) > (seq.length : Int) ∨ (s : Int) > (e : Int)) := by omega
  rw [if_neg hc]
  simp only [Int.toNat_natCast]
  rw [List.drop_take]

/-! ### lines of the independent writer -/

theorem chunks_flatten : ∀ (ws : List Nat) (s : Str), (chunks ws s).flatten = s
  | [], s => by simp [chunks]
  | w :: ws, s => by simp [chunks, chunks_flatten ws (s.drop w)]

theorem chunks_mem : ∀ (ws : List Nat) (s : Str), ∀ l ∈ chunks ws s, ∀ c ∈ l, c ∈ s
  | [], s, l, hl, c, hc => by
    simp only [chunks, List.mem_singleton] at hl
    subst hl; exact hc
  | w :: ws, s, l, hl, c, hc => by
    simp only [chunks, List.mem_cons] at hl
    rcases hl with rfl | hl
    · exact List.mem_of_mem_take hc
    · exact List.mem_of_mem_drop (chunks_mem ws (s.drop w) l hl c hc)

structure FeatLineFacts (f : FeatLine) : Prop where
  cols : ∀ c ∈ [f.seqid, f.source, f.type, itoa f.first, itoa f.last, f.score, f.strand, f.phase], ∀ x ∈ ['\t', '\n', '\r'], x ∉ c
  noHash : hasPrefix sHash1 f.seqid = false
  first : minInt ≤ f.first ∧ f.first ≤ maxInt
  last : minInt ≤ f.last ∧ f.last ≤ maxInt
  attrs : AttrFacts f.attrs

theorem featLineFacts {f : FeatLine} (h : wfFeatLine f = true) : FeatLineFacts f := by
  simp only [wfFeatLine, wfCol, Bool.and_eq_true, Bool.not_eq_true'] at h
  obtain ⟨⟨⟨⟨⟨⟨⟨⟨⟨h1, h2⟩, h3⟩, h4⟩, h5⟩, h6⟩, h7⟩, h8⟩, h9⟩, h10⟩ := h
  refine ⟨?_, h2, inInt_spec h8, inInt_spec h9, attrFacts_of_wf h10⟩
  intro c hc x hx
  simp only [List.mem_cons, List.not_mem_nil, or_false] at hc
  rcases hc with rfl | rfl | rfl | rfl | rfl | rfl | rfl | rfl
  · exact free_not_mem h1 hx
  · exact free_not_mem h3 hx
  · exact free_not_mem h4 hx
  · exact itoa_free_tabnl _ x (by
      simp only [List.mem_cons, List.not_mem_nil, or_false] at hx ⊢
      rcases hx with rfl | rfl | rfl <;> simp)
  · exact itoa_free_tabnl _ x (by
      simp only [List.mem_cons, List.not_mem_nil, or_false] at hx ⊢
      rcases hx with rfl | rfl | rfl <;> simp)
  · exact free_not_mem h5 hx
  · exact free_not_mem h6 hx
  · exact free_not_mem h7 hx

theorem featText_eq (semi : Bool) (f : FeatLine) : featText semi f = joinSep '\t' [f.seqid, f.source, f.type, itoa f.first,
    itoa f.last, f.score, f.strand, f.phase, col9 semi f.attrs] := rfl

theorem parseFeature_featText (semi : Bool) {f : FeatLine} (h : wfFeatLine f = true) :
    parseFeature (featText semi f) = .ok (denoteFeat f) := by
  have hf := featLineFacts h
  rw [featText_eq]
  rw [parseFeature_cols _ _ _ _ _ _ _ _ _ semi (fun c hc => hf.cols c hc '\t' (by simp)) hf.attrs]
  rw [atoi_itoa hf.first, atoi_itoa hf.last]
  rfl

theorem featText_line (semi : Bool) {f : FeatLine} (h : wfFeatLine f = true) :
    featText semi f ≠ [] ∧ hasPrefix sHash1 (featText semi f) = false ∧ (∀ x ∈ ['\n', '\r'], x ∉ featText semi f) := by
  have hf := featLineFacts h
  rw [featText_eq]
  refine ⟨by simp [joinSep], ?_, ?_⟩
  · rw [joinSep_cons2]
    exact hasPrefix_hash_col _ hf.noHash
  · intro x hx hm
    have hx3 : x ∈ ['\t', '\n', '\r'] := by
      simp only [List.mem_cons, List.not_mem_nil, or_false] at hx ⊢
      rcases hx with rfl | rfl <;> simp
    rcases mem_joinSep hm with e | ⟨l, hl, hc⟩
    · simp only [List.mem_cons, List.not_mem_nil, or_false] at hx
      rcases hx with rfl | rfl <;> exact absurd e (by decide)
    · simp only [List.mem_cons, List.not_mem_nil, or_false] at hl
      rcases hl with rfl | rfl | rfl | rfl | rfl | rfl | rfl | rfl | rfl
      all_goals first
        | exact col9_free hf.attrs semi hx3 hc
        | exact hf.cols _ (by simp) x hx3 hc

/-! ### skip lines and interleaving -/

theorem skip_facts {l : Str} (h : wfSkip l = true) :
    (l = [] ∨ (hasPrefix sHash1 l = true ∧ l ≠ sFasta)) ∧ (∀ x ∈ ['\n', '\r'], x ∉ l) := by
  simp only [wfSkip, Bool.or_eq_true, Bool.and_eq_true, bne_iff_ne, ne_eq, List.isEmpty_iff] at h
  rcases h with h | h
  · exact ⟨Or.inl h, by simp [h]⟩
  · exact ⟨Or.inr ⟨h.1.1, h.1.2⟩, fun x hx => free_not_mem h.2 hx⟩

theorem midOk_skips : ∀ (ls : List Str), (∀ l ∈ ls, wfSkip l = true) → MidOk ls []
  | [], _ => MidOk.nil
  | l :: ls, h => by
    have ih := midOk_skips ls (fun x hx => h x (by simp [hx]))
    have h1 : MidOk [l] [] := by
      rcases (skip_facts (h l (by simp))).1 with rfl | ⟨hp, hn⟩
      · exact MidOk.blank
      · exact MidOk.skip hp hn
    simpa using MidOk.append h1 ih

theorem tailOk_skips : ∀ (ls : List Str), (∀ l ∈ ls, wfSkip l = true) → TailOk ls []
  | [], _ => TailOk.nil
  | l :: ls, h => by
    have ih := tailOk_skips ls (fun x hx => h x (by simp [hx]))
    have h1 : TailOk [l] [] := by
      rcases (skip_facts (h l (by simp))).1 with rfl | ⟨hp, hn⟩
      · exact TailOk.blank
      · exact TailOk.skip hp hn
    simpa using TailOk.append h1 ih

theorem mem_interleave : ∀ (xs : List Str) (gs : List (List Str)) (l : Str),
    l ∈ interleave xs gs → l ∈ xs ∨ ∃ g ∈ gs, l ∈ g
  | [], _, l, h => by simp [interleave] at h
  | x :: xs, [], l, h => by
    simp only [interleave, List.mem_cons] at h
    rcases h with rfl | h
    · simp
    · rcases mem_interleave xs [] l h with h | ⟨g, hg, _⟩
      · exact Or.inl (List.mem_cons_of_mem _ h)
      · simp at hg
  | x :: xs, g :: gs, l, h => by
    simp only [interleave, List.mem_append, List.mem_cons] at h
    rcases h with h | rfl | h
    · exact Or.inr ⟨g, by simp, h⟩
    · simp
    · rcases mem_interleave xs gs l h with h | ⟨g', hg', hl⟩
      · exact Or.inl (List.mem_cons_of_mem _ h)
      · exact Or.inr ⟨g', List.mem_cons_of_mem _ hg', hl⟩

theorem midOk_featLines (semi : Bool) : ∀ (fs : List FeatLine) (gs : List (List Str)), (∀ f ∈ fs, wfFeatLine f = true) →
    (∀ g ∈ gs, ∀ l ∈ g, wfSkip l = true) →
    MidOk (interleave (fs.map (featText semi)) gs) (fs.map denoteFeat)
  | [], _, _, _ => by simpa [interleave] using MidOk.nil
  | f :: fs, [], h, hg => by
    have hl := featText_line semi (h f (by simp))
    have h1 := MidOk.feature hl.1 hl.2.1 (parseFeature_featText semi (h f (by simp)))
    have h2 := midOk_featLines semi fs [] (fun x hx => h x (by simp [hx])) hg
    simpa [interleave] using MidOk.append h1 h2
  | f :: fs, g :: gs, h, hg => by
    have hl := featText_line semi (h f (by simp))
    have h1 := MidOk.feature hl.1 hl.2.1 (parseFeature_featText semi (h f (by simp)))
    have h2 := midOk_featLines semi fs gs (fun x hx => h x (by simp [hx])) (fun x hx => hg x (by simp [hx]))
    have := MidOk.append (midOk_skips g (hg g (by simp))) (MidOk.append h1 h2)
    simpa [interleave] using this

theorem tailOk_chunks : ∀ (cs : List Str) (gs : List (List Str)), (∀ l ∈ cs, ∀ c ∈ l, seqChar c = true) →
    (∀ g ∈ gs, ∀ l ∈ g, wfSkip l = true) → TailOk (interleave cs gs) cs.flatten
  | [], _, _, _ => by simpa [interleave] using TailOk.nil
  | x :: xs, [], h, hg => by
    have h1 := TailOk.seqlines [x] (by simpa using h x (by simp))
    have h2 := tailOk_chunks xs [] (fun l hl => h l (by simp [hl])) hg
    simpa [interleave] using TailOk.append h1 h2
  | x :: xs, g :: gs, h, hg => by
    have h1 := TailOk.seqlines [x] (by simpa using h x (by simp))
    have h2 := tailOk_chunks xs gs (fun l hl => h l (by simp [hl])) (fun y hy => hg y (by simp [hy]))
    have := TailOk.append (tailOk_skips g (hg g (by simp))) (TailOk.append h1 h2)
    simpa [interleave] using this

theorem joinLines_lf : ∀ (ls : List Str), joinLines ['\n'] ls = joinSep '\n' ls
  | [] => rfl
  | [l] => rfl
  | l :: l' :: ls => by
    simp only [joinLines, joinSep, joinLines_lf (l' :: ls)]
    simp

/-- CR appended to every line but the last -/
def crButLast : List Str → List Str
  | [] => []
  | [l] => [l]
  | l :: ls => (l ++ ['\r']) :: crButLast ls

theorem crButLast_ne_nil (x : Str) (xs : List Str) : crButLast (x :: xs) ≠ [] := by
  cases xs <;> simp [crButLast]

theorem joinSep_cons_ne (sep : Char) (a : Str) {r : List Str} (h : r ≠ []) : joinSep sep (a :: r) = a ++ sep :: joinSep sep r := by
  cases r with
  | nil => exact absurd rfl h
  | cons b t => rfl

theorem joinLines_crlf : ∀ (ls : List Str), joinLines ['\r', '\n'] ls = joinSep '\n' (crButLast ls)
  | [] => rfl
  | [l] => rfl
  | l :: l' :: ls => by
    have ih := joinLines_crlf (l' :: ls)
    have hc : crButLast (l :: l' :: ls) = (l ++ ['\r']) :: crButLast (l' :: ls) := rfl
    have hj : joinLines ['\r', '\n'] (l :: l' :: ls) = l ++ ['\r', '\n'] ++ joinLines ['\r', '\n'] (l' :: ls) := rfl
    rw [hc, hj, joinSep_cons_ne _ _ (crButLast_ne_nil l' ls), ih]
    simp

theorem joinLines_crlf_final : ∀ (ls : List Str), ls ≠ [] →
    joinLines ['\r', '\n'] ls ++ ['\r', '\n'] = joinSep '\n' (ls.map (· ++ ['\r'])) ++ ['\n']
  | [], h => absurd rfl h
  | [l], _ => by simp [joinLines, joinSep]
  | l :: l' :: ls, _ => by
    have ih := joinLines_crlf_final (l' :: ls) (by simp)
    simp only [joinLines, List.map_cons, joinSep, List.append_assoc] at ih ⊢
    rw [ih]
    simp

theorem crButLast_mem : ∀ (ls : List Str) (l : Str), l ∈ crButLast ls → l ∈ ls ∨ ∃ x ∈ ls, l = x ++ ['\r']
  | [], l, h => by simp [crButLast] at h
  | [x], l, h => by simp only [crButLast, List.mem_singleton] at h; exact Or.inl (by simp [h])
  | x :: y :: ls, l, h => by
    simp only [crButLast, List.mem_cons] at h
    rcases h with rfl | h
    · exact Or.inr ⟨x, by simp, rfl⟩
    · rcases crButLast_mem (y :: ls) l (by simpa [crButLast] using h) with h | ⟨z, hz, e⟩
      · exact Or.inl (List.mem_cons_of_mem _ h)
      · exact Or.inr ⟨z, List.mem_cons_of_mem _ hz, e⟩

theorem crButLast_trim : ∀ (ls : List Str), (∀ l ∈ ls, '\r' ∉ l) → (crButLast ls).map trimCR = ls
  | [], _ => rfl
  | [x], h => by simp [crButLast, trimCR_of_free (h x (by simp))]
  | x :: y :: ls, h => by
    have ih := crButLast_trim (y :: ls) (fun l hl => h l (by simp [hl]))
    simp only [crButLast, List.map_cons, trimCR_cr] at ih ⊢
    rw [ih]

theorem map_cr_trim (ls : List Str) : (ls.map (· ++ ['\r'])).map trimCR = ls := by
  induction ls with
  | nil => rfl
  | cons l ls ih => simp [trimCR_cr, ih]

/-- splitting a laid-out text at LF and trimming CRs gives the lines back, for LF and CR LF line
ends, with or without the final line end -/
theorem split_layoutText (L : List Str) (hne : L ≠ []) (hfree : ∀ l ∈ L, ∀ c ∈ ['\n', '\r'], c ∉ l)
    (crlf final : Bool) :
    (split '\n' (joinLines (if crlf then ['\r', '\n'] else ['\n']) L
        ++ (if final then (if crlf then ['\r', '\n'] else ['\n']) else []))).map trimCR
      = L ++ (if final then [[]] else []) := by
  have hnl : ∀ l ∈ L, '\n' ∉ l := fun l hl => hfree l hl '\n' (by simp)
  have hcr : ∀ l ∈ L, '\r' ∉ l := fun l hl => hfree l hl '\r' (by simp)
  cases crlf <;> cases final
  · simp only [Bool.false_eq_true, if_false, List.append_nil, joinLines_lf]
    rw [split_joinSep hne hnl, map_trimCR_of_free hcr]
  · simp only [Bool.false_eq_true, if_false, if_true, joinLines_lf]
    rw [split_joinSep_sep hne hnl, List.map_append, map_trimCR_of_free hcr]
    rfl
  · simp only [Bool.false_eq_true, if_false, if_true, List.append_nil, joinLines_crlf]
    have hne' : crButLast L ≠ [] := by
      cases L with
      | nil => exact absurd rfl hne
      | cons x xs => exact crButLast_ne_nil x xs
    rw [split_joinSep hne' (by
      intro l hl hm
      rcases crButLast_mem L l hl with h | ⟨x, hx, rfl⟩
      · exact hnl l h hm
      · rcases List.mem_append.1 hm with hm | hm
        · exact hnl x hx hm
        · simp at hm), crButLast_trim L hcr]
  · simp only [if_true]
    rw [joinLines_crlf_final L hne, split_joinSep_sep (by simpa using hne) (by
      intro l hl hm
      obtain ⟨x, hx, rfl⟩ := List.mem_map.1 hl
      rcases List.mem_append.1 hm with hm | hm
      · exact hnl x hx hm
      · simp at hm), List.map_append, map_cr_trim]
    rfl

theorem hasPrefix_append_self (p r : Str) : hasPrefix p (p ++ r) = true :=
  List.isPrefixOf_iff_prefix.2 (List.prefix_append p r)

theorem regionLine_prefix (x : Gff) : hasPrefix sSeqRegion (regionLine x) = true := by
  unfold regionLine
  simp only [List.append_assoc]
  exact hasPrefix_append_self _ _

end PolyVerif.Gff
