import PolyVerif.Lemmas.LineText
import PolyVerif.Spec.RebaseListing
/-
Helper lemmas for Props/C16: what each kind of line of a format-31 listing does to the state
of `rebase.Parse`'s loop.
-/
namespace PolyVerif.Rebase
open PolyVerif PolyVerif.LineText PolyVerif.Spec.RebaseListing

theorem mem_joinSep_char {sep c : Char} : ∀ {ls : List Str}, c ∈ joinSep sep ls → c = sep ∨ ∃ l ∈ ls, c ∈ l
  | [], h => by simp [joinSep] at h
  | [l], h => Or.inr ⟨l, by simp, by simpa [joinSep] using h⟩
  | l :: l' :: ls, h => by
    simp only [joinSep, List.mem_append, List.mem_cons] at h
    rcases h with h | h | h
    · exact Or.inr ⟨l, by simp, h⟩
    · exact Or.inl h
    · rcases mem_joinSep_char (ls := l' :: ls) h with h | ⟨x, hx, hc⟩
      · exact Or.inl h
      · exact Or.inr ⟨x, List.mem_cons_of_mem _ hx, hc⟩

/-! ### tags and the heading -/

theorem hasSub_false_of_head {a : Char} {p : Str} : ∀ {s : Str}, a ∉ s → hasSub (a :: p) s = false
  | [], _ => by simp [hasSub, List.isPrefixOf]
  | c :: cs, h => by
    have hc : a ≠ c := fun e => h (by simp [e])
    have ih := hasSub_false_of_head (a := a) (p := p) (s := cs) (fun m => h (by simp [m]))
    simp [hasSub, List.isPrefixOf, hc, ih]

theorem noTags_spec {line : Str} (h : noTags line = true) : ∀ n, 1 ≤ n → n ≤ 8 → hasSub (tag n) line = false := by
  intro n h1 h8
  simp only [noTags, List.all_eq_true, Bool.not_eq_true'] at h
  exact h n (List.mem_range'_1.2 ⟨h1, by omega⟩)

theorem dispatches_spec {k : Nat} {v : Str} (h : dispatches k v = true) :
    ∀ j, 1 ≤ j → j < k → hasSub (tag j) (tag k ++ v) = false := by
  intro j h1 hk
  simp only [dispatches, List.all_eq_true, Bool.not_eq_true'] at h
  exact h j (List.mem_range'_1.2 ⟨h1, by omega⟩)

theorem noTags_of_blank {line : Str} (h : ∀ c ∈ line, isBlank c = true) : noTags line = true := by
  simp only [noTags, List.all_eq_true, Bool.not_eq_true']
  intro n _
  apply hasSub_false_of_head
  intro hm
  exact absurd (h _ hm) (by decide)

theorem trigger_noTags : noTags trigger = true := by decide

theorem trigger_eq : trigger = 'R' :: "EBASE codes for commercial sources of enzymes".toList := by decide

theorem blank_ne_trigger {line : Str} (h : ∀ c ∈ line, isBlank c = true) : line ≠ trigger := by
  intro e
  have := h 'R' (by rw [e, trigger_eq]; simp)
  exact absurd this (by decide)

theorem tagLine_ne_trigger (n : Nat) (v : Str) : tag n ++ v ≠ trigger := by
  intro e
  rw [trigger_eq] at e
  simp only [tag, List.cons_append, List.cons.injEq] at e
  exact absurd e.1 (by decide)

theorem blanks_contains {c : Char} : blanks.contains c = isBlank c := by
  by_cases h1 : c = ' ' <;> by_cases h2 : c = '\t' <;> simp [blanks, isBlank, h1, h2]

/-! ### single lines -/

theorem started_eta (st : PState) (h : st.started = true) : { st with started := true } = st := by
  cases st; simp_all

theorem recordStep_noTags (st : PState) {line : Str} (h : noTags line = true) : recordStep st line = .ok st := by
  have t := noTags_spec h
  simp [recordStep, t 1, t 2, t 3, t 4, t 5, t 6, t 7, t 8]

/-- a line without tags that is not the heading, while the supplier table is not being read -/
theorem step_idle (st : PState) (hs : st.started = false) {line : Str} (hn : line ≠ trigger)
    (ht : noTags line = true) : step st line = .ok st := by
  simp [step, supplierStep, hn, hs, recordStep_noTags st ht]

/-- the heading -/
theorem step_trigger (st : PState) (hl : st.lineNo = 0) :
    step st trigger = .ok { st with started := true, lineNo := 1 } := by
  have h1 : hasSub (tag 1) trigger = false := noTags_spec trigger_noTags 1 (by omega) (by omega)
  simp [step, supplierStep, h1, hl, recordStep_noTags _ trigger_noTags]

/-- a blank line while the supplier table is being read: only the line counter moves -/
theorem step_blank_started (st : PState) (hs : st.started = true) {line : Str} (hb : ∀ c ∈ line, isBlank c = true) :
    step st line = .ok { st with lineNo := st.lineNo + 1 } := by
  have ht := noTags_of_blank hb
  have h1 : hasSub (tag 1) line = false := noTags_spec ht 1 (by omega) (by omega)
  have htrim : trimLeft blanks line = [] := trimLeft_all (fun c hc => by rw [blanks_contains]; exact hb c hc)
  have he : (if line = trigger then { st with started := true } else st) = st := by
    split
    · exact started_eta st hs
    · rfl
  simp only [step, supplierStep, he, hs, if_true, h1, htrim]
  simp [recordStep_noTags _ ht, hs]

/-- a supplier line, after the two skipped lines -/
theorem step_supplier (st : PState) (hs : st.started = true) (hl : 2 ≤ st.lineNo) {indent : Str} {s : Supplier}
    (hi : ∀ c ∈ indent, isBlank c = true) (hw : wfSupplier indent s = true) :
    step st (supplierLine indent s) =
      .ok { st with lineNo := st.lineNo + 1, suppliers := supInsert st.suppliers s.code s.name } := by
  simp only [wfSupplier, Bool.and_eq_true, Bool.not_eq_true', bne_iff_ne, ne_eq] at hw
  obtain ⟨⟨⟨⟨hc, _⟩, _⟩, ht⟩, _⟩ := hw
  have h1 : hasSub (tag 1) (supplierLine indent s) = false := noTags_spec ht 1 (by omega) (by omega)
  have htrim : trimLeft blanks (supplierLine indent s) = s.code :: (List.replicate 8 ' ' ++ s.name) := by
    simp only [supplierLine, List.append_assoc, List.cons_append]
    exact trimLeft_indent _ (by rw [blanks_contains]; exact hc) (fun c hc => by rw [blanks_contains]; exact hi c hc)
  have he : (if supplierLine indent s = trigger then { st with started := true } else st) = st := by
    split
    · exact started_eta st hs
    · rfl
  have hgt : st.lineNo + 1 > 2 := by omega
  have hlen : ¬ (List.length s.name + 1 + 1 + 1 + 1 + 1 + 1 + 1 + 1 + 1 < 9) := by omega
  simp only [step, supplierStep, he, hs, if_true, h1, htrim]
  simp [hgt, recordStep_noTags _ ht, hs, hlen]

theorem from3_tag (n : Nat) (v : Str) : from3 (tag n ++ v) = .ok v := by
  simp [from3, tag]

/-- the `<1>` line: the supplier table ends here, the name is stored -/
theorem step_tag1 (st : PState) (name : Str) :
    step st (tag 1 ++ name) =
      .ok { st with started := false, lineNo := if st.started then 1 else st.lineNo,
                    enzyme := { st.enzyme with name := name } } := by
  have hn := tagLine_ne_trigger 1 name
  have h1 : hasSub (tag 1) (tag 1 ++ name) = true := hasSub_prefix _ _
  cases hs : st.started
  · simp only [step, supplierStep, hn, if_false, hs, Outcome.bind_ok, recordStep, h1, if_true, from3_tag]
    cases st; simp_all
  · simp only [step, supplierStep, hn, if_false, hs, if_true, h1]
    simp [recordStep, h1, from3_tag]

/-- supplierStep does nothing on a record line once the table has been closed -/
theorem supplierStep_tagLine (st : PState) (hs : st.started = false) (n : Nat) (v : Str) :
    supplierStep st (tag n ++ v) = .ok st := by
  simp [supplierStep, tagLine_ne_trigger n v, hs]

theorem step_tag2 (st : PState) (hs : st.started = false) {v : Str} (h : dispatches 2 v = true) :
    step st (tag 2 ++ v) =
      .ok { st with enzyme := { st.enzyme with isoschizomers := if v = [] then st.enzyme.isoschizomers else split ',' v } } := by
  have d := dispatches_spec h
  have e1 : supplierStep st (tag 2 ++ v) = .ok st := supplierStep_tagLine st hs 2 v
  have e2 : hasSub (tag 1) (tag 2 ++ v) = false := d 1 (by omega) (by omega)
  have e3 : hasSub (tag 2) (tag 2 ++ v) = true := hasSub_prefix _ _
  simp only [step, e1, Outcome.bind_ok, recordStep, e2, e3, from3_tag, if_true, Bool.false_eq_true, if_false]
  by_cases hv : v = []
  · simp only [hv, if_true]
  · simp only [hv, if_false]

theorem step_tag3 (st : PState) (hs : st.started = false) {v : Str} (h : dispatches 3 v = true) :
    step st (tag 3 ++ v) = .ok { st with enzyme := { st.enzyme with recognitionSequence := v } } := by
  have d := dispatches_spec h
  simp [step, supplierStep_tagLine st hs, recordStep, d 1, d 2, hasSub_prefix, from3_tag]

theorem step_tag4 (st : PState) (hs : st.started = false) {v : Str} (h : dispatches 4 v = true) :
    step st (tag 4 ++ v) = .ok { st with enzyme := { st.enzyme with methylationSite := v } } := by
  have d := dispatches_spec h
  simp [step, supplierStep_tagLine st hs, recordStep, d 1, d 2, d 3, hasSub_prefix, from3_tag]

theorem step_tag5 (st : PState) (hs : st.started = false) {v : Str} (h : dispatches 5 v = true) :
    step st (tag 5 ++ v) = .ok { st with enzyme := { st.enzyme with microOrganism := v } } := by
  have d := dispatches_spec h
  simp [step, supplierStep_tagLine st hs, recordStep, d 1, d 2, d 3, d 4, hasSub_prefix, from3_tag]

theorem step_tag6 (st : PState) (hs : st.started = false) {v : Str} (h : dispatches 6 v = true) :
    step st (tag 6 ++ v) = .ok { st with enzyme := { st.enzyme with source := v } } := by
  have d := dispatches_spec h
  simp [step, supplierStep_tagLine st hs, recordStep, d 1, d 2, d 3, d 4, d 5, hasSub_prefix, from3_tag]

theorem step_tag7 (st : PState) (hs : st.started = false) {v : Str} (h : dispatches 7 v = true) :
    step st (tag 7 ++ v) =
      .ok { st with enzyme := { st.enzyme with commercialAvailability := v.map (supLookup st.suppliers) } } := by
  have d := dispatches_spec h
  simp [step, supplierStep_tagLine st hs, recordStep, d 1, d 2, d 3, d 4, d 5, d 6, hasSub_prefix, from3_tag]

theorem step_tag8 (st : PState) (hs : st.started = false) {v : Str} (h : dispatches 8 v = true) :
    step st (tag 8 ++ v) =
      .ok { st with enzymeMap := mapInsert st.enzymeMap st.enzyme.name { st.enzyme with references := v }, enzyme := {} } := by
  have d := dispatches_spec h
  simp [step, supplierStep_tagLine st hs, recordStep, d 1, d 2, d 3, d 4, d 5, d 6, d 7, hasSub_prefix, from3_tag]

/-! ### the loop -/

theorem loop_append : ∀ (a b : List Str) (st : PState), loop (a ++ b) st = (loop a st).bind (loop b)
  | [], _, _ => rfl
  | l :: ls, b, st => by
    simp only [List.cons_append, loop]
    cases step st l with
    | ok s => simp only [Outcome.bind_ok]; exact loop_append ls b s
    | err => rfl
    | panic => rfl

theorem loop_idle : ∀ (ls : List Str) (st : PState), st.started = false →
    (∀ l ∈ ls, l ≠ trigger ∧ noTags l = true) → loop ls st = .ok st
  | [], _, _, _ => rfl
  | l :: ls, st, hs, h => by
    have hl := h l (by simp)
    simp only [loop, step_idle st hs hl.1 hl.2, Outcome.bind_ok]
    exact loop_idle ls st hs (fun x hx => h x (by simp [hx]))

theorem loop_blanks_started {blank : Str} (hb : ∀ c ∈ blank, isBlank c = true) : ∀ (n : Nat) (st : PState),
    st.started = true → loop (List.replicate n blank) st = .ok { st with lineNo := st.lineNo + n }
  | 0, st, _ => by simp [loop]
  | n + 1, st, hs => by
    simp only [List.replicate_succ, loop, step_blank_started st hs hb, Outcome.bind_ok]
    rw [loop_blanks_started hb n { st with lineNo := st.lineNo + 1 } hs]
    simp [Nat.add_assoc, Nat.add_comm 1 n]

theorem loop_blanks_idle {blank : Str} (hb : ∀ c ∈ blank, isBlank c = true) (n : Nat) (st : PState)
    (hs : st.started = false) : loop (List.replicate n blank) st = .ok st :=
  loop_idle _ st hs (fun l hl => by
    rw [(List.mem_replicate.1 hl).2]
    exact ⟨blank_ne_trigger hb, noTags_of_blank hb⟩)

/-! ### one record -/

/-- the entry `Parse` stores for a record, given the supplier map built so far -/
def enzymeModel (sup : List (Char × Str)) (r : Rec) : Enzyme :=
  { name := r.name, isoschizomers := if joinSep ',' r.isos = [] then [] else split ',' (joinSep ',' r.isos),
    recognitionSequence := r.recog,
    methylationSite := r.meth, microOrganism := r.org, source := r.src,
    commercialAvailability := r.codes.map (supLookup sup), references := r.refs }

structure RecFacts (sups : List Supplier) (r : Rec) : Prop where
  d2 : dispatches 2 (joinSep ',' r.isos) = true
  d3 : dispatches 3 r.recog = true
  d4 : dispatches 4 r.meth = true
  d5 : dispatches 5 r.org = true
  d6 : dispatches 6 r.src = true
  d7 : dispatches 7 r.codes = true
  d8 : dispatches 8 r.refs = true
  more : ∀ l ∈ r.moreRefs, l ≠ trigger ∧ noTags l = true
  isos : ∀ i ∈ r.isos, ',' ∉ i
  isosNe : r.isos ≠ [[]]
  noNl : ∀ l ∈ recLines r, '\n' ∉ l

theorem noNl_spec {s : Str} (h : noNl s = true) : '\n' ∉ s := by
  simpa [noNl] using h

theorem tag_noNl (n : Nat) (hn : n < 10) : '\n' ∉ tag n := by
  have : ∀ n, n < 10 → '\n' ∉ tag n := by decide
  exact this n hn

theorem recFacts {sups : List Supplier} {r : Rec} (h : wfRec sups r = true) : RecFacts sups r := by
  simp only [wfRec, Bool.and_eq_true, List.all_eq_true, Bool.not_eq_true', bne_iff_ne, ne_eq] at h
  obtain ⟨⟨⟨⟨⟨⟨⟨⟨⟨⟨⟨⟨⟨⟨⟨⟨n1, hisos⟩, n3⟩, n4⟩, n5⟩, n6⟩, n7⟩, n8⟩, d2⟩, d3⟩, d4⟩, d5⟩, d6⟩, d7⟩, d8⟩, hmore⟩, hne⟩ := h
  have hisoNl : '\n' ∉ joinSep ',' r.isos := by
    intro hm
    rcases mem_joinSep_char hm with e | ⟨l, hl, hc⟩
    · exact absurd e (by decide)
    · exact noNl_spec (hisos l hl).1 hc
  refine ⟨d2, d3, d4, d5, d6, d7, d8, fun l hl => ⟨(hmore l hl).2, (hmore l hl).1.2⟩, ?_, ?_, ?_⟩
  · intro i hi hm
    have := (hisos i hi).2
    rw [List.contains_iff_mem.2 hm] at this
    exact Bool.noConfusion this
  · exact hne
  · intro l hl
    simp only [recLines, List.mem_append, List.mem_cons, List.not_mem_nil, or_false] at hl
    rcases hl with (rfl | rfl | rfl | rfl | rfl | rfl | rfl | rfl) | hl
    all_goals first
      | exact noNl_spec (hmore l hl).1.1
      | (simp only [List.mem_append, not_or]
         refine ⟨tag_noNl _ (by omega), ?_⟩
         first | exact noNl_spec n1 | exact hisoNl | exact noNl_spec n3 | exact noNl_spec n4 | exact noNl_spec n5
               | exact noNl_spec n6 | exact noNl_spec n7 | exact noNl_spec n8)

theorem loop_record {sups : List Supplier} (st : PState) (he : st.enzyme.isoschizomers = []) {r : Rec} (hw : RecFacts sups r) :
    loop (recLines r) st =
      .ok { st with started := false, lineNo := if st.started then 1 else st.lineNo, enzyme := {},
                    enzymeMap := mapInsert st.enzymeMap r.name (enzymeModel st.suppliers r) } := by
  unfold recLines
  rw [loop_append]
  simp only [loop, step_tag1, Outcome.bind_ok]
  rw [step_tag2 _ rfl hw.d2]; simp only [Outcome.bind_ok]
  rw [step_tag3 _ rfl hw.d3]; simp only [Outcome.bind_ok]
  rw [step_tag4 _ rfl hw.d4]; simp only [Outcome.bind_ok]
  rw [step_tag5 _ rfl hw.d5]; simp only [Outcome.bind_ok]
  rw [step_tag6 _ rfl hw.d6]; simp only [Outcome.bind_ok]
  rw [step_tag7 _ rfl hw.d7]; simp only [Outcome.bind_ok]
  rw [step_tag8 _ rfl hw.d8]; simp only [Outcome.bind_ok]
  rw [loop_idle _ _ rfl hw.more]
  simp [enzymeModel, he]

theorem step_blank_keeps (st : PState) {blank : Str} (hb : ∀ c ∈ blank, isBlank c = true) :
    ∃ st', step st blank = .ok st' ∧ st'.enzymeMap = st.enzymeMap := by
  cases hs : st.started
  · exact ⟨st, step_idle st hs (blank_ne_trigger hb) (noTags_of_blank hb), rfl⟩
  · exact ⟨_, step_blank_started st hs hb, rfl⟩

/-! ### the blocks -/

theorem loop_recBlock (sups : List Supplier) {blank : Str} (hb : ∀ c ∈ blank, isBlank c = true) :
    ∀ (recs : List Rec) (gaps : List Nat) (st : PState), st.enzyme.isoschizomers = [] → (∀ r ∈ recs, RecFacts sups r) →
      ∃ st', loop (recBlock blank recs gaps) st = .ok st' ∧ st'.suppliers = st.suppliers ∧
        st'.enzymeMap = recs.foldl (fun m r => mapInsert m r.name (enzymeModel st.suppliers r)) st.enzymeMap
  | [], _, st, _, _ => ⟨st, by simp [recBlock, loop], rfl, rfl⟩
  | r :: rs, [], st, he, h => by
    have h1 := loop_record st he (h r (by simp))
    obtain ⟨st', hl, e2, e3⟩ := loop_recBlock sups hb rs []
      { st with started := false, lineNo := if st.started then 1 else st.lineNo, enzyme := {},
                enzymeMap := mapInsert st.enzymeMap r.name (enzymeModel st.suppliers r) } rfl
      (fun x hx => h x (by simp [hx]))
    refine ⟨st', ?_, e2, e3⟩
    simp only [recBlock]
    rw [loop_append, h1]
    simp only [Outcome.bind_ok, loop]
    rw [step_idle _ rfl (blank_ne_trigger hb) (noTags_of_blank hb)]
    exact hl
  | r :: rs, g :: gs, st, he, h => by
    have h1 := loop_record st he (h r (by simp))
    obtain ⟨st', hl, e2, e3⟩ := loop_recBlock sups hb rs gs
      { st with started := false, lineNo := if st.started then 1 else st.lineNo, enzyme := {},
                enzymeMap := mapInsert st.enzymeMap r.name (enzymeModel st.suppliers r) } rfl
      (fun x hx => h x (by simp [hx]))
    refine ⟨st', ?_, e2, e3⟩
    simp only [recBlock]
    rw [loop_append, loop_append, h1]
    simp only [Outcome.bind_ok]
    rw [loop_blanks_idle hb g _ rfl]
    exact hl

theorem loop_supplierBlock {blank indent : Str} (hb : ∀ c ∈ blank, isBlank c = true)
    (hi : ∀ c ∈ indent, isBlank c = true) :
    ∀ (sups : List Supplier) (gaps : List Nat) (st : PState), st.started = true → 2 ≤ st.lineNo →
      (∀ s ∈ sups, wfSupplier indent s = true) →
      ∃ st', loop (supplierBlock blank indent sups gaps) st = .ok st' ∧ st'.started = true ∧ 2 ≤ st'.lineNo ∧
        st'.enzyme = st.enzyme ∧ st'.enzymeMap = st.enzymeMap ∧
        st'.suppliers = sups.foldl (fun m s => supInsert m s.code s.name) st.suppliers
  | [], _, st, hs, hl, _ => ⟨st, by simp [supplierBlock, loop], hs, hl, rfl, rfl, rfl⟩
  | s :: ss, [], st, hs, hl, h => by
    obtain ⟨st', h1, e1, e2, e3, e4, e5⟩ := loop_supplierBlock hb hi ss []
      { st with lineNo := st.lineNo + 1, suppliers := supInsert st.suppliers s.code s.name } hs
      (by simp only []; omega) (fun x hx => h x (by simp [hx]))
    refine ⟨st', ?_, e1, e2, e3, e4, e5⟩
    simp only [supplierBlock, loop, step_supplier st hs hl hi (h s (by simp)), Outcome.bind_ok]
    exact h1
  | s :: ss, g :: gs, st, hs, hl, h => by
    have hl' : 2 ≤ ({ st with lineNo := st.lineNo + g } : PState).lineNo := by simp only []; omega
    obtain ⟨st', h1, e1, e2, e3, e4, e5⟩ := loop_supplierBlock hb hi ss gs
      { st with lineNo := st.lineNo + g + 1, suppliers := supInsert st.suppliers s.code s.name } hs
      (by simp only []; omega) (fun x hx => h x (by simp [hx]))
    refine ⟨st', ?_, e1, e2, e3, e4, e5⟩
    simp only [supplierBlock]
    rw [loop_append, loop_blanks_started hb g st hs]
    simp only [Outcome.bind_ok, loop]
    rw [step_supplier { st with lineNo := st.lineNo + g } hs hl' hi (h s (by simp))]
    exact h1

/-! ### the supplier map is the table -/

theorem supInsert_new : ∀ (m : List (Char × Str)) (c : Char) (n : Str), c ∉ m.map (·.1) →
    supInsert m c n = m ++ [(c, n)]
  | [], _, _, _ => rfl
  | (c', n') :: r, c, n, h => by
    have hne : c' ≠ c := fun e => h (by simp [e])
    simp [supInsert, hne, supInsert_new r c n (fun hm => h (by simp [hm]))]

theorem codesNodup_spec : ∀ {sups : List Supplier}, codesNodup sups = true → (sups.map (·.code)).Nodup
  | [], _ => List.nodup_nil
  | s :: r, h => by
    simp only [codesNodup, Bool.and_eq_true, Bool.not_eq_true'] at h
    simp only [List.map_cons, List.nodup_cons]
    refine ⟨?_, codesNodup_spec h.2⟩
    intro hm
    rw [List.contains_iff_mem.2 hm] at h
    exact Bool.noConfusion h.1

theorem foldl_supInsert : ∀ (sups : List Supplier) (m : List (Char × Str)),
    ((m.map (·.1)) ++ sups.map (·.code)).Nodup →
    sups.foldl (fun m s => supInsert m s.code s.name) m = m ++ sups.map (fun s => (s.code, s.name))
  | [], m, _ => by simp
  | s :: r, m, h => by
    have hnew : s.code ∉ m.map (·.1) := by
      intro hm
      have := (List.nodup_append.1 h).2.2 s.code hm s.code (by simp)
      exact this rfl
    simp only [List.foldl_cons, supInsert_new m s.code s.name hnew]
    rw [foldl_supInsert r (m ++ [(s.code, s.name)]) (by simpa [List.append_assoc] using h)]
    simp [List.append_assoc]

theorem supLookup_table : ∀ (sups : List Supplier) (c : Char),
    supLookup (sups.map (fun s => (s.code, s.name))) c = supplierOf sups c
  | [], _ => rfl
  | s :: r, c => by
    by_cases h : s.code = c
    · simp [supLookup, supplierOf, List.find?, h]
    · have ih := supLookup_table r c
      have hb : (s.code == c) = false := by simp [h]
      simp only [supplierOf] at ih
      simp [supLookup, supplierOf, List.find?, h, hb, ih]

theorem split_joinSep_isos {isos : List Str} (h : ∀ i ∈ isos, ',' ∉ i) (h1 : isos ≠ [[]]) :
    (if joinSep ',' isos = [] then [] else split ',' (joinSep ',' isos)) = isos := by
  cases isos with
  | nil => simp [joinSep]
  | cons a r =>
    have hne : joinSep ',' (a :: r) ≠ [] := by
      cases r with
      | nil =>
        have ha : a ≠ [] := fun e => h1 (by rw [e])
        simpa [joinSep] using ha
      | cons b t => simp [joinSep]
    rw [if_neg hne]
    exact split_joinSep (sep := ',') (ls := a :: r) (by simp) h

end PolyVerif.Rebase
