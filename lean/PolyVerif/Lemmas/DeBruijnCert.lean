import Mathlib.Data.List.Nodup
import Mathlib.Data.List.Range
import PolyVerif.Spec.DeBruijnCert
import PolyVerif.Lemmas.DeBruijn
/-
Helper lemmas for C17, part 3: soundness of the certificate checker `Spec.certRun` / `Spec.segCheck`.
-/
namespace PolyVerif.Spec
open PolyVerif

theorem force_eq {α : Sort _} (x : Nat) (k : Nat → α) : force x k = k x := by
  cases x <;> rfl

theorem boolrec_eq {α : Type} (f t : α) (b : Bool) : @Bool.rec (fun _ => α) f t b = bif b then t else f := by
  cases b <;> rfl

variable {lk : Nat → Nat} {M n1 C : Nat}

theorem stepChunk_zero (x w p : Nat) (k : Nat → Nat → Option CertSt) :
    stepChunk lk M n1 0 x w p k = k w p := rfl

theorem stepChunk_succ (c x w p : Nat) (k : Nat → Nat → Option CertSt) :
    stepChunk lk M n1 (c + 1) x w p k =
      if n1 ≤ p then
        (if lk ((w * 4 + x % 4) % M) = p - n1 then stepChunk lk M n1 c (x / 4) ((w * 4 + x % 4) % M) (p + 1) k else none)
      else stepChunk lk M n1 c (x / 4) ((w * 4 + x % 4) % M) (p + 1) k := by
  have e : stepChunk lk M n1 (c + 1) x w p k =
      force (Nat.mod (Nat.add (Nat.mul w 4) (Nat.mod x 4)) M) fun w' =>
      force (Nat.add p 1) fun p' =>
        @Bool.rec (fun _ => Option CertSt)
          (stepChunk lk M n1 c (Nat.div x 4) w' p' k)
          (@Bool.rec (fun _ => Option CertSt) none
            (stepChunk lk M n1 c (Nat.div x 4) w' p' k)
            (Nat.beq (lk w') (Nat.sub p n1)))
          (Nat.ble n1 p) := rfl
  rw [e]
  simp only [force_eq, boolrec_eq]
  by_cases h1 : n1 ≤ p
  · have : Nat.ble n1 p = true := Nat.ble_eq_true_of_le h1
    simp only [this, cond_true, h1, if_true]
    by_cases h2 : lk ((w * 4 + x % 4) % M) = p - n1
    · have : Nat.beq (lk (Nat.mod (Nat.add (Nat.mul w 4) (Nat.mod x 4)) M)) (Nat.sub p n1) = true := by
        show Nat.beq (lk ((w * 4 + x % 4) % M)) (p - n1) = true
        rw [h2]; exact Nat.beq_refl _
      simp only [this, cond_true, h2, if_true]; rfl
    · have : Nat.beq (lk (Nat.mod (Nat.add (Nat.mul w 4) (Nat.mod x 4)) M)) (Nat.sub p n1) = false := by
        rw [Bool.eq_false_iff]; intro hb; exact h2 (Nat.eq_of_beq_eq_true hb)
      simp only [this, cond_false, h2, if_false]
  · have : Nat.ble n1 p = false := by
      rw [Bool.eq_false_iff]; intro hb; exact h1 (Nat.le_of_ble_eq_true hb)
    simp only [this, cond_false, h1, if_false]; rfl

theorem certRun_nil (rem w p : Nat) : certRun lk M n1 C [] rem w p = some (rem, w, p) := rfl

theorem certRun_cons (x : Nat) (xs : List Nat) (rem w p : Nat) :
    certRun lk M n1 C (x :: xs) rem w p =
      stepChunk lk M n1 (min C rem) x w p (fun w' p' => certRun lk M n1 C xs (rem - min C rem) w' p') := by
  have e : certRun lk M n1 C (x :: xs) rem w p =
      force (@Bool.rec (fun _ => Nat) rem C (Nat.ble C rem)) fun cnt =>
      force (Nat.sub rem cnt) fun rem' =>
      stepChunk lk M n1 cnt x w p (certRun lk M n1 C xs rem') := rfl
  rw [e]
  simp only [force_eq, boolrec_eq]
  have : (bif Nat.ble C rem then C else rem) = min C rem := by
    by_cases h : C ≤ rem
    · rw [Nat.ble_eq_true_of_le h, cond_true, Nat.min_eq_left h]
    · have : Nat.ble C rem = false := by
        rw [Bool.eq_false_iff]; intro hb; exact h (Nat.le_of_ble_eq_true hb)
      rw [this, cond_false, Nat.min_eq_right (by omega)]
  rw [this]; rfl

/-! ### what a stretch of digits read from a state establishes -/

/-- window value after all of `ds` has been read from `w` -/
def rollEnd (M w : Nat) (ds : List Nat) : Nat := ds.foldl (fun a d => (a * 4 + d) % M) w

theorem rollEnd_append (M w : Nat) (a b : List Nat) : rollEnd M w (a ++ b) = rollEnd M (rollEnd M w a) b := by
  simp [rollEnd, List.foldl_append]

theorem roll_append (M w : Nat) (a b : List Nat) : roll M w (a ++ b) = roll M w a ++ roll M (rollEnd M w a) b := by
  induction a generalizing w with
  | nil => rfl
  | cons d ds ih => simp only [List.cons_append, roll, ih, List.cons.injEq, true_and]; rfl

theorem length_unpack (c x : Nat) : (unpack c x).length = c := by
  induction c generalizing x with
  | zero => rfl
  | succ c ih => simp [unpack, ih]

theorem unpack_lt (c x : Nat) : ∀ d ∈ unpack c x, d < 4 := by
  induction c generalizing x with
  | zero => simp [unpack]
  | succ c ih =>
    intro d hd
    simp only [unpack, List.mem_cons] at hd
    rcases hd with rfl | hd
    · exact Nat.mod_lt _ (by omega)
    · exact ih _ d hd

/-- at every index of the stretch where a window ends (`n1 ≤ position`), the certificate returns the window's start -/
def Good (lk : Nat → Nat) (M n1 w p : Nat) (ds : List Nat) : Prop :=
  ∀ i (h : i < (roll M w ds).length), n1 ≤ p + i → lk ((roll M w ds)[i]) = p + i - n1

theorem good_nil (w p : Nat) : Good lk M n1 w p [] := by
  intro i h; simp [roll] at h

theorem good_cons (w p d : Nat) (ds : List Nat) :
    Good lk M n1 w p (d :: ds) ↔
      (n1 ≤ p → lk ((w * 4 + d) % M) = p - n1) ∧ Good lk M n1 ((w * 4 + d) % M) (p + 1) ds := by
  constructor
  · intro h
    refine ⟨fun hp => by simpa [roll] using h 0 (by simp [roll]) (by omega), ?_⟩
    intro i hi hpi
    have := h (i + 1) (by simp only [roll, List.length_cons]; omega) (by omega)
    simp only [roll, List.getElem_cons_succ] at this
    rw [this]; omega
  · rintro ⟨h0, h1⟩ i hi hpi
    cases i with
    | zero => simpa [roll] using h0 (by omega)
    | succ i =>
      simp only [roll, List.getElem_cons_succ]
      rw [h1 i (by simpa [roll] using hi) (by omega)]; omega

theorem good_append (w p : Nat) (a b : List Nat) :
    Good lk M n1 w p (a ++ b) ↔ Good lk M n1 w p a ∧ Good lk M n1 (rollEnd M w a) (p + a.length) b := by
  induction a generalizing w p with
  | nil => simp [good_nil, rollEnd]
  | cons d ds ih =>
    simp only [List.cons_append, good_cons, ih, List.length_cons]
    have e : p + 1 + ds.length = p + (ds.length + 1) := by omega
    rw [e]
    constructor
    · rintro ⟨h0, h1, h2⟩; exact ⟨⟨h0, h1⟩, h2⟩
    · rintro ⟨⟨h0, h1⟩, h2⟩; exact ⟨h0, h1, h2⟩

theorem stepChunk_sound (c x w p : Nat) (k : Nat → Nat → Option CertSt) (r : CertSt)
    (h : stepChunk lk M n1 c x w p k = some r) :
    Good lk M n1 w p (unpack c x) ∧ k (rollEnd M w (unpack c x)) (p + c) = some r := by
  induction c generalizing x w p with
  | zero => exact ⟨good_nil w p, by simpa [stepChunk_zero, unpack, rollEnd] using h⟩
  | succ c ih =>
    rw [stepChunk_succ] at h
    have key : ∀ (_ : n1 ≤ p → lk ((w * 4 + x % 4) % M) = p - n1)
        (_ : stepChunk lk M n1 c (x / 4) ((w * 4 + x % 4) % M) (p + 1) k = some r),
        Good lk M n1 w p (unpack (c + 1) x) ∧ k (rollEnd M w (unpack (c + 1) x)) (p + (c + 1)) = some r := by
      intro h0 h1
      obtain ⟨g, hk⟩ := ih _ _ _ h1
      refine ⟨(good_cons _ _ _ _).mpr ⟨h0, g⟩, ?_⟩
      have e : p + 1 + c = p + (c + 1) := by omega
      rw [← e]; exact hk
    split at h
    · rename_i hp
      split at h
      · rename_i hl; exact key (fun _ => hl) h
      · simp at h
    · rename_i hp; exact key (fun hp' => absurd hp' hp) h

theorem seqDigits_length_le (cs : List Nat) (rem : Nat) : (seqDigits C cs rem).length ≤ rem := by
  induction cs generalizing rem with
  | nil => simp [seqDigits]
  | cons x xs ih =>
    simp only [seqDigits, List.length_append, length_unpack]
    have := ih (rem - min C rem)
    omega

theorem seqDigits_lt (cs : List Nat) (rem : Nat) : ∀ d ∈ seqDigits C cs rem, d < 4 := by
  induction cs generalizing rem with
  | nil => simp [seqDigits]
  | cons x xs ih =>
    intro d hd
    simp only [seqDigits, List.mem_append] at hd
    rcases hd with hd | hd
    · exact unpack_lt _ _ d hd
    · exact ih _ d hd

theorem certRun_sound (cs : List Nat) (rem w p : Nat) (r : CertSt)
    (h : certRun lk M n1 C cs rem w p = some r) :
    Good lk M n1 w p (seqDigits C cs rem) ∧
      r = (rem - (seqDigits C cs rem).length, rollEnd M w (seqDigits C cs rem), p + (seqDigits C cs rem).length) := by
  induction cs generalizing rem w p with
  | nil => simp only [certRun_nil, Option.some.injEq] at h; subst h; exact ⟨good_nil w p, by simp [seqDigits, rollEnd]⟩
  | cons x xs ih =>
    rw [certRun_cons] at h
    obtain ⟨g1, h2⟩ := stepChunk_sound _ _ _ _ _ _ h
    obtain ⟨g2, hr⟩ := ih _ _ _ h2
    refine ⟨?_, ?_⟩
    · simp only [seqDigits]
      exact (good_append _ _ _ _).mpr ⟨g1, by rw [length_unpack]; exact g2⟩
    · rw [hr]
      simp only [seqDigits, List.length_append, length_unpack, rollEnd_append]
      have := seqDigits_length_le (C := C) xs (rem - min C rem)
      refine Prod.ext (by simp only; omega) (Prod.ext rfl (by simp only; omega))

/-! ### segments compose -/

theorem stepChunk_bind (c x w p : Nat) (k : Nat → Nat → Option CertSt) (g : CertSt → Option CertSt) :
    stepChunk lk M n1 c x w p (fun w' p' => (k w' p').bind g) = (stepChunk lk M n1 c x w p k).bind g := by
  induction c generalizing x w p with
  | zero => rfl
  | succ c ih =>
    simp only [stepChunk_succ, ih]
    split
    · split <;> simp
    · rfl

theorem certRun_append (a b : List Nat) (rem w p : Nat) :
    certRun lk M n1 C (a ++ b) rem w p =
      (certRun lk M n1 C a rem w p).bind (fun r => certRun lk M n1 C b r.1 r.2.1 r.2.2) := by
  induction a generalizing rem w p with
  | nil => simp [certRun_nil]
  | cons x xs ih =>
    simp only [List.cons_append, certRun_cons, ih]
    exact stepChunk_bind _ _ _ _ _ _

theorem segCheck_cons_succ (seg : List Nat) (segs : List (List Nat)) (st : CertSt) (states : List CertSt) (j : Nat) :
    segCheck lk M n1 C (seg :: segs) (st :: states) (j + 1) = segCheck lk M n1 C segs states j := by
  simp [segCheck]

/-- if every segment takes its recorded state to the next one, the whole sequence takes the first to the last -/
theorem segs_chain (segs : List (List Nat)) (states : List CertSt) (hlen : states.length = segs.length + 1)
    (h : ∀ j < segs.length, segCheck lk M n1 C segs states j = true) :
    ∃ st0 stl, states.head? = some st0 ∧ states.getLast? = some stl ∧
      certRun lk M n1 C segs.flatten st0.1 st0.2.1 st0.2.2 = some stl := by
  induction segs generalizing states with
  | nil =>
    match states, hlen with
    | [st], _ => exact ⟨st, st, rfl, rfl, by simp [certRun_nil]⟩
  | cons seg segs ih =>
    match states, hlen with
    | st0 :: st1 :: rest, hlen =>
      have h0 := h 0 (by simp)
      simp only [segCheck, List.getElem?_cons_zero, List.getElem?_cons_succ, decide_eq_true_eq] at h0
      obtain ⟨s1, sl, hs1, hsl, hrun⟩ := ih (st1 :: rest) (by simpa using hlen)
        (fun j hj => by rw [← segCheck_cons_succ seg segs st0]; exact h (j + 1) (by simpa using hj))
      simp only [List.head?_cons, Option.some.injEq] at hs1
      subst hs1
      refine ⟨st0, sl, rfl, by simpa [List.getLast?_cons_cons] using hsl, ?_⟩
      rw [List.flatten_cons, certRun_append, h0]
      exact hrun

/-! ### from the run of the checker to `IsDeBruijn` -/

theorem letterOf_mem (d : Nat) : letterOf d ∈ dbAlphabet := by
  unfold letterOf dbAlphabet
  split <;> simp

theorem digitOf_letterOf {d : Nat} (h : d < 4) : digitOf (letterOf d) = d := by
  have : d = 0 ∨ d = 1 ∨ d = 2 ∨ d = 3 := by omega
  rcases this with rfl | rfl | rfl | rfl <;> decide

theorem roll_mod (M c : Nat) (ds : List Nat) : roll M (c % M) ds = roll M c ds := by
  cases ds with
  | nil => rfl
  | cons d ds =>
    have : (c % M * 4 + d) % M = (c * 4 + d) % M := by
      rw [Nat.add_mod, Nat.mul_mod, Nat.mod_mod, ← Nat.mul_mod, ← Nat.add_mod]
    simp only [roll, this]

theorem rollEnd_mod (M w : Nat) (ds : List Nat) : rollEnd M w ds % M = valFrom w ds % M := by
  induction ds generalizing w with
  | nil => rfl
  | cons d ds ih =>
    show rollEnd M ((w * 4 + d) % M) ds % M = valFrom (w * 4 + d) ds % M
    rw [ih, valFrom_mod]

/-- the certificate run over the whole sequence ⇒ the sequence is a de Bruijn sequence of order `n` -/
theorem certRun_isDeBruijn (n : Nat) (hn : 1 ≤ n) (lk : Nat → Nat) (C : Nat) (chunks : List Nat) (wf pf : Nat)
    (h : certRun lk (4 ^ n) (n - 1) C chunks (4 ^ n + n - 1) 0 0 = some (0, wf, pf)) :
    IsDeBruijn n (seqStr C chunks (4 ^ n + n - 1)) ∧ (windows n (seqStr C chunks (4 ^ n + n - 1))).Nodup := by
  obtain ⟨hg, hr⟩ := certRun_sound _ _ _ _ _ h
  have h4 : 0 < 4 ^ n := Nat.pow_pos (by omega)
  set D := seqDigits C chunks (4 ^ n + n - 1) with hD
  have hle : D.length ≤ 4 ^ n + n - 1 := seqDigits_length_le (C := C) chunks (4 ^ n + n - 1)
  have hDlen : D.length = 4 ^ n + n - 1 := by
    have := congrArg Prod.fst hr
    simp only at this
    omega
  have hlt : ∀ d ∈ D, d < 4 := seqDigits_lt chunks _
  have hslen : (seqStr C chunks (4 ^ n + n - 1)).length = 4 ^ n + n - 1 := by
    simp [seqStr, ← hD, hDlen]
  have hsl : ∀ c ∈ seqStr C chunks (4 ^ n + n - 1), c ∈ dbAlphabet := by
    intro c hc
    simp only [seqStr, List.mem_map] at hc
    obtain ⟨d, _, rfl⟩ := hc
    exact letterOf_mem d
  have hdig : (seqStr C chunks (4 ^ n + n - 1)).map digitOf = D := by
    simp only [seqStr, List.map_map, ← hD]
    conv_rhs => rw [← List.map_id D]
    apply List.map_congr_left
    intro d hd
    exact digitOf_letterOf (hlt d hd)
  -- the window codes are the tail of the rolling values
  have hcodes : (windows n (seqStr C chunks (4 ^ n + n - 1))).map (codeOf n)
      = roll (4 ^ n) (val (D.take (n - 1))) (D.drop (n - 1)) := by
    rw [← windowCodes_eq n _ hn (by omega), List.map_take, List.map_drop, hdig]
  have hsplit : roll (4 ^ n) 0 D
      = roll (4 ^ n) 0 (D.take (n - 1)) ++ roll (4 ^ n) (val (D.take (n - 1))) (D.drop (n - 1)) := by
    conv_lhs => rw [← List.take_append_drop (n - 1) D]
    rw [roll_append, ← roll_mod _ (rollEnd _ _ _), rollEnd_mod, roll_mod]
    rfl
  have hnd : ((windows n (seqStr C chunks (4 ^ n + n - 1))).map (codeOf n)).Nodup := by
    apply List.Nodup.of_map lk
    have : ((windows n (seqStr C chunks (4 ^ n + n - 1))).map (codeOf n)).map lk
        = List.range ((windows n (seqStr C chunks (4 ^ n + n - 1))).map (codeOf n)).length := by
      apply List.ext_getElem
      · simp
      · intro i h1 h2
        rw [List.getElem_map, List.getElem_range]
        have hi : i < (roll (4 ^ n) (val (D.take (n - 1))) (D.drop (n - 1))).length := by
          rw [← hcodes]; simpa using h1
        have hidx : n - 1 + i < (roll (4 ^ n) 0 D).length := by
          rw [hsplit, List.length_append, length_roll, List.length_take]
          have : min (n - 1) D.length = n - 1 := by omega
          omega
        have e : (roll (4 ^ n) 0 D)[n - 1 + i]
            = ((windows n (seqStr C chunks (4 ^ n + n - 1))).map (codeOf n))[i]'(by simpa using h1) := by
          simp only [hcodes, hsplit]
          rw [List.getElem_append_right (by rw [length_roll, List.length_take]; omega)]
          congr 1
          rw [length_roll, List.length_take]
          have : min (n - 1) D.length = n - 1 := by omega
          omega
        have := hg (n - 1 + i) hidx (by omega)
        rw [e] at this
        rw [this]; omega
    rw [this]
    exact List.nodup_range
  have hwn : (windows n (seqStr C chunks (4 ^ n + n - 1))).Nodup := List.Nodup.of_map _ hnd
  refine ⟨⟨hslen, ?_⟩, hwn⟩
  intro w hw hwa
  have hp := windows_perm_words hslen hsl hwn
  have hmem : w ∈ windows n (seqStr C chunks (4 ^ n + n - 1)) := hp.mem_iff.mpr (mem_words.mpr ⟨hw, hwa⟩)
  exact List.count_eq_one_of_mem hwn hmem

/-- the form the segment theorems feed: recorded states, one `segCheck` per segment -/
theorem segments_isDeBruijn (n : Nat) (hn : 1 ≤ n) (lk : Nat → Nat) (C : Nat) (segs : List (List Nat))
    (states : List CertSt) (hlen : states.length = segs.length + 1)
    (hseg : ∀ j < segs.length, segCheck lk (4 ^ n) (n - 1) C segs states j = true)
    (h0 : states.head? = some (4 ^ n + n - 1, 0, 0))
    (hl : states.getLast?.map Prod.fst = some 0) :
    IsDeBruijn n (seqStr C segs.flatten (4 ^ n + n - 1)) ∧
      (windows n (seqStr C segs.flatten (4 ^ n + n - 1))).Nodup := by
  obtain ⟨st0, stl, hs0, hsl, hrun⟩ := segs_chain segs states hlen hseg
  rw [h0] at hs0; rw [hsl] at hl
  simp only [Option.some.injEq, Option.map_some] at hs0 hl
  subst hs0
  obtain ⟨r, wf, pf⟩ := stl
  simp only at hl; subst hl
  exact certRun_isDeBruijn n hn lk C segs.flatten wf pf hrun

end PolyVerif.Spec
