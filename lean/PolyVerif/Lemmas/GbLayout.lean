import PolyVerif.Lemmas.GbBuild
import PolyVerif.Lemmas.LocationNum
/-
C03: the text `build x` is read back by the strict column reader — section lemmas.
-/
namespace PolyVerif.Lemmas.GbLayout
open PolyVerif PolyVerif.StrBuild PolyVerif.GenbankBuild PolyVerif.Spec.GbStrict
open PolyVerif.Lemmas.GbBuild

/-! ### text as a list of newline-terminated lines -/

/-- every line followed by a newline -/
def unl (ls : List Str) : Str := (ls.map (· ++ ['\n'])).flatten

theorem unl_nil : unl [] = [] := rfl
theorem unl_cons (l : Str) (ls : List Str) : unl (l :: ls) = l ++ '\n' :: unl ls := by
  simp [unl]
theorem unl_append (a b : List Str) : unl (a ++ b) = unl a ++ unl b := by
  simp [unl]

theorem lines_unl_append : ∀ (ls : List Str) (tail : Str), (∀ l ∈ ls, NoNl l) →
    lines (unl ls ++ tail) = ls ++ lines tail
  | [], _, _ => rfl
  | l :: ls, tail, h => by
    rw [unl_cons, List.append_assoc, List.cons_append, lines_append_nl _ (h l List.mem_cons_self),
      lines_unl_append ls tail (fun m hm => h m (List.mem_cons_of_mem _ hm))]
    rfl

/-! ### keyword blocks -/

def padKey (k : Str) : Str := k ++ spaces (12 - k.length)

theorem padKey_length {k : Str} (h : k.length ≤ 12) : (padKey k).length = 12 := by
  simp [padKey, spaces]; omega

/-- the lines `buildMetaString name data` writes -/
def blockLines (name data : Str) : List Str :=
  match lines (wrapString data 68) with
  | [] => []
  | d0 :: rest => (padKey name ++ d0) :: rest.map (spaces 12 ++ ·)

theorem buildMetaString_eq (name data : Str) : buildMetaString name data = unl (blockLines name data) := by
  unfold buildMetaString blockLines
  simp only [splitChar_nl_eq_lines]
  cases lines (wrapString data 68) with
  | nil => rfl
  | cons d0 rest =>
    simp only [unl_cons, padKey, List.append_assoc, List.singleton_append]
    congr 2
    simp [unl, List.map_map, Function.comp_def]

theorem isCont_spaces12 (d : Str) : isCont (spaces 12 ++ d) = true := by
  have : (spaces 12 ++ d).take 12 = spaces 12 := by
    rw [List.take_append_of_le_length (by simp [spaces])]
    simp [spaces]
  rw [isCont, this]; simp [spaces, blanks]

theorem headerStep_conts (ds : List Str) (st : HState) :
    (ds.map (spaces 12 ++ ·)).foldr headerStep st = { st with conts := ds ++ st.conts } := by
  induction ds with
  | nil => rfl
  | cons d ds ih =>
    simp only [List.map_cons, List.foldr_cons, ih]
    unfold headerStep
    rw [if_pos (isCont_spaces12 d)]
    simp [spaces]

/-- a keyword that fits the keyword field: non-empty, at most 12 columns, no blank at either end -/
structure KeyOK (k : Str) : Prop where
  len : k.length ≤ 12
  head : ∃ c r, k = c :: r ∧ c ≠ ' '
  last : ∀ c, k.getLast? = some c → c ≠ ' '

theorem take12_pad {k : Str} (h : k.length ≤ 12) (d : Str) : (padKey k ++ d).take 12 = padKey k := by
  rw [List.take_append_of_le_length (by rw [padKey_length h]; exact Nat.le_refl _)]
  exact List.take_of_length_le (by rw [padKey_length h]; exact Nat.le_refl _)

theorem drop12_pad {k : Str} (h : k.length ≤ 12) (d : Str) : (padKey k ++ d).drop 12 = d := by
  have := padKey_length h
  rw [List.drop_append_of_le_length (by omega), List.drop_of_length_le (by omega)]
  rfl

theorem trimRight_pad {k : Str} (h : KeyOK k) : trimRight (padKey k) = k :=
  trimRight_append_blanks k _ h.last

theorem key_line_class {k : Str} (h : KeyOK k) (d : Str) :
    isCont (padKey k ++ d) = false ∧ isSubKey (padKey k ++ d) = false ∧ isKeyLine (padKey k ++ d) = true := by
  obtain ⟨c, r, rfl, hc⟩ := h.head
  refine ⟨?_, ?_, ?_⟩
  · have ht := take12_pad h.len d
    simp only [isCont, ht]
    simp only [padKey, List.cons_append, blanks]
    simp [List.replicate_succ, hc]
  · simp only [padKey, List.cons_append, isSubKey]
    split
    · rename_i heq
      simp only [List.cons.injEq] at heq
      exact absurd heq.1 hc
    · rfl
  · simp [padKey, isKeyLine, hc]

/-- reading one keyword line with its continuation lines, the sub-blocks `st.subs` having been read -/
theorem foldr_blockLines_key {k : Str} (hk : KeyOK k) (data : Str) (st : HState) (hc : st.conts = []) :
    (blockLines k data).foldr headerStep st =
      { st with conts := [], subs := [], blocks := mkBlock k (readText data) st.subs :: st.blocks } := by
  unfold blockLines readText
  obtain ⟨d0, rest, e⟩ := lines_exists (wrapString data 68)
  rw [e]
  simp only [List.foldr_cons, headerStep_conts]
  obtain ⟨h1, h2, h3⟩ := key_line_class hk d0
  unfold headerStep
  simp only [h1, h2, h3, Bool.false_eq_true, if_false, if_true, take12_pad hk.len, drop12_pad hk.len,
    trimRight_pad hk, hc, List.append_nil]

/-- a sub-keyword: written with two leading blanks -/
structure SubKeyOK (k : Str) : Prop where
  len : k.length ≤ 10
  head : ∃ c r, k = c :: r ∧ c ≠ ' '
  last : ∀ c, k.getLast? = some c → c ≠ ' '

theorem sub_line_class {k : Str} (h : SubKeyOK k) (d : Str) :
    isCont (padKey (' ' :: ' ' :: k) ++ d) = false ∧ isSubKey (padKey (' ' :: ' ' :: k) ++ d) = true := by
  obtain ⟨c, r, rfl, hc⟩ := h.head
  have hl : (' ' :: ' ' :: c :: r).length ≤ 12 := by have := h.len; simp at this ⊢; omega
  refine ⟨?_, ?_⟩
  · have ht := take12_pad hl d
    simp only [isCont, ht]
    simp only [padKey, List.cons_append, blanks]
    simp [List.replicate_succ, hc]
  · simp [padKey, isSubKey, hc]

theorem foldr_blockLines_sub {k : Str} (hk : SubKeyOK k) (data : Str) (st : HState) (hc : st.conts = []) :
    (blockLines (' ' :: ' ' :: k) data).foldr headerStep st =
      { st with conts := [], subs := (k, readText data) :: st.subs } := by
  unfold blockLines readText
  obtain ⟨d0, rest, e⟩ := lines_exists (wrapString data 68)
  rw [e]
  simp only [List.foldr_cons, headerStep_conts]
  obtain ⟨h1, h2⟩ := sub_line_class hk d0
  have hl : (' ' :: ' ' :: k).length ≤ 12 := by have := hk.len; simp; omega
  have htr : trimRight ((padKey (' ' :: ' ' :: k)).drop 2) = k := by
    simp only [padKey, List.cons_append, List.drop_succ_cons, List.drop_zero]
    exact trimRight_append_blanks k _ hk.last
  unfold headerStep
  simp only [h1, h2, Bool.false_eq_true, if_false, if_true, take12_pad hl, drop12_pad hl, htr, hc, List.append_nil]

/-- a block as `Build` writes it: keyword, data, sub-keyword blocks -/
structure BlockSpec where
  key : Str
  data : Str
  subs : List (Str × Str)

def subLines (subs : List (Str × Str)) : List Str :=
  (subs.map fun kd => blockLines (' ' :: ' ' :: kd.1) kd.2).flatten

def specLines (b : BlockSpec) : List Str := blockLines b.key b.data ++ subLines b.subs

def specBlock (b : BlockSpec) : SBlock :=
  mkBlock b.key (readText b.data) (b.subs.map fun kd => (kd.1, readText kd.2))

theorem foldr_subLines : ∀ (subs : List (Str × Str)) (st : HState), st.conts = [] →
    (∀ kd ∈ subs, SubKeyOK kd.1) →
    (subLines subs).foldr headerStep st =
      { st with conts := [], subs := (subs.map fun kd => (kd.1, readText kd.2)) ++ st.subs }
  | [], st, hc, _ => by cases st; simp_all [subLines]
  | kd :: subs, st, hc, hk => by
    have ih := foldr_subLines subs st hc (fun x hx => hk x (List.mem_cons_of_mem _ hx))
    simp only [subLines, List.map_cons, List.flatten_cons, List.foldr_append] at ih ⊢
    rw [ih, foldr_blockLines_sub (hk kd List.mem_cons_self) _ _ rfl]
    simp

theorem foldr_specLines (b : BlockSpec) (st : HState) (hc : st.conts = []) (hs : st.subs = [])
    (hk : KeyOK b.key) (hsub : ∀ kd ∈ b.subs, SubKeyOK kd.1) :
    (specLines b).foldr headerStep st =
      { st with conts := [], subs := [], blocks := specBlock b :: st.blocks } := by
  unfold specLines
  rw [List.foldr_append, foldr_subLines b.subs st hc hsub, foldr_blockLines_key hk _ _ rfl]
  simp [specBlock, hs]

def BlockSpec.OK (b : BlockSpec) : Prop := KeyOK b.key ∧ ∀ kd ∈ b.subs, SubKeyOK kd.1

theorem foldr_specs : ∀ (bs : List BlockSpec), (∀ b ∈ bs, b.OK) →
    (bs.map specLines).flatten.foldr headerStep {} =
      { conts := [], subs := [], blocks := bs.map specBlock, ok := true }
  | [], _ => rfl
  | b :: bs, h => by
    simp only [List.map_cons, List.flatten_cons, List.foldr_append]
    rw [foldr_specs bs (fun x hx => h x (List.mem_cons_of_mem _ hx)),
      foldr_specLines b _ rfl rfl (h b List.mem_cons_self).1 (h b List.mem_cons_self).2]

/-- the column reader recovers every block of a header written block by block -/
theorem readHeader_specs (bs : List BlockSpec) (h : ∀ b ∈ bs, b.OK) :
    readHeader (bs.map specLines).flatten = some (bs.map specBlock) := by
  unfold readHeader
  rw [foldr_specs bs h]
  simp

/-! ### the REFERENCE line: number, two blanks, range -/

theorem wrapGo_word (lim : Nat) : ∀ (w word rest : Str), (∀ c ∈ w, isSpace c = false) →
    wrapGo lim 0 word [] (w ++ rest) = wrapGo lim 0 (w.reverse ++ word) [] rest
  | [], _, _, _ => rfl
  | c :: w, word, rest, h => by
    have hc : isSpace c = false := h c List.mem_cons_self
    have hnl : c ≠ '\n' := by intro e; subst e; exact absurd hc (by decide)
    rw [List.cons_append, wrapGo, if_neg hnl, if_neg (by simp [hc])]
    rw [if_neg (by simp only [List.length_nil, List.length_cons]; omega)]
    rw [wrapGo_word lim w (c :: word) rest (fun d hd => h d (List.mem_cons_of_mem _ hd))]
    simp

/-- with a word under construction and a pending run of blanks, the run is either written or
replaced by one newline; the rest is wrapped as usual -/
theorem wrapGo_pending (lim : Nat) : ∀ (rest : Str) (current : Nat) (word sp : Str),
    Plain rest → (∀ c ∈ sp, c = ' ') → sp ≠ [] → word ≠ [] →
    ∃ sep o, wrapGo lim current word sp rest = sep ++ o ∧ (sep = sp.reverse ∨ sep = ['\n'])
      ∧ Wrapped o (word.reverse ++ rest)
  | [], current, word, sp, _, _, _, hw => by
    refine ⟨sp.reverse, word.reverse, ?_, Or.inl rfl, by simpa using Wrapped.refl _⟩
    unfold wrapGo
    rw [if_neg (by simpa [List.length_eq_zero_iff] using hw)]
  | c :: rest, current, word, sp, hpl, hsp, hne, hw => by
    have hc : isSpace c = true → c = ' ' := hpl c List.mem_cons_self
    have hrest : Plain rest := fun d hd => hpl d (List.mem_cons_of_mem _ hd)
    have hnl : c ≠ '\n' := fun h => by
      have := hc (h ▸ isSpace_nl)
      rw [h] at this
      exact absurd this (by decide)
    have hwl : word.length > 0 := List.length_pos_iff.mpr hw
    unfold wrapGo
    rw [if_neg hnl]
    by_cases hs : isSpace c = true
    · rw [if_pos hs, if_pos (Or.inr hwl)]
      refine ⟨sp.reverse, _, rfl, Or.inl rfl, ?_⟩
      have ih := wrapGo_wrapped lim rest (current + (sp.length + word.length)) [] [c] hrest
        (by intro d hd; rw [List.mem_singleton.mp hd]; exact hc hs) (by simp)
      simpa using Wrapped.append_keep word.reverse ih
    · rw [if_neg hs]
      split
      · refine ⟨['\n'], _, rfl, Or.inr rfl, ?_⟩
        have ih := wrapGo_wrapped lim rest 0 (c :: word) [] hrest (by simp) (by simp)
        simpa using ih
      · obtain ⟨sep, o, e, hsep, hwr⟩ := wrapGo_pending lim rest current (c :: word) sp hrest hsp hne (by simp)
        exact ⟨sep, o, e, hsep, by simpa using hwr⟩

theorem wrapGo_blank_flush (lim cur : Nat) (word rest : Str) :
    wrapGo lim cur word [] (' ' :: rest) = word.reverse ++ wrapGo lim (cur + word.length) [] [' '] rest := by
  rw [wrapGo, if_neg (by decide), if_pos isSpace_blank, if_pos (Or.inl List.length_nil)]
  simp

theorem wrapGo_blank_more (lim cur : Nat) (c : Char) (space rest : Str) :
    wrapGo lim cur [] (c :: space) (' ' :: rest) = wrapGo lim cur [] (' ' :: c :: space) rest := by
  rw [wrapGo, if_neg (by decide), if_pos isSpace_blank, if_neg (by simp)]

theorem isSpace_of_isDig {c : Char} (h : Insdc.isDig c = true) : isSpace c = false := by
  simp only [Insdc.isDig, Bool.and_eq_true, decide_eq_true_eq] at h
  have h1 : c ≠ ' ' := by intro e; subst e; revert h; decide
  have h2 : c ≠ '\t' := by intro e; subst e; revert h; decide
  have h3 : c ≠ '\n' := by intro e; subst e; revert h; decide
  have h4 : c ≠ '\x0b' := by intro e; subst e; revert h; decide
  have h5 : c ≠ '\x0c' := by intro e; subst e; revert h; decide
  have h6 : c ≠ '\r' := by intro e; subst e; revert h; decide
  have h7 : c ≠ Char.ofNat 0x85 := by intro e; subst e; revert h; decide
  have h8 : c ≠ Char.ofNat 0xA0 := by intro e; subst e; revert h; decide
  simp [isSpace, h1, h2, h3, h4, h5, h6, h7, h8]

theorem ne_blank_of_isDig {c : Char} (h : Insdc.isDig c = true) : c ≠ ' ' := by
  intro e; subst e; revert h; decide

theorem takeWhile_nonblank_append {w : Str} (hw : ∀ c ∈ w, c ≠ ' ') (r : Str) :
    (w ++ ' ' :: r).takeWhile (· != ' ') = w ∧ (w ++ ' ' :: r).dropWhile (· != ' ') = ' ' :: r := by
  induction w with
  | nil => simp
  | cons c w ih =>
    have hc : c ≠ ' ' := hw c List.mem_cons_self
    have := ih (fun d hd => hw d (List.mem_cons_of_mem _ hd))
    simp [hc, this.1, this.2]

theorem takeWhile_nonblank_self {w : Str} (hw : ∀ c ∈ w, c ≠ ' ') :
    w.takeWhile (· != ' ') = w ∧ w.dropWhile (· != ' ') = [] := by
  induction w with
  | nil => simp
  | cons c w ih =>
    have hc : c ≠ ' ' := hw c List.mem_cons_self
    have := ih (fun d hd => hw d (List.mem_cons_of_mem _ hd))
    simp [hc, this.1, this.2]

theorem getLast?_append_cons (a : Str) (c : Char) (r : Str) : (a ++ c :: r).getLast? = (c :: r).getLast? := by
  induction a with
  | nil => rfl
  | cons x a ih =>
    cases a with
    | nil => simp
    | cons y a => simpa using ih

theorem spacedFrom_head {t : Str} (h : spacedFrom false t = true) : ∃ c r, t = c :: r ∧ c ≠ ' ' := by
  cases t with
  | nil => simp [spacedFrom] at h
  | cons c r =>
    refine ⟨c, r, rfl, ?_⟩
    intro e; subst e
    simp [spacedFrom] at h

theorem denl_append (a b : Str) : denl (a ++ b) = denl a ++ denl b := by simp [denl]

theorem denl_noNl {a : Str} (h : NoNl a) : denl a = a := by
  induction a with
  | nil => rfl
  | cons c a ih =>
    have hc : c ≠ '\n' := h c List.mem_cons_self
    simp only [denl, List.map_cons, if_neg hc] at ih ⊢
    rw [ih (fun d hd => h d (List.mem_cons_of_mem _ hd))]

theorem isSpace_of_visible {c : Char} (h : visible c = true) : isSpace c = false := by
  cases hs : isSpace c with
  | false => rfl
  | true =>
    exfalso
    revert h
    simp only [isSpace, Bool.or_eq_true, beq_iff_eq] at hs
    rcases hs with ((((((rfl | rfl) | rfl) | rfl) | rfl) | rfl) | rfl) | rfl <;> decide

theorem isWord_itoa (n : Nat) : isWord (Location.itoa n) = true := by
  simp only [isWord, Bool.and_eq_true, bne_iff_ne, ne_eq, List.all_eq_true]
  refine ⟨Location.itoa_ne_nil n, fun c hc => ?_⟩
  have := Lemmas.Location.itoa_digits n c hc
  simp only [Insdc.isDig, Bool.and_eq_true, decide_eq_true_eq] at this
  simp only [visible, Bool.and_eq_true, decide_eq_true_eq]
  omega

theorem isWord_refNum (i : Nat) (r : Reference) (h : (r.index == [] || isWord r.index) = true) :
    isWord (refNum i r) = true := by
  unfold refNum
  split
  · exact isWord_itoa _
  · rename_i hne
    simpa [hne] using h

/-- the REFERENCE line is read back as its number and its range, whatever their lengths -/
theorem mkBlock_reference (num : Str) (hnum : isWord num = true) (range : Str) (hr : singleSpaced range = true)
    (subs : List (Str × Str)) :
    mkBlock "REFERENCE".toList (readText (num ++ "  ".toList ++ range)) subs =
      { key := "REFERENCE".toList, num := num, text := range, subs := subs } := by
  have hvis : ∀ c ∈ num, visible c = true := by
    simp only [isWord, Bool.and_eq_true, List.all_eq_true] at hnum
    exact hnum.2
  have hdig : ∀ c ∈ num, isSpace c = false := fun c hc => isSpace_of_visible (hvis c hc)
  have hnb : ∀ c ∈ num, c ≠ ' ' := fun c hc => visible_ne_blank (hvis c hc)
  have hnn : NoNl num := fun c hc => visible_ne_nl (hvis c hc)
  have hlast : ∀ c, (num).getLast? = some c → c ≠ ' ' := fun c hc =>
    hnb c (List.mem_of_getLast? hc)
  have key : ∃ r, readText (num ++ "  ".toList ++ range) = r
      ∧ r.takeWhile (· != ' ') = num ∧ trimLeft (r.dropWhile (· != ' ')) = range := by
    refine ⟨_, rfl, ?_⟩
    unfold readText textOf
    rw [joinSp_lines, wrapString, List.append_assoc,
      wrapGo_word 68 _ [] _ (fun c hc => hdig c hc)]
    have two : "  ".toList = [' ', ' '] := rfl
    rw [two]
    simp only [List.append_nil, List.cons_append, List.nil_append]
    -- first blank: the number is written; second blank: joins the pending run
    rw [wrapGo_blank_flush, wrapGo_blank_more]
    simp only [List.reverse_reverse, List.length_reverse]
    by_cases h0 : range = []
    · subst h0
      rw [wrapGo]
      simp only [List.length_nil, if_true]
      split
      · simp only [List.reverse_cons, List.reverse_nil, List.nil_append, List.cons_append]
        rw [denl_append, denl_noNl hnn]
        have : trimRight (num ++ denl [' ', ' ']) = num :=
          trimRight_append_blanks _ 2 hlast
        rw [this]
        have := takeWhile_nonblank_self hnb
        simp [this.1, this.2, trimLeft]
      · simp only [List.append_nil]
        rw [denl_noNl hnn, trimRight_of_getLast hlast]
        have := takeWhile_nonblank_self hnb
        simp [this.1, this.2, trimLeft]
    · have hs : spacedFrom false range = true := by simpa [singleSpaced, h0] using hr
      obtain ⟨c, r, rfl, hc⟩ := spacedFrom_head hs
      have hpl := plain_of_spacedFrom _ false hs
      have hcs : isSpace c = false := by
        cases hsp : isSpace c with
        | false => rfl
        | true => exact absurd (hpl c List.mem_cons_self hsp) hc
      have hcnl : c ≠ '\n' := by intro e; subst e; exact absurd hcs (by decide)
      rw [wrapGo, if_neg hcnl, if_neg (by simp [hcs])]
      have hrest : Plain r := fun d hd => hpl d (List.mem_cons_of_mem _ hd)
      have hrange_last := spacedFrom_getLast _ false hs
      -- in both cases the result is number, one or two blanks, range
      have fin : ∀ (b : Str), (b = [' '] ∨ b = [' ', ' ']) →
          (trimRight (num ++ (b ++ c :: r))).takeWhile (· != ' ') = num
          ∧ trimLeft ((trimRight (num ++ (b ++ c :: r))).dropWhile (· != ' ')) = c :: r := by
        intro b hb
        have htr : trimRight (num ++ (b ++ c :: r)) = num ++ (b ++ c :: r) := by
          apply trimRight_of_getLast
          intro d hd
          rcases hb with rfl | rfl
          · rw [List.singleton_append, getLast?_append_cons, List.getLast?_cons_cons] at hd
            exact hrange_last d hd
          · rw [List.cons_append, getLast?_append_cons] at hd
            simp only [List.cons_append, List.nil_append, List.getLast?_cons_cons] at hd
            exact hrange_last d hd
        rw [htr]
        rcases hb with rfl | rfl
        · have := takeWhile_nonblank_append hnb (c :: r)
          simp only [List.singleton_append]
          rw [this.1, this.2]
          simp [trimLeft, hc]
        · have := takeWhile_nonblank_append hnb (' ' :: c :: r)
          simp only [List.cons_append, List.nil_append]
          rw [this.1, this.2]
          simp [trimLeft, hc]
      split
      · -- newline now
        have hw := wrapGo_wrapped 68 r 0 [c] [] hrest (by simp) (by simp)
        have hd := hw.denl_eq false (by simpa using hs)
        simp only [List.reverse_nil, List.nil_append, List.reverse_cons, List.singleton_append] at hd
        rw [denl_append, denl_noNl hnn]
        have : denl ('\n' :: wrapGo 68 0 [c] [] r) = [' '] ++ c :: r := by
          simp only [denl, List.map_cons, if_true, List.singleton_append, List.cons.injEq, true_and]
          exact hd
        rw [this]
        exact fin [' '] (Or.inl rfl)
      · obtain ⟨sep, o, e, hsep, hwr⟩ := wrapGo_pending 68 r (0 + (num).length) [c] [' ', ' ']
          hrest (by simp) (by simp) (by simp)
        rw [e, denl_append, denl_noNl hnn, denl_append]
        have hd := hwr.denl_eq false (by simpa using hs)
        simp only [List.reverse_cons, List.reverse_nil, List.nil_append, List.singleton_append] at hd
        rw [hd]
        rcases hsep with rfl | rfl
        · exact fin [' ', ' '] (Or.inr rfl)
        · exact fin [' '] (Or.inl rfl)
  obtain ⟨r, hr1, hr2, hr3⟩ := key
  rw [hr1]
  unfold mkBlock
  rw [if_pos rfl, hr2, hr3]

/-! ### the header of `build x` as a list of blocks -/

theorem mem_of_getLast? {l : Str} {c : Char} (h : l.getLast? = some c) : c ∈ l := List.mem_of_getLast? h

theorem keyOK_of_word {k : Str} (hw : isWord k = true) (hl : k.length ≤ 12) : KeyOK k := by
  simp only [isWord, Bool.and_eq_true, bne_iff_ne, ne_eq, List.all_eq_true] at hw
  refine ⟨hl, ?_, fun c hc => visible_ne_blank (hw.2 c (mem_of_getLast? hc))⟩
  cases k with
  | nil => exact absurd rfl hw.1
  | cons c r => exact ⟨c, r, rfl, visible_ne_blank (hw.2 c List.mem_cons_self)⟩

theorem subKeyOK_of_word {k : Str} (hw : isWord k = true) (hl : k.length ≤ 10) : SubKeyOK k := by
  simp only [isWord, Bool.and_eq_true, bne_iff_ne, ne_eq, List.all_eq_true] at hw
  refine ⟨hl, ?_, fun c hc => visible_ne_blank (hw.2 c (mem_of_getLast? hc))⟩
  cases k with
  | nil => exact absurd rfl hw.1
  | cons c r => exact ⟨c, r, rfl, visible_ne_blank (hw.2 c List.mem_cons_self)⟩

def refSubs (r : Reference) : List (Str × Str) :=
  optSub "AUTHORS" r.authors ++ optSub "TITLE" r.title ++ optSub "JOURNAL" r.journal
    ++ optSub "PUBMED" r.pubMed ++ optSub "REMARK" r.remark

def refSpecs : Nat → List Reference → List BlockSpec
  | _, [] => []
  | i, r :: rs =>
    ⟨"REFERENCE".toList, refNum i r ++ "  ".toList ++ r.range, refSubs r⟩ :: refSpecs (i + 1) rs

def otherSpecs (m : List (Str × Str)) (keys : List Str) : List BlockSpec :=
  keys.map fun k => ⟨k, lookupD m k, []⟩

def headerSpecs (x : Sequence) (keys : List Str) : List BlockSpec :=
  [ ⟨"DEFINITION".toList, x.metadata.definition, []⟩, ⟨"ACCESSION".toList, x.metadata.accession, []⟩,
    ⟨"VERSION".toList, x.metadata.version, []⟩, ⟨"KEYWORDS".toList, x.metadata.keywords, []⟩,
    ⟨"SOURCE".toList, x.metadata.source, [("ORGANISM".toList, x.metadata.organism)]⟩ ]
  ++ refSpecs 0 x.metadata.references ++ otherSpecs x.metadata.other keys

/-- all lines of a list of blocks -/
def specsLines (bs : List BlockSpec) : List Str := (bs.map specLines).flatten

theorem specsLines_append (a b : List BlockSpec) : specsLines (a ++ b) = specsLines a ++ specsLines b := by
  simp [specsLines]

theorem subLines_append (a b : List (Str × Str)) : subLines (a ++ b) = subLines a ++ subLines b := by
  simp [subLines]

theorem optField (k : String) (v : Str) :
    (if v ≠ [] then buildMetaString (' ' :: ' ' :: k.toList) v else []) = unl (subLines (optSub k v)) := by
  by_cases h : v = []
  · simp [h, optSub, subLines, unl]
  · simp [h, optSub, subLines, buildMetaString_eq]

theorem buildReferences_eq : ∀ (refs : List Reference) (i : Nat),
    buildReferences i refs = unl (specsLines (refSpecs i refs))
  | [], _ => rfl
  | r :: rs, i => by
    have e1 : "  AUTHORS".toList = ' ' :: ' ' :: "AUTHORS".toList := rfl
    have e2 : "  TITLE".toList = ' ' :: ' ' :: "TITLE".toList := rfl
    have e3 : "  JOURNAL".toList = ' ' :: ' ' :: "JOURNAL".toList := rfl
    have e4 : "  PUBMED".toList = ' ' :: ' ' :: "PUBMED".toList := rfl
    have e5 : "  REMARK".toList = ' ' :: ' ' :: "REMARK".toList := rfl
    simp only [buildReferences, refSpecs, specsLines, List.map_cons, List.flatten_cons, specLines, refSubs,
      subLines_append, unl_append, List.append_assoc]
    rw [e1, e2, e3, e4, e5, optField, optField, optField, optField, optField, buildMetaString_eq,
      buildReferences_eq rs (i + 1)]
    rfl

theorem buildOther_eq (m : List (Str × Str)) : ∀ keys : List Str,
    (keys.map fun otherKey => buildMetaString otherKey (lookupD m otherKey)).flatten
      = unl (specsLines (otherSpecs m keys))
  | [] => rfl
  | k :: keys => by
    have ih := buildOther_eq m keys
    simp only [otherSpecs, specsLines, List.map_cons, List.flatten_cons, specLines, subLines, List.map_nil,
      List.flatten_nil, List.append_nil, unl_append, List.map_map] at ih ⊢
    rw [ih, buildMetaString_eq]

theorem specsLines_cons (b : BlockSpec) (bs : List BlockSpec) : specsLines (b :: bs) = specLines b ++ specsLines bs := by
  simp [specsLines]

theorem specsLines_nil : specsLines [] = [] := rfl

theorem specLines_nosub (k d : Str) : specLines ⟨k, d, []⟩ = blockLines k d := by
  simp [specLines, subLines]

theorem specLines_onesub (k d k' d' : Str) :
    specLines ⟨k, d, [(k', d')]⟩ = blockLines k d ++ blockLines (' ' :: ' ' :: k') d' := by
  simp [specLines, subLines]

theorem header_sym (k1 k2 k3 k4 k5 k6 d1 d2 d3 d4 d5 d6 R O : Str) (rs os : List BlockSpec)
    (hR : R = unl (specsLines rs)) (hO : O = unl (specsLines os)) :
    buildMetaString k1 d1 ++ buildMetaString k2 d2 ++ buildMetaString k3 d3 ++ buildMetaString k4 d4
      ++ buildMetaString k5 d5 ++ buildMetaString (' ' :: ' ' :: k6) d6 ++ R ++ O
    = unl (specsLines ([ (⟨k1, d1, []⟩ : BlockSpec), ⟨k2, d2, []⟩, ⟨k3, d3, []⟩, ⟨k4, d4, []⟩, ⟨k5, d5, [(k6, d6)]⟩ ]
        ++ rs ++ os)) := by
  rw [specsLines_append, specsLines_append, unl_append, unl_append, ← hR, ← hO]
  rw [specsLines_cons, specsLines_cons, specsLines_cons, specsLines_cons, specsLines_cons, specsLines_nil,
    specLines_nosub, specLines_nosub, specLines_nosub, specLines_nosub, specLines_onesub]
  rw [buildMetaString_eq, buildMetaString_eq, buildMetaString_eq, buildMetaString_eq, buildMetaString_eq,
    buildMetaString_eq]
  generalize blockLines k1 d1 = a1
  generalize blockLines k2 d2 = a2
  generalize blockLines k3 d3 = a3
  generalize blockLines k4 d4 = a4
  generalize blockLines k5 d5 = a5
  generalize blockLines (' ' :: ' ' :: k6) d6 = a6
  simp only [unl_append, List.append_nil, List.append_assoc]

theorem organism_key : "  ORGANISM".toList = ' ' :: ' ' :: "ORGANISM".toList := by decide

/-- the header part of `build x` -/
theorem buildHeader_eq (x : Sequence) (keys : List Str) :
    buildMetaString "DEFINITION".toList x.metadata.definition
      ++ buildMetaString "ACCESSION".toList x.metadata.accession
      ++ buildMetaString "VERSION".toList x.metadata.version
      ++ buildMetaString "KEYWORDS".toList x.metadata.keywords
      ++ buildMetaString "SOURCE".toList x.metadata.source
      ++ buildMetaString "  ORGANISM".toList x.metadata.organism
      ++ buildReferences 0 x.metadata.references
      ++ (keys.map fun otherKey => buildMetaString otherKey (lookupD x.metadata.other otherKey)).flatten
    = unl (specsLines (headerSpecs x keys)) := by
  rw [organism_key]
  exact header_sym _ _ _ _ _ _ _ _ _ _ _ _ _ _ _ _ (buildReferences_eq _ 0) (buildOther_eq _ keys)

/-! #### what the reader makes of these blocks -/

theorem mkBlock_other {k : Str} (hk : k ≠ "REFERENCE".toList) (text : Str) (subs : List (Str × Str)) :
    mkBlock k text subs = { key := k, text := text, subs := subs } := by
  unfold mkBlock
  rw [if_neg hk]

theorem map_optSub (k : String) {v : Str} (h : singleSpaced v = true) :
    (optSub k v).map (fun kd => (kd.1, readText kd.2)) = optSub k v := by
  unfold optSub
  split
  · simp [readText_singleSpaced h]
  · rfl

theorem specBlock_refs : ∀ (refs : List Reference) (i : Nat), refs.all wfRef = true →
    (refSpecs i refs).map specBlock = absRefs i refs
  | [], _, _ => rfl
  | r :: rs, i, h => by
    simp only [List.all_cons, Bool.and_eq_true] at h
    have hr := h.1
    simp only [wfRef, Bool.and_eq_true] at hr
    obtain ⟨⟨⟨⟨⟨⟨h1, h2⟩, h3⟩, h4⟩, h5⟩, h6⟩, h7⟩ := hr
    simp only [refSpecs, absRefs, List.map_cons, specBlock, specBlock_refs rs (i + 1) h.2]
    rw [mkBlock_reference (refNum i r) (isWord_refNum i r h7) r.range h1]
    simp only [refSubs, List.map_append, map_optSub _ h2, map_optSub _ h3, map_optSub _ h4, map_optSub _ h5,
      map_optSub _ h6]

theorem specBlock_other (m : List (Str × Str)) : ∀ keys : List Str,
    (∀ k ∈ keys, k ≠ "REFERENCE".toList ∧ singleSpaced (lookupD m k) = true) →
    (otherSpecs m keys).map specBlock = keys.map fun k => ({ key := k, text := lookupD m k } : SBlock)
  | [], _ => rfl
  | k :: keys, h => by
    have ih := specBlock_other m keys (fun x hx => h x (List.mem_cons_of_mem _ hx))
    simp only [otherSpecs, List.map_cons, List.map_map] at ih ⊢
    rw [ih]
    obtain ⟨h1, h2⟩ := h k List.mem_cons_self
    simp [specBlock, mkBlock_other h1, readText_singleSpaced h2]

theorem specBlock_plain {k d : Str} (hk : k ≠ "REFERENCE".toList) (hd : singleSpaced d = true) :
    specBlock ⟨k, d, []⟩ = { key := k, text := d } := by
  unfold specBlock
  rw [mkBlock_other hk, readText_singleSpaced hd]
  rfl

theorem specBlock_source {d o : Str} (hd : singleSpaced d = true) (ho : singleSpaced o = true) :
    specBlock ⟨"SOURCE".toList, d, [("ORGANISM".toList, o)]⟩
      = { key := "SOURCE".toList, text := d, subs := [("ORGANISM".toList, o)] } := by
  unfold specBlock
  rw [mkBlock_other (k := "SOURCE".toList) (by decide), readText_singleSpaced hd]
  simp only [List.map_cons, List.map_nil, readText_singleSpaced ho]

theorem lookupD_singleSpaced {n : Nat} (m : List (Str × Str)) (h : m.all (wfOther n) = true) (k : Str) :
    singleSpaced (lookupD m k) = true := by
  induction m with
  | nil => rfl
  | cons kv m ih =>
    simp only [List.all_cons, Bool.and_eq_true] at h
    obtain ⟨a, b⟩ := kv
    have ih' := ih h.2
    unfold lookupD at ih' ⊢
    by_cases hk : (k == a) = true
    · simp only [List.lookup, hk]
      have := h.1
      simp only [wfOther, Bool.and_eq_true] at this
      exact this.2
    · have hk' : (k == a) = false := by simpa using hk
      simp only [List.lookup, hk']
      exact ih'

theorem kDEF : KeyOK "DEFINITION".toList := keyOK_of_word (by decide) (by decide)
theorem kACC : KeyOK "ACCESSION".toList := keyOK_of_word (by decide) (by decide)
theorem kVER : KeyOK "VERSION".toList := keyOK_of_word (by decide) (by decide)
theorem kKEY : KeyOK "KEYWORDS".toList := keyOK_of_word (by decide) (by decide)
theorem kSRC : KeyOK "SOURCE".toList := keyOK_of_word (by decide) (by decide)
theorem kREF : KeyOK "REFERENCE".toList := keyOK_of_word (by decide) (by decide)
theorem kORG : SubKeyOK "ORGANISM".toList := subKeyOK_of_word (by decide) (by decide)
theorem kAUT : SubKeyOK "AUTHORS".toList := subKeyOK_of_word (by decide) (by decide)
theorem kTIT : SubKeyOK "TITLE".toList := subKeyOK_of_word (by decide) (by decide)
theorem kJOU : SubKeyOK "JOURNAL".toList := subKeyOK_of_word (by decide) (by decide)
theorem kPUB : SubKeyOK "PUBMED".toList := subKeyOK_of_word (by decide) (by decide)
theorem kREM : SubKeyOK "REMARK".toList := subKeyOK_of_word (by decide) (by decide)

theorem permute_nil_seed {α : Type} : ∀ l : List α, permute [] l = l
  | [] => rfl
  | a :: l => by simp [permute, permute_nil_seed l]

theorem refs_OK : ∀ (refs : List Reference) (i : Nat), ∀ b ∈ refSpecs i refs, b.OK
  | [], _, b, h => by simp [refSpecs] at h
  | r :: rs, i, b, h => by
    simp only [refSpecs, List.mem_cons] at h
    rcases h with rfl | h
    · refine ⟨kREF, ?_⟩
      intro kd hkd
      simp only [refSubs, optSub, List.mem_append] at hkd
      have aux : ∀ (k : String) (v : Str), kd ∈ (if v ≠ [] then [(k.toList, v)] else []) → kd.1 = k.toList := by
        intro k v hm
        split at hm
        · simp only [List.mem_singleton] at hm; rw [hm]
        · simp at hm
      rcases hkd with (((hkd | hkd) | hkd) | hkd) | hkd
      · rw [aux _ _ hkd]; exact kAUT
      · rw [aux _ _ hkd]; exact kTIT
      · rw [aux _ _ hkd]; exact kJOU
      · rw [aux _ _ hkd]; exact kPUB
      · rw [aux _ _ hkd]; exact kREM
    · exact refs_OK rs (i + 1) b h

/-- the header of a record in the layout domain is read back as `(abs x).blocks` -/
theorem header_read (x : Sequence) (h : wfLayout x = true) :
    readHeader (specsLines (headerSpecs x (sortStrings (x.metadata.other.map Prod.fst)))) = some (abs x).blocks := by
  simp only [wfLayout, Bool.and_eq_true] at h
  obtain ⟨⟨⟨⟨⟨⟨⟨⟨⟨⟨⟨⟨⟨_, hd⟩, ha⟩, hv⟩, hk⟩, hs⟩, ho⟩, hrefs⟩, _⟩, hother⟩, _⟩, _⟩, _⟩, _⟩ := h
  have hkeys : ∀ k ∈ sortStrings (x.metadata.other.map Prod.fst), ∃ kv ∈ x.metadata.other, kv.1 = k := by
    intro k hk'
    have := (sortStrings_perm _).subset hk'
    simpa using this
  have hkey_ok : ∀ k ∈ sortStrings (x.metadata.other.map Prod.fst), KeyOK k ∧ k ≠ "REFERENCE".toList := by
    intro k hk'
    obtain ⟨kv, hm, rfl⟩ := hkeys k hk'
    have hw := List.all_eq_true.mp hother kv hm
    simp only [wfOther, Bool.and_eq_true, Bool.not_eq_true', decide_eq_true_eq] at hw
    refine ⟨keyOK_of_word hw.1.1.1.1 hw.1.1.2, ?_⟩
    intro e
    have hc := hw.1.2
    rw [e] at hc
    revert hc
    decide
  unfold specsLines
  rw [readHeader_specs]
  · congr 1
    unfold headerSpecs abs
    simp only [List.map_append, List.map_cons, List.map_nil]
    rw [specBlock_plain (k := "DEFINITION".toList) (by decide) hd, specBlock_plain (k := "ACCESSION".toList) (by decide) ha,
      specBlock_plain (k := "VERSION".toList) (by decide) hv,
      specBlock_plain (k := "KEYWORDS".toList) (by decide) hk, specBlock_source hs ho, specBlock_refs _ 0 hrefs,
      specBlock_other _ _ (fun k hk' => ⟨(hkey_ok k hk').2, lookupD_singleSpaced _ hother k⟩)]
    simp only [sortedEntries, List.map_map, Function.comp_def]
  · intro b hb
    simp only [headerSpecs, List.mem_append, List.mem_cons, List.not_mem_nil, or_false] at hb
    rcases hb with (hb | hb) | hb
    · rcases hb with rfl | rfl | rfl | rfl | rfl
      · exact ⟨kDEF, by intro kd hkd; cases hkd⟩
      · exact ⟨kACC, by intro kd hkd; cases hkd⟩
      · exact ⟨kVER, by intro kd hkd; cases hkd⟩
      · exact ⟨kKEY, by intro kd hkd; cases hkd⟩
      · refine ⟨kSRC, ?_⟩
        intro kd hkd
        have : kd = ("ORGANISM".toList, x.metadata.organism) := List.mem_singleton.mp hkd
        rw [this]
        exact kORG
    · exact refs_OK _ 0 b hb
    · simp only [otherSpecs, List.mem_map] at hb
      obtain ⟨k, hk', rfl⟩ := hb
      exact ⟨(hkey_ok k hk').1, by intro kd hkd; cases hkd⟩

/-! ### the location text -/

theorem noNl_of_digits {s : Str} (h : Location.Digits s) : NoNl s := by
  intro c hc e
  have := h c hc
  subst e
  revert this
  decide

theorem noNl_itoaInt (i : Int) : NoNl (Location.itoaInt i) := by
  cases i with
  | ofNat n => exact noNl_of_digits (Location.itoa_digits n)
  | negSucc n =>
    intro c hc
    simp only [Location.itoaInt, List.mem_cons] at hc
    rcases hc with rfl | hc
    · decide
    · exact noNl_of_digits (Location.itoa_digits _) c hc

theorem noNl_trimComma {s : Str} (h : NoNl s) : NoNl (Location.trimComma s) := by
  unfold Location.trimComma
  split
  · intro c hc
    exact h c (List.dropLast_subset _ hc)
  · exact h

theorem noNl_cons {c : Char} {s : Str} (hc : c ≠ '\n') (h : NoNl s) : NoNl (c :: s) := by
  intro d hd
  rcases List.mem_cons.mp hd with rfl | hd
  · exact hc
  · exact h d hd

theorem noNl_lit (s : Str) (h : s.all (· != '\n') = true) : NoNl s := by
  intro c hc
  have := List.all_eq_true.mp h c hc
  simpa using this

theorem noNl_wrap (c : Bool) {inner : Str} (h : NoNl inner) :
    NoNl (if c = true then Location.complOpen ++ inner ++ [')'] else inner) := by
  split
  · exact ((noNl_lit Location.complOpen (by decide)).append h).append (noNl_lit [')'] (by decide))
  · exact h

theorem noNl_join {body : Str} (h : NoNl body) : NoNl (Location.trimComma (Location.joinOpen ++ body) ++ [')']) :=
  (noNl_trimComma ((noNl_lit Location.joinOpen (by decide)).append h)).append (noNl_lit [')'] (by decide))

theorem noNl_span (five three : Bool) (a b : Int) :
    NoNl ((if five = true then ['<'] else []) ++ (Location.itoaInt a ++ ['.', '.'] ++ Location.itoaInt b)
      ++ (if three = true then ['>'] else [])) := by
  refine NoNl.append (NoNl.append ?_ (NoNl.append (NoNl.append (noNl_itoaInt _) (noNl_lit ['.', '.'] (by decide))) (noNl_itoaInt _))) ?_
  · split
    · exact noNl_lit ['<'] (by decide)
    · exact noNl_lit [] (by decide)
  · split
    · exact noNl_lit ['>'] (by decide)
    · exact noNl_lit [] (by decide)

mutual
theorem noNl_buildLoc : ∀ l : Location.PLoc, NoNl (Location.buildLoc l)
  | ⟨start, stop, complement, join, five, three, []⟩ => by
    rw [Location.buildLoc.eq_def]
    apply noNl_wrap
    split
    · exact noNl_join (noNl_buildSubs [])
    · exact noNl_span _ _ _ _
  | ⟨start, stop, complement, join, five, three, [x]⟩ => by
    rw [Location.buildLoc.eq_def]
    apply noNl_wrap
    split
    · exact noNl_join (noNl_buildSubs [x])
    · exact noNl_buildLoc x
  | ⟨start, stop, complement, join, five, three, x :: y :: zs⟩ => by
    rw [Location.buildLoc.eq_def]
    apply noNl_wrap
    split
    · exact noNl_join (noNl_buildSubs (x :: y :: zs))
    · exact noNl_join (noNl_buildSubs (x :: y :: zs))
theorem noNl_buildSubs : ∀ ls : List Location.PLoc, NoNl (Location.buildSubs ls)
  | [] => by intro c hc; simp [Location.buildSubs] at hc
  | x :: xs => by
    rw [Location.buildSubs]
    exact (noNl_buildLoc x).append (noNl_cons (by decide) (noNl_buildSubs xs))
end

theorem ne_nil_wrap (c : Bool) {inner : Str} (h : inner ≠ []) :
    (if c = true then Location.complOpen ++ inner ++ [')'] else inner) ≠ [] := by
  split
  · simp
  · exact h

theorem buildLoc_ne_nil : ∀ l : Location.PLoc, Location.buildLoc l ≠ []
  | ⟨start, stop, complement, join, five, three, []⟩ => by
    rw [Location.buildLoc.eq_def]
    apply ne_nil_wrap
    split
    · simp
    · intro h
      simp only [List.append_eq_nil_iff] at h
      have h1 := h.1.2.1.1
      cases hs : start + 1 with
      | ofNat n => rw [hs] at h1; exact Location.itoa_ne_nil n h1
      | negSucc n => rw [hs] at h1; simp [Location.itoaInt] at h1
  | ⟨start, stop, complement, join, five, three, [x]⟩ => by
    rw [Location.buildLoc.eq_def]
    apply ne_nil_wrap
    split
    · simp
    · exact buildLoc_ne_nil x
  | ⟨start, stop, complement, join, five, three, x :: y :: zs⟩ => by
    rw [Location.buildLoc.eq_def]
    apply ne_nil_wrap
    split <;> simp

/-! ### the feature table -/

def locText (f : Feature) : Str :=
  if f.gbkLocationString ≠ [] then f.gbkLocationString else Location.buildLoc f.sequenceLocation

def qualLine (attrs : List (Str × Str)) (q : Str) : Str :=
  spaces 21 ++ ['/'] ++ q ++ ['=', '"'] ++ lookupD attrs q ++ ['"']

def featHead (f : Feature) : Str := spaces 5 ++ f.type ++ spaces (16 - f.type.length) ++ locText f

def featLines (f : Feature) (keys : List Str) : List Str := featHead f :: keys.map (qualLine f.attributes)

theorem buildFeatureString_eq (f : Feature) (o : List Nat) :
    buildFeatureString f o = unl (featLines f (sortStrings (rangeKeys o f.attributes))) := by
  have e1 : "=\"".toList = ['=', '"'] := by decide
  have e2 : "\"\n".toList = ['"', '\n'] := by decide
  unfold buildFeatureString featLines
  simp only [e1, e2]
  rw [unl_cons]
  simp [featHead, locText, unl, qualLine, List.map_map, Function.comp_def]

theorem readQual_line (attrs : List (Str × Str)) (q : Str) (hq : ∀ c ∈ q, c ≠ '=') :
    readQual (qualLine attrs q) = some (q, lookupD attrs q) := by
  have htake : (qualLine attrs q).take 21 = blanks 21 := by
    unfold qualLine
    simp only [List.append_assoc]
    rw [List.take_append_of_le_length (by simp [spaces])]
    simp [spaces, blanks]
  have hdrop : (qualLine attrs q).drop 21 = '/' :: (q ++ '=' :: '"' :: (lookupD attrs q ++ ['"'])) := by
    unfold qualLine
    simp only [List.append_assoc]
    rw [List.drop_append_of_le_length (by simp [spaces])]
    simp [spaces]
  have hsplit : ∀ (q r : Str), (∀ c ∈ q, c ≠ '=') →
      (q ++ '=' :: r).takeWhile (· != '=') = q ∧ (q ++ '=' :: r).dropWhile (· != '=') = '=' :: r := by
    intro q r hq
    induction q with
    | nil => simp
    | cons c q ih =>
      have hc : c ≠ '=' := hq c List.mem_cons_self
      have := ih (fun d hd => hq d (List.mem_cons_of_mem _ hd))
      simp [hc, this.1, this.2]
  unfold readQual
  rw [if_pos htake, hdrop]
  simp only []
  rw [(hsplit q _ hq).1, (hsplit q _ hq).2]
  simp

theorem spaces5 : spaces 5 = [' ', ' ', ' ', ' ', ' '] := rfl

theorem readQual_head (f : Feature) (c : Char) (r : Str) (ht : f.type = c :: r) (hc : c ≠ ' ') :
    readQual (featHead f) = none := by
  unfold readQual featHead
  rw [if_neg]
  rw [ht, spaces5]
  simp [blanks, List.replicate_succ, hc]

/-- the feature key fits columns 6-20 -/
structure TypeOK (t : Str) : Prop where
  len : t.length ≤ 15
  head : ∃ c r, t = c :: r ∧ c ≠ ' '
  last : ∀ c, t.getLast? = some c → c ≠ ' '

theorem readFeatLine_head (f : Feature) (ht : TypeOK f.type) (hl : locText f ≠ []) :
    readFeatLine (featHead f) = some (f.type, locText f) := by
  obtain ⟨c, r, e, hc⟩ := ht.head
  have hlen := ht.len
  have h5 : (featHead f).take 5 = blanks 5 := by
    unfold featHead
    simp only [List.append_assoc]
    rw [List.take_append_of_le_length (by simp [spaces])]
    simp [spaces, blanks]
  have hd : (featHead f).drop 5 = f.type ++ spaces (16 - f.type.length) ++ locText f := by
    unfold featHead
    simp only [List.append_assoc]
    rw [List.drop_append_of_le_length (by simp [spaces])]
    simp [spaces]
  have hpad : (f.type ++ spaces (16 - f.type.length)).length = 16 := by simp [spaces]; omega
  have h16 : (f.type ++ spaces (16 - f.type.length) ++ locText f).drop 16 = locText f := by
    rw [List.drop_append_of_le_length (by omega), List.drop_of_length_le (by omega)]
    rfl
  have h15 : ((f.type ++ spaces (16 - f.type.length) ++ locText f).drop 15).head? = some ' ' := by
    have e16 : 16 - f.type.length = (15 - f.type.length) + 1 := by omega
    rw [e16, spaces, List.replicate_succ', ← spaces]
    simp only [List.append_assoc]
    rw [← List.append_assoc, List.drop_append_of_le_length (by simp [spaces]; omega),
      List.drop_of_length_le (by simp [spaces]; omega)]
    rfl
  have ht15 : (f.type ++ spaces (16 - f.type.length) ++ locText f).take 15 = f.type ++ spaces (15 - f.type.length) := by
    have e16 : 16 - f.type.length = (15 - f.type.length) + 1 := by omega
    rw [e16, spaces, List.replicate_succ', ← spaces]
    simp only [List.append_assoc]
    rw [← List.append_assoc, List.take_append_of_le_length (by simp [spaces]; omega),
      List.take_of_length_le (by simp [spaces]; omega)]
  unfold readFeatLine
  rw [if_pos h5, hd]
  have hform : f.type ++ spaces (16 - f.type.length) ++ locText f = c :: (r ++ spaces (16 - f.type.length) ++ locText f) := by
    rw [e]; rfl
  rw [hform] at h15 h16 ht15 ⊢
  simp only []
  rw [if_pos ⟨hc, h15, by rw [h16]; exact hl⟩, h16, ht15]
  rw [show trimRight (f.type ++ spaces (15 - f.type.length)) = f.type from trimRight_append_blanks _ _ ht.last]

theorem foldr_qualLines (attrs : List (Str × Str)) : ∀ (keys : List Str) (st : FState),
    (∀ q ∈ keys, ∀ c ∈ q, c ≠ '=') →
    (keys.map (qualLine attrs)).foldr featStep st =
      { st with quals := (keys.map fun q => (q, lookupD attrs q)) ++ st.quals }
  | [], st, _ => rfl
  | q :: keys, st, h => by
    simp only [List.map_cons, List.foldr_cons]
    rw [foldr_qualLines attrs keys st (fun x hx => h x (List.mem_cons_of_mem _ hx))]
    unfold featStep
    rw [readQual_line attrs q (h q List.mem_cons_self)]
    rfl

def featRead (f : Feature) (keys : List Str) : SFeat :=
  { key := f.type, loc := locText f, quals := keys.map fun q => (q, lookupD f.attributes q) }

theorem foldr_featLines (f : Feature) (keys : List Str) (st : FState) (hq : st.quals = [])
    (ht : TypeOK f.type) (hl : locText f ≠ []) (hk : ∀ q ∈ keys, ∀ c ∈ q, c ≠ '=') :
    (featLines f keys).foldr featStep st =
      { st with quals := [], feats := featRead f keys :: st.feats } := by
  unfold featLines
  rw [List.foldr_cons, foldr_qualLines _ keys st hk]
  obtain ⟨c, r, e, hc⟩ := ht.head
  unfold featStep
  rw [readQual_head f c r e hc]
  simp only []
  rw [readFeatLine_head f ht hl]
  simp [featRead, hq]

/-- features with their sorted key lists -/
def featsLines (fks : List (Feature × List Str)) : List Str := (fks.map fun fk => featLines fk.1 fk.2).flatten

theorem foldr_featsLines : ∀ (fks : List (Feature × List Str)),
    (∀ fk ∈ fks, TypeOK fk.1.type ∧ locText fk.1 ≠ [] ∧ ∀ q ∈ fk.2, ∀ c ∈ q, c ≠ '=') →
    (featsLines fks).foldr featStep {} =
      { quals := [], feats := fks.map fun fk => featRead fk.1 fk.2, ok := true }
  | [], _ => rfl
  | fk :: fks, h => by
    simp only [featsLines, List.map_cons, List.flatten_cons, List.foldr_append]
    have ih := foldr_featsLines fks (fun x hx => h x (List.mem_cons_of_mem _ hx))
    simp only [featsLines] at ih
    rw [ih]
    obtain ⟨h1, h2, h3⟩ := h fk List.mem_cons_self
    rw [foldr_featLines fk.1 fk.2 _ rfl h1 h2 h3]

theorem readFeats_featsLines (fks : List (Feature × List Str))
    (h : ∀ fk ∈ fks, TypeOK fk.1.type ∧ locText fk.1 ≠ [] ∧ ∀ q ∈ fk.2, ∀ c ∈ q, c ≠ '=') :
    readFeats (featsLines fks) = some (fks.map fun fk => featRead fk.1 fk.2) := by
  unfold readFeats
  rw [foldr_featsLines fks h]
  simp

end PolyVerif.Lemmas.GbLayout
