import PolyVerif.Lemmas.LocationParse
/-
Helper lemmas for C02, part 3: evaluation (`getSeq`) and partial flags (`pends`) of the
structures `embed l` (assembled) and `pembed l` (parsed).  Both are instances of `embedW w`,
the assembled structure with arbitrary partial flags `w` on its join nodes — the flags
`getFeatureSequence` never reads.
-/
namespace PolyVerif.Lemmas.Location
open PolyVerif PolyVerif.Location PolyVerif.Insdc

mutual
/-- `embed` with arbitrary partial flags on the join nodes and complement wrapper nodes -/
def embedW (w : Loc → Bool × Bool) : Loc → PLoc
  | .span a b lt gt => { start := (a : Int) - 1, stop := b, five := lt, three := gt }
  | .base n => { start := (n : Int) - 1, stop := n }
  | .join xs => { join := true, five := (w (.join xs)).1, three := (w (.join xs)).2, subs := embedWList w xs }
  | .compl x =>
    let p := embedW w x
    if p.complement then { complement := true, five := (w (.compl x)).1, three := (w (.compl x)).2, subs := [p] }
    else { p with complement := true }
def embedWList (w : Loc → Bool × Bool) : List Loc → List PLoc
  | [] => []
  | x :: xs => embedW w x :: embedWList w xs
end

/-- no flags on join nodes: the assembled structure -/
def wNone : Loc → Bool × Bool := fun _ => (false, false)
/-- the flags `parseLocation` leaves on a join node: a marker occurs somewhere in its text -/
def wParse : Loc → Bool × Bool := fun l => (hasChar '<' (print l), hasChar '>' (print l))

mutual
theorem embed_eq_embedW : ∀ (l : Loc), embed l = embedW wNone l
  | .span _ _ _ _ => rfl
  | .base _ => rfl
  | .join xs => by simp [embed, embedW, wNone, embedList_eq_embedWList xs]
  | .compl x => by simp [embed, embedW, wNone, embed_eq_embedW x]
theorem embedList_eq_embedWList : ∀ (xs : List Loc), embedList xs = embedWList wNone xs
  | [] => rfl
  | x :: xs => by simp [embedList, embedWList, embed_eq_embedW x, embedList_eq_embedWList xs]
end

theorem embedW_complement (w : Loc → Bool × Bool) : ∀ (l : Loc), (embedW w l).complement = isCompl l
  | .span _ _ _ _ => rfl
  | .base _ => rfl
  | .join _ => rfl
  | .compl x => by
    simp only [embedW, isCompl]
    split <;> rfl

mutual
/-- the parsed structure is the assembled one, with the parser's flags on the inner nodes -/
theorem pembed_eq_embedW : ∀ (l : Loc), pembed l = embedW wParse l
  | .span _ _ _ _ => rfl
  | .base _ => rfl
  | .join xs => by
    simp [pembed, embedW, wParse, pembedList_eq_embedWList xs]
  | .compl x => by
    simp [pembed, embedW, wParse, pembed_eq_embedW x]
theorem pembedList_eq_embedWList : ∀ (xs : List Loc), pembedList xs = embedWList wParse xs
  | [] => rfl
  | x :: xs => by
    simp [pembedList, embedWList, pembed_eq_embedW x, pembedList_eq_embedWList xs]
end

/-! ### getFeatureSequence -/

theorem slice_range (p : Str) (a b : Nat) (h1 : 1 ≤ a) (h2 : a ≤ b) (h3 : b ≤ p.length) :
    slice p ((a : Int) - 1) (b : Int) = .ok ((p.take b).drop (a - 1)) := by
  unfold slice
  have hn : ¬ ((a : Int) - 1 < 0 ∨ (b : Int) > (p.length : Int) ∨ (a : Int) - 1 > (b : Int)) := by omega
  rw [if_neg hn]
  congr 2
  omega

theorem getSeq_setCompl (q : PLoc) (p : Str) (hq : q.complement = false) :
    getSeq { q with complement := true } p = (getSeq q p).map Transform.revComp := by
  obtain ⟨s, e, c, j, f, t, subs⟩ := q
  simp only at hq
  subst hq
  show getSeq ⟨s, e, true, j, f, t, subs⟩ p = _
  rw [getSeq.eq_def, getSeq.eq_def]
  simp

mutual
/-- the structure evaluates to the INSDC reading (whatever flags the join nodes carry) -/
theorem getSeq_embedW (w : Loc → Bool × Bool) : ∀ (l : Loc) (p : Str), inRange l p.length = true →
    getSeq (embedW w l) p = .ok (denote l p)
  | .span a b lt gt, p, h => by
    simp only [inRange, Bool.and_eq_true, decide_eq_true_eq] at h
    simp [embedW, getSeq, denote, slice_range p a b h.1.1 h.1.2 h.2]
  | .base n, p, h => by
    simp only [inRange, Bool.and_eq_true, decide_eq_true_eq] at h
    simp [embedW, getSeq, denote, slice_range p n n h.1 (Nat.le_refl _) h.2]
  | .join [], p, _ => by
    simp [embedW, embedWList, getSeq, denote, denoteList, slice]
  | .join (x :: xs), p, h => by
    simp only [inRange] at h
    have ih := getSeqList_embedWList w (x :: xs) p h
    simp only [embedWList] at ih
    simp [embedW, embedWList, getSeq, denote, ih]
  | .compl x, p, h => by
    simp only [inRange] at h
    have ih := getSeq_embedW w x p h
    simp only [embedW, denote]
    split
    · simp [getSeq, getSeqList, ih, Outcome.bind, Outcome.map]
    · rename_i hc
      rw [getSeq_setCompl _ _ (by simpa using hc), ih]
      rfl
theorem getSeqList_embedWList (w : Loc → Bool × Bool) : ∀ (xs : List Loc) (p : Str), inRangeList xs p.length = true →
    getSeqList (embedWList w xs) p = .ok (denoteList xs p)
  | [], _, _ => rfl
  | x :: xs, p, h => by
    simp only [inRangeList, Bool.and_eq_true] at h
    simp [embedWList, getSeqList, denoteList, getSeq_embedW w x p h.1, getSeqList_embedWList w xs p h.2, Outcome.bind]
end

/-! ### partial flags -/

theorem pends_setCompl (q : PLoc) : pends { q with complement := true } = pends q := by
  obtain ⟨s, e, c, j, f, t, subs⟩ := q
  show pends ⟨s, e, true, j, f, t, subs⟩ = _
  rw [pends.eq_def, pends.eq_def]

mutual
theorem pends_embedW (w : Loc → Bool × Bool) : ∀ (l : Loc), arity l = true → pends (embedW w l) = ends l
  | .span _ _ _ _, _ => by simp [embedW, pends, ends]
  | .base _, _ => by simp [embedW, pends, ends]
  | .join [], h => by simp [arity] at h
  | .join (x :: xs), h => by
    simp only [arity, Bool.and_eq_true] at h
    have ih := pendsList_embedWList w (x :: xs) h.2
    simp only [embedWList] at ih
    simp [embedW, embedWList, pends, ends, ih]
  | .compl x, h => by
    simp only [arity] at h
    have ih := pends_embedW w x h
    simp only [embedW, ends]
    split
    · simp [pends, pendsList, ih]
    · rw [pends_setCompl, ih]
theorem pendsList_embedWList (w : Loc → Bool × Bool) : ∀ (xs : List Loc), arityList xs = true →
    pendsList (embedWList w xs) = endsList xs
  | [], _ => rfl
  | x :: xs, h => by
    simp only [arityList, Bool.and_eq_true] at h
    simp [embedWList, pendsList, endsList, pends_embedW w x h.1, pendsList_embedWList w xs h.2]
end

end PolyVerif.Lemmas.Location
