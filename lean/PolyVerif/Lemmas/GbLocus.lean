import PolyVerif.Lemmas.GbBuild
/-
C03: the LOCUS line written by `build` is read back by the column reader.
-/
namespace PolyVerif.Lemmas.GbLocus
open PolyVerif PolyVerif.StrBuild PolyVerif.GenbankBuild PolyVerif.Spec.GbStrict
open PolyVerif.Lemmas.GbBuild

/-! ### tokens -/

theorem tokFold_append (a : Str) : ∀ (st : Str × List Str), st.1 = [] →
    a.foldr tokStep st = ((a.foldr tokStep ([], [])).1, (a.foldr tokStep ([], [])).2 ++ st.2) := by
  induction a with
  | nil =>
    intro st h
    obtain ⟨s1, s2⟩ := st
    simp only at h
    subst h
    rfl
  | cons c a ih =>
    intro st h
    simp only [List.foldr_cons]
    rw [ih st h]
    unfold tokStep
    split
    · simp only []
      split <;> simp
    · rfl

/-- a blank separates: the tokens of `a ++ ' ' :: r` are those of `a` followed by those of `r` -/
theorem tokens_append_blank (a r : Str) : tokens (a ++ ' ' :: r) = tokens a ++ tokens r := by
  unfold tokens
  rw [List.foldr_append, List.foldr_cons]
  have h1 : (tokStep ' ' (List.foldr tokStep ([], []) r)).1 = [] := by simp [tokStep]
  rw [tokFold_append a _ h1]
  simp only [tokFinish, tokStep, if_true]
  split <;> split <;> simp_all

theorem tokens_nil : tokens [] = [] := rfl

theorem tokens_blanks_append (n : Nat) (r : Str) : tokens (spaces n ++ r) = tokens r := by
  induction n with
  | zero => rfl
  | succ n ih =>
    have : spaces (n + 1) ++ r = [] ++ ' ' :: (spaces n ++ r) := by simp [spaces, List.replicate_succ]
    rw [this, tokens_append_blank, ih, tokens_nil, List.nil_append]

/-- fields separated by at least one blank -/
theorem tokens_sep (a : Str) (n : Nat) (r : Str) : tokens (a ++ spaces (n + 1) ++ r) = tokens a ++ tokens r := by
  have : a ++ spaces (n + 1) ++ r = a ++ ' ' :: (spaces n ++ r) := by simp [spaces, List.replicate_succ]
  rw [this, tokens_append_blank, tokens_blanks_append]

def optTok (t : Str) : List Str := if t = [] then [] else [t]

theorem tokens_word : ∀ w : Str, (∀ c ∈ w, c ≠ ' ') → tokens w = optTok w := by
  intro w h
  have key : ∀ w : Str, (∀ c ∈ w, c ≠ ' ') → w.foldr tokStep ([], []) = (w, []) := by
    intro w h
    induction w with
    | nil => rfl
    | cons c w ih =>
      have hc : c ≠ ' ' := h c List.mem_cons_self
      rw [List.foldr_cons, ih (fun d hd => h d (List.mem_cons_of_mem _ hd))]
      simp [tokStep, hc]
  unfold tokens optTok
  rw [key w h]
  simp [tokFinish]

/-! ### classification of the tokens -/

def headOk (p : Str → Bool) (l : List Str) : Bool :=
  match l with
  | t :: _ => !p t
  | [] => true

theorem takeIf_pos {p : Str → Bool} {t : Str} (l : List Str) (h : p t = true) : takeIf p (t :: l) = (t, l) := by
  simp [takeIf, h]

theorem takeIf_neg {p : Str → Bool} {l : List Str} (h : headOk p l = true) : takeIf p l = ([], l) := by
  cases l with
  | nil => rfl
  | cons t l =>
    simp only [headOk, Bool.not_eq_true'] at h
    simp [takeIf, h]

theorem takeIf_opt (p : Str → Bool) (t : Str) (l : List Str) (h1 : t ≠ [] → p t = true)
    (h2 : t = [] → headOk p l = true) : takeIf p (optTok t ++ l) = (t, l) := by
  unfold optTok
  split
  · rename_i h
    subst h
    exact takeIf_neg (h2 rfl)
  · rename_i h
    exact takeIf_pos l (h1 h)

theorem headOk_opt (p : Str → Bool) (t : Str) (l : List Str) (h1 : t ≠ [] → p t = false)
    (h2 : t = [] → headOk p l = true) : headOk p (optTok t ++ l) = true := by
  unfold optTok
  split
  · rename_i h; exact h2 h
  · rename_i h; simp [headOk, h1 h]

theorem reverse_optTok (t : Str) : (optTok t).reverse = optTok t := by
  unfold optTok; split <;> rfl

def divC (t : Str) : Bool := divisions.contains t
def topC (t : Str) : Bool := topologies.contains t

def molFacts (m : Str) : Bool :=
  joinSp (tokens m) == m && headOk isDate (tokens m).reverse && headOk divC (tokens m).reverse
    && headOk topC (tokens m).reverse

theorem mol_facts : ∀ m ∈ [] :: molTypes, molFacts m = true := by decide

theorem shape_facts : ∀ s ∈ topologies, isDate s = false ∧ divC s = false ∧ topC s = true := by decide

theorem div_facts : ∀ d ∈ divisions, isDate d = false := by decide

theorem bp_not_digits : ("bp".toList).all isDigit = false := by decide

theorem splitLength_opt (len : Str) (R : List Str) (hl : len.all isDigit = true) :
    splitLength (optTok len ++ "bp".toList :: R) = some (len, R) := by
  unfold optTok
  split
  · rename_i h
    subst h
    cases R with
    | nil => simp [splitLength]
    | cons r0 R =>
      simp only [List.nil_append, splitLength]
      rw [if_neg (by rw [bp_not_digits]; simp)]
      simp
  · rename_i h
    simp only [List.cons_append, List.nil_append, splitLength]
    rw [if_pos ⟨hl, h, trivial⟩]

/-- the tokens `[length] bp molecule-type-words [topology] [division] [date]` are classified back -/
theorem classify_tokens (name len mol shape div date : Str) (hl : len.all isDigit = true)
    (hm : mol ∈ [] :: molTypes) (hs : shape = [] ∨ shape ∈ topologies)
    (hd : div = [] ∨ div ∈ divisions) (ht : date = [] ∨ isDate date = true) :
    classifyLocus name (optTok len ++ "bp".toList :: (tokens mol ++ optTok shape ++ optTok div ++ optTok date))
      = some { name := name, length := len, moleculeType := mol, topology := shape, division := div, date := date } := by
  have hmf := mol_facts mol hm
  simp only [molFacts, Bool.and_eq_true, beq_iff_eq] at hmf
  obtain ⟨⟨⟨hj, hM1⟩, hM2⟩, hM3⟩ := hmf
  have hrev : (tokens mol ++ optTok shape ++ optTok div ++ optTok date).reverse
      = optTok date ++ (optTok div ++ (optTok shape ++ (tokens mol).reverse)) := by
    simp [List.reverse_append, reverse_optTok]
  have hsh : shape ≠ [] → isDate shape = false ∧ divC shape = false ∧ topC shape = true := by
    intro hne
    rcases hs with h | h
    · exact absurd h hne
    · exact shape_facts shape h
  have hdv : div ≠ [] → isDate div = false ∧ divC div = true := by
    intro hne
    rcases hd with h | h
    · exact absurd h hne
    · exact ⟨div_facts div h, by simpa [divC] using h⟩
  -- date
  have e1 : takeIf isDate (optTok date ++ (optTok div ++ (optTok shape ++ (tokens mol).reverse)))
      = (date, optTok div ++ (optTok shape ++ (tokens mol).reverse)) := by
    apply takeIf_opt
    · intro hne
      rcases ht with h | h
      · exact absurd h hne
      · exact h
    · intro _
      apply headOk_opt
      · exact fun hne => (hdv hne).1
      · intro _
        apply headOk_opt
        · exact fun hne => (hsh hne).1
        · exact fun _ => hM1
  have e2 : takeIf (fun t => divisions.contains t) (optTok div ++ (optTok shape ++ (tokens mol).reverse))
      = (div, optTok shape ++ (tokens mol).reverse) := by
    apply takeIf_opt (p := divC)
    · exact fun hne => (hdv hne).2
    · intro _
      apply headOk_opt
      · exact fun hne => (hsh hne).2.1
      · exact fun _ => hM2
  have e3 : takeIf (fun t => topologies.contains t) (optTok shape ++ (tokens mol).reverse)
      = (shape, (tokens mol).reverse) := by
    apply takeIf_opt (p := topC)
    · exact fun hne => (hsh hne).2.2
    · exact fun _ => hM3
  unfold classifyLocus
  rw [splitLength_opt len _ hl]
  simp only [hrev, e1, e2, e3, List.reverse_reverse, hj]

/-! ### the LOCUS line -/

def shapeOf (l : Locus) : Str := if l.circular then "circular".toList else if l.linear then "linear".toList else []

/-- the LOCUS line `build` writes (without its newline) -/
def locusLine (l : Locus) : Str :=
  "LOCUS       ".toList ++ (l.name ++ spaces 5 ++ l.sequenceLength ++ " bp".toList ++ spaces 5 ++ l.moleculeType
    ++ spaces 5 ++ shapeOf l ++ spaces 5 ++ l.genbankDivision ++ spaces 5 ++ l.modificationDate)

theorem noBlank_of_all {p : Char → Bool} (hp : p ' ' = false) {s : Str} (h : s.all p = true) : ∀ c ∈ s, c ≠ ' ' := by
  intro c hc e
  have := List.all_eq_true.mp h c hc
  rw [e, hp] at this
  exact absurd this (by simp)

theorem date_noBlank {s : Str} (h : isDate s = true) : ∀ c ∈ s, c ≠ ' ' := by
  unfold isDate at h
  split at h
  · simp only [Bool.and_eq_true, beq_iff_eq] at h
    obtain ⟨⟨⟨⟨⟨⟨⟨⟨⟨⟨⟨h1, h2⟩, h3⟩, h4⟩, h5⟩, h6⟩, h7⟩, h8⟩, h9⟩, h10⟩, h11⟩, _⟩ := h
    intro c hc e
    subst e
    simp only [List.mem_cons, List.not_mem_nil, or_false] at hc
    rcases hc with rfl | rfl | rfl | rfl | rfl | rfl | rfl | rfl | rfl | rfl | rfl <;>
      first
        | (revert h1; decide) | (revert h2; decide) | (revert h3; decide) | (revert h4; decide)
        | (revert h5; decide) | (revert h6; decide) | (revert h7; decide) | (revert h8; decide)
        | (revert h9; decide) | (revert h10; decide) | (revert h11; decide)
  · exact absurd h (by simp)

theorem divisions_noBlank : ∀ d ∈ divisions, d.all (· != ' ') = true := by decide
theorem topologies_noBlank : ∀ d ∈ topologies, d.all (· != ' ') = true := by decide

theorem noBlank_of_ne {s : Str} (h : s.all (· != ' ') = true) : ∀ c ∈ s, c ≠ ' ' := by
  intro c hc
  simpa using List.all_eq_true.mp h c hc

theorem shapeOf_cases (l : Locus) : shapeOf l = [] ∨ shapeOf l ∈ topologies := by
  unfold shapeOf
  split
  · right; decide
  · split
    · right; decide
    · left; rfl

theorem locus_read (l : Locus) (h : wfLocus l = true) :
    readLocus (locusLine l) = some (⟨l.name, l.sequenceLength, l.moleculeType, shapeOf l, l.genbankDivision,
      l.modificationDate⟩ : SLocus) := by
  simp only [wfLocus, Bool.and_eq_true, Bool.or_eq_true, beq_iff_eq] at h
  obtain ⟨⟨⟨⟨hname, hlen⟩, hmol⟩, hdiv⟩, hdate⟩ := h
  have hmol' : l.moleculeType ∈ [] :: molTypes := by
    rcases hmol with h | h
    · rw [h]; exact List.mem_cons_self
    · exact List.mem_cons_of_mem _ (by simpa using h)
  have hdiv' : l.genbankDivision = [] ∨ l.genbankDivision ∈ divisions := by
    rcases hdiv with h | h
    · exact Or.inl h
    · exact Or.inr (by simpa using h)
  have hshape := shapeOf_cases l
  -- tokens of every field
  have tname : tokens l.name = [l.name] := by
    simp only [isWord, Bool.and_eq_true, bne_iff_ne, ne_eq] at hname
    rw [tokens_word _ (noBlank_of_all (p := visible) (by decide) hname.2), optTok, if_neg hname.1]
  have tlen : tokens l.sequenceLength = optTok l.sequenceLength :=
    tokens_word _ (noBlank_of_all (p := isDigit) (by decide) hlen)
  have tshape : tokens (shapeOf l) = optTok (shapeOf l) := by
    rcases hshape with h | h
    · rw [h]; rfl
    · exact tokens_word _ (noBlank_of_ne (topologies_noBlank _ h))
  have tdiv : tokens l.genbankDivision = optTok l.genbankDivision := by
    rcases hdiv' with h | h
    · rw [h]; rfl
    · exact tokens_word _ (noBlank_of_ne (divisions_noBlank _ h))
  have tdate : tokens l.modificationDate = optTok l.modificationDate := by
    rcases hdate with h | h
    · rw [h]; rfl
    · exact tokens_word _ (date_noBlank h)
  have tbp : tokens "bp".toList = ["bp".toList] := by decide
  have ebp : " bp".toList = ' ' :: "bp".toList := by decide
  have e5 : spaces 5 = spaces (4 + 1) := rfl
  have htok : tokens (l.name ++ spaces 5 ++ l.sequenceLength ++ " bp".toList ++ spaces 5 ++ l.moleculeType
      ++ spaces 5 ++ shapeOf l ++ spaces 5 ++ l.genbankDivision ++ spaces 5 ++ l.modificationDate)
      = l.name :: (optTok l.sequenceLength ++ "bp".toList :: (tokens l.moleculeType ++ optTok (shapeOf l)
          ++ optTok l.genbankDivision ++ optTok l.modificationDate)) := by
    have r1 : l.name ++ spaces 5 ++ l.sequenceLength ++ " bp".toList ++ spaces 5 ++ l.moleculeType
        ++ spaces 5 ++ shapeOf l ++ spaces 5 ++ l.genbankDivision ++ spaces 5 ++ l.modificationDate
        = l.name ++ spaces (4 + 1) ++ (l.sequenceLength ++ ' ' :: ("bp".toList ++ spaces (4 + 1) ++ (l.moleculeType
            ++ spaces (4 + 1) ++ (shapeOf l ++ spaces (4 + 1) ++ (l.genbankDivision ++ spaces (4 + 1) ++ l.modificationDate))))) := by
      rw [ebp, ← e5]
      simp only [List.append_assoc, List.cons_append]
    rw [r1, tokens_sep, tokens_append_blank, tokens_sep, tokens_sep, tokens_sep, tokens_sep, tname, tlen, tbp,
      tshape, tdiv, tdate]
    simp
  have e12 : ("LOCUS       ".toList).length = 12 := by decide
  have htake : (locusLine l).take 12 = "LOCUS       ".toList := by
    unfold locusLine
    rw [List.take_append_of_le_length (by rw [e12]; exact Nat.le_refl _), List.take_of_length_le (by rw [e12]; exact Nat.le_refl _)]
  have hdrop : (locusLine l).drop 12 = l.name ++ spaces 5 ++ l.sequenceLength ++ " bp".toList ++ spaces 5 ++ l.moleculeType
      ++ spaces 5 ++ shapeOf l ++ spaces 5 ++ l.genbankDivision ++ spaces 5 ++ l.modificationDate := by
    unfold locusLine
    rw [List.drop_append_of_le_length (by rw [e12]; exact Nat.le_refl _), List.drop_of_length_le (by rw [e12]; exact Nat.le_refl _)]
    rfl
  have htrim : trimRight "LOCUS       ".toList = "LOCUS".toList := by decide
  unfold readLocus
  rw [htake, htrim, if_pos rfl, hdrop, htok]
  exact classify_tokens _ _ _ _ _ _ hlen hmol' hshape hdiv' (by
    rcases hdate with h | h
    · exact Or.inl h
    · exact Or.inr h)

end PolyVerif.Lemmas.GbLocus
