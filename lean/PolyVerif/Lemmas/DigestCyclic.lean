import Mathlib.Data.List.Perm.Basic
import Mathlib.Data.List.Nodup
import Mathlib.Data.Int.ModEq
import PolyVerif.Spec.Digest
import PolyVerif.Lemmas.RotationSpec
/-
C10 helper lemmas about the SPEC only (Spec/Digest.lean): periodic reading functions,
modular arithmetic of cuts and distances, the characterisation of `stretch`, and the
equivariance of the cyclic digestion under a shift of the origin.
-/
namespace PolyVerif.DigestSpec
open PolyVerif PolyVerif.Spec

/-! ### periodic reading functions -/

def Periodic (w : Nat → Char) (n : Nat) : Prop := ∀ i, w (i + n) = w i

theorem Periodic.add_mul {w : Nat → Char} {n : Nat} (h : Periodic w n) (i q : Nat) : w (i + n * q) = w i := by
  induction q with
  | zero => simp
  | succ q ih => rw [Nat.mul_succ, ← Nat.add_assoc, h, ih]

theorem Periodic.mod {w : Nat → Char} {n : Nat} (h : Periodic w n) (i : Nat) : w (i % n) = w i := by
  conv_rhs => rw [← Nat.mod_add_div i n]
  rw [h.add_mul]

theorem Periodic.congr {w : Nat → Char} {n : Nat} (h : Periodic w n) {i j : Nat} (hij : i % n = j % n) : w i = w j := by
  rw [← h.mod i, ← h.mod j, hij]

theorem letter_periodic (u : Str) : Periodic (letter u) u.length := by
  intro i
  simp [letter]

theorem Periodic.shift {w : Nat → Char} {n : Nat} (h : Periodic w n) (k : Nat) : Periodic (fun i => w (i + k)) n := by
  intro i
  show w (i + n + k) = w (i + k)
  rw [show i + n + k = i + k + n by omega, h]

theorem letter_lt {u : Str} {i : Nat} (h : i < u.length) : letter u i = u[i] := by
  simp [letter, Nat.mod_eq_of_lt h, List.getD, List.getElem?_eq_getElem h]

theorem letter_rotl (k : Nat) (u : Str) (i : Nat) : letter (rotl k u) i = letter u (i + k) := by
  rcases Nat.eq_zero_or_pos u.length with h0 | hpos
  · have : u = [] := List.length_eq_zero_iff.1 h0
    subst this; simp [letter]
  · have hl : (rotl k u).length = u.length := rotl_length k u
    have hi : i % u.length < u.length := Nat.mod_lt _ hpos
    rw [← (letter_periodic (rotl k u)).mod, hl, ← (letter_periodic u).mod (i + k)]
    rw [letter_lt (by rw [hl]; exact hi), letter_lt (Nat.mod_lt _ hpos)]
    simp only [rotl_eq_rotate]
    rw [List.getElem_rotate]
    congr 1
    rw [Nat.add_mod, Nat.mod_mod, ← Nat.add_mod]

/-! ### occurrences -/

theorem occurs_iff {w : Nat → Char} {x : Str} {p : Nat} :
    occurs w x p = true ↔ ∀ j, j < x.length → w (p + j) = x.getD j 'N' := by
  simp [occurs]

theorem occurs_congr {w w' : Nat → Char} {x : Str} {p p' : Nat}
    (h : ∀ j, j < x.length → w (p + j) = w' (p' + j)) : occurs w x p = occurs w' x p' := by
  rw [Bool.eq_iff_iff, occurs_iff, occurs_iff]
  constructor
  · intro H j hj; rw [← h j hj]; exact H j hj
  · intro H j hj; rw [h j hj]; exact H j hj

theorem occurs_mod {w : Nat → Char} {n : Nat} (h : Periodic w n) (x : Str) (p : Nat) :
    occurs w x (p % n) = occurs w x p := by
  apply occurs_congr
  intro j _
  apply h.congr
  rw [Nat.add_mod, Nat.mod_mod, ← Nat.add_mod]

theorem occurs_shift (w : Nat → Char) (k : Nat) (x : Str) (p : Nat) :
    occurs (fun i => w (i + k)) x p = occurs w x (p + k) := by
  apply occurs_congr
  intro j _
  show w (p + j + k) = w (p + k + j)
  congr 1; omega

theorem window_congr {w w' : Nat → Char} {p p' d : Nat}
    (h : ∀ j, j < d → w (p + j) = w' (p' + j)) : window w p d = window w' p' d := by
  simp only [window]
  apply List.map_congr_left
  intro j hj
  exact h j (List.mem_range.1 hj)

theorem window_length (w : Nat → Char) (p d : Nat) : (window w p d).length = d := by simp [window]

theorem mem_sites {w : Nat → Char} {n : Nat} {x : Str} {p : Nat} :
    p ∈ sites w n x ↔ p < n ∧ occurs w x p = true := by
  simp [sites]

theorem sites_nodup (w : Nat → Char) (n : Nat) (x : Str) : (sites w n x).Nodup :=
  List.Nodup.filter _ List.nodup_range

/-! ### arithmetic modulo `n`, through `Int` -/

theorem wrap_cast {n : Nat} (hn : 0 < n) (x : Int) : ((wrap n x : Nat) : Int) = x % (n : Int) := by
  unfold wrap
  exact Int.toNat_of_nonneg (Int.emod_nonneg _ (by omega))

theorem wrap_lt {n : Nat} (hn : 0 < n) (x : Int) : wrap n x < n := by
  have h := wrap_cast hn x
  have := Int.emod_lt_of_pos x (show (0 : Int) < n by omega)
  omega

theorem dist_cast {n a b : Nat} (ha : a ≤ b + n) : ((dist n a b : Nat) : Int) = ((b : Int) - a) % (n : Int) := by
  unfold dist
  rw [Int.natCast_mod, Nat.cast_sub ha]
  push_cast
  rw [show (b : Int) + n - a = (b - a) + n by omega, Int.add_emod_right]

theorem dist_lt {n : Nat} (hn : 0 < n) (a b : Nat) : dist n a b < n := Nat.mod_lt _ hn

/-- two naturals below `n` that are congruent as integers are equal -/
theorem eq_of_emod_eq {n a b : Nat} (ha : a < n) (hb : b < n) (h : (a : Int) % n = (b : Int) % n) : a = b := by
  rw [Int.emod_eq_of_lt (by omega) (by omega), Int.emod_eq_of_lt (by omega) (by omega)] at h
  omega

theorem nat_eq_of_cast_emod {n a : Nat} {x : Int} (ha : a < n) (h : (a : Int) = x % n) : a = wrap n x := by
  have hn : 0 < n := by omega
  have := wrap_cast hn x
  omega

/-- the shift of positions induced by moving the origin `k` letters back -/
def shiftPos (n k c : Nat) : Nat := (c + k) % n

theorem shiftPos_lt {n : Nat} (hn : 0 < n) (k c : Nat) : shiftPos n k c < n := Nat.mod_lt _ hn

theorem shiftPos_cast (n k c : Nat) : ((shiftPos n k c : Nat) : Int) = ((c : Int) + k) % (n : Int) := by
  unfold shiftPos; push_cast; rfl

theorem shiftPos_inj {n k a b : Nat} (ha : a < n) (hb : b < n) (h : shiftPos n k a = shiftPos n k b) : a = b := by
  have h' : ((a : Int) + k) % n = ((b : Int) + k) % n := by
    rw [← shiftPos_cast, ← shiftPos_cast, h]
  have h2 : ((a : Int) + k - k) % n = ((b : Int) + k - k) % n :=
    Int.ModEq.sub_right _ h'
  simp only [add_sub_cancel_right] at h2
  exact eq_of_emod_eq ha hb h2

theorem shiftPos_surj {n : Nat} (hn : 0 < n) (k : Nat) {a : Nat} (ha : a < n) :
    ∃ c, c < n ∧ shiftPos n k c = a := by
  refine ⟨wrap n ((a : Int) - k), wrap_lt hn _, ?_⟩
  apply eq_of_emod_eq (shiftPos_lt hn _ _) ha
  rw [shiftPos_cast, wrap_cast hn]
  have : ((a : Int) - k) % n + k ≡ (a - k) + k [ZMOD n] := (Int.mod_modEq _ _).add_right _
  rw [Int.emod_emod_of_dvd _ (dvd_refl _)]
  calc (((a : Int) - k) % n + k) % n = ((a - k) + k) % n := this
    _ = (a : Int) % n := by rw [sub_add_cancel]

theorem dist_shift {n : Nat} (hn : 0 < n) (k : Nat) {a b : Nat} (ha : a < n) (_hb : b < n) :
    dist n (shiftPos n k a) (shiftPos n k b) = dist n a b := by
  apply eq_of_emod_eq (dist_lt hn _ _) (dist_lt hn _ _)
  have h1 := shiftPos_lt hn k a
  rw [dist_cast (by omega), dist_cast (by omega), shiftPos_cast, shiftPos_cast]
  rw [Int.emod_emod_of_dvd _ (dvd_refl _), Int.emod_emod_of_dvd _ (dvd_refl _)]
  have : ((b : Int) + k) % n - ((a : Int) + k) % n ≡ (b + k) - (a + k) [ZMOD n] :=
    (Int.mod_modEq _ _).sub (Int.mod_modEq _ _)
  calc (((b : Int) + k) % n - ((a : Int) + k) % n) % n = ((b + k) - (a + k)) % n := this
    _ = ((b : Int) - a) % n := by rw [add_sub_add_right_eq_sub]

theorem fwdCut_lt (g : Geometry) {n : Nat} (hn : 0 < n) (p : Nat) : fwdCut g n p < n := Nat.mod_lt _ hn
theorem revCut_lt (g : Geometry) {n : Nat} (hn : 0 < n) (q : Nat) : revCut g n q < n := wrap_lt hn _

theorem fwdCut_cast (g : Geometry) (n p : Nat) :
    ((fwdCut g n p : Nat) : Int) = ((p : Int) + g.site.length + g.skip) % (n : Int) := by
  unfold fwdCut; push_cast; rfl

theorem revCut_cast (g : Geometry) {n : Nat} (hn : 0 < n) (q : Nat) :
    ((revCut g n q : Nat) : Int) = ((q : Int) - g.skip) % (n : Int) := wrap_cast hn _

theorem fwdCut_shift (g : Geometry) {n : Nat} (hn : 0 < n) (k p : Nat) :
    fwdCut g n (shiftPos n k p) = shiftPos n k (fwdCut g n p) := by
  apply eq_of_emod_eq (fwdCut_lt g hn _) (shiftPos_lt hn _ _)
  rw [fwdCut_cast, shiftPos_cast, shiftPos_cast, fwdCut_cast]
  rw [Int.emod_emod_of_dvd _ (dvd_refl _), Int.emod_emod_of_dvd _ (dvd_refl _)]
  have h1 : ((p : Int) + k) % n + g.site.length + g.skip ≡ (p + k) + g.site.length + g.skip [ZMOD n] :=
    ((Int.mod_modEq _ _).add_right _).add_right _
  have h2 : ((p : Int) + g.site.length + g.skip) % n + k ≡ (p + g.site.length + g.skip) + k [ZMOD n] :=
    (Int.mod_modEq _ _).add_right _
  calc (((p : Int) + k) % n + g.site.length + g.skip) % n = ((p + k) + g.site.length + g.skip) % n := h1
    _ = ((p + g.site.length + g.skip) + k) % n := by congr 1; omega
    _ = (((p : Int) + g.site.length + g.skip) % n + k) % n := h2.symm

theorem revCut_shift (g : Geometry) {n : Nat} (hn : 0 < n) (k q : Nat) :
    revCut g n (shiftPos n k q) = shiftPos n k (revCut g n q) := by
  apply eq_of_emod_eq (revCut_lt g hn _) (shiftPos_lt hn _ _)
  rw [revCut_cast g hn, shiftPos_cast, shiftPos_cast, revCut_cast g hn]
  rw [Int.emod_emod_of_dvd _ (dvd_refl _), Int.emod_emod_of_dvd _ (dvd_refl _)]
  have h1 : ((q : Int) + k) % n - g.skip ≡ (q + k) - g.skip [ZMOD n] := (Int.mod_modEq _ _).sub_right _
  have h2 : ((q : Int) - g.skip) % n + k ≡ (q - g.skip) + k [ZMOD n] := (Int.mod_modEq _ _).add_right _
  calc (((q : Int) + k) % n - g.skip) % n = ((q + k) - g.skip) % n := h1
    _ = ((q - g.skip) + k) % n := by congr 1; omega
    _ = (((q : Int) - g.skip) % n + k) % n := h2.symm

theorem fwdCut_inj (g : Geometry) {n p p' : Nat} (hp : p < n) (hp' : p' < n)
    (h : fwdCut g n p = fwdCut g n p') : p = p' := by
  have h' : ((p : Int) + g.site.length + g.skip) % n = ((p' : Int) + g.site.length + g.skip) % n := by
    rw [← fwdCut_cast, ← fwdCut_cast, h]
  have h2 := Int.ModEq.sub_right ((g.site.length : Int) + g.skip) h'
  have e : ∀ t : Int, t + g.site.length + g.skip - ((g.site.length : Int) + g.skip) = t := by intro t; omega
  rw [e, e] at h2
  exact eq_of_emod_eq hp hp' h2

theorem revCut_inj (g : Geometry) {n q q' : Nat} (hq : q < n) (hq' : q' < n)
    (h : revCut g n q = revCut g n q') : q = q' := by
  have hn : 0 < n := by omega
  have h' : ((q : Int) - g.skip) % n = ((q' : Int) - g.skip) % n := by
    rw [← revCut_cast g hn, ← revCut_cast g hn, h]
  have h2 := Int.ModEq.add_right (g.skip : Int) h'
  rw [sub_add_cancel, sub_add_cancel] at h2
  exact eq_of_emod_eq hq hq' h2

/-! ### `stretch`: characterisation, invariance -/

theorem stretch_eq_some_iff {n : Nat} {fs rs : List Nat} {c d : Nat} :
    stretch n fs rs c = some d ↔
      (∃ r ∈ rs, dist n c r = d) ∧ (∀ r ∈ rs, d ≤ dist n c r) ∧ (∀ c' ∈ fs, c' ≠ c → d < dist n c c') := by
  unfold stretch
  cases hm : (rs.map (dist n c)).min? with
  | none =>
    have : rs = [] := by simpa using hm
    subst this
    simp
  | some d0 =>
    have hd0 := List.min?_eq_some_iff.1 hm
    simp only [List.mem_map, forall_exists_index, and_imp, forall_apply_eq_imp_iff₂] at hd0
    obtain ⟨⟨r0, hr0, hr0d⟩, hmin⟩ := hd0
    simp only [List.all_eq_true, List.mem_filter, bne_iff_ne, ne_eq, decide_eq_true_eq, and_imp]
    constructor
    · intro h
      split at h
      · rename_i hall
        have : d0 = d := by simpa using h
        subst this
        exact ⟨⟨r0, hr0, hr0d⟩, hmin, hall⟩
      · simp at h
    · rintro ⟨⟨r, hr, hrd⟩, hmin', hall⟩
      have hdd : d0 = d := by
        have h1 := hmin r hr
        have h2 := hmin' r0 hr0
        omega
      subst hdd
      rw [if_pos hall]

theorem stretch_congr {n : Nat} {fs fs' rs rs' : List Nat} (hf : ∀ a, a ∈ fs ↔ a ∈ fs') (hr : ∀ a, a ∈ rs ↔ a ∈ rs')
    (c : Nat) : stretch n fs rs c = stretch n fs' rs' c := by
  apply Option.ext
  intro d
  rw [stretch_eq_some_iff, stretch_eq_some_iff]
  simp only [hf, hr]

theorem stretch_shift {n : Nat} (hn : 0 < n) (k : Nat) {fs fs' rs rs' : List Nat}
    (hf : ∀ a, a ∈ fs ↔ ∃ a' ∈ fs', shiftPos n k a' = a) (hr : ∀ a, a ∈ rs ↔ ∃ a' ∈ rs', shiftPos n k a' = a)
    (hfl : ∀ a ∈ fs', a < n) (hrl : ∀ a ∈ rs', a < n) {c : Nat} (hc : c < n) :
    stretch n fs rs (shiftPos n k c) = stretch n fs' rs' c := by
  apply Option.ext
  intro d
  rw [stretch_eq_some_iff, stretch_eq_some_iff]
  constructor
  · rintro ⟨⟨r, hrm, hrd⟩, hmin, hall⟩
    obtain ⟨r', hr', rfl⟩ := (hr r).1 hrm
    refine ⟨⟨r', hr', ?_⟩, ?_, ?_⟩
    · rw [← dist_shift hn k hc (hrl r' hr')]; exact hrd
    · intro r2 hr2
      rw [← dist_shift hn k hc (hrl r2 hr2)]
      exact hmin _ ((hr _).2 ⟨r2, hr2, rfl⟩)
    · intro c2 hc2 hne
      rw [← dist_shift hn k hc (hfl c2 hc2)]
      apply hall _ ((hf _).2 ⟨c2, hc2, rfl⟩)
      intro h
      exact hne (shiftPos_inj (hfl c2 hc2) hc h)
  · rintro ⟨⟨r', hr', hrd⟩, hmin, hall⟩
    refine ⟨⟨shiftPos n k r', (hr _).2 ⟨r', hr', rfl⟩, ?_⟩, ?_, ?_⟩
    · rw [dist_shift hn k hc (hrl r' hr')]; exact hrd
    · intro r hrm
      obtain ⟨r2, hr2, rfl⟩ := (hr r).1 hrm
      rw [dist_shift hn k hc (hrl r2 hr2)]
      exact hmin _ hr2
    · intro c2 hc2m hne
      obtain ⟨c3, hc3, rfl⟩ := (hf c2).1 hc2m
      rw [dist_shift hn k hc (hfl c3 hc3)]
      apply hall _ hc3
      rintro rfl
      exact hne rfl

/-! ### moving the origin -/

theorem sites_shift_perm {w : Nat → Char} {n : Nat} (hw : Periodic w n) (hn : 0 < n) (k : Nat) (x : Str) :
    ((sites (fun i => w (i + k)) n x).map (shiftPos n k)).Perm (sites w n x) := by
  rw [List.perm_ext_iff_of_nodup]
  · intro a
    simp only [List.mem_map, mem_sites, occurs_shift]
    constructor
    · rintro ⟨p, ⟨_, hocc⟩, rfl⟩
      refine ⟨shiftPos_lt hn _ _, ?_⟩
      unfold shiftPos
      rw [occurs_mod hw]; exact hocc
    · rintro ⟨ha, hocc⟩
      obtain ⟨p, hp, rfl⟩ := shiftPos_surj hn k ha
      refine ⟨p, ⟨hp, ?_⟩, rfl⟩
      unfold shiftPos at hocc
      rw [occurs_mod hw] at hocc; exact hocc
  · apply List.Nodup.map_on _ (sites_nodup _ _ _)
    intro a ha b hb h
    exact shiftPos_inj (mem_sites.1 ha).1 (mem_sites.1 hb).1 h
  · exact sites_nodup _ _ _

theorem fwdCuts_shift_perm (g : Geometry) {w : Nat → Char} {n : Nat} (hw : Periodic w n) (hn : 0 < n) (k : Nat) :
    ((fwdCuts g (fun i => w (i + k)) n).map (shiftPos n k)).Perm (fwdCuts g w n) := by
  unfold fwdCuts
  rw [List.map_map]
  have : (shiftPos n k ∘ fwdCut g n) = (fwdCut g n ∘ shiftPos n k) := by
    funext p; simp [fwdCut_shift g hn]
  rw [this, ← List.map_map]
  exact (sites_shift_perm hw hn k _).map _

theorem revCuts_shift_perm (g : Geometry) {w : Nat → Char} {n : Nat} (hw : Periodic w n) (hn : 0 < n) (k : Nat) :
    ((revCuts g (fun i => w (i + k)) n).map (shiftPos n k)).Perm (revCuts g w n) := by
  unfold revCuts
  rw [List.map_map]
  have : (shiftPos n k ∘ revCut g n) = (revCut g n ∘ shiftPos n k) := by
    funext p; simp [revCut_shift g hn]
  rw [this, ← List.map_map]
  exact (sites_shift_perm hw hn k _).map _

theorem mem_fwdCuts_lt (g : Geometry) {w : Nat → Char} {n : Nat} (hn : 0 < n) {c : Nat} (h : c ∈ fwdCuts g w n) : c < n := by
  obtain ⟨p, _, rfl⟩ := List.mem_map.1 h
  exact fwdCut_lt g hn p

theorem mem_revCuts_lt (g : Geometry) {w : Nat → Char} {n : Nat} (hn : 0 < n) {c : Nat} (h : c ∈ revCuts g w n) : c < n := by
  obtain ⟨p, _, rfl⟩ := List.mem_map.1 h
  exact revCut_lt g hn p

/-- the fragment (if any) that starts at the forward cut `c` -/
def fragAt (g : Geometry) (w : Nat → Char) (n : Nat) (c : Nat) : Option (Str × Str × Str) :=
  (stretch n (fwdCuts g w n) (revCuts g w n) c).map fun d => triple g.oh (window w c d)

theorem digestW_eq (g : Geometry) (w : Nat → Char) (n : Nat) :
    digestW g w n = (fwdCuts g w n).filterMap (fragAt g w n) := rfl

/-- **Equivariance**: reading the same circle from an origin `k` letters further on yields the
same multiset of fragments. -/
theorem digestW_shift (g : Geometry) {w : Nat → Char} {n : Nat} (hw : Periodic w n) (hn : 0 < n) (k : Nat) :
    (digestW g (fun i => w (i + k)) n).Perm (digestW g w n) := by
  rw [digestW_eq, digestW_eq]
  have hfp := fwdCuts_shift_perm g hw hn k
  have hrp := revCuts_shift_perm g hw hn k
  have key : ∀ c ∈ fwdCuts g (fun i => w (i + k)) n,
      fragAt g (fun i => w (i + k)) n c = fragAt g w n (shiftPos n k c) := by
    intro c hc
    have hcl := mem_fwdCuts_lt g hn hc
    unfold fragAt
    rw [← stretch_shift hn k (fs := fwdCuts g w n) (rs := revCuts g w n)
      (fs' := fwdCuts g (fun i => w (i + k)) n) (rs' := revCuts g (fun i => w (i + k)) n)
      (fun a => by rw [← hfp.mem_iff]; simp) (fun a => by rw [← hrp.mem_iff]; simp)
      (fun a ha => mem_fwdCuts_lt g hn ha) (fun a ha => mem_revCuts_lt g hn ha) hcl]
    congr 1
    funext d
    congr 1
    apply window_congr
    intro j _
    show w (c + j + k) = w (shiftPos n k c + j)
    apply hw.congr
    unfold shiftPos
    rw [Nat.add_mod ((c + k) % n), Nat.mod_mod, ← Nat.add_mod]
    congr 1; omega
  rw [List.filterMap_congr key]
  have := List.filterMap_map (f := shiftPos n k) (g := fragAt g w n) (l := fwdCuts g (fun i => w (i + k)) n)
  rw [show (fun x => fragAt g w n (shiftPos n k x)) = fragAt g w n ∘ shiftPos n k from rfl, ← this]
  exact hfp.filterMap _

theorem digestU_rotl (g : Geometry) (k : Nat) (u : Str) : (digestU g (rotl k u)).Perm (digestU g u) := by
  unfold digestU
  rw [rotl_length]
  rcases Nat.eq_zero_or_pos u.length with h0 | hpos
  · have : u = [] := List.length_eq_zero_iff.1 h0
    subst this; simp
  · have : letter (rotl k u) = fun i => letter u (i + k) := by funext i; exact letter_rotl k u i
    rw [this]
    exact digestW_shift g (letter_periodic u) hpos k

theorem digest_rotl (g : Geometry) (k : Nat) (s : Str) : (digest g (rotl k s)).Perm (digest g s) := by
  unfold digest
  rw [map_rotl]
  exact digestU_rotl g k _

/-! ### the quantifier does not depend on the origin either -/

theorem noOverlap_shift (g : Geometry) {w : Nat → Char} {n : Nat} (hw : Periodic w n) (hn : 0 < n) (k : Nat)
    (h : noOverlap g w n = true) : noOverlap g (fun i => w (i + k)) n = true := by
  simp only [noOverlap, List.all_eq_true, List.mem_append, Bool.or_eq_true, beq_iff_eq, decide_eq_true_eq] at h ⊢
  have hmem : ∀ (x : Str) (p : Nat), p ∈ sites (fun i => w (i + k)) n x → shiftPos n k p ∈ sites w n x := by
    intro x p hp
    rw [← (sites_shift_perm hw hn k x).mem_iff]
    exact List.mem_map.2 ⟨p, hp, rfl⟩
  intro p hp p' hp'
  have hpl : p < n := by rcases hp with hp | hp <;> exact (mem_sites.1 hp).1
  have hpl' : p' < n := by rcases hp' with hp' | hp' <;> exact (mem_sites.1 hp').1
  have := h (shiftPos n k p) (hp.imp (hmem _ _) (hmem _ _)) (shiftPos n k p') (hp'.imp (hmem _ _) (hmem _ _))
  rcases this with h1 | h1
  · exact Or.inl (shiftPos_inj hpl hpl' h1)
  · rw [dist_shift hn k hpl hpl'] at h1
    exact Or.inr h1

theorem pairedApart_shift (g : Geometry) {w : Nat → Char} {n : Nat} (hw : Periodic w n) (hn : 0 < n) (k : Nat)
    (h : pairedApart g w n = true) : pairedApart g (fun i => w (i + k)) n = true := by
  simp only [pairedApart, List.all_eq_true] at h ⊢
  have hfp := fwdCuts_shift_perm g hw hn k
  have hrp := revCuts_shift_perm g hw hn k
  intro c hc
  have hcl := mem_fwdCuts_lt g hn hc
  have hs := stretch_shift hn k (fs := fwdCuts g w n) (rs := revCuts g w n)
      (fs' := fwdCuts g (fun i => w (i + k)) n) (rs' := revCuts g (fun i => w (i + k)) n)
      (fun a => by rw [← hfp.mem_iff]; simp) (fun a => by rw [← hrp.mem_iff]; simp)
      (fun a ha => mem_fwdCuts_lt g hn ha) (fun a ha => mem_revCuts_lt g hn ha) hcl
  rw [← hs]
  apply h
  rw [← hfp.mem_iff]
  exact List.mem_map.2 ⟨c, hc, rfl⟩

theorem wfLayoutW_shift (g : Geometry) {w : Nat → Char} {n : Nat} (hw : Periodic w n) (k : Nat)
    (h : wfLayoutW g w n = true) : wfLayoutW g (fun i => w (i + k)) n = true := by
  simp only [wfLayoutW, Bool.and_eq_true, decide_eq_true_eq] at h ⊢
  obtain ⟨⟨⟨h1, h2⟩, h3⟩, h4⟩ := h
  have hn : 0 < n := by
    simp only [wfGeometry, Bool.and_eq_true, decide_eq_true_eq] at h1
    omega
  exact ⟨⟨⟨h1, h2⟩, noOverlap_shift g hw hn k h3⟩, pairedApart_shift g hw hn k h4⟩

/-- a rotation of a layout of the quantifier is a layout of the quantifier -/
theorem wfLayout_rotl (g : Geometry) (k : Nat) (s : Str) (h : wfLayout g s = true) : wfLayout g (rotl k s) = true := by
  unfold wfLayout wfLayoutU at h ⊢
  rw [map_rotl, rotl_length]
  have : letter (rotl k (s.map Char.toUpper)) = fun i => letter (s.map Char.toUpper) (i + k) := by
    funext i; exact letter_rotl k _ i
  rw [this]
  exact wfLayoutW_shift g (letter_periodic _) k h

/-! ### the geometry of every fragment of the spec -/

theorem window_take (w : Nat → Char) (p : Nat) {k d : Nat} (h : k ≤ d) : (window w p d).take k = window w p k := by
  simp only [window, ← List.map_take, List.take_range, Nat.min_eq_left h]

theorem window_drop (w : Nat → Char) (p k d : Nat) : (window w p d).drop k = window w (p + k) (d - k) := by
  apply List.ext_getElem?
  intro j
  simp only [window, List.getElem?_drop, List.getElem?_map]
  by_cases hj : j < d - k
  · rw [List.getElem?_range (by omega), List.getElem?_range hj]
    simp only [Option.map_some]
    congr 2; omega
  · rw [List.getElem?_eq_none (by simp; omega), List.getElem?_eq_none (by simp; omega)]
    rfl

theorem triple_concat (oh : Nat) (x : Str) (h : 2 * oh ≤ x.length) :
    (triple oh x).1 ++ (triple oh x).2.1 ++ (triple oh x).2.2 = x := by
  simp only [triple]
  have h1 : x.length - oh = oh + (x.length - 2 * oh) := by omega
  rw [h1, ← List.drop_drop, List.append_assoc, List.take_append_drop, List.take_append_drop]

theorem window_mod_start {w : Nat → Char} {n : Nat} (hw : Periodic w n) (p d : Nat) :
    window w (p % n) d = window w p d := by
  apply window_congr
  intro j _
  apply hw.congr
  rw [Nat.add_mod, Nat.mod_mod, ← Nat.add_mod]

/-- Every fragment of the spec has the enzyme's geometry: it starts `|site| + skip` letters after a
forward site, its last `oh` letters end `skip` letters before a backward-pointing site, it is the
stretch between those two cuts, and that stretch contains no other cut of the layout. -/
theorem digestW_geometry (g : Geometry) {w : Nat → Char} {n : Nat} (hw : Periodic w n) (hn : 0 < n)
    (hpa : ∀ c ∈ fwdCuts g w n, ∀ d, stretch n (fwdCuts g w n) (revCuts g w n) c = some d → 2 * g.oh ≤ d)
    {t : Str × Str × Str} (ht : t ∈ digestW g w n) :
    ∃ p ∈ sites w n g.site, ∃ q ∈ sites w n (rcSite g.site), ∃ d,
      d = dist n (fwdCut g n p) (revCut g n q) ∧ 2 * g.oh ≤ d ∧
      (∀ r ∈ revCuts g w n, d ≤ dist n (fwdCut g n p) r) ∧
      (∀ c' ∈ fwdCuts g w n, c' ≠ fwdCut g n p → d < dist n (fwdCut g n p) c') ∧
      t.1 = window w (p + g.site.length + g.skip) g.oh ∧
      t.2.2 = window w (wrap n ((q : Int) - g.skip - g.oh)) g.oh ∧
      t.1 ++ t.2.1 ++ t.2.2 = window w (p + g.site.length + g.skip) d := by
  rw [digestW_eq] at ht
  obtain ⟨c, hc, hfc⟩ := List.mem_filterMap.1 ht
  unfold fragAt at hfc
  obtain ⟨d, hst, rfl⟩ := Option.map_eq_some_iff.1 hfc
  have h2 := hpa c hc d hst
  obtain ⟨p, hp, rfl⟩ := List.mem_map.1 hc
  obtain ⟨⟨r, hr, hrd⟩, hmin, hall⟩ := stretch_eq_some_iff.1 hst
  obtain ⟨q, hq, rfl⟩ := List.mem_map.1 hr
  have hwin : window w (fwdCut g n p) d = window w (p + g.site.length + g.skip) d := window_mod_start hw _ _
  refine ⟨p, hp, q, hq, d, hrd.symm, h2, hmin, hall, ?_, ?_, ?_⟩
  · simp only [triple]
    rw [hwin, window_take _ _ (by omega)]
  · simp only [triple, window_length]
    rw [window_drop, show d - (d - g.oh) = g.oh by omega]
    apply window_congr
    intro j _
    apply hw.congr
    have hc1 := fwdCut_lt g hn p
    have hr1 := revCut_lt g hn q
    have key : (fwdCut g n p + (d - g.oh)) % n = wrap n ((q : Int) - g.skip - g.oh) := by
      apply eq_of_emod_eq (Nat.mod_lt _ hn) (wrap_lt hn _)
      rw [wrap_cast hn, Int.natCast_mod, Int.emod_emod_of_dvd _ (dvd_refl _), Int.emod_emod_of_dvd _ (dvd_refl _)]
      have hd : ((d : Nat) : Int) = ((revCut g n q : Int) - fwdCut g n p) % n := by
        rw [← hrd, dist_cast (by omega)]
      have hq' := revCut_cast g hn q
      push_cast [Nat.cast_sub (show g.oh ≤ d by omega)]
      rw [hd, hq']
      have e1 : (((q : Int) - g.skip) % n - (fwdCut g n p : Int)) % n ≡ ((q : Int) - g.skip) - fwdCut g n p [ZMOD n] :=
        (Int.mod_modEq _ _).trans ((Int.mod_modEq _ _).sub_right _)
      have e2 : (fwdCut g n p : Int) + ((((q : Int) - g.skip) % n - (fwdCut g n p : Int)) % n - g.oh) ≡
          (fwdCut g n p : Int) + ((((q : Int) - g.skip) - fwdCut g n p) - g.oh) [ZMOD n] :=
        (e1.sub_right _).add_left _
      calc ((fwdCut g n p : Int) + ((((q : Int) - g.skip) % n - (fwdCut g n p : Int)) % n - g.oh)) % n
          = ((fwdCut g n p : Int) + ((((q : Int) - g.skip) - fwdCut g n p) - g.oh)) % n := e2
        _ = ((q : Int) - g.skip - g.oh) % n := by congr 1; omega
    rw [Nat.add_mod, key, Nat.add_mod_mod]
  · rw [triple_concat _ _ (by rw [window_length]; exact h2), hwin]

end PolyVerif.DigestSpec
