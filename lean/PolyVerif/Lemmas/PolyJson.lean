import PolyVerif.Model.PolyJson
import PolyVerif.Spec.JsonLossless
import PolyVerif.Model.PolyJsonViews
/-
Helper lemmas for Props/C15: round trips of the scalar / map / slice codecs and of each struct
(evaluated against the regenerated table), the order lemmas behind the canonical map form.
-/
namespace PolyVerif.PolyJson
open PolyVerif

/-! ### key order -/

theorem ltS_irrefl : ∀ a : S, ltS a a = false
  | [] => rfl
  | x :: xs => by simp [ltS, ltS_irrefl xs]

theorem ltS_asymm : ∀ a b : S, ltS a b = true → ltS b a = false
  | [], [], h => by simp [ltS] at h
  | [], _ :: _, _ => rfl
  | _ :: _, [], h => by simp [ltS] at h
  | x :: xs, y :: ys, h => by
    simp only [ltS, Bool.or_eq_true, Bool.and_eq_true, decide_eq_true_eq, beq_iff_eq] at h
    simp only [ltS, Bool.or_eq_false_iff, Bool.and_eq_false_iff, decide_eq_false_iff_not, beq_eq_false_iff_ne]
    rcases h with h | ⟨h1, h2⟩
    · exact ⟨by omega, Or.inl (by omega)⟩
    · exact ⟨by omega, Or.inr (ltS_asymm xs ys h2)⟩

theorem mapInsert_last (k v : S) : ∀ acc : List (S × S), (∀ p ∈ acc, ltS p.1 k = true) →
    mapInsert k v acc = acc ++ [(k, v)]
  | [], _ => rfl
  | (k', v') :: rest, h => by
    have hk : ltS k' k = true := h (k', v') (by simp)
    have h1 : (k == k') = false := by
      apply beq_eq_false_iff_ne.mpr
      intro e; subst e; rw [ltS_irrefl] at hk; cases hk
    have h2 : ltS k k' = false := ltS_asymm _ _ hk
    have ih := mapInsert_last k v rest (fun p hp => h p (by simp [hp]))
    simp [mapInsert, h1, h2, ih]

theorem foldl_insert_sorted : ∀ (m acc : List (S × S)), sortedKeys m = true →
    (∀ p ∈ acc, ∀ q ∈ m, ltS p.1 q.1 = true) →
    (m.map fun p => (p.1, JVal.str p.2)).foldl (fun m p => mapInsert p.1 (strOf [] p.2) m) acc = acc ++ m
  | [], acc, _, _ => by simp
  | (k, v) :: rest, acc, hs, hlt => by
    simp only [sortedKeys, Bool.and_eq_true, List.all_eq_true] at hs
    simp only [List.map_cons, List.foldl_cons]
    show List.foldl (fun (m : List (S × S)) (p : S × JVal) => mapInsert p.1 (strOf [] p.2) m) (mapInsert k v acc) _ = _
    rw [mapInsert_last k v acc (fun p hp => hlt p hp (k, v) (by simp))]
    rw [foldl_insert_sorted rest (acc ++ [(k, v)]) hs.2]
    · simp
    · intro p hp q hq
      rcases List.mem_append.mp hp with hp | hp
      · exact hlt p hp q (by simp [hq])
      · simp only [List.mem_singleton] at hp; subst hp; exact hs.1 q hq

/-- a canonical (key-sorted) map survives `mapToJ` / `mapOf` unchanged, nil-ness included -/
theorem map_rt (m old : SMap) (h : mapWF m = true) (hold : old.getD [] = []) : mapOf old (mapToJ m) = m := by
  cases m with
  | none => rfl
  | some kvs =>
    simp only [mapToJ, mapOf, hold]
    rw [foldl_insert_sorted kvs [] h (by simp)]
    simp

theorem slice_rt {α : Type} (enc : α → JVal) (dec : JVal → α) (h : ∀ a, dec (enc a) = a)
    (o old : Option (List α)) : sliceOf dec old (sliceToJ enc o) = o := by
  cases o with
  | none => rfl
  | some xs => simp [sliceToJ, sliceOf, Function.comp_def, h]

/-- the same on a list whose elements satisfy the element round trip only under a side condition -/
theorem slice_rt_on {α : Type} (enc : α → JVal) (dec : JVal → α) (g : α → α) (o old : Option (List α))
    (h : ∀ a ∈ o.getD [], dec (enc a) = g a) : sliceOf dec old (sliceToJ enc o) = o.map (·.map g) := by
  cases o with
  | none => rfl
  | some xs =>
    simp only [sliceToJ, sliceOf, List.map_map, Option.map_some, Option.some.injEq]
    apply List.map_congr_left
    intro a ha
    exact h a (by simpa using ha)

/-! ### struct round trips, evaluated against the regenerated table -/

theorem locus_rt (l : Locus) : Locus.zero.into l.toJ = l := by
  cases l; rfl

theorem reference_rt (r : Reference) : Reference.fromJ r.toJ = r := by
  cases r; rfl

mutual
theorem location_rt : ∀ l : Location, Location.zero.into l.toJ = l
  | .mk s e c j f t subs => by
    have h := subs_rt subs none
    simp [Location.toJ, encStruct, fieldsOfStruct, Gen.polyStructs, List.lookup, List.filterMap,
      Location.into, Location.intoEntries, fieldOf, List.find?, Location.zero, intOf, boolOf]
    exact h
theorem subs_rt : ∀ (o old : Option (List Location)), Location.subsOf (Location.subsToJ o) old = o
  | none, _ => by simp [Location.subsToJ, Location.subsOf]
  | some xs, _ => by simp [Location.subsToJ, Location.subsOf, list_rt xs]
theorem list_rt : ∀ ls : List Location, Location.listOf (Location.listToJ ls) = ls
  | [] => by simp [Location.listToJ, Location.listOf]
  | x :: xs => by simp [Location.listToJ, Location.listOf, location_rt x, list_rt xs]
end

theorem location_fromJ_toJ (l : Location) : Location.fromJ l.toJ = l := location_rt l

theorem feature_rt_raw (f : Feature) : Feature.fromJ f.toJ =
    { f with attributes := mapOf none (mapToJ f.attributes),
             sequenceLocation := Location.zero.into f.sequenceLocation.toJ,
             parent := none } := by
  cases f; rfl

theorem feature_rt (f : Feature) (h : mapWF f.attributes = true) : Feature.fromJ f.toJ = f.unlink := by
  rw [feature_rt_raw, map_rt _ _ h rfl, location_rt]; rfl

theorem meta_rt_raw (m : Meta) : Meta.zero.into m.toJ =
    { m with locus := Locus.zero.into m.locus.toJ,
             references := sliceOf Reference.fromJ none (sliceToJ Reference.toJ m.references),
             other := mapOf none (mapToJ m.other) } := by
  cases m; rfl

theorem meta_rt (m : Meta) (h : mapWF m.other = true) : Meta.zero.into m.toJ = m := by
  rw [meta_rt_raw, map_rt _ _ h rfl, locus_rt, slice_rt _ _ reference_rt]

theorem sequence_rt_raw (x : Sequence) : fromJ (toJ x) =
    { x with metadata := Meta.zero.into x.metadata.toJ,
             features := sliceOf Feature.fromJ none (sliceToJ Feature.toJ x.features) } := by
  cases x; rfl

/-! ### the spec relation is reflexive on canonical values -/

open Spec.Lossless in
theorem sameList_refl {α : Type} (eq : α → α → Bool) : ∀ xs : List α, (∀ a ∈ xs, eq a a = true) →
    sameList eq xs xs = true
  | [], _ => rfl
  | x :: xs, h => by
    simp only [sameList, Bool.and_eq_true]
    exact ⟨h x (by simp), sameList_refl eq xs (fun a ha => h a (by simp [ha]))⟩

open Spec.Lossless in
/-- pointwise comparison through a map on the left: `eq (g a) a` suffices -/
theorem sameList_map_left {α : Type} (eq : α → α → Bool) (g : α → α) : ∀ xs : List α,
    (∀ a ∈ xs, eq (g a) a = true) → sameList eq (xs.map g) xs = true
  | [], _ => rfl
  | x :: xs, h => by
    simp only [List.map_cons, sameList, Bool.and_eq_true]
    exact ⟨h x (by simp), sameList_map_left eq g xs (fun a ha => h a (by simp [ha]))⟩

open Spec.Lossless in
theorem lookupS_of_sorted : ∀ m : List (S × S), sortedKeys m = true → ∀ p ∈ m, lookupS p.1 m = some p.2
  | [], _, p, hp => by cases hp
  | (k, v) :: rest, hs, p, hp => by
    simp only [sortedKeys, Bool.and_eq_true, List.all_eq_true] at hs
    rcases List.mem_cons.mp hp with rfl | hp
    · simp [lookupS]
    · have hk : ltS k p.1 = true := hs.1 p hp
      have hne : (p.1 == k) = false := by
        apply beq_eq_false_iff_ne.mpr
        intro e; rw [e, ltS_irrefl] at hk; cases hk
      simp only [lookupS, hne]
      exact lookupS_of_sorted rest hs.2 p hp

open Spec.Lossless in
theorem sameMap_refl (m : SMap) (h : mapWF m = true) : sameMap m m = true := by
  cases m with
  | none => rfl
  | some kvs =>
    simp only [sameMap, Option.getD_some, Bool.and_self, subMap, List.all_eq_true, beq_iff_eq]
    exact fun p hp => lookupS_of_sorted kvs h p hp

open Spec.Lossless in
mutual
theorem sameLoc_refl : ∀ l : Location, sameLoc l l = true
  | .mk s e c j f t subs => by simp [sameLoc, sameSubs_refl subs]
theorem sameSubs_refl : ∀ o : Option (List Location), sameSubs o o = true
  | none => by simp [sameSubs]
  | some xs => by simp [sameSubs, sameLocs_refl xs]
theorem sameLocs_refl : ∀ ls : List Location, sameLocs ls ls = true
  | [] => by simp [sameLocs]
  | x :: xs => by simp [sameLocs, sameLoc_refl x, sameLocs_refl xs]
end

open Spec.Lossless in
theorem sameFeature_relink (t : S) (f : Feature) (h : mapWF f.attributes = true) :
    sameFeature (relinkTo t f) f = true := by
  simp [sameFeature, relinkTo, sameMap_refl _ h, sameLoc_refl]

open Spec.Lossless in
theorem sameMeta_refl (m : Meta) (h : mapWF m.other = true) : sameMeta m m = true := by
  simp only [sameMeta, beq_self_eq_true, Bool.true_and, sameMap_refl _ h, Bool.and_true, sameSlice]
  exact sameList_refl _ _ (fun a _ => by simp)

/-! ### `GetSequence` does not see the difference between nil and empty sub-location lists -/

theorem subsEmpty_norm (o : Option (List Location)) :
    subsEmpty (some (Location.normSubs o)) = subsEmpty o := by
  match o with
  | none => simp [Location.normSubs, subsEmpty]
  | some [] => simp [Location.normSubs, Location.normList, subsEmpty]
  | some (_ :: _) => simp [Location.normSubs, Location.normList, subsEmpty]

mutual
theorem seqOf_norm (p : S) : ∀ l : Location, l.norm.seqOf p = l.seqOf p
  | .mk s e c j f t subs => by
    simp only [Location.norm, Location.seqOf, subsEmpty_norm, Location.seqOfSubs, seqOfSubs_norm p subs]
theorem seqOfSubs_norm (p : S) : ∀ o : Option (List Location),
    Location.seqOfList p (Location.normSubs o) = Location.seqOfSubs p o
  | none => by simp [Location.normSubs, Location.seqOfSubs, Location.seqOfList]
  | some xs => by simp [Location.normSubs, Location.seqOfSubs, seqOfList_norm p xs]
theorem seqOfList_norm (p : S) : ∀ ls : List Location,
    Location.seqOfList p (Location.normList ls) = Location.seqOfList p ls
  | [] => by simp [Location.normList]
  | x :: xs => by simp [Location.normList, Location.seqOfList, seqOf_norm p x, seqOfList_norm p xs]
end

/-! ### the writers' views do not see nil-vs-empty collections nor parent pointers -/

mutual
theorem toPLoc_norm : ∀ l : Location, l.norm.toPLoc = l.toPLoc
  | .mk s e c j f t subs => by
    simp only [Location.norm, Location.toPLoc, Location.subsToPLoc, subsToPLoc_norm subs]
theorem subsToPLoc_norm : ∀ o : Option (List Location),
    Location.listToPLoc (Location.normSubs o) = Location.subsToPLoc o
  | none => by simp [Location.normSubs, Location.subsToPLoc, Location.listToPLoc]
  | some xs => by simp [Location.normSubs, Location.subsToPLoc, listToPLoc_norm xs]
theorem listToPLoc_norm : ∀ ls : List Location,
    Location.listToPLoc (Location.normList ls) = Location.listToPLoc ls
  | [] => by simp [Location.normList]
  | x :: xs => by simp [Location.normList, Location.listToPLoc, toPLoc_norm x, listToPLoc_norm xs]
end

theorem start_norm : ∀ l : Location, l.norm.start = l.start
  | .mk .. => rfl
theorem stop_norm : ∀ l : Location, l.norm.stop = l.stop
  | .mk .. => rfl

theorem mapView_norm (m : SMap) : mapView (some (m.getD [])) = mapView m := by
  cases m <;> rfl

theorem feature_toGbk_norm (f : Feature) : f.norm.toGbk = f.toGbk := by
  simp [Feature.toGbk, Feature.norm, toPLoc_norm, mapView_norm]

theorem feature_toGff_norm (f : Feature) : f.norm.toGff = f.toGff := by
  simp [Feature.toGff, Feature.norm, start_norm, stop_norm, mapView_norm]

theorem toGbk_norm (x : Sequence) : x.norm.toGbk = x.toGbk := by
  simp [Sequence.toGbk, Sequence.norm, Meta.toGbk, Meta.norm, mapView_norm, Function.comp_def, feature_toGbk_norm]

theorem toGff_norm (x : Sequence) : x.norm.toGff = x.toGff := by
  simp [Sequence.toGff, Sequence.norm, Meta.norm, Function.comp_def, feature_toGff_norm]

/-- the GenBank writer's view is a function of the `≈`-class -/
theorem toGbk_congr (a c : Sequence) (h : a.Equiv c) : a.toGbk = c.toGbk := by
  rw [← toGbk_norm a, ← toGbk_norm c, show a.norm = c.norm from h]

/-- the GFF writer's view is a function of the `≈`-class -/
theorem toGff_congr (a c : Sequence) (h : a.Equiv c) : a.toGff = c.toGff := by
  rw [← toGff_norm a, ← toGff_norm c, show a.norm = c.norm from h]

end PolyVerif.PolyJson
