import PolyVerif.Spec.Insdc
/-
Helper lemmas for C02, part 1: decimal numerals (strconv.Itoa / Atoi models, the spec's
`decimal` and `readNat`) and the small string functions of the location model.
-/
namespace PolyVerif.Lemmas.Location
open PolyVerif PolyVerif.Location PolyVerif.Insdc

/-! ### digits -/

/-- Horner step shared by `atoiNat` and `readDigits` -/
def horner (acc : Nat) (c : Char) : Nat := acc * 10 + (c.toNat - 48)

def Digits (s : Str) : Prop := ∀ c ∈ s, isDig c = true

theorem digitChar_toNat : ∀ d, d < 10 → (digitChar d).toNat = 48 + d := by decide

theorem isDig_digitChar (d : Nat) (h : d < 10) : isDig (digitChar d) = true := by
  simp only [isDig, digitChar_toNat d h, Bool.and_eq_true, decide_eq_true_eq]; omega

theorem digitVal?_of_isDig {c : Char} (h : isDig c = true) : digitVal? c = some (c.toNat - 48) := by
  simp only [isDig, Bool.and_eq_true, decide_eq_true_eq] at h
  simp [digitVal?, h]

theorem Digits.nil : Digits [] := by intro c hc; cases hc

theorem Digits.append {a b : Str} (ha : Digits a) (hb : Digits b) : Digits (a ++ b) := by
  intro c hc
  rcases List.mem_append.1 hc with h | h
  · exact ha c h
  · exact hb c h

theorem Digits.tail {c : Char} {s : Str} (h : Digits (c :: s)) : Digits s :=
  fun x hx => h x (List.mem_cons_of_mem _ hx)

theorem itoaF_digits : ∀ f n, Digits (itoaF f n)
  | 0, _ => by simp [itoaF, Digits]
  | f + 1, n => by
    unfold itoaF
    split
    · exact Digits.nil
    · apply Digits.append (itoaF_digits f (n / 10))
      intro c hc
      simp only [List.mem_singleton] at hc
      subst hc
      exact isDig_digitChar _ (Nat.mod_lt _ (by decide))

theorem horner_digitChar (acc d : Nat) (h : d < 10) : horner acc (digitChar d) = acc * 10 + d := by
  simp [horner, digitChar_toNat d h]

theorem itoaF_horner : ∀ f n, n ≤ f → (itoaF f n).foldl horner 0 = n
  | 0, n, h => by
    have : n = 0 := by omega
    simp [itoaF, this]
  | f + 1, n, h => by
    unfold itoaF
    split
    · rename_i h0; simp [h0]
    · rename_i h0
      rw [List.foldl_append, itoaF_horner f (n / 10) (by omega)]
      simp only [List.foldl_cons, List.foldl_nil]
      rw [horner_digitChar _ _ (Nat.mod_lt _ (by decide))]
      omega

theorem itoaF_ne_nil : ∀ f n, 0 < n → itoaF (f + 1) n ≠ [] := by
  intro f n h
  unfold itoaF
  simp [Nat.ne_of_gt h]

theorem itoa_digits (n : Nat) : Digits (itoa n) := by
  unfold itoa
  split
  · intro c hc
    simp only [List.mem_singleton] at hc
    subst hc; decide
  · exact itoaF_digits n n

theorem itoa_horner (n : Nat) : (itoa n).foldl horner 0 = n := by
  unfold itoa
  split
  · rename_i h; subst h; decide
  · exact itoaF_horner n n (Nat.le_refl _)

theorem itoa_ne_nil (n : Nat) : itoa n ≠ [] := by
  unfold itoa
  split
  · simp
  · rename_i h
    cases n with
    | zero => exact absurd rfl h
    | succ k => exact itoaF_ne_nil k (k + 1) (Nat.succ_pos _)

/-- the numeral starts with a digit -/
theorem itoa_cons (n : Nat) : ∃ c t, itoa n = c :: t ∧ isDig c = true := by
  have h := itoa_ne_nil n
  have hd := itoa_digits n
  cases hs : itoa n with
  | nil => exact absurd hs h
  | cons c t => exact ⟨c, t, rfl, hd c (by simp [hs])⟩

/-! ### strconv.Atoi inverts strconv.Itoa -/

theorem atoiNat_digits : ∀ (s : Str) (acc : Nat), Digits s → atoiNat s acc = some (s.foldl horner acc)
  | [], acc, _ => rfl
  | c :: cs, acc, h => by
    have hc := h c (by simp)
    simp only [atoiNat, digitVal?_of_isDig hc, List.foldl_cons]
    exact atoiNat_digits cs _ (Digits.tail h)

theorem digitsOr0_itoa (n : Nat) : digitsOr0 (itoa n) = n := by
  obtain ⟨c, t, hs, _⟩ := itoa_cons n
  have h1 := atoiNat_digits (itoa n) 0 (itoa_digits n)
  rw [itoa_horner] at h1
  rw [hs] at h1 ⊢
  simp [digitsOr0, h1]

theorem isDig_ne {c : Char} (h : isDig c = true) :
    c ≠ '-' ∧ c ≠ '+' ∧ c ≠ '<' ∧ c ≠ '>' ∧ c ≠ '.' ∧ c ≠ '(' ∧ c ≠ ')' ∧ c ≠ ',' ∧ c ≠ 'c' ∧ c ≠ 'j' := by
  simp only [isDig, Bool.and_eq_true, decide_eq_true_eq] at h
  refine ⟨?_, ?_, ?_, ?_, ?_, ?_, ?_, ?_, ?_, ?_⟩ <;> (intro e; subst e; revert h; decide)

theorem atoi_itoa (n : Nat) : atoi (itoa n) = (n : Int) := by
  obtain ⟨c, t, hs, hc⟩ := itoa_cons n
  have hne := isDig_ne hc
  have h := digitsOr0_itoa n
  rw [hs] at h ⊢
  simp [atoi, hne.1, hne.2.1, h]

theorem itoaInt_natCast (n : Nat) : itoaInt (n : Int) = itoa n := rfl

/-! ### the spec's numeral is the same text -/

theorem digitsRev_itoaF : ∀ f n, ((digitsRev f n).reverse.map fun d => Char.ofNat (48 + d)) = itoaF f n
  | 0, _ => rfl
  | f + 1, n => by
    unfold digitsRev itoaF
    split
    · rfl
    · simp only [List.reverse_cons, List.map_append, List.map_cons, List.map_nil]
      rw [digitsRev_itoaF f (n / 10)]
      rfl

theorem decimal_eq_itoa (n : Nat) : decimal n = itoa n := by
  unfold decimal itoa
  split
  · rfl
  · exact digitsRev_itoaF n n

/-! ### the recogniser's number reader -/

/-- the text after a number: nothing, or something that is not a digit -/
def NoDigHead (s : Str) : Prop := ∀ c t, s = c :: t → isDig c = false

theorem readDigits_append : ∀ (ds rest : Str) (acc : Nat), Digits ds → NoDigHead rest →
    readDigits (ds ++ rest) acc = (ds.foldl horner acc, rest)
  | [], rest, acc, _, hr => by
    cases rest with
    | nil => rfl
    | cons c t => simp [readDigits, hr c t rfl]
  | d :: ds, rest, acc, hd, hr => by
    have h1 := hd d (by simp)
    simp only [List.cons_append, readDigits, h1, if_true, List.foldl_cons]
    exact readDigits_append ds rest _ (Digits.tail hd) hr

theorem itoaF_zero : ∀ f, itoaF f 0 = []
  | 0 => rfl
  | f + 1 => by simp [itoaF]

theorem digitChar_ne_zero : ∀ d, d < 10 → d ≠ 0 → digitChar d ≠ '0' := by decide

/-- the numeral of a positive number starts with a non-zero digit -/
theorem itoaF_head : ∀ f n, 0 < n → n ≤ f → ∃ c t, itoaF f n = c :: t ∧ isDig c = true ∧ c ≠ '0'
  | 0, n, h0, hf => by omega
  | f + 1, n, h0, hf => by
    unfold itoaF
    rw [if_neg (by omega)]
    by_cases hq : n / 10 = 0
    · rw [hq, itoaF_zero]
      have hlt : n % 10 < 10 := Nat.mod_lt _ (by decide)
      exact ⟨_, [], rfl, isDig_digitChar _ hlt, digitChar_ne_zero _ hlt (by omega)⟩
    · obtain ⟨c, t, e, hc, hz⟩ := itoaF_head f (n / 10) (by omega) (by omega)
      exact ⟨c, t ++ [digitChar (n % 10)], by rw [e]; rfl, hc, hz⟩

theorem itoa_head (n : Nat) (h : 1 ≤ n) : ∃ c t, itoa n = c :: t ∧ isDig c = true ∧ c ≠ '0' := by
  unfold itoa
  rw [if_neg (by omega)]
  exact itoaF_head n n (by omega) (Nat.le_refl _)

theorem readNat_itoa (n : Nat) (rest : Str) (hn : 1 ≤ n) (hr : NoDigHead rest) :
    readNat (itoa n ++ rest) = some (n, rest) := by
  obtain ⟨c, t, hs, hc, hz⟩ := itoa_head n hn
  have h := readDigits_append (itoa n) rest 0 (itoa_digits n) hr
  rw [itoa_horner] at h
  rw [hs] at h ⊢
  simp only [List.cons_append, readNat, hc, Bool.true_and, bne_iff_ne, ne_eq, hz, not_false_eq_true, if_true]
  exact congrArg some h

end PolyVerif.Lemmas.Location
