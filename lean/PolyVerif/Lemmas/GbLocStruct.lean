import PolyVerif.Lemmas.LocationWritten
import PolyVerif.Spec.GbStrict
/-
C03, write-then-read of the location STRUCTURE: for a structurally assembled feature, `parseLocation`
(property C02's model of what `Parse` does with the location text) applied to the text
`BuildLocationString` writes gives the structure back, modulo `normLoc`.  Bridge from C03's decidable
`wfLoc ∧ locR` to C02's `Rep p l ∧ InRange ∧ Arity` (`locOf`), then C02's `parseLocation_tprint`.
-/
namespace PolyVerif.Lemmas.GbLocStruct
open PolyVerif PolyVerif.Location PolyVerif.Insdc PolyVerif.Lemmas.Location
open PolyVerif.Spec.GbStrict (wfLoc wfLocs locR locsR plainLeaf locProved normLoc normLocs locBeq locsBeq)

mutual
/-- the INSDC location a structure stands for -/
def locOf : PLoc → Loc
  | ⟨start, stop, c, _, five, three, subs⟩ =>
    let core : Loc := match subs with
      | [] => .span (start + 1).toNat stop.toNat five three
      | [s] => locOf s
      | s :: t :: ss => .join (locsOf (s :: t :: ss))
    if c then .compl core else core
def locsOf : List PLoc → List Loc
  | [] => []
  | p :: ps => locOf p :: locsOf ps
end

mutual
def locBound : PLoc → Nat
  | ⟨_, stop, _, _, _, _, subs⟩ =>
    match subs with
    | [] => stop.toNat
    | s :: ss => locsBound (s :: ss)
def locsBound : List PLoc → Nat
  | [] => 0
  | p :: ps => max (locBound p) (locsBound ps)
end

mutual
theorem locBeq_refl : ∀ p : PLoc, locBeq p p = true
  | ⟨s, e, c, j, f, t, subs⟩ => by
    rw [locBeq]
    simp [locsBeq_refl subs]
theorem locsBeq_refl : ∀ ps : List PLoc, locsBeq ps ps = true
  | [] => by rw [locsBeq]
  | p :: ps => by rw [locsBeq, locBeq_refl p, locsBeq_refl ps]; rfl
end

theorem length_locsOf : ∀ ps : List PLoc, (locsOf ps).length = ps.length
  | [] => rfl
  | p :: ps => by rw [locsOf]; simp [length_locsOf ps]

theorem isCompl_locOf (p : PLoc) : isCompl (locOf p) = p.complement ∨ p.complement = false := by
  obtain ⟨s, e, c, j, f, t, subs⟩ := p
  cases c
  · exact Or.inr rfl
  · left; rw [locOf.eq_def]; simp [isCompl]

theorem repList_head {p : PLoc} {ps : List PLoc} {x : Loc} {xs : List Loc} (h : RepList (p :: ps) (x :: xs)) :
    Rep p x ∧ RepList ps xs := by
  cases h with
  | cons _ _ _ _ h1 h2 => exact ⟨h1, h2⟩

mutual
/-- C03's decidable domain lies in C02's: the structure represents `locOf p`, joins have ≥ 2 operands -/
theorem rep_locOf : ∀ p : PLoc, wfLoc p = true → locR p = true → Rep p (locOf p) ∧ arity (locOf p) = true
  | ⟨start, stop, c, join, five, three, subs⟩, hw, hr => by
    have ih := repList_locsOf subs
    unfold wfLoc at hw
    unfold locR at hr
    rw [locOf.eq_def]
    simp only at hw hr ⊢
    match subs, hw, hr, ih with
    | [], hw, hr, _ =>
      simp only [Bool.not_eq_true', Bool.and_eq_true, decide_eq_true_eq] at hw hr
      subst hw
      have e1 : (((start + 1).toNat : Nat) : Int) - 1 = start := by omega
      have e2 : ((stop.toNat : Nat) : Int) = stop := by omega
      have h0 := Rep.span (start + 1).toNat stop.toNat five three
      rw [e1, e2] at h0
      cases c
      · exact ⟨h0, rfl⟩
      · exact ⟨Rep.merged _ _ _ _ _ _ _ h0, rfl⟩
    | [s], hw, hr, ih =>
      simp only [Bool.and_eq_true, Bool.not_eq_true', beq_iff_eq, Bool.or_eq_true] at hw hr
      obtain ⟨⟨⟨h1, h2⟩, h3⟩, h4⟩ := hw
      obtain ⟨hj, hrs⟩ := hr
      subst h1 h2 hj
      have hc : c = true ∧ s.complement = true := by
        rcases h3 with h | h
        · cases h
        · exact h
      obtain ⟨rfl, hsc⟩ := hc
      have ih' := ih (by rw [wfLocs, wfLocs, h4]; rfl) (by rw [locsR, locsR, hrs]; rfl)
      rw [locsOf, locsOf] at ih'
      simp only [arityList, Bool.and_true] at ih'
      exact ⟨Rep.wrapper _ _ _ _ _ _ (repList_head ih'.1).1, by simpa [arity] using ih'.2⟩
    | s :: t :: ss, hw, hr, ih =>
      simp only [Bool.and_eq_true, beq_iff_eq] at hw
      obtain ⟨⟨h1, h2⟩, h3⟩ := hw
      subst h1 h2
      obtain ⟨ihr, iha⟩ := ih h3 hr
      have hj := Rep.join 0 0 join five three (s :: t :: ss) (locsOf (s :: t :: ss)) (Or.inr (by simp)) ihr
      have ha : arity (.join (locsOf (s :: t :: ss))) = true := by
        simp [arity, length_locsOf, iha]
      cases c
      · exact ⟨hj, ha⟩
      · exact ⟨Rep.merged _ _ _ _ _ _ _ hj, by simpa [arity] using ha⟩
theorem repList_locsOf : ∀ ps : List PLoc, wfLocs ps = true → locsR ps = true →
    RepList ps (locsOf ps) ∧ arityList (locsOf ps) = true
  | [], _, _ => ⟨RepList.nil, rfl⟩
  | p :: ps, hw, hr => by
    rw [wfLocs] at hw
    rw [locsR] at hr
    simp only [Bool.and_eq_true] at hw hr
    obtain ⟨a1, a2⟩ := rep_locOf p hw.1 hr.1
    obtain ⟨b1, b2⟩ := repList_locsOf ps hw.2 hr.2
    rw [locsOf]
    exact ⟨RepList.cons _ _ _ _ a1 b1, by simp [arityList, a2, b2]⟩
end

mutual
theorem inRange_locOf : ∀ (p : PLoc) (n : Nat), wfLoc p = true → locR p = true → locBound p ≤ n →
    inRange (locOf p) n = true
  | ⟨start, stop, c, join, five, three, subs⟩, n, hw, hr, hb => by
    have ih := inRangeList_locsOf subs n
    unfold wfLoc at hw
    unfold locR at hr
    rw [locBound.eq_def] at hb
    rw [locOf.eq_def]
    simp only at hw hr hb ⊢
    match subs, hw, hr, hb, ih with
    | [], hw, hr, hb, _ =>
      simp only [Bool.and_eq_true, decide_eq_true_eq] at hr
      have hb' : stop.toNat ≤ n := hb
      have : inRange (.span (start + 1).toNat stop.toNat five three) n = true := by
        simp only [inRange, Bool.and_eq_true, decide_eq_true_eq]
        omega
      cases c
      · exact this
      · simpa [inRange] using this
    | [s], hw, hr, hb, ih =>
      simp only [Bool.and_eq_true, Bool.not_eq_true', beq_iff_eq, Bool.or_eq_true] at hw hr
      have ih' := ih (by rw [wfLocs, wfLocs, hw.2]; rfl) (by rw [locsR, locsR, hr.2]; rfl) hb
      rw [locsOf, locsOf] at ih'
      simp only [inRangeList, Bool.and_true] at ih'
      cases c
      · exact ih'
      · simpa [inRange] using ih'
    | s :: t :: ss, hw, hr, hb, ih =>
      simp only [Bool.and_eq_true, beq_iff_eq] at hw
      have ih' := ih hw.2 hr hb
      cases c
      · simpa [inRange] using ih'
      · simpa [inRange] using ih'
theorem inRangeList_locsOf : ∀ (ps : List PLoc) (n : Nat), wfLocs ps = true → locsR ps = true → locsBound ps ≤ n →
    inRangeList (locsOf ps) n = true
  | [], _, _, _, _ => rfl
  | p :: ps, n, hw, hr, hb => by
    rw [wfLocs] at hw
    rw [locsR] at hr
    rw [locsBound] at hb
    simp only [Bool.and_eq_true] at hw hr
    have a := inRange_locOf p n hw.1 hr.1 (by omega)
    have b := inRangeList_locsOf ps n hw.2 hr.2 (by omega)
    rw [locsOf]
    simp [inRangeList, a, b]
end

mutual
/-- the structure C02's parser theorem returns for the text of `locOf p` is `p`, up to what `normLoc`
recomputes (flags of inner nodes, the `Join` flag of a node with several operands) -/
theorem normLoc_embedW (w : Loc → Bool × Bool) : ∀ p : PLoc, wfLoc p = true → locR p = true →
    normLoc (embedW w (locOf p)) = normLoc p
  | ⟨start, stop, c, join, five, three, subs⟩, hw, hr => by
    have ih := normLocs_embedWList w subs
    unfold wfLoc at hw
    unfold locR at hr
    rw [locOf.eq_def]
    simp only at hw hr ⊢
    match subs, hw, hr, ih with
    | [], hw, hr, _ =>
      simp only [Bool.not_eq_true', Bool.and_eq_true, decide_eq_true_eq] at hw hr
      subst hw
      have e1 : (((start + 1).toNat : Nat) : Int) - 1 = start := by omega
      have e2 : ((stop.toNat : Nat) : Int) = stop := by omega
      cases c
      · simp only [Bool.false_eq_true, if_false, embedW, e1, e2]
      · simp only [if_true, embedW, Bool.false_eq_true, if_false, e1, e2]
    | [s], hw, hr, ih =>
      simp only [Bool.and_eq_true, Bool.not_eq_true', beq_iff_eq, Bool.or_eq_true] at hw hr
      obtain ⟨⟨⟨h1, h2⟩, h3⟩, h4⟩ := hw
      obtain ⟨hj, hrs⟩ := hr
      subst h1 h2 hj
      have hc : c = true ∧ s.complement = true := by
        rcases h3 with h | h
        · cases h
        · exact h
      obtain ⟨rfl, hsc⟩ := hc
      have ih' := ih (by rw [wfLocs, wfLocs, h4]; rfl) (by rw [locsR, locsR, hrs]; rfl)
      rw [locsOf, locsOf] at ih'
      simp only [embedWList, normLocs, List.cons.injEq, and_true] at ih'
      have hcs : (embedW w (locOf s)).complement = true := by
        rw [embedW_complement]
        rcases isCompl_locOf s with h | h
        · rw [h, hsc]
        · rw [hsc] at h; cases h
      simp only [if_true, embedW, hcs]
      rw [normLoc, normLoc]
      simp only [normLocs, ih']
    | s :: t :: ss, hw, hr, ih =>
      simp only [Bool.and_eq_true, beq_iff_eq] at hw
      obtain ⟨⟨h1, h2⟩, h3⟩ := hw
      subst h1 h2
      have ih' := ih h3 hr
      cases c
      · simp only [Bool.false_eq_true, if_false, embedW]
        rw [locsOf, locsOf, embedWList, embedWList] at ih' ⊢
        rw [normLoc, normLoc, ih']
        simp
      · simp only [if_true, embedW, Bool.false_eq_true, if_false]
        rw [locsOf, locsOf, embedWList, embedWList] at ih' ⊢
        rw [normLoc, normLoc, ih']
        simp
theorem normLocs_embedWList (w : Loc → Bool × Bool) : ∀ ps : List PLoc, wfLocs ps = true → locsR ps = true →
    normLocs (embedWList w (locsOf ps)) = normLocs ps
  | [], _, _ => by rw [locsOf, embedWList]
  | p :: ps, hw, hr => by
    rw [wfLocs] at hw
    rw [locsR] at hr
    simp only [Bool.and_eq_true] at hw hr
    rw [locsOf, embedWList, normLocs, normLocs, normLoc_embedW w p hw.1 hr.1, normLocs_embedWList w ps hw.2 hr.2]
end

/-- **write-then-read of a location structure**: `parseLocation` on the text `BuildLocationString`
writes for `p` returns a structure equal to `p` modulo `normLoc` -/
theorem parse_buildLoc_struct (p : PLoc) (h : locProved p = true) :
    ∃ q, parseLocation (buildLoc p) = .ok q ∧ locBeq (normLoc q) (normLoc p) = true := by
  simp only [locProved, Bool.and_eq_true, Bool.or_eq_true] at h
  obtain ⟨hw, hr | hl⟩ := h
  · obtain ⟨hrep, har⟩ := rep_locOf p hw hr
    have hin := inRange_locOf p (locBound p) hw hr (Nat.le_refl _)
    refine ⟨pembedT true (norm (locOf p)), ?_, ?_⟩
    · rw [buildLoc_rep hrep har]
      exact parseLocation_tprint true (norm (locOf p)) _ (inRange_norm _ _ hin) (arity_norm _ har)
    · simp only [pembedT]
      rw [embedW_norm, normLoc_embedW _ p hw hr]
      exact locBeq_refl _
  · obtain ⟨start, stop, c, join, five, three, subs⟩ := p
    simp only [plainLeaf, Bool.and_eq_true, List.isEmpty_iff, Bool.not_eq_true'] at hl
    obtain ⟨⟨rfl, rfl⟩, rfl⟩ := hl
    refine ⟨_, ?_, locBeq_refl _⟩
    rw [buildLoc_leaf]
    exact parse_written_leaf _ start stop five three

end PolyVerif.Lemmas.GbLocStruct
