import Mathlib.Data.List.Perm.Basic
import Mathlib.Data.List.Nodup
import PolyVerif.Model.Digest
/-
C10 helper lemmas about the MODEL only (Model/Digest.lean): the literal-site scan, the
duplicate-dropping loop, the stable sort, the pairing loop, the final slicing.
-/
namespace PolyVerif.Digest
open PolyVerif PolyVerif.Transform

/-! ### `findAll`: leftmost non-overlapping scan -/

theorem findAllAux_sound (x : Str) (hx : x ≠ []) : ∀ (cs : Str) (i hold a b : Nat),
    (a, b) ∈ findAllAux x i hold cs → ∃ j, a = i + j ∧ b = i + j + x.length ∧ x <+: cs.drop j := by
  intro cs
  induction cs with
  | nil =>
    intro i hold a b h
    cases hold <;> simp [findAllAux, hx] at h
  | cons c cs ih =>
    intro i hold a b h
    cases hold with
    | succ hold =>
      rw [findAllAux] at h
      obtain ⟨j, h1, h2, h3⟩ := ih _ _ _ _ h
      exact ⟨j + 1, by omega, by omega, by simpa using h3⟩
    | zero =>
      rw [findAllAux] at h
      split at h
      · rename_i hp
        rcases List.mem_cons.1 h with h | h
        · have : a = i ∧ b = i + x.length := by simpa using h
          exact ⟨0, by omega, by omega, by simpa using List.isPrefixOf_iff_prefix.1 hp⟩
        · obtain ⟨j, h1, h2, h3⟩ := ih _ _ _ _ h
          exact ⟨j + 1, by omega, by omega, by simpa using h3⟩
      · obtain ⟨j, h1, h2, h3⟩ := ih _ _ _ _ h
        exact ⟨j + 1, by omega, by omega, by simpa using h3⟩

/-- occurrences of `x` in `cs` do not overlap one another -/
def NonOverlapping (x cs : Str) : Prop :=
  ∀ a b, a < b → x <+: cs.drop a → x <+: cs.drop b → a + x.length ≤ b

theorem NonOverlapping.tail {x : Str} {c : Char} {cs : Str} (h : NonOverlapping x (c :: cs)) :
    NonOverlapping x cs := by
  intro a b hab ha hb
  have := h (a + 1) (b + 1) (by omega) (by simpa using ha) (by simpa using hb)
  omega

theorem findAllAux_complete (x : Str) (hx : x ≠ []) : ∀ (cs : Str) (i hold : Nat),
    NonOverlapping x cs → ∀ j, hold ≤ j → x <+: cs.drop j →
    (i + j, i + j + x.length) ∈ findAllAux x i hold cs := by
  intro cs
  induction cs with
  | nil =>
    intro i hold _ j _ hp
    simp at hp
    exact absurd hp hx
  | cons c cs ih =>
    intro i hold hno j hj hp
    cases hold with
    | succ hold =>
      rw [findAllAux]
      obtain ⟨j', rfl⟩ : ∃ j', j = j' + 1 := ⟨j - 1, by omega⟩
      have := ih (i + 1) hold hno.tail j' (by omega) (by simpa using hp)
      simpa [Nat.add_assoc, Nat.add_comm 1 j'] using this
    | zero =>
      rw [findAllAux]
      split
      · rename_i hpre
        rcases Nat.eq_zero_or_pos j with rfl | hjpos
        · simp
        · have hm := hno 0 j hjpos (by simpa using List.isPrefixOf_iff_prefix.1 hpre) hp
          obtain ⟨j', rfl⟩ : ∃ j', j = j' + 1 := ⟨j - 1, by omega⟩
          have := ih (i + 1) (x.length - 1) hno.tail j' (by omega) (by simpa using hp)
          apply List.mem_cons_of_mem
          simpa [Nat.add_assoc, Nat.add_comm 1 j'] using this
      · rename_i hpre
        rcases Nat.eq_zero_or_pos j with rfl | hjpos
        · exact absurd (List.isPrefixOf_iff_prefix.2 (by simpa using hp)) hpre
        · obtain ⟨j', rfl⟩ : ∃ j', j = j' + 1 := ⟨j - 1, by omega⟩
          have := ih (i + 1) 0 hno.tail j' (by omega) (by simpa using hp)
          simpa [Nat.add_assoc, Nat.add_comm 1 j'] using this

/-- when the occurrences of a non-empty literal do not overlap, the scan reports exactly all of them -/
theorem mem_findAll {x z : Str} (hx : x ≠ []) (hno : NonOverlapping x z) (a b : Nat) :
    (a, b) ∈ findAll x z ↔ b = a + x.length ∧ x <+: z.drop a := by
  constructor
  · intro h
    obtain ⟨j, h1, h2, h3⟩ := findAllAux_sound x hx z 0 0 a b h
    have : a = j := by omega
    subst this
    exact ⟨by omega, h3⟩
  · rintro ⟨rfl, hp⟩
    have := findAllAux_complete x hx z 0 0 hno a (by omega) hp
    simpa [findAll] using this

/-! ### the duplicate-dropping loop -/

theorem mem_dedupInto : ∀ (l acc : List Overhang) (o : Overhang), o ∈ dedupInto acc l ↔ o ∈ acc ∨ o ∈ l := by
  intro l
  induction l with
  | nil => intro acc o; simp [dedupInto]
  | cons x xs ih =>
    intro acc o
    rw [dedupInto]
    split
    · rename_i hc
      have hx : x ∈ acc := by simpa using hc
      rw [ih]
      constructor
      · rintro (h | h)
        · exact Or.inl h
        · exact Or.inr (List.mem_cons_of_mem _ h)
      · rintro (h | h)
        · exact Or.inl h
        · rcases List.mem_cons.1 h with rfl | h
          · exact Or.inl hx
          · exact Or.inr h
    · rw [ih]
      simp only [List.mem_append, List.mem_cons]
      tauto

theorem nodup_dedupInto : ∀ (l acc : List Overhang), acc.Nodup → (dedupInto acc l).Nodup := by
  intro l
  induction l with
  | nil => intro acc h; simpa [dedupInto] using h
  | cons x xs ih =>
    intro acc h
    rw [dedupInto]
    split
    · exact ih acc h
    · rename_i hc
      have hx : x ∉ acc := by simpa using hc
      apply ih
      rw [List.nodup_append]
      refine ⟨h, by simp, ?_⟩
      intro a ha b hb
      have : b = x := by simpa using hb
      subst this
      rintro rfl
      exact hx ha

/-! ### the stable sort by position -/

theorem insertByPos_perm (o : Overhang) : ∀ l : List Overhang, (insertByPos o l).Perm (o :: l) := by
  intro l
  induction l with
  | nil => simp [insertByPos]
  | cons x xs ih =>
    rw [insertByPos]
    split
    · exact List.Perm.refl _
    · exact (List.Perm.cons x ih).trans (List.Perm.swap o x xs)

theorem sortByPos_perm : ∀ l : List Overhang, (sortByPos l).Perm l := by
  intro l
  induction l with
  | nil => simp [sortByPos]
  | cons x xs ih =>
    rw [sortByPos]
    exact (insertByPos_perm x _).trans (List.Perm.cons x ih)

def PosLe (a b : Overhang) : Prop := a.position ≤ b.position

theorem insertByPos_sorted (o : Overhang) : ∀ l : List Overhang, l.Pairwise PosLe → (insertByPos o l).Pairwise PosLe := by
  intro l
  induction l with
  | nil => intro _; simp [insertByPos]
  | cons x xs ih =>
    intro h
    rw [insertByPos]
    have hx := List.pairwise_cons.1 h
    split
    · rename_i hle
      refine List.pairwise_cons.2 ⟨?_, h⟩
      intro y hy
      rcases List.mem_cons.1 hy with rfl | hy
      · exact hle
      · exact Int.le_trans hle (hx.1 y hy)
    · rename_i hle
      refine List.pairwise_cons.2 ⟨?_, ih hx.2⟩
      intro y hy
      rcases List.mem_cons.1 ((insertByPos_perm o xs).mem_iff.1 hy) with rfl | hy
      · show x.position ≤ y.position
        omega
      · exact hx.1 y hy

theorem sortByPos_sorted : ∀ l : List Overhang, (sortByPos l).Pairwise PosLe := by
  intro l
  induction l with
  | nil => simp [sortByPos]
  | cons x xs ih => rw [sortByPos]; exact insertByPos_sorted x _ ih

/-! ### the pairing loop -/

/-- consecutive pairs of a list -/
def adjPairs {α : Type} : List α → List (α × α)
  | a :: b :: r => (a, b) :: adjPairs (b :: r)
  | _ => []

/-- the `break` of the pairing loop can only fire at the last pair -/
def BreakOK (n : Nat) : List Overhang → Prop
  | _ :: next :: rest => (next.position > (n : Int) → rest = []) ∧ BreakOK n (next :: rest)
  | _ => True

/-- the piece the loop emits for a pair -/
def pieceOf (z : Str) (p : Overhang × Overhang) : Option Str :=
  if p.1.forward && !p.2.forward then
    some ((z.drop p.1.position.toNat).take (p.2.position.toNat - p.1.position.toNat))
  else none

theorem pairLoop_eq (z : Str) (n : Nat) : ∀ O : List Overhang, BreakOK n O →
    (∀ p ∈ adjPairs O, p.1.forward = true → p.2.forward = false →
      0 ≤ p.1.position ∧ p.1.position ≤ p.2.position ∧ p.2.position ≤ (z.length : Int)) →
    pairLoop z n true O = some ((adjPairs O).filterMap (pieceOf z)) := by
  intro O
  induction O with
  | nil => intro _ _; simp [pairLoop, adjPairs]
  | cons cur rest ih =>
    intro hb hv
    cases rest with
    | nil => simp [pairLoop, adjPairs]
    | cons next rest =>
      have hb' : BreakOK n (next :: rest) := hb.2
      have hv' : ∀ p ∈ adjPairs (next :: rest), p.1.forward = true → p.2.forward = false →
          0 ≤ p.1.position ∧ p.1.position ≤ p.2.position ∧ p.2.position ≤ (z.length : Int) := by
        intro p hp; exact hv p (by simp [adjPairs, hp])
      have ih' := ih hb' hv'
      rw [pairLoop]
      simp only [Bool.not_true, Bool.false_or]
      by_cases hem : (cur.forward && !next.forward) = true
      · have hf : cur.forward = true ∧ next.forward = false := by simpa using hem
        have hvv := hv (cur, next) (by simp [adjPairs]) hf.1 hf.2
        have hs : goSlice z cur.position next.position =
            some ((z.drop cur.position.toNat).take (next.position.toNat - cur.position.toNat)) := by
          simp only [goSlice]; rw [if_pos hvv]
        simp only [hem, if_true, hs, Option.map_some]
        by_cases hbr : next.position > (n : Int)
        · have hr : rest = [] := hb.1 hbr
          subst hr
          simp [hbr, adjPairs, pieceOf, hem]
        · simp only [hbr, if_false, ih', Option.map_some]
          simp [adjPairs, pieceOf, hem]
      · have hem' : (cur.forward && !next.forward) = false := by simpa using hem
        simp only [hem']
        by_cases hbr : next.position > (n : Int)
        · have hr : rest = [] := hb.1 hbr
          subst hr
          simp [hbr, adjPairs, pieceOf, hem']
        · simp only [hbr, if_false, ih', Option.map_some]
          simp [adjPairs, pieceOf, hem']

/-! ### the final slicing -/

theorem toFragment_eq {oh : Nat} {f : Str} (h : 2 * oh ≤ f.length) :
    toFragment oh f = some ⟨(f.drop oh).take (f.length - 2 * oh), f.take oh, f.drop (f.length - oh)⟩ := by
  have h1 : goSlice f (oh : Int) ((f.length : Int) - oh) = some ((f.drop oh).take (f.length - 2 * oh)) := by
    simp only [goSlice]
    rw [if_pos (by omega)]
    congr 2
    omega
  have h2 : goSlice f 0 (oh : Int) = some (f.take oh) := by
    simp only [goSlice]
    rw [if_pos (by omega)]
    simp
  have h3 : goSlice f ((f.length : Int) - oh) (f.length : Int) = some (f.drop (f.length - oh)) := by
    simp only [goSlice]
    rw [if_pos (by omega)]
    have e1 : ((f.length : Int) - (oh : Int)).toNat = f.length - oh := by omega
    rw [e1]
    simp only [Int.toNat_natCast]
    rw [List.take_of_length_le (by simp)]
  simp [toFragment, h1, h2, h3]

theorem allSome_map {α β : Type} (T : α → Option β) (F : α → β) : ∀ l : List α,
    (∀ a ∈ l, T a = some (F a)) → allSome (l.map T) = some (l.map F) := by
  intro l
  induction l with
  | nil => intro _; simp [allSome]
  | cons a l ih =>
    intro h
    have ha := h a (by simp)
    have hl := ih (fun b hb => h b (by simp [hb]))
    simp [allSome, ha, hl]

/-! ### every fragment is a contiguous piece of `sequence` -/

theorem goSlice_eq {z : Str} {lo hi : Int} {f : Str} (h : goSlice z lo hi = some f) :
    0 ≤ lo ∧ lo ≤ hi ∧ hi ≤ (z.length : Int) ∧ f = (z.drop lo.toNat).take (hi.toNat - lo.toNat) := by
  unfold goSlice at h
  split at h
  · rename_i hc
    exact ⟨hc.1, hc.2.1, hc.2.2, by simpa using h.symm⟩
  · simp at h

theorem goSlice_infix {z : Str} {lo hi : Int} {f : Str} (h : goSlice z lo hi = some f) : f <:+: z := by
  obtain ⟨_, _, _, rfl⟩ := goSlice_eq h
  exact (List.take_prefix _ _).isInfix.trans (List.drop_suffix _ _).isInfix

theorem pairLoop_infix (z : Str) (n : Nat) (sel : Bool) : ∀ (O : List Overhang) (ps : List Str),
    pairLoop z n sel O = some ps → ∀ f ∈ ps, f <:+: z := by
  intro O
  induction O with
  | nil => intro ps h f hf; simp [pairLoop] at h; subst h; simp at hf
  | cons cur rest ih =>
    intro ps h f hf
    cases rest with
    | nil => simp [pairLoop] at h; subst h; simp at hf
    | cons next rest =>
      rw [pairLoop] at h
      split at h
      · simp at h
      · rename_i p hp
        have hpin : ∀ x ∈ p, x <:+: z := by
          intro x hx
          split at hp
          · cases hg : goSlice z cur.position next.position with
            | none => rw [hg] at hp; simp at hp
            | some y =>
              rw [hg] at hp
              have : p = [y] := by simpa using hp.symm
              rw [this] at hx
              have : x = y := by simpa using hx
              rw [this]; exact goSlice_infix hg
          · have : p = [] := by simpa using hp.symm
            rw [this] at hx; simp at hx
        split at h
        · have : ps = p := by simpa using h.symm
          rw [this] at hf; exact hpin f hf
        · cases hr : pairLoop z n sel (next :: rest) with
          | none => rw [hr] at h; simp at h
          | some q =>
            rw [hr] at h
            have : ps = p ++ q := by simpa using h.symm
            rw [this] at hf
            rcases List.mem_append.1 hf with hf | hf
            · exact hpin f hf
            · exact ih q hr f hf

theorem toFragment_concat {oh : Nat} {f : Str} {fr : Fragment} (h : toFragment oh f = some fr) :
    fr.fwd ++ fr.seq ++ fr.rev = f := by
  unfold toFragment at h
  cases h1 : goSlice f (oh : Int) ((f.length : Int) - oh) with
  | none => rw [h1] at h; simp at h
  | some s =>
    cases h2 : goSlice f 0 (oh : Int) with
    | none => rw [h1, h2] at h; simp at h
    | some a =>
      cases h3 : goSlice f ((f.length : Int) - oh) (f.length : Int) with
      | none => rw [h1, h2, h3] at h; simp at h
      | some b =>
        rw [h1, h2, h3] at h
        have : fr = ⟨s, a, b⟩ := by simpa using h.symm
        subst this
        obtain ⟨_, hle, _, rfl⟩ := goSlice_eq h1
        obtain ⟨_, _, _, rfl⟩ := goSlice_eq h2
        obtain ⟨_, _, _, rfl⟩ := goSlice_eq h3
        have e1 : ((f.length : Int) - (oh : Int)).toNat = f.length - oh := by omega
        simp only [Int.toNat_natCast, e1, Int.toNat_zero, Nat.sub_zero, List.drop_zero]
        rw [List.take_of_length_le (l := List.drop (f.length - oh) f) (by simp)]
        have e3 : List.drop (f.length - oh) f = List.drop (f.length - oh - oh) (List.drop oh f) := by
          rw [List.drop_drop]; congr 1; omega
        rw [e3, List.append_assoc, List.take_append_drop, List.take_append_drop]

theorem allSome_mem {α : Type} : ∀ (l : List (Option α)) (r : List α), allSome l = some r →
    ∀ b ∈ r, some b ∈ l := by
  intro l
  induction l with
  | nil => intro r h b hb; simp [allSome] at h; subst h; simp at hb
  | cons x xs ih =>
    intro r h b hb
    cases x with
    | none => simp [allSome] at h
    | some a =>
      cases hr : allSome xs with
      | none => simp [allSome, hr] at h
      | some r' =>
        have : r = a :: r' := by simpa [allSome, hr] using h.symm
        rw [this] at hb
        rcases List.mem_cons.1 hb with rfl | hb
        · simp
        · exact List.mem_cons_of_mem _ (ih r' hr b hb)

/-- a linear part never yields a fragment needing bases beyond its ends: every fragment
(forward overhang ++ interior ++ reverse overhang) is a contiguous piece of the sequence -/
theorem cutCore_linear_inside (z : Str) (n : Nat) (d : Bool) (e : Enzyme) (fr : List Fragment)
    (h : cutCore z n false d e = .ok fr) : ∀ f ∈ fr, (f.fwd ++ f.seq ++ f.rev) <:+: z := by
  unfold cutCore at h
  cases ho : overhangsCore z n false e with
  | none => rw [ho] at h; simp at h
  | some O =>
    rw [ho] at h
    dsimp only at h
    have hmain : ∀ fr', (match pairLoop z n (d && !isPalindromic e.site) O with
        | none => Outcome.panic
        | some fragmentSeqs =>
          match allSome (fragmentSeqs.map (toFragment e.ohLen)) with
          | none => Outcome.panic
          | some fr => Outcome.ok fr) = Outcome.ok fr' → ∀ f ∈ fr', (f.fwd ++ f.seq ++ f.rev) <:+: z := by
      intro fr' h
      cases hp : pairLoop z n (d && !isPalindromic e.site) O with
      | none => rw [hp] at h; simp at h
      | some ps =>
        rw [hp] at h
        dsimp only at h
        cases ha : allSome (ps.map (toFragment e.ohLen)) with
        | none => rw [ha] at h; simp at h
        | some fr'' =>
          rw [ha] at h
          have : fr' = fr'' := by simpa using h.symm
          subst this
          intro f hf
          have hm := allSome_mem _ _ ha f hf
          obtain ⟨x, hx, hxf⟩ := List.mem_map.1 hm
          rw [toFragment_concat hxf]
          exact pairLoop_infix z n _ O ps hp x hx
    rcases O with _ | ⟨o, _ | ⟨o2, rest⟩⟩
    · have : fr = [] := by simpa using h.symm
      subst this
      intro f hf; simp at hf
    · cases d with
      | true =>
        have : fr = [] := by simpa using h.symm
        subst this
        intro f hf; simp at hf
      | false =>
        simp only [List.length_singleton, beq_self_eq_true, Bool.not_false, Bool.and_self, if_true] at h
        cases h1 : goSlice z (o.position + (o.length : Int)) (z.length : Int) with
        | none => rw [h1] at h; simp at h
        | some f1 =>
          cases h2 : goSlice z 0 o.position with
          | none => rw [h1, h2] at h; simp at h
          | some f2 =>
            cases h3 : goSlice z o.position (o.position + (o.length : Int)) with
            | none => rw [h1, h2, h3] at h; simp at h
            | some oh =>
              rw [h1, h2, h3] at h
              have : fr = [⟨f1, oh, []⟩, ⟨f2, [], oh⟩] := by simpa using h.symm
              subst this
              obtain ⟨_, _, _, rfl⟩ := goSlice_eq h1
              obtain ⟨_, _, _, rfl⟩ := goSlice_eq h2
              obtain ⟨_, _, _, rfl⟩ := goSlice_eq h3
              intro f hf
              simp only [List.mem_cons, List.not_mem_nil, or_false] at hf
              have e1 : (o.position + (o.length : Int)).toNat = o.position.toNat + o.length := by omega
              rcases hf with rfl | rfl
              · simp only [List.append_nil, e1, Int.toNat_natCast]
                have : List.take (o.position.toNat + o.length - o.position.toNat) (List.drop o.position.toNat z) ++
                    List.take (z.length - (o.position.toNat + o.length)) (List.drop (o.position.toNat + o.length) z) =
                    List.drop o.position.toNat z := by
                  rw [List.take_of_length_le (l := List.drop (o.position.toNat + o.length) z) (by simp)]
                  rw [show o.position.toNat + o.length - o.position.toNat = o.length by omega]
                  rw [← List.drop_drop, List.take_append_drop]
                rw [this]
                exact (List.drop_suffix _ _).isInfix
              · simp only [List.nil_append, e1, Int.toNat_zero, Nat.sub_zero, List.drop_zero]
                have : List.take o.position.toNat z ++
                    List.take (o.position.toNat + o.length - o.position.toNat) (List.drop o.position.toNat z) =
                    List.take (o.position.toNat + o.length) z := by
                  rw [show o.position.toNat + o.length - o.position.toNat = o.length by omega]
                  rw [List.take_add]
                rw [this]
                exact (List.take_prefix _ _).isInfix
    · have hl : (o :: o2 :: rest).length = rest.length + 2 := by simp
      simp only [hl, Bool.not_false, Bool.and_true, Bool.and_false, Bool.false_eq_true, if_false] at h
      have h1 : (rest.length + 2 == 1) = false := by rw [beq_eq_false_iff_ne]; omega
      simp only [h1, Bool.false_and, Bool.false_eq_true, if_false] at h
      rw [if_pos (by omega)] at h
      exact hmain fr h

/-! ### the scan reports its matches from left to right -/

theorem findAllAux_ge (x : Str) (hx : x ≠ []) (cs : Str) (i hold : Nat) (m : Nat × Nat)
    (h : m ∈ findAllAux x i hold cs) : i + hold ≤ m.1 := by
  obtain ⟨a, b⟩ := m
  induction cs generalizing i hold with
  | nil => cases hold <;> simp [findAllAux, hx] at h
  | cons c cs ih =>
    cases hold with
    | succ hold =>
      rw [findAllAux] at h
      have := ih _ _ h
      simp only at this ⊢; omega
    | zero =>
      rw [findAllAux] at h
      split at h
      · rcases List.mem_cons.1 h with h | h
        · have : a = i := by simpa using congrArg Prod.fst h
          simp only; omega
        · have := ih _ _ h
          simp only at this ⊢; omega
      · have := ih _ _ h
        simp only at this ⊢; omega

theorem findAllAux_sorted (x : Str) (hx : x ≠ []) : ∀ (cs : Str) (i hold : Nat),
    (findAllAux x i hold cs).Pairwise (fun m m' => m.1 < m'.1) := by
  intro cs
  induction cs with
  | nil => intro i hold; cases hold <;> simp [findAllAux, hx]
  | cons c cs ih =>
    intro i hold
    cases hold with
    | succ hold => rw [findAllAux]; exact ih _ _
    | zero =>
      rw [findAllAux]
      split
      · refine List.pairwise_cons.2 ⟨?_, ih _ _⟩
        intro m hm
        have := findAllAux_ge x hx cs (i + 1) (x.length - 1) m hm
        simp only; omega
      · exact ih _ _

/-! ### the pairing loop on a linear part: the `break` drops only pairs that emit nothing -/

theorem adjPairs_snd_mem {α : Type} : ∀ (L : List α) (p : α × α), p ∈ adjPairs L → p.1 ∈ L ∧ p.2 ∈ L := by
  intro L
  induction L with
  | nil => intro p h; simp [adjPairs] at h
  | cons a r ih =>
    intro p h
    cases r with
    | nil => simp [adjPairs] at h
    | cons b r =>
      simp only [adjPairs, List.mem_cons] at h
      rcases h with rfl | h
      · simp
      · have := ih p h
        exact ⟨List.mem_cons_of_mem _ this.1, List.mem_cons_of_mem _ this.2⟩

theorem filterMap_pieceOf_all_forward (z : Str) (L : List Overhang) (h : ∀ o ∈ L, o.forward = true) :
    (adjPairs L).filterMap (pieceOf z) = [] := by
  rw [List.filterMap_eq_nil_iff]
  intro p hp
  have := h p.2 (adjPairs_snd_mem L p hp).2
  simp [pieceOf, this]

theorem pairLoop_eq_lin (z : Str) (n : Nat) : ∀ O : List Overhang, O.Pairwise PosLe →
    (∀ o ∈ O, o.position > (n : Int) → o.forward = true) →
    (∀ p ∈ adjPairs O, p.1.forward = true → p.2.forward = false →
      0 ≤ p.1.position ∧ p.1.position ≤ p.2.position ∧ p.2.position ≤ (z.length : Int)) →
    pairLoop z n true O = some ((adjPairs O).filterMap (pieceOf z)) := by
  intro O
  induction O with
  | nil => intro _ _ _; simp [pairLoop, adjPairs]
  | cons cur rest ih =>
    intro hs hbig hv
    cases rest with
    | nil => simp [pairLoop, adjPairs]
    | cons next rest =>
      have hs' := (List.pairwise_cons.1 hs).2
      have hbig' : ∀ o ∈ next :: rest, o.position > (n : Int) → o.forward = true :=
        fun o ho => hbig o (List.mem_cons_of_mem _ ho)
      have hv' : ∀ p ∈ adjPairs (next :: rest), p.1.forward = true → p.2.forward = false →
          0 ≤ p.1.position ∧ p.1.position ≤ p.2.position ∧ p.2.position ≤ (z.length : Int) := by
        intro p hp; exact hv p (by simp [adjPairs, hp])
      have ih' := ih hs' hbig' hv'
      -- after a `break` nothing more would have been emitted
      have htail : next.position > (n : Int) → (adjPairs (next :: rest)).filterMap (pieceOf z) = [] := by
        intro hgt
        apply filterMap_pieceOf_all_forward
        intro o ho
        apply hbig' o ho
        rcases List.mem_cons.1 ho with rfl | ho
        · exact hgt
        · have : PosLe next o := (List.pairwise_cons.1 hs').1 o ho
          unfold PosLe at this; omega
      rw [pairLoop]
      simp only [Bool.not_true, Bool.false_or]
      by_cases hem : (cur.forward && !next.forward) = true
      · have hf : cur.forward = true ∧ next.forward = false := by simpa using hem
        have hvv := hv (cur, next) (by simp [adjPairs]) hf.1 hf.2
        have hsl : goSlice z cur.position next.position =
            some ((z.drop cur.position.toNat).take (next.position.toNat - cur.position.toNat)) := by
          simp only [goSlice]; rw [if_pos hvv]
        simp only [hem, if_true, hsl, Option.map_some]
        by_cases hbr : next.position > (n : Int)
        · simp [hbr, adjPairs, pieceOf, hem, htail hbr]
        · simp only [hbr, if_false, ih', Option.map_some]
          simp [adjPairs, pieceOf, hem]
      · have hem' : (cur.forward && !next.forward) = false := by simpa using hem
        simp only [hem']
        by_cases hbr : next.position > (n : Int)
        · simp [hbr, adjPairs, pieceOf, hem', htail hbr]
        · simp only [hbr, if_false, ih', Option.map_some]
          simp [adjPairs, pieceOf, hem']

/-! ### stability: forward overhangs stay in front of reverse overhangs at the same position -/

/-- the shape of the list handed to the sort: every forward overhang precedes every reverse one -/
def FR (a b : Overhang) : Prop := a.forward = true ∨ b.forward = false

def KeyLe (a b : Overhang) : Prop :=
  a.position < b.position ∨ (a.position = b.position ∧ (a.forward = true ∨ b.forward = false))

/-- order by position, a forward overhang before a reverse overhang at the same position -/
def KeyLt (a b : Overhang) : Prop :=
  a.position < b.position ∨ (a.position = b.position ∧ a.forward = true ∧ b.forward = false)

theorem insertByPos_keySorted (o : Overhang) : ∀ l : List Overhang, l.Pairwise KeyLe → (∀ x ∈ l, FR o x) →
    (insertByPos o l).Pairwise KeyLe := by
  intro l
  induction l with
  | nil => intro _ _; simp [insertByPos]
  | cons x xs ih =>
    intro h hfr
    rw [insertByPos]
    have hx := List.pairwise_cons.1 h
    split
    · rename_i hle
      refine List.pairwise_cons.2 ⟨?_, h⟩
      intro y hy
      have hxy : x.position ≤ y.position := by
        rcases List.mem_cons.1 hy with rfl | hy'
        · exact Int.le_refl _
        · have := hx.1 y hy'; unfold KeyLe at this; omega
      rcases Int.lt_or_eq_of_le (Int.le_trans hle hxy) with hlt | heq
      · exact Or.inl hlt
      · exact Or.inr ⟨heq, hfr y hy⟩
    · rename_i hle
      refine List.pairwise_cons.2 ⟨?_, ih hx.2 (fun y hy => hfr y (List.mem_cons_of_mem _ hy))⟩
      intro y hy
      rcases List.mem_cons.1 ((insertByPos_perm o xs).mem_iff.1 hy) with rfl | hy
      · exact Or.inl (by omega)
      · exact hx.1 y hy

theorem sortByPos_keySorted : ∀ l : List Overhang, l.Pairwise FR → (sortByPos l).Pairwise KeyLe := by
  intro l
  induction l with
  | nil => intro _; simp [sortByPos]
  | cons x xs ih =>
    intro h
    rw [sortByPos]
    have hx := List.pairwise_cons.1 h
    exact insertByPos_keySorted x _ (ih hx.2) (fun y hy => hx.1 y ((sortByPos_perm xs).mem_iff.1 hy))

theorem dedupInto_sublist : ∀ (l acc : List Overhang), ∃ l', dedupInto acc l = acc ++ l' ∧ l'.Sublist l := by
  intro l
  induction l with
  | nil => intro acc; exact ⟨[], by simp [dedupInto], List.Sublist.refl _⟩
  | cons x xs ih =>
    intro acc
    rw [dedupInto]
    split
    · obtain ⟨l', h1, h2⟩ := ih acc
      exact ⟨l', h1, h2.cons x⟩
    · obtain ⟨l', h1, h2⟩ := ih (acc ++ [x])
      exact ⟨x :: l', by rw [h1]; simp, h2.cons_cons x⟩

/-- sorted by key + no two elements with the same position and direction ⇒ strictly sorted by key -/
theorem keyLt_of_keyLe {S : List Overhang} (h1 : S.Pairwise KeyLe) (h2 : S.Nodup)
    (h3 : ∀ a ∈ S, ∀ b ∈ S, a.position = b.position → a.forward = b.forward → a = b) : S.Pairwise KeyLt := by
  have h2' : S.Pairwise (· ≠ ·) := h2
  refine (h1.and h2').imp_of_mem ?_
  intro a b ha hb hab
  obtain ⟨hle, hne⟩ := hab
  rcases hle with hlt | ⟨heq, hf⟩
  · exact Or.inl hlt
  · refine Or.inr ⟨heq, ?_⟩
    by_cases hfa : a.forward = true
    · by_cases hfb : b.forward = true
      · exact absurd (h3 a ha b hb heq (by rw [hfa, hfb])) hne
      · exact ⟨hfa, by simpa using hfb⟩
    · have hfa' : a.forward = false := by simpa using hfa
      rcases hf with h | h
      · exact absurd h hfa
      · exact absurd (h3 a ha b hb heq (by rw [hfa', h])) hne

end PolyVerif.Digest
