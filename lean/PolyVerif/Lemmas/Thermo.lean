import Mathlib.Analysis.SpecialFunctions.Log.Basic
import PolyVerif.Model.Primers
import PolyVerif.Spec.NearestNeighbor
/-
Helper lemmas for C19: the model of poly/primers instantiated at the reals, the regenerated
tables against the typed duplex parameters, and the arithmetic of the melting-temperature formula.
-/
namespace PolyVerif.Lemmas.Thermo
open PolyVerif PolyVerif.Primers PolyVerif.Transform PolyVerif.Spec

/-- the exact instance: real numbers with the natural logarithm -/
noncomputable def realNum : Num ℝ := { ofInt := fun z => (z : ℝ), log := Real.log }

/-- the letters A/C/G/T in either case -/
def acgtLetters : List Char := ['A', 'C', 'G', 'T', 'a', 'c', 'g', 't']

/-- an oligonucleotide over A/C/G/T, either case -/
def Acgt (s : Str) : Prop := ∀ c ∈ s, c ∈ acgtLetters

instance (s : Str) : Decidable (Acgt s) := by unfold Acgt; infer_instance

theorem mem_allBases (x : Base) : x ∈ allBases := by cases x <;> decide

/-! ### regenerated tables = typed parameters -/

theorem letter_base : ∀ c ∈ acgtLetters, ∃ x ∈ allBases, NN.baseOf? c = some x ∧ c.toUpper = x.toChar := by decide

theorem letter_case : ∀ c ∈ acgtLetters, c.toUpper.toUpper = c.toUpper ∧ c.toLower.toUpper = c.toUpper
    ∧ c.toUpper ∈ acgtLetters ∧ c.toLower ∈ acgtLetters := by decide

theorem tbl_pairs : ∀ x ∈ allBases, ∀ y ∈ allBases, nnLookup x.toChar y.toChar = NN.step x y := by decide

theorem tbl_terminal : ∀ x ∈ allBases,
    terminalLookup x.toChar = if x = .A ∨ x = .T then some NN.terminalAT else none := by decide

theorem tbl_compl : ∀ x ∈ allBases, complementBase x.toChar = x.compl.toChar := by decide

theorem step_direct_or_mirror : ∀ x ∈ allBases, ∀ y ∈ allBases,
    NN.duplexSteps.lookup (x, y) = some (NN.step x y) ∨
    (NN.duplexSteps.lookup (x, y) = none ∧ NN.duplexSteps.lookup (y.compl, x.compl) = some (NN.step x y)) := by decide

theorem step_bounds : ∀ x ∈ allBases, ∀ y ∈ allBases, (NN.step x y).1 ≤ -72 ∧ (NN.step x y).2 ≤ -199 := by decide

theorem toChar_injective : ∀ x y : Base, x.toChar = y.toChar → x = y := by
  intro x y; cases x <;> cases y <;> decide

/-! ### an A/C/G/T string as a list of bases -/

theorem bases_of_acgt : ∀ {s : Str}, Acgt s →
    ∃ b, NN.basesOf? s = some b ∧ upper s = b.map Base.toChar ∧ b.length = s.length
  | [], _ => ⟨[], rfl, rfl, rfl⟩
  | c :: cs, h => by
    obtain ⟨b, hb, hu, hl⟩ := bases_of_acgt (s := cs) (fun x hx => h x (List.mem_cons_of_mem _ hx))
    obtain ⟨x, -, hx, hxu⟩ := letter_base c (h c (List.mem_cons_self ..))
    refine ⟨x :: b, ?_, ?_, ?_⟩
    · simp only [NN.basesOf?, hx, hb]
    · have : upper (c :: cs) = c.toUpper :: upper cs := rfl
      rw [this, hu, hxu]; rfl
    · simp [hl]

theorem acgt_upper {s : Str} (h : Acgt s) : Acgt (upper s) := by
  intro c hc
  obtain ⟨d, hd, rfl⟩ := List.mem_map.1 hc
  exact (letter_case d (h d hd)).2.2.1

theorem acgt_lower {s : Str} (h : Acgt s) : Acgt (s.map Char.toLower) := by
  intro c hc
  obtain ⟨d, hd, rfl⟩ := List.mem_map.1 hc
  exact (letter_case d (h d hd)).2.2.2

theorem upper_upper {s : Str} (h : Acgt s) : upper (upper s) = upper s := by
  unfold upper
  rw [List.map_map]
  exact List.map_congr_left fun c hc => (letter_case c (h c hc)).1

theorem upper_lower {s : Str} (h : Acgt s) : upper (s.map Char.toLower) = upper s := by
  unfold upper
  rw [List.map_map]
  exact List.map_congr_left fun c hc => (letter_case c (h c hc)).2.1

/-! ### self-complementarity -/

theorem revComp_bases (b : List Base) :
    revComp (b.map Base.toChar) = (b.reverse.map Base.compl).map Base.toChar := by
  unfold revComp complement
  rw [List.map_map, List.map_map, ← List.map_reverse]
  exact List.map_congr_left fun x _ => tbl_compl x (mem_allBases x)

theorem map_toChar_injective {a b : List Base} (h : a.map Base.toChar = b.map Base.toChar) : a = b := by
  induction a generalizing b with
  | nil => cases b with
    | nil => rfl
    | cons y ys => simp at h
  | cons x xs ih => cases b with
    | nil => simp at h
    | cons y ys =>
      simp only [List.map_cons, List.cons.injEq] at h
      rw [toChar_injective x y h.1, ih h.2]

theorem selfComp_model_iff (b : List Base) :
    (b.map Base.toChar == revComp (b.map Base.toChar)) = true ↔ b = b.reverse.map Base.compl := by
  rw [revComp_bases, beq_iff_eq]
  exact ⟨map_toChar_injective, fun h => congrArg _ h⟩

/-- the spec's position-wise pairing is the list equation `b = reverse-complement b` -/
theorem selfComp_spec_iff (b : List Base) :
    NN.selfComplementary b = true ↔ b = b.reverse.map Base.compl := by
  unfold NN.selfComplementary
  rw [List.all_eq_true]
  constructor
  · intro h
    apply List.ext_getElem?
    intro i
    by_cases hi : i < b.length
    · have := h i (List.mem_range.2 hi)
      rw [beq_iff_eq] at this
      rw [this, List.getElem?_map, List.getElem?_reverse hi]
    · have h1 : b.length ≤ i := Nat.le_of_not_lt hi
      rw [List.getElem?_eq_none h1, List.getElem?_eq_none (by simpa using h1)]
  · intro h i hi
    have hi' := List.mem_range.1 hi
    rw [beq_iff_eq]
    conv => lhs; rw [h]
    rw [List.getElem?_map, List.getElem?_reverse hi']

theorem selfComp_model_spec (b : List Base) :
    (b.map Base.toChar == revComp (b.map Base.toChar)) = NN.selfComplementary b := by
  rw [Bool.eq_iff_iff, selfComp_model_iff, selfComp_spec_iff]

/-! ### the neighbour loop -/

/-- the loop's own recursion, in exact tenths -/
def pairSum : List Base → Int × Int
  | x :: y :: rest => ((NN.step x y).1 + (pairSum (y :: rest)).1, (NN.step x y).2 + (pairSum (y :: rest)).2)
  | _ => (0, 0)

theorem tenths_real (t : Int) : realNum.tenths t = (t : ℝ) / 10 := by
  simp [Num.tenths, Num.dec, realNum]

/-- over the reals the loop adds `pairSum` to the accumulators -/
theorem nnLoop_real : ∀ (b : List Base) (h s : ℝ),
    nnLoop realNum (b.map Base.toChar) (h, s) = (h + ((pairSum b).1 : ℝ) / 10, s + ((pairSum b).2 : ℝ) / 10)
  | [], h, s => by simp [nnLoop, pairSum]
  | [x], h, s => by simp [nnLoop, pairSum]
  | x :: y :: rest, h, s => by
    have ih := nnLoop_real (y :: rest) (h + realNum.tenths (nnLookup x.toChar y.toChar).1)
      (s + realNum.tenths (nnLookup x.toChar y.toChar).2)
    simp only [List.map_cons] at ih ⊢
    rw [nnLoop, ih, tbl_pairs x (mem_allBases x) y (mem_allBases y), tenths_real, tenths_real]
    simp only [pairSum, Int.cast_add]
    refine Prod.ext ?_ ?_ <;> simp only <;> ring

/-- no off-by-one: the loop's sum is the indexed sum over `i < N-1` of the spec -/
theorem pairSum_eq_stepSum : ∀ b : List Base, pairSum b = NN.stepSum b
  | [] => by simp [pairSum, NN.stepSum]
  | [x] => by simp [pairSum, NN.stepSum]
  | x :: y :: rest => by
    have ih := pairSum_eq_stepSum (y :: rest)
    simp only [pairSum, ih, NN.stepSum, List.length_cons, Nat.add_sub_cancel]
    rw [show rest.length + 1 = (rest.length) + 1 from rfl, List.range_succ_eq_map]
    simp [List.map_map, Function.comp_def]

theorem pairSum_bounds : ∀ b : List Base,
    (pairSum b).1 ≤ -72 * ((b.length : Int) - 1) ∧ (pairSum b).2 ≤ -199 * ((b.length : Int) - 1)
  | [] => by simp [pairSum]
  | [x] => by simp [pairSum]
  | x :: y :: rest => by
    have ih := pairSum_bounds (y :: rest)
    have hb := step_bounds x (mem_allBases x) y (mem_allBases y)
    simp only [pairSum, List.length_cons] at ih ⊢
    push_cast at ih ⊢
    constructor <;> omega

/-! ### the exact formula -/

/-- enthalpy, kcal/mol -/
noncomputable def exactDH (b : List Base) : ℝ := (NN.dH10 b : ℝ) / 10

/-- entropy with the salt correction, cal/(mol·K) -/
noncomputable def exactDS (b : List Base) (na mg : ℝ) : ℝ :=
  (NN.dS10 b : ℝ) / 10 + 0.368 * ((b.length : ℝ) - 1) * Real.log (na + 140 * mg)

/-- the factor `f`: 1 for a self-complementary oligo, else 4 -/
noncomputable def exactF (b : List Base) : ℝ := ((NN.symmetryFactor b : Int) : ℝ)

/-- the denominator `dS + R ln(C/f)` -/
noncomputable def exactDen (b : List Base) (c na mg : ℝ) : ℝ :=
  exactDS b na mg + 1.9872 * Real.log (c / exactF b)

/-- melting temperature, °C -/
noncomputable def exactTm (b : List Base) (c na mg : ℝ) : ℝ :=
  1000 * exactDH b / exactDen b c na mg - 273.15

theorem tbl_init : Gen.nnInit = NN.initiation := by decide
theorem tbl_symmetry : Gen.nnSymmetry = NN.symmetry := by decide

theorem endsInAT_of_last {b : List Base} {l : Base} (h : b.getLast? = some l) :
    NN.endsInAT b = decide (l = .A ∨ l = .T) := by
  unfold NN.endsInAT; rw [h]; cases l <;> rfl

theorem coreUpper_real (b : List Base) (hb : b ≠ []) (na mg : ℝ) :
    coreUpper realNum (b.map Base.toChar) na mg
      = .ok { dH := exactDH b, dS := exactDS b na mg, symmetryFactor := exactF b } := by
  obtain ⟨l, hl⟩ : ∃ l, b.getLast? = some l := ⟨b.getLast hb, List.getLast?_eq_some_getLast hb⟩
  have hE := endsInAT_of_last hl
  unfold coreUpper
  simp only [List.getLast?_map, hl, Option.map_some, selfComp_model_spec, nnLoop_real, pairSum_eq_stepSum,
    tbl_terminal l (mem_allBases l), tbl_init, tbl_symmetry, tenths_real, List.length_map]
  simp only [exactDH, exactDS, exactF, NN.dH10, NN.dS10, NN.symmetryFactor, hE, NN.cond,
    NN.initiation, NN.symmetry, NN.terminalAT, Num.dec, realNum]
  rw [show mg * (((140 : Int) : ℝ)) = 140 * mg by push_cast; ring]
  cases NN.selfComplementary b <;> cases l <;> simp <;> (refine ⟨?_, ?_⟩ <;> norm_num <;> ring)

/-! ### signs -/

theorem dH10_le (b : List Base) : NN.dH10 b ≤ 24 - 72 * ((b.length : Int) - 1) := by
  have h := (pairSum_bounds b).1
  rw [pairSum_eq_stepSum] at h
  unfold NN.dH10 NN.cond NN.initiation NN.symmetry NN.terminalAT
  cases NN.selfComplementary b <;> cases NN.endsInAT b <;> simp <;> omega

theorem dS10_le (b : List Base) : NN.dS10 b ≤ 12 - 199 * ((b.length : Int) - 1) := by
  have h := (pairSum_bounds b).2
  rw [pairSum_eq_stepSum] at h
  unfold NN.dS10 NN.cond NN.initiation NN.symmetry NN.terminalAT
  cases NN.selfComplementary b <;> cases NN.endsInAT b <;> simp <;> omega

/-- the enthalpy of every oligo with at least one neighbour pair is negative -/
theorem exactDH_neg {b : List Base} (hl : 2 ≤ b.length) : exactDH b < 0 := by
  have h := dH10_le b
  have h2 : NN.dH10 b < 0 := by omega
  unfold exactDH
  have : ((NN.dH10 b : Int) : ℝ) < 0 := by exact_mod_cast h2
  linarith

theorem exactF_pos (b : List Base) : 0 < exactF b ∧ 1 ≤ exactF b := by
  unfold exactF NN.symmetryFactor
  cases NN.selfComplementary b <;> simp

/-- the entropy including the salt correction is negative whenever `0 < Na + 140 Mg ≤ 15` -/
theorem exactDS_neg {b : List Base} (hl : 2 ≤ b.length) {na mg : ℝ} (h0 : 0 < na + 140 * mg)
    (h15 : na + 140 * mg ≤ 15) : exactDS b na mg < 0 := by
  have h := dS10_le b
  have hlog : Real.log (na + 140 * mg) ≤ 14 := by
    have := Real.log_le_sub_one_of_pos h0
    linarith
  have hn : (1 : ℝ) ≤ (b.length : ℝ) - 1 := by
    have : (2 : ℝ) ≤ (b.length : ℝ) := by exact_mod_cast hl
    linarith
  have hS : ((NN.dS10 b : Int) : ℝ) ≤ 12 - 199 * ((b.length : ℝ) - 1) := by exact_mod_cast h
  unfold exactDS
  have hmul : ((b.length : ℝ) - 1) * Real.log (na + 140 * mg) ≤ ((b.length : ℝ) - 1) * 14 :=
    mul_le_mul_of_nonneg_left hlog (by linarith)
  nlinarith

/-- `R ln(C/f) < 0` for `0 < C ≤ 1 mM` -/
theorem conc_term_neg (b : List Base) {c : ℝ} (h0 : 0 < c) (h1 : c ≤ 1e-3) :
    1.9872 * Real.log (c / exactF b) < 0 := by
  obtain ⟨hf, hf1⟩ := exactF_pos b
  have hq : c / exactF b < 1 := by
    rw [div_lt_one hf]
    have : c < 1 := by norm_num at h1; linarith
    linarith
  have := Real.log_neg (div_pos h0 hf) hq
  nlinarith

/-- the "duplex-forming regime" holds throughout the property's ranges -/
theorem exactDen_neg {b : List Base} (hl : 2 ≤ b.length) {c na mg : ℝ} (hc0 : 0 < c) (hc1 : c ≤ 1e-3)
    (h0 : 0 < na + 140 * mg) (h15 : na + 140 * mg ≤ 15) : exactDen b c na mg < 0 := by
  unfold exactDen
  have := exactDS_neg hl h0 h15
  have := conc_term_neg b hc0 hc1
  linarith

/-- `h/D` grows when a negative denominator grows, for negative `h` -/
theorem tm_lt_of_den_lt {h D₁ D₂ : ℝ} (hh : h < 0) (h12 : D₁ < D₂) (h2 : D₂ < 0) :
    1000 * h / D₁ - 273.15 < 1000 * h / D₂ - 273.15 := by
  have h1 : D₁ < 0 := lt_trans h12 h2
  have hinv : D₂⁻¹ < D₁⁻¹ := (inv_lt_inv_of_neg h2 h1).2 h12
  have hneg : 1000 * h < 0 := by linarith
  have := mul_lt_mul_of_neg_left hinv hneg
  rw [div_eq_mul_inv, div_eq_mul_inv]
  linarith

theorem exactTm_mono_oligo {b : List Base} (hl : 2 ≤ b.length) {c₁ c₂ na mg : ℝ}
    (hc₁ : 0 < c₁) (hc : c₁ < c₂) (hc₂ : c₂ ≤ 1e-3) (h0 : 0 < na + 140 * mg) (h15 : na + 140 * mg ≤ 15) :
    exactTm b c₁ na mg < exactTm b c₂ na mg := by
  unfold exactTm
  apply tm_lt_of_den_lt (exactDH_neg hl) _ (exactDen_neg hl (lt_trans hc₁ hc) hc₂ h0 h15)
  unfold exactDen
  obtain ⟨hf, -⟩ := exactF_pos b
  have := Real.log_lt_log (div_pos hc₁ hf) (div_lt_div_of_pos_right hc hf)
  linarith

theorem exactDS_mono_salt {b : List Base} (hl : 2 ≤ b.length) {na₁ mg₁ na₂ mg₂ : ℝ}
    (h0 : 0 < na₁ + 140 * mg₁) (h : na₁ + 140 * mg₁ < na₂ + 140 * mg₂) :
    exactDS b na₁ mg₁ < exactDS b na₂ mg₂ := by
  unfold exactDS
  have hlog := Real.log_lt_log h0 h
  have hn : (1 : ℝ) ≤ (b.length : ℝ) - 1 := by
    have : (2 : ℝ) ≤ (b.length : ℝ) := by exact_mod_cast hl
    linarith
  have : 0 < 0.368 * ((b.length : ℝ) - 1) := by norm_num; linarith
  nlinarith

theorem exactTm_mono_salt {b : List Base} (hl : 2 ≤ b.length) {c na₁ mg₁ na₂ mg₂ : ℝ}
    (hc0 : 0 < c) (hc1 : c ≤ 1e-3) (h0 : 0 < na₁ + 140 * mg₁) (h : na₁ + 140 * mg₁ < na₂ + 140 * mg₂)
    (h15 : na₂ + 140 * mg₂ ≤ 15) : exactTm b c na₁ mg₁ < exactTm b c na₂ mg₂ := by
  unfold exactTm
  apply tm_lt_of_den_lt (exactDH_neg hl) _ (exactDen_neg hl hc0 hc1 (lt_trans h0 h) h15)
  unfold exactDen
  have := exactDS_mono_salt hl h0 h
  linarith

/-! ### lemmas about the generic model (any number type, in particular binary64) -/

section generic
variable {α : Type} [Add α] [Sub α] [Mul α] [Div α]

theorem Outcome.map_map {β γ δ : Type} (f : β → γ) (g : γ → δ) (o : Outcome β) :
    (o.map f).map g = o.map (g ∘ f) := by cases o <;> rfl

omit [Sub α] [Mul α] in
/-- the enthalpy accumulator of the loop never reads the entropy accumulator -/
theorem nnLoop_fst (n : Num α) : ∀ (s : Str) (h s₁ s₂ : α), (nnLoop n s (h, s₁)).1 = (nnLoop n s (h, s₂)).1
  | [], _, _, _ => rfl
  | [_], _, _, _ => rfl
  | x :: y :: rest, h, s₁, s₂ => by
    simp only [nnLoop]
    exact nnLoop_fst n (y :: rest) _ _ _

omit [Sub α] in
theorem coreUpper_dH_indep (n : Num α) (u : Str) (na mg na' mg' : α) :
    (coreUpper n u na mg).map (·.dH) = (coreUpper n u na' mg').map (·.dH) := by
  unfold coreUpper
  cases u.getLast? with
  | none => rfl
  | some l => simp only [Outcome.map]; exact congrArg _ (nnLoop_fst n u _ _ _)

theorem santaLucia_dH (n : Num α) (s : Str) (c na mg : α) :
    (santaLucia n s c na mg).map (·.2.1) = (coreUpper n (upper s) na mg).map (·.dH) := by
  unfold santaLucia santaLuciaCore
  rw [Outcome.map_map]; rfl

theorem santaLucia_congr_upper (n : Num α) {s t : Str} (h : upper s = upper t) :
    santaLucia n s = santaLucia n t := by
  funext c na mg
  unfold santaLucia santaLuciaCore
  rw [h]

end generic

/-! ### weak monotonicity from monotone, NaN-propagating arithmetic (the argument for binary64)

`Ok a := a ≤ a` — for binary64 this says "`a` is not NaN" (every other value, ±∞ included, is `≤` itself).
`MonoArith n` lists the facts the argument uses, each in a form that is TRUE of IEEE-754
round-to-nearest arithmetic with a sound logarithm, NaN and infinities included:

* NaN propagation (`ok_*`): an operation whose result is not NaN had no NaN operand;
* monotone rounding: an operation preserves `≤` in the stated argument(s) WHENEVER BOTH RESULTS ARE
  NOT NaN (this excludes exactly `∞ − ∞`, `0·∞`, `∞/∞`, `0/0`, where IEEE has no order to preserve).

They remain ASSUMPTIONS for the arithmetic the code runs in: Lean's `Float` is opaque, so none of them
can be proved for it, and Go's `math.Log` is not documented to be monotone.  For `ℝ` they are theorems
(`monoArith_real`).  An earlier version quantified the laws over all values without the `Ok` guards;
that structure is false for binary64 (reviewer, round 2) and has been replaced by this one. -/

section mono
variable {α : Type} [Add α] [Sub α] [Mul α] [Div α] [LE α] [LT α]

/-- "defined": for binary64, not NaN -/
def Ok (a : α) : Prop := a ≤ a

structure MonoArith (n : Num α) : Prop where
  le_trans : ∀ {a b c : α}, a ≤ b → b ≤ c → a ≤ c
  ok_add : ∀ {a b : α}, Ok (a + b) → Ok a ∧ Ok b
  ok_sub : ∀ {a b : α}, Ok (a - b) → Ok a ∧ Ok b
  ok_mul : ∀ {a b : α}, Ok (a * b) → Ok a ∧ Ok b
  ok_div : ∀ {a b : α}, Ok (a / b) → Ok a ∧ Ok b
  ok_log : ∀ {a : α}, Ok (n.log a) → Ok a
  add_le_add : ∀ {a a' b b' : α}, a ≤ a' → b ≤ b' → Ok (a + b) → Ok (a' + b') → a + b ≤ a' + b'
  sub_le_sub_right : ∀ {a b : α} (c : α), a ≤ b → Ok (a - c) → Ok (b - c) → a - c ≤ b - c
  mul_le_mul_left : ∀ {a b c : α}, n.ofInt 0 ≤ c → a ≤ b → Ok (c * a) → Ok (c * b) → c * a ≤ c * b
  mul_le_mul_right : ∀ {a b c : α}, n.ofInt 0 ≤ c → a ≤ b → Ok (a * c) → Ok (b * c) → a * c ≤ b * c
  div_le_div_right : ∀ {a b c : α}, n.ofInt 0 < c → a ≤ b → Ok (a / c) → Ok (b / c) → a / c ≤ b / c
  /-- a non-positive numerator over negative denominators: `a/D` grows with `D` -/
  div_le_div_left : ∀ {a d d' : α}, a ≤ n.ofInt 0 → d ≤ d' → d' < n.ofInt 0 → Ok (a / d) → Ok (a / d') →
    a / d ≤ a / d'
  log_mono : ∀ {a b : α}, n.ofInt 0 < a → a ≤ b → Ok (n.log a) → Ok (n.log b) → n.log a ≤ n.log b

/-- a defined final entropy accumulator had a defined initial one -/
theorem nnLoop_ok_back {n : Num α} (A : MonoArith n) : ∀ (u : Str) (h s : α),
    Ok (nnLoop n u (h, s)).2 → Ok s
  | [], _, _, hs => hs
  | [_], _, _, hs => hs
  | x :: y :: rest, h, s, hs => by
    simp only [nnLoop] at hs
    exact (A.ok_add (nnLoop_ok_back A (y :: rest) _ _ hs)).1

theorem nnLoop_mono {n : Num α} (A : MonoArith n) : ∀ (u : Str) (h s₁ s₂ : α), s₁ ≤ s₂ →
    Ok (nnLoop n u (h, s₁)).2 → Ok (nnLoop n u (h, s₂)).2 →
    (nnLoop n u (h, s₁)).1 = (nnLoop n u (h, s₂)).1 ∧ (nnLoop n u (h, s₁)).2 ≤ (nnLoop n u (h, s₂)).2
  | [], _, _, _, hs, _, _ => ⟨rfl, hs⟩
  | [_], _, _, _, hs, _, _ => ⟨rfl, hs⟩
  | x :: y :: rest, h, s₁, s₂, hs, o₁, o₂ => by
    simp only [nnLoop] at o₁ o₂ ⊢
    have b₁ := nnLoop_ok_back A (y :: rest) _ _ o₁
    have b₂ := nnLoop_ok_back A (y :: rest) _ _ o₂
    exact nnLoop_mono A (y :: rest) _ _ _ (A.add_le_add hs (A.ok_add b₁).2 b₁ b₂) o₁ o₂

/-- The salt step and the loop: a larger salt effect gives the same dH and a dS at least as large
(both entropies defined). -/
theorem coreUpper_mono {n : Num α} (A : MonoArith n) (u : Str) {na na' mg mg' : α}
    (hna : na ≤ na') (hmg : mg ≤ mg') (h140 : n.ofInt 0 ≤ n.ofInt 140)
    (hK : n.ofInt 0 ≤ n.dec 368 3 * n.ofInt ((u.length : Int) - 1))
    (hsalt : n.ofInt 0 < na + mg * n.ofInt 140) {k k' : Core α}
    (hk : coreUpper n u na mg = .ok k) (hk' : coreUpper n u na' mg' = .ok k')
    (ho : Ok k.dS) (ho' : Ok k'.dS) :
    k.dH = k'.dH ∧ k.symmetryFactor = k'.symmetryFactor ∧ k.dS ≤ k'.dS := by
  unfold coreUpper at hk hk'
  cases hl : u.getLast? with
  | none => rw [hl] at hk; cases hk
  | some l =>
    rw [hl] at hk hk'
    simp only [Outcome.ok.injEq] at hk hk'
    subst hk; subst hk'
    simp only at ho ho'
    -- backwards: every intermediate of the two evaluations is defined
    have a₁ := nnLoop_ok_back A u _ _ ho
    have a₂ := nnLoop_ok_back A u _ _ ho'
    have m₁ := (A.ok_add a₁).2
    have m₂ := (A.ok_add a₂).2
    have l₁ := (A.ok_mul m₁).2
    have l₂ := (A.ok_mul m₂).2
    have s₁ := A.ok_log l₁
    have s₂ := A.ok_log l₂
    -- forwards: order is preserved step by step
    have hs : na + mg * n.ofInt 140 ≤ na' + mg' * n.ofInt 140 :=
      A.add_le_add hna (A.mul_le_mul_right h140 hmg (A.ok_add s₁).2 (A.ok_add s₂).2) s₁ s₂
    have hlog := A.log_mono hsalt hs l₁ l₂
    have hterm := A.mul_le_mul_left hK hlog m₁ m₂
    obtain ⟨e1, e2⟩ := nnLoop_mono A u _ _ _ (A.add_le_add (A.ok_add a₁).1 hterm a₁ a₂) ho ho'
    exact ⟨e1, rfl, e2⟩

/-- **Weak monotonicity of the model in all three concentrations at once**, for any arithmetic with
monotone, NaN-propagating operations, when both reported temperatures are defined (`Ok`: not NaN)
and the COMPUTED values have the signs of the regime (all decidable on concrete binary64 inputs;
over ℝ they are `exactDH_neg`, `exactDen_neg` …). -/
theorem santaLucia_weak_mono {n : Num α} (A : MonoArith n) (s : Str) {c c' na na' mg mg' : α}
    (hc : c ≤ c') (hna : na ≤ na') (hmg : mg ≤ mg')
    (h140 : n.ofInt 0 ≤ n.ofInt 140) (hR : n.ofInt 0 ≤ n.dec 19872 4)
    (hK : n.ofInt 0 ≤ n.dec 368 3 * n.ofInt (((upper s).length : Int) - 1))
    (hsalt : n.ofInt 0 < na + mg * n.ofInt 140)
    {k k' : Core α} (hk : santaLuciaCore n s na mg = .ok k) (hk' : santaLuciaCore n s na' mg' = .ok k')
    (hf : n.ofInt 0 < k.symmetryFactor) (hcf : n.ofInt 0 < c / k.symmetryFactor)
    (hH : k.dH * n.ofInt 1000 ≤ n.ofInt 0)
    (hD : k'.dS + n.dec 19872 4 * n.log (c' / k'.symmetryFactor) < n.ofInt 0)
    {t h S t' h' S' : α} (hr : santaLucia n s c na mg = .ok (t, h, S))
    (hr' : santaLucia n s c' na' mg' = .ok (t', h', S')) (ot : Ok t) (ot' : Ok t') :
    h = h' ∧ S ≤ S' ∧ t ≤ t' := by
  unfold santaLuciaCore at hk hk'
  unfold santaLucia santaLuciaCore at hr hr'
  rw [hk] at hr; rw [hk'] at hr'
  simp only [Outcome.map, Outcome.ok.injEq, Prod.mk.injEq] at hr hr'
  obtain ⟨rfl, rfl, rfl⟩ := hr
  obtain ⟨rfl, rfl, rfl⟩ := hr'
  -- backwards from the two defined temperatures
  have q₁ := (A.ok_sub ot).1
  have q₂ := (A.ok_sub ot').1
  have d₁ := (A.ok_div q₁).2
  have d₂ := (A.ok_div q₂).2
  obtain ⟨eH, eF, eS⟩ := coreUpper_mono A (upper s) hna hmg h140 hK hsalt hk hk' (A.ok_add d₁).1 (A.ok_add d₂).1
  refine ⟨eH, eS, ?_⟩
  rw [← eF] at hD d₂ q₂ ot'
  rw [← eH] at q₂ ot'
  rw [← eF, ← eH]
  have r₁ := (A.ok_add d₁).2
  have r₂ := (A.ok_add d₂).2
  have g₁ := (A.ok_mul r₁).2
  have g₂ := (A.ok_mul r₂).2
  have h1 : c / k.symmetryFactor ≤ c' / k.symmetryFactor :=
    A.div_le_div_right hf hc (A.ok_log g₁) (A.ok_log g₂)
  have h2 := A.mul_le_mul_left hR (A.log_mono hcf h1 g₁ g₂) r₁ r₂
  have h3 : k.dS + n.dec 19872 4 * n.log (c / k.symmetryFactor)
      ≤ k'.dS + n.dec 19872 4 * n.log (c' / k.symmetryFactor) := A.add_le_add eS h2 d₁ d₂
  exact A.sub_le_sub_right _ (A.div_le_div_left hH h3 hD q₁ q₂) ot ot'

end mono

/-- the assumptions hold for exact real arithmetic (consistency of `MonoArith`) -/
theorem monoArith_real : MonoArith realNum where
  le_trans := le_trans
  ok_add := fun _ => ⟨le_refl _, le_refl _⟩
  ok_sub := fun _ => ⟨le_refl _, le_refl _⟩
  ok_mul := fun _ => ⟨le_refl _, le_refl _⟩
  ok_div := fun _ => ⟨le_refl _, le_refl _⟩
  ok_log := fun _ => le_refl _
  add_le_add := fun h1 h2 _ _ => by linarith
  sub_le_sub_right := fun c h _ _ => by linarith
  mul_le_mul_left := fun {a b c} hc h _ _ => by
    have : (0 : ℝ) ≤ c := by simpa [realNum] using hc
    exact mul_le_mul_of_nonneg_left h this
  mul_le_mul_right := fun {a b c} hc h _ _ => by
    have : (0 : ℝ) ≤ c := by simpa [realNum] using hc
    exact mul_le_mul_of_nonneg_right h this
  div_le_div_right := fun {a b c} hc h _ _ => by
    have : (0 : ℝ) < c := by simpa [realNum] using hc
    exact div_le_div_of_nonneg_right h this.le
  div_le_div_left := fun {a d d'} ha h hd' _ _ => by
    have ha' : a ≤ (0 : ℝ) := by simpa [realNum] using ha
    have hd0 : d' < (0 : ℝ) := by simpa [realNum] using hd'
    have hd : d < 0 := lt_of_le_of_lt h hd0
    rw [div_eq_mul_inv, div_eq_mul_inv]
    have hinv : d'⁻¹ ≤ d⁻¹ := by
      rcases eq_or_lt_of_le h with rfl | hlt
      · exact le_refl _
      · exact ((inv_lt_inv_of_neg hd0 hd).2 hlt).le
    exact mul_le_mul_of_nonpos_left hinv ha'
  log_mono := fun {a b} ha h _ _ => by
    have : (0 : ℝ) < a := by simpa [realNum] using ha
    exact Real.log_le_log this h

end PolyVerif.Lemmas.Thermo
