import PolyVerif.Model.LineText
/-
Lemmas about the Go library models of `Model/LineText.lean` (used by Props/C14 and Props/C16).
-/
namespace PolyVerif.LineText
open PolyVerif

/-! ### split -/

theorem splitGo_nosep {sep : Char} : ∀ {l : Str}, sep ∉ l → splitGo sep l = (l, [])
  | [], _ => rfl
  | c :: cs, h => by
    have hc : c ≠ sep := fun e => h (by simp [e])
    have ih := splitGo_nosep (sep := sep) (l := cs) (fun m => h (by simp [m]))
    simp only [splitGo, List.foldr_cons] at *
    simp [ih, splitStep, hc]

theorem splitGo_append {sep : Char} (rest : Str) : ∀ {l : Str}, sep ∉ l →
    splitGo sep (l ++ sep :: rest) = (l, (splitGo sep rest).1 :: (splitGo sep rest).2)
  | [], _ => by simp [splitGo, splitStep]
  | c :: cs, h => by
    have hc : c ≠ sep := fun e => h (by simp [e])
    have ih := splitGo_append (sep := sep) rest (l := cs) (fun m => h (by simp [m]))
    simp only [splitGo, List.cons_append, List.foldr_cons] at *
    simp [ih, splitStep, hc]

theorem split_nosep {sep : Char} {l : Str} (h : sep ∉ l) : split sep l = [l] := by
  simp [split, splitGo_nosep h]

/-- the first field ends at the first separator -/
theorem split_cons_line {sep : Char} {l : Str} (rest : Str) (h : sep ∉ l) :
    split sep (l ++ sep :: rest) = l :: split sep rest := by
  simp [split, splitGo_append rest h]

theorem split_ne_nil (sep : Char) (s : Str) : split sep s ≠ [] := by simp [split]

theorem split_joinSep {sep : Char} : ∀ {ls : List Str}, ls ≠ [] → (∀ l ∈ ls, sep ∉ l) →
    split sep (joinSep sep ls) = ls
  | [], h, _ => absurd rfl h
  | [l], _, h => by simpa [joinSep] using split_nosep (h l (by simp))
  | l :: l' :: ls, _, h => by
    have ih := split_joinSep (sep := sep) (ls := l' :: ls) (by simp) (fun x hx => h x (by simp [hx]))
    simp only [joinSep]
    rw [split_cons_line _ (h l (by simp)), ih]

theorem split_joinSep_sep {sep : Char} : ∀ {ls : List Str}, ls ≠ [] → (∀ l ∈ ls, sep ∉ l) →
    split sep (joinSep sep ls ++ [sep]) = ls ++ [[]]
  | [], h, _ => absurd rfl h
  | [l], _, h => by
    simp only [joinSep]
    rw [split_cons_line _ (h l (by simp))]
    simp [split, splitGo]
  | l :: l' :: ls, _, h => by
    have ih := split_joinSep_sep (sep := sep) (ls := l' :: ls) (by simp) (fun x hx => h x (by simp [hx]))
    simp only [joinSep, List.cons_append, List.append_assoc]
    rw [split_cons_line _ (h l (by simp))]
    simp only [List.cons_append] at ih
    rw [ih]

/-- lines of a text: every field is free of the separator and made of letters of the text -/
theorem splitGo_mem {sep : Char} : ∀ (t : Str), (∀ c ∈ (splitGo sep t).1, c ∈ t ∧ c ≠ sep) ∧
    (∀ l ∈ (splitGo sep t).2, ∀ c ∈ l, c ∈ t ∧ c ≠ sep)
  | [] => by simp [splitGo]
  | c :: cs => by
    have ih := splitGo_mem (sep := sep) cs
    simp only [splitGo, List.foldr_cons] at *
    by_cases hc : c = sep
    · subst hc
      simp only [splitStep, if_true]
      refine ⟨by simp, ?_⟩
      intro l hl x hx
      rcases List.mem_cons.1 hl with rfl | hl
      · exact ⟨List.mem_cons_of_mem _ (ih.1 x hx).1, (ih.1 x hx).2⟩
      · exact ⟨List.mem_cons_of_mem _ (ih.2 l hl x hx).1, (ih.2 l hl x hx).2⟩
    · simp only [splitStep, hc, if_false]
      refine ⟨?_, ?_⟩
      · intro x hx
        rcases List.mem_cons.1 hx with rfl | hx
        · exact ⟨by simp, hc⟩
        · exact ⟨List.mem_cons_of_mem _ (ih.1 x hx).1, (ih.1 x hx).2⟩
      · intro l hl x hx
        exact ⟨List.mem_cons_of_mem _ (ih.2 l hl x hx).1, (ih.2 l hl x hx).2⟩

theorem split_mem {sep : Char} {t l : Str} (hl : l ∈ split sep t) : ∀ c ∈ l, c ∈ t ∧ c ≠ sep := by
  have h := splitGo_mem (sep := sep) t
  simp only [split, List.mem_cons] at hl
  rcases hl with rfl | hl
  · exact h.1
  · exact h.2 l hl

theorem splitGo_flatten {sep : Char} : ∀ (t : Str),
    (splitGo sep t).1 ++ (splitGo sep t).2.flatten = t.filter (fun c => c != sep)
  | [] => by simp [splitGo]
  | c :: cs => by
    have ih := splitGo_flatten (sep := sep) cs
    simp only [splitGo, List.foldr_cons] at *
    by_cases hc : c = sep
    · subst hc
      simp [splitStep, ih]
    · simp [splitStep, hc, ih]

/-- joining the fields again gives the text without its separators -/
theorem split_flatten (sep : Char) (t : Str) : (split sep t).flatten = t.filter (fun c => c != sep) := by
  simpa [split] using splitGo_flatten (sep := sep) t

/-! ### prefixes and substrings -/

theorem hasSub_prefix (p v : Str) : hasSub p (p ++ v) = true := by
  cases h : p ++ v with
  | nil =>
    have : p = [] := by
      cases p with
      | nil => rfl
      | cons a as => simp at h
    subst this; simp [hasSub]
  | cons c cs =>
    simp only [hasSub, Bool.or_eq_true]
    left
    rw [← h]
    exact List.isPrefixOf_iff_prefix.2 (List.prefix_append p v)

theorem hasSub_cons_of_false {p : Str} {c : Char} {s : Str} (h : hasSub p (c :: s) = false) : hasSub p s = false := by
  simp only [hasSub, Bool.or_eq_false_iff] at h
  exact h.2

/-! ### trimLeft -/

theorem trimLeft_all {cut : List Char} : ∀ {s : Str}, (∀ c ∈ s, cut.contains c = true) → trimLeft cut s = []
  | [], _ => rfl
  | c :: cs, h => by
    have ih := trimLeft_all (cut := cut) (s := cs) (fun x hx => h x (by simp [hx]))
    simp only [trimLeft] at *
    rw [List.dropWhile_cons_of_pos (h c (by simp))]
    exact ih

theorem trimLeft_indent {cut : List Char} {c : Char} (rest : Str) (hc : cut.contains c = false) :
    ∀ {ind : Str}, (∀ x ∈ ind, cut.contains x = true) → trimLeft cut (ind ++ c :: rest) = c :: rest
  | [], _ => by
    simp only [trimLeft, List.nil_append]
    exact List.dropWhile_cons_of_neg (by simpa using hc)
  | a :: as, h => by
    have ih := trimLeft_indent (cut := cut) rest hc (ind := as) (fun x hx => h x (by simp [hx]))
    simp only [trimLeft, List.cons_append] at *
    rw [List.dropWhile_cons_of_pos (h a (by simp))]
    exact ih

/-! ### numbers -/

theorem digitChar_spec : ∀ n, n < 10 → isDigit (digitChar n) = true ∧ (digitChar n).toNat - 48 = n := by decide

theorem digitsVal_append : ∀ (s t : Str) (acc : Nat),
    digitsVal (s ++ t) acc = match digitsVal s acc with | some a => digitsVal t a | none => none
  | [], t, acc => by simp [digitsVal]
  | c :: cs, t, acc => by
    simp only [List.cons_append, digitsVal]
    split
    · exact digitsVal_append cs t _
    · rfl

theorem digitsVal_digitsF : ∀ (f n : Nat), n < f → digitsVal (digitsF f n) 0 = some n
  | 0, _, h => absurd h (Nat.not_lt_zero _)
  | f + 1, n, h => by
    simp only [digitsF]
    split
    · rename_i h10
      have := digitChar_spec n h10
      simp [digitsVal, this.1, this.2]
    · rename_i h10
      have hlt : n / 10 < f := by omega
      have ih := digitsVal_digitsF f (n / 10) hlt
      have hd := digitChar_spec (n % 10) (Nat.mod_lt _ (by decide))
      rw [digitsVal_append, ih]
      simp only [digitsVal, hd.1, hd.2, if_true]
      congr 1; omega

theorem digitsF_digits : ∀ (f n : Nat), ∀ c ∈ digitsF f n, isDigit c = true
  | 0, _ => by simp [digitsF]
  | f + 1, n => by
    simp only [digitsF]
    split
    · rename_i h10
      intro c hc
      simp only [List.mem_singleton] at hc
      subst hc
      exact (digitChar_spec n h10).1
    · intro c hc
      rcases List.mem_append.1 hc with hc | hc
      · exact digitsF_digits f _ c hc
      · simp only [List.mem_singleton] at hc
        subst hc
        exact (digitChar_spec (n % 10) (Nat.mod_lt _ (by decide))).1

theorem digitsF_ne_nil (f n : Nat) : digitsF (f + 1) n ≠ [] := by
  simp only [digitsF]
  split <;> simp

theorem itoaNat_digits (n : Nat) : ∀ c ∈ itoaNat n, isDigit c = true := digitsF_digits _ _

theorem itoaNat_val (n : Nat) : unsignedVal (itoaNat n) = some n := by
  have hne : itoaNat n ≠ [] := digitsF_ne_nil n n
  have hv := digitsVal_digitsF (n + 1) n (Nat.lt_succ_self n)
  unfold unsignedVal
  split
  · rename_i h; exact absurd h hne
  · exact hv

theorem clampInt_of_inRange {v : Int} (h : minInt ≤ v ∧ v ≤ maxInt) : clampInt v = v := by
  unfold clampInt
  have h1 : ¬ v > maxInt := by omega
  have h2 : ¬ v < minInt := by omega
  simp [h1, h2]

theorem isDigit_ne_minus {c : Char} (h : isDigit c = true) : c ≠ '-' ∧ c ≠ '+' := by
  constructor <;> (intro e; subst e; revert h; decide)

/-- `Atoi(Itoa(v)) = v` for every `v` in the int64 range -/
theorem atoi_itoa {v : Int} (h : minInt ≤ v ∧ v ≤ maxInt) : atoi (itoa v) = v := by
  cases v with
  | ofNat n =>
    have hv := itoaNat_val n
    have hd := itoaNat_digits n
    simp only [itoa]
    cases hs : itoaNat n with
    | nil => rw [hs] at hv; simp [unsignedVal] at hv
    | cons c r =>
      rw [hs] at hv hd
      have hc := isDigit_ne_minus (hd c (by simp))
      simp only [atoi, hc.1, hc.2, if_false, hv]
      exact clampInt_of_inRange h
  | negSucc n =>
    have hv := itoaNat_val (n + 1)
    simp only [itoa, atoi, if_true, hv]
    have : (-((n + 1 : Nat) : Int)) = Int.negSucc n := by omega
    rw [this]
    exact clampInt_of_inRange h

theorem itoa_chars (v : Int) : ∀ c ∈ itoa v, isDigit c = true ∨ c = '-' := by
  cases v with
  | ofNat n => intro c hc; exact Or.inl (itoaNat_digits n c hc)
  | negSucc n =>
    intro c hc
    simp only [itoa, List.mem_cons] at hc
    rcases hc with rfl | hc
    · exact Or.inr rfl
    · exact Or.inl (itoaNat_digits _ c hc)

/-- a number's text holds none of the layout characters -/
theorem itoa_free (v : Int) {x : Char} (hx : isDigit x = false) (hm : x ≠ '-') : x ∉ itoa v := by
  intro hmem
  rcases itoa_chars v x hmem with h | h
  · rw [h] at hx; exact Bool.noConfusion hx
  · exact hm h

/-! ### sort.Strings -/

theorem insertSorted_perm (k : Str) : ∀ (l : List Str), (insertSorted k l).Perm (k :: l)
  | [] => List.Perm.refl _
  | x :: xs => by
    simp only [insertSorted]
    split
    · exact ((insertSorted_perm k xs).cons x).trans (List.Perm.swap k x xs)
    · exact List.Perm.refl _

theorem sortStrings_perm : ∀ (l : List Str), (sortStrings l).Perm l
  | [] => List.Perm.refl _
  | x :: xs => by
    simp only [sortStrings, List.foldr_cons]
    exact (insertSorted_perm x _).trans ((sortStrings_perm xs).cons x)

/-! ### maps as association lists -/

theorem mapInsert_new {β : Type} : ∀ (m : List (Str × β)) (k : Str) (v : β), k ∉ m.map (·.1) →
    mapInsert m k v = m ++ [(k, v)]
  | [], _, _, _ => rfl
  | (k', v') :: r, k, v, h => by
    have hne : k' ≠ k := fun e => h (by simp [e])
    have ih := mapInsert_new r k v (fun hm => h (by simp [hm]))
    simp [mapInsert, hne, ih]

theorem mapInsert_keys {β : Type} : ∀ (m : List (Str × β)) (k : Str) (v : β), k ∈ m.map (·.1) →
    (mapInsert m k v).map (·.1) = m.map (·.1)
  | [], _, _, h => by simp at h
  | (k', v') :: r, k, v, h => by
    by_cases hk : k' = k
    · simp [mapInsert, hk]
    · have hr : k ∈ r.map (·.1) := by
        simp only [List.map_cons, List.mem_cons] at h
        rcases h with h | h
        · exact absurd h.symm hk
        · exact h
      simp [mapInsert, hk, mapInsert_keys r k v hr]

theorem lookupD_mem {β : Type} (d : β) : ∀ (m : List (Str × β)), (m.map (·.1)).Nodup → ∀ kv ∈ m, lookupD d kv.1 m = kv.2
  | [], _, _, h => by simp at h
  | (k', v') :: r, hnd, kv, h => by
    simp only [List.map_cons, List.nodup_cons] at hnd
    simp only [List.mem_cons] at h
    rcases h with rfl | h
    · simp [lookupD]
    · have hne : k' ≠ kv.1 := by
        intro e
        apply hnd.1
        rw [e]
        exact List.mem_map_of_mem (f := (·.1)) h
      simp [lookupD, hne, lookupD_mem d r hnd.2 kv h]

/-- the canonical (key-sorted) entry list is a permutation of the map's entries -/
theorem sortedEntries_perm {β : Type} (d : β) (m : List (Str × β)) (hnd : (m.map (·.1)).Nodup) :
    (sortedEntries d m).Perm m := by
  unfold sortedEntries
  have h1 := (sortStrings_perm (m.map (·.1))).map (fun k => (k, lookupD d k m))
  refine h1.trans ?_
  rw [List.map_map]
  have : m.map ((fun k => (k, lookupD d k m)) ∘ (·.1)) = m := by
    conv => rhs; rw [← List.map_id m]
    apply List.map_congr_left
    intro kv hkv
    simp only [Function.comp, id]
    rw [lookupD_mem d m hnd kv hkv]
  rw [this]

theorem sortedEntries_keys_nodup {β : Type} (d : β) (m : List (Str × β)) (hnd : (m.map (·.1)).Nodup) :
    ((sortedEntries d m).map (·.1)).Nodup := by
  have hp := (sortedEntries_perm d m hnd).map (·.1)
  exact hp.nodup_iff.2 hnd

end PolyVerif.LineText
