import PolyVerif.Lemmas.GenbankText
/-
C01: files of several records — `SplitAfter(text, "//\n")`, `parseMulti`, `parseFlat`.
-/
set_option linter.unusedSimpArgs false
namespace PolyVerif.Lemmas.Genbank
open PolyVerif PolyVerif.Str PolyVerif.Genbank PolyVerif.GbLayout

def sep3 : Str := c!"//\n"

/-- every line followed by a line break -/
def unlines : List Str → Str
  | [] => []
  | l :: ls => l ++ '\n' :: unlines ls

theorem unlines_append (A B : List Str) : unlines (A ++ B) = unlines A ++ unlines B := by
  induction A with
  | nil => rfl
  | cons a r ih => simp [unlines, ih, List.append_assoc]

theorem join_snoc (A : List Str) (x : Str) : join c!"\n" (A ++ [x]) = unlines A ++ x := by
  induction A with
  | nil => rfl
  | cons a r ih =>
    cases r with
    | nil => simp [join, unlines]
    | cons b r' =>
      simp only [List.cons_append, join, unlines] at ih ⊢
      rw [ih]; simp [List.append_assoc]

/-- put `p` in front of the first piece -/
def prependHead (p : Str) : List Str → List Str
  | [] => [p]
  | h :: t => (p ++ h) :: t

theorem consHead_eq_prepend (c : Char) (L : List Str) : consHead c L = prependHead [c] L := by
  cases L <;> rfl

theorem prependHead_append (p q : Str) (L : List Str) : prependHead p (prependHead q L) = prependHead (p ++ q) L := by
  cases L <;> simp [prependHead, List.append_assoc]

/-- a line that holds no line break and does not end in `//` -/
def Plain (l : Str) : Prop := '\n' ∉ l ∧ hasSuffix l c!"//" = false

theorem Plain.tail {x : Char} {xs : Str} (h : Plain (x :: xs)) : Plain xs := by
  refine ⟨fun hm => h.1 (by simp [hm]), ?_⟩
  cases hs : hasSuffix xs c!"//" with
  | false => rfl
  | true =>
    have := h.2
    unfold hasSuffix at hs this
    have e : (x :: xs).reverse = xs.reverse ++ [x] := List.reverse_cons
    rw [e] at this
    have hp : (c!"//").reverse.isPrefixOf (xs.reverse ++ [x]) = true := by
      rw [List.isPrefixOf_iff_prefix] at hs ⊢
      exact hs.trans (List.prefix_append _ _)
    rw [hp] at this; cases this

theorem sep_not_prefix_plain (l R : Str) (h : Plain l) : sep3.isPrefixOf (l ++ '\n' :: R) = false := by
  match l, h with
  | [], _ => rfl
  | [x], _ => simp [sep3, List.isPrefixOf]
  | x :: y :: [], h =>
    have : ¬ (x = '/' ∧ y = '/') := by
      rintro ⟨rfl, rfl⟩; have := h.2; revert this; decide
    simp only [sep3, List.cons_append, List.nil_append, List.isPrefixOf, Bool.and_true]
    by_cases hx : x = '/'
    · by_cases hy : y = '/'
      · exact absurd ⟨hx, hy⟩ this
      · have : ('/' == y) = false := by rw [beq_eq_false_iff_ne]; exact fun e => hy e.symm
        simp [this]
    · have : ('/' == x) = false := by rw [beq_eq_false_iff_ne]; exact fun e => hx e.symm
      simp [this]
  | x :: y :: z :: r, h =>
    have hz : z ≠ '\n' := fun e => h.1 (by simp [e])
    simp [sep3, List.isPrefixOf, Ne.symm hz]

/-- a plain line and its line break stay in the current piece -/
theorem splitAfterGo_line (l : Str) (h : Plain l) : ∀ (F : Nat) (R : Str), l.length + 1 ≤ F →
    splitAfterGo sep3 F (l ++ '\n' :: R) = prependHead (l ++ ['\n']) (splitAfterGo sep3 (F - (l.length + 1)) R) := by
  induction l with
  | nil =>
    intro F R hF
    obtain ⟨f, rfl⟩ : ∃ f, F = f + 1 := ⟨F - 1, by simp at hF; omega⟩
    simp only [List.nil_append, splitAfterGo]
    rw [if_neg (by simp [sep3, List.isPrefixOf]), consHead_eq_prepend]
    simp
  | cons x xs ih =>
    intro F R hF
    obtain ⟨f, rfl⟩ : ∃ f, F = f + 1 := ⟨F - 1, by simp at hF; omega⟩
    have hnp := sep_not_prefix_plain (x :: xs) R h
    simp only [List.cons_append] at hnp ⊢
    simp only [splitAfterGo]
    rw [if_neg (by simp [hnp]), ih h.tail f R (by simp at hF; omega), consHead_eq_prepend, prependHead_append]
    simp only [List.length_cons]
    rw [show f + 1 - (xs.length + 1 + 1) = f - (xs.length + 1) by omega]
    rfl

theorem unlines_length_le (A : List Str) (x : Str) (h : x ∈ A) : x.length + 1 ≤ (unlines A).length := by
  induction A with
  | nil => simp at h
  | cons a r ih =>
    simp only [unlines, List.length_append, List.length_cons]
    rcases List.mem_cons.mp h with rfl | h
    · omega
    · have := ih h; omega

theorem splitAfterGo_ne_nil (sep : Str) (F : Nat) (s : Str) : splitAfterGo sep F s ≠ [] := by
  induction F generalizing s with
  | zero => simp [splitAfterGo]
  | succ f ih =>
    cases s with
    | nil => simp [splitAfterGo]
    | cons x xs => simp only [splitAfterGo]; split <;> simp [consHead_ne_nil]

theorem prependHead_nil (L : List Str) (h : L ≠ []) : prependHead [] L = L := by
  cases L with
  | nil => exact absurd rfl h
  | cons a r => rfl

theorem splitAfterGo_lines (A : List Str) (h : ∀ l ∈ A, Plain l) : ∀ (F : Nat) (R : Str), (unlines A).length ≤ F →
    splitAfterGo sep3 F (unlines A ++ R) = prependHead (unlines A) (splitAfterGo sep3 (F - (unlines A).length) R) := by
  induction A with
  | nil => intro F R _; simp [unlines, prependHead_nil _ (splitAfterGo_ne_nil _ _ _)]
  | cons a r ih =>
    intro F R hF
    simp only [unlines, List.length_append, List.length_cons] at hF
    simp only [unlines, List.append_assoc, List.cons_append]
    rw [splitAfterGo_line a (h a (by simp)) F _ (by omega), ih (fun x hx => h x (by simp [hx])) _ R (by omega),
      prependHead_append]
    simp only [List.append_assoc, List.cons_append, List.nil_append, List.length_append, List.length_cons]
    rw [show F - (a.length + 1) - (unlines r).length = F - (a.length + ((unlines r).length + 1)) by omega]

/-- at a terminator line the piece ends -/
theorem splitAfterGo_term (F : Nat) (R : Str) :
    splitAfterGo sep3 (F + 1) (c!"//" ++ '\n' :: R) = sep3 :: splitAfterGo sep3 F R := by
  simp [splitAfterGo, sep3, List.isPrefixOf]

/-! ### a file as a list of records -/

/-- the text of one record (its lines before the terminator given) with the final line break -/
def recText (init : List Str) : Str := unlines init ++ sep3

theorem splitAfterGo_nil (F : Nat) : splitAfterGo sep3 (F + 1) [] = [[]] := rfl

theorem splitAfterGo_slashes (F : Nat) : splitAfterGo sep3 (F + 3) c!"//" = [c!"//"] := by
  simp [splitAfterGo, sep3, List.isPrefixOf, consHead]

/-- `SplitAfter` cuts after every record -/
theorem splitAfterGo_records (recs : List (List Str)) (h : ∀ init ∈ recs, ∀ l ∈ init, Plain l) :
    ∀ (F : Nat) (R : Str), ((recs.map recText).flatten ++ R).length + 1 ≤ F →
      ∃ F', R.length + 1 ≤ F' ∧
        splitAfterGo sep3 F ((recs.map recText).flatten ++ R) = recs.map recText ++ splitAfterGo sep3 F' R := by
  induction recs with
  | nil => intro F R hF; exact ⟨F, by simpa using hF, by simp⟩
  | cons init rest ih =>
    intro F R hF
    simp only [List.map_cons, List.flatten_cons, List.append_assoc, List.length_append, recText] at hF ⊢
    have hlen : (sep3).length = 3 := rfl
    rw [hlen] at hF
    rw [splitAfterGo_lines init (h init (by simp)) F _ (by omega)]
    obtain ⟨G, hG⟩ : ∃ G, F - (unlines init).length = G + 1 := ⟨F - (unlines init).length - 1, by omega⟩
    rw [hG, show sep3 ++ ((rest.map recText).flatten ++ R) = c!"//" ++ '\n' :: ((rest.map recText).flatten ++ R) from rfl,
      splitAfterGo_term]
    obtain ⟨F', hF', heq⟩ := ih (fun i hi => h i (by simp [hi])) G R (by simp only [List.length_append]; omega)
    refine ⟨F', hF', ?_⟩
    rw [heq]; simp [prependHead]

/-! ### parsing every piece -/

theorem mapOutcome_ok {α β : Type} (f : α → Outcome β) (g : α → β) (l : List α) (h : ∀ x ∈ l, f x = .ok (g x)) :
    mapOutcome f l = .ok (l.map g) := by
  induction l with
  | nil => rfl
  | cons a r ih =>
    simp only [mapOutcome, h a (by simp), ih (fun x hx => h x (by simp [hx])), List.map_cons]

/-- pairs of record and layout, as `recordsLines` walks them -/
def zipLay : List GbRec → List RecLayout → List (GbRec × RecLayout)
  | [], _ => []
  | r :: rs, ls => (r, ls.headD {}) :: zipLay rs ls.tail

theorem recordsLines_eq (rs : List GbRec) (ls : List RecLayout) :
    recordsLines rs ls = ((zipLay rs ls).map fun p => layout p.1 p.2).flatten := by
  induction rs generalizing ls with
  | nil => rfl
  | cons r rs' ih => simp [recordsLines, zipLay, ih]

theorem zipLay_map_fst (rs : List GbRec) (ls : List RecLayout) : (zipLay rs ls).map (·.1) = rs := by
  induction rs generalizing ls with
  | nil => rfl
  | cons r rs' ih => simp [zipLay, ih]

/-- the lines of a record before its terminator -/
def initOf (p : GbRec × RecLayout) : List Str := (layout p.1 p.2).dropLast

theorem layout_eq_init (p : GbRec × RecLayout) : layout p.1 p.2 = initOf p ++ [c!"//"] := by
  have h : ∃ X, layout p.1 p.2 = X ++ [c!"//"] := ⟨_, rfl⟩
  obtain ⟨X, hX⟩ := h
  unfold initOf
  rw [hX, List.dropLast_concat]

theorem unlines_layout (p : GbRec × RecLayout) : unlines (layout p.1 p.2) = recText (initOf p) := by
  rw [layout_eq_init, unlines_append]
  simp only [unlines, recText, sep3, List.append_nil, List.cons_append, List.nil_append]

theorem layoutText_true (p : GbRec × RecLayout) : layoutText p.1 p.2 true = recText (initOf p) := by
  unfold layoutText
  rw [layout_eq_init, join_snoc]
  simp only [if_true, recText, sep3, List.append_assoc, List.cons_append, List.nil_append]

theorem layoutText_false (p : GbRec × RecLayout) : layoutText p.1 p.2 false = unlines (initOf p) ++ c!"//" := by
  unfold layoutText
  rw [layout_eq_init, join_snoc]; simp

/-- the hypothesis on a record of a multi-record file: in the domain, and no line other than the
terminator ends in `//` -/
def RecOK (p : GbRec × RecLayout) : Prop :=
  wf p.1 = true ∧ noSlashEnd p.1 p.2 = true

/-- the same over the whole quantifier (`wfLoose`: repeated qualifier keys included) -/
def RecOKL (p : GbRec × RecLayout) : Prop :=
  wfLoose p.1 = true ∧ noSlashEnd p.1 p.2 = true

theorem RecOK.loose {p : GbRec × RecLayout} (h : RecOK p) : RecOKL p := ⟨(wf_loose h.1).1, h.2⟩

theorem RecOK.toSequenceM {p : GbRec × RecLayout} (h : RecOK p) : toSequenceM p.1 = toSequence p.1 :=
  toSequenceM_eq (wf_loose h.1).2

theorem plain_init (p : GbRec × RecLayout) (h : RecOKL p) : ∀ l ∈ initOf p, Plain l := by
  intro l hl
  have hmem : l ∈ layout p.1 p.2 := by rw [layout_eq_init]; exact List.mem_append_left _ hl
  refine ⟨nl_not_mem_of_PL (PL_layout p.1 p.2 h.1 l hmem), ?_⟩
  have := h.2
  unfold noSlashEnd at this
  rw [List.all_eq_true] at this
  have := this l hl
  simpa using this

theorem unlines_flatten (Ls : List (List Str)) : unlines Ls.flatten = (Ls.map unlines).flatten := by
  induction Ls with
  | nil => rfl
  | cons a r ih => simp [unlines_append, ih]

theorem unlines_records (ps : List (GbRec × RecLayout)) :
    unlines ((ps.map fun p => layout p.1 p.2).flatten) = ((ps.map initOf).map recText).flatten := by
  induction ps with
  | nil => rfl
  | cons p r ih =>
    simp only [List.map_cons, List.flatten_cons]
    rw [unlines_append, unlines_layout p, ih]

theorem join_nl_eq_unlines (X : List Str) (h : X ≠ []) : join c!"\n" X ++ c!"\n" = unlines X := by
  rw [← join_snoc_nil c!"\n" X h, join_snoc, List.append_nil]

/-- a file of records without the header: with the final newline every record is followed by a
line break; without it the last one is not -/
theorem fileText_nl (ps : List (GbRec × RecLayout)) (hne : ps ≠ []) :
    join c!"\n" ((ps.map fun p => layout p.1 p.2).flatten) ++ c!"\n" = ((ps.map initOf).map recText).flatten := by
  have hne' : (ps.map fun p => layout p.1 p.2).flatten ≠ [] := by
    cases ps with
    | nil => exact absurd rfl hne
    | cons p r =>
      simp only [List.map_cons, List.flatten_cons]
      exact List.append_ne_nil_of_left_ne_nil (layout_ne_nil p.1 p.2) _
  rw [join_nl_eq_unlines _ hne', unlines_records]

theorem fileText_nonl (ps : List (GbRec × RecLayout)) (p : GbRec × RecLayout) :
    join c!"\n" (((ps ++ [p]).map fun p => layout p.1 p.2).flatten)
      = ((ps.map initOf).map recText).flatten ++ (unlines (initOf p) ++ c!"//") := by
  have e : ((ps ++ [p]).map fun p => layout p.1 p.2).flatten
      = ((ps.map fun p => layout p.1 p.2).flatten ++ initOf p) ++ [c!"//"] := by
    rw [List.map_append, List.flatten_append]
    simp only [List.map_cons, List.map_nil, List.flatten_cons, List.flatten_nil, List.append_nil]
    rw [layout_eq_init p, List.append_assoc]
  rw [e, join_snoc, unlines_append, unlines_records, List.append_assoc]

/-! ### parseMulti -/

theorem dropWhile_append_slashes (X : Str) : ∃ X', (X ++ c!"//").dropWhile isSpace = X' ++ c!"//" := by
  induction X with
  | nil => exact ⟨[], by simp [List.dropWhile]; decide⟩
  | cons x xs ih =>
    by_cases hx : isSpace x = true
    · obtain ⟨X', h⟩ := ih
      exact ⟨X', by simp [List.dropWhile, hx, h]⟩
    · exact ⟨x :: xs, by simp [List.dropWhile, hx]⟩

theorem hasSuffix_trimSpace_slashes (X : Str) : hasSuffix (trimSpace (X ++ c!"//")) c!"//" = true := by
  obtain ⟨X', h⟩ := dropWhile_append_slashes X
  simp only [trimSpace, trimLeftSpace, trimRightSpace, h]
  have : (X' ++ c!"//").reverse = '/' :: '/' :: X'.reverse := by simp
  rw [this, dropWhile_of_head (by decide), ← this, List.reverse_reverse]
  exact hasSuffix_append_self _ _

/-- the text of a file of records (no header) -/
def fileText (ps : List (GbRec × RecLayout)) (fnl : Bool) : Str :=
  join c!"\n" ((ps.map fun p => layout p.1 p.2).flatten) ++ (if fnl then c!"\n" else [])

theorem parse_recText (p : GbRec × RecLayout) (h : RecOKL p) : parse (recText (initOf p)) = .ok (toSequenceM p.1) := by
  rw [← layoutText_true]; exact parse_layoutText_loose p.1 p.2 true h.1

theorem mapOutcome_map {α β γ : Type} (f : β → Outcome γ) (g : α → β) (l : List α) :
    mapOutcome f (l.map g) = mapOutcome (fun a => f (g a)) l := by
  induction l with
  | nil => rfl
  | cons a r ih => simp only [List.map_cons, mapOutcome, ih]

theorem parseMulti_of_pieces (text : Str) (pieces : List Str) (h : splitAfter text c!"//\n" = pieces) :
    parseMulti text = mapOutcome parse
      (if !hasSuffix (trimSpace (pieces.getLastD [])) c!"//" then pieces.dropLast else pieces) := by
  simp only [parseMulti, h]

theorem parse_pieces (qs : List (GbRec × RecLayout)) (hq : ∀ q ∈ qs, RecOKL q) :
    mapOutcome parse ((qs.map initOf).map recText) = .ok (qs.map fun p => toSequenceM p.1) := by
  rw [List.map_map, mapOutcome_map]
  exact mapOutcome_ok _ _ qs (fun q hqm => parse_recText q (hq q hqm))

/-- k records, each terminated by `//`, give k results in file order, each what its record states -/
theorem parseMulti_fileText (ps : List (GbRec × RecLayout)) (fnl : Bool) (hne : ps ≠ []) (hok : ∀ p ∈ ps, RecOKL p) :
    parseMulti (fileText ps fnl) = .ok (ps.map fun p => toSequenceM p.1) := by
  have hplain : ∀ qs : List (GbRec × RecLayout), (∀ q ∈ qs, RecOKL q) → ∀ init ∈ qs.map initOf, ∀ l ∈ init, Plain l := by
    intro qs hq init hi l hl
    obtain ⟨q, hqm, rfl⟩ := List.mem_map.mp hi
    exact plain_init q (hq q hqm) l hl
  cases fnl with
  | true =>
    have htext : fileText ps true = ((ps.map initOf).map recText).flatten := by
      unfold fileText; simp only [if_true]; exact fileText_nl ps hne
    obtain ⟨F', hF', heq⟩ := splitAfterGo_records (ps.map initOf) (hplain ps hok)
      ((((ps.map initOf).map recText).flatten ++ []).length + 1) [] (Nat.le_refl _)
    obtain ⟨f, rfl⟩ : ∃ f, F' = f + 1 := ⟨F' - 1, by simp at hF'; omega⟩
    simp only [List.append_nil] at heq
    have hsplit : splitAfter (fileText ps true) c!"//\n" = (ps.map initOf).map recText ++ [[]] := by
      rw [htext]; simp only [splitAfter]; rw [show c!"//\n" = sep3 from rfl, heq, splitAfterGo_nil]
    rw [parseMulti_of_pieces _ _ hsplit]
    have hlast : ((ps.map initOf).map recText ++ [[]]).getLastD [] = [] := by simp
    rw [hlast]
    have : hasSuffix (trimSpace []) c!"//" = false := by decide
    simp only [this, Bool.not_false, if_true, List.dropLast_concat]
    exact parse_pieces ps hok
  | false =>
    obtain ⟨qs, p, rfl⟩ : ∃ qs p, ps = qs ++ [p] := by
      have := List.dropLast_concat_getLast hne
      exact ⟨ps.dropLast, ps.getLast hne, this.symm⟩
    have hq : ∀ q ∈ qs, RecOKL q := fun q hqm => hok q (by simp [hqm])
    have hp : RecOKL p := hok p (by simp)
    have htext : fileText (qs ++ [p]) false = ((qs.map initOf).map recText).flatten ++ (unlines (initOf p) ++ c!"//") := by
      unfold fileText; simp only [Bool.false_eq_true, if_false, List.append_nil]; exact fileText_nonl qs p
    obtain ⟨F', hF', heq⟩ := splitAfterGo_records (qs.map initOf) (hplain qs hq)
      ((((qs.map initOf).map recText).flatten ++ (unlines (initOf p) ++ c!"//")).length + 1)
      (unlines (initOf p) ++ c!"//") (Nat.le_refl _)
    have hlastpiece : splitAfterGo sep3 F' (unlines (initOf p) ++ c!"//") = [unlines (initOf p) ++ c!"//"] := by
      simp only [List.length_append] at hF'
      rw [splitAfterGo_lines (initOf p) (plain_init p hp) F' _ (by omega)]
      obtain ⟨g, hg⟩ : ∃ g, F' - (unlines (initOf p)).length = g + 3 :=
        ⟨F' - (unlines (initOf p)).length - 3, by have : (c!"//").length = 2 := rfl; omega⟩
      rw [hg, splitAfterGo_slashes]; rfl
    have hsplit : splitAfter (fileText (qs ++ [p]) false) c!"//\n"
        = (qs.map initOf).map recText ++ [unlines (initOf p) ++ c!"//"] := by
      rw [htext]; simp only [splitAfter]; rw [show c!"//\n" = sep3 from rfl, heq, hlastpiece]
    rw [parseMulti_of_pieces _ _ hsplit]
    have hlast : ((qs.map initOf).map recText ++ [unlines (initOf p) ++ c!"//"]).getLastD []
        = unlines (initOf p) ++ c!"//" := by simp
    rw [hlast, hasSuffix_trimSpace_slashes]
    simp only [Bool.not_true, Bool.false_eq_true, if_false]
    -- all pieces: the records with their line break, then the last one without
    have hlastparse : parse (unlines (initOf p) ++ c!"//") = .ok (toSequenceM p.1) := by
      rw [← layoutText_false]; exact parse_layoutText_loose p.1 p.2 false hp.1
    have hall : ∀ (A : List Str) (B : List Sequence) (x : Str) (y : Sequence), mapOutcome parse A = .ok B → parse x = .ok y →
        mapOutcome parse (A ++ [x]) = .ok (B ++ [y]) := by
      intro A
      induction A with
      | nil => intro B x y hA hx; simp [mapOutcome] at hA; subst hA; simp [mapOutcome, hx]
      | cons a r ih =>
        intro B x y hA hx
        simp only [List.cons_append, mapOutcome] at hA ⊢
        cases ha : parse a with
        | ok v =>
          rw [ha] at hA
          cases hr : mapOutcome parse r with
          | ok vs =>
            rw [hr] at hA
            simp only [Outcome.ok.injEq] at hA
            subst hA
            simp [ih vs x y hr hx]
          | err => rw [hr] at hA; cases hA
          | panic => rw [hr] at hA; cases hA
        | err => rw [ha] at hA; cases hA
        | panic => rw [ha] at hA; cases hA
    rw [hall _ _ _ _ (parse_pieces qs hq) hlastparse]
    simp

/-! ### `layoutFile`: ParseMulti without the header, ParseFlat with it -/

theorem zipLay_ne_nil (rs : List GbRec) (ls : List RecLayout) (h : rs ≠ []) : zipLay rs ls ≠ [] := by
  cases rs with
  | nil => exact absurd rfl h
  | cons r rs' => simp [zipLay]

theorem layoutFile_noheader (rs : List GbRec) (ℓ : FileLayout) (hh : ℓ.header = none) :
    layoutFile rs ℓ = fileText (zipLay rs ℓ.recs) ℓ.finalNewline := by
  unfold layoutFile fileText
  rw [hh, recordsLines_eq]; rfl

theorem parseMulti_layoutFile_loose (rs : List GbRec) (ℓ : FileLayout) (hh : ℓ.header = none) (hne : rs ≠ [])
    (hok : ∀ p ∈ zipLay rs ℓ.recs, RecOKL p) :
    parseMulti (layoutFile rs ℓ) = .ok (rs.map toSequenceM) := by
  rw [layoutFile_noheader rs ℓ hh, parseMulti_fileText _ _ (zipLay_ne_nil rs ℓ.recs hne) hok]
  congr 1
  have := zipLay_map_fst rs ℓ.recs
  conv => rhs; rw [← this]
  rw [List.map_map]; rfl

theorem parseFlat_layoutFile_loose (rs : List GbRec) (ℓ : FileLayout) (H : List Str) (hh : ℓ.header = some H)
    (hH : H.length = 10) (hHnl : ∀ l ∈ H, '\n' ∉ l) (hne : rs ≠ []) (hok : ∀ p ∈ zipLay rs ℓ.recs, RecOKL p) :
    parseFlat (layoutFile rs ℓ) = .ok (rs.map toSequenceM) := by
  have hRLne : recordsLines rs ℓ.recs ≠ [] := by
    rw [recordsLines_eq]
    cases hz : zipLay rs ℓ.recs with
    | nil => exact absurd hz (zipLay_ne_nil rs ℓ.recs hne)
    | cons p r =>
      simp only [List.map_cons, List.flatten_cons]
      exact List.append_ne_nil_of_left_ne_nil (layout_ne_nil p.1 p.2) _
  have hRLnl : ∀ l ∈ recordsLines rs ℓ.recs, '\n' ∉ l := by
    rw [recordsLines_eq]
    intro l hl
    obtain ⟨L, hL, hlL⟩ := List.mem_flatten.mp hl
    obtain ⟨p, hp, rfl⟩ := List.mem_map.mp hL
    exact nl_not_mem_of_PL (PL_layout p.1 p.2 (hok p hp).1 l hlL)
  have hne2 : H ++ recordsLines rs ℓ.recs ≠ [] := List.append_ne_nil_of_right_ne_nil _ hRLne
  have hnl2 : ∀ l ∈ H ++ recordsLines rs ℓ.recs, '\n' ∉ l := by
    intro l hl; rcases List.mem_append.mp hl with h | h
    · exact hHnl l h
    · exact hRLnl l h
  -- the lines of the file
  have hsplit : split (layoutFile rs ℓ) c!"\n"
      = H ++ (recordsLines rs ℓ.recs ++ (if ℓ.finalNewline then [[]] else [])) := by
    show splitC '\n' _ = _
    unfold layoutFile
    rw [hh]
    simp only [Option.getD_some]
    cases ℓ.finalNewline with
    | false =>
      simp only [Bool.false_eq_true, if_false, List.append_nil]
      exact splitC_join '\n' _ hne2 hnl2
    | true =>
      simp only [if_true]
      rw [← join_snoc_nil c!"\n" _ hne2, List.append_assoc]
      exact splitC_join '\n' _ (by simp) (by
        intro l hl
        rw [← List.append_assoc] at hl
        rcases List.mem_append.mp hl with hl | hl
        · exact hnl2 l hl
        · simp at hl; subst hl; simp)
  unfold parseFlat
  simp only [hsplit]
  rw [if_neg (by simp [hH])]
  have hdrop : (H ++ (recordsLines rs ℓ.recs ++ (if ℓ.finalNewline then [[]] else []))).drop 10
      = recordsLines rs ℓ.recs ++ (if ℓ.finalNewline then [[]] else []) := by
    rw [← hH]; exact List.drop_left
  rw [hdrop]
  have hjoin : join c!"\n" (recordsLines rs ℓ.recs ++ (if ℓ.finalNewline then [[]] else []))
      = layoutFile rs { ℓ with header := none } := by
    unfold layoutFile
    simp only [Option.getD_none, List.nil_append]
    cases ℓ.finalNewline with
    | false => simp
    | true => simp only [if_true]; exact join_snoc_nil c!"\n" _ hRLne
  rw [hjoin]
  exact parseMulti_layoutFile_loose rs { ℓ with header := none } rfl hne hok

theorem map_toSequenceM (rs : List GbRec) (ls : List RecLayout) (hok : ∀ p ∈ zipLay rs ls, RecOK p) :
    rs.map toSequenceM = rs.map toSequence := by
  induction rs generalizing ls with
  | nil => rfl
  | cons r rs' ih =>
    simp only [List.map_cons]
    rw [(hok (r, ls.headD {}) (by simp [zipLay])).toSequenceM, ih ls.tail (fun p hp => hok p (by simp [zipLay, hp]))]

theorem parseMulti_layoutFile (rs : List GbRec) (ℓ : FileLayout) (hh : ℓ.header = none) (hne : rs ≠ [])
    (hok : ∀ p ∈ zipLay rs ℓ.recs, RecOK p) :
    parseMulti (layoutFile rs ℓ) = .ok (rs.map toSequence) := by
  rw [parseMulti_layoutFile_loose rs ℓ hh hne (fun p hp => (hok p hp).loose), map_toSequenceM rs ℓ.recs hok]

theorem parseFlat_layoutFile (rs : List GbRec) (ℓ : FileLayout) (H : List Str) (hh : ℓ.header = some H)
    (hH : H.length = 10) (hHnl : ∀ l ∈ H, '\n' ∉ l) (hne : rs ≠ []) (hok : ∀ p ∈ zipLay rs ℓ.recs, RecOK p) :
    parseFlat (layoutFile rs ℓ) = .ok (rs.map toSequence) := by
  rw [parseFlat_layoutFile_loose rs ℓ H hh hH hHnl hne (fun p hp => (hok p hp).loose), map_toSequenceM rs ℓ.recs hok]

theorem mem_zipLay (rs : List GbRec) (ls : List RecLayout) (r : GbRec) (h : r ∈ rs) : ∃ l, (r, l) ∈ zipLay rs ls := by
  induction rs generalizing ls with
  | nil => cases h
  | cons a rs' ih =>
    rcases List.mem_cons.mp h with rfl | h
    · exact ⟨ls.headD {}, by simp [zipLay]⟩
    · obtain ⟨l, hl⟩ := ih ls.tail h
      exact ⟨l, by simp [zipLay, hl]⟩

end PolyVerif.Lemmas.Genbank
