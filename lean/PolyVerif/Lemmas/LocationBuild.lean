import PolyVerif.Lemmas.LocationEval
/-
Helper lemmas for C02, part 4: what `BuildLocationString` writes for `embedW w l`, and that the
strict INSDC recogniser reads canonical text back (`insdcParse (print l) = some l`).
-/
namespace PolyVerif.Lemmas.Location
open PolyVerif PolyVerif.Location PolyVerif.Insdc

mutual
/-- the location the writer's text denotes: a single base `n` is written as the span `n..n` -/
def norm : Loc → Loc
  | .span a b lt gt => .span a b lt gt
  | .base n => .span n n false false
  | .join xs => .join (normList xs)
  | .compl x => .compl (norm x)
def normList : List Loc → List Loc
  | [] => []
  | x :: xs => norm x :: normList xs
end

/-- operands each followed by a comma: the writer's loop -/
def printAfter : List Loc → Str
  | [] => []
  | x :: xs => print x ++ ',' :: printAfter xs

theorem printAfter_tail : ∀ (xs : List Loc) (x : Loc),
    print x ++ ',' :: printAfter xs = (print x ++ printTail xs) ++ [',']
  | [], x => by simp [printAfter, printTail]
  | y :: ys, x => by
    have ih := printAfter_tail ys y
    simp only [printAfter, printTail]
    rw [ih]
    simp

theorem trimComma_concat (s : Str) : trimComma (s ++ [',']) = s := by
  simp [trimComma]

theorem buildLoc_setCompl (q : PLoc) (hq : q.complement = false) :
    buildLoc { q with complement := true } = Location.complOpen ++ buildLoc q ++ [')'] := by
  obtain ⟨s, e, c, j, f, t, subs⟩ := q
  simp only at hq
  subst hq
  show buildLoc ⟨s, e, true, j, f, t, subs⟩ = _
  rw [buildLoc.eq_def, buildLoc.eq_def]
  simp

theorem complOpen_eq : Location.complOpen = txtCompl := rfl
theorem joinOpen_eq : Location.joinOpen = txtJoin := rfl

theorem intCast_sub_add (a : Nat) : ((a : Int) - 1 + 1) = (a : Int) := by omega

theorem buildLoc_wrapper (f t : Bool) (q : PLoc) :
    buildLoc { complement := true, five := f, three := t, subs := [q] } = Location.complOpen ++ buildLoc q ++ [')'] := by
  rw [buildLoc.eq_def]
  simp

mutual
/-- the writer's text: canonical INSDC text of `norm l` — provided no span is 3′-partial (there the
writer puts the marker after the end position) -/
theorem buildLoc_embedW (w : Loc → Bool × Bool) : ∀ (l : Loc), arity l = true → hasGt l = false →
    buildLoc (embedW w l) = print (norm l)
  | .span a b lt gt, _, hg => by
    simp only [hasGt] at hg
    subst hg
    rw [embedW, buildLoc.eq_def]
    simp [norm, print, itoaInt_natCast, decimal_eq_itoa]
  | .base n, _, _ => by
    rw [embedW, buildLoc.eq_def]
    simp [norm, print, itoaInt_natCast, decimal_eq_itoa]
  | .join [], ha, _ => by simp [arity] at ha
  | .join (x :: xs), ha, hg => by
    simp only [arity, Bool.and_eq_true] at ha
    simp only [hasGt] at hg
    have ih := buildSubs_embedWList w (x :: xs) ha.2 hg
    simp only [embedWList, normList, printAfter] at ih
    rw [printAfter_tail] at ih
    rw [embedW, buildLoc.eq_def]
    simp only [embedWList, ih, norm, normList, print, joinOpen_eq, if_true, Bool.false_eq_true, if_false]
    rw [← List.append_assoc txtJoin, trimComma_concat]
    simp
  | .compl x, ha, hg => by
    simp only [arity] at ha
    simp only [hasGt] at hg
    have ih := buildLoc_embedW w x ha hg
    simp only [embedW]
    cases hc : (embedW w x).complement
    · simp only [Bool.false_eq_true, if_false]
      rw [buildLoc_setCompl _ hc, ih, complOpen_eq]
      simp [norm, print]
    · simp only [if_true]
      rw [buildLoc_wrapper, ih, complOpen_eq]
      simp [norm, print]
theorem buildSubs_embedWList (w : Loc → Bool × Bool) : ∀ (xs : List Loc), arityList xs = true → hasGtList xs = false →
    buildSubs (embedWList w xs) = printAfter (normList xs)
  | [], _, _ => by simp [embedWList, buildSubs, normList, printAfter]
  | x :: xs, ha, hg => by
    simp only [arityList, Bool.and_eq_true] at ha
    simp only [hasGtList, Bool.or_eq_false_iff] at hg
    simp [embedWList, buildSubs, normList, printAfter, buildLoc_embedW w x ha.1 hg.1,
      buildSubs_embedWList w xs ha.2 hg.2]
end

/-! ### `norm` keeps the reading, the ends and well-formedness -/

mutual
theorem denote_norm : ∀ (l : Loc) (p : Str), denote (norm l) p = denote l p
  | .span _ _ _ _, _ => rfl
  | .base _, _ => by simp [norm, denote]
  | .join xs, p => by simp [norm, denote, denoteList_normList xs p]
  | .compl x, p => by simp [norm, denote, denote_norm x p]
theorem denoteList_normList : ∀ (xs : List Loc) (p : Str), denoteList (normList xs) p = denoteList xs p
  | [], _ => rfl
  | x :: xs, p => by simp [normList, denoteList, denote_norm x p, denoteList_normList xs p]
end

mutual
theorem ends_norm : ∀ (l : Loc), ends (norm l) = ends l
  | .span _ _ _ _ => rfl
  | .base _ => rfl
  | .join xs => by simp [norm, ends, endsList_normList xs]
  | .compl x => by simp [norm, ends, ends_norm x]
theorem endsList_normList : ∀ (xs : List Loc), endsList (normList xs) = endsList xs
  | [] => rfl
  | x :: xs => by simp [normList, endsList, ends_norm x, endsList_normList xs]
end

theorem length_normList : ∀ (xs : List Loc), (normList xs).length = xs.length
  | [] => rfl
  | x :: xs => by simp [normList, length_normList xs]

mutual
theorem inRange_norm : ∀ (l : Loc) (n : Nat), inRange l n = true → inRange (norm l) n = true
  | .span _ _ _ _, _, h => h
  | .base k, n, h => by
    simp only [inRange, Bool.and_eq_true, decide_eq_true_eq] at h
    simp [norm, inRange, h.1, h.2]
  | .join xs, n, h => by
    simp only [inRange] at h
    simp [norm, inRange, inRangeList_normList xs n h]
  | .compl x, n, h => by
    simp only [inRange] at h
    simp [norm, inRange, inRange_norm x n h]
theorem inRangeList_normList : ∀ (xs : List Loc) (n : Nat), inRangeList xs n = true → inRangeList (normList xs) n = true
  | [], _, _ => rfl
  | x :: xs, n, h => by
    simp only [inRangeList, Bool.and_eq_true] at h
    simp [normList, inRangeList, inRange_norm x n h.1, inRangeList_normList xs n h.2]
end

mutual
theorem arity_norm : ∀ (l : Loc), arity l = true → arity (norm l) = true
  | .span _ _ _ _, _ => rfl
  | .base _, _ => rfl
  | .join xs, h => by
    simp only [arity, Bool.and_eq_true, decide_eq_true_eq] at h
    simp [norm, arity, length_normList, h.1, arityList_normList xs h.2]
  | .compl x, h => by
    simp only [arity] at h
    simp [norm, arity, arity_norm x h]
theorem arityList_normList : ∀ (xs : List Loc), arityList xs = true → arityList (normList xs) = true
  | [], _ => rfl
  | x :: xs, h => by
    simp only [arityList, Bool.and_eq_true] at h
    simp [normList, arityList, arity_norm x h.1, arityList_normList xs h.2]
end

/-! ### the strict recogniser reads canonical text back -/

/-- what may follow a location inside a location: nothing, `)` or `,` -/
def Stop (s : Str) : Prop := ∀ c t, s = c :: t → c = ')' ∨ c = ','

theorem Stop.nil : Stop [] := by intro c t h; cases h
theorem Stop.close (r : Str) : Stop (')' :: r) := by
  intro c t h; cases h; exact Or.inl rfl
theorem Stop.comma (r : Str) : Stop (',' :: r) := by
  intro c t h; cases h; exact Or.inr rfl

theorem Stop.noDig {s : Str} (h : Stop s) : NoDigHead s := by
  intro c t e
  rcases h c t e with rfl | rfl <;> decide

theorem Stop.noDots {s : Str} (h : Stop s) : stripPrefix ['.', '.'] s = none := by
  cases s with
  | nil => rfl
  | cons c t =>
    rcases h c t rfl with rfl | rfl <;> simp [stripPrefix]

theorem stripPrefix_append : ∀ (a r : Str), stripPrefix a (a ++ r) = some r
  | [], r => by cases r <;> rfl
  | x :: a, r => by simp [stripPrefix, stripPrefix_append a r]

theorem stripPrefix_head_ne (x : Char) (a : Str) (c : Char) (r : Str) (h : x ≠ c) :
    stripPrefix (x :: a) (c :: r) = none := by
  simp [stripPrefix, h]

theorem marker_strip (m : Char) (b : Bool) (c : Char) (t : Str) (hc : c ≠ m) :
    ((((if b then [m] else []) ++ c :: t).head? == some m) = b) ∧
    ((if b then ((if b then [m] else []) ++ c :: t).drop 1 else ((if b then [m] else []) ++ c :: t)) = c :: t) := by
  cases b <;> simp [hc]

theorem readLeaf_span (a b : Nat) (lt gt : Bool) (rest : Str) (h1 : 1 ≤ a) (h2 : a ≤ b) (hr : Stop rest) :
    readLeaf (print (.span a b lt gt) ++ rest) = some (.span a b lt gt, rest) := by
  rw [print_span]
  obtain ⟨ca, ta, hsa, hca⟩ := itoa_cons a
  obtain ⟨cb, tb, hsb, hcb⟩ := itoa_cons b
  have na := isDig_ne hca
  have nb := isDig_ne hcb
  have dots : NoDigHead ('.' :: '.' :: ((if gt then ['>'] else []) ++ (itoa b ++ rest))) := by
    intro c t e; cases e; decide
  have r1 := readNat_itoa a _ dots
  have r2 := readNat_itoa b rest hr.noDig
  have e1 : (if lt then ['<'] else []) ++ (itoa a ++ ['.', '.'] ++ ((if gt then ['>'] else []) ++ itoa b)) ++ rest
      = (if lt then ['<'] else []) ++ ca :: (ta ++ '.' :: '.' :: ((if gt then ['>'] else []) ++ (itoa b ++ rest))) := by
    rw [hsa]; simp
  have m1 := marker_strip '<' lt ca (ta ++ '.' :: '.' :: ((if gt then ['>'] else []) ++ (itoa b ++ rest))) na.2.2.1
  have e2 : (if gt then ['>'] else []) ++ (itoa b ++ rest) = (if gt then ['>'] else []) ++ cb :: (tb ++ rest) := by
    rw [hsb]; simp
  have m2 := marker_strip '>' gt cb (tb ++ rest) nb.2.2.2.1
  unfold readLeaf
  rw [e1]
  simp only [m1.1, m1.2]
  rw [hsa] at r1
  rw [hsb] at r2
  simp only [List.cons_append] at r1 r2
  rw [r1]
  have sp : stripPrefix ['.', '.'] ('.' :: '.' :: ((if gt then ['>'] else []) ++ (itoa b ++ rest))) =
      some ((if gt then ['>'] else []) ++ (itoa b ++ rest)) := stripPrefix_append ['.', '.'] _
  simp only [sp]
  rw [e2]
  simp only [m2.1]
  simp only [m2.2, r2]
  simp [h1, h2]

theorem readLeaf_base (n : Nat) (rest : Str) (h1 : 1 ≤ n) (hr : Stop rest) :
    readLeaf (print (.base n) ++ rest) = some (.base n, rest) := by
  rw [print_base]
  obtain ⟨cn, tn, hsn, hcn⟩ := itoa_cons n
  have nn := isDig_ne hcn
  have r1 := readNat_itoa n rest hr.noDig
  rw [hsn] at r1 ⊢
  simp only [List.cons_append] at r1 ⊢
  unfold readLeaf
  simp only [List.head?_cons, Option.some.injEq, beq_iff_eq, nn.2.2.1, if_false, r1, hr.noDots]
  simp [h1]

theorem readLoc_leaf (f : Nat) (c : Char) (t : Str) (hc : c ≠ 'c') (hj : c ≠ 'j') :
    readLoc (f + 1) (c :: t) = readLeaf (c :: t) := by
  unfold readLoc
  simp [txtCompl, txtJoin, stripPrefix, Ne.symm hc, Ne.symm hj]

theorem span_head (a b : Nat) (lt gt : Bool) (rest : Str) :
    ∃ c t, print (.span a b lt gt) ++ rest = c :: t ∧ c ≠ 'c' ∧ c ≠ 'j' := by
  rw [print_span]
  obtain ⟨ca, ta, hsa, hca⟩ := itoa_cons a
  have na := isDig_ne hca
  cases lt
  · exact ⟨ca, _, by rw [hsa]; simp; rfl, na.2.2.2.2.2.2.2.2.1, na.2.2.2.2.2.2.2.2.2⟩
  · exact ⟨'<', _, by simp; rfl, by decide, by decide⟩

theorem base_head (n : Nat) (rest : Str) :
    ∃ c t, print (.base n) ++ rest = c :: t ∧ c ≠ 'c' ∧ c ≠ 'j' := by
  rw [print_base]
  obtain ⟨cn, tn, hsn, hcn⟩ := itoa_cons n
  have nn := isDig_ne hcn
  exact ⟨cn, _, by rw [hsn]; rfl, nn.2.2.2.2.2.2.2.2.1, nn.2.2.2.2.2.2.2.2.2⟩

theorem stop_tail : ∀ (xs : List Loc) (rest : Str), Stop (printTail xs ++ ')' :: rest)
  | [], rest => by simpa [printTail] using Stop.close rest
  | x :: xs, rest => by simpa [printTail] using Stop.comma _

theorem stripCompl_join (r : Str) : stripPrefix txtCompl (txtJoin ++ r) = none := by
  simp [txtCompl, txtJoin, stripPrefix]

mutual
/-- the recogniser reads a printed location at the head of the input and stops right after it -/
theorem readLoc_print : ∀ (l : Loc) (n f : Nat) (rest : Str), inRange l n = true → arity l = true →
    (print l).length + rest.length < f → Stop rest → readLoc f (print l ++ rest) = some (l, rest)
  | .span a b lt gt, n, f, rest, hr, _, hf, hs => by
    cases f with
    | zero => omega
    | succ f =>
      simp only [inRange, Bool.and_eq_true, decide_eq_true_eq] at hr
      obtain ⟨c, t, e, hc, hj⟩ := span_head a b lt gt rest
      rw [e, readLoc_leaf f c t hc hj, ← e]
      exact readLeaf_span a b lt gt rest hr.1.1 hr.1.2 hs
  | .base k, n, f, rest, hr, _, hf, hs => by
    cases f with
    | zero => omega
    | succ f =>
      simp only [inRange, Bool.and_eq_true, decide_eq_true_eq] at hr
      obtain ⟨c, t, e, hc, hj⟩ := base_head k rest
      rw [e, readLoc_leaf f c t hc hj, ← e]
      exact readLeaf_base k rest hr.1 hs
  | .join [], _, _, _, _, ha, _, _ => by simp [arity] at ha
  | .join [_], _, _, _, _, ha, _, _ => by simp [arity] at ha
  | .join (x :: y :: ys), n, f, rest, hr, ha, hf, hs => by
    cases f with
    | zero => omega
    | succ f =>
      simp only [inRange, inRangeList, Bool.and_eq_true] at hr
      simp only [arity, arityList, Bool.and_eq_true] at ha
      have hlen : (print (.join (x :: y :: ys))).length = 5 + ((print x).length + ((printTail (y :: ys)).length + 1)) := by
        simp only [print, txtJoin, List.length_append, List.length_cons, List.length_nil]
      have ihx := readLoc_print x n f (printTail (y :: ys) ++ ')' :: rest) hr.1 ha.2.1
        (by simp only [List.length_append, List.length_cons]; omega) (stop_tail _ _)
      have iht := readTail_printTail (y :: ys) n f rest (by simp [inRangeList, hr.2.1, hr.2.2])
        (by simp [arityList, ha.2.2.1, ha.2.2.2]) (by omega)
      have e : print (.join (x :: y :: ys)) ++ rest =
          txtJoin ++ (print x ++ (printTail (y :: ys) ++ ')' :: rest)) := by
        simp [print]
      rw [e]
      unfold readLoc
      simp only [stripCompl_join, stripPrefix_append, ihx, iht]
  | .compl x, n, f, rest, hr, ha, hf, hs => by
    cases f with
    | zero => omega
    | succ f =>
      simp only [inRange] at hr
      simp only [arity] at ha
      have hlen : (print (.compl x)).length = 11 + ((print x).length + 1) := by
        simp only [print, txtCompl, List.length_append, List.length_cons, List.length_nil]
      have ihx := readLoc_print x n f (')' :: rest) hr ha
        (by simp only [List.length_cons]; omega) (Stop.close rest)
      have e : print (.compl x) ++ rest = txtCompl ++ (print x ++ ')' :: rest) := by
        simp [print]
      rw [e]
      unfold readLoc
      simp only [stripPrefix_append, ihx]
theorem readTail_printTail : ∀ (xs : List Loc) (n f : Nat) (rest : Str), inRangeList xs n = true → arityList xs = true →
    (printTail xs).length + rest.length + 1 < f →
    readTail f (printTail xs ++ ')' :: rest) = some (xs, ')' :: rest)
  | [], _, f, rest, _, _, hf => by
    cases f with
    | zero => omega
    | succ f =>
      simp only [printTail, List.nil_append]
      unfold readTail
      rfl
  | x :: xs, n, f, rest, hr, ha, hf => by
    cases f with
    | zero => omega
    | succ f =>
      simp only [inRangeList, Bool.and_eq_true] at hr
      simp only [arityList, Bool.and_eq_true] at ha
      rw [length_printTail_cons] at hf
      have ihx := readLoc_print x n f (printTail xs ++ ')' :: rest) hr.1 ha.1
        (by simp only [List.length_append, List.length_cons]; omega) (stop_tail _ _)
      have iht := readTail_printTail xs n f rest hr.2 ha.2 (by omega)
      have e : printTail (x :: xs) ++ ')' :: rest = ',' :: (print x ++ (printTail xs ++ ')' :: rest)) := by
        simp [printTail]
      rw [e]
      unfold readTail
      simp only [ihx, iht]
end

/-- canonical text is accepted by the strict recogniser, which returns the tree it was printed from -/
theorem insdcParse_print (l : Loc) (n : Nat) (hr : inRange l n = true) (ha : arity l = true) :
    insdcParse (print l) = some l := by
  have h := readLoc_print l n ((print l).length + 1) [] hr ha (by simp) Stop.nil
  rw [List.append_nil] at h
  simp [insdcParse, h]

end PolyVerif.Lemmas.Location
