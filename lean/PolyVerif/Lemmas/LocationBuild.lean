import PolyVerif.Lemmas.LocationEval
/-
Helper lemmas for C02, part 4: the two text styles (`tprint false` = canonical INSDC text =
`print`; `tprint true` = the writer's style, 3′ marker after the end position), `norm` (a single
base is written as `n..n`), and the recogniser round trip: the strict recogniser reads canonical
text back, the lenient one reads both styles back.
-/
namespace PolyVerif.Lemmas.Location
open PolyVerif PolyVerif.Location PolyVerif.Insdc

mutual
/-- the location the writer's text denotes: a single base `n` is written as the span `n..n` -/
def norm : Loc → Loc
  | .span a b lt gt => .span a b lt gt
  | .base n => .span n n false false
  | .join xs => .join (normList xs)
  | .compl x => .compl (norm x)
def normList : List Loc → List Loc
  | [] => []
  | x :: xs => norm x :: normList xs
end

mutual
/-- location text; `w = false`: canonical (`a..>b`), `w = true`: as BuildLocationString writes a
3′-partial span (`a..b>`) -/
def tprint (w : Bool) : Loc → Str
  | .span a b lt gt =>
    (if lt then ['<'] else []) ++ (itoa a ++ ['.', '.'] ++
      (if w then itoa b ++ (if gt then ['>'] else []) else (if gt then ['>'] else []) ++ itoa b))
  | .base n => itoa n
  | .join [] => txtJoin ++ [')']
  | .join (x :: xs) => txtJoin ++ (tprint w x ++ (tprintTail w xs ++ [')']))
  | .compl x => txtCompl ++ (tprint w x ++ [')'])
def tprintTail (w : Bool) : List Loc → Str
  | [] => []
  | x :: xs => ',' :: (tprint w x ++ tprintTail w xs)
end

mutual
theorem tprint_false : ∀ (l : Loc), tprint false l = print l
  | .span a b lt gt => by simp [tprint, print, decimal_eq_itoa]
  | .base n => by simp [tprint, print, decimal_eq_itoa]
  | .join [] => by simp [tprint, print]
  | .join (x :: xs) => by simp [tprint, print, tprint_false x, tprintTail_false xs]
  | .compl x => by simp [tprint, print, tprint_false x]
theorem tprintTail_false : ∀ (xs : List Loc), tprintTail false xs = printTail xs
  | [] => rfl
  | x :: xs => by simp [tprintTail, printTail, tprint_false x, tprintTail_false xs]
end

mutual
/-- without a 3′-partial span the writer's style is the canonical text -/
theorem tprint_noGt : ∀ (l : Loc), hasGt l = false → tprint true l = tprint false l
  | .span a b lt gt, h => by
    simp only [hasGt] at h
    subst h
    simp [tprint]
  | .base n, _ => rfl
  | .join [], _ => rfl
  | .join (x :: xs), h => by
    simp only [hasGt, hasGtList, Bool.or_eq_false_iff] at h
    simp [tprint, tprint_noGt x h.1, tprintTail_noGt xs h.2]
  | .compl x, h => by
    simp only [hasGt] at h
    simp [tprint, tprint_noGt x h]
theorem tprintTail_noGt : ∀ (xs : List Loc), hasGtList xs = false → tprintTail true xs = tprintTail false xs
  | [], _ => rfl
  | x :: xs, h => by
    simp only [hasGtList, Bool.or_eq_false_iff] at h
    simp [tprintTail, tprint_noGt x h.1, tprintTail_noGt xs h.2]
end

/-- operands each followed by a comma: the writer's loop -/
def tprintAfter (w : Bool) : List Loc → Str
  | [] => []
  | x :: xs => tprint w x ++ ',' :: tprintAfter w xs

theorem tprintAfter_tail (w : Bool) : ∀ (xs : List Loc) (x : Loc),
    tprint w x ++ ',' :: tprintAfter w xs = (tprint w x ++ tprintTail w xs) ++ [',']
  | [], x => by simp [tprintAfter, tprintTail]
  | y :: ys, x => by
    have ih := tprintAfter_tail w ys y
    simp only [tprintAfter, tprintTail]
    rw [ih]
    simp

theorem trimComma_concat (s : Str) : trimComma (s ++ [',']) = s := by
  simp [trimComma]

theorem complOpen_eq : Location.complOpen = txtCompl := rfl
theorem joinOpen_eq : Location.joinOpen = txtJoin := rfl

theorem intCast_sub_add (a : Nat) : ((a : Int) - 1 + 1) = (a : Int) := by omega

/-! ### `norm` keeps the reading, the ends and well-formedness -/

mutual
theorem denote_norm : ∀ (l : Loc) (p : Str), denote (norm l) p = denote l p
  | .span _ _ _ _, _ => rfl
  | .base _, _ => by simp [norm, denote]
  | .join xs, p => by simp [norm, denote, denoteList_normList xs p]
  | .compl x, p => by simp [norm, denote, denote_norm x p]
theorem denoteList_normList : ∀ (xs : List Loc) (p : Str), denoteList (normList xs) p = denoteList xs p
  | [], _ => rfl
  | x :: xs, p => by simp [normList, denoteList, denote_norm x p, denoteList_normList xs p]
end

mutual
theorem ends_norm : ∀ (l : Loc), ends (norm l) = ends l
  | .span _ _ _ _ => rfl
  | .base _ => rfl
  | .join xs => by simp [norm, ends, endsList_normList xs]
  | .compl x => by simp [norm, ends, ends_norm x]
theorem endsList_normList : ∀ (xs : List Loc), endsList (normList xs) = endsList xs
  | [] => rfl
  | x :: xs => by simp [normList, endsList, ends_norm x, endsList_normList xs]
end

mutual
theorem hasGt_norm : ∀ (l : Loc), hasGt (norm l) = hasGt l
  | .span _ _ _ _ => rfl
  | .base _ => rfl
  | .join xs => by simp [norm, hasGt, hasGtList_normList xs]
  | .compl x => by simp [norm, hasGt, hasGt_norm x]
theorem hasGtList_normList : ∀ (xs : List Loc), hasGtList (normList xs) = hasGtList xs
  | [] => rfl
  | x :: xs => by simp [normList, hasGtList, hasGt_norm x, hasGtList_normList xs]
end

theorem length_normList : ∀ (xs : List Loc), (normList xs).length = xs.length
  | [] => rfl
  | x :: xs => by simp [normList, length_normList xs]

mutual
theorem inRange_norm : ∀ (l : Loc) (n : Nat), inRange l n = true → inRange (norm l) n = true
  | .span _ _ _ _, _, h => h
  | .base k, n, h => by
    simp only [inRange, Bool.and_eq_true, decide_eq_true_eq] at h
    simp [norm, inRange, h.1, h.2]
  | .join xs, n, h => by
    simp only [inRange] at h
    simp [norm, inRange, inRangeList_normList xs n h]
  | .compl x, n, h => by
    simp only [inRange] at h
    simp [norm, inRange, inRange_norm x n h]
theorem inRangeList_normList : ∀ (xs : List Loc) (n : Nat), inRangeList xs n = true → inRangeList (normList xs) n = true
  | [], _, _ => rfl
  | x :: xs, n, h => by
    simp only [inRangeList, Bool.and_eq_true] at h
    simp [normList, inRangeList, inRange_norm x n h.1, inRangeList_normList xs n h.2]
end

mutual
theorem arity_norm : ∀ (l : Loc), arity l = true → arity (norm l) = true
  | .span _ _ _ _, _ => rfl
  | .base _, _ => rfl
  | .join xs, h => by
    simp only [arity, Bool.and_eq_true, decide_eq_true_eq] at h
    simp [norm, arity, length_normList, h.1, arityList_normList xs h.2]
  | .compl x, h => by
    simp only [arity] at h
    simp [norm, arity, arity_norm x h]
theorem arityList_normList : ∀ (xs : List Loc), arityList xs = true → arityList (normList xs) = true
  | [], _ => rfl
  | x :: xs, h => by
    simp only [arityList, Bool.and_eq_true] at h
    simp [normList, arityList, arity_norm x h.1, arityList_normList xs h.2]
end

/-! ### the recogniser reads the text back -/

/-- what may follow a location inside a location: nothing, `)` or `,` -/
def Stop (s : Str) : Prop := ∀ c t, s = c :: t → c = ')' ∨ c = ','

theorem Stop.nil : Stop [] := by intro c t h; cases h
theorem Stop.close (r : Str) : Stop (')' :: r) := by
  intro c t h; cases h; exact Or.inl rfl
theorem Stop.comma (r : Str) : Stop (',' :: r) := by
  intro c t h; cases h; exact Or.inr rfl

theorem Stop.noDig {s : Str} (h : Stop s) : NoDigHead s := by
  intro c t e
  rcases h c t e with rfl | rfl <;> decide

theorem Stop.noDots {s : Str} (h : Stop s) : stripPrefix ['.', '.'] s = none := by
  cases s with
  | nil => rfl
  | cons c t =>
    rcases h c t rfl with rfl | rfl <;> simp [stripPrefix]

theorem stripPrefix_append : ∀ (a r : Str), stripPrefix a (a ++ r) = some r
  | [], r => by cases r <;> rfl
  | x :: a, r => by simp [stripPrefix, stripPrefix_append a r]

theorem stripPrefix_head_ne (x : Char) (a : Str) (c : Char) (r : Str) (h : x ≠ c) :
    stripPrefix (x :: a) (c :: r) = none := by
  simp [stripPrefix, h]

theorem Stop.noGtHead {s : Str} (h : Stop s) : (s.head? == some '>') = false := by
  cases s with
  | nil => rfl
  | cons c t =>
    rcases h c t rfl with rfl | rfl <;> simp

theorem marker_strip (m : Char) (b : Bool) (c : Char) (t : Str) (hc : c ≠ m) :
    ((((if b then [m] else []) ++ c :: t).head? == some m) = b) ∧
    ((if b then ((if b then [m] else []) ++ c :: t).drop 1 else ((if b then [m] else []) ++ c :: t)) = c :: t) := by
  cases b <;> simp [hc]

/-- the common first half of reading a span: `[<] a ..` -/
theorem readLeaf_front (len : Bool) (a : Nat) (lt : Bool) (tail : Str) (h1 : 1 ≤ a) :
    readLeaf len ((if lt then ['<'] else []) ++ (itoa a ++ '.' :: '.' :: tail)) =
      (let gt := tail.head? == some '>'
       let s4 := if gt then tail.drop 1 else tail
       match readNat s4 with
       | none => none
       | some (b, s5) =>
         if 1 ≤ a ∧ a ≤ b then
           if len && !gt && s5.head? == some '>' then some (.span a b lt true, s5.drop 1)
           else some (.span a b lt gt, s5)
         else none) := by
  obtain ⟨ca, ta, hsa, hca⟩ := itoa_cons a
  have na := isDig_ne hca
  have dots : NoDigHead ('.' :: '.' :: tail) := by
    intro c t e; cases e; decide
  have r1 := readNat_itoa a _ h1 dots
  have m1 := marker_strip '<' lt ca (ta ++ '.' :: '.' :: tail) na.2.2.1
  have sp : stripPrefix ['.', '.'] ('.' :: '.' :: tail) = some tail := stripPrefix_append ['.', '.'] _
  rw [hsa] at r1 ⊢
  simp only [List.cons_append] at r1 ⊢
  unfold readLeaf
  simp only [m1.1, m1.2]
  rw [r1]
  simp only [sp]
  rfl

theorem readLeaf_span (len w : Bool) (hw : w = true → len = true) (a b : Nat) (lt gt : Bool) (rest : Str)
    (h1 : 1 ≤ a) (h2 : a ≤ b) (hr : Stop rest) :
    readLeaf len (tprint w (.span a b lt gt) ++ rest) = some (.span a b lt gt, rest) := by
  obtain ⟨cb, tb, hsb, hcb⟩ := itoa_cons b
  have nb := isDig_ne hcb
  cases w
  · -- canonical text
    have e : tprint false (.span a b lt gt) ++ rest =
        (if lt then ['<'] else []) ++ (itoa a ++ '.' :: '.' :: ((if gt then ['>'] else []) ++ cb :: (tb ++ rest))) := by
      simp [tprint, hsb]
    rw [e, readLeaf_front len a lt _ h1]
    have m2 := marker_strip '>' gt cb (tb ++ rest) nb.2.2.2.1
    have r2 := readNat_itoa b rest (by omega) hr.noDig
    rw [hsb] at r2
    simp only [List.cons_append] at r2
    simp only [m2.1]
    simp only [m2.2, r2, hr.noGtHead]
    simp [h1, h2]
  · -- the writer's style
    have hl : len = true := hw rfl
    subst hl
    have e : tprint true (.span a b lt gt) ++ rest =
        (if lt then ['<'] else []) ++ (itoa a ++ '.' :: '.' :: (cb :: (tb ++ ((if gt then ['>'] else []) ++ rest)))) := by
      simp [tprint, hsb]
    rw [e, readLeaf_front true a lt _ h1]
    have nd : NoDigHead ((if gt then ['>'] else []) ++ rest) := by
      cases gt
      · simpa using hr.noDig
      · intro c t e; cases e; decide
    have r2 := readNat_itoa b _ (by omega) nd
    rw [hsb] at r2
    simp only [List.cons_append] at r2
    have hh : ((cb :: (tb ++ ((if gt then ['>'] else []) ++ rest))).head? == some '>') = false := by
      simp [nb.2.2.2.1]
    simp only [hh, Bool.false_eq_true, if_false, r2]
    cases gt
    · simp [h1, h2, hr.noGtHead]
    · simp [h1, h2]

theorem readLeaf_base (len w : Bool) (n : Nat) (rest : Str) (h1 : 1 ≤ n) (hr : Stop rest) :
    readLeaf len (tprint w (.base n) ++ rest) = some (.base n, rest) := by
  obtain ⟨cn, tn, hsn, hcn⟩ := itoa_cons n
  have nn := isDig_ne hcn
  have r1 := readNat_itoa n rest h1 hr.noDig
  simp only [tprint]
  rw [hsn] at r1 ⊢
  simp only [List.cons_append] at r1 ⊢
  unfold readLeaf
  simp only [List.head?_cons, Option.some.injEq, beq_iff_eq, nn.2.2.1, if_false, r1, hr.noDots]
  simp [h1]

theorem readLoc_leaf (len : Bool) (f : Nat) (c : Char) (t : Str) (hc : c ≠ 'c') (hj : c ≠ 'j') :
    readLoc len (f + 1) (c :: t) = readLeaf len (c :: t) := by
  unfold readLoc
  simp [txtCompl, txtJoin, stripPrefix, Ne.symm hc, Ne.symm hj]

theorem span_head (w : Bool) (a b : Nat) (lt gt : Bool) (rest : Str) :
    ∃ c t, tprint w (.span a b lt gt) ++ rest = c :: t ∧ c ≠ 'c' ∧ c ≠ 'j' := by
  obtain ⟨ca, ta, hsa, hca⟩ := itoa_cons a
  have na := isDig_ne hca
  cases lt
  · exact ⟨ca, _, by simp [tprint, hsa]; rfl, na.2.2.2.2.2.2.2.2.1, na.2.2.2.2.2.2.2.2.2⟩
  · exact ⟨'<', _, by simp [tprint]; rfl, by decide, by decide⟩

theorem base_head (w : Bool) (n : Nat) (rest : Str) :
    ∃ c t, tprint w (.base n) ++ rest = c :: t ∧ c ≠ 'c' ∧ c ≠ 'j' := by
  obtain ⟨cn, tn, hsn, hcn⟩ := itoa_cons n
  have nn := isDig_ne hcn
  exact ⟨cn, _, by simp [tprint, hsn]; rfl, nn.2.2.2.2.2.2.2.2.1, nn.2.2.2.2.2.2.2.2.2⟩

theorem stop_tail (w : Bool) : ∀ (xs : List Loc) (rest : Str), Stop (tprintTail w xs ++ ')' :: rest)
  | [], rest => by simpa [tprintTail] using Stop.close rest
  | x :: xs, rest => by simpa [tprintTail] using Stop.comma _

theorem stripCompl_join (r : Str) : stripPrefix txtCompl (txtJoin ++ r) = none := by
  simp [txtCompl, txtJoin, stripPrefix]

theorem length_tprintTail_cons (w : Bool) (x : Loc) (xs : List Loc) :
    (tprintTail w (x :: xs)).length = 1 + (tprint w x).length + (tprintTail w xs).length := by
  simp [tprintTail]; omega

mutual
/-- the recogniser reads a printed location at the head of the input and stops right after it
(the writer's style needs the lenient recogniser) -/
theorem readLoc_tprint (len w : Bool) (hw : w = true → len = true) : ∀ (l : Loc) (n f : Nat) (rest : Str),
    inRange l n = true → arity l = true → (tprint w l).length + rest.length < f → Stop rest →
    readLoc len f (tprint w l ++ rest) = some (l, rest)
  | .span a b lt gt, n, f, rest, hr, _, hf, hs => by
    cases f with
    | zero => omega
    | succ f =>
      simp only [inRange, Bool.and_eq_true, decide_eq_true_eq] at hr
      obtain ⟨c, t, e, hc, hj⟩ := span_head w a b lt gt rest
      rw [e, readLoc_leaf len f c t hc hj, ← e]
      exact readLeaf_span len w hw a b lt gt rest hr.1.1 hr.1.2 hs
  | .base k, n, f, rest, hr, _, hf, hs => by
    cases f with
    | zero => omega
    | succ f =>
      simp only [inRange, Bool.and_eq_true, decide_eq_true_eq] at hr
      obtain ⟨c, t, e, hc, hj⟩ := base_head w k rest
      rw [e, readLoc_leaf len f c t hc hj, ← e]
      exact readLeaf_base len w k rest hr.1 hs
  | .join [], _, _, _, _, ha, _, _ => by simp [arity] at ha
  | .join [_], _, _, _, _, ha, _, _ => by simp [arity] at ha
  | .join (x :: y :: ys), n, f, rest, hr, ha, hf, hs => by
    cases f with
    | zero => omega
    | succ f =>
      simp only [inRange, inRangeList, Bool.and_eq_true] at hr
      simp only [arity, arityList, Bool.and_eq_true] at ha
      have hlen : (tprint w (.join (x :: y :: ys))).length =
          5 + ((tprint w x).length + ((tprintTail w (y :: ys)).length + 1)) := by
        simp only [tprint, txtJoin, List.length_append, List.length_cons, List.length_nil]
      have ihx := readLoc_tprint len w hw x n f (tprintTail w (y :: ys) ++ ')' :: rest) hr.1 ha.2.1
        (by simp only [List.length_append, List.length_cons]; omega) (stop_tail w _ _)
      have iht := readTail_tprintTail len w hw (y :: ys) n f rest (by simp [inRangeList, hr.2.1, hr.2.2])
        (by simp [arityList, ha.2.2.1, ha.2.2.2]) (by omega)
      have e : tprint w (.join (x :: y :: ys)) ++ rest =
          txtJoin ++ (tprint w x ++ (tprintTail w (y :: ys) ++ ')' :: rest)) := by
        simp [tprint]
      rw [e]
      unfold readLoc
      simp only [stripCompl_join, stripPrefix_append, ihx, iht]
  | .compl x, n, f, rest, hr, ha, hf, hs => by
    cases f with
    | zero => omega
    | succ f =>
      simp only [inRange] at hr
      simp only [arity] at ha
      have hlen : (tprint w (.compl x)).length = 11 + ((tprint w x).length + 1) := by
        simp only [tprint, txtCompl, List.length_append, List.length_cons, List.length_nil]
      have ihx := readLoc_tprint len w hw x n f (')' :: rest) hr ha
        (by simp only [List.length_cons]; omega) (Stop.close rest)
      have e : tprint w (.compl x) ++ rest = txtCompl ++ (tprint w x ++ ')' :: rest) := by
        simp [tprint]
      rw [e]
      unfold readLoc
      simp only [stripPrefix_append, ihx]
theorem readTail_tprintTail (len w : Bool) (hw : w = true → len = true) : ∀ (xs : List Loc) (n f : Nat) (rest : Str),
    inRangeList xs n = true → arityList xs = true → (tprintTail w xs).length + rest.length + 1 < f →
    readTail len f (tprintTail w xs ++ ')' :: rest) = some (xs, ')' :: rest)
  | [], _, f, rest, _, _, hf => by
    cases f with
    | zero => omega
    | succ f =>
      simp only [tprintTail, List.nil_append]
      unfold readTail
      rfl
  | x :: xs, n, f, rest, hr, ha, hf => by
    cases f with
    | zero => omega
    | succ f =>
      simp only [inRangeList, Bool.and_eq_true] at hr
      simp only [arityList, Bool.and_eq_true] at ha
      rw [length_tprintTail_cons] at hf
      have ihx := readLoc_tprint len w hw x n f (tprintTail w xs ++ ')' :: rest) hr.1 ha.1
        (by simp only [List.length_append, List.length_cons]; omega) (stop_tail w _ _)
      have iht := readTail_tprintTail len w hw xs n f rest hr.2 ha.2 (by omega)
      have e : tprintTail w (x :: xs) ++ ')' :: rest = ',' :: (tprint w x ++ (tprintTail w xs ++ ')' :: rest)) := by
        simp [tprintTail]
      rw [e]
      unfold readTail
      simp only [ihx, iht]
end

theorem parseWith_tprint (len w : Bool) (hw : w = true → len = true) (l : Loc) (n : Nat)
    (hr : inRange l n = true) (ha : arity l = true) : parseWith len (tprint w l) = some l := by
  have h := readLoc_tprint len w hw l n ((tprint w l).length + 1) [] hr ha (by simp) Stop.nil
  rw [List.append_nil] at h
  simp [parseWith, h]

/-- canonical text is accepted by the strict recogniser, which returns the tree it was printed from -/
theorem insdcParse_print (l : Loc) (n : Nat) (hr : inRange l n = true) (ha : arity l = true) :
    insdcParse (print l) = some l := by
  rw [← tprint_false]
  exact parseWith_tprint false false (by intro h; cases h) l n hr ha

/-- the lenient recogniser reads both styles back -/
theorem insdcLenient_tprint (w : Bool) (l : Loc) (n : Nat) (hr : inRange l n = true) (ha : arity l = true) :
    insdcLenient (tprint w l) = some l :=
  parseWith_tprint true w (fun _ => rfl) l n hr ha

end PolyVerif.Lemmas.Location
