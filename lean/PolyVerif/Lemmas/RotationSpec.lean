import Mathlib.Data.List.Rotate
import PolyVerif.Spec.Rotation
/-
Theory of the rotation spec (`Spec/Rotation.lean`): `rotl`, the byte-lexicographic order
`lexLt / lexLe / lexMin`, `rotations`, `leastRotation`, `leastIndex`, `IsRotation`.

Nothing here mentions the Booth loop; the file is shared by Props/C12, Props/C04, Props/C05
(and may be imported by Props/C12Booth).  `rotl` is connected once to Mathlib's `List.rotate`
(`rotl_eq_rotate`) and the group-like laws are imported from there.
-/
namespace PolyVerif.Spec
open PolyVerif

/-! ### `rotl` -/

section Rotl
variable {α β : Type _}

theorem rotl_eq_rotate (k : Nat) (s : List α) : rotl k s = s.rotate k := by
  simp [rotl, List.rotate]

theorem rotl_length (k : Nat) (s : List α) : (rotl k s).length = s.length := by
  rw [rotl_eq_rotate, List.length_rotate]

@[simp] theorem rotl_nil (k : Nat) : rotl k ([] : List α) = [] := by
  rw [rotl_eq_rotate, List.rotate_nil]

theorem rotl_zero (s : List α) : rotl 0 s = s := by
  rw [rotl_eq_rotate, List.rotate_zero]

/-- a full turn is the identity -/
theorem rotl_length_self (s : List α) : rotl s.length s = s := by
  rw [rotl_eq_rotate, List.rotate_length]

theorem rotl_mod (k : Nat) (s : List α) : rotl (k % s.length) s = rotl k s := by
  rw [rotl_eq_rotate, rotl_eq_rotate, List.rotate_mod]

/-- rotations compose by adding the offsets -/
theorem rotl_rotl (a b : Nat) (s : List α) : rotl a (rotl b s) = rotl (a + b) s := by
  rw [rotl_eq_rotate, rotl_eq_rotate, rotl_eq_rotate, List.rotate_rotate, Nat.add_comm]

theorem rotl_add_length (k : Nat) (s : List α) : rotl (k + s.length) s = rotl k s := by
  rw [← rotl_rotl, rotl_length_self]

/-- every rotation is undone by the complementary rotation -/
theorem rotl_inv (k : Nat) (s : List α) : rotl (s.length - k % s.length) (rotl k s) = s := by
  rw [rotl_rotl]
  rcases Nat.eq_zero_or_pos s.length with h | h
  · have : s = [] := List.length_eq_zero_iff.1 h
    subst this; simp
  · have hk : k % s.length < s.length := Nat.mod_lt _ h
    rw [← rotl_mod]
    have : (s.length - k % s.length + k) % s.length = 0 := by
      have h1 : s.length - k % s.length + k = s.length - k % s.length + (k % s.length + s.length * (k / s.length)) := by
        rw [Nat.mod_add_div]
      rw [h1, ← Nat.add_assoc, Nat.sub_add_cancel (Nat.le_of_lt hk), Nat.add_mul_mod_self_left, Nat.mod_self]
    rw [this, rotl_zero]

/-- same letters with the same multiplicities -/
theorem rotl_perm (k : Nat) (s : List α) : (rotl k s).Perm s := by
  rw [rotl_eq_rotate]; exact List.rotate_perm s k

theorem mem_rotl {k : Nat} {s : List α} {a : α} : a ∈ rotl k s ↔ a ∈ s := by
  rw [rotl_eq_rotate, List.mem_rotate]

theorem map_rotl (f : α → β) (k : Nat) (s : List α) : (rotl k s).map f = rotl k (s.map f) := by
  rw [rotl_eq_rotate, rotl_eq_rotate, List.map_rotate]

/-- reversing a rotation by `k` is rotating the reversed string by `n - k` -/
theorem reverse_rotl (k : Nat) (s : List α) :
    (rotl k s).reverse = rotl (s.length - k % s.length) s.reverse := by
  rw [rotl_eq_rotate, rotl_eq_rotate, List.reverse_rotate]

theorem all_rotl (p : α → Bool) (k : Nat) (s : List α) : (rotl k s).all p = s.all p := by
  rw [Bool.eq_iff_iff]
  simp only [List.all_eq_true, mem_rotl]

theorem rotl_injective (k : Nat) {s t : List α} (h : rotl k s = rotl k t) : s = t := by
  rw [rotl_eq_rotate, rotl_eq_rotate] at h
  exact List.rotate_injective k h

end Rotl

/-! ### `IsRotation`: "same letters in the same cyclic order" -/

theorem isRotation_iff_isRotated {a b : Str} : IsRotation a b ↔ List.IsRotated b a := by
  constructor
  · rintro ⟨k, rfl⟩; exact ⟨k, (rotl_eq_rotate k b).symm⟩
  · rintro ⟨k, rfl⟩; exact ⟨k, (rotl_eq_rotate k b).symm⟩

theorem isRotation_rotl (k : Nat) (s : Str) : IsRotation (rotl k s) s := ⟨k, rfl⟩

theorem IsRotation.refl (s : Str) : IsRotation s s := ⟨0, (rotl_zero s).symm⟩

theorem IsRotation.symm {a b : Str} (h : IsRotation a b) : IsRotation b a := by
  obtain ⟨k, rfl⟩ := h
  exact ⟨b.length - k % b.length, (rotl_inv k b).symm⟩

theorem IsRotation.trans {a b c : Str} (h₁ : IsRotation a b) (h₂ : IsRotation b c) : IsRotation a c := by
  obtain ⟨k, rfl⟩ := h₁
  obtain ⟨j, rfl⟩ := h₂
  exact ⟨k + j, rotl_rotl k j c⟩

theorem isRotation_equivalence : Equivalence IsRotation :=
  ⟨IsRotation.refl, IsRotation.symm, IsRotation.trans⟩

theorem IsRotation.length_eq {a b : Str} (h : IsRotation a b) : a.length = b.length := by
  obtain ⟨k, rfl⟩ := h; exact rotl_length k b

theorem IsRotation.perm {a b : Str} (h : IsRotation a b) : a.Perm b := by
  obtain ⟨k, rfl⟩ := h; exact rotl_perm k b

theorem IsRotation.mem_iff {a b : Str} (h : IsRotation a b) {c : Char} : c ∈ a ↔ c ∈ b :=
  h.perm.mem_iff

/-- the offset can be taken below the length (0 for the empty string) -/
theorem IsRotation.exists_lt {a b : Str} (h : IsRotation a b) : ∃ k, k < max 1 b.length ∧ a = rotl k b := by
  obtain ⟨k, rfl⟩ := h
  rcases Nat.eq_zero_or_pos b.length with h0 | h0
  · exact ⟨0, by omega, by rw [List.length_eq_zero_iff.1 h0]; simp⟩
  · exact ⟨k % b.length, by have := Nat.mod_lt k h0; omega, (rotl_mod k b).symm⟩

/-- the rotations of a rotation of `s` are the rotations of `s` -/
theorem isRotation_rotl_iff (x : Str) (k : Nat) (s : Str) : IsRotation x (rotl k s) ↔ IsRotation x s :=
  ⟨fun h => h.trans (isRotation_rotl k s), fun h => h.trans (isRotation_rotl k s).symm⟩

theorem IsRotation.map {a b : Str} (h : IsRotation a b) (f : Char → Char) : IsRotation (a.map f) (b.map f) := by
  obtain ⟨k, rfl⟩ := h; exact ⟨k, map_rotl f k b⟩

theorem IsRotation.reverse {a b : Str} (h : IsRotation a b) : IsRotation a.reverse b.reverse := by
  obtain ⟨k, rfl⟩ := h; exact ⟨_, reverse_rotl k b⟩

theorem mem_rotations {x s : Str} : x ∈ rotations s ↔ s ≠ [] ∧ IsRotation x s := by
  simp only [rotations, List.mem_map, List.mem_range]
  constructor
  · rintro ⟨k, hk, rfl⟩
    exact ⟨by intro h; subst h; simp at hk, isRotation_rotl k s⟩
  · rintro ⟨hne, h⟩
    obtain ⟨k, hk, rfl⟩ := h.exists_lt
    have : 0 < s.length := List.length_pos_iff.2 hne
    exact ⟨k, by omega, rfl⟩

/-- the SET of rotations is the same for every rotation of the string -/
theorem mem_rotations_rotl (x : Str) (k : Nat) (s : Str) : x ∈ rotations (rotl k s) ↔ x ∈ rotations s := by
  rw [mem_rotations, mem_rotations, isRotation_rotl_iff]
  have : rotl k s ≠ [] ↔ s ≠ [] := by
    rw [Ne, Ne, ← List.length_eq_zero_iff, ← List.length_eq_zero_iff, rotl_length]
  rw [this]

/-! ### the order: `lexLe` is a total preorder, antisymmetric, with strict part `lexLt` -/

theorem lexLt_irrefl : ∀ a : Str, lexLt a a = false
  | [] => rfl
  | c :: cs => by simp [lexLt, lexLt_irrefl cs]

theorem char_eq_of_toNat_eq {a b : Char} (h : a.toNat = b.toNat) : a = b :=
  Char.ext (UInt32.toNat_inj.1 h)

theorem lexLt_trans : ∀ {a b c : Str}, lexLt a b = true → lexLt b c = true → lexLt a c = true
  | [], [], _, h, _ => by simp [lexLt] at h
  | [], _ :: _, [], _, h => by simp [lexLt] at h
  | [], _ :: _, _ :: _, _, _ => rfl
  | _ :: _, [], _, h, _ => by simp [lexLt] at h
  | _ :: _, _ :: _, [], _, h => by simp [lexLt] at h
  | x :: xs, y :: ys, z :: zs, h₁, h₂ => by
    simp only [lexLt, Bool.or_eq_true, decide_eq_true_eq, Bool.and_eq_true, beq_iff_eq] at *
    rcases h₁ with h₁ | ⟨rfl, h₁⟩
    · rcases h₂ with h₂ | ⟨rfl, _⟩
      · left; omega
      · left; exact h₁
    · rcases h₂ with h₂ | ⟨rfl, h₂⟩
      · left; exact h₂
      · right; exact ⟨rfl, lexLt_trans h₁ h₂⟩

theorem lexLt_trichotomy : ∀ a b : Str, lexLt a b = true ∨ a = b ∨ lexLt b a = true
  | [], [] => Or.inr (Or.inl rfl)
  | [], _ :: _ => Or.inl rfl
  | _ :: _, [] => Or.inr (Or.inr rfl)
  | x :: xs, y :: ys => by
    simp only [lexLt, Bool.or_eq_true, decide_eq_true_eq, Bool.and_eq_true, beq_iff_eq, List.cons.injEq]
    rcases Nat.lt_trichotomy x.toNat y.toNat with h | h | h
    · exact Or.inl (Or.inl h)
    · have hxy := char_eq_of_toNat_eq h
      subst hxy
      rcases lexLt_trichotomy xs ys with h' | h' | h'
      · exact Or.inl (Or.inr ⟨rfl, h'⟩)
      · exact Or.inr (Or.inl ⟨rfl, h'⟩)
      · exact Or.inr (Or.inr (Or.inr ⟨rfl, h'⟩))
    · exact Or.inr (Or.inr (Or.inl h))

theorem lexLt_asymm {a b : Str} (h : lexLt a b = true) : lexLt b a = false := by
  cases hba : lexLt b a with
  | false => rfl
  | true => have := lexLt_trans h hba; rw [lexLt_irrefl] at this; exact absurd this (by simp)

theorem lexLe_refl (a : Str) : lexLe a a = true := by simp [lexLe, lexLt_irrefl]

theorem lexLe_of_eq {a b : Str} (h : a = b) : lexLe a b = true := h ▸ lexLe_refl a

theorem lexLe_of_lexLt {a b : Str} (h : lexLt a b = true) : lexLe a b = true := by
  simp [lexLe, lexLt_asymm h]

theorem lexLe_total (a b : Str) : lexLe a b = true ∨ lexLe b a = true := by
  rcases lexLt_trichotomy a b with h | h | h
  · exact Or.inl (lexLe_of_lexLt h)
  · exact Or.inl (lexLe_of_eq h)
  · exact Or.inr (lexLe_of_lexLt h)

theorem lexLe_antisymm {a b : Str} (h₁ : lexLe a b = true) (h₂ : lexLe b a = true) : a = b := by
  simp only [lexLe, Bool.not_eq_true'] at h₁ h₂
  rcases lexLt_trichotomy a b with h | h | h
  · rw [h₂] at h; exact absurd h (by simp)
  · exact h
  · rw [h₁] at h; exact absurd h (by simp)

theorem lexLe_iff_lt_or_eq {a b : Str} : lexLe a b = true ↔ lexLt a b = true ∨ a = b := by
  constructor
  · intro h
    rcases lexLt_trichotomy a b with h' | h' | h'
    · exact Or.inl h'
    · exact Or.inr h'
    · simp [lexLe, h'] at h
  · rintro (h | h)
    · exact lexLe_of_lexLt h
    · exact lexLe_of_eq h

theorem lexLe_trans {a b c : Str} (h₁ : lexLe a b = true) (h₂ : lexLe b c = true) : lexLe a c = true := by
  rcases lexLe_iff_lt_or_eq.1 h₁ with h₁ | rfl
  · rcases lexLe_iff_lt_or_eq.1 h₂ with h₂ | rfl
    · exact lexLe_of_lexLt (lexLt_trans h₁ h₂)
    · exact lexLe_of_lexLt h₁
  · exact h₂

/-- `lexLt` is the strict part of `lexLe` -/
theorem lexLt_iff_le_not_le {a b : Str} : lexLt a b = true ↔ lexLe a b = true ∧ lexLe b a = false := by
  constructor
  · intro h; exact ⟨lexLe_of_lexLt h, by simp [lexLe, h]⟩
  · rintro ⟨_, h⟩; simpa [lexLe] using h

theorem lexLt_iff_le_and_ne {a b : Str} : lexLt a b = true ↔ lexLe a b = true ∧ a ≠ b := by
  constructor
  · intro h
    refine ⟨lexLe_of_lexLt h, ?_⟩
    rintro rfl; rw [lexLt_irrefl] at h; exact absurd h (by simp)
  · rintro ⟨h, hne⟩
    rcases lexLe_iff_lt_or_eq.1 h with h | h
    · exact h
    · exact absurd h hne

/-- `lexLt` is the standard lexicographic order on lists of characters (`List.lt`, i.e. Go's
string comparison on ASCII bytes) -/
theorem lexLt_iff_lt : ∀ a b : Str, lexLt a b = true ↔ a < b
  | [], [] => by simp [lexLt]
  | [], _ :: _ => by simp [lexLt]
  | _ :: _, [] => by simp [lexLt]
  | x :: xs, y :: ys => by
    have hlt : x.toNat < y.toNat ↔ x < y := by
      rw [Char.lt_def]; exact UInt32.lt_iff_toNat_lt.symm
    simp only [lexLt, Bool.or_eq_true, decide_eq_true_eq, Bool.and_eq_true, beq_iff_eq,
      List.cons_lt_cons_iff, lexLt_iff_lt xs ys, hlt]

/-! ### `lexMin` is a minimum -/

theorem lexMin_eq_or (a b : Str) : lexMin a b = a ∨ lexMin a b = b := by
  unfold lexMin; split <;> simp

theorem lexMin_le_left (a b : Str) : lexLe (lexMin a b) a = true := by
  unfold lexMin; split
  · rename_i h; exact lexLe_of_lexLt h
  · exact lexLe_refl a

theorem lexMin_le_right (a b : Str) : lexLe (lexMin a b) b = true := by
  unfold lexMin; split
  · exact lexLe_refl b
  · rename_i h; simpa [lexLe] using h

theorem le_lexMin {c a b : Str} (ha : lexLe c a = true) (hb : lexLe c b = true) : lexLe c (lexMin a b) = true := by
  rcases lexMin_eq_or a b with h | h <;> rw [h] <;> assumption

theorem lexMin_comm (a b : Str) : lexMin a b = lexMin b a :=
  lexLe_antisymm (le_lexMin (lexMin_le_right a b) (lexMin_le_left a b))
    (le_lexMin (lexMin_le_right b a) (lexMin_le_left b a))

theorem lexMin_assoc (a b c : Str) : lexMin (lexMin a b) c = lexMin a (lexMin b c) := by
  apply lexLe_antisymm
  · exact le_lexMin (lexLe_trans (lexMin_le_left _ _) (lexMin_le_left _ _))
      (le_lexMin (lexLe_trans (lexMin_le_left _ _) (lexMin_le_right _ _)) (lexMin_le_right _ _))
  · exact le_lexMin (le_lexMin (lexMin_le_left _ _) (lexLe_trans (lexMin_le_right _ _) (lexMin_le_left _ _)))
      (lexLe_trans (lexMin_le_right _ _) (lexMin_le_right _ _))

theorem lexMin_self (a : Str) : lexMin a a = a := by
  rcases lexMin_eq_or a a with h | h <;> exact h

theorem lexMin_eq_left {a b : Str} (h : lexLe a b = true) : lexMin a b = a :=
  lexLe_antisymm (lexMin_le_left a b) (le_lexMin (lexLe_refl a) h)

theorem foldl_lexMin_mem : ∀ (l : List Str) (init : Str), l.foldl lexMin init ∈ init :: l
  | [], init => by simp
  | x :: xs, init => by
    have ih := foldl_lexMin_mem xs (lexMin init x)
    simp only [List.foldl_cons, List.mem_cons] at *
    rcases ih with ih | ih
    · rw [ih]
      rcases lexMin_eq_or init x with h | h
      · exact Or.inl h
      · exact Or.inr (Or.inl h)
    · exact Or.inr (Or.inr ih)

theorem foldl_lexMin_le : ∀ (l : List Str) (init : Str), ∀ x ∈ init :: l, lexLe (l.foldl lexMin init) x = true
  | [], init, x, hx => by
    simp only [List.mem_cons, List.not_mem_nil, or_false] at hx
    subst hx; exact lexLe_refl _
  | y :: ys, init, x, hx => by
    have ih := foldl_lexMin_le ys (lexMin init y)
    simp only [List.foldl_cons]
    simp only [List.mem_cons] at hx
    rcases hx with rfl | rfl | hx
    · exact lexLe_trans (ih (lexMin x y) (by simp)) (lexMin_le_left _ _)
    · exact lexLe_trans (ih (lexMin init x) (by simp)) (lexMin_le_right _ _)
    · exact ih x (by simp [hx])

/-! ### `leastRotation` is the least element of the rotation class -/

theorem leastRotation_mem (s : Str) : leastRotation s ∈ s :: rotations s :=
  foldl_lexMin_mem (rotations s) s

theorem leastRotation_isRotation (s : Str) : IsRotation (leastRotation s) s := by
  have h := leastRotation_mem s
  rcases List.mem_cons.1 h with h | h
  · rw [h]; exact IsRotation.refl s
  · exact (mem_rotations.1 h).2

theorem leastRotation_le_rotl (s : Str) (k : Nat) : lexLe (leastRotation s) (rotl k s) = true := by
  rcases Nat.eq_zero_or_pos s.length with h0 | h0
  · have : s = [] := List.length_eq_zero_iff.1 h0
    subst this
    simp [leastRotation, rotations, lexLe_refl]
  · apply foldl_lexMin_le (rotations s) s
    refine List.mem_cons_of_mem _ ?_
    rw [mem_rotations]
    exact ⟨by intro h; subst h; simp at h0, isRotation_rotl k s⟩

theorem leastRotation_le_of_isRotation {x s : Str} (h : IsRotation x s) : lexLe (leastRotation s) x = true := by
  obtain ⟨k, rfl⟩ := h; exact leastRotation_le_rotl s k

/-- a rotation that is no greater than every rotation IS the least rotation -/
theorem leastRotation_unique {m s : Str} (hrot : IsRotation m s) (hle : ∀ k, lexLe m (rotl k s) = true) :
    m = leastRotation s := by
  apply lexLe_antisymm
  · obtain ⟨k, hk⟩ := leastRotation_isRotation s
    rw [hk]; exact hle k
  · exact leastRotation_le_of_isRotation hrot

/-- the least rotation depends only on the rotation class -/
theorem leastRotation_congr {a b : Str} (h : IsRotation a b) : leastRotation a = leastRotation b := by
  apply leastRotation_unique
  · exact (leastRotation_isRotation a).trans h
  · intro k
    exact leastRotation_le_of_isRotation ((isRotation_rotl k b).trans h.symm)

theorem leastRotation_rotl (k : Nat) (s : Str) : leastRotation (rotl k s) = leastRotation s :=
  leastRotation_congr (isRotation_rotl k s)

/-- …and it separates rotation classes: equal least rotations iff rotations of each other -/
theorem leastRotation_eq_iff {a b : Str} : leastRotation a = leastRotation b ↔ IsRotation a b := by
  constructor
  · intro h
    have ha := (leastRotation_isRotation a).symm
    rw [h] at ha
    exact ha.trans (leastRotation_isRotation b)
  · exact leastRotation_congr

theorem leastRotation_length (s : Str) : (leastRotation s).length = s.length :=
  (leastRotation_isRotation s).length_eq

theorem leastRotation_nil : leastRotation [] = [] := rfl

theorem leastRotation_idem (s : Str) : leastRotation (leastRotation s) = leastRotation s :=
  leastRotation_congr (leastRotation_isRotation s)

/-! ### `leastIndex`: the FIRST offset whose rotation is least -/

theorem leastIndex_spec (s : Str) :
    leastIndex s < max 1 s.length ∧ rotl (leastIndex s) s = leastRotation s ∧
      ∀ j, j < leastIndex s → rotl j s ≠ leastRotation s := by
  unfold leastIndex
  cases hf : (List.range s.length).find? (fun k => rotl k s == leastRotation s) with
  | none =>
    -- impossible unless `s` is empty: the least rotation is some `rotl k s`, `k < n`
    obtain ⟨k, hk, hke⟩ := (leastRotation_isRotation s).exists_lt
    rcases Nat.eq_zero_or_pos s.length with h0 | h0
    · have : s = [] := List.length_eq_zero_iff.1 h0
      subst this
      simp [leastRotation_nil]
    · rw [List.find?_eq_none] at hf
      have := hf k (List.mem_range.2 (by omega))
      simp [hke] at this
  | some i =>
    have hmem := List.mem_of_find?_eq_some hf
    have hp := List.find?_some hf
    rw [List.mem_range] at hmem
    simp only [Option.getD_some]
    refine ⟨by omega, by simpa using hp, ?_⟩
    intro j hj
    rw [List.find?_eq_some_iff_append] at hf
    obtain ⟨_, as, bs, hsplit, hall⟩ := hf
    -- `as` is the prefix `range i`
    have hlen : as.length = i := by
      have h1 : (List.range s.length)[as.length]? = some i := by
        rw [hsplit]; simp
      rw [List.getElem?_range (by
        have := congrArg List.length hsplit
        simp at this; omega)] at h1
      exact Option.some.inj h1
    have hjmem : j ∈ as := by
      have h1 : (List.range s.length)[j]? = some j := List.getElem?_range (by omega)
      rw [hsplit, List.getElem?_append_left (by omega)] at h1
      exact List.mem_of_getElem? h1
    have := hall j hjmem
    simpa using this

end PolyVerif.Spec
