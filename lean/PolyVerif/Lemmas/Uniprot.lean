import PolyVerif.Model.Uniprot
import PolyVerif.Lemmas.Chan
/-
Helper lemmas for C20: the shape of the producer program of uniprot.Parse
(entry sends, close entries, kept errors, close errors).
-/
namespace PolyVerif.Uniprot
open PolyVerif PolyVerif.Chan

theorem entriesOf_append (a b : List Ev) : entriesOf (a ++ b) = entriesOf a ++ entriesOf b := by
  induction a with
  | nil => rfl
  | cons ev a ih => cases ev <;> simp [entriesOf, ih]

/-- the loop's sends are exactly the entries it met, in order -/
theorem loop_fst : ∀ (saw : Bool) (evs : List Ev) (f : End),
    (loop saw evs f).1 = (entriesOf evs).map (fun e => Op.send 0 (Msg.entry e))
  | saw, [], .eof => rfl
  | _, [], .err => rfl
  | saw, .other :: r, f => by simpa [loop, entriesOf] using loop_fst saw r f
  | _, .start :: r, f => by simpa [loop, entriesOf] using loop_fst true r f
  | _, .entry e :: r, f => by simp [loop, entriesOf, loop_fst true r f]
  | _, .entryErr e :: r, f => by simp [loop, entriesOf, loop_fst true r f]

/-- the errors it keeps -/
theorem loop_snd : ∀ (saw : Bool) (evs : List Ev) (f : End),
    (loop saw evs f).2 = List.replicate (numErrorsFrom saw evs f) Msg.error
  | saw, [], .eof => by cases saw <;> rfl
  | saw, [], .err => by cases saw <;> rfl
  | saw, .other :: r, f => by simpa [loop, numErrorsFrom, isErrEv, isStartEv] using loop_snd saw r f
  | saw, .start :: r, f => by
    have := loop_snd true r f
    simpa [loop, numErrorsFrom, isErrEv, isStartEv] using this
  | saw, .entry e :: r, f => by
    have := loop_snd true r f
    simpa [loop, numErrorsFrom, isErrEv, isStartEv] using this
  | saw, .entryErr e :: r, f => by
    have := loop_snd true r f
    simp only [loop, this]
    simp only [numErrorsFrom, List.filter_cons, isErrEv, if_true, List.length_cons, List.any_cons, isStartEv,
      Bool.true_or, Bool.or_true]
    rw [show (List.filter isErrEv r).length + 1 + finErrors true f = ((List.filter isErrEv r).length + finErrors true f) + 1 by omega]
    rfl

/-- the program in closed form -/
theorem program_eq (t : Trace) :
    program t = (entriesOf t.evs).map (fun e => Op.send 0 (Msg.entry e)) ++ [Op.close 0] ++
      List.replicate (numErrors t) (Op.send 1 Msg.error) ++ [Op.close 1] := by
  simp [program, loop_fst, loop_snd, numErrors]

theorem sends0_map (es : List Entry) (q : List (Op Msg)) :
    sends 0 (es.map (fun e => Op.send 0 (Msg.entry e)) ++ q) = es.map Msg.entry ++ sends 0 q := by
  induction es with
  | nil => rfl
  | cons e es ih => simp [sends_send, ih]

theorem sends1_map (es : List Entry) (q : List (Op Msg)) :
    sends 1 (es.map (fun e => Op.send 0 (Msg.entry e)) ++ q) = sends 1 q := by
  induction es with
  | nil => rfl
  | cons e es ih => simpa [sends_send] using ih

theorem sends_errs (ch : Nat) (n : Nat) (q : List (Op Msg)) :
    sends ch (List.replicate n (Op.send 1 Msg.error) ++ q) =
      (if ch = 1 then List.replicate n Msg.error else []) ++ sends ch q := by
  induction n with
  | zero => by_cases h : ch = 1 <;> simp [h]
  | succ n ih =>
    by_cases h : ch = 1
    · subst h; simp [List.replicate_succ, sends_send] at ih ⊢; exact ih
    · have h' : ¬ 1 = ch := fun e => h e.symm
      simp [List.replicate_succ, sends_send, h, h'] at ih ⊢; exact ih

theorem sends0_program (t : Trace) : sends 0 (program t) = (entriesOf t.evs).map Msg.entry := by
  rw [program_eq]
  simp only [List.append_assoc]
  rw [sends0_map, List.singleton_append, sends_close, sends_errs]
  simp

theorem sends1_program (t : Trace) : sends 1 (program t) = List.replicate (numErrors t) Msg.error := by
  rw [program_eq]
  simp only [List.append_assoc]
  rw [sends1_map, List.singleton_append, sends_close, sends_errs]
  simp

theorem closesLast_map0 (ch : Nat) (es : List Entry) (q : List (Op Msg)) :
    closesLast ch (es.map (fun e => Op.send 0 (Msg.entry e)) ++ q) = closesLast ch q := by
  induction es with
  | nil => rfl
  | cons e es ih => simpa [closesLast] using ih

theorem closesLast_errs (ch : Nat) (n : Nat) (q : List (Op Msg)) :
    closesLast ch (List.replicate n (Op.send 1 Msg.error) ++ q) = closesLast ch q := by
  induction n with
  | zero => rfl
  | succ n ih => simpa [List.replicate_succ, closesLast] using ih

theorem quiet0_errs (n : Nat) : quiet 0 (List.replicate n (Op.send 1 Msg.error) ++ [Op.close 1]) = true := by
  induction n with
  | zero => rfl
  | succ n ih => simpa [List.replicate_succ, quiet_cons, Op.chan] using ih

theorem program_wf (t : Trace) : WFProg [0, 1] (program t) := by
  refine ⟨fun op hop => ?_, fun ch hch => ?_⟩
  · rw [program_eq] at hop
    simp only [List.mem_append, List.mem_map, List.mem_cons, List.not_mem_nil, or_false, List.mem_replicate] at hop
    rcases hop with ((⟨e, _, rfl⟩ | rfl) | ⟨_, rfl⟩) | rfl <;> simp [Op.chan]
  · simp only [List.mem_cons, List.not_mem_nil, or_false] at hch
    rcases hch with rfl | rfl
    · refine ⟨by omega, ?_⟩
      rw [program_eq]; simp only [List.append_assoc]
      rw [closesLast_map0]
      simpa [closesLast] using quiet0_errs (numErrors t)
    · refine ⟨by omega, ?_⟩
      rw [program_eq]; simp only [List.append_assoc]
      rw [closesLast_map0]
      simp only [List.cons_append, List.nil_append, closesLast]
      rw [if_neg (by decide), closesLast_errs]
      rfl

/-- uniprot.Parse closes the entries channel before it sends any error -/
theorem sendsBeforeClose0_program (t : Trace) : sendsBeforeClose0 (program t) = some 0 := by
  rw [program_eq]; simp only [List.append_assoc]
  induction entriesOf t.evs with
  | nil => rfl
  | cons e es ih => simpa [sendsBeforeClose0] using ih

theorem numErrors_pos_iff (t : Trace) : 1 ≤ numErrors t ↔ ¬ Clean t := by
  unfold numErrors numErrorsFrom Clean
  constructor
  · rintro h ⟨hf, he, hs⟩
    have : t.evs.filter isErrEv = [] := by
      rw [List.filter_eq_nil_iff]; intro ev hev; simp [he ev hev]
    simp [this, hf, hs, finErrors] at h
  · intro h
    by_cases he : t.evs.filter isErrEv = []
    · cases hf : t.fin with
      | err => simp [finErrors]
      | eof =>
        cases hs : t.evs.any isStartEv with
        | false => simp [finErrors]
        | true =>
          exfalso
          refine h ⟨hf, fun ev hev => ?_, hs⟩
          rw [List.filter_eq_nil_iff] at he
          simpa using he ev hev
    · have : 0 < (t.evs.filter isErrEv).length := List.length_pos_iff.mpr he
      omega

theorem consumer_stops (seq : Bool) : StopsAtClosed (consumer seq) := by
  cases seq
  · exact concurrent_stops _
  · exact sequential_stops

theorem consumer_two (seq : Bool) : TwoChan (consumer seq) := by
  cases seq
  · exact concurrent_two (by simp)
  · exact sequential_two

end PolyVerif.Uniprot
