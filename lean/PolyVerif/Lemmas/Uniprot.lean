import PolyVerif.Model.Uniprot
import PolyVerif.Lemmas.Chan
/-
Helper lemmas for C20: the shape of the producer program of uniprot.Parse.
-/
namespace PolyVerif.Uniprot
open PolyVerif PolyVerif.Chan

def isSend : Op Msg → Bool
  | .send _ _ => true
  | .close _ => false

theorem loop_sends : ∀ (saw : Bool) (evs : List Ev) (f : End),
    ∀ op ∈ loop saw evs f, isSend op = true ∧ (op.chan = 0 ∨ op.chan = 1)
  | saw, [], .eof => by cases saw <;> simp [loop, isSend, Op.chan]
  | _, [], .err => by simp [loop, isSend, Op.chan]
  | saw, .other :: r, f => by simpa [loop] using loop_sends saw r f
  | _, .start :: r, f => by simpa [loop] using loop_sends true r f
  | _, .entry e :: r, f => by
    intro op hop
    simp only [loop, List.mem_cons] at hop
    rcases hop with rfl | hop
    · simp [isSend, Op.chan]
    · exact loop_sends true r f op hop
  | _, .entryErr e :: r, f => by
    intro op hop
    simp only [loop, List.mem_cons] at hop
    rcases hop with rfl | rfl | hop
    · simp [isSend, Op.chan]
    · simp [isSend, Op.chan]
    · exact loop_sends true r f op hop

theorem closesLast_append_sends (ch : Nat) : ∀ (p q : List (Op Msg)), (∀ op ∈ p, isSend op = true) →
    closesLast ch (p ++ q) = closesLast ch q
  | [], _, _ => rfl
  | .send c v :: p, q, h => by
    simpa [closesLast] using closesLast_append_sends ch p q (fun op hop => h op (by simp [hop]))
  | .close c :: p, q, h => by
    have := h (.close c) (by simp)
    simp [isSend] at this

theorem sendsBeforeClose0_append_sends : ∀ (p q : List (Op Msg)), (∀ op ∈ p, isSend op = true) →
    sendsBeforeClose0 (p ++ q) = (sendsBeforeClose0 q).map (fun k => k + (sends 1 p).length)
  | [], q, _ => by simp
  | .send c v :: p, q, h => by
    have ih := sendsBeforeClose0_append_sends p q (fun op hop => h op (by simp [hop]))
    simp only [List.cons_append, sendsBeforeClose0, ih, Option.map_map, sends_send]
    congr 1
    funext k
    by_cases hc : c = 1 <;> simp [hc] <;> omega
  | .close c :: p, q, h => by
    have := h (.close c) (by simp)
    simp [isSend] at this

theorem program_wf (t : Trace) : WFProg [0, 1] (program t) := by
  have hl := loop_sends false t.evs t.fin
  refine ⟨fun op hop => ?_, fun ch hch => ?_⟩
  · simp only [program, List.mem_append, List.mem_cons, List.not_mem_nil, or_false] at hop
    rcases hop with hop | rfl | rfl
    · rcases (hl op hop).2 with h | h <;> simp [h]
    · simp [Op.chan]
    · simp [Op.chan]
  · simp only [List.mem_cons, List.not_mem_nil, or_false] at hch
    rcases hch with rfl | rfl
    · exact ⟨by omega, by
        rw [program, closesLast_append_sends 0 _ _ (fun op hop => (hl op hop).1)]; rfl⟩
    · exact ⟨by omega, by
        rw [program, closesLast_append_sends 1 _ _ (fun op hop => (hl op hop).1)]; rfl⟩

theorem entriesOf_append (a b : List Ev) : entriesOf (a ++ b) = entriesOf a ++ entriesOf b := by
  induction a with
  | nil => rfl
  | cons ev a ih => cases ev <;> simp [entriesOf, ih]

/-- the decoder-level notion of a damaged stream: some error is forwarded exactly when the trace is not `Clean` -/
theorem numErrors_pos_iff (t : Trace) : 1 ≤ numErrors t ↔ ¬ Clean t := by
  unfold numErrors numErrorsFrom Clean
  constructor
  · rintro h ⟨hf, he, hs⟩
    have : t.evs.filter isErrEv = [] := by
      rw [List.filter_eq_nil_iff]; intro ev hev; simp [he ev hev]
    simp [this, hf, hs, finErrors] at h
  · intro h
    by_cases he : t.evs.filter isErrEv = []
    · cases hf : t.fin with
      | err => simp [finErrors]
      | eof =>
        cases hs : t.evs.any isStartEv with
        | false => simp [finErrors]
        | true =>
          exfalso
          refine h ⟨hf, fun ev hev => ?_, hs⟩
          rw [List.filter_eq_nil_iff] at he
          simpa using he ev hev
    · have : 0 < (t.evs.filter isErrEv).length := List.length_pos_iff.mpr he
      omega

theorem sends0_loop : ∀ (saw : Bool) (evs : List Ev) (f : End),
    sends 0 (loop saw evs f) = (entriesOf evs).map Msg.entry
  | saw, [], .eof => by cases saw <;> rfl
  | _, [], .err => rfl
  | saw, .other :: r, f => by simpa [loop, entriesOf] using sends0_loop saw r f
  | _, .start :: r, f => by simpa [loop, entriesOf] using sends0_loop true r f
  | _, .entry e :: r, f => by simp [loop, entriesOf, sends_send, sends0_loop true r f]
  | _, .entryErr e :: r, f => by simp [loop, entriesOf, sends_send, sends0_loop true r f]

theorem sends1_loop : ∀ (saw : Bool) (evs : List Ev) (f : End),
    sends 1 (loop saw evs f) = List.replicate (numErrorsFrom saw evs f) Msg.error
  | saw, [], .eof => by cases saw <;> rfl
  | saw, [], .err => by cases saw <;> rfl
  | saw, .other :: r, f => by simpa [loop, numErrorsFrom, isErrEv, isStartEv] using sends1_loop saw r f
  | saw, .start :: r, f => by
    have := sends1_loop true r f
    simpa [loop, numErrorsFrom, isErrEv, isStartEv] using this
  | saw, .entry e :: r, f => by
    have := sends1_loop true r f
    simpa [loop, numErrorsFrom, isErrEv, isStartEv, sends_send] using this
  | saw, .entryErr e :: r, f => by
    have := sends1_loop true r f
    simp only [loop, sends_send, if_true, if_neg (show ¬ (0 : Nat) = 1 by decide), this]
    simp only [numErrorsFrom, List.filter_cons, isErrEv, if_true, List.length_cons, List.any_cons, isStartEv,
      Bool.true_or, Bool.or_true]
    rw [show (List.filter isErrEv r).length + 1 + finErrors true f = ((List.filter isErrEv r).length + finErrors true f) + 1 by omega]
    rfl

theorem sends0_program (t : Trace) : sends 0 (program t) = (entriesOf t.evs).map Msg.entry := by
  simp [program, sends_append, sends0_loop]

theorem sends1_program (t : Trace) : sends 1 (program t) = List.replicate (numErrors t) Msg.error := by
  simp [program, sends_append, sends1_loop, numErrors]

theorem sendsBeforeClose0_program (t : Trace) : sendsBeforeClose0 (program t) = some (numErrors t) := by
  rw [program, sendsBeforeClose0_append_sends _ _ (fun op hop => (loop_sends false t.evs t.fin op hop).1),
    sends1_loop]
  simp [sendsBeforeClose0, numErrors]

theorem consumer_stops (seq : Bool) : StopsAtClosed (consumer seq) := by
  cases seq
  · exact concurrent_stops _
  · exact sequential_stops

theorem consumer_two (seq : Bool) : TwoChan (consumer seq) := by
  cases seq
  · exact concurrent_two (by simp)
  · exact sequential_two

end PolyVerif.Uniprot
