import PolyVerif.Lemmas.LineText
import PolyVerif.Spec.GffLayout
/-
Helper lemmas for Props/C14: what each kind of line does to the state of `gff.Parse`'s loop, the
feature-line round trip, the newline-insensitivity of the FASTA section, and the skeleton
`parseLines_doc` shared by `parse_build` and `parse_layout`.
-/
namespace PolyVerif.Gff
open PolyVerif PolyVerif.LineText PolyVerif.Spec.GffLayout

/-! ### Boolean predicates as facts -/

theorem free_not_mem {bad : List Char} {s : Str} (h : free bad s = true) {x : Char} (hx : x ∈ bad) : x ∉ s := by
  intro hs
  have := List.all_eq_true.1 h x hs
  simp [hx] at this

theorem keysNodup_iff : ∀ (a : List (Str × Str)), keysNodup a = true → (a.map (·.1)).Nodup
  | [], _ => List.nodup_nil
  | kv :: r, h => by
    simp only [keysNodup, Bool.and_eq_true, Bool.not_eq_true'] at h
    simp only [List.map_cons, List.nodup_cons]
    refine ⟨?_, keysNodup_iff r h.2⟩
    intro hm
    have := List.contains_iff_mem.2 hm
    rw [h.1] at this
    exact Bool.noConfusion this

theorem mem_joinSep {sep c : Char} : ∀ {ls : List Str}, c ∈ joinSep sep ls → c = sep ∨ ∃ l ∈ ls, c ∈ l
  | [], h => by simp [joinSep] at h
  | [l], h => Or.inr ⟨l, by simp, by simpa [joinSep] using h⟩
  | l :: l' :: ls, h => by
    simp only [joinSep, List.mem_append, List.mem_cons] at h
    rcases h with h | h | h
    · exact Or.inr ⟨l, by simp, h⟩
    · exact Or.inl h
    · rcases mem_joinSep (ls := l' :: ls) h with h | ⟨x, hx, hc⟩
      · exact Or.inl h
      · exact Or.inr ⟨x, List.mem_cons_of_mem _ hx, hc⟩

/-! ### the loop -/

theorem loop_append : ∀ (a b : List Str) (st : PState), loop (a ++ b) st = (loop a st).bind (loop b)
  | [], _, _ => rfl
  | l :: ls, b, st => by
    simp only [List.cons_append, loop]
    cases step st l with
    | ok s => simp only [Outcome.bind_ok]; exact loop_append ls b s
    | err => rfl
    | panic => rfl

theorem sFasta_prefix : hasPrefix sHash1 sFasta = true := by decide

theorem step_skip (st : PState) {line : Str} (hp : hasPrefix sHash1 line = true) (hn : line ≠ sFasta) :
    step st line = .ok st := by
  simp only [step, hn, if_false, hp, if_true]
  split <;> rfl

theorem step_blank (st : PState) : step st [] = .ok st := by
  have : ([] : Str) ≠ sFasta := by decide
  simp [step, this]

theorem step_fastaMark (st : PState) : step st sFasta = .ok { st with fasta := true } := by
  simp [step]

theorem seqChar_facts {c : Char} (h : seqChar c = true) : c ≠ '\n' ∧ c ≠ '>' ∧ c ≠ '#' := by
  simp only [seqChar, Bool.and_eq_true, bne_iff_ne, ne_eq] at h
  exact ⟨h.1.1.1.1, h.1.1.1.2, h.1.1.2⟩

theorem seqChar_noCR {c : Char} (h : seqChar c = true) : c ≠ '\r' := by
  simp only [seqChar, Bool.and_eq_true, bne_iff_ne, ne_eq] at h
  exact h.2

/-! ### CR trimming -/

theorem trimCR_of_free {l : Str} (h : '\r' ∉ l) : trimCR l = l := by
  unfold trimCR
  split
  · rename_i hl
    exact absurd (List.mem_of_getLast? hl) h
  · rfl

theorem trimCR_cr (l : Str) : trimCR (l ++ ['\r']) = l := by
  simp [trimCR]

theorem map_trimCR_of_free : ∀ {ls : List Str}, (∀ l ∈ ls, '\r' ∉ l) → ls.map trimCR = ls
  | [], _ => rfl
  | l :: ls, h => by
    simp only [List.map_cons, trimCR_of_free (h l (by simp)),
      map_trimCR_of_free (ls := ls) (fun x hx => h x (by simp [hx]))]

theorem step_seqline (st : PState) (hf : st.fasta = true) {line : Str} (h : ∀ c ∈ line, seqChar c = true) :
    step st line = .ok { st with buf := st.buf ++ line } := by
  cases line with
  | nil => simp [step_blank]
  | cons c cs =>
    have hc := seqChar_facts (h c (by simp))
    have h1 : (c :: cs) ≠ sFasta := by
      intro e
      simp only [sFasta, List.cons.injEq] at e
      exact hc.2.2 e.1
    have h2 : hasPrefix sHash1 (c :: cs) = false := by
      simp [hasPrefix, sHash1, List.isPrefixOf, hc.2.2.symm]
    simp [step, h1, h2, hf, hc.2.1]

theorem step_defline (st : PState) (hf : st.fasta = true) (dl : Str) :
    step st ('>' :: dl) = .ok { st with desc := '>' :: dl } := by
  have h1 : ('>' :: dl) ≠ sFasta := by
    intro e
    simp [sFasta] at e
  have h2 : hasPrefix sHash1 ('>' :: dl) = false := by
    simp [hasPrefix, sHash1, List.isPrefixOf]
  simp [step, h1, h2, hf]

theorem ne_sFasta_of_noprefix {line : Str} (hp : hasPrefix sHash1 line = false) : line ≠ sFasta := by
  intro e
  rw [e, sFasta_prefix] at hp
  exact Bool.noConfusion hp

theorem step_feature (st : PState) (hf : st.fasta = false) {line : Str} {f : Feature} (hne : line ≠ [])
    (hp : hasPrefix sHash1 line = false) (hpf : parseFeature line = .ok f) :
    step st line = .ok { st with feats := st.feats ++ [f] } := by
  have h1 := ne_sFasta_of_noprefix hp
  have h2 : line.length ≠ 0 := by
    intro e; exact hne (List.length_eq_zero_iff.1 e)
  simp [step, h1, h2, hp, hf, hpf]

/-- the FASTA section: every line of sequence letters is appended, wherever the line breaks are -/
theorem loop_seqlines : ∀ (ls : List Str) (st : PState), st.fasta = true →
    (∀ l ∈ ls, ∀ c ∈ l, seqChar c = true) → loop ls st = .ok { st with buf := st.buf ++ ls.flatten }
  | [], st, _, _ => by simp [loop]
  | l :: ls, st, hf, h => by
    simp only [loop]
    rw [step_seqline st hf (h l (by simp))]
    simp only [Outcome.bind_ok]
    have := loop_seqlines ls { st with buf := st.buf ++ l } hf (fun x hx => h x (by simp [hx]))
    rw [this]
    simp [List.append_assoc]

/-- lines of the FASTA section that append `s` to the sequence and change nothing else -/
def TailOk (ls : List Str) (s : Str) : Prop :=
  ∀ st : PState, st.fasta = true → loop ls st = .ok { st with buf := st.buf ++ s }

theorem TailOk.nil : TailOk [] [] := by
  intro st _; simp [loop]

theorem TailOk.append {a b : List Str} {s t : Str} (ha : TailOk a s) (hb : TailOk b t) : TailOk (a ++ b) (s ++ t) := by
  intro st hf
  rw [loop_append, ha st hf]
  simp only [Outcome.bind_ok]
  rw [hb { st with buf := st.buf ++ s } hf]
  simp [List.append_assoc]

theorem TailOk.seqlines (ls : List Str) (h : ∀ l ∈ ls, ∀ c ∈ l, seqChar c = true) : TailOk ls ls.flatten :=
  fun st hf => loop_seqlines ls st hf h

theorem TailOk.skip {line : Str} (hp : hasPrefix sHash1 line = true) (hn : line ≠ sFasta) : TailOk [line] [] := by
  intro st _
  simp [loop, step_skip st hp hn]

theorem TailOk.blank : TailOk [[]] [] := by
  intro st _
  simp [loop, step_blank]

/-- lines before `##FASTA` that leave everything but the feature list unchanged -/
def MidOk (ls : List Str) (F : List Feature) : Prop :=
  ∀ st : PState, st.fasta = false → loop ls st = .ok { st with feats := st.feats ++ F }

theorem MidOk.nil : MidOk [] [] := by
  intro st _; simp [loop]

theorem MidOk.append {a b : List Str} {F G : List Feature} (ha : MidOk a F) (hb : MidOk b G) : MidOk (a ++ b) (F ++ G) := by
  intro st hf
  rw [loop_append, ha st hf]
  simp only [Outcome.bind_ok]
  rw [hb { st with feats := st.feats ++ F } hf]
  simp [List.append_assoc]

theorem MidOk.skip {line : Str} (hp : hasPrefix sHash1 line = true) (hn : line ≠ sFasta) : MidOk [line] [] := by
  intro st _
  simp [loop, step_skip st hp hn]

theorem MidOk.blank : MidOk [[]] [] := by
  intro st _
  simp [loop, step_blank]

theorem MidOk.blanks : ∀ n : Nat, MidOk (List.replicate n []) []
  | 0 => MidOk.nil
  | n + 1 => by
    have := MidOk.append MidOk.blank (MidOk.blanks n)
    simpa [List.replicate_succ] using this

theorem MidOk.feature {line : Str} {f : Feature} (hne : line ≠ []) (hp : hasPrefix sHash1 line = false)
    (hpf : parseFeature line = .ok f) : MidOk [line] [f] := by
  intro st hf
  simp [loop, step_feature st hf hne hp hpf]

/-! ### feature lines -/

/-- `key=value` -/
def item (kv : Str × Str) : Str := kv.1 ++ '=' :: kv.2

theorem attrText_eq (a : List (Str × Str)) : attrText a = joinSep ';' (a.map item) := rfl

theorem idx_zero (x : Str) (r : List Str) : idx (x :: r) 0 = .ok x := rfl
theorem idx_one (x y : Str) (r : List Str) : idx (x :: y :: r) 1 = .ok y := rfl

theorem parseAttrs_items : ∀ (a m : List (Str × Str)), (∀ kv ∈ a, '=' ∉ kv.1 ∧ '=' ∉ kv.2) →
    ((m ++ a).map (·.1)).Nodup → parseAttrs (a.map item) m = .ok (m ++ a)
  | [], m, _, _ => by simp [parseAttrs]
  | kv :: r, m, h, hnd => by
    have hk := h kv (by simp)
    have hs : split '=' (item kv) = [kv.1, kv.2] := by
      simp only [item]
      rw [split_cons_line _ hk.1, split_nosep hk.2]
    have hne : item kv ≠ [] := by simp [item]
    have hnew : kv.1 ∉ m.map (·.1) := by
      intro hm
      simp only [List.map_append, List.map_cons] at hnd
      have := (List.nodup_append.1 hnd).2.2 kv.1 hm kv.1 (by simp)
      exact this rfl
    simp only [List.map_cons, parseAttrs, hne, if_false, hs, idx_zero, idx_one, Outcome.bind_ok]
    rw [mapInsert_new m kv.1 kv.2 hnew]
    have := parseAttrs_items r (m ++ [(kv.1, kv.2)]) (fun x hx => h x (by simp [hx]))
      (by simpa [List.append_assoc] using hnd)
    rw [this]
    simp [List.append_assoc]

structure AttrFacts (a : List (Str × Str)) : Prop where
  nodup : (a.map (·.1)).Nodup
  chars : ∀ kv ∈ a, ∀ x ∈ ['\t', '\n', '\r', ';', '='], x ∉ kv.1 ∧ x ∉ kv.2

theorem attrFacts_of_wf {a : List (Str × Str)} (h : wfAttrs a = true) : AttrFacts a := by
  simp only [wfAttrs, Bool.and_eq_true, List.all_eq_true] at h
  refine ⟨keysNodup_iff a h.1, ?_⟩
  · intro kv hkv x hx
    have := h.2 kv hkv
    exact ⟨free_not_mem this.1 hx, free_not_mem this.2 hx⟩

theorem item_free {a : List (Str × Str)} (h : AttrFacts a) {x : Char} (hx : x ∈ ['\t', '\n', '\r', ';']) :
    ∀ l ∈ a.map item, x ∉ l := by
  intro l hl
  simp only [List.mem_map] at hl
  obtain ⟨kv, hkv, rfl⟩ := hl
  have hc := h.chars kv hkv x (by
    simp only [List.mem_cons, List.not_mem_nil, or_false] at hx ⊢
    rcases hx with rfl | rfl | rfl | rfl <;> simp)
  have hne : x ≠ '=' := by
    simp only [List.mem_cons, List.not_mem_nil, or_false] at hx
    rcases hx with rfl | rfl | rfl | rfl <;> decide
  simp only [item, List.mem_append, List.mem_cons, not_or]
  exact ⟨hc.1, hne, hc.2⟩

theorem attrText_free {a : List (Str × Str)} (h : AttrFacts a) {x : Char} (hx : x ∈ ['\t', '\n', '\r']) : x ∉ attrText a := by
  intro hm
  rw [attrText_eq] at hm
  rcases mem_joinSep hm with e | ⟨l, hl, hc⟩
  · simp only [List.mem_cons, List.not_mem_nil, or_false] at hx
    rcases hx with rfl | rfl | rfl <;> exact absurd e (by decide)
  · exact item_free h (by
      simp only [List.mem_cons, List.not_mem_nil, or_false] at hx ⊢
      rcases hx with rfl | rfl | rfl <;> simp) l hl hc

/-- column 9 as a writer may end it -/
def col9 (semi : Bool) (a : List (Str × Str)) : Str := attrText a ++ (if semi then [';'] else [])

theorem col9_free {a : List (Str × Str)} (h : AttrFacts a) (semi : Bool) {x : Char} (hx : x ∈ ['\t', '\n', '\r']) :
    x ∉ col9 semi a := by
  unfold col9
  intro hm
  rcases List.mem_append.1 hm with hm | hm
  · exact attrText_free h hx hm
  · split at hm
    · simp only [List.mem_singleton] at hm
      simp only [List.mem_cons, List.not_mem_nil, or_false] at hx
      rcases hx with rfl | rfl | rfl <;> exact absurd hm (by decide)
    · simp at hm

theorem parseAttrs_append : ∀ (xs ys : List Str) (m : List (Str × Str)),
    parseAttrs (xs ++ ys) m = (parseAttrs xs m).bind (parseAttrs ys)
  | [], _, _ => rfl
  | x :: xs, ys, m => by
    simp only [List.cons_append, parseAttrs]
    split
    · exact parseAttrs_append xs ys m
    · cases idx (split '=' x) 0 with
      | ok k =>
        simp only [Outcome.bind_ok]
        cases idx (split '=' x) 1 with
        | ok v => simp only [Outcome.bind_ok]; exact parseAttrs_append xs ys _
        | err => rfl
        | panic => rfl
      | err => rfl
      | panic => rfl

theorem parseAttrs_col9 {a : List (Str × Str)} (h : AttrFacts a) (semi : Bool) :
    parseAttrs (split ';' (col9 semi a)) [] = .ok a := by
  have hitems := parseAttrs_items a [] (fun kv hkv => h.chars kv hkv '=' (by simp)) (by simpa using h.nodup)
  simp only [List.nil_append] at hitems
  unfold col9
  cases a with
  | nil => cases semi <;> simp [attrText, joinSep, split, splitGo, splitStep, parseAttrs]
  | cons kv r =>
    cases semi
    · simp only [Bool.false_eq_true, if_false, List.append_nil]
      rw [attrText_eq, split_joinSep (by simp) (item_free h (by simp))]
      exact hitems
    · simp only [if_true]
      rw [attrText_eq, split_joinSep_sep (by simp) (item_free h (by simp)), parseAttrs_append, hitems]
      simp [parseAttrs]

/-- one feature line, read back: nine tab-separated columns -/
theorem parseFeature_cols (c0 c1 c2 c3 c4 c5 c6 c7 : Str) (a : List (Str × Str)) (semi : Bool)
    (h : ∀ c ∈ [c0, c1, c2, c3, c4, c5, c6, c7], '\t' ∉ c) (ha : AttrFacts a) :
    parseFeature (joinSep '\t' [c0, c1, c2, c3, c4, c5, c6, c7, col9 semi a]) =
      .ok { name := c0, source := c1, type := c2, start := atoi c3 - 1, stop := atoi c4,
            score := c5, strand := c6, phase := c7, attrs := a } := by
  have hs : split '\t' (joinSep '\t' [c0, c1, c2, c3, c4, c5, c6, c7, col9 semi a])
      = [c0, c1, c2, c3, c4, c5, c6, c7, col9 semi a] := by
    apply split_joinSep (by simp)
    intro l hl
    simp only [List.mem_cons, List.not_mem_nil, or_false] at hl
    rcases hl with rfl | rfl | rfl | rfl | rfl | rfl | rfl | rfl | rfl
    all_goals first | exact col9_free ha semi (by simp) | exact h _ (by simp)
  simp only [parseFeature, hs, idx, List.getElem?_cons_zero, List.getElem?_cons_succ, Outcome.bind_ok,
    parseAttrs_col9 ha semi]

theorem hasPrefix_hash_col {n : Str} (rest : Str) (h : hasPrefix sHash1 n = false) :
    hasPrefix sHash1 (n ++ '\t' :: rest) = false := by
  match n, h with
  | [], _ => simp [hasPrefix, sHash1, List.isPrefixOf]
  | a :: r, h => simpa [hasPrefix, sHash1, List.isPrefixOf] using h

theorem hasPrefix_hash1_of_hash2 {l : Str} (h : hasPrefix sHash2 l = true) : hasPrefix sHash1 l = true := by
  cases l with
  | nil => simp [hasPrefix, sHash2] at h
  | cons a r =>
    cases r with
    | nil => simp [hasPrefix, sHash2, List.isPrefixOf] at h
    | cons b r =>
      simp only [hasPrefix, sHash2, sHash1, List.isPrefixOf, Bool.and_eq_true, Bool.and_true] at h ⊢
      exact h.1

theorem joinSep_cons2 (sep : Char) (a b : Str) (r : List Str) : joinSep sep (a :: b :: r) = a ++ sep :: joinSep sep (b :: r) := rfl

/-! ### the FASTA loop of Build, for any line-break test -/

theorem wrapWith_filter (brk : Nat → Bool) : ∀ (i : Nat) (s : Str), '\n' ∉ s → (wrapWith brk i s).filter (fun c => c != '\n') = s
  | _, [], _ => rfl
  | i, c :: cs, h => by
    have hc : c ≠ '\n' := fun e => h (by simp [e])
    have ih := wrapWith_filter brk (i + 1) cs (fun m => h (by simp [m]))
    simp only [wrapWith]
    split <;> simp [hc, ih]

theorem wrapWith_mem (brk : Nat → Bool) : ∀ (i : Nat) (s : Str), ∀ c ∈ wrapWith brk i s, c ∈ s ∨ c = '\n'
  | _, [], c, h => by simp [wrapWith] at h
  | i, x :: xs, c, h => by
    simp only [wrapWith] at h
    split at h
    · simp only [List.mem_cons] at h
      rcases h with rfl | rfl | h
      · simp
      · simp
      · rcases wrapWith_mem brk (i + 1) xs c h with h | h
        · exact Or.inl (List.mem_cons_of_mem _ h)
        · exact Or.inr h
    · simp only [List.mem_cons] at h
      rcases h with rfl | h
      · simp
      · rcases wrapWith_mem brk (i + 1) xs c h with h | h
        · exact Or.inl (List.mem_cons_of_mem _ h)
        · exact Or.inr h

theorem split_unlines (rest : Str) : ∀ (ls : List Str), (∀ l ∈ ls, '\n' ∉ l) →
    split '\n' (unlines ls ++ rest) = ls ++ split '\n' rest
  | [], _ => by simp [unlines]
  | l :: ls, h => by
    simp only [unlines, List.append_assoc, List.cons_append]
    rw [split_cons_line _ (h l (by simp)), split_unlines rest ls (fun x hx => h x (by simp [hx]))]

/-! ### the skeleton of a GFF3 text with an embedded FASTA section -/

theorem find_region (pre : List Str) (rline : Str) (rest : List Str)
    (hpre : ∀ l ∈ pre, hasPrefix sSeqRegion l = false) (hr : hasPrefix sSeqRegion rline = true) :
    (pre ++ rline :: rest).find? (fun l => hasPrefix sSeqRegion l) = some rline := by
  induction pre with
  | nil => simp [hr]
  | cons p ps ih =>
    simp only [List.cons_append, List.find?, hpre p (by simp)]
    exact ih (fun l hl => hpre l (by simp [hl]))

theorem parseTrimmed_doc (vline rline x0 ver name rs re dl : Str) (pre mid tail : List Str) (F : List Feature)
    (hv : idx (split ' ' vline) 1 = .ok ver)
    (hr : split ' ' rline = [x0, name, rs, re])
    (hvp : hasPrefix sHash1 vline = true) (hvn : vline ≠ sFasta)
    (hrp : hasPrefix sSeqRegion rline = true) (hrh : hasPrefix sHash1 rline = true) (hrn : rline ≠ sFasta)
    (hpre : ∀ l ∈ pre, hasPrefix sSeqRegion l = false) (hpreOk : MidOk pre [])
    (seq : Str) (hmid : MidOk mid F) (htail : TailOk tail seq) :
    parseTrimmed (vline :: (pre ++ rline :: (mid ++ sFasta :: ('>' :: dl) :: tail))) =
      .ok { name := name, gffVersion := ver, regionStart := atoi rs, regionEnd := atoi re,
            size := atoi re - atoi rs, description := '>' :: dl, seq := seq, features := F } := by
  have hloop : loop (vline :: (pre ++ rline :: (mid ++ sFasta :: ('>' :: dl) :: tail))) {} =
      .ok { fasta := true, buf := seq, desc := '>' :: dl, feats := F } := by
    simp only [loop, step_skip _ hvp hvn, Outcome.bind_ok]
    rw [loop_append, hpreOk _ rfl]
    simp only [Outcome.bind_ok, loop, step_skip _ hrh hrn, List.append_nil]
    rw [loop_append, hmid _ rfl]
    simp only [Outcome.bind_ok, loop, step_fastaMark]
    rw [step_defline _ rfl]
    simp only [Outcome.bind_ok]
    rw [htail _ rfl]
    simp
  have hfind := find_region pre rline (mid ++ sFasta :: ('>' :: dl) :: tail) hpre hrp
  cases hp : pre ++ rline :: (mid ++ sFasta :: ('>' :: dl) :: tail) with
  | nil => simp at hp
  | cons second rest =>
    rw [hp] at hfind hloop
    simp only [parseTrimmed, hfind, hv, hr, Outcome.bind_ok]
    simp only [idx, List.getElem?_cons_zero, List.getElem?_cons_succ, Outcome.bind_ok, hloop]

end PolyVerif.Gff
