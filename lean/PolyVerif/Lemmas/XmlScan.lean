import PolyVerif.Spec.XmlScan
/-
Lemmas about the XML reader of Spec/XmlScan: the lexer reads back what `renderToks` writes
(`lexFuel_render`), and the reader is a fold (`run_append`).
-/
namespace PolyVerif.Spec.XmlScan
open PolyVerif PolyVerif.Uniprot

/-! ### list scanning -/

theorem takeWhile_stop {α : Type} (p : α → Bool) : ∀ (a : List α) (c : α) (r : List α),
    (∀ x ∈ a, p x = true) → p c = false → (a ++ c :: r).takeWhile p = a
  | [], c, r, _, hc => by simp [hc]
  | x :: a, c, r, h, hc => by
    simp only [List.cons_append, List.takeWhile_cons, h x (by simp), if_true]
    rw [takeWhile_stop p a c r (fun y hy => h y (by simp [hy])) hc]

theorem dropWhile_stop {α : Type} (p : α → Bool) : ∀ (a : List α) (c : α) (r : List α),
    (∀ x ∈ a, p x = true) → p c = false → (a ++ c :: r).dropWhile p = c :: r
  | [], c, r, _, hc => by simp [hc]
  | x :: a, c, r, h, hc => by
    simp only [List.cons_append, List.dropWhile_cons, h x (by simp), if_true]
    exact dropWhile_stop p a c r (fun y hy => h y (by simp [hy])) hc

theorem takeWhile_all_nil {α : Type} (p : α → Bool) : ∀ (a : List α), (∀ x ∈ a, p x = true) → a.takeWhile p = a
  | [], _ => rfl
  | x :: a, h => by
    simp only [List.takeWhile_cons, h x (by simp), if_true]
    rw [takeWhile_all_nil p a (fun y hy => h y (by simp [hy]))]

theorem dropWhile_all_nil {α : Type} (p : α → Bool) : ∀ (a : List α), (∀ x ∈ a, p x = true) → a.dropWhile p = []
  | [], _ => rfl
  | x :: a, h => by
    simp only [List.dropWhile_cons, h x (by simp), if_true]
    exact dropWhile_all_nil p a (fun y hy => h y (by simp [hy]))

/-! ### pieces of the lexer -/

theorem untilPiEnd_body : ∀ (b rest : Str), '>' ∉ b → untilPiEnd (b ++ '?' :: '>' :: rest) = some (b, rest)
  | [], rest, _ => by simp [untilPiEnd]
  | c :: b, rest, h => by
    have hb : '>' ∉ b := fun hm => h (by simp [hm])
    have hhead : (b ++ '?' :: '>' :: rest).head? ≠ some '>' := by
      cases b with
      | nil => simp
      | cons x b => simp only [List.cons_append, List.head?_cons, ne_eq, Option.some.injEq]; intro e; exact h (by simp [e])
    simp only [List.cons_append, untilPiEnd]
    rw [if_neg (fun hc => hhead hc.2), untilPiEnd_body b rest hb]
    rfl

theorem untilCommentEnd_body : ∀ (b rest : Str), '-' ∉ b →
    untilCommentEnd (b ++ '-' :: '-' :: '>' :: rest) = some (b, rest)
  | [], rest, _ => by simp [untilCommentEnd]
  | c :: b, rest, h => by
    have hb : '-' ∉ b := fun hm => h (by simp [hm])
    have hc : c ≠ '-' := fun e => h (by simp [e])
    simp only [List.cons_append, untilCommentEnd]
    rw [if_neg (fun hx => hc hx.1), untilCommentEnd_body b rest hb]
    rfl

/-- a name of the subset -/
def WFName (n : Str) : Prop := (∃ c t, n = c :: t ∧ nameStart c = true) ∧ ∀ x ∈ n, nameChar x = true

instance (n : Str) : Decidable (WFName n) := by
  unfold WFName
  cases n with
  | nil => exact isFalse (by rintro ⟨⟨c, t, h, _⟩, _⟩; cases h)
  | cons c t =>
    exact if h : nameStart c = true ∧ ∀ x ∈ c :: t, nameChar x = true
      then isTrue ⟨⟨c, t, rfl, h.1⟩, h.2⟩
      else isFalse (by rintro ⟨⟨c', t', he, hs⟩, ha⟩; cases he; exact h ⟨hs, ha⟩)

def WFAttr (a : Str × Str) : Prop := WFName a.1 ∧ ∀ x ∈ a.2, valueChar '"' x = true

instance (a : Str × Str) : Decidable (WFAttr a) := by unfold WFAttr; infer_instance

theorem nameChar_facts : nameChar '=' = false ∧ nameChar '>' = false ∧ nameChar ' ' = false ∧ nameChar '/' = false ∧
    isWs '=' = false ∧ isWs '"' = false ∧ isWs '>' = false ∧ isWs '/' = false ∧ isWs ' ' = true ∧
    valueChar '"' '"' = false := by decide

theorem nameStart_not_ws {c : Char} (h : nameStart c = true) :
    isWs c = false ∧ c ≠ '>' ∧ c ≠ '/' ∧ c ≠ '?' ∧ c ≠ '!' ∧ c ≠ '<' := by
  refine ⟨?_, ?_, ?_, ?_, ?_, ?_⟩
  · cases hw : isWs c with
    | false => rfl
    | true =>
      simp only [isWs, Bool.or_eq_true, beq_iff_eq] at hw
      rcases hw with ((rfl | rfl) | rfl) | rfl <;> revert h <;> decide
  all_goals (intro e; subst e; revert h; decide)

theorem renderAttrs_length (as : List (Str × Str)) : as.length ≤ (renderAttrs as).length := by
  induction as with
  | nil => simp [renderAttrs]
  | cons a as ih => obtain ⟨k, v⟩ := a; simp [renderAttrs]; omega

theorem lexAttrs_step (k v tl : Str) (fuel : Nat) (hk : WFName k) (hv : ∀ x ∈ v, valueChar '"' x = true) :
    lexAttrs (fuel + 1) (' ' :: (k ++ '=' :: '"' :: (v ++ '"' :: tl))) =
      (lexAttrs fuel tl).map (fun x => ((k, v) :: x.1, x.2.1, x.2.2)) := by
  obtain ⟨⟨c, t, rfl, hs⟩, hall⟩ := hk
  have hcs := nameStart_not_ws hs
  have htk := takeWhile_stop nameChar (c :: t) '=' ('"' :: (v ++ '"' :: tl)) hall nameChar_facts.1
  have hdk := dropWhile_stop nameChar (c :: t) '=' ('"' :: (v ++ '"' :: tl)) hall nameChar_facts.1
  have htv := takeWhile_stop (valueChar '"') v '"' tl hv nameChar_facts.2.2.2.2.2.2.2.2.2
  have hdv := dropWhile_stop (valueChar '"') v '"' tl hv nameChar_facts.2.2.2.2.2.2.2.2.2
  simp only [List.cons_append] at htk hdk
  have hne1 : c ≠ '>' := hcs.2.1
  have hne2 : c ≠ '/' := hcs.2.2.1
  conv => lhs; unfold lexAttrs
  simp only [List.dropWhile_cons, nameChar_facts, if_true, hcs.1, Bool.false_eq_true, if_false, List.cons_append]
  split
  · rename_i heq; simp only [List.cons.injEq] at heq; exact absurd heq.1 hne1
  · rename_i heq; simp only [List.cons.injEq] at heq; exact absurd heq.1 hne2
  · rename_i r hr1 hr2
    simp only [htk, hdk, List.isEmpty_cons, List.head?_cons, Option.map_some, Option.getD_some, hs, Bool.not_true,
      Bool.or_self, Bool.false_eq_true, if_false, List.dropWhile_cons, nameChar_facts]
    simp only [htv, hdv, beq_self_eq_true, Bool.true_or, if_true]

theorem lexAttrs_render : ∀ (as : List (Str × Str)) (fuel : Nat) (sc : Bool) (rest : Str),
    (∀ a ∈ as, WFAttr a) → as.length < fuel →
    lexAttrs fuel (renderAttrs as ++ ((if sc then ['/', '>'] else ['>']) ++ rest)) = some (as, sc, rest)
  | [], fuel + 1, sc, rest, _, _ => by
    cases sc <;> simp [lexAttrs, renderAttrs, nameChar_facts]
  | (k, v) :: as, fuel + 1, sc, rest, h, hf => by
    have hkv := h (k, v) (by simp)
    have ih := lexAttrs_render as fuel sc rest (fun a ha => h a (by simp [ha])) (by simp at hf; omega)
    simp only [renderAttrs, List.cons_append, List.append_assoc]
    rw [lexAttrs_step k v _ fuel hkv.1 hkv.2, ih]
    rfl

/-! ### tokens read back -/

def WFTok : Tok → Prop
  | .pi b => '>' ∉ b
  | .comment b => '-' ∉ b
  | .start n as _ => WFName n ∧ ∀ a ∈ as, WFAttr a
  | .close n => WFName n
  | .chars t => t ≠ [] ∧ validText t = true

instance (t : Tok) : Decidable (WFTok t) := by cases t <;> unfold WFTok <;> infer_instance

def isChars : Tok → Bool
  | .chars _ => true
  | _ => false

/-- the text after a token does not continue it: character data ends at markup or at the end -/
def Follows (t : Tok) (rest : Str) : Prop := isChars t = true → rest = [] ∨ rest.head? = some '<'

theorem tagEnd_head (as : List (Str × Str)) (sc : Bool) (rest : Str) :
    ∃ x tl, renderAttrs as ++ ((if sc then ['/', '>'] else ['>']) ++ rest) = x :: tl ∧ nameChar x = false := by
  cases as with
  | nil => cases sc <;> simp [renderAttrs, nameChar_facts]
  | cons a as => obtain ⟨k, v⟩ := a; exact ⟨' ', _, rfl, nameChar_facts.2.2.1⟩

theorem validTextAux_no_lt : ∀ (t : Str) (st : Option Str), validTextAux st t = true → ∀ c ∈ t, (c != '<') = true
  | [], _, _ => by simp
  | c :: r, none, h => by
    simp only [validTextAux] at h
    intro x hx
    rcases List.mem_cons.mp hx with rfl | hx
    · split at h
      · rename_i hc; subst hc; decide
      · simp only [Bool.and_eq_true] at h; exact h.1.1.2
    · split at h
      · exact validTextAux_no_lt r _ h x hx
      · simp only [Bool.and_eq_true] at h; exact validTextAux_no_lt r _ h.2 x hx
  | c :: r, some n, h => by
    simp only [validTextAux] at h
    intro x hx
    rcases List.mem_cons.mp hx with rfl | hx
    · split at h
      · rename_i hc; subst hc; decide
      · simp only [Bool.and_eq_true] at h
        have := h.1
        by_cases e : x = '<'
        · subst e; exact absurd this (by decide)
        · simpa using e
    · split at h
      · simp only [Bool.and_eq_true] at h; exact validTextAux_no_lt r _ h.2 x hx
      · simp only [Bool.and_eq_true] at h; exact validTextAux_no_lt r _ h.2 x hx

/-- text without `&` (and the other excluded characters) is valid character data -/
theorem validText_of_textChars : ∀ (t : Str), (∀ c ∈ t, textChar c = true) → validText t = true
  | [], _ => rfl
  | c :: r, h => by
    have hc := h c (by simp)
    simp only [textChar, Bool.and_eq_true, bne_iff_ne, ne_eq] at hc
    have ih := validText_of_textChars r (fun x hx => h x (by simp [hx]))
    simp only [validText, validTextAux, if_neg hc.1.2, Bool.and_eq_true, bne_iff_ne, ne_eq] at ih ⊢
    exact ⟨⟨⟨hc.1.1.1, hc.1.1.2⟩, hc.2⟩, ih⟩

theorem nextTok_render (t : Tok) (rest : Str) (hw : WFTok t) (hf : Follows t rest) :
    nextTok (renderTok t ++ rest) = .tok t rest := by
  cases t with
  | pi b =>
    simp only [renderTok, List.cons_append, nextTok, List.append_assoc, List.nil_append]
    rw [untilPiEnd_body b rest hw]
  | comment b =>
    simp only [renderTok, List.cons_append, nextTok, List.append_assoc, List.nil_append]
    rw [untilCommentEnd_body b rest hw]
  | close n =>
    obtain ⟨⟨c, tl, rfl, hs⟩, hall⟩ := hw
    have htk := takeWhile_stop nameChar (c :: tl) '>' rest hall nameChar_facts.2.1
    have hdk := dropWhile_stop nameChar (c :: tl) '>' rest hall nameChar_facts.2.1
    simp only [List.cons_append] at htk hdk
    simp only [renderTok, List.cons_append, nextTok, List.append_assoc, List.nil_append, htk, hdk,
      List.isEmpty_cons, List.head?_cons, Option.map_some, Option.getD_some, hs, Bool.not_true, Bool.or_self,
      Bool.false_eq_true, if_false, List.dropWhile_cons, nameChar_facts]
  | start n as sc =>
    obtain ⟨⟨⟨c, tl, rfl, hs⟩, hall⟩, has⟩ := hw
    obtain ⟨x, xs, hx, hnx⟩ := tagEnd_head as sc rest
    have hcs := nameStart_not_ws hs
    have hform : renderTok (.start (c :: tl) as sc) ++ rest = '<' :: c :: (tl ++ x :: xs) := by
      simp only [renderTok, List.cons_append, List.append_assoc, hx]
    have htk := takeWhile_stop nameChar (c :: tl) x xs hall hnx
    have hdk := dropWhile_stop nameChar (c :: tl) x xs hall hnx
    simp only [List.cons_append] at htk hdk
    rw [hform]
    unfold nextTok
    split
    · rename_i heq; cases heq
    · rename_i r heq
      simp only [List.cons.injEq, true_and] at heq
      subst heq
      split
      · rename_i heq; simp only [List.cons.injEq] at heq; exact absurd heq.1 hcs.2.2.2.1
      · rename_i heq; simp only [List.cons.injEq] at heq; exact absurd heq.1 hcs.2.2.2.2.1
      · rename_i heq; simp only [List.cons.injEq] at heq; exact absurd heq.1 hcs.2.2.1
      · simp only [htk, hdk, List.isEmpty_cons, List.head?_cons, Option.map_some, Option.getD_some, hs,
          Bool.not_true, Bool.or_self, Bool.false_eq_true, if_false]
        rw [← hx, lexAttrs_render as _ sc rest has (by
          have := renderAttrs_length as
          simp only [List.length_cons, List.length_append]
          have h2 : (x :: xs).length = (renderAttrs as ++ ((if sc then ['/', '>'] else ['>']) ++ rest)).length := by rw [hx]
          simp only [List.length_cons, List.length_append] at h2
          omega)]
    · rename_i c' r' hne heq
      simp only [List.cons.injEq] at heq
      exact absurd heq.1.symm hne
  | chars txt =>
    obtain ⟨hne, hall⟩ := hw
    cases txt with
    | nil => exact absurd rfl hne
    | cons c tl =>
      have hp : ∀ x ∈ c :: tl, (fun y => y != '<') x = true := validTextAux_no_lt _ _ hall
      have hc := hp c (by simp)
      have hc' : c ≠ '<' := by simpa using hc
      have htd : ((c :: tl) ++ rest).takeWhile (fun y => y != '<') = c :: tl ∧
          ((c :: tl) ++ rest).dropWhile (fun y => y != '<') = rest := by
        rcases hf rfl with rfl | hh
        · simp only [List.append_nil]
          exact ⟨takeWhile_all_nil _ _ hp, dropWhile_all_nil _ _ hp⟩
        · cases rest with
          | nil => cases hh
          | cons r0 rs =>
            simp only [List.head?_cons, Option.some.injEq] at hh
            subst hh
            exact ⟨takeWhile_stop _ _ _ _ hp (by simp), dropWhile_stop _ _ _ _ hp (by simp)⟩
      simp only [renderTok]
      unfold nextTok
      split
      · rename_i heq; cases heq
      · rename_i r heq; simp only [List.cons_append, List.cons.injEq] at heq; exact absurd heq.1 hc'
      · rename_i c' r' _ heq
        rw [← heq, htd.1, htd.2]
        rw [if_pos hall]

/-! ### token sequences read back -/

/-- well-formed tokens, and no character data directly followed by more character data -/
def WFToks : List Tok → Prop
  | [] => True
  | t :: ts => WFTok t ∧ (isChars t = true → ∀ t' ∈ ts.head?, isChars t' = false) ∧ WFToks ts

/-- the text `X` after the tokens does not continue a final character data token -/
def EndOk (ts : List Tok) (X : Str) : Prop :=
  ∀ t ∈ ts.getLast?, isChars t = true → X = [] ∨ X.head? = some '<'

instance decWFToks : (ts : List Tok) → Decidable (WFToks ts)
  | [] => isTrue trivial
  | t :: ts =>
    have := decWFToks ts
    by unfold WFToks; infer_instance

/-- empty, or beginning with markup (not with character data) -/
def MarkupFirst (ts : List Tok) : Prop := ∀ t ∈ ts.head?, isChars t = false

instance (ts : List Tok) : Decidable (MarkupFirst ts) := by unfold MarkupFirst; infer_instance

/-- does not end with character data -/
def MarkupLast (ts : List Tok) : Prop := ∀ t ∈ ts.getLast?, isChars t = false

instance (ts : List Tok) : Decidable (MarkupLast ts) := by unfold MarkupLast; infer_instance

theorem wfToks_append : ∀ (a b : List Tok), WFToks a → WFToks b → (MarkupLast a ∨ MarkupFirst b) → WFToks (a ++ b)
  | [], b, _, hb, _ => hb
  | [t], b, ha, hb, h => by
    refine ⟨ha.1, fun hc => ?_, hb⟩
    rcases h with h | h
    · have := h t (by simp); rw [hc] at this; cases this
    · exact h
  | t :: t' :: a, b, ha, hb, h => by
    have ih := wfToks_append (t' :: a) b ha.2.2 hb (by
      rcases h with h | h
      · left; intro x hx; exact h x (by simpa [List.getLast?_cons_cons] using hx)
      · right; exact h)
    exact ⟨ha.1, by simpa using ha.2.1, ih⟩

theorem renderTok_markup {t : Tok} (h : isChars t = false) : ∃ r, renderTok t = '<' :: r := by
  cases t with
  | chars _ => cases h
  | pi b => exact ⟨_, rfl⟩
  | comment b => exact ⟨_, rfl⟩
  | start n as sc => exact ⟨_, rfl⟩
  | close n => exact ⟨_, rfl⟩

theorem renderTok_ne_nil {t : Tok} (h : WFTok t) : renderTok t ≠ [] := by
  cases t with
  | chars txt => exact h.1
  | pi b => simp [renderTok]
  | comment b => simp [renderTok]
  | start n as sc => simp [renderTok]
  | close n => simp [renderTok]

theorem renderToks_cons (t : Tok) (ts : List Tok) : renderToks (t :: ts) = renderTok t ++ renderToks ts := rfl

theorem renderToks_append (a b : List Tok) : renderToks (a ++ b) = renderToks a ++ renderToks b := by
  simp [renderToks]

theorem renderToks_length : ∀ (ts : List Tok), WFToks ts → ts.length ≤ (renderToks ts).length
  | [], _ => by simp [renderToks]
  | t :: ts, h => by
    have := renderToks_length ts h.2.2
    have h1 : 0 < (renderTok t).length := List.length_pos_iff.mpr (renderTok_ne_nil h.1)
    simp only [renderToks_cons, List.length_cons, List.length_append]; omega

theorem lexFuel_render : ∀ (ts : List Tok) (X : Str) (f : Nat), WFToks ts → EndOk ts X → ts.length < f →
    ∃ tl e, lexFuel f (renderToks ts ++ X) = (ts ++ tl, e) ∧ (X = [] → tl = [] ∧ e = false)
  | [], X, f + 1, _, _, _ => by
    refine ⟨(lexFuel (f + 1) X).1, (lexFuel (f + 1) X).2, by simp [renderToks], fun hX => ?_⟩
    subst hX; simp [lexFuel, nextTok]
  | t :: ts, X, f + 1, hw, he, hf => by
    have hfol : Follows t (renderToks ts ++ X) := by
      intro hc
      cases ts with
      | nil =>
        simp only [renderToks, List.map_nil, List.flatten_nil, List.nil_append]
        exact he t (by simp) hc
      | cons t' ts' =>
        obtain ⟨r, hr⟩ := renderTok_markup (hw.2.1 hc t' (by simp))
        right; simp [renderToks_cons, hr]
    have he' : EndOk ts X := by
      intro t' ht'
      cases ts with
      | nil => simp at ht'
      | cons a as => exact he t' (by simpa [List.getLast?_cons_cons] using ht')
    obtain ⟨tl, e, hl, hx⟩ := lexFuel_render ts X f hw.2.2 he' (by simp at hf; omega)
    refine ⟨tl, e, ?_, hx⟩
    simp only [renderToks_cons, List.append_assoc, lexFuel, nextTok_render t _ hw.1 hfol, hl, List.cons_append]

/-- the lexer reads a rendered token sequence back, whatever follows it -/
theorem lexAll_render (ts : List Tok) (X : Str) (hw : WFToks ts) (he : EndOk ts X) :
    ∃ tl e, lexAll (renderToks ts ++ X) = (ts ++ tl, e) ∧ (X = [] → tl = [] ∧ e = false) := by
  apply lexFuel_render ts X _ hw he
  have := renderToks_length ts hw
  simp only [List.length_append]; omega

/-! ### the reader is a fold -/

theorem run_append (s : St) (a b : List Tok) : run s (a ++ b) = run (run s a) b := by
  simp [run, List.foldl_append]

theorem run_cons (s : St) (t : Tok) (ts : List Tok) : run s (t :: ts) = run (step s t) ts := rfl

theorem run_nil (s : St) : run s [] = s := rfl

/-- events are only ever added -/
theorem step_evs (s : St) (t : Tok) : ∃ more, (step s t).evs = more ++ s.evs := by
  unfold step
  split
  · exact ⟨[], rfl⟩
  · split
    · rename_i es _
      cases t with
      | pi b => exact ⟨[], rfl⟩
      | comment b => exact ⟨[], rfl⟩
      | chars x => simp only [stepEntry]; split <;> exact ⟨[], rfl⟩
      | start n as sc =>
        simp only [stepEntry]
        split
        · split <;> exact ⟨[], rfl⟩
        · exact ⟨[], rfl⟩
      | close n =>
        simp only [stepEntry]
        split
        · split
          · exact ⟨[], rfl⟩
          · exact ⟨[_], rfl⟩
        · split
          · exact ⟨[_], rfl⟩
          · exact ⟨[_], rfl⟩
    · cases t with
      | pi b => exact ⟨[_], rfl⟩
      | comment b => exact ⟨[_], rfl⟩
      | chars x => exact ⟨[_], rfl⟩
      | close n =>
        simp only
        split
        · split
          · exact ⟨[_], rfl⟩
          · exact ⟨[], rfl⟩
        · exact ⟨[], rfl⟩
      | start n as sc =>
        simp only
        split
        · split
          · exact ⟨[_], rfl⟩
          · exact ⟨[], rfl⟩
        · split
          · exact ⟨[_, _], rfl⟩
          · exact ⟨[_], rfl⟩

theorem run_evs : ∀ (ts : List Tok) (s : St), ∃ more, (run s ts).evs = more ++ s.evs
  | [], s => ⟨[], rfl⟩
  | t :: ts, s => by
    obtain ⟨m1, h1⟩ := step_evs s t
    obtain ⟨m2, h2⟩ := run_evs ts (step s t)
    exact ⟨m2 ++ m1, by rw [run_cons, h2, h1, List.append_assoc]⟩

/-- the trace at the end of the input starts with the events already emitted -/
theorem finish_evs (s : St) (e : Bool) : ∃ more, (finish s e).evs = s.evs.reverse ++ more := by
  unfold finish
  split
  · exact ⟨[], by simp⟩
  · split
    · rename_i es _; exact ⟨[.entryErr es.e], by simp⟩
    · exact ⟨[], by simp⟩

end PolyVerif.Spec.XmlScan
