import PolyVerif.Lemmas.LocationNum
/-
Helper lemmas for C02, part 2: `parseLocation (print l)` is the structure `pembed l`.

Shape of the argument (the one DESIGN.md §4 C02 calibrates): a printed location passes through
the depth-0 comma splitter untouched at any depth ≥ 0, a printed operand tail does at depth ≥ 1,
so `splitTopList` inverts operand printing; numbers print/parse round trip (`atoi_itoa`);
`Index`/`LastIndex`/slices cut exactly the keyword and the text between the outer parentheses.
-/
namespace PolyVerif.Lemmas.Location
open PolyVerif PolyVerif.Location PolyVerif.Insdc

/-! ### what the parser returns on canonical text -/

mutual
/-- the structure `parseLocation` builds from `print l`: as `embed`, except that a join node
(and the wrapper node of a complement of a complement) carries the partial flags of everything
written inside it: the flags are set from the WHOLE string. -/
def pembed : Loc → PLoc
  | .span a b lt gt => { start := (a : Int) - 1, stop := b, five := lt, three := gt }
  | .base n => { start := (n : Int) - 1, stop := n }
  | .join xs => { join := true, five := hasChar '<' (print (.join xs)), three := hasChar '>' (print (.join xs)),
                  subs := pembedList xs }
  | .compl x =>
    let p := pembed x
    if p.complement then
      { complement := true, five := hasChar '<' (print (.compl x)), three := hasChar '>' (print (.compl x)), subs := [p] }
    else { p with complement := true }
def pembedList : List Loc → List PLoc
  | [] => []
  | x :: xs => pembed x :: pembedList xs
end

/-! ### text of a leaf -/

theorem print_span (a b : Nat) (lt gt : Bool) :
    print (.span a b lt gt) =
      (if lt then ['<'] else []) ++ (itoa a ++ ['.', '.'] ++ ((if gt then ['>'] else []) ++ itoa b)) := by
  simp [print, decimal_eq_itoa]

theorem print_base (n : Nat) : print (.base n) = itoa n := by
  simp [print, decimal_eq_itoa]

theorem hasChar_false {c : Char} {s : Str} (h : c ∉ s) : hasChar c s = false := by
  simp [hasChar, h]

theorem hasChar_true {c : Char} {s : Str} (h : c ∈ s) : hasChar c s = true := by
  simp [hasChar, h]

theorem not_mem_digits {c : Char} {s : Str} (hs : Digits s) (hc : isDig c = false) : c ∉ s := by
  intro h
  rw [hs c h] at hc
  cases hc

theorem span_chars (a b : Nat) (lt gt : Bool) :
    ∀ c ∈ print (.span a b lt gt), c = '<' ∨ c = '>' ∨ c = '.' ∨ isDig c = true := by
  intro c hc
  rw [print_span] at hc
  simp only [List.mem_append, List.mem_cons, List.not_mem_nil, or_false] at hc
  rcases hc with h | (h | h | h) | h | h
  · cases lt <;> simp at h; exact Or.inl h
  · exact Or.inr (Or.inr (Or.inr (itoa_digits a c h)))
  · exact Or.inr (Or.inr (Or.inl h))
  · exact Or.inr (Or.inr (Or.inl h))
  · cases gt <;> simp at h; exact Or.inr (Or.inl h)
  · exact Or.inr (Or.inr (Or.inr (itoa_digits b c h)))

/-! ### strings.Split(_, "..") on a span -/

theorem splitDots_nodot : ∀ (s : Str), '.' ∉ s → splitDots s = (s, [])
  | [], _ => rfl
  | [c], _ => rfl
  | c :: c2 :: cs, h => by
    have hc : c ≠ '.' := fun e => h (by simp [e])
    have ih := splitDots_nodot (c2 :: cs) (fun hm => h (List.mem_cons_of_mem _ hm))
    simp [splitDots, hc, ih]

theorem splitDots_span : ∀ (pre post : Str), '.' ∉ pre → '.' ∉ post →
    splitDots (pre ++ '.' :: '.' :: post) = (pre, [post])
  | [], post, _, hp => by
    simp [splitDots, splitDots_nodot post hp]
  | [c], post, h, hp => by
    have hc : c ≠ '.' := fun e => h (by simp [e])
    simp [splitDots, hc, splitDots_nodot post hp]
  | c :: c2 :: cs, post, h, hp => by
    have hc : c ≠ '.' := fun e => h (by simp [e])
    have ih := splitDots_span (c2 :: cs) post (fun hm => h (List.mem_cons_of_mem _ hm)) hp
    simp only [List.cons_append] at ih ⊢
    simp [splitDots, hc, ih]

theorem stripMarks_digits {s : Str} (h : Digits s) : stripMarks s = s := by
  unfold stripMarks
  rw [List.filter_eq_self]
  intro c hc
  have := isDig_ne (h c hc)
  simp [this.2.2.1, this.2.2.2.1]

theorem stripMarks_lt (lt : Bool) {s : Str} (h : Digits s) :
    stripMarks ((if lt then ['<'] else []) ++ s) = s := by
  cases lt
  · simpa using stripMarks_digits h
  · have := stripMarks_digits h
    simp only [stripMarks, if_true, List.cons_append, List.nil_append] at this ⊢
    rw [List.filter_cons_of_neg (by decide)]
    exact this

theorem stripMarks_gt (gt : Bool) {s : Str} (h : Digits s) :
    stripMarks ((if gt then ['>'] else []) ++ s) = s := by
  cases gt
  · simpa using stripMarks_digits h
  · have := stripMarks_digits h
    simp only [stripMarks, if_true, List.cons_append, List.nil_append] at this ⊢
    rw [List.filter_cons_of_neg (by decide)]
    exact this

theorem dot_not_digit : isDig '.' = false := by decide
theorem lt_not_digit : isDig '<' = false := by decide
theorem gt_not_digit : isDig '>' = false := by decide
theorem open_not_digit : isDig '(' = false := by decide

/-! ### leaves parse to themselves -/

theorem finish_leaf (s : Str) (start stop : Int) (h : stop ≠ 0) :
    finish s { start := start, stop := stop } =
      .ok { start := start, stop := stop, five := hasChar '<' s, three := hasChar '>' s } := by
  unfold finish
  cases h1 : hasChar '<' s <;> cases h2 : hasChar '>' s <;> simp [h]

theorem parse_span (f a b : Nat) (lt gt : Bool) (hb : b ≠ 0) :
    parseLocF (f + 1) (print (.span a b lt gt)) = .ok (pembed (.span a b lt gt)) := by
  have hch := span_chars a b lt gt
  have hopen : hasChar '(' (print (.span a b lt gt)) = false := by
    apply hasChar_false
    intro hm
    rcases hch _ hm with h | h | h | h <;> revert h <;> decide
  have hdot : hasChar '.' (print (.span a b lt gt)) = true := by
    apply hasChar_true
    rw [print_span]; simp
  have hl : hasChar '<' (print (.span a b lt gt)) = lt := by
    rw [print_span]
    have h1 := not_mem_digits (itoa_digits a) lt_not_digit
    have h2 := not_mem_digits (itoa_digits b) lt_not_digit
    cases lt <;> cases gt <;> simp [hasChar, h1, h2]
  have hg : hasChar '>' (print (.span a b lt gt)) = gt := by
    rw [print_span]
    have h1 := not_mem_digits (itoa_digits a) gt_not_digit
    have h2 := not_mem_digits (itoa_digits b) gt_not_digit
    cases lt <;> cases gt <;> simp [hasChar, h1, h2]
  have hsplit : splitDots (print (.span a b lt gt)) =
      ((if lt then ['<'] else []) ++ itoa a, [(if gt then ['>'] else []) ++ itoa b]) := by
    rw [print_span]
    have h1 := not_mem_digits (itoa_digits a) dot_not_digit
    have h2 := not_mem_digits (itoa_digits b) dot_not_digit
    have := splitDots_span ((if lt then ['<'] else []) ++ itoa a) ((if gt then ['>'] else []) ++ itoa b)
      (by cases lt <;> simp [h1]) (by cases gt <;> simp [h2])
    simpa [List.append_assoc] using this
  unfold parseLocF
  simp only [hopen, hdot, hsplit, Bool.not_false, Bool.not_true, if_true, Bool.false_eq_true, if_false]
  rw [stripMarks_lt lt (itoa_digits a), stripMarks_gt gt (itoa_digits b), atoi_itoa, atoi_itoa]
  rw [finish_leaf _ _ _ (by omega), hl, hg]
  rfl

theorem parse_base (f n : Nat) (hn : n ≠ 0) :
    parseLocF (f + 1) (print (.base n)) = .ok (pembed (.base n)) := by
  rw [print_base]
  have hopen : hasChar '(' (itoa n) = false := hasChar_false (not_mem_digits (itoa_digits n) open_not_digit)
  have hdot : hasChar '.' (itoa n) = false := hasChar_false (not_mem_digits (itoa_digits n) dot_not_digit)
  have hl : hasChar '<' (itoa n) = false := hasChar_false (not_mem_digits (itoa_digits n) lt_not_digit)
  have hg : hasChar '>' (itoa n) = false := hasChar_false (not_mem_digits (itoa_digits n) gt_not_digit)
  unfold parseLocF
  simp only [hopen, hdot, Bool.not_false, if_true]
  rw [atoi_itoa, finish_leaf _ _ _ (by omega), hl, hg]
  rfl

/-! ### the depth-0 comma splitter inverts operand printing -/

theorem splitTop_cons_plain (d : Int) (c : Char) (rest : Str) (h1 : c ≠ '(') (h2 : c ≠ ')') (h3 : c ≠ ',') :
    splitTop d (c :: rest) = (c :: (splitTop d rest).1, (splitTop d rest).2) := by
  simp [splitTop, h1, h2, h3]

def Plain (w : Str) : Prop := ∀ c ∈ w, c ≠ '(' ∧ c ≠ ')' ∧ c ≠ ','

theorem splitTop_plain : ∀ (w rest : Str) (d : Int), Plain w →
    splitTop d (w ++ rest) = (w ++ (splitTop d rest).1, (splitTop d rest).2)
  | [], rest, d, _ => by simp
  | c :: w, rest, d, h => by
    have hc := h c (by simp)
    rw [List.cons_append, splitTop_cons_plain d c _ hc.1 hc.2.1 hc.2.2,
      splitTop_plain w rest d (fun x hx => h x (List.mem_cons_of_mem _ hx))]
    rfl

theorem splitTop_open (d : Int) (rest : Str) :
    splitTop d ('(' :: rest) = ('(' :: (splitTop (d + 1) rest).1, (splitTop (d + 1) rest).2) := by
  simp [splitTop]

theorem splitTop_close (d : Int) (rest : Str) :
    splitTop d (')' :: rest) = (')' :: (splitTop (d - 1) rest).1, (splitTop (d - 1) rest).2) := by
  simp [splitTop]

theorem splitTop_comma_pos (d : Int) (rest : Str) (hd : d ≠ 0) :
    splitTop d (',' :: rest) = (',' :: (splitTop d rest).1, (splitTop d rest).2) := by
  simp [splitTop, hd]

theorem splitTop_comma_zero (rest : Str) :
    splitTop 0 (',' :: rest) = ([], (splitTop 0 rest).1 :: (splitTop 0 rest).2) := by
  simp [splitTop]

theorem span_plain (a b : Nat) (lt gt : Bool) : Plain (print (.span a b lt gt)) := by
  intro c hc
  rcases span_chars a b lt gt c hc with h | h | h | h
  · subst h; decide
  · subst h; decide
  · subst h; decide
  · have := isDig_ne h
    exact ⟨this.2.2.2.2.2.1, this.2.2.2.2.2.2.1, this.2.2.2.2.2.2.2.1⟩

theorem base_plain (n : Nat) : Plain (print (.base n)) := by
  intro c hc
  rw [print_base] at hc
  have := isDig_ne (itoa_digits n c hc)
  exact ⟨this.2.2.2.2.2.1, this.2.2.2.2.2.2.1, this.2.2.2.2.2.2.2.1⟩

theorem splitTop_txtJoin (d : Int) (rest : Str) :
    splitTop d (txtJoin ++ rest) = (txtJoin ++ (splitTop (d + 1) rest).1, (splitTop (d + 1) rest).2) := by
  simp [splitTop, txtJoin]

theorem splitTop_txtCompl (d : Int) (rest : Str) :
    splitTop d (txtCompl ++ rest) = (txtCompl ++ (splitTop (d + 1) rest).1, (splitTop (d + 1) rest).2) := by
  simp [splitTop, txtCompl]

mutual
/-- a printed location passes through the splitter untouched at any depth ≥ 0 -/
theorem splitTop_print : ∀ (l : Loc) (d : Int) (rest : Str), 0 ≤ d →
    splitTop d (print l ++ rest) = (print l ++ (splitTop d rest).1, (splitTop d rest).2)
  | .span a b lt gt, d, rest, _ => splitTop_plain _ _ _ (span_plain a b lt gt)
  | .base n, d, rest, _ => splitTop_plain _ _ _ (base_plain n)
  | .join [], d, rest, _ => by
    simp only [print, List.append_assoc, List.cons_append, List.nil_append]
    rw [splitTop_txtJoin, splitTop_close]
    simp
  | .join (x :: xs), d, rest, hd => by
    have h1 := splitTop_print x (d + 1) (printTail xs ++ ')' :: rest) (by omega)
    have h2 := splitTop_printTail xs (d + 1) (')' :: rest) (by omega)
    simp only [print, List.append_assoc, List.cons_append, List.nil_append]
    rw [splitTop_txtJoin, h1, h2, splitTop_close]
    simp
  | .compl x, d, rest, hd => by
    have h1 := splitTop_print x (d + 1) (')' :: rest) (by omega)
    simp only [print, List.append_assoc, List.cons_append, List.nil_append]
    rw [splitTop_txtCompl, h1, splitTop_close]
    simp
/-- a printed operand tail passes through untouched at any depth ≥ 1 -/
theorem splitTop_printTail : ∀ (xs : List Loc) (d : Int) (rest : Str), 1 ≤ d →
    splitTop d (printTail xs ++ rest) = (printTail xs ++ (splitTop d rest).1, (splitTop d rest).2)
  | [], d, rest, _ => by simp [printTail]
  | x :: xs, d, rest, hd => by
    have h1 := splitTop_print x d (printTail xs ++ rest) (by omega)
    have h2 := splitTop_printTail xs d rest hd
    simp only [printTail, List.append_assoc, List.cons_append]
    rw [splitTop_comma_pos _ _ (by omega), h1, h2]
end

/-- splitting at depth-0 commas inverts operand printing -/
theorem splitTop_operands : ∀ (xs : List Loc) (x : Loc),
    splitTop 0 (print x ++ printTail xs) = (print x, xs.map print)
  | [], x => by
    have := splitTop_print x 0 [] (by omega)
    simpa [printTail, splitTop] using this
  | y :: ys, x => by
    have h1 := splitTop_print x 0 (',' :: (print y ++ printTail ys)) (by omega)
    have h2 := splitTop_operands ys y
    simp only [printTail]
    rw [h1, splitTop_comma_zero, h2]
    simp

theorem splitTopList_operands (x : Loc) (xs : List Loc) :
    splitTopList (print x ++ printTail xs) = print x :: xs.map print := by
  simp [splitTopList, splitTop_operands]

/-! ### Index / LastIndex / slices on `keyword(body)` -/

theorem indexOf_append (c : Char) : ∀ (a r : Str), c ∉ a → indexOf c (a ++ c :: r) = some a.length
  | [], r, _ => by simp [indexOf]
  | x :: a, r, h => by
    have hx : x ≠ c := fun e => h (by simp [e])
    have ih := indexOf_append c a r (fun hm => h (List.mem_cons_of_mem _ hm))
    simp [indexOf, hx, ih]

theorem lastIndexOf_concat (c : Char) (t : Str) : lastIndexOf c (t ++ [c]) = some t.length := by
  simp [lastIndexOf, indexOf]

theorem slice_mid (a b c : Str) :
    slice (a ++ (b ++ c)) (a.length : Int) ((a.length + b.length : Nat) : Int) = .ok b := by
  unfold slice
  have h1 : ¬ ((a.length : Int) < 0 ∨ ((a.length + b.length : Nat) : Int) > ((a ++ (b ++ c)).length : Int) ∨
      (a.length : Int) > ((a.length + b.length : Nat) : Int)) := by
    simp only [List.length_append]; omega
  rw [if_neg h1]
  congr 1
  simp only [Int.toNat_natCast]
  rw [← List.append_assoc, List.take_left' (by simp), List.drop_left]

theorem slice_prefix (a r : Str) : slice (a ++ r) 0 (a.length : Int) = .ok a := by
  unfold slice
  have h1 : ¬ ((0 : Int) < 0 ∨ (a.length : Int) > ((a ++ r).length : Int) ∨ (0 : Int) > (a.length : Int)) := by
    simp only [List.length_append]; omega
  rw [if_neg h1]
  congr 1
  simp

/-- the three string operations at the head of `parseLocation`'s operator branch -/
theorem operator_frame (kw body : Str) (hkw : '(' ∉ kw) :
    hasChar '(' (kw ++ '(' :: (body ++ [')'])) = true ∧
    slice (kw ++ '(' :: (body ++ [')'])) (optIdx (indexOf '(' (kw ++ '(' :: (body ++ [')']))) + 1)
      (optIdx (lastIndexOf ')' (kw ++ '(' :: (body ++ [')'])))) = .ok body ∧
    slice (kw ++ '(' :: (body ++ [')'])) 0 (optIdx (indexOf '(' (kw ++ '(' :: (body ++ [')'])))) = .ok kw := by
  refine ⟨hasChar_true (by simp), ?_, ?_⟩
  · rw [indexOf_append '(' kw _ hkw]
    have e : kw ++ '(' :: (body ++ [')']) = (kw ++ '(' :: body) ++ [')'] := by simp
    rw [e, lastIndexOf_concat]
    have e2 : (kw ++ '(' :: body) ++ [')'] = (kw ++ ['(']) ++ (body ++ [')']) := by simp
    rw [e2]
    have := slice_mid (kw ++ ['(']) body [')']
    simp only [optIdx]
    have l1 : ((kw.length : Nat) : Int) + 1 = (((kw ++ ['(']).length : Nat) : Int) := by simp
    have l2 : (((kw ++ '(' :: body).length : Nat) : Int) = (((kw ++ ['(']).length + body.length : Nat) : Int) := by
      simp only [List.length_append, List.length_cons, List.length_nil]; omega
    rw [l1, l2]
    exact this
  · rw [indexOf_append '(' kw _ hkw]
    exact slice_prefix kw _

theorem finish_join (s : Str) (subs : List PLoc) :
    finish s { join := true, subs := subs } =
      .ok { join := true, five := hasChar '<' s, three := hasChar '>' s, subs := subs } := by
  unfold finish
  cases h1 : hasChar '<' s <;> cases h2 : hasChar '>' s <;> simp

theorem finish_wrapper (s : Str) (q : PLoc) :
    finish s { complement := true, subs := [q] } =
      .ok { complement := true, five := hasChar '<' s, three := hasChar '>' s, subs := [q] } := by
  unfold finish
  cases h1 : hasChar '<' s <;> cases h2 : hasChar '>' s <;> simp

theorem finish_compl (s : Str) (q : PLoc) : finish s { subs := [q] } = .ok q := by
  unfold finish
  cases h1 : hasChar '<' s <;> cases h2 : hasChar '>' s <;> simp

theorem txtJoin_eq (r : Str) : txtJoin ++ r = kwJoin ++ '(' :: r := by simp [txtJoin, kwJoin]
theorem txtCompl_eq (r : Str) : txtCompl ++ r = kwComplement ++ '(' :: r := by simp [txtCompl, kwComplement]

theorem print_join_cons (x : Loc) (xs : List Loc) :
    print (.join (x :: xs)) = kwJoin ++ '(' :: ((print x ++ printTail xs) ++ [')']) := by
  simp [print, txtJoin_eq]

theorem print_compl (x : Loc) : print (.compl x) = kwComplement ++ '(' :: (print x ++ [')']) := by
  simp [print, txtCompl_eq]

theorem length_printTail_cons (x : Loc) (xs : List Loc) :
    (printTail (x :: xs)).length = 1 + (print x).length + (printTail xs).length := by
  simp [printTail]; omega

mutual
/-- canonical text parses to the structure `pembed`, at every depth and operand count -/
theorem parseLocF_print : ∀ (l : Loc) (n f : Nat), inRange l n = true → arity l = true →
    (print l).length < f → parseLocF f (print l) = .ok (pembed l)
  | .span a b lt gt, n, f, hr, _, hf => by
    cases f with
    | zero => omega
    | succ f =>
      simp only [inRange, Bool.and_eq_true, decide_eq_true_eq] at hr
      exact parse_span f a b lt gt (by omega)
  | .base k, n, f, hr, _, hf => by
    cases f with
    | zero => omega
    | succ f =>
      simp only [inRange, Bool.and_eq_true, decide_eq_true_eq] at hr
      exact parse_base f k (by omega)
  | .join [], n, f, _, ha, _ => by simp [arity] at ha
  | .join (x :: xs), n, f, hr, ha, hf => by
    cases f with
    | zero => omega
    | succ f =>
      simp only [inRange, inRangeList, Bool.and_eq_true] at hr
      simp only [arity, arityList, Bool.and_eq_true] at ha
      have hlen : (print (.join (x :: xs))).length = 4 + 1 + ((print x).length + (printTail xs).length + 1) := by
        simp only [print_join_cons, kwJoin, List.length_append, List.length_cons, List.length_nil]; omega
      have ihx := parseLocF_print x n f hr.1 ha.2.1 (by omega)
      have ihxs := parseLocF_printList xs n f hr.2 ha.2.2 (by omega)
      have fr := operator_frame kwJoin (print x ++ printTail xs) (by decide)
      simp only [pembed, pembedList]
      rw [print_join_cons]
      unfold parseLocF
      simp only [fr.1, fr.2.1, fr.2.2, Bool.not_true, Bool.false_eq_true, if_false, Outcome.bind, if_true,
        splitTopList_operands, mapOutcome, ihx, ihxs, finish_join]
  | .compl x, n, f, hr, ha, hf => by
    cases f with
    | zero => omega
    | succ f =>
      simp only [inRange] at hr
      simp only [arity] at ha
      have hlen : (print (.compl x)).length = 10 + 1 + ((print x).length + 1) := by
        simp only [print_compl, kwComplement, List.length_append, List.length_cons, List.length_nil]; omega
      have ihx := parseLocF_print x n f hr ha (by omega)
      have fr := operator_frame kwComplement (print x) (by decide)
      have hne : kwComplement ≠ kwJoin := by decide
      simp only [pembed]
      rw [print_compl]
      unfold parseLocF
      simp only [fr.1, fr.2.1, fr.2.2, Bool.not_true, Bool.false_eq_true, if_false, Outcome.bind, if_true,
        hne, ihx]
      cases hc : (pembed x).complement
      · simp only [Bool.false_eq_true, if_false, finish_compl]
      · simp only [if_true, finish_wrapper]
theorem parseLocF_printList : ∀ (xs : List Loc) (n f : Nat), inRangeList xs n = true → arityList xs = true →
    (printTail xs).length ≤ f → mapOutcome (parseLocF f) (xs.map print) = .ok (pembedList xs)
  | [], _, _, _, _, _ => rfl
  | x :: xs, n, f, hr, ha, hf => by
    simp only [inRangeList, Bool.and_eq_true] at hr
    simp only [arityList, Bool.and_eq_true] at ha
    rw [length_printTail_cons] at hf
    have ihx := parseLocF_print x n f hr.1 ha.1 (by omega)
    have ihxs := parseLocF_printList xs n f hr.2 ha.2 (by omega)
    simp only [List.map_cons, mapOutcome, ihx, ihxs, Outcome.bind, pembedList]
end

theorem parseLocation_print (l : Loc) (n : Nat) (hr : inRange l n = true) (ha : arity l = true) :
    parseLocation (print l) = .ok (pembed l) :=
  parseLocF_print l n _ hr ha (Nat.lt_succ_self _)

end PolyVerif.Lemmas.Location
