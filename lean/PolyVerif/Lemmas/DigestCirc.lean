import PolyVerif.Lemmas.DigestScan
import PolyVerif.Lemmas.DigestCyclic
import PolyVerif.Lemmas.Digest
import PolyVerif.Props.C11
/-
C10: the circular case.  `cutWithEnzyme (circular s)` (doubling, scan, modulo reduction, duplicate
dropping, stable sort, wrap-around overhang, pairing loop, slicing) yields the multiset
`digest g s` of the cyclic-word spec on every layout of the property's quantifier.
-/
namespace PolyVerif.Digest
open PolyVerif PolyVerif.Transform PolyVerif.DigestSpec PolyVerif.Driver.C10

/-! ### reading the doubled word -/

theorem double_getElem? (u : Str) {t : Nat} (ht : t < 2 * u.length) : (u ++ u)[t]? = some (letter u t) := by
  have hpos : 0 < u.length := by omega
  by_cases h : t < u.length
  · rw [List.getElem?_append_left h, List.getElem?_eq_getElem h, letter_lt h]
  · have h' : u.length ≤ t := Nat.le_of_not_lt h
    rw [List.getElem?_append_right h']
    have h2 : t - u.length < u.length := by omega
    rw [List.getElem?_eq_getElem h2, ← letter_lt h2]
    congr 1
    apply (letter_periodic u).congr
    conv_rhs => rw [show t = (t - u.length) + u.length by omega, Nat.add_mod_right]

/-- a slice of the doubled word is a window of the cyclic word -/
theorem double_slice (u : Str) {c d : Nat} (h : c + d ≤ 2 * u.length) :
    ((u ++ u).drop c).take d = window (letter u) c d := by
  apply List.ext_getElem?
  intro j
  simp only [window, List.getElem?_take, List.getElem?_drop, List.getElem?_map]
  by_cases hj : j < d
  · rw [if_pos hj, double_getElem? u (by omega), List.getElem?_range hj]
    rfl
  · rw [if_neg hj, List.getElem?_eq_none (by simp; omega)]
    rfl

/-- a literal is a prefix of the doubled word at `i` iff it fits and is read there on the circle -/
theorem prefix_double_iff (u x : Str) (hx : x ≠ []) (i : Nat) :
    x <+: (u ++ u).drop i ↔ i + x.length ≤ 2 * u.length ∧ occurs (letter u) x i = true := by
  have hxl : 0 < x.length := List.length_pos_iff.2 hx
  rw [List.prefix_iff_eq_take]
  constructor
  · intro h
    have hl : x.length ≤ (u ++ u).length - i := by
      have := congrArg List.length h
      simp only [List.length_take, List.length_drop] at this
      omega
    have hfit : i + x.length ≤ 2 * u.length := by
      simp only [List.length_append] at hl
      omega
    refine ⟨hfit, ?_⟩
    rw [double_slice u hfit] at h
    rw [occurs_iff]
    intro j hj
    have : x[j]? = (window (letter u) i x.length)[j]? := by rw [← h]
    simp only [window, List.getElem?_map, List.getElem?_range hj, Option.map_some] at this
    rw [List.getD_eq_getElem?_getD, this]
    rfl
  · rintro ⟨hfit, hocc⟩
    rw [double_slice u hfit]
    rw [occurs_iff] at hocc
    apply List.ext_getElem?
    intro j
    by_cases hj : j < x.length
    · simp only [window, List.getElem?_map, List.getElem?_range hj, Option.map_some]
      rw [hocc j hj, List.getD_eq_getElem?_getD, List.getElem?_eq_getElem hj]
      rfl
    · rw [List.getElem?_eq_none (by omega), List.getElem?_eq_none (by simp [window]; omega)]

/-! ### `firstTurn` -/

theorem firstTurn_eq {n : Nat} (hn : 0 < n) (v : Int) : firstTurn n v = v % (n : Int) := by
  unfold firstTurn
  have hn' : (0 : Int) < n := by omega
  have h1 : 0 ≤ v % (n : Int) := Int.emod_nonneg _ (by omega)
  have h2 : v % (n : Int) < n := Int.emod_lt_of_pos _ hn'
  rw [Int.tmod_eq_emod (a := v)]
  have hna : ((n : Int).natAbs : Int) = n := by simp
  split
  · rw [Int.natCast_zero, Int.sub_zero, Int.tmod_eq_emod_of_nonneg (by omega), Int.add_emod_right, Int.emod_emod_of_dvd _ (dvd_refl _)]
  · rw [hna, Int.sub_add_cancel, Int.tmod_eq_emod_of_nonneg h1, Int.emod_emod_of_dvd _ (dvd_refl _)]

/-! ### occurrences in the doubled word do not overlap -/

theorem dist_mod_mod {n a b : Nat} (hn : 0 < n) (hab : a ≤ b) : dist n (a % n) (b % n) = (b - a) % n := by
  apply eq_of_emod_eq (dist_lt hn _ _) (Nat.mod_lt _ hn)
  have h1 : a % n < n := Nat.mod_lt _ hn
  rw [dist_cast (by omega), Int.emod_emod_of_dvd _ (dvd_refl _)]
  rw [Int.natCast_mod, Int.natCast_mod, Int.natCast_mod, Int.emod_emod_of_dvd _ (dvd_refl _), Nat.cast_sub hab]
  exact (Int.mod_modEq _ _).sub (Int.mod_modEq _ _)

theorem nonOverlapping_double (u x : Str) (hx : x ≠ []) (hmn : x.length ≤ u.length)
    (H : ∀ p p', p < u.length → p' < u.length → occurs (letter u) x p = true → occurs (letter u) x p' = true →
      p ≠ p' → x.length ≤ dist u.length p p') :
    NonOverlapping x (u ++ u) := by
  intro a b hab ha hb
  have hxl : 0 < x.length := List.length_pos_iff.2 hx
  have hn : 0 < u.length := by omega
  obtain ⟨_, hoa⟩ := (prefix_double_iff u x hx a).1 ha
  obtain ⟨_, hob⟩ := (prefix_double_iff u x hx b).1 hb
  rw [← occurs_mod (letter_periodic u)] at hoa hob
  by_cases hpp : a % u.length = b % u.length
  · have h0 : (b - a) % u.length = 0 := Nat.sub_mod_eq_zero_of_mod_eq hpp.symm
    have hd : u.length ∣ b - a := Nat.dvd_of_mod_eq_zero h0
    have := Nat.le_of_dvd (by omega) hd
    omega
  · have h := H _ _ (Nat.mod_lt _ hn) (Nat.mod_lt _ hn) hoa hob hpp
    rw [dist_mod_mod hn (by omega)] at h
    have := Nat.mod_le (b - a) u.length
    omega

/-! ### the overhang records of the doubled word, reduced to the first turn -/

def fwdOh (g : Geometry) (n p : Nat) : Overhang := ⟨g.oh, ((fwdCut g n p : Nat) : Int), true⟩
def revOh (g : Geometry) (n q : Nat) : Overhang := ⟨g.oh, ((revCut g n q : Nat) : Int), false⟩
def red (n : Nat) (o : Overhang) : Overhang := { o with position := firstTurn n o.position }

theorem mem_fwd_reduced (g : Geometry) (u : Str) (hx : g.site ≠ []) (hmn : g.site.length ≤ u.length)
    (hno : NonOverlapping g.site (u ++ u)) (o : Overhang) :
    o ∈ ((findAll g.site (u ++ u)).map fun m => red u.length ⟨g.oh, (m.2 : Int) + g.skip, true⟩) ↔
      ∃ p ∈ sites (letter u) u.length g.site, o = fwdOh g u.length p := by
  have hxl : 0 < g.site.length := List.length_pos_iff.2 hx
  have hn : 0 < u.length := by omega
  simp only [List.mem_map, Prod.exists, mem_findAll hx hno, mem_sites]
  constructor
  · rintro ⟨a, b, ⟨rfl, hp⟩, rfl⟩
    obtain ⟨_, hoa⟩ := (prefix_double_iff u g.site hx a).1 hp
    refine ⟨a % u.length, ⟨Nat.mod_lt _ hn, by rw [occurs_mod (letter_periodic u)]; exact hoa⟩, ?_⟩
    simp only [red, fwdOh, firstTurn_eq hn, fwdCut_cast]
    congr 1
    push_cast
    exact (((Int.mod_modEq _ _).add_right _).add_right _).symm
  · rintro ⟨p, ⟨hp, hocc⟩, rfl⟩
    refine ⟨p, p + g.site.length, ⟨rfl, (prefix_double_iff u g.site hx p).2 ⟨by omega, hocc⟩⟩, ?_⟩
    simp only [red, fwdOh, firstTurn_eq hn, fwdCut_cast]
    congr 1

theorem mem_rev_reduced (g : Geometry) (u y : Str) (hy : y ≠ []) (hmn : y.length ≤ u.length)
    (hno : NonOverlapping y (u ++ u)) (o : Overhang) :
    o ∈ ((findAll y (u ++ u)).map fun m => red u.length ⟨g.oh, (m.1 : Int) - g.skip, false⟩) ↔
      ∃ q ∈ sites (letter u) u.length y, o = revOh g u.length q := by
  have hxl : 0 < y.length := List.length_pos_iff.2 hy
  have hn : 0 < u.length := by omega
  simp only [List.mem_map, Prod.exists, mem_findAll hy hno, mem_sites]
  constructor
  · rintro ⟨a, b, ⟨rfl, hp⟩, rfl⟩
    obtain ⟨_, hoa⟩ := (prefix_double_iff u y hy a).1 hp
    refine ⟨a % u.length, ⟨Nat.mod_lt _ hn, by rw [occurs_mod (letter_periodic u)]; exact hoa⟩, ?_⟩
    simp only [red, revOh, firstTurn_eq hn, revCut_cast g hn]
    congr 1
    push_cast
    exact ((Int.mod_modEq _ _).sub_right _).symm
  · rintro ⟨q, ⟨hq, hocc⟩, rfl⟩
    refine ⟨q, q + y.length, ⟨rfl, (prefix_double_iff u y hy q).2 ⟨by omega, hocc⟩⟩, ?_⟩
    simp only [red, revOh, firstTurn_eq hn, revCut_cast g hn]

/-! ### the pairing loop on a strictly sorted cut list = "the next cut on the circle" -/

theorem dist_of_le {n x y : Nat} (hy : y < n) (hxy : x ≤ y) : dist n x y = y - x := by
  unfold dist
  rw [show y + n - x = (y - x) + n by omega, Nat.add_mod_right, Nat.mod_eq_of_lt (by omega)]

theorem dist_of_gt {n x y : Nat} (hx : x < n) (hxy : y < x) : dist n x y = y + n - x := by
  unfold dist
  rw [Nat.mod_eq_of_lt (by omega)]

def bump (n : Nat) (o : Overhang) : Overhang := { o with position := o.position + n }

def PosLt (a b : Overhang) : Prop := a.position < b.position

theorem posLt_inj : ∀ {S : List Overhang}, S.Pairwise PosLt → ∀ {c d : Overhang}, c ∈ S → d ∈ S →
    c.position = d.position → c = d := by
  intro S
  induction S with
  | nil => intro _ c d hc; simp at hc
  | cons x xs ih =>
    intro hs c d hc hd h
    obtain ⟨hx, hxs⟩ := List.pairwise_cons.1 hs
    rcases List.mem_cons.1 hc with hcx | hc' <;> rcases List.mem_cons.1 hd with hdx | hd'
    · rw [hcx, hdx]
    · have := hx d hd'; unfold PosLt at this; rw [hcx] at h; omega
    · have := hx c hc'; unfold PosLt at this; rw [hdx] at h; omega
    · exact ih hxs hc' hd' h

theorem adjPairs_decomp {α : Type} : ∀ (O : List α) (a b : α), (a, b) ∈ adjPairs O → ∃ l1 l2, O = l1 ++ a :: b :: l2 := by
  intro O
  induction O with
  | nil => intro a b h; simp [adjPairs] at h
  | cons c r ih =>
    intro a b h
    cases r with
    | nil => simp [adjPairs] at h
    | cons d r =>
      simp only [adjPairs, List.mem_cons, Prod.mk.injEq] at h
      rcases h with ⟨rfl, rfl⟩ | h
      · exact ⟨[], r, rfl⟩
      · obtain ⟨l1, l2, e⟩ := ih a b h
        exact ⟨c :: l1, l2, by rw [e]; rfl⟩

theorem adjPairs_snoc_fst {α : Type} : ∀ (S : List α) (t : α), (adjPairs (S ++ [t])).map Prod.fst = S := by
  intro S
  induction S with
  | nil => intro t; simp [adjPairs]
  | cons c r ih =>
    intro t
    cases r with
    | nil => simp [adjPairs]
    | cons d r =>
      have := ih t
      simp only [List.cons_append, adjPairs, List.map_cons] at this ⊢
      rw [this]

/-- the abstract step: from "no cut lies between `a` and its successor `b'`" to the spec's `stretch` -/
theorem stretch_from_facts {n : Nat} (hn : 0 < n) {S : List Overhang} {fs rs : List Nat}
    (hfs : ∀ c, c ∈ fs ↔ ∃ o ∈ S, o.forward = true ∧ o.position = (c : Int))
    (hrs : ∀ c, c ∈ rs ↔ ∃ o ∈ S, o.forward = false ∧ o.position = (c : Int))
    (hkey : ∀ c ∈ S, ∀ d ∈ S, c.position = d.position → c.forward = d.forward → c = d)
    (hrange : ∀ o ∈ S, 0 ≤ o.position ∧ o.position < n)
    {a b' : Overhang} (ha : a ∈ S) (hb' : b' ∈ S) (haf : a.forward = true) {δ : Nat}
    (K : ∀ c ∈ S, c ≠ a → c ≠ b' → δ ≤ dist n a.position.toNat c.position.toNat ∧
      (c.forward = true → b'.forward = false → δ < dist n a.position.toNat c.position.toNat))
    (D : b' ≠ a → dist n a.position.toNat b'.position.toNat = δ)
    (E : b' = a → n ≤ δ) :
    stretch n fs rs a.position.toNat = if b'.forward = false then some δ else none := by
  have hra := hrange a ha
  have hrb := hrange b' hb'
  split
  · rename_i hbf
    have hne : b' ≠ a := by rintro rfl; rw [haf] at hbf; exact absurd hbf (by simp)
    rw [stretch_eq_some_iff]
    refine ⟨⟨b'.position.toNat, (hrs _).2 ⟨b', hb', hbf, by omega⟩, D hne⟩, ?_, ?_⟩
    · intro r hr
      obtain ⟨c, hc, hcf, hcp⟩ := (hrs r).1 hr
      have hca : c ≠ a := by rintro rfl; rw [haf] at hcf; exact absurd hcf (by simp)
      have hr' : r = c.position.toNat := by omega
      by_cases hcb : c = b'
      · subst hcb; rw [hr', D hne]
      · have := (K c hc hca hcb).1
        rw [hr']; exact this
    · intro c' hc' hne'
      obtain ⟨c, hc, hcf, hcp⟩ := (hfs c').1 hc'
      have hr' : c' = c.position.toNat := by omega
      have hca : c ≠ a := by rintro rfl; exact hne' hr'
      have hcb : c ≠ b' := by rintro rfl; rw [hcf] at hbf; exact absurd hbf (by simp)
      rw [hr']; exact (K c hc hca hcb).2 hcf hbf
  · rename_i hbf
    have hbf' : b'.forward = true := by simpa using hbf
    rw [Option.eq_none_iff_forall_ne_some]
    intro d hd
    rw [stretch_eq_some_iff] at hd
    obtain ⟨⟨r, hr, hrd⟩, _, hall⟩ := hd
    obtain ⟨c, hc, hcf, hcp⟩ := (hrs r).1 hr
    have hr' : r = c.position.toNat := by omega
    have hca : c ≠ a := by rintro rfl; rw [haf] at hcf; exact absurd hcf (by simp)
    have hcb : c ≠ b' := by rintro rfl; rw [hcf] at hbf'; exact absurd hbf' (by simp)
    have hK := (K c hc hca hcb).1
    rw [← hr', hrd] at hK
    by_cases hba : b' = a
    · have := E hba
      have hlt : d < n := by rw [← hrd]; exact dist_lt hn _ _
      omega
    · have hD := D hba
      have hpne : b'.position.toNat ≠ a.position.toNat := by
        intro h
        exact hba (hkey b' hb' a ha (by omega) (by rw [hbf', haf]))
      have := hall b'.position.toNat ((hfs _).2 ⟨b', hb', hbf', by omega⟩) hpne
      omega

theorem keyLt_bump_snoc {n : Nat} {s0 : Overhang} {S' : List Overhang}
    (hs : (s0 :: S').Pairwise KeyLt) (hrange : ∀ o ∈ s0 :: S', 0 ≤ o.position ∧ o.position < n) :
    ((s0 :: S') ++ [bump n s0]).Pairwise KeyLt := by
  have hr0 := hrange s0 (by simp)
  rw [List.pairwise_append]
  refine ⟨hs, by simp, ?_⟩
  intro x hx y hy
  have : y = bump n s0 := by simpa using hy
  subst this
  have := hrange x hx
  exact Or.inl (by show x.position < s0.position + n; omega)

/-- what adjacency in the key-sorted list `S ++ [first + n]` means on the circle (`a` a forward overhang) -/
theorem adjacent_facts {n : Nat} {s0 : Overhang} {S' : List Overhang}
    (hs : (s0 :: S').Pairwise KeyLt) (hrange : ∀ o ∈ s0 :: S', 0 ≤ o.position ∧ o.position < n)
    {a b : Overhang} (hab : (a, b) ∈ adjPairs ((s0 :: S') ++ [bump n s0])) (haf : a.forward = true) :
    a ∈ s0 :: S' ∧ a.position ≤ b.position ∧ b.position ≤ 2 * (n : Int) ∧
    ∃ b' ∈ s0 :: S', b'.forward = b.forward ∧
      (∀ c ∈ s0 :: S', c ≠ a → c ≠ b' →
        (b.position - a.position).toNat ≤ dist n a.position.toNat c.position.toNat ∧
        (c.forward = true → b'.forward = false →
          (b.position - a.position).toNat < dist n a.position.toNat c.position.toNat)) ∧
      (b' ≠ a → dist n a.position.toNat b'.position.toNat = (b.position - a.position).toNat) ∧
      (b' = a → n ≤ (b.position - a.position).toNat) := by
  have hr0 := hrange s0 (by simp)
  have htp : (bump n s0).position = s0.position + n := rfl
  have hO := keyLt_bump_snoc hs hrange
  obtain ⟨l1, l2, hdec⟩ := adjPairs_decomp _ a b hab
  rw [hdec] at hO
  obtain ⟨_, h2, h3⟩ := List.pairwise_append.1 hO
  obtain ⟨h4, h5⟩ := List.pairwise_cons.1 h2
  obtain ⟨h6, _⟩ := List.pairwise_cons.1 h5
  have habk : KeyLt a b := h4 b (by simp)
  have habp : a.position ≤ b.position := by unfold KeyLt at habk; omega
  -- an element before `a` lies strictly to the left of it (`a` is forward)
  have hl1 : ∀ c ∈ l1, c.position < a.position := by
    intro c hc
    have : KeyLt c a := h3 c hc a (by simp)
    rcases this with h | ⟨_, _, h⟩
    · exact h
    · rw [haf] at h; exact absurd h (by simp)
  have hl2 : ∀ c ∈ l2, KeyLt b c := fun c hc => h6 c hc
  have hmemO : ∀ c, c ∈ (s0 :: S') ++ [bump n s0] ↔ c ∈ l1 ∨ c = a ∨ c = b ∨ c ∈ l2 := by
    intro c; rw [hdec]; simp
  have hmax : ∀ c ∈ (s0 :: S') ++ [bump n s0], c.position ≤ s0.position + n := by
    intro c hc
    rcases List.mem_append.1 hc with hc | hc
    · have := hrange c hc; omega
    · have : c = bump n s0 := by simpa using hc
      rw [this, htp]
  have haO : a ∈ (s0 :: S') ++ [bump n s0] := (hmemO a).2 (Or.inr (Or.inl rfl))
  have hbO : b ∈ (s0 :: S') ++ [bump n s0] := (hmemO b).2 (Or.inr (Or.inr (Or.inl rfl)))
  have haS : a ∈ s0 :: S' := by
    rcases List.mem_append.1 haO with h | h
    · exact h
    · -- `a` would be the last element, yet `b` follows it
      have hat : a = bump n s0 := by simpa using h
      have hb := hmax b hbO
      rcases habk with h' | ⟨h', _, hbf⟩
      · rw [hat, htp] at h'; omega
      · -- same position as the last element: `b` is the last element itself or below `n`
        rcases List.mem_append.1 hbO with hbS | hbT
        · have := hrange b hbS; rw [hat, htp] at h'; omega
        · have hbt : b = bump n s0 := by simpa using hbT
          rw [hat] at haf
          rw [hbt] at hbf
          rw [haf] at hbf; exact absurd hbf (by simp)
  have hra := hrange a haS
  have hhead : ∀ c ∈ s0 :: S', c = s0 ∨ KeyLt s0 c := by
    intro c hc
    rcases List.mem_cons.1 hc with h | h
    · exact Or.inl h
    · exact Or.inr ((List.pairwise_cons.1 hs).1 c h)
  refine ⟨haS, habp, by have := hmax b hbO; omega, ?_⟩
  rcases List.mem_append.1 hbO with hbS | hbT
  · -- the successor lies in the same turn
    have hrb := hrange b hbS
    refine ⟨b, hbS, rfl, ?_, ?_, ?_⟩
    · intro c hc hca hcb
      have hrc := hrange c hc
      rcases (hmemO c).1 (List.mem_append_left _ hc) with h | h | h | h
      · have := hl1 c h
        rw [dist_of_gt (by omega) (by omega)]
        exact ⟨by omega, fun _ _ => by omega⟩
      · exact absurd h hca
      · exact absurd h hcb
      · rcases hl2 c h with h' | ⟨h', hbf, hcf⟩
        · rw [dist_of_le (by omega) (by omega)]
          exact ⟨by omega, fun _ _ => by omega⟩
        · rw [dist_of_le (by omega) (by omega)]
          refine ⟨by omega, fun hcf' _ => ?_⟩
          rw [hcf] at hcf'; exact absurd hcf' (by simp)
    · intro _
      rw [dist_of_le (by omega) (by omega)]; omega
    · intro h
      rw [h] at habk
      rcases habk with h' | ⟨_, h1, h2⟩
      · omega
      · rw [h1] at h2; exact absurd h2 (by simp)
  · -- the successor is the first cut, one turn later
    have hbt : b = bump n s0 := by simpa using hbT
    refine ⟨s0, by simp, by rw [hbt]; rfl, ?_, ?_, ?_⟩
    · intro c hc hca hcs
      have hrc := hrange c hc
      have hsc : KeyLt s0 c := by
        rcases hhead c hc with h | h
        · exact absurd h hcs
        · exact h
      have hca' : c.position < a.position := by
        rcases (hmemO c).1 (List.mem_append_left _ hc) with h | h | h | h
        · exact hl1 c h
        · exact absurd h hca
        · rw [h, hbt, htp] at hrc; omega
        · have := hl2 c h
          rw [hbt] at this
          rcases this with h' | ⟨h', _, _⟩
          · rw [htp] at h'; omega
          · rw [htp] at h'; omega
      rw [dist_of_gt (by omega) (by omega), hbt, htp]
      rcases hsc with h' | ⟨h', _, hcf⟩
      · exact ⟨by omega, fun _ _ => by omega⟩
      · refine ⟨by omega, fun hcf' _ => ?_⟩
        rw [hcf] at hcf'; exact absurd hcf' (by simp)
    · intro hne
      have hsa : s0.position < a.position := by
        rcases hhead a haS with h | h
        · exact absurd h.symm hne
        · rcases h with h' | ⟨_, _, h2⟩
          · exact h'
          · rw [haf] at h2; exact absurd h2 (by simp)
      rw [dist_of_gt (by omega) (by omega), hbt, htp]; omega
    · intro h
      rw [hbt, htp, h]; omega

/-! ### unpacking the quantifier -/

theorem rcSite_length (x : Str) : (rcSite x).length = x.length := by simp [rcSite]

theorem upperAcgt_iupac {x : Str} (h : x.all isUpperAcgt = true) : Props.C11.Iupac x := by
  intro c hc
  have := List.all_eq_true.1 h c hc
  simp only [isUpperAcgt, Bool.or_eq_true, beq_iff_eq] at this
  rcases this with ((rfl | rfl) | rfl) | rfl <;> decide

theorem not_palindromic {x : Str} (h : x.all isUpperAcgt = true) (hne : x ≠ rcSite x) : isPalindromic x = false := by
  have : revComp x = rcSite x := Props.C11.rc_spec (upperAcgt_iupac h)
  simp [isPalindromic, this, hne]

structure WF (g : Geometry) (w : Nat → Char) (n : Nat) : Prop where
  site_ne : g.site ≠ []
  acgt : g.site.all isUpperAcgt = true
  nonpal : g.site ≠ rcSite g.site
  fits : g.site.length ≤ n
  apartF : ∀ p p', p < n → p' < n → occurs w g.site p = true → occurs w g.site p' = true → p ≠ p' →
    g.site.length ≤ dist n p p'
  apartR : ∀ p p', p < n → p' < n → occurs w (rcSite g.site) p = true → occurs w (rcSite g.site) p' = true → p ≠ p' →
    (rcSite g.site).length ≤ dist n p p'
  paired : ∀ c ∈ fwdCuts g w n, ∀ d, stretch n (fwdCuts g w n) (revCuts g w n) c = some d → 2 * g.oh ≤ d

theorem wf_of_wfLayoutW {g : Geometry} {w : Nat → Char} {n : Nat} (h : wfLayoutW g w n = true) : WF g w n := by
  simp only [wfLayoutW, wfGeometry, noOverlap, pairedApart, Bool.and_eq_true, decide_eq_true_eq, List.all_eq_true,
    List.mem_append, Bool.or_eq_true, beq_iff_eq, bne_iff_ne, ne_eq, ge_iff_le] at h
  obtain ⟨⟨⟨⟨⟨h1, h2⟩, h3⟩, h5⟩, h6⟩, h7⟩ := h
  refine ⟨?_, ?_, h3, h5, ?_, ?_, ?_⟩
  · intro h; rw [h] at h1; simp at h1
  · exact List.all_eq_true.2 h2
  · intro p p' hp hp' ho ho' hne
    rcases h6 p (Or.inl (mem_sites.2 ⟨hp, ho⟩)) p' (Or.inl (mem_sites.2 ⟨hp', ho'⟩)) with h | h
    · exact absurd h hne
    · exact h
  · intro p p' hp hp' ho ho' hne
    rw [rcSite_length]
    rcases h6 p (Or.inr (mem_sites.2 ⟨hp, ho⟩)) p' (Or.inr (mem_sites.2 ⟨hp', ho'⟩)) with h | h
    · exact absurd h hne
    · exact h
  · intro c hc d hd
    have := h7 c hc
    rw [hd] at this
    simpa using this

/-! ### the overhang list the pairing loop runs over -/

theorem trimLast_circ (e : Enzyme) (len : Nat) (set : List Overhang) : trimLast true e len set = set := by
  unfold trimLast; cases set.getLast? <;> simp

/-- the sorted, duplicate-free, first-turn overhang list of a circular part -/
def circS (g : Geometry) (u : Str) : List Overhang :=
  sortByPos (dedupInto []
    ((((findAll g.site (u ++ u)).map fun m => (⟨g.oh, (m.2 : Int) + g.skip, true⟩ : Overhang)) ++
      ((findAll (rcSite g.site) (u ++ u)).map fun m => (⟨g.oh, (m.1 : Int) - g.skip, false⟩ : Overhang))).map
        (red u.length)))

theorem overhangsCore_circ (name : String) (g : Geometry) (u : Str) (hpal : isPalindromic g.site = false)
    (hn : 0 < u.length) :
    overhangsCore (u ++ u) u.length true (enzymeOf name g) =
      some (match circS g u with
        | [] => []
        | o :: _ => circS g u ++ [bump u.length o]) := by
  have hn0 : (u.length == 0) = false := by rw [beq_eq_false_iff_ne]; omega
  simp only [overhangsCore, enzymeOf, hpal, trimLast_circ, hn0, Bool.and_false, Bool.false_and,
    Bool.false_eq_true, if_false, if_true]
  rfl

section Facts
variable {g : Geometry} {u : Str} (hwf : WF g (letter u) u.length)
include hwf

theorem WF.n_pos : 0 < u.length := by
  have := List.length_pos_iff.2 hwf.site_ne
  have := hwf.fits
  omega

theorem WF.rc_ne : rcSite g.site ≠ [] := by
  intro h
  have := congrArg List.length h
  rw [rcSite_length] at this
  exact hwf.site_ne (List.length_eq_zero_iff.1 this)

theorem mem_circS (o : Overhang) :
    o ∈ circS g u ↔ (∃ p ∈ sites (letter u) u.length g.site, o = fwdOh g u.length p) ∨
                     (∃ q ∈ sites (letter u) u.length (rcSite g.site), o = revOh g u.length q) := by
  have hnoF := nonOverlapping_double u g.site hwf.site_ne hwf.fits hwf.apartF
  have hnoR := nonOverlapping_double u (rcSite g.site) hwf.rc_ne (by rw [rcSite_length]; exact hwf.fits) hwf.apartR
  unfold circS
  rw [(sortByPos_perm _).mem_iff, mem_dedupInto, List.map_append, List.mem_append, List.map_map, List.map_map]
  simp only [List.not_mem_nil, false_or]
  exact or_congr (mem_fwd_reduced g u hwf.site_ne hwf.fits hnoF o)
    (mem_rev_reduced g u (rcSite g.site) hwf.rc_ne (by rw [rcSite_length]; exact hwf.fits) hnoR o)

omit hwf in
theorem circS_nodup : (circS g u).Nodup :=
  (sortByPos_perm _).nodup_iff.2 (nodup_dedupInto _ [] List.nodup_nil)

theorem circS_range : ∀ o ∈ circS g u, 0 ≤ o.position ∧ o.position < u.length := by
  intro o ho
  have hn := hwf.n_pos
  rcases (mem_circS hwf o).1 ho with ⟨p, _, rfl⟩ | ⟨q, _, rfl⟩
  · have := fwdCut_lt g hn p
    simp only [fwdOh]; omega
  · have := revCut_lt g hn q
    simp only [revOh]; omega

theorem circS_fs (c : Nat) :
    c ∈ fwdCuts g (letter u) u.length ↔ ∃ o ∈ circS g u, o.forward = true ∧ o.position = (c : Int) := by
  constructor
  · intro hc
    obtain ⟨p, hp, rfl⟩ := List.mem_map.1 hc
    exact ⟨fwdOh g u.length p, (mem_circS hwf _).2 (Or.inl ⟨p, hp, rfl⟩), rfl, rfl⟩
  · rintro ⟨o, ho, hf, hpos⟩
    rcases (mem_circS hwf o).1 ho with ⟨p, hp, rfl⟩ | ⟨q, _, rfl⟩
    · simp only [fwdOh] at hpos
      have : c = fwdCut g u.length p := by omega
      rw [this]
      exact List.mem_map.2 ⟨p, hp, rfl⟩
    · simp [revOh] at hf

theorem circS_rs (c : Nat) :
    c ∈ revCuts g (letter u) u.length ↔ ∃ o ∈ circS g u, o.forward = false ∧ o.position = (c : Int) := by
  constructor
  · intro hc
    obtain ⟨q, hq, rfl⟩ := List.mem_map.1 hc
    exact ⟨revOh g u.length q, (mem_circS hwf _).2 (Or.inr ⟨q, hq, rfl⟩), rfl, rfl⟩
  · rintro ⟨o, ho, hf, hpos⟩
    rcases (mem_circS hwf o).1 ho with ⟨p, _, rfl⟩ | ⟨q, hq, rfl⟩
    · simp [fwdOh] at hf
    · simp only [revOh] at hpos
      have : c = revCut g u.length q := by omega
      rw [this]
      exact List.mem_map.2 ⟨q, hq, rfl⟩

/-- two overhangs of the list with the same position and the same direction are the same overhang -/
theorem circS_key : ∀ c ∈ circS g u, ∀ d ∈ circS g u, c.position = d.position → c.forward = d.forward → c = d := by
  intro c hc d hd h hf
  rcases (mem_circS hwf c).1 hc with ⟨p, hp, rfl⟩ | ⟨q, hq, rfl⟩ <;>
    rcases (mem_circS hwf d).1 hd with ⟨p', hp', rfl⟩ | ⟨q', hq', rfl⟩
  · simp only [fwdOh] at h
    have : p = p' := fwdCut_inj g (mem_sites.1 hp).1 (mem_sites.1 hp').1 (by omega)
    rw [this]
  · simp [fwdOh, revOh] at hf
  · simp [fwdOh, revOh] at hf
  · simp only [revOh] at h
    have : q = q' := revCut_inj g (mem_sites.1 hq).1 (mem_sites.1 hq').1 (by omega)
    rw [this]

/-- the list is sorted by position, a forward overhang before a reverse one at the same position
(the stable sort keeps the forward set, which was appended first, in front) -/
theorem circS_sorted : (circS g u).Pairwise KeyLt := by
  refine keyLt_of_keyLe ?_ circS_nodup (circS_key hwf)
  unfold circS
  apply sortByPos_keySorted
  obtain ⟨l', h1, h2⟩ := dedupInto_sublist
    ((((findAll g.site (u ++ u)).map fun m => (⟨g.oh, (m.2 : Int) + g.skip, true⟩ : Overhang)) ++
      ((findAll (rcSite g.site) (u ++ u)).map fun m => (⟨g.oh, (m.1 : Int) - g.skip, false⟩ : Overhang))).map
        (red u.length)) []
  rw [h1, List.nil_append]
  refine List.Pairwise.sublist h2 ?_
  rw [List.pairwise_map, List.pairwise_append]
  refine ⟨?_, ?_, ?_⟩
  · rw [List.pairwise_map]
    exact List.pairwise_of_forall (fun _ _ => Or.inl rfl)
  · rw [List.pairwise_map]
    exact List.pairwise_of_forall (fun _ _ => Or.inr rfl)
  · intro a ha b _
    obtain ⟨m, _, rfl⟩ := List.mem_map.1 ha
    exact Or.inl rfl

end Facts

theorem breakOK_snoc (n : Nat) : ∀ (S : List Overhang) (t : Overhang), (∀ o ∈ S, o.position ≤ (n : Int)) →
    BreakOK n (S ++ [t]) := by
  intro S
  induction S with
  | nil => intro t _; simp [BreakOK]
  | cons c r ih =>
    intro t h
    cases r with
    | nil => simp [BreakOK]
    | cons d r =>
      have hd := h d (by simp)
      have := ih t (fun o ho => h o (List.mem_cons_of_mem _ ho))
      simp only [List.cons_append, BreakOK] at this ⊢
      exact ⟨fun hgt => by omega, this⟩

/-- the fragment the spec attaches to an overhang record -/
def fragOf (g : Geometry) (u : Str) (o : Overhang) : Option (Str × Str × Str) :=
  if o.forward then fragAt g (letter u) u.length o.position.toNat else none

theorem filterMap_fragOf (g : Geometry) (u : Str) : ∀ S : List Overhang,
    S.filterMap (fragOf g u) =
      ((S.filter (·.forward)).map (·.position.toNat)).filterMap (fragAt g (letter u) u.length) := by
  intro S
  induction S with
  | nil => simp
  | cons o r ih =>
    by_cases h : o.forward = true
    · simp only [List.filterMap_cons, fragOf, h, if_true, List.filter_cons_of_pos, List.map_cons]
      rw [← ih]
    · have h' : o.forward = false := by simpa using h
      simp only [List.filterMap_cons, fragOf, h', List.filter_cons_of_neg, Bool.false_eq_true, if_false, not_false_eq_true]
      rw [← ih]

/-- what the pairing loop does with one consecutive pair, in the spec's words -/
theorem pair_key {g : Geometry} {u : Str} (hwf : WF g (letter u) u.length) {s0 : Overhang} {S' : List Overhang}
    (hS : circS g u = s0 :: S') {a b : Overhang}
    (hab : (a, b) ∈ adjPairs ((s0 :: S') ++ [bump u.length s0])) :
    (pieceOf (u ++ u) (a, b)).map (triple g.oh) = fragOf g u a ∧
    (∀ f, pieceOf (u ++ u) (a, b) = some f → 2 * g.oh ≤ f.length) ∧
    (a.forward = true → 0 ≤ a.position ∧ a.position ≤ b.position ∧ b.position ≤ ((u ++ u).length : Int)) := by
  have hn := hwf.n_pos
  have hsorted : (s0 :: S').Pairwise KeyLt := hS ▸ circS_sorted hwf
  have hrange : ∀ o ∈ s0 :: S', 0 ≤ o.position ∧ o.position < u.length := hS ▸ circS_range hwf
  have hinj : ∀ c ∈ s0 :: S', ∀ d ∈ s0 :: S', c.position = d.position → c.forward = d.forward → c = d :=
    hS ▸ circS_key hwf
  have hfs : ∀ c, c ∈ fwdCuts g (letter u) u.length ↔ ∃ o ∈ s0 :: S', o.forward = true ∧ o.position = (c : Int) :=
    hS ▸ circS_fs hwf
  have hrs : ∀ c, c ∈ revCuts g (letter u) u.length ↔ ∃ o ∈ s0 :: S', o.forward = false ∧ o.position = (c : Int) :=
    hS ▸ circS_rs hwf
  have hvalid : a.forward = true → 0 ≤ a.position ∧ a.position ≤ b.position ∧ b.position ≤ ((u ++ u).length : Int) := by
    intro haf
    obtain ⟨haS, hlt, hb2, _⟩ := adjacent_facts hsorted hrange hab haf
    have hra := hrange a haS
    refine ⟨hra.1, hlt, ?_⟩
    simp only [List.length_append]; push_cast; omega
  by_cases haf : a.forward = true
  · obtain ⟨haS, hlt, hb2, b', hb'S, hb'f, K, D, E⟩ := adjacent_facts hsorted hrange hab haf
    have hra := hrange a haS
    have hst := stretch_from_facts hn hfs hrs hinj hrange haS hb'S haf K D E
    rw [hb'f] at hst
    by_cases hbf : b.forward = false
    · rw [if_pos hbf] at hst
      have hslice : (List.drop a.position.toNat (u ++ u)).take (b.position.toNat - a.position.toNat) =
          window (letter u) a.position.toNat (b.position - a.position).toNat := by
        rw [double_slice u (by omega)]
        congr 1; omega
      have hpiece : pieceOf (u ++ u) (a, b) =
          some (window (letter u) a.position.toNat (b.position - a.position).toNat) := by
        simp only [pieceOf, haf, hbf, Bool.not_false, Bool.and_self, if_true, hslice]
      refine ⟨?_, ?_, hvalid⟩
      · rw [hpiece]
        simp only [fragOf, haf, if_true, fragAt, hst, Option.map_some]
      · intro f hf
        rw [hpiece] at hf
        have : f = window (letter u) a.position.toNat (b.position - a.position).toNat := by
          simpa using hf.symm
        rw [this, window_length]
        exact hwf.paired _ ((hfs _).2 ⟨a, haS, haf, by omega⟩) _ hst
    · have hbt : b.forward = true := by simpa using hbf
      rw [if_neg hbf] at hst
      have hpiece : pieceOf (u ++ u) (a, b) = none := by
        simp [pieceOf, haf, hbt]
      refine ⟨?_, ?_, hvalid⟩
      · rw [hpiece]
        simp only [fragOf, haf, if_true, fragAt, hst, Option.map_none]
      · intro f hf; rw [hpiece] at hf; exact absurd hf (by simp)
  · have haf' : a.forward = false := by simpa using haf
    have hpiece : pieceOf (u ++ u) (a, b) = none := by
      simp [pieceOf, haf']
    refine ⟨?_, ?_, hvalid⟩
    · rw [hpiece]; simp [fragOf, haf']
    · intro f hf; rw [hpiece] at hf; exact absurd hf (by simp)

theorem fwdCuts_nodup (g : Geometry) (w : Nat → Char) (n : Nat) : (fwdCuts g w n).Nodup := by
  unfold fwdCuts
  apply List.Nodup.map_on _ (sites_nodup _ _ _)
  intro a ha b hb h
  exact fwdCut_inj g (mem_sites.1 ha).1 (mem_sites.1 hb).1 h

theorem circS_fragments_perm {g : Geometry} {u : Str} (hwf : WF g (letter u) u.length) :
    ((circS g u).filterMap (fragOf g u)).Perm (digestW g (letter u) u.length) := by
  rw [filterMap_fragOf, digestW_eq]
  apply List.Perm.filterMap
  rw [List.perm_ext_iff_of_nodup]
  · intro c
    rw [circS_fs hwf]
    simp only [List.mem_map, List.mem_filter]
    constructor
    · rintro ⟨o, ⟨ho, hf⟩, rfl⟩
      exact ⟨o, ho, hf, by have := (circS_range hwf o ho); omega⟩
    · rintro ⟨o, ho, hf, hp⟩
      exact ⟨o, ⟨ho, hf⟩, by omega⟩
  · apply List.Nodup.map_on _ ((circS_nodup).filter _)
    intro a ha b hb h
    have ha' := (List.mem_filter.1 ha).1
    have hb' := (List.mem_filter.1 hb).1
    have := circS_range hwf a ha'
    have := circS_range hwf b hb'
    exact circS_key hwf a ha' b hb' (by omega) (by rw [(List.mem_filter.1 ha).2, (List.mem_filter.1 hb).2])
  · exact fwdCuts_nodup _ _ _

/-- **The circular case on the upper-cased word**: the model's fragments are the spec's, as a multiset. -/
theorem cutCore_circular (name : String) (g : Geometry) (u : Str) (hwf : WF g (letter u) u.length) :
    ∃ fr, cutCore (u ++ u) u.length true true (enzymeOf name g) = .ok fr ∧
      (fr.map fun f => (f.fwd, f.seq, f.rev)).Perm (digestW g (letter u) u.length) := by
  have hn := hwf.n_pos
  have hpal : isPalindromic (enzymeOf name g).site = false := not_palindromic hwf.acgt hwf.nonpal
  have hO := overhangsCore_circ name g u (not_palindromic hwf.acgt hwf.nonpal) hn
  have hperm := circS_fragments_perm hwf
  cases hS : circS g u with
  | nil =>
    refine ⟨[], ?_, ?_⟩
    · unfold cutCore; rw [hO, hS]; simp
    · rw [hS] at hperm; simpa using hperm
  | cons s0 S' =>
    rw [hS] at hperm hO
    have hrange : ∀ o ∈ s0 :: S', 0 ≤ o.position ∧ o.position < u.length := hS ▸ circS_range hwf
    have hkey := fun (p : Overhang × Overhang) (hp : p ∈ adjPairs ((s0 :: S') ++ [bump u.length s0])) =>
      pair_key hwf hS (a := p.1) (b := p.2) hp
    have hpl : pairLoop (u ++ u) u.length true ((s0 :: S') ++ [bump u.length s0]) =
        some ((adjPairs ((s0 :: S') ++ [bump u.length s0])).filterMap (pieceOf (u ++ u))) := by
      apply pairLoop_eq
      · apply breakOK_snoc
        intro o ho; have := hrange o ho; omega
      · intro p hp h1 _
        exact (hkey p hp).2.2 h1
    have hall : allSome (((adjPairs ((s0 :: S') ++ [bump u.length s0])).filterMap (pieceOf (u ++ u))).map (toFragment g.oh)) =
        some (((adjPairs ((s0 :: S') ++ [bump u.length s0])).filterMap (pieceOf (u ++ u))).map
          fun f => (⟨(f.drop g.oh).take (f.length - 2 * g.oh), f.take g.oh, f.drop (f.length - g.oh)⟩ : Fragment)) := by
      apply allSome_map
      intro f hf
      obtain ⟨p, hp, hpf⟩ := List.mem_filterMap.1 hf
      exact toFragment_eq ((hkey p hp).2.1 f hpf)
    refine ⟨((adjPairs ((s0 :: S') ++ [bump u.length s0])).filterMap (pieceOf (u ++ u))).map
          fun f => (⟨(f.drop g.oh).take (f.length - 2 * g.oh), f.take g.oh, f.drop (f.length - g.oh)⟩ : Fragment), ?_, ?_⟩
    · unfold cutCore
      rw [hO]
      have hlen : ((s0 :: S') ++ [bump u.length s0]).length = S'.length + 2 := by simp
      simp only [hlen, hpal, Bool.not_true, Bool.and_false, Bool.not_false, Bool.and_true,
        Bool.false_eq_true, if_false]
      have h2 : S'.length + 2 > 1 := by omega
      rw [if_pos h2]
      show (match pairLoop (u ++ u) u.length true ((s0 :: S') ++ [bump u.length s0]) with
        | none => Outcome.panic
        | some fragmentSeqs =>
          match allSome (fragmentSeqs.map (toFragment g.oh)) with
          | none => Outcome.panic
          | some fr => Outcome.ok fr) = _
      rw [hpl]
      simp only [hall]
    · rw [List.map_map]
      have e1 : ((fun f : Fragment => (f.fwd, f.seq, f.rev)) ∘
          fun f : Str => (⟨(f.drop g.oh).take (f.length - 2 * g.oh), f.take g.oh, f.drop (f.length - g.oh)⟩ : Fragment)) =
          triple g.oh := by
        funext f; rfl
      rw [e1, List.map_filterMap]
      have e2 : (adjPairs ((s0 :: S') ++ [bump u.length s0])).filterMap (fun p => (pieceOf (u ++ u) p).map (triple g.oh)) =
          (adjPairs ((s0 :: S') ++ [bump u.length s0])).filterMap (fun p => fragOf g u p.1) :=
        List.filterMap_congr (fun p hp => (hkey p hp).1)
      rw [e2]
      have e3 := List.filterMap_map (f := Prod.fst) (g := fragOf g u) (l := adjPairs ((s0 :: S') ++ [bump u.length s0]))
      rw [show (fun p : Overhang × Overhang => fragOf g u p.1) = fragOf g u ∘ Prod.fst from rfl, ← e3, adjPairs_snoc_fst]
      exact hperm

end PolyVerif.Digest
