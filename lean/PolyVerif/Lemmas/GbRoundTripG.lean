import PolyVerif.Lemmas.GbWrapS
import PolyVerif.Lemmas.GbLayoutJ
import PolyVerif.Lemmas.GbBlankRun
/-
C03: write-then-read over the parser model on the widened domain `covered` (metadata with runs of blanks
none of which falls on a wrap point; REFERENCE lines wrapped without loss): the lines `Build` writes are
the C01 layout `GbLayout.layout (toRec x) (polyLayout x)`.
-/
namespace PolyVerif.Lemmas.GbRoundTripG
open PolyVerif PolyVerif.StrBuild PolyVerif.GenbankBuild
open PolyVerif.Lemmas.GbBuild PolyVerif.Lemmas.GbLayout PolyVerif.Lemmas.GbOrigin PolyVerif.Lemmas.GbLocus
open PolyVerif.Lemmas.GbCompose PolyVerif.Lemmas.GbRoundTrip PolyVerif.Lemmas.GbWrapS PolyVerif.Lemmas.GbLayoutJ PolyVerif.Lemmas.GbWrapRel
open PolyVerif.Spec.GbStrict (lines joinSp textJ printable wfLayoutJ wfLayoutG wfRefJ wfOtherJ wfRefIndex refNum sortedEntries
  wfFeature optSub trimRight isWord visible)
open PolyVerif.Spec.GbRoundTrip

/-- a text that `WrapString(_, 68)` wraps without loss -/
structure Good (t : Str) : Prop where
  plain : Plain t
  nonl : NoNl t
  head : ∀ c r, t = c :: r → c ≠ ' '
  len : (wrapString t 68).length = t.length

theorem printable_ne_nl' {c : Char} (h : printable c = true) : c ≠ '\n' := by
  intro e; subst e; revert h; decide

theorem wrapString_length_le {t : Str} (hp : Plain t) : (wrapString t 68).length ≤ t.length := by
  have hw := wrapGo_wrappedS 68 t 0 [] [] 'x' hp (by simp) (by simp) (by simp) (by simp) (fun _ _ => by decide)
  simp only [List.reverse_nil, List.nil_append] at hw
  exact hw.length_le

theorem good_of_textJ {t : Str} (htj : textJ t = true) (hr : readText t = t) : Good t := by
  have hp := plain_of_textJ htj
  simp only [textJ, Bool.and_eq_true, List.all_eq_true, bne_iff_ne, ne_eq] at htj
  refine ⟨hp, fun c hc => printable_ne_nl' (htj.1.1 c hc), ?_, ?_⟩
  · intro c r e he
    apply htj.1.2
    rw [e, he]; rfl
  · have h1 := wrapString_length_le (t := t) hp
    have h2 : t.length ≤ (wrapString t 68).length := by
      have hpre := trimRight_prefix (denl (wrapString t 68))
      unfold readText PolyVerif.Spec.GbStrict.textOf at hr
      rw [joinSp_lines] at hr
      rw [hr] at hpre
      have := hpre.length_le
      simpa [denl] using this
    omega

theorem good_nil : Good [] :=
  ⟨(fun c hc _ => by cases hc), (fun c hc => by cases hc), (fun c r e => by cases e), (by decide)⟩

theorem blockLines_eq_block_G (kw : Str) {t : Str} (h : Good t) :
    blockLines kw t = GbLayout.block kw t (breaks t) := by
  unfold blockLines GbLayout.block
  rw [wrapText_breaks_general h.plain h.nonl h.head h.len]
  obtain ⟨d0, rest, e⟩ := lines_exists (wrapString t 68)
  rw [e]
  rfl

theorem subLines_optSub_G (k : String) {v : Str} (h : Good v) :
    subLines (optSub k v) = GbLayout.optBlock (' ' :: ' ' :: k.toList) v (breaks v) := by
  unfold optSub GbLayout.optBlock
  by_cases hv : v = []
  · simp [hv, subLines]
  · simp only [ne_eq, hv, not_false_eq_true, if_true, if_false, subLines, List.map_cons, List.map_nil,
      List.flatten_cons, List.flatten_nil, List.append_nil]
    exact blockLines_eq_block_G _ h

/-- what is needed of the references -/
def RefsGood : Nat → List Reference → Prop
  | _, [] => True
  | i, r :: rs =>
    (isWord (refNum i r) = true ∧ Plain r.range ∧ NoNl r.range ∧ Good r.authors ∧ Good r.title ∧ Good r.journal ∧ Good r.pubMed ∧ Good r.remark)
      ∧ RefsGood (i + 1) rs

theorem refSpecs_lines_G : ∀ (refs : List Reference) (i : Nat), RefsGood i refs → refsFit i refs = true →
    specsLines (refSpecs i refs) = GbLayout.refsLines i (refs.map toRRef) (refLayouts i refs)
  | [], _, _, _ => rfl
  | r :: rs, i, hg, hf => by
    obtain ⟨⟨hnumW, hpr, hnr, g2, g3, g4, g5, g6⟩, hgrest⟩ := hg
    have hvis : ∀ c ∈ refNum i r, visible c = true := by
      simp only [isWord, Bool.and_eq_true, List.all_eq_true] at hnumW
      exact hnumW.2
    have hnumne : refNum i r ≠ [] := by
      simp only [isWord, Bool.and_eq_true, bne_iff_ne, ne_eq] at hnumW
      exact hnumW.1
    simp only [refsFit, Bool.and_eq_true] at hf
    obtain ⟨hfit, hrest⟩ := hf
    have e2 : "  ".toList = [' ', ' '] := by decide
    have hplain : Plain (refHeadText i r) := by
      intro c hc hsp
      unfold refHeadText at hc
      rcases List.mem_append.mp hc with hc | hc
      · rcases List.mem_append.mp hc with hc | hc
        · have := isSpace_of_visible (hvis c hc)
          rw [this] at hsp; exact absurd hsp (by simp)
        · rw [e2] at hc
          simp only [List.mem_cons, List.not_mem_nil, or_false, or_self] at hc
          exact hc
      · exact hpr c hc hsp
    have hnonl : NoNl (refHeadText i r) :=
      NoNl.append (NoNl.append (fun c hc => visible_ne_nl (hvis c hc)) (noNl_lit _ (by decide))) hnr
    have hheadLines : blockLines "REFERENCE".toList (refHeadText i r)
        = GbLayout.refHeadLines i (toRRef r) (refLayout i r) := by
      have hnumL : GbLayout.refNumber i (toRRef r) = refNum i r := by
        unfold GbLayout.refNumber refNum toRRef
        simp only []
        split
        · exact ofNat_eq_itoa _
        · rfl
      unfold GbLayout.refHeadLines
      rw [hnumL]
      by_cases hrne : r.range = []
      · rw [if_pos hrne] at hfit
        have hfit : (refHeadText i r).length ≤ 68 := by simpa using hfit
        rw [blockLines_short _ hplain hnonl hfit, if_pos ⟨rfl, by simp [toRRef, hrne]⟩]
        unfold refHeadText
        rw [hrne]
        simp [GbLayout.block, GbLayout.wrapText, wrapAux_no_breaks, GbLayout.hang, e2]
      · rw [if_neg hrne] at hfit
        rw [if_neg (by simp [toRRef, hrne])]
        have hhead : GbLayout.refHead i (toRRef r) = refHeadText i r := by
          unfold GbLayout.refHead refHeadText
          rw [hnumL]
          simp only [toRRef, hrne, if_false]
          rw [e2, List.append_assoc]
        have hgood : Good (refHeadText i r) := by
          refine ⟨hplain, hnonl, ?_, by simpa using hfit⟩
          intro c t e
          cases hn : refNum i r with
          | nil => exact absurd hn hnumne
          | cons d t' =>
            unfold refHeadText at e
            rw [hn] at e
            simp only [List.cons_append, List.cons.injEq] at e
            rw [← e.1]
            exact visible_ne_blank (hvis d (by rw [hn]; exact List.mem_cons_self))
        rw [hhead, blockLines_eq_block_G _ hgood]
        simp [refLayout, hrne]
    have hspec : refNum i r ++ "  ".toList ++ r.range = refHeadText i r := rfl
    rw [refSpecs, hspec, specsLines_cons, refSpecs_lines_G rs (i + 1) hgrest hrest]
    simp only [List.map_cons, refLayouts, GbLayout.refsLines, List.headD_cons, List.tail_cons]
    congr 1
    unfold specLines GbLayout.refLines
    simp only [refSubs, subLines_append, subLines_optSub_G _ g2, subLines_optSub_G _ g3, subLines_optSub_G _ g4,
      subLines_optSub_G _ g5, subLines_optSub_G _ g6, hheadLines]
    rfl

theorem otherSpecs_lines_G (m : List (Str × Str)) : ∀ keys : List Str, (∀ k ∈ keys, Good (lookupD m k)) →
    specsLines (otherSpecs m keys)
      = GbLayout.extrasLines (keys.map fun k => (k, lookupD m k)) (keys.map fun k => breaks (lookupD m k))
  | [], _ => rfl
  | k :: keys, h => by
    rw [otherSpecs, List.map_cons, specsLines_cons, specLines_nosub]
    simp only [List.map_cons, GbLayout.extrasLines, List.headD_cons, List.tail_cons]
    rw [blockLines_eq_block_G _ (h k List.mem_cons_self)]
    congr 1
    exact otherSpecs_lines_G m keys (fun x hx => h x (List.mem_cons_of_mem _ hx))

/-! ### the whole record -/

theorem refsGood_of : ∀ (refs : List Reference) (i : Nat), refs.all wfRefJ = true → RefsFacts i refs → RefsGood i refs
  | [], _, _, _ => trivial
  | r :: rs, i, hw, hf => by
    simp only [List.all_cons, Bool.and_eq_true] at hw
    obtain ⟨⟨h7, hpl, _, h2, h3, h4, h5, h6⟩, hfrest⟩ := hf
    have hr := hw.1
    simp only [wfRefJ, Bool.and_eq_true] at hr
    obtain ⟨⟨⟨⟨⟨⟨t1, t2⟩, t3⟩, t4⟩, t5⟩, t6⟩, _⟩ := hr
    have hnr : NoNl r.range := by
      have := t1
      simp only [textJ, Bool.and_eq_true, List.all_eq_true] at this
      exact fun c hc => printable_ne_nl' (this.1.1 c hc)
    exact ⟨⟨isWord_refNum i r h7, hpl, hnr, good_of_textJ t2 h2, good_of_textJ t3 h3, good_of_textJ t4 h4, good_of_textJ t5 h5,
      good_of_textJ t6 h6⟩, refsGood_of rs (i + 1) hw.2 hfrest⟩

/-- the lines `Build` writes are the C01 layout of the record it was given, with `Build`'s choices -/
theorem lines_build_eq_layout (x : Sequence) (h : covered x = true) :
    lines (build x MapOrders.id) = PolyVerif.GbLayout.layout (toRec x) (polyLayout x) := by
  simp only [covered, Bool.and_eq_true] at h
  obtain ⟨⟨⟨⟨⟨⟨hG, _⟩, _⟩, _⟩, hfit⟩, _⟩, _⟩ := h
  have f := PolyVerif.Lemmas.GbBlankRun.facts_of_wfLayoutG x hG
  have hj : wfLayoutJ x = true := by
    simp only [wfLayoutG, Bool.and_eq_true] at hG
    exact hG.1.1
  simp only [wfLayoutJ, Bool.and_eq_true, bne_iff_ne, ne_eq, decide_eq_true_eq] at hj
  obtain ⟨⟨⟨⟨⟨⟨⟨⟨⟨⟨⟨⟨⟨⟨_, td⟩, ta⟩, tv⟩, tk⟩, ts⟩, to⟩, hrefs⟩, _⟩, hother⟩, hfeat⟩, hne⟩, _⟩, _⟩, _⟩ := hj
  have k1 : "DEFINITION".toList = ['D', 'E', 'F', 'I', 'N', 'I', 'T', 'I', 'O', 'N'] := by decide
  have k2 : "ACCESSION".toList = ['A', 'C', 'C', 'E', 'S', 'S', 'I', 'O', 'N'] := by decide
  have k3 : "VERSION".toList = ['V', 'E', 'R', 'S', 'I', 'O', 'N'] := by decide
  have k4 : "KEYWORDS".toList = ['K', 'E', 'Y', 'W', 'O', 'R', 'D', 'S'] := by decide
  have k5 : "SOURCE".toList = ['S', 'O', 'U', 'R', 'C', 'E'] := by decide
  have k6 : ' ' :: ' ' :: "ORGANISM".toList = [' ', ' ', 'O', 'R', 'G', 'A', 'N', 'I', 'S', 'M'] := by decide
  have k7 : featHdr = PolyVerif.GbLayout.featuresHeader := by decide
  have k8 : "ORIGIN".toList = ['O', 'R', 'I', 'G', 'I', 'N'] := by decide
  have k9 : "//".toList = ['/', '/'] := by decide
  have hftype : ∀ ft ∈ x.features, ft.type.length ≤ 15 := by
    intro ft hf
    have := List.all_eq_true.mp hfeat ft hf
    simp only [wfFeature, Bool.and_eq_true, decide_eq_true_eq] at this
    exact this.1.1.1.2
  have hgoodOther : ∀ k, Good (lookupD x.metadata.other k) := by
    intro k
    refine lookupD_prop Good good_nil _ (fun kv hkv => ?_) k
    have := List.all_eq_true.mp hother kv hkv
    simp only [wfOtherJ, Bool.and_eq_true] at this
    exact good_of_textJ this.2 (f.otherVals kv hkv)
  have hhdr : specsLines (headerSpecs x (sortStrings (x.metadata.other.map Prod.fst)))
      = PolyVerif.GbLayout.block "DEFINITION".toList x.metadata.definition (breaks x.metadata.definition)
        ++ PolyVerif.GbLayout.block "ACCESSION".toList x.metadata.accession (breaks x.metadata.accession)
        ++ PolyVerif.GbLayout.block "VERSION".toList x.metadata.version (breaks x.metadata.version)
        ++ PolyVerif.GbLayout.block "KEYWORDS".toList x.metadata.keywords (breaks x.metadata.keywords)
        ++ PolyVerif.GbLayout.block "SOURCE".toList x.metadata.source (breaks x.metadata.source)
        ++ PolyVerif.GbLayout.block (' ' :: ' ' :: "ORGANISM".toList) x.metadata.organism (breaks x.metadata.organism)
        ++ PolyVerif.GbLayout.refsLines 0 (x.metadata.references.map toRRef) (refLayouts 0 x.metadata.references)
        ++ PolyVerif.GbLayout.extrasLines (sortedEntries x.metadata.other)
            ((sortedEntries x.metadata.other).map fun kv => breaks kv.2) := by
    rw [headerSpecs, specsLines_append, specsLines_append,
      refSpecs_lines_G _ 0 (refsGood_of _ 0 hrefs f.refs) hfit,
      otherSpecs_lines_G _ _ (fun k _ => hgoodOther k)]
    rw [specsLines_cons, specsLines_cons, specsLines_cons, specsLines_cons, specsLines_cons, specsLines_nil,
      specLines_nosub, specLines_nosub, specLines_nosub, specLines_nosub, specLines_onesub,
      blockLines_eq_block_G _ (good_of_textJ td f.definition), blockLines_eq_block_G _ (good_of_textJ ta f.accession),
      blockLines_eq_block_G _ (good_of_textJ tv f.version), blockLines_eq_block_G _ (good_of_textJ tk f.keywords),
      blockLines_eq_block_G _ (good_of_textJ ts f.source), blockLines_eq_block_G _ (good_of_textJ to f.organism)]
    simp only [sortedEntries, List.map_map, Function.comp_def]
    exact header_glue _ _ _ _ _ _ _ _
  rw [build_lines' x f, hhdr, featsLines_eq _ hftype, origin_eq hne, list_glue]
  rw [layout_plain (toRec x) (polyLayout x) rfl rfl rfl rfl rfl rfl rfl]
  rw [← locusLine_eq x, k1, k2, k3, k4, k5, k6, k7, k8, k9]
  rfl

/-- the parser model, run on what `Build` writes, returns what C01's abstract record states -/
theorem parse_build_covered (x : Sequence) (o : MapOrders) (h : covered x = true) :
    Genbank.parse (build x o) = .ok (PolyVerif.GbLayout.toSequence (toRec x)) := by
  have hwf : PolyVerif.GbLayout.wf (toRec x) = true := by
    simp only [covered, Bool.and_eq_true] at h
    exact h.1.2
  rw [build_order_irrelevant x o MapOrders.id]
  unfold Genbank.parse
  rw [show (['\n'] : Str) = ['\n'] from rfl, split_nl_eq_lines, lines_build_eq_layout x h]
  have := Lemmas.Genbank.parseLoop_layout (toRec x) (polyLayout x) [] hwf (by simp)
  simpa using this

/-- … and that is the record the writer was given -/
theorem approx_covered (x : Sequence) (h : covered x = true) :
    approx x (PolyVerif.GbLayout.toSequence (toRec x)) = true := by
  simp only [covered, Bool.and_eq_true, Bool.not_eq_true'] at h
  obtain ⟨⟨⟨⟨⟨⟨_, hnb⟩, _⟩, hfeatRT⟩, _⟩, _⟩, hfeatLoc⟩ := h
  have hc : ((if x.metadata.locus.circular = true then some PolyVerif.GbLayout.Topology.circular
        else if x.metadata.locus.linear = true then some PolyVerif.GbLayout.Topology.linear else none)
          == some PolyVerif.GbLayout.Topology.circular) = x.metadata.locus.circular := by
    cases x.metadata.locus.circular <;> cases x.metadata.locus.linear <;> decide
  have hl : ((if x.metadata.locus.circular = true then some PolyVerif.GbLayout.Topology.circular
        else if x.metadata.locus.linear = true then some PolyVerif.GbLayout.Topology.linear else none)
          == some PolyVerif.GbLayout.Topology.linear) = x.metadata.locus.linear := by
    cases hc' : x.metadata.locus.circular <;> cases hl' : x.metadata.locus.linear <;> simp_all <;> decide
  have hrefs : listApprox refApprox (PolyVerif.Spec.GbStrict.withDefaultIndex x).metadata.references
      (PolyVerif.GbLayout.toRefs 0 (x.metadata.references.map toRRef)) = true := refs_approx _ 0
  unfold approx PolyVerif.GbLayout.toSequence PolyVerif.GbLayout.toLocus toRec
  simp only [Bool.and_eq_true, beq_iff_eq, hc, hl, hrefs, feats_approx _ hfeatRT hfeatLoc, and_true,
    beq_self_eq_true]

end PolyVerif.Lemmas.GbRoundTripG
