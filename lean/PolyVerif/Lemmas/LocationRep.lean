import PolyVerif.Lemmas.LocationBuild
/-
Helper lemmas for C02, part 5: every structure that represents a location (`Insdc.Rep`)
evaluates to its INSDC reading, records its partial ends, and is written by
BuildLocationString as `tprint true (norm l)`; the concrete embeddings (`embed`, `embedV`,
`embedW` — hence also the parsed structure) are members of the family.
Proofs by structural recursion on the derivation of `Rep p l`.
-/
namespace PolyVerif.Lemmas.Location
open PolyVerif PolyVerif.Location PolyVerif.Insdc

theorem repList_length : ∀ {ps : List PLoc} {xs : List Loc}, RepList ps xs → ps.length = xs.length
  | _, _, .nil => rfl
  | _, _, .cons _ _ _ _ _ h => by simp [repList_length h]

/-! ### getFeatureSequence -/

mutual
theorem getSeq_rep (parent : Str) : ∀ {p : PLoc} {l : Loc}, Rep p l → inRange l parent.length = true →
    arity l = true → getSeq p parent = .ok (denote l parent)
  | _, _, .span a b lt gt, h, _ => by
    simp only [inRange, Bool.and_eq_true, decide_eq_true_eq] at h
    rw [getSeq.eq_def]
    simp [denote, slice_range parent a b h.1.1 h.1.2 h.2]
  | _, _, .base n, h, _ => by
    simp only [inRange, Bool.and_eq_true, decide_eq_true_eq] at h
    rw [getSeq.eq_def]
    simp [denote, slice_range parent n n h.1 (Nat.le_refl _) h.2]
  | _, _, .join s e j f t ps xs _ hr, h, ha => by
    simp only [inRange] at h
    simp only [arity, Bool.and_eq_true, decide_eq_true_eq] at ha
    have ih := getSeqList_rep parent hr h ha.2
    rw [getSeq.eq_def]
    cases hr with
    | nil => simp at ha
    | cons q qs x xs' hq hqs => simp [denote, ih]
  | _, _, .merged s e j f t ps x hr, h, ha => by
    simp only [inRange] at h
    simp only [arity] at ha
    have ih := getSeq_rep parent hr h ha
    rw [getSeq.eq_def] at ih ⊢
    simp only [Bool.false_eq_true, if_false] at ih
    simp only [if_true, denote, ih, Outcome.map]
  | _, _, .wrapper s e f t q x hr, h, ha => by
    simp only [inRange] at h
    simp only [arity] at ha
    have ih := getSeq_rep parent hr h ha
    rw [getSeq.eq_def]
    simp [getSeqList, ih, Outcome.bind, Outcome.map, denote]
  | _, _, .pass s e f t q l hr, h, ha => by
    have ih := getSeq_rep parent hr h ha
    rw [getSeq.eq_def]
    simp [getSeqList, ih, Outcome.bind]
theorem getSeqList_rep (parent : Str) : ∀ {ps : List PLoc} {xs : List Loc}, RepList ps xs →
    inRangeList xs parent.length = true → arityList xs = true → getSeqList ps parent = .ok (denoteList xs parent)
  | _, _, .nil, _, _ => rfl
  | _, _, .cons p ps x xs hp hps, h, ha => by
    simp only [inRangeList, Bool.and_eq_true] at h
    simp only [arityList, Bool.and_eq_true] at ha
    simp [getSeqList, denoteList, getSeq_rep parent hp h.1 ha.1, getSeqList_rep parent hps h.2 ha.2, Outcome.bind]
end

/-! ### partial ends -/

mutual
theorem pends_rep : ∀ {p : PLoc} {l : Loc}, Rep p l → arity l = true → pends p = ends l
  | _, _, .span a b lt gt, _ => by rw [pends.eq_def]; simp [ends]
  | _, _, .base n, _ => by rw [pends.eq_def]; simp [ends]
  | _, _, .join s e j f t ps xs _ hr, h => by
    simp only [arity, Bool.and_eq_true, decide_eq_true_eq] at h
    have ih := pendsList_rep hr h.2
    rw [pends.eq_def]
    cases hr with
    | nil => simp at h
    | cons q qs x xs' hq hqs => simp [ends, ih]
  | _, _, .merged s e j f t ps x hr, h => by
    simp only [arity] at h
    have ih := pends_rep hr h
    rw [pends.eq_def] at ih ⊢
    simpa [ends] using ih
  | _, _, .wrapper s e f t q x hr, h => by
    simp only [arity] at h
    rw [pends.eq_def]
    simp [pendsList, ends, pends_rep hr h]
  | _, _, .pass s e f t q l hr, h => by
    rw [pends.eq_def]
    simp [pendsList, pends_rep hr h]
theorem pendsList_rep : ∀ {ps : List PLoc} {xs : List Loc}, RepList ps xs → arityList xs = true →
    pendsList ps = endsList xs
  | _, _, .nil, _ => rfl
  | _, _, .cons p ps x xs hp hps, h => by
    simp only [arityList, Bool.and_eq_true] at h
    simp [pendsList, endsList, pends_rep hp h.1, pendsList_rep hps h.2]
end

/-! ### BuildLocationString -/

theorem buildLoc_join_text (s e : Int) (j f t : Bool) (ps : List PLoc) (hj : j = true ∨ 2 ≤ ps.length) :
    buildLoc ⟨s, e, false, j, f, t, ps⟩ = trimComma (Location.joinOpen ++ buildSubs ps) ++ [')'] := by
  rw [buildLoc.eq_def]
  cases j
  · rcases hj with h | h
    · cases h
    · match ps, h with
      | _ :: _ :: _, _ => simp
  · simp

mutual
/-- what the writer writes for any structure representing `l`: the text of `norm l` in the writer's
style (3′ markers after the end position) -/
theorem buildLoc_rep : ∀ {p : PLoc} {l : Loc}, Rep p l → arity l = true → buildLoc p = tprint true (norm l)
  | _, _, .span a b lt gt, _ => by
    rw [buildLoc.eq_def]
    simp [norm, tprint, itoaInt_natCast]
  | _, _, .base n, _ => by
    rw [buildLoc.eq_def]
    simp [norm, tprint, itoaInt_natCast]
  | _, _, .join s e j f t ps xs hj hr, h => by
    simp only [arity, Bool.and_eq_true, decide_eq_true_eq] at h
    have ih := buildSubs_rep hr h.2
    match xs, h, ih with
    | x :: y :: ys, _, ih =>
      rw [show normList (x :: y :: ys) = norm x :: normList (y :: ys) from rfl,
        show tprintAfter true (norm x :: normList (y :: ys)) =
          tprint true (norm x) ++ ',' :: tprintAfter true (normList (y :: ys)) from rfl,
        tprintAfter_tail] at ih
      rw [buildLoc_join_text s e j f t ps hj, ih, joinOpen_eq, ← List.append_assoc txtJoin, trimComma_concat]
      simp [norm, normList, tprint]
  | _, _, .merged s e j f t ps x hr, h => by
    simp only [arity] at h
    have ih := buildLoc_rep hr h
    rw [buildLoc.eq_def] at ih ⊢
    simp only [Bool.false_eq_true, if_false] at ih
    simp only [if_true, ih, norm, tprint, complOpen_eq]
    simp
  | _, _, .wrapper s e f t q x hr, h => by
    simp only [arity] at h
    rw [buildLoc.eq_def]
    simp [buildLoc_rep hr h, norm, tprint, complOpen_eq]
  | _, _, .pass s e f t q l hr, h => by
    rw [buildLoc.eq_def]
    simp [buildLoc_rep hr h]
theorem buildSubs_rep : ∀ {ps : List PLoc} {xs : List Loc}, RepList ps xs → arityList xs = true →
    buildSubs ps = tprintAfter true (normList xs)
  | _, _, .nil, _ => rfl
  | _, _, .cons p ps x xs hp hps, h => by
    simp only [arityList, Bool.and_eq_true] at h
    simp [buildSubs, normList, tprintAfter, buildLoc_rep hp h.1, buildSubs_rep hps h.2]
end

/-! ### members of the family -/

theorem rep_setCompl {q : PLoc} {x : Loc} (h : Rep q x) (hq : q.complement = false) :
    Rep { q with complement := true } (.compl x) := by
  obtain ⟨s, e, c, j, f, t, ps⟩ := q
  simp only at hq
  subst hq
  exact Rep.merged s e j f t ps x h

theorem length_embedWList (w : Loc → Bool × Bool) : ∀ xs, (embedWList w xs).length = xs.length
  | [] => rfl
  | x :: xs => by simp [embedWList, length_embedWList w xs]

theorem length_embedVList (j w : Bool) : ∀ xs, (embedVList j w xs).length = xs.length
  | [] => rfl
  | x :: xs => by simp [embedVList, length_embedVList j w xs]

mutual
theorem rep_embedW (w : Loc → Bool × Bool) : ∀ (l : Loc), arity l = true → Rep (embedW w l) l
  | .span a b lt gt, _ => Rep.span a b lt gt
  | .base n, _ => Rep.base n
  | .join xs, h => by
    simp only [arity, Bool.and_eq_true] at h
    exact Rep.join 0 0 true _ _ _ xs (Or.inl rfl) (repList_embedWList w xs h.2)
  | .compl x, h => by
    simp only [arity] at h
    have ih := rep_embedW w x h
    simp only [embedW]
    cases hc : (embedW w x).complement
    · simp only [Bool.false_eq_true, if_false]
      exact rep_setCompl ih hc
    · simp only [if_true]
      exact Rep.wrapper 0 0 _ _ _ x ih
theorem repList_embedWList (w : Loc → Bool × Bool) : ∀ (xs : List Loc), arityList xs = true →
    RepList (embedWList w xs) xs
  | [], _ => RepList.nil
  | x :: xs, h => by
    simp only [arityList, Bool.and_eq_true] at h
    exact RepList.cons _ _ x xs (rep_embedW w x h.1) (repList_embedWList w xs h.2)
end

mutual
theorem rep_embedV (j w : Bool) : ∀ (l : Loc), arity l = true → Rep (embedV j w l) l
  | .span a b lt gt, _ => Rep.span a b lt gt
  | .base n, _ => Rep.base n
  | .join xs, h => by
    simp only [arity, Bool.and_eq_true, decide_eq_true_eq] at h
    refine Rep.join 0 0 j false false _ xs ?_ (repList_embedVList j w xs h.2)
    rw [length_embedVList]
    exact Or.inr h.1
  | .compl x, h => by
    simp only [arity] at h
    have ih := rep_embedV j w x h
    simp only [embedV]
    cases hc : (w || (embedV j w x).complement)
    · simp only [Bool.false_eq_true, if_false]
      simp only [Bool.or_eq_false_iff] at hc
      exact rep_setCompl ih hc.2
    · simp only [if_true]
      exact Rep.wrapper 0 0 false false _ x ih
theorem repList_embedVList (j w : Bool) : ∀ (xs : List Loc), arityList xs = true →
    RepList (embedVList j w xs) xs
  | [], _ => RepList.nil
  | x :: xs, h => by
    simp only [arityList, Bool.and_eq_true] at h
    exact RepList.cons _ _ x xs (rep_embedV j w x h.1) (repList_embedVList j w xs h.2)
end

theorem rep_embed (l : Loc) (h : arity l = true) : Rep (embed l) l := by
  rw [embed_eq_embedW]
  exact rep_embedW wNone l h

theorem rep_pembed (l : Loc) (h : arity l = true) : Rep (pembed l) l := by
  rw [pembed_eq_embedW]
  exact rep_embedW wParse l h

end PolyVerif.Lemmas.Location
