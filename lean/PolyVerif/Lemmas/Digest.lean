import PolyVerif.Driver.C10
/-
Helper lemmas for property C10 (Props/C10.lean).
-/
namespace PolyVerif.Digest
open PolyVerif PolyVerif.Transform PolyVerif.DigestSpec

theorem upper_append (a b : Str) : upper (a ++ b) = upper a ++ upper b := by
  simp [upper]

theorem upper_length (a : Str) : (upper a).length = a.length := by simp [upper]

theorem length_eq_of_upper_eq {s t : Str} (h : upper s = upper t) : s.length = t.length := by
  have := congrArg List.length h
  simpa [upper] using this

theorem sequenceOf_case {s t : Str} (h : upper s = upper t) (c : Bool) : sequenceOf s c = sequenceOf t c := by
  cases c <;> simp [sequenceOf, upper_append, h]

theorem cutWithEnzyme_case {s t : Str} (h : upper s = upper t) (c d : Bool) (e : Enzyme) :
    cutWithEnzyme s c d e = cutWithEnzyme t c d e := by
  simp only [cutWithEnzyme, sequenceOf_case h, length_eq_of_upper_eq h]

end PolyVerif.Digest

namespace PolyVerif.DigestSpec
open PolyVerif

/-- the array-backed reading function used by the compiled judge is `letter` -/
theorem letterA_eq (u : Str) : letterA u.toArray = letter u := by
  funext i
  simp [letterA, letter, Array.getD, List.getD]
  split <;> rename_i h
  · simp [List.getElem?_eq_getElem h]
  · simp [List.getElem?_eq_none (Nat.le_of_not_lt h)]

end PolyVerif.DigestSpec
