import PolyVerif.Lemmas.LocationTotal
import PolyVerif.Spec.GbLayout
/-
Helper lemmas for C02 / C01, part 8: every location text of C01's domain predicate
(`GbLayout.isLocText`: an atom, or `operator(loc,…)` with `complement` taking one operand) is the
text `gprint t` of a well-formed shape tree — soundness of that recogniser — so `parseLocation`
does not panic on it (`LocationTotal.parseLocation_gprint`).
-/
namespace PolyVerif.Lemmas.Location
open PolyVerif PolyVerif.Location PolyVerif.GbLayout

theorem all_takeWhile (p : Char → Bool) : ∀ (s : Str), (s.takeWhile p).all p = true
  | [] => rfl
  | c :: cs => by
    simp only [List.takeWhile_cons]
    split
    · rename_i h; simp [h, all_takeWhile p cs]
    · rfl

theorem plainB_takeWhile (s : Str) : plainB (s.takeWhile isAtomChar) = true := by
  have h := all_takeWhile isAtomChar s
  simp only [List.all_eq_true] at h
  simp only [plainB, List.all_eq_true]
  intro c hc
  have := h c hc
  simp only [isAtomChar, Bool.and_eq_true] at this
  simp [this.1.1.2, this.1.2, this.2]

theorem kwComplement_eq : (c!"complement" : Str) = kwComplement := rfl

theorem recogniser_sound : ∀ (f : Nat),
    (∀ (s r : Str), locRest f s = some r → ∃ t, gwf t = true ∧ s = gprint t ++ r) ∧
    (∀ (s : Str) (n : Nat) (r : Str), argsRest f s = some (n, r) →
      ∃ t ts, gwf t = true ∧ gwfList ts = true ∧ n = ts.length + 1 ∧ s = gprint t ++ (gprintTail ts ++ r))
  | 0 => by
    constructor
    · intro s r h; simp [locRest] at h
    · intro s n r h; simp [argsRest] at h
  | f + 1 => by
    obtain ⟨ihL, ihA⟩ := recogniser_sound f
    constructor
    · intro s r h
      have hs : s = s.takeWhile isAtomChar ++ s.dropWhile isAtomChar := (List.takeWhile_append_dropWhile).symm
      have hw := plainB_takeWhile s
      unfold locRest at h
      simp only at h
      split at h
      · rename_i r1 hd
        split at h
        · rename_i n r2 ha
          split at h
          · cases h
          · rename_i hc
            cases h
            obtain ⟨t, ts, ht, hts, hn, he⟩ := ihA _ _ _ ha
            refine ⟨.op (s.takeWhile isAtomChar) (t :: ts), ?_, ?_⟩
            · simp only [gwf, gwfList, hw, ht, hts, Bool.and_true, Bool.true_and, List.isEmpty_cons, Bool.not_false,
                Bool.or_eq_true, bne_iff_ne, ne_eq, beq_iff_eq, List.length_cons]
              by_cases hcw : s.takeWhile isAtomChar = kwComplement
              · right
                have : ¬ n ≠ 1 := fun hne => hc ⟨by rw [kwComplement_eq]; exact hcw, hne⟩
                omega
              · left; exact hcw
            · simp only [gprint, List.append_assoc, List.cons_append, List.nil_append]
              rw [← he, ← hd]
              exact hs
        · cases h
      · rename_i hd
        split at h
        · cases h
        · cases h
          exact ⟨.atom (s.takeWhile isAtomChar), by simp [gwf, hw], by simp [gprint]⟩
    · intro s n r h
      unfold argsRest at h
      split at h
      · rename_i r1 hl
        obtain ⟨t, ht, he⟩ := ihL _ _ hl
        cases ha : argsRest f r1 with
        | none => rw [ha] at h; simp at h
        | some p =>
          rw [ha] at h
          simp only [Option.map_some, Option.some.injEq, Prod.mk.injEq] at h
          obtain ⟨t2, ts, ht2, hts, hn, he2⟩ := ihA r1 p.1 p.2 (by rw [ha])
          refine ⟨t, t2 :: ts, ht, by simp [gwfList, ht2, hts], ?_, ?_⟩
          · rw [← h.1, hn]; simp
          · rw [he, he2, ← h.2]; simp [gprintTail]
      · rename_i hne hl
        cases h
        obtain ⟨t, ht, he⟩ := ihL _ _ hl
        exact ⟨t, [], ht, rfl, rfl, by simp [gprintTail, he]⟩
      · cases h

/-- C01's domain predicate for location texts only accepts texts of the general shape -/
theorem isLocText_shape (s : Str) (h : isLocText s = true) : ∃ t, gwf t = true ∧ gprint t = s := by
  simp only [isLocText, Bool.and_eq_true, beq_iff_eq] at h
  obtain ⟨t, ht, he⟩ := (recogniser_sound _).1 s [] h.2
  exact ⟨t, ht, by simpa using he.symm⟩

end PolyVerif.Lemmas.Location
