import PolyVerif.Model.Ligate
/-
The goroutine system of `CircularLigate` (Model/Ligate.lean, `Sys` / `Step`): invariant, variant,
progress.  Consequences (used by Props/C09): along EVERY interleaving nothing is sent on a closed
channel and the WaitGroup counter never goes negative; `close(c)` is executed only when no send is
pending anywhere; every run is finite (bounded by the variant); a run can stop only after the
collector has handed over its list, and that list is a permutation of all sends of all spawn trees.
-/
namespace PolyVerif.Ligate
open PolyVerif

/-- what is still to be sent: by the live goroutines and by those main has not started yet -/
def pending (s : Sys) : List Str := s.procs.flatMap emits ++ s.seeds.flatMap emits

structure Inv (total : List Str) (s : Sys) : Prop where
  wg_eq : s.wg = s.procs.length
  ok : s.panicked = false
  closed_imp : s.closed = true → s.procs = [] ∧ s.seeds = []
  conserve : (s.recvd ++ pending s).Perm total
  res : ∀ r, s.result = some r → s.closed = true ∧ r = s.recvd
  ns : ∀ p, p ∈ s.procs ∨ p ∈ s.seeds → noStuck p = true

theorem inv_init (seeds : List Work) (h : ∀ p ∈ seeds, noStuck p = true) : Inv (seeds.flatMap emits) (Sys.init seeds) where
  wg_eq := rfl
  ok := rfl
  closed_imp := by intro h; cases h
  conserve := by simp [Sys.init, pending]
  res := by intro r h; cases h
  ns := by
    intro p hp
    rcases hp with hp | hp
    · cases hp
    · exact h p hp

theorem inv_step {total : List Str} {s s' : Sys} (h : Inv total s) (st : Step s s') : Inv total s' := by
  have hcons := fun a => List.perm_iff_count.1 h.conserve a
  cases st with
  | @launch t ts hp hs =>
    refine ⟨by simp [h.wg_eq], h.ok, ?_, ?_, h.res, ?_⟩
    · intro hc
      have := (h.closed_imp hc).2
      rw [hs] at this; cases this
    · refine List.perm_iff_count.2 fun a => ?_
      have := hcons a
      simp only [pending, hs, List.flatMap_cons, List.count_append] at this ⊢
      omega
    · intro p hp
      apply h.ns
      rcases hp with hp | hp
      · rcases List.mem_cons.1 hp with rfl | hp
        · right; rw [hs]; exact List.mem_cons_self ..
        · left; exact hp
      · right; rw [hs]; exact List.mem_cons_of_mem _ hp
  | @spawn l r c k hp hs =>
    refine ⟨by simp [h.wg_eq, hs]; omega, h.ok, ?_, ?_, h.res, ?_⟩
    · intro hc
      have := (h.closed_imp hc).1
      rw [hs] at this; simp at this
    · refine List.perm_iff_count.2 fun a => ?_
      have := hcons a
      simp only [pending, hs, List.flatMap_cons, List.flatMap_append, List.flatMap_nil, List.count_append, emits,
        List.append_nil] at this ⊢
      omega
    · intro p hp
      have hsp : noStuck (Work.spawn c k) = true := h.ns _ (Or.inl (by rw [hs]; simp))
      simp only [noStuck, Bool.and_eq_true] at hsp
      rcases hp with hp | hp
      · simp only [List.mem_append, List.mem_cons, List.not_mem_nil, or_false] at hp
        rcases hp with (hp | rfl | hp) | rfl
        · exact h.ns p (Or.inl (by rw [hs]; simp [hp]))
        · exact hsp.2
        · exact h.ns p (Or.inl (by rw [hs]; simp [hp]))
        · exact hsp.1
      · exact h.ns p (Or.inr hp)
  | @send l r x hp hs hseeds hcl =>
    refine ⟨by simp [h.wg_eq, hs], h.ok, ?_, ?_, ?_, ?_⟩
    · intro hc
      change s.closed = true at hc
      rw [hcl] at hc; cases hc
    · refine List.perm_iff_count.2 fun a => ?_
      have := hcons a
      simp only [pending, hs, List.flatMap_cons, List.flatMap_append, List.count_append, emits, List.count_nil] at this ⊢
      omega
    · intro r' hr
      have := (h.res r' hr).1
      rw [hcl] at this; cases this
    · intro p hp
      rcases hp with hp | hp
      · simp only [List.mem_append, List.mem_cons] at hp
        rcases hp with hp | rfl | hp
        · exact h.ns p (Or.inl (by rw [hs]; simp [hp]))
        · rfl
        · exact h.ns p (Or.inl (by rw [hs]; simp [hp]))
      · exact h.ns p (Or.inr hp)
  | @sendClosed l r x hp hs hcl =>
    have := (h.closed_imp hcl).1
    rw [hs] at this; simp at this
  | @done l r hp hs hw =>
    refine ⟨by simp [h.wg_eq, hs], h.ok, ?_, ?_, h.res, ?_⟩
    · intro hc
      have := (h.closed_imp hc).1
      rw [hs] at this; simp at this
    · refine List.perm_iff_count.2 fun a => ?_
      have := hcons a
      simp only [pending, hs, List.flatMap_cons, List.flatMap_append, List.count_append, emits, List.count_nil] at this ⊢
      omega
    · intro p hp
      rcases hp with hp | hp
      · rcases List.mem_append.1 hp with hp | hp
        · exact h.ns p (Or.inl (by rw [hs]; simp [hp]))
        · exact h.ns p (Or.inl (by rw [hs]; simp [hp]))
      · exact h.ns p (Or.inr hp)
  | @doneNegative l r hp hs hw =>
    have := h.wg_eq
    rw [hs, hw] at this; simp at this
  | close hp hseeds hw hcl =>
    refine ⟨h.wg_eq, h.ok, ?_, h.conserve, ?_, h.ns⟩
    · intro _
      refine ⟨?_, hseeds⟩
      have := h.wg_eq
      rw [hw] at this
      exact List.length_eq_zero_iff.1 this.symm
    · intro r hr
      have := (h.res r hr).1
      rw [hcl] at this; cases this
  | deliver hp hcl hres =>
    refine ⟨h.wg_eq, h.ok, h.closed_imp, h.conserve, ?_, h.ns⟩
    intro r hr
    exact ⟨hcl, by simpa using hr.symm⟩

theorem reach_inv {seeds : List Work} (h : ∀ p ∈ seeds, noStuck p = true) {s : Sys} (hr : Reach (Sys.init seeds) s) :
    Inv (seeds.flatMap emits) s := by
  induction hr with
  | refl => exact inv_init seeds h
  | step _ st ih => exact inv_step ih st

/-! ### variant -/

def totalSize : List Work → Nat
  | [] => 0
  | w :: ws => size w + totalSize ws

theorem totalSize_append (a b : List Work) : totalSize (a ++ b) = totalSize a + totalSize b := by
  induction a with
  | nil => simp [totalSize]
  | cons w a ih => simp [totalSize, ih]; omega

/-- every step makes this smaller -/
def variant (s : Sys) : Nat :=
  totalSize s.procs + (totalSize s.seeds + s.seeds.length) + (if s.closed then 0 else 1) +
    (if s.result.isSome then 0 else 1) + (if s.panicked then 0 else 1)

theorem step_variant {s s' : Sys} (st : Step s s') : variant s' < variant s := by
  cases st with
  | @launch t ts hp hs => simp only [variant, hs, totalSize, List.length_cons]; omega
  | @spawn l r c k hp hs =>
    simp only [variant, hs, totalSize_append, totalSize, size]; omega
  | @send l r x hp hs hseeds hcl =>
    simp only [variant, hs, totalSize_append, totalSize, size]; omega
  | @sendClosed l r x hp hs hcl => simp only [variant, hp]; simp
  | @done l r hp hs hw => simp only [variant, hs, totalSize_append, totalSize, size]; omega
  | @doneNegative l r hp hs hw => simp only [variant, hp]; simp
  | close hp hseeds hw hcl => simp only [variant, hcl]; simp
  | deliver hp hcl hres => simp only [variant, hres]; simp

/-- a run of exactly `n` steps -/
inductive Run : Sys → Nat → Sys → Prop where
  | nil {s : Sys} : Run s 0 s
  | cons {s s' s'' : Sys} {n : Nat} : Step s s' → Run s' n s'' → Run s (n + 1) s''

theorem run_bounded {s s' : Sys} {n : Nat} (h : Run s n s') : n + variant s' ≤ variant s := by
  induction h with
  | nil => omega
  | cons st _ ih => have := step_variant st; omega

theorem run_reach {s₀ s s' : Sys} {n : Nat} (h0 : Reach s₀ s) (h : Run s n s') : Reach s₀ s' := by
  induction h with
  | nil => exact h0
  | cons st _ ih => exact ih (Reach.step h0 st)

/-- no infinite run -/
theorem no_infinite_run (f : Nat → Sys) (h : ∀ i, Step (f i) (f (i + 1))) : False := by
  have hv : ∀ i, variant (f i) + i ≤ variant (f 0) := by
    intro i
    induction i with
    | zero => omega
    | succ i ih => have := step_variant (h i); omega
  have := hv (variant (f 0) + 1)
  omega

/-! ### progress -/

theorem progress {total : List Str} {s : Sys} (h : Inv total s) (hres : s.result = none) : ∃ s', Step s s' := by
  cases hs : s.seeds with
  | cons t ts => exact ⟨_, Step.launch h.ok hs⟩
  | nil =>
    cases hp : s.procs with
    | cons p ps =>
      have hp' : s.procs = [] ++ p :: ps := by simpa using hp
      cases p with
      | done => exact ⟨_, Step.done h.ok hp' (by rw [h.wg_eq, hp]; simp)⟩
      | send x =>
        have hcl : s.closed = false := by
          cases hc : s.closed with
          | false => rfl
          | true => have := (h.closed_imp hc).1; rw [hp] at this; cases this
        exact ⟨_, Step.send h.ok hp' hs hcl⟩
      | spawn c k => exact ⟨_, Step.spawn h.ok hp'⟩
      | stuck =>
        have := h.ns Work.stuck (Or.inl (by rw [hp]; exact List.mem_cons_self ..))
        cases this
    | nil =>
      have hw : s.wg = 0 := by rw [h.wg_eq, hp]; rfl
      cases hc : s.closed with
      | false => exact ⟨_, Step.close h.ok hs hw hc⟩
      | true => exact ⟨_, Step.deliver h.ok hc hres⟩

/-- a state without successor has delivered, and what it delivered is a permutation of all sends -/
theorem terminal_delivers {total : List Str} {s : Sys} (h : Inv total s) (hmax : ∀ s', ¬ Step s s') :
    ∃ r, s.result = some r ∧ r.Perm total := by
  cases hres : s.result with
  | none => obtain ⟨s', st⟩ := progress h hres; exact absurd st (hmax s')
  | some r =>
    obtain ⟨hc, rfl⟩ := h.res r hres
    obtain ⟨h1, h2⟩ := h.closed_imp hc
    refine ⟨_, rfl, ?_⟩
    have := h.conserve
    simpa [pending, h1, h2] using this

/-- once the channel is closed nothing is pending, and the received list is complete -/
theorem closed_complete {total : List Str} {s : Sys} (h : Inv total s) (hc : s.closed = true) :
    pending s = [] ∧ s.recvd.Perm total := by
  obtain ⟨h1, h2⟩ := h.closed_imp hc
  have := h.conserve
  constructor
  · simp [pending, h1, h2]
  · simpa [pending, h1, h2] using this

end PolyVerif.Ligate
