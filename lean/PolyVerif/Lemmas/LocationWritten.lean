import PolyVerif.Lemmas.LocationRep
/-
Helper lemmas for C02 / C03, part 9: the parser on the text that BuildLocationString WRITES.
`parseLocF_tprint w`: for both text styles (`w = false` canonical `a..>b`; `w = true` the writer's
`a..b>`), `parseLocation (tprint w l) = ok (pembedT w l)`, the assembled structure with the flags
of that text on its inner nodes.  With `buildLoc_rep` this gives read-after-write at the level of
STRUCTURES: `parseLocation (buildLoc p)` represents the same location with the same partial ends.
Leaves are also treated over arbitrary `Int` coordinates (`parse_written_leaf`: `-4..3`, `1..0`).
-/
namespace PolyVerif.Lemmas.Location
open PolyVerif PolyVerif.Location PolyVerif.Insdc

/-! ### numerals of arbitrary ints -/

def IntText (s : Str) : Prop := ∀ c ∈ s, isDig c = true ∨ c = '-'

theorem itoaInt_intText : ∀ (z : Int), IntText (itoaInt z)
  | .ofNat n => fun c hc => Or.inl (itoa_digits n c hc)
  | .negSucc n => by
    intro c hc
    simp only [itoaInt, List.mem_cons] at hc
    rcases hc with h | h
    · exact Or.inr h
    · exact Or.inl (itoa_digits _ c h)

theorem atoi_itoaInt : ∀ (z : Int), atoi (itoaInt z) = z
  | .ofNat n => atoi_itoa n
  | .negSucc n => by
    simp only [itoaInt, atoi, if_true, digitsOr0_itoa]
    rw [Int.negSucc_eq]
    omega

theorem intText_clean {s : Str} (h : IntText s) :
    ∀ c ∈ s, c ≠ '<' ∧ c ≠ '>' ∧ c ≠ '.' ∧ c ≠ '(' ∧ c ≠ ')' ∧ c ≠ ',' := by
  intro c hc
  rcases h c hc with hd | rfl
  · have := isDig_ne hd
    exact ⟨this.2.2.1, this.2.2.2.1, this.2.2.2.2.1, this.2.2.2.2.2.1, this.2.2.2.2.2.2.1, this.2.2.2.2.2.2.2.1⟩
  · decide

theorem stripMarks_clean {s : Str} (h : ∀ c ∈ s, c ≠ '<' ∧ c ≠ '>') : stripMarks s = s := by
  unfold stripMarks
  rw [List.filter_eq_self]
  intro c hc
  have := h c hc
  simp [this.1, this.2]

theorem stripMarks_mark_lt (lt : Bool) : stripMarks (if lt then ['<'] else []) = [] := by
  cases lt <;> rfl
theorem stripMarks_mark_gt (gt : Bool) : stripMarks (if gt then ['>'] else []) = [] := by
  cases gt <;> rfl

theorem stripMarks_append (a b : Str) : stripMarks (a ++ b) = stripMarks a ++ stripMarks b := by
  simp [stripMarks]

theorem finish_leaf' (s : Str) (start stop : Int) :
    finish s { start := start, stop := stop } =
      .ok { start := start, stop := stop, five := hasChar '<' s, three := hasChar '>' s } := by
  unfold finish
  cases h1 : hasChar '<' s <;> cases h2 : hasChar '>' s <;> simp <;> (intro _ _; rfl)

/-- the text BuildLocationString writes for a leaf, any coordinates -/
def leafText (start stop : Int) (five three : Bool) : Str :=
  (if five then ['<'] else []) ++ (itoaInt (start + 1) ++ ['.', '.'] ++ itoaInt stop) ++ (if three then ['>'] else [])

theorem buildLoc_leaf (start stop : Int) (five three : Bool) :
    buildLoc ⟨start, stop, false, false, five, three, []⟩ = leafText start stop five three := by
  rw [buildLoc.eq_def]
  simp [leafText]

/-- the parser reads a written leaf back, whatever its coordinates (`-4..3`, `1..0`, `0..0`) -/
theorem parse_written_leaf (f : Nat) (start stop : Int) (five three : Bool) :
    parseLocF (f + 1) (leafText start stop five three) = .ok ⟨start, stop, false, false, five, three, []⟩ := by
  have ca := intText_clean (itoaInt_intText (start + 1))
  have cb := intText_clean (itoaInt_intText stop)
  have e : leafText start stop five three =
      ((if five then ['<'] else []) ++ itoaInt (start + 1)) ++ '.' :: '.' :: (itoaInt stop ++ (if three then ['>'] else [])) := by
    simp [leafText]
  have hmem : ∀ c ∈ leafText start stop five three,
      c = '<' ∨ c = '>' ∨ c = '.' ∨ c ∈ itoaInt (start + 1) ∨ c ∈ itoaInt stop := by
    intro c hc
    rw [e] at hc
    simp only [List.mem_append, List.mem_cons] at hc
    rcases hc with (h | h) | h | h | h | h
    · cases five <;> simp at h; exact Or.inl h
    · exact Or.inr (Or.inr (Or.inr (Or.inl h)))
    · exact Or.inr (Or.inr (Or.inl h))
    · exact Or.inr (Or.inr (Or.inl h))
    · exact Or.inr (Or.inr (Or.inr (Or.inr h)))
    · cases three <;> simp at h; exact Or.inr (Or.inl h)
  have hopen : hasChar '(' (leafText start stop five three) = false := by
    apply hasChar_false
    intro hm
    rcases hmem _ hm with h | h | h | h | h
    · revert h; decide
    · revert h; decide
    · revert h; decide
    · exact (ca _ h).2.2.2.1 rfl
    · exact (cb _ h).2.2.2.1 rfl
  have hdot : hasChar '.' (leafText start stop five three) = true := by
    apply hasChar_true; rw [e]; simp
  have hl : hasChar '<' (leafText start stop five three) = five := by
    have h1 : '<' ∉ itoaInt (start + 1) := fun h => (ca _ h).1 rfl
    have h2 : '<' ∉ itoaInt stop := fun h => (cb _ h).1 rfl
    rw [e]
    cases five <;> cases three <;> simp [hasChar, h1, h2]
  have hg : hasChar '>' (leafText start stop five three) = three := by
    have h1 : '>' ∉ itoaInt (start + 1) := fun h => (ca _ h).2.1 rfl
    have h2 : '>' ∉ itoaInt stop := fun h => (cb _ h).2.1 rfl
    rw [e]
    cases five <;> cases three <;> simp [hasChar, h1, h2]
  have hsplit : splitDots (leafText start stop five three) =
      ((if five then ['<'] else []) ++ itoaInt (start + 1), [itoaInt stop ++ (if three then ['>'] else [])]) := by
    rw [e]
    have h1 : '.' ∉ itoaInt (start + 1) := fun h => (ca _ h).2.2.1 rfl
    have h2 : '.' ∉ itoaInt stop := fun h => (cb _ h).2.2.1 rfl
    exact splitDots_span _ _ (by cases five <;> simp [h1]) (by cases three <;> simp [h2])
  unfold parseLocF
  simp only [hopen, hdot, hsplit, Bool.not_false, Bool.not_true, if_true, Bool.false_eq_true, if_false]
  rw [stripMarks_append, stripMarks_append, stripMarks_mark_lt, stripMarks_mark_gt,
    stripMarks_clean (fun c hc => ⟨(ca c hc).1, (ca c hc).2.1⟩),
    stripMarks_clean (fun c hc => ⟨(cb c hc).1, (cb c hc).2.1⟩)]
  simp only [List.nil_append, List.append_nil, atoi_itoaInt]
  rw [finish_leaf', hl, hg]
  congr 2
  omega

/-! ### the structure parsed from a text in style `w` -/

/-- the flags the parser leaves on an inner node: a marker occurs in the node's text (style `w`) -/
def wText (w : Bool) : Loc → Bool × Bool := fun l => (hasChar '<' (tprint w l), hasChar '>' (tprint w l))

/-- the structure `parseLocation` builds from `tprint w l` -/
def pembedT (w : Bool) (l : Loc) : PLoc := embedW (wText w) l

theorem tprint_span_true (a b : Nat) (lt gt : Bool) :
    tprint true (.span a b lt gt) = leafText ((a : Int) - 1) b lt gt := by
  simp [tprint, leafText, itoaInt_natCast]

theorem parse_tspan (w : Bool) (f a b : Nat) (lt gt : Bool) (hb : b ≠ 0) :
    parseLocF (f + 1) (tprint w (.span a b lt gt)) = .ok (pembedT w (.span a b lt gt)) := by
  cases w
  · rw [tprint_false]
    exact parse_span f a b lt gt hb
  · rw [tprint_span_true, parse_written_leaf]
    rfl

theorem parse_tbase (w : Bool) (f n : Nat) (hn : n ≠ 0) :
    parseLocF (f + 1) (tprint w (.base n)) = .ok (pembedT w (.base n)) := by
  have : tprint w (.base n) = print (.base n) := by simp [tprint, print_base]
  rw [this]
  exact parse_base f n hn

theorem tspan_plain (w : Bool) (a b : Nat) (lt gt : Bool) : Plain (tprint w (.span a b lt gt)) := by
  cases w
  · rw [tprint_false]; exact span_plain a b lt gt
  · intro c hc
    simp only [tprint, if_true, List.mem_append, List.mem_cons, List.not_mem_nil, or_false] at hc
    have dig : ∀ n, c ∈ itoa n → c ≠ '(' ∧ c ≠ ')' ∧ c ≠ ',' := fun n h => by
      have := isDig_ne (itoa_digits n c h)
      exact ⟨this.2.2.2.2.2.1, this.2.2.2.2.2.2.1, this.2.2.2.2.2.2.2.1⟩
    rcases hc with h | (h | h | h) | h | h
    · cases lt <;> simp at h; subst h; decide
    · exact dig a h
    · subst h; decide
    · subst h; decide
    · exact dig b h
    · cases gt <;> simp at h; subst h; decide

theorem tbase_plain (w : Bool) (n : Nat) : Plain (tprint w (.base n)) := by
  have : tprint w (.base n) = print (.base n) := by simp [tprint, print_base]
  rw [this]; exact base_plain n

mutual
theorem splitTop_tprint (w : Bool) : ∀ (l : Loc) (d : Int) (rest : Str), 0 ≤ d →
    splitTop d (tprint w l ++ rest) = (tprint w l ++ (splitTop d rest).1, (splitTop d rest).2)
  | .span a b lt gt, d, rest, _ => splitTop_plain _ _ _ (tspan_plain w a b lt gt)
  | .base n, d, rest, _ => splitTop_plain _ _ _ (tbase_plain w n)
  | .join [], d, rest, _ => by
    simp only [tprint, List.append_assoc, List.cons_append, List.nil_append]
    rw [splitTop_txtJoin, splitTop_close]
    simp
  | .join (x :: xs), d, rest, hd => by
    have h1 := splitTop_tprint w x (d + 1) (tprintTail w xs ++ ')' :: rest) (by omega)
    have h2 := splitTop_tprintTail w xs (d + 1) (')' :: rest) (by omega)
    simp only [tprint, List.append_assoc, List.cons_append, List.nil_append]
    rw [splitTop_txtJoin, h1, h2, splitTop_close]
    simp
  | .compl x, d, rest, hd => by
    have h1 := splitTop_tprint w x (d + 1) (')' :: rest) (by omega)
    simp only [tprint, List.append_assoc, List.cons_append, List.nil_append]
    rw [splitTop_txtCompl, h1, splitTop_close]
    simp
theorem splitTop_tprintTail (w : Bool) : ∀ (xs : List Loc) (d : Int) (rest : Str), 1 ≤ d →
    splitTop d (tprintTail w xs ++ rest) = (tprintTail w xs ++ (splitTop d rest).1, (splitTop d rest).2)
  | [], d, rest, _ => by simp [tprintTail]
  | x :: xs, d, rest, hd => by
    have h1 := splitTop_tprint w x d (tprintTail w xs ++ rest) (by omega)
    have h2 := splitTop_tprintTail w xs d rest hd
    simp only [tprintTail, List.append_assoc, List.cons_append]
    rw [splitTop_comma_pos _ _ (by omega), h1, h2]
end

theorem splitTop_toperands (w : Bool) : ∀ (xs : List Loc) (x : Loc),
    splitTop 0 (tprint w x ++ tprintTail w xs) = (tprint w x, xs.map (tprint w))
  | [], x => by
    have := splitTop_tprint w x 0 [] (by omega)
    simpa [tprintTail, splitTop] using this
  | y :: ys, x => by
    have h1 := splitTop_tprint w x 0 (',' :: (tprint w y ++ tprintTail w ys)) (by omega)
    have h2 := splitTop_toperands w ys y
    simp only [tprintTail]
    rw [h1, splitTop_comma_zero, h2]
    simp

theorem tprint_join_cons (w : Bool) (x : Loc) (xs : List Loc) :
    tprint w (.join (x :: xs)) = kwJoin ++ '(' :: ((tprint w x ++ tprintTail w xs) ++ [')']) := by
  simp [tprint, txtJoin_eq]

theorem tprint_compl (w : Bool) (x : Loc) : tprint w (.compl x) = kwComplement ++ '(' :: (tprint w x ++ [')']) := by
  simp [tprint, txtCompl_eq]

mutual
/-- text in either style parses to the assembled structure with that text's flags on inner nodes -/
theorem parseLocF_tprint (w : Bool) : ∀ (l : Loc) (n f : Nat), inRange l n = true → arity l = true →
    (tprint w l).length < f → parseLocF f (tprint w l) = .ok (pembedT w l)
  | .span a b lt gt, n, f, hr, _, hf => by
    cases f with
    | zero => omega
    | succ f =>
      simp only [inRange, Bool.and_eq_true, decide_eq_true_eq] at hr
      exact parse_tspan w f a b lt gt (by omega)
  | .base k, n, f, hr, _, hf => by
    cases f with
    | zero => omega
    | succ f =>
      simp only [inRange, Bool.and_eq_true, decide_eq_true_eq] at hr
      exact parse_tbase w f k (by omega)
  | .join [], n, f, _, ha, _ => by simp [arity] at ha
  | .join (x :: xs), n, f, hr, ha, hf => by
    cases f with
    | zero => omega
    | succ f =>
      simp only [inRange, inRangeList, Bool.and_eq_true] at hr
      simp only [arity, arityList, Bool.and_eq_true] at ha
      have hlen : (tprint w (.join (x :: xs))).length = 4 + 1 + ((tprint w x).length + (tprintTail w xs).length + 1) := by
        simp only [tprint_join_cons, kwJoin, List.length_append, List.length_cons, List.length_nil]; omega
      have ihx := parseLocF_tprint w x n f hr.1 ha.2.1 (by omega)
      have ihxs := parseLocF_tprintList w xs n f hr.2 ha.2.2 (by omega)
      have fr := operator_frame kwJoin (tprint w x ++ tprintTail w xs) (by decide)
      simp only [pembedT, embedW, embedWList, wText]
      rw [tprint_join_cons]
      unfold parseLocF
      simp only [fr.1, fr.2.1, fr.2.2, Bool.not_true, Bool.false_eq_true, if_false, Outcome.bind, if_true,
        splitTopList, splitTop_toperands, mapOutcome, ihx, ihxs, finish_join, pembedT]
  | .compl x, n, f, hr, ha, hf => by
    cases f with
    | zero => omega
    | succ f =>
      simp only [inRange] at hr
      simp only [arity] at ha
      have hlen : (tprint w (.compl x)).length = 10 + 1 + ((tprint w x).length + 1) := by
        simp only [tprint_compl, kwComplement, List.length_append, List.length_cons, List.length_nil]; omega
      have ihx := parseLocF_tprint w x n f hr ha (by omega)
      have fr := operator_frame kwComplement (tprint w x) (by decide)
      have hne : kwComplement ≠ kwJoin := by decide
      simp only [pembedT, embedW, wText]
      rw [tprint_compl]
      unfold parseLocF
      simp only [fr.1, fr.2.1, fr.2.2, Bool.not_true, Bool.false_eq_true, if_false, Outcome.bind, if_true,
        hne, ihx, pembedT]
      cases hc : (embedW (wText w) x).complement
      · simp only [Bool.false_eq_true, if_false, finish_compl]
      · simp only [if_true, finish_wrapper]
theorem parseLocF_tprintList (w : Bool) : ∀ (xs : List Loc) (n f : Nat), inRangeList xs n = true →
    arityList xs = true → (tprintTail w xs).length ≤ f →
    mapOutcome (parseLocF f) (xs.map (tprint w)) = .ok (embedWList (wText w) xs)
  | [], _, _, _, _, _ => rfl
  | x :: xs, n, f, hr, ha, hf => by
    simp only [inRangeList, Bool.and_eq_true] at hr
    simp only [arityList, Bool.and_eq_true] at ha
    rw [length_tprintTail_cons] at hf
    have ihx := parseLocF_tprint w x n f hr.1 ha.1 (by omega)
    have ihxs := parseLocF_tprintList w xs n f hr.2 ha.2 (by omega)
    simp only [List.map_cons, mapOutcome, ihx, ihxs, Outcome.bind, embedWList, pembedT]
end

theorem parseLocation_tprint (w : Bool) (l : Loc) (n : Nat) (hr : inRange l n = true) (ha : arity l = true) :
    parseLocation (tprint w l) = .ok (pembedT w l) :=
  parseLocF_tprint w l n _ hr ha (Nat.lt_succ_self _)

/-! ### read after write -/

mutual
/-- the structure of `norm l` (single bases as `n..n`) is a structure of `l` -/
theorem embedW_norm (w : Loc → Bool × Bool) : ∀ (l : Loc), embedW w (norm l) = embedW (fun x => w (norm x)) l
  | .span _ _ _ _ => rfl
  | .base n => by simp [norm, embedW]
  | .join xs => by simp [norm, embedW, embedWList_norm w xs]
  | .compl x => by simp [norm, embedW, embedW_norm w x]
theorem embedWList_norm (w : Loc → Bool × Bool) : ∀ (xs : List Loc),
    embedWList w (normList xs) = embedWList (fun x => w (norm x)) xs
  | [] => rfl
  | x :: xs => by simp [normList, embedWList, embedW_norm w x, embedWList_norm w xs]
end

/-- Writing any structure that represents `l` and parsing the written text gives a structure that
represents `l` again, with the same partial ends. -/
theorem parse_buildLoc_rep {p : PLoc} {l : Loc} (hp : Rep p l) (n : Nat) (hr : inRange l n = true)
    (ha : arity l = true) :
    ∃ q, parseLocation (buildLoc p) = .ok q ∧ Rep q l ∧ pends q = pends p := by
  refine ⟨pembedT true (norm l), ?_, ?_, ?_⟩
  · rw [buildLoc_rep hp ha]
    exact parseLocation_tprint true (norm l) n (inRange_norm l n hr) (arity_norm l ha)
  · simp only [pembedT]
    rw [embedW_norm]
    exact rep_embedW _ l ha
  · simp only [pembedT]
    rw [embedW_norm, pends_embedW _ l ha, pends_rep hp ha]

end PolyVerif.Lemmas.Location
