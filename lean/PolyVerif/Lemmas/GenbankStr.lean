import PolyVerif.Base.Str
/-
General string lemmas for C01/C03: `contains` as the infix relation, separators, trimming.
-/
namespace PolyVerif.Lemmas.Genbank
open PolyVerif PolyVerif.Str

/-! ### isPrefixOf -/

theorem isPrefixOf_iff {a b : Str} : a.isPrefixOf b = true ↔ a <+: b := List.isPrefixOf_iff_prefix

/-- a pattern without the separator cannot see past it -/
theorem isPrefixOf_append_sep (c : Char) (lit a rest : Str) (h : c ∉ lit) :
    lit.isPrefixOf (a ++ c :: rest) = lit.isPrefixOf a := by
  induction lit generalizing a with
  | nil => simp
  | cons x xs ih =>
    have hx : x ≠ c := fun e => h (by simp [e])
    have hxs : c ∉ xs := fun e => h (by simp [e])
    cases a with
    | nil => simp [List.isPrefixOf, hx]
    | cons y ys => simp only [List.cons_append, List.isPrefixOf]; rw [ih ys hxs]

theorem isPrefixOf_spaces_append (w : Str) (c : Char) (hc : c ≠ ' ') (n : Nat) (rest : Str) :
    (c :: w).isPrefixOf (spaces (n + 1) ++ rest) = false := by
  simp [spaces, List.replicate_succ, List.isPrefixOf, hc]

/-! ### contains -/

theorem contains_iff {s lit : Str} : contains s lit = true ↔ lit <:+: s := by
  induction s with
  | nil =>
    simp only [contains, isPrefixOf_iff]
    constructor
    · intro h; exact h.isInfix
    · intro h; have := List.infix_nil.mp h; subst this; exact List.prefix_refl _
  | cons c cs ih =>
    simp only [contains, Bool.or_eq_true, isPrefixOf_iff, ih]
    constructor
    · rintro (h | h)
      · exact h.isInfix
      · exact h.trans (List.suffix_cons c cs).isInfix
    · intro h
      rcases List.infix_cons_iff.mp h with h | h
      · exact Or.inl h
      · exact Or.inr h

theorem contains_false_iff {s lit : Str} : contains s lit = false ↔ ¬ lit <:+: s := by
  rw [← contains_iff]; simp

/-- a text that lacks a part of a pattern lacks the pattern -/
theorem contains_false_of_part {s lit part : Str} (hp : part <:+: lit) (h : contains s part = false) :
    contains s lit = false := by
  rw [contains_false_iff] at *
  exact fun hl => h (hp.trans hl)

/-- a pattern with a character of a class that the text does not have -/
theorem contains_false_of_class (p : Char → Bool) {s lit : Str} (hl : ∃ c ∈ lit, p c = true)
    (hs : ∀ c ∈ s, p c = false) : contains s lit = false := by
  rw [contains_false_iff]
  intro h
  obtain ⟨c, hc, hpc⟩ := hl
  have := hs c (h.subset hc)
  simp [hpc] at this

theorem contains_nil_lit (lit : Str) (h : lit ≠ []) : contains [] lit = false := by
  cases lit with
  | nil => exact absurd rfl h
  | cons x xs => rfl

/-- separator lemma: a pattern without the separator lies on one side of it -/
theorem contains_append_sep (c : Char) (lit a rest : Str) (h : c ∉ lit) (hne : lit ≠ []) :
    contains (a ++ c :: rest) lit = (contains a lit || contains rest lit) := by
  induction a with
  | nil =>
    cases lit with
    | nil => exact absurd rfl hne
    | cons x xs =>
      have hx : x ≠ c := fun e => h (by simp [e])
      simp [contains, List.isPrefixOf, hx]
  | cons y ys ih =>
    simp only [List.cons_append, contains]
    rw [ih, ← List.cons_append, isPrefixOf_append_sep c lit (y :: ys) rest h, Bool.or_assoc]

theorem contains_spaces_append (lit : Str) (h : ' ' ∉ lit) (hne : lit ≠ []) (n : Nat) (rest : Str) :
    contains (spaces n ++ rest) lit = contains rest lit := by
  induction n with
  | zero => rfl
  | succ k ih =>
    have : spaces (k + 1) ++ rest = [] ++ ' ' :: (spaces k ++ rest) := by simp [spaces, List.replicate_succ]
    rw [this, contains_append_sep ' ' lit [] _ h hne, ih, contains_nil_lit lit hne]; rfl

/-- a token, a gap of blanks, the rest: a blank-free pattern lies in the token or in the rest -/
theorem contains_gap (lit t rest : Str) (n : Nat) (h : ' ' ∉ lit) (hne : lit ≠ []) :
    contains (t ++ (spaces (n + 1) ++ rest)) lit = (contains t lit || contains rest lit) := by
  have : t ++ (spaces (n + 1) ++ rest) = t ++ ' ' :: (spaces n ++ rest) := by simp [spaces, List.replicate_succ]
  rw [this, contains_append_sep ' ' lit t _ h hne, contains_spaces_append lit h hne]

/-- a pattern that starts with a blank followed by a non-blank: in `token gap rest` it can only
start at the last blank of the gap -/
theorem contains_gap_sp (w t rest : Str) (c : Char) (n : Nat) (hc : c ≠ ' ') (ht : ' ' ∉ t) :
    contains (t ++ (spaces (n + 1) ++ rest)) (' ' :: c :: w)
      = ((c :: w).isPrefixOf rest || contains rest (' ' :: c :: w)) := by
  induction t with
  | nil =>
    induction n with
    | zero => simp [spaces, contains, List.isPrefixOf]
    | succ k ih =>
      have : spaces (k + 1 + 1) ++ rest = ' ' :: (spaces (k + 1) ++ rest) := by simp [spaces, List.replicate_succ]
      simp only [List.nil_append] at ih ⊢
      rw [this, contains, ih]
      have : (' ' :: c :: w).isPrefixOf (' ' :: (spaces (k + 1) ++ rest)) = false := by
        simp only [List.isPrefixOf]; rw [isPrefixOf_spaces_append w c hc]; simp
      rw [this]; rfl
  | cons y ys ih =>
    have hy : y ≠ ' ' := fun e => ht (by simp [e])
    have hys : ' ' ∉ ys := fun e => ht (by simp [e])
    simp only [List.cons_append, contains]
    rw [ih hys]
    have : (' ' :: c :: w).isPrefixOf (y :: (ys ++ (spaces (n + 1) ++ rest))) = false := by
      simp [List.isPrefixOf, Ne.symm hy]
    rw [this]; rfl

/-- `u ++ " "` is a prefix of `token ++ " " ++ …` exactly when `u` is the token (both blank-free) -/
theorem isPrefixOf_token (u t rest : Str) (hu : ' ' ∉ u) (ht : ' ' ∉ t) :
    (u ++ [' ']).isPrefixOf (t ++ ' ' :: rest) = (u == t) := by
  induction u generalizing t with
  | nil =>
    cases t with
    | nil => simp [List.isPrefixOf]
    | cons y ys =>
      have hy : y ≠ ' ' := fun e => ht (by simp [e])
      simp [List.isPrefixOf, Ne.symm hy]
  | cons x xs ih =>
    have hx : x ≠ ' ' := fun e => hu (by simp [e])
    have hxs : ' ' ∉ xs := fun e => hu (by simp [e])
    cases t with
    | nil => simp [List.isPrefixOf, hx]
    | cons y ys =>
      have hys : ' ' ∉ ys := fun e => ht (by simp [e])
      simp only [List.cons_append, List.isPrefixOf, ih ys hxs hys]
      by_cases hxy : x = y <;> simp [hxy]

/-- a pattern containing a blank is not a prefix of a blank-free text -/
theorem isPrefixOf_false_of_mem (c : Char) (w t : Str) (hw : c ∈ w) (ht : c ∉ t) : w.isPrefixOf t = false := by
  cases h : w.isPrefixOf t with
  | false => rfl
  | true => exact absurd ((isPrefixOf_iff.mp h).subset hw) ht

/-! ### trimSpace -/

theorem dropWhile_of_head {p : Char → Bool} {c : Char} {s : Str} (h : p c = false) :
    (c :: s).dropWhile p = c :: s := by simp [List.dropWhile, h]

/-- a text whose first and last characters are not white space is its own `TrimSpace` -/
theorem trimSpace_id (s : Str) (h1 : ∀ c, s.head? = some c → isSpace c = false)
    (h2 : ∀ c, s.getLast? = some c → isSpace c = false) : trimSpace s = s := by
  cases s with
  | nil => rfl
  | cons x xs =>
    have hx := h1 x rfl
    simp only [trimSpace, trimLeftSpace, dropWhile_of_head hx, trimRightSpace]
    have hr : (x :: xs).reverse ≠ [] := by simp
    cases hrev : (x :: xs).reverse with
    | nil => exact absurd hrev hr
    | cons y ys =>
      have hl : (x :: xs).getLast? = some y := by
        rw [← List.head?_reverse, hrev]; rfl
      rw [dropWhile_of_head (h2 y hl), ← hrev, List.reverse_reverse]

theorem trimSpace_nil : trimSpace [] = [] := rfl

/-- blanks on both sides are removed -/
theorem trimSpace_spaces (n m : Nat) (s : Str) (h1 : ∀ c, s.head? = some c → isSpace c = false)
    (h2 : ∀ c, s.getLast? = some c → isSpace c = false) : trimSpace (spaces n ++ s ++ spaces m) = s := by
  have hsp : isSpace ' ' = true := by decide
  have hL : ∀ (k : Nat) (r : Str), (spaces k ++ r).dropWhile isSpace = r.dropWhile isSpace := by
    intro k r
    induction k with
    | zero => rfl
    | succ j ih => simp [spaces, List.replicate_succ, hsp] at ih ⊢
  cases s with
  | nil =>
    simp only [List.append_nil, trimSpace, trimLeftSpace, trimRightSpace]
    have : spaces n ++ spaces m = spaces (n + m) ++ [] := by simp [spaces, List.replicate_append_replicate]
    rw [this, hL]; rfl
  | cons x xs =>
    have := trimSpace_id (x :: xs) h1 h2
    simp only [trimSpace, trimLeftSpace, trimRightSpace] at this ⊢
    have hrev : (x :: (xs ++ spaces m)).reverse = spaces m ++ (x :: xs).reverse := by
      simp [spaces, List.reverse_append]
    rw [List.append_assoc, hL, List.cons_append, dropWhile_of_head (h1 x rfl), hrev, hL]
    rw [dropWhile_of_head (h1 x rfl)] at this
    exact this

end PolyVerif.Lemmas.Genbank
