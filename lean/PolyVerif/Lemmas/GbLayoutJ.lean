import PolyVerif.Lemmas.GbCompose
/-
C03: the layout clause on the judge's domain minus the two known findings — metadata may hold runs of
blanks as long as none of them falls on a wrap point.  The section lemmas of GbLayout / GbCompose are
re-derived from the facts they really use (`Facts`): "what is read back from the wrapped block is the
text" instead of "the text is single-spaced".
-/
namespace PolyVerif.Lemmas.GbLayoutJ
open PolyVerif PolyVerif.StrBuild PolyVerif.GenbankBuild PolyVerif.Spec.GbStrict
open PolyVerif.Lemmas.GbBuild PolyVerif.Lemmas.GbLayout PolyVerif.Lemmas.GbOrigin PolyVerif.Lemmas.GbLocus
open PolyVerif.Lemmas.GbCompose

theorem readBack_eq_readText (t : Str) : readBack t = readText t := rfl

/-! ### the number of a REFERENCE line, for any range -/

/-- after a run of blanks (nothing of a word read yet) the output is empty or begins with a blank or a newline -/
theorem wrapGo_blank_head (lim : Nat) : ∀ (rest : Str) (current : Nat) (sp : Str), Plain rest → (∀ c ∈ sp, c = ' ') →
    sp ≠ [] → wrapGo lim current [] sp rest = [] ∨ ∃ c o, wrapGo lim current [] sp rest = c :: o ∧ (c = ' ' ∨ c = '\n')
  | [], current, sp, _, hsp, hne => by
    unfold wrapGo
    simp only [List.length_nil, if_true]
    split
    · right
      cases hr : sp.reverse with
      | nil => exact absurd (List.reverse_eq_nil_iff.mp hr) hne
      | cons c o =>
        refine ⟨c, o, rfl, Or.inl (hsp c ?_)⟩
        have : c ∈ sp.reverse := by rw [hr]; exact List.mem_cons_self
        exact List.mem_reverse.mp this
    · exact Or.inl rfl
  | c :: rest, current, sp, hpl, hsp, hne => by
    have hc : isSpace c = true → c = ' ' := hpl c List.mem_cons_self
    have hrest : Plain rest := fun d hd => hpl d (List.mem_cons_of_mem _ hd)
    have hnl : c ≠ '\n' := fun h => by
      have := hc (h ▸ isSpace_nl)
      rw [h] at this
      exact absurd this (by decide)
    unfold wrapGo
    rw [if_neg hnl]
    by_cases hs : isSpace c = true
    · rw [if_pos hs, if_neg (by simpa [List.length_eq_zero_iff] using hne)]
      exact wrapGo_blank_head lim rest current (c :: sp) hrest
        (by intro d hd; rcases List.mem_cons.mp hd with rfl | hd; exact hc hs; exact hsp d hd) (by simp)
    · rw [if_neg hs]
      split
      · exact Or.inr ⟨'\n', _, rfl, Or.inr rfl⟩
      · obtain ⟨sep, o, e, hsep, _⟩ := wrapGo_pending lim rest current [c] sp hrest hsp hne (by simp)
        right
        rw [e]
        rcases hsep with rfl | rfl
        · cases hr : sp.reverse with
          | nil => exact absurd (List.reverse_eq_nil_iff.mp hr) hne
          | cons d o' =>
            refine ⟨d, o' ++ o, rfl, Or.inl (hsp d ?_)⟩
            have : d ∈ sp.reverse := by rw [hr]; exact List.mem_cons_self
            exact List.mem_reverse.mp this
        · exact ⟨'\n', o, rfl, Or.inr rfl⟩

theorem trimRight_blank_head (r : Str) : trimRight (' ' :: r) = [] ∨ ∃ r', trimRight (' ' :: r) = ' ' :: r' := by
  have hp := trimRight_prefix (' ' :: r)
  cases h : trimRight (' ' :: r) with
  | nil => exact Or.inl rfl
  | cons a u =>
    rw [h] at hp
    have := (List.cons_prefix_cons.mp hp).1
    exact Or.inr ⟨u, by rw [this]⟩

theorem trimRight_cons_nonblank {c : Char} (hc : c ≠ ' ') (s : Str) : trimRight (c :: s) = c :: trimRight s := by
  unfold trimRight
  rw [List.reverse_cons, List.dropWhile_append]
  split
  · rename_i he
    have : List.dropWhile (· == ' ') s.reverse = [] := List.isEmpty_iff.mp he
    simp [this, hc]
  · simp

theorem trimRight_word_append : ∀ (w : Str), (∀ c ∈ w, c ≠ ' ') → ∀ b : Str, trimRight (w ++ b) = w ++ trimRight b
  | [], _, _ => rfl
  | c :: w, h, b => by
    rw [List.cons_append, trimRight_cons_nonblank (h c List.mem_cons_self),
      trimRight_word_append w (fun d hd => h d (List.mem_cons_of_mem _ hd)) b]
    rfl

/-- the number of the REFERENCE line is read back whatever the range is -/
theorem reference_num (num : Str) (hnum : isWord num = true) (range : Str) (hr : Plain range) :
    (readText (num ++ "  ".toList ++ range)).takeWhile (· != ' ') = num := by
  have hvis : ∀ c ∈ num, visible c = true := by
    simp only [isWord, Bool.and_eq_true, List.all_eq_true] at hnum
    exact hnum.2
  have hsp : ∀ c ∈ num, isSpace c = false := fun c hc => isSpace_of_visible (hvis c hc)
  have hnb : ∀ c ∈ num, c ≠ ' ' := fun c hc => visible_ne_blank (hvis c hc)
  have hnn : NoNl num := fun c hc => visible_ne_nl (hvis c hc)
  have two : "  ".toList = [' ', ' '] := by decide
  unfold readText textOf
  rw [joinSp_lines, wrapString, List.append_assoc, wrapGo_word 68 _ [] _ hsp, two]
  simp only [List.append_nil, List.cons_append, List.nil_append]
  rw [wrapGo_blank_flush, wrapGo_blank_more]
  simp only [List.reverse_reverse, List.length_reverse]
  rw [denl_append, denl_noNl hnn, trimRight_word_append num hnb]
  rcases wrapGo_blank_head 68 range (0 + num.length) [' ', ' '] hr (by simp) (by simp) with h | ⟨c, o, h, hc⟩
  · rw [h]
    simp [denl, trimRight, (takeWhile_nonblank_self hnb).1]
  · rw [h]
    have hd : denl (c :: o) = ' ' :: denl o := by
      rcases hc with rfl | rfl <;> simp [denl]
    rw [hd]
    rcases trimRight_blank_head (denl o) with e | ⟨r', e⟩
    · rw [e]; simp [(takeWhile_nonblank_self hnb).1]
    · rw [e]; exact (takeWhile_nonblank_append hnb r').1

/-! ### what the layout proof really uses -/

/-- a reference at position `i` -/
def RefFacts (i : Nat) (r : Reference) : Prop :=
  (r.index == [] || isWord r.index) = true ∧ Plain r.range ∧ readBackRange (refNum i r) r.range = r.range
    ∧ readText r.authors = r.authors ∧ readText r.title = r.title ∧ readText r.journal = r.journal
    ∧ readText r.pubMed = r.pubMed ∧ readText r.remark = r.remark

def RefsFacts : Nat → List Reference → Prop
  | _, [] => True
  | i, r :: rs => RefFacts i r ∧ RefsFacts (i + 1) rs

structure Facts (x : Sequence) : Prop where
  locus : wfLocus x.metadata.locus = true
  definition : readText x.metadata.definition = x.metadata.definition
  accession : readText x.metadata.accession = x.metadata.accession
  version : readText x.metadata.version = x.metadata.version
  keywords : readText x.metadata.keywords = x.metadata.keywords
  source : readText x.metadata.source = x.metadata.source
  organism : readText x.metadata.organism = x.metadata.organism
  refs : RefsFacts 0 x.metadata.references
  otherKeys : ∀ kv ∈ x.metadata.other, isWord kv.1 = true ∧ kv.1.length ≤ 12 ∧ reservedKeys.contains kv.1 = false
  otherVals : ∀ kv ∈ x.metadata.other, readText kv.2 = kv.2
  feats : x.features.all wfFeature = true
  seqNe : x.sequence ≠ []
  seqLetters : x.sequence.all isLetter = true
  seqLen : x.sequence.length < 10 ^ 9

theorem mkBlock_reference' (num : Str) (hnum : isWord num = true) (range : Str) (hr : Plain range)
    (hb : readBackRange num range = range) (subs : List (Str × Str)) :
    mkBlock "REFERENCE".toList (readText (num ++ "  ".toList ++ range)) subs =
      { key := "REFERENCE".toList, num := num, text := range, subs := subs } := by
  have hn := reference_num num hnum range hr
  have ht : trimLeft ((readText (num ++ "  ".toList ++ range)).dropWhile (· != ' ')) = range := by
    unfold readBackRange mkBlock at hb
    rw [if_pos rfl] at hb
    exact hb
  unfold mkBlock
  rw [if_pos rfl, hn, ht]

theorem map_optSub' (k : String) {v : Str} (h : readText v = v) :
    (optSub k v).map (fun kd => (kd.1, readText kd.2)) = optSub k v := by
  unfold optSub
  split
  · simp [h]
  · rfl

theorem specBlock_refs' : ∀ (refs : List Reference) (i : Nat), RefsFacts i refs →
    (refSpecs i refs).map specBlock = absRefs i refs
  | [], _, _ => rfl
  | r :: rs, i, h => by
    obtain ⟨⟨h7, hpl, hbr, h2, h3, h4, h5, h6⟩, hrest⟩ := h
    simp only [refSpecs, absRefs, List.map_cons, specBlock, specBlock_refs' rs (i + 1) hrest]
    rw [mkBlock_reference' (refNum i r) (isWord_refNum i r h7) r.range hpl hbr]
    simp only [refSubs, List.map_append, map_optSub' _ h2, map_optSub' _ h3, map_optSub' _ h4, map_optSub' _ h5,
      map_optSub' _ h6]

theorem specBlock_other' (m : List (Str × Str)) : ∀ keys : List Str,
    (∀ k ∈ keys, k ≠ "REFERENCE".toList ∧ readText (lookupD m k) = lookupD m k) →
    (otherSpecs m keys).map specBlock = keys.map fun k => ({ key := k, text := lookupD m k } : SBlock)
  | [], _ => rfl
  | k :: keys, h => by
    have ih := specBlock_other' m keys (fun x hx => h x (List.mem_cons_of_mem _ hx))
    simp only [otherSpecs, List.map_cons, List.map_map] at ih ⊢
    rw [ih]
    obtain ⟨h1, h2⟩ := h k List.mem_cons_self
    simp [specBlock, mkBlock_other h1, h2]

theorem specBlock_plain' {k d : Str} (hk : k ≠ "REFERENCE".toList) (hd : readText d = d) :
    specBlock ⟨k, d, []⟩ = { key := k, text := d } := by
  unfold specBlock
  rw [mkBlock_other hk, hd]
  rfl

theorem specBlock_source' {d o : Str} (hd : readText d = d) (ho : readText o = o) :
    specBlock ⟨"SOURCE".toList, d, [("ORGANISM".toList, o)]⟩
      = { key := "SOURCE".toList, text := d, subs := [("ORGANISM".toList, o)] } := by
  unfold specBlock
  rw [mkBlock_other (k := "SOURCE".toList) (by decide), hd]
  simp only [List.map_cons, List.map_nil, ho]

theorem readText_nil : readText [] = [] := by decide

theorem other_facts (x : Sequence) (f : Facts x) :
    ∀ k ∈ sortStrings (x.metadata.other.map Prod.fst),
      (KeyOK k ∧ NoNl k ∧ k ≠ "REFERENCE".toList ∧ k ≠ "FEATURES".toList)
        ∧ readText (lookupD x.metadata.other k) = lookupD x.metadata.other k := by
  intro k hk
  have hmem : k ∈ x.metadata.other.map Prod.fst := (sortStrings_perm _).subset hk
  obtain ⟨kv, hm, rfl⟩ := List.mem_map.mp hmem
  obtain ⟨hw, hl, hres⟩ := f.otherKeys kv hm
  refine ⟨⟨keyOK_of_word hw hl, noNl_of_word hw, ?_, ?_⟩, ?_⟩
  · intro e; rw [e] at hres; revert hres; decide
  · intro e; rw [e] at hres; revert hres; decide
  · exact lookupD_prop (fun v => readText v = v) readText_nil _ f.otherVals _

theorem header_read' (x : Sequence) (f : Facts x) :
    readHeader (specsLines (headerSpecs x (sortStrings (x.metadata.other.map Prod.fst)))) = some (abs x).blocks := by
  have hof := other_facts x f
  unfold specsLines
  rw [readHeader_specs]
  · congr 1
    unfold headerSpecs abs
    simp only [List.map_append, List.map_cons, List.map_nil]
    rw [specBlock_plain' (k := "DEFINITION".toList) (by decide) f.definition,
      specBlock_plain' (k := "ACCESSION".toList) (by decide) f.accession,
      specBlock_plain' (k := "VERSION".toList) (by decide) f.version,
      specBlock_plain' (k := "KEYWORDS".toList) (by decide) f.keywords, specBlock_source' f.source f.organism,
      specBlock_refs' _ 0 f.refs,
      specBlock_other' _ _ (fun k hk' => ⟨(hof k hk').1.2.2.1, (hof k hk').2⟩)]
    simp only [sortedEntries, List.map_map, Function.comp_def]
  · intro b hb
    simp only [headerSpecs, List.mem_append, List.mem_cons, List.not_mem_nil, or_false] at hb
    rcases hb with (hb | hb) | hb
    · rcases hb with rfl | rfl | rfl | rfl | rfl
      · exact ⟨kDEF, by intro kd hkd; cases hkd⟩
      · exact ⟨kACC, by intro kd hkd; cases hkd⟩
      · exact ⟨kVER, by intro kd hkd; cases hkd⟩
      · exact ⟨kKEY, by intro kd hkd; cases hkd⟩
      · refine ⟨kSRC, ?_⟩
        intro kd hkd
        have : kd = ("ORGANISM".toList, x.metadata.organism) := List.mem_singleton.mp hkd
        rw [this]
        exact kORG
    · exact refs_OK _ 0 b hb
    · simp only [otherSpecs, List.mem_map] at hb
      obtain ⟨k, hk', rfl⟩ := hb
      exact ⟨(hof k hk').1.1, by intro kd hkd; cases hkd⟩

theorem header_lines_props' (x : Sequence) (f : Facts x) :
    ∀ l ∈ specsLines (headerSpecs x (sortStrings (x.metadata.other.map Prod.fst))),
      NoNl l ∧ keywordIs "FEATURES" l = false := by
  have hof := other_facts x f
  intro l hl
  unfold specsLines at hl
  obtain ⟨ls, hls, hl'⟩ := List.mem_flatten.mp hl
  obtain ⟨b, hb, rfl⟩ := List.mem_map.mp hls
  have hfine : SpecFine b := by
    simp only [headerSpecs, List.mem_append, List.mem_cons, List.not_mem_nil, or_false] at hb
    rcases hb with (hb | hb) | hb
    · rcases hb with rfl | rfl | rfl | rfl | rfl
      · exact plain_fine "DEFINITION".toList kDEF (by decide) (by decide) _
      · exact plain_fine "ACCESSION".toList kACC (by decide) (by decide) _
      · exact plain_fine "VERSION".toList kVER (by decide) (by decide) _
      · exact plain_fine "KEYWORDS".toList kKEY (by decide) (by decide) _
      · refine sub_fine "SOURCE".toList kSRC (by decide) (by decide) _ _ ?_
        intro kd hkd
        have : kd = ("ORGANISM".toList, x.metadata.organism) := List.mem_singleton.mp hkd
        rw [this]
        exact ⟨kORG, noNl_lit "ORGANISM".toList (by decide)⟩
    · exact refSpecs_fine _ 0 b hb
    · simp only [otherSpecs, List.mem_map] at hb
      obtain ⟨k, hk', rfl⟩ := hb
      obtain ⟨⟨h1, h2, _, h4⟩, _⟩ := hof k hk'
      exact And.intro (And.intro h1 (by intro kd hkd; cases hkd)) (And.intro h2 (And.intro (by intro kd hkd; cases hkd) h4))
  obtain ⟨hok, hk, hs, hne⟩ := hfine
  exact specLines_props b hok hk hs "FEATURES" ⟨'F', "EATURES".toList, by decide, by decide⟩ hne l hl'

theorem build_lines' (x : Sequence) (f : Facts x) :
    lines (build x MapOrders.id) =
      locusLine x.metadata.locus :: (specsLines (headerSpecs x (sortStrings (x.metadata.other.map Prod.fst)))
        ++ featHdr :: (featsLines (x.features.map fkOf) ++ "ORIGIN".toList
            :: (oLines 0 (chunks 60 x.sequence) ++ ["//".toList]))) := by
  obtain ⟨_, hfp⟩ := features_read x.features f.feats
  have hhp := header_lines_props' x f
  rw [build_as_lines, lines_unl_append, origin_lines x.sequence f.seqNe f.seqLetters]
  · simp only [List.append_assoc, List.cons_append, List.nil_append]
  · intro l hl
    simp only [List.mem_append, List.mem_cons, List.not_mem_nil, or_false] at hl
    rcases hl with (((hl | hl) | hl) | hl) | hl
    · rw [hl]; exact noNl_locusLine _ f.locus
    · exact (hhp l hl).1
    · rw [hl]; exact noNl_featHdr
    · exact (hfp l hl).1
    · rw [hl]; exact noNl_originKw

/-- the strict column reader recovers `abs x` whenever the facts hold -/
theorem strict_layout_of_facts (x : Sequence) (f : Facts x) :
    strictRead (build x MapOrders.id) = some (abs x) := by
  obtain ⟨ols, hol, hread, hnt⟩ := origin_section x.sequence f.seqNe f.seqLetters f.seqLen
  have hol' := origin_lines x.sequence f.seqNe f.seqLetters
  have hols : ols = oLines 0 (chunks 60 x.sequence) := by
    rw [hol] at hol'
    exact List.append_cancel_right hol'
  subst hols
  obtain ⟨hfr, hfp⟩ := features_read x.features f.feats
  have hhp := header_lines_props' x f
  unfold strictRead
  rw [build_lines' x f]
  simp only []
  rw [cutAt_append (keywordIs "FEATURES") _ featHdr _ (fun l hl => (hhp l hl).2) keywordIs_featHdr]
  simp only []
  rw [cutAt_append (keywordIs "ORIGIN") _ "ORIGIN".toList _ (fun l hl => (hfp l hl).2) keywordIs_origin]
  simp only []
  rw [cutAt_append (fun l => l == "//".toList) _ "//".toList [] (fun l hl => by simpa using hnt l hl) (by simp)]
  simp only [true_or, if_true]
  rw [locus_read _ f.locus, header_read' x f, hfr, hread]
  rfl

/-! ### the facts hold on the judge's domain minus the two known findings -/

theorem plain_of_textJ {t : Str} (h : textJ t = true) : Plain t := by
  simp only [textJ, Bool.and_eq_true, List.all_eq_true] at h
  intro c hc hsp
  have hp := h.1.1 c hc
  simp only [printable, Bool.and_eq_true, decide_eq_true_eq] at hp
  simp only [isSpace, Bool.or_eq_true, beq_iff_eq] at hsp
  rcases hsp with ((((((rfl | rfl) | rfl) | rfl) | rfl) | rfl) | rfl) | rfl
  · rfl
  all_goals (exfalso; revert hp; decide)

/-- the old domain is inside the new one: single-spaced metadata has no run of blanks at all -/
theorem facts_of_wfLayout (x : Sequence) (h : wfLayout x = true) : Facts x := by
  simp only [wfLayout, Bool.and_eq_true, bne_iff_ne, ne_eq, decide_eq_true_eq] at h
  obtain ⟨⟨⟨⟨⟨⟨⟨⟨⟨⟨⟨⟨⟨hlocus, hd⟩, ha⟩, hv⟩, hk⟩, hs⟩, ho⟩, hrefs⟩, _⟩, hother⟩, hfeat⟩, hne⟩, hlet⟩, hlen⟩ := h
  have refs : ∀ (rs : List Reference) (i : Nat), rs.all wfRef = true → RefsFacts i rs := by
    intro rs
    induction rs with
    | nil => intro _ _; trivial
    | cons r rs ih =>
      intro i hw
      simp only [List.all_cons, Bool.and_eq_true] at hw
      have hr := hw.1
      simp only [wfRef, Bool.and_eq_true] at hr
      obtain ⟨⟨⟨⟨⟨⟨h1, h2⟩, h3⟩, h4⟩, h5⟩, h6⟩, h7⟩ := hr
      have hpl : Plain r.range := by
        by_cases h0 : r.range = []
        · rw [h0]; intro c hc; cases hc
        · exact plain_of_spacedFrom _ false (by simpa [singleSpaced, h0] using h1)
      refine ⟨⟨h7, hpl, ?_, readText_singleSpaced h2, readText_singleSpaced h3, readText_singleSpaced h4,
        readText_singleSpaced h5, readText_singleSpaced h6⟩, ih (i + 1) hw.2⟩
      have := mkBlock_reference (refNum i r) (isWord_refNum i r h7) r.range h1 []
      unfold readBackRange
      rw [readBack_eq_readText, this]
  exact
    { locus := hlocus, definition := readText_singleSpaced hd, accession := readText_singleSpaced ha,
      version := readText_singleSpaced hv, keywords := readText_singleSpaced hk, source := readText_singleSpaced hs,
      organism := readText_singleSpaced ho, refs := refs _ 0 hrefs,
      otherKeys := fun kv hkv => by
        have := List.all_eq_true.mp hother kv hkv
        simp only [wfOther, Bool.and_eq_true, Bool.not_eq_true', decide_eq_true_eq] at this
        exact ⟨this.1.1.1.1, this.1.1.2, this.1.2⟩,
      otherVals := fun kv hkv => by
        have := List.all_eq_true.mp hother kv hkv
        simp only [wfOther, Bool.and_eq_true] at this
        exact readText_singleSpaced this.2,
      feats := hfeat, seqNe := hne, seqLetters := hlet, seqLen := by simpa using hlen }

/-! ### the EXACT result on the whole judge's domain (with a name): what is read back is `expectedBack x` -/

/-- a reference: the number is a word or unset, the range has no white space but blanks, a non-empty
sub-text is read back non-empty -/
def RefFacts0 (r : Reference) : Prop :=
  (r.index == [] || isWord r.index) = true ∧ Plain r.range
    ∧ (r.authors ≠ [] → readText r.authors ≠ []) ∧ (r.title ≠ [] → readText r.title ≠ [])
    ∧ (r.journal ≠ [] → readText r.journal ≠ []) ∧ (r.pubMed ≠ [] → readText r.pubMed ≠ [])
    ∧ (r.remark ≠ [] → readText r.remark ≠ [])

structure Facts0 (x : Sequence) : Prop where
  locus : wfLocus x.metadata.locus = true
  refs : ∀ r ∈ x.metadata.references, RefFacts0 r
  otherKeys : ∀ kv ∈ x.metadata.other, isWord kv.1 = true ∧ kv.1.length ≤ 12 ∧ reservedKeys.contains kv.1 = false
  feats : x.features.all wfFeature = true
  seqNe : x.sequence ≠ []
  seqLetters : x.sequence.all isLetter = true
  seqLen : x.sequence.length < 10 ^ 9

theorem refNum_ne_nil (i : Nat) (r : Reference) : refNum i r ≠ [] := by
  unfold refNum
  split
  · exact Location.itoa_ne_nil _
  · assumption

theorem refNum_idem (i : Nat) (r : Reference) (r' : Reference) (h : r'.index = refNum i r) : refNum i r' = refNum i r := by
  have hne := refNum_ne_nil i r
  rw [← h] at hne
  show (if r'.index = [] then Location.itoa (i + 1) else r'.index) = refNum i r
  rw [if_neg hne, h]

theorem map_optSub_exact (k : String) {v : Str} (h : v ≠ [] → readText v ≠ []) :
    (optSub k v).map (fun kd => (kd.1, readText kd.2)) = optSub k (readBack v) := by
  unfold optSub
  by_cases hv : v = []
  · subst hv
    simp [readBack_eq_readText, readText_nil]
  · have := h hv
    simp [hv, readBack_eq_readText, this]

theorem specBlock_refs_exact : ∀ (refs : List Reference) (i : Nat), (∀ r ∈ refs, RefFacts0 r) →
    (refSpecs i refs).map specBlock = absRefs i (lossyRefs i refs)
  | [], _, _ => rfl
  | r :: rs, i, h => by
    obtain ⟨h7, hpl, h2, h3, h4, h5, h6⟩ := h r List.mem_cons_self
    have hn := reference_num (refNum i r) (isWord_refNum i r h7) r.range hpl
    simp only [refSpecs, lossyRefs, absRefs, List.map_cons, specBlock,
      specBlock_refs_exact rs (i + 1) (fun q hq => h q (List.mem_cons_of_mem _ hq))]
    rw [refNum_idem i r (lossyRef i r) rfl]
    congr 1
    unfold mkBlock
    rw [if_pos rfl, hn]
    simp only [refSubs, List.map_append, map_optSub_exact _ h2, map_optSub_exact _ h3, map_optSub_exact _ h4,
      map_optSub_exact _ h5, map_optSub_exact _ h6]
    rfl

theorem lookupD_map (f : Str → Str) (hf : f [] = []) (m : List (Str × Str)) (k : Str) :
    lookupD (m.map fun kv => (kv.1, f kv.2)) k = f (lookupD m k) := by
  induction m with
  | nil => simp [lookupD, hf]
  | cons kv m ih =>
    obtain ⟨a, b⟩ := kv
    unfold lookupD at ih ⊢
    by_cases hk : (k == a) = true
    · simp [List.lookup, hk]
    · have hk' : (k == a) = false := by simpa using hk
      simp only [List.map_cons, List.lookup, hk']
      exact ih

theorem other_keys0 (x : Sequence) (f : Facts0 x) :
    ∀ k ∈ sortStrings (x.metadata.other.map Prod.fst),
      KeyOK k ∧ NoNl k ∧ k ≠ "REFERENCE".toList ∧ k ≠ "FEATURES".toList := by
  intro k hk
  have hmem : k ∈ x.metadata.other.map Prod.fst := (sortStrings_perm _).subset hk
  obtain ⟨kv, hm, rfl⟩ := List.mem_map.mp hmem
  obtain ⟨hw, hl, hres⟩ := f.otherKeys kv hm
  refine ⟨keyOK_of_word hw hl, noNl_of_word hw, ?_, ?_⟩
  · intro e; rw [e] at hres; revert hres; decide
  · intro e; rw [e] at hres; revert hres; decide

theorem specs_ok0 (x : Sequence) (f : Facts0 x) :
    ∀ b ∈ headerSpecs x (sortStrings (x.metadata.other.map Prod.fst)), SpecFine b := by
  have hof := other_keys0 x f
  intro b hb
  simp only [headerSpecs, List.mem_append, List.mem_cons, List.not_mem_nil, or_false] at hb
  rcases hb with (hb | hb) | hb
  · rcases hb with rfl | rfl | rfl | rfl | rfl
    · exact plain_fine "DEFINITION".toList kDEF (by decide) (by decide) _
    · exact plain_fine "ACCESSION".toList kACC (by decide) (by decide) _
    · exact plain_fine "VERSION".toList kVER (by decide) (by decide) _
    · exact plain_fine "KEYWORDS".toList kKEY (by decide) (by decide) _
    · refine sub_fine "SOURCE".toList kSRC (by decide) (by decide) _ _ ?_
      intro kd hkd
      have : kd = ("ORGANISM".toList, x.metadata.organism) := List.mem_singleton.mp hkd
      rw [this]
      exact ⟨kORG, noNl_lit "ORGANISM".toList (by decide)⟩
  · exact refSpecs_fine _ 0 b hb
  · simp only [otherSpecs, List.mem_map] at hb
    obtain ⟨k, hk', rfl⟩ := hb
    obtain ⟨h1, h2, _, h4⟩ := hof k hk'
    exact And.intro (And.intro h1 (by intro kd hkd; cases hkd)) (And.intro h2 (And.intro (by intro kd hkd; cases hkd) h4))

theorem header_read_exact (x : Sequence) (f : Facts0 x) :
    readHeader (specsLines (headerSpecs x (sortStrings (x.metadata.other.map Prod.fst))))
      = some (abs (expectedBack x)).blocks := by
  have hof := other_keys0 x f
  unfold specsLines
  rw [readHeader_specs _ (fun b hb => (specs_ok0 x f b hb).1)]
  congr 1
  have hother : (otherSpecs x.metadata.other (sortStrings (x.metadata.other.map Prod.fst))).map specBlock
      = (sortedEntries ((x.metadata.other.map fun kv => (kv.1, readBack kv.2)))).map fun kv => ({ key := kv.1, text := kv.2 } : SBlock) := by
    have hkeys : ((x.metadata.other.map fun kv => (kv.1, readBack kv.2)).map Prod.fst) = x.metadata.other.map Prod.fst := by
      simp [List.map_map, Function.comp_def]
    simp only [sortedEntries, hkeys, otherSpecs, List.map_map, Function.comp_def]
    apply List.map_congr_left
    intro k hk
    simp only [specBlock, List.map_nil]
    rw [mkBlock_other (hof k hk).2.2.1, lookupD_map readBack (by decide)]
    rfl
  unfold headerSpecs abs expectedBack
  simp only [List.map_append, List.map_cons, List.map_nil, hother, specBlock_refs_exact _ 0 f.refs]
  simp only [specBlock, List.map_cons, List.map_nil]
  rw [mkBlock_other (k := "DEFINITION".toList) (by decide), mkBlock_other (k := "ACCESSION".toList) (by decide),
    mkBlock_other (k := "VERSION".toList) (by decide), mkBlock_other (k := "KEYWORDS".toList) (by decide),
    mkBlock_other (k := "SOURCE".toList) (by decide)]
  rfl

theorem header_lines_props0 (x : Sequence) (f : Facts0 x) :
    ∀ l ∈ specsLines (headerSpecs x (sortStrings (x.metadata.other.map Prod.fst))),
      NoNl l ∧ keywordIs "FEATURES" l = false := by
  intro l hl
  unfold specsLines at hl
  obtain ⟨ls, hls, hl'⟩ := List.mem_flatten.mp hl
  obtain ⟨b, hb, rfl⟩ := List.mem_map.mp hls
  obtain ⟨hok, hk, hs, hne⟩ := specs_ok0 x f b hb
  exact specLines_props b hok hk hs "FEATURES" ⟨'F', "EATURES".toList, by decide, by decide⟩ hne l hl'

/-- **the exact result**: whatever runs of blanks the metadata holds, the strict column reader reads
back from `build x` exactly the record `expectedBack x` (each text as its wrapped lines re-join) -/
theorem strict_layout_exact (x : Sequence) (f : Facts0 x) :
    strictRead (build x MapOrders.id) = some (abs (expectedBack x)) := by
  obtain ⟨ols, hol, hread, hnt⟩ := origin_section x.sequence f.seqNe f.seqLetters f.seqLen
  have hol' := origin_lines x.sequence f.seqNe f.seqLetters
  have hols : ols = oLines 0 (chunks 60 x.sequence) := by
    rw [hol] at hol'
    exact List.append_cancel_right hol'
  subst hols
  obtain ⟨hfr, hfp⟩ := features_read x.features f.feats
  have hhp := header_lines_props0 x f
  have hlines : lines (build x MapOrders.id) =
      locusLine x.metadata.locus :: (specsLines (headerSpecs x (sortStrings (x.metadata.other.map Prod.fst)))
        ++ featHdr :: (featsLines (x.features.map fkOf) ++ "ORIGIN".toList
            :: (oLines 0 (chunks 60 x.sequence) ++ ["//".toList]))) := by
    rw [build_as_lines, lines_unl_append, origin_lines x.sequence f.seqNe f.seqLetters]
    · simp only [List.append_assoc, List.cons_append, List.nil_append]
    · intro l hl
      simp only [List.mem_append, List.mem_cons, List.not_mem_nil, or_false] at hl
      rcases hl with (((hl | hl) | hl) | hl) | hl
      · rw [hl]; exact noNl_locusLine _ f.locus
      · exact (hhp l hl).1
      · rw [hl]; exact noNl_featHdr
      · exact (hfp l hl).1
      · rw [hl]; exact noNl_originKw
  have hname : x.metadata.locus.name ≠ [] := by
    have := f.locus
    simp only [wfLocus, isWord, Bool.and_eq_true, bne_iff_ne, ne_eq] at this
    exact this.1.1.1.1.1
  unfold strictRead
  rw [hlines]
  simp only []
  rw [cutAt_append (keywordIs "FEATURES") _ featHdr _ (fun l hl => (hhp l hl).2) keywordIs_featHdr]
  simp only []
  rw [cutAt_append (keywordIs "ORIGIN") _ "ORIGIN".toList _ (fun l hl => (hfp l hl).2) keywordIs_origin]
  simp only []
  rw [cutAt_append (fun l => l == "//".toList) _ "//".toList [] (fun l hl => by simpa using hnt l hl) (by simp)]
  simp only [true_or, if_true]
  rw [locus_read _ f.locus, header_read_exact x f, hfr, hread]
  have hloc : (expectedBack x).metadata.locus = x.metadata.locus := by
    simp [expectedBack, hname]
  simp only [abs, hloc]
  rfl

end PolyVerif.Lemmas.GbLayoutJ
