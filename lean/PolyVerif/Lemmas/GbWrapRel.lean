import PolyVerif.Lemmas.GbBuild
/-
C03: the refined wrap relation.  `WrappedS p o t`: `o` is `t` (a text without newline whose white space is
the blank) as `WrapString` writes it — a newline either replaces exactly ONE blank whose two neighbours are
not blank (`brk`), or it replaces a run of two or more blanks (`loss`: the known finding
C03-blank-run-at-wrap), or a final run of blanks is dropped (`drop`).  Independent of property C01.
-/
namespace PolyVerif.Lemmas.GbWrapRel
open PolyVerif PolyVerif.StrBuild
open PolyVerif.Lemmas.GbBuild

/-- `p` = the character before `t` (in the whole text) -/
inductive WrappedS : Char → Str → Str → Prop
  | nil (p : Char) : WrappedS p [] []
  | keep (p c : Char) {o t : Str} : WrappedS c o t → WrappedS p (c :: o) (c :: t)
  | brk (p : Char) {o t : Str} : p ≠ ' ' → (∃ c r, t = c :: r ∧ c ≠ ' ') → WrappedS ' ' o t →
      WrappedS p ('\n' :: o) (' ' :: t)
  | loss (p : Char) (k : Nat) {o t : Str} : WrappedS ' ' o t → WrappedS p ('\n' :: o) (List.replicate (k + 2) ' ' ++ t)
  | drop (p : Char) (k : Nat) : WrappedS p [] (List.replicate (k + 1) ' ')

/-- the character before what follows `pre` -/
def lastOr (p : Char) (pre : Str) : Char := pre.getLast?.getD p

theorem lastOr_cons (p c : Char) (pre : Str) : lastOr p (c :: pre) = lastOr c pre := by
  cases pre with
  | nil => rfl
  | cons d r =>
    simp only [lastOr, List.getLast?_cons_cons]
    cases h : (d :: r).getLast? with
    | none => simp at h
    | some x => rfl

theorem WrappedS.append_keep : ∀ (pre : Str) (p : Char) {o t : Str}, WrappedS (lastOr p pre) o t →
    WrappedS p (pre ++ o) (pre ++ t)
  | [], _, _, _, h => h
  | c :: pre, p, _, _, h => by
    rw [lastOr_cons] at h
    exact .keep p c (WrappedS.append_keep pre c h)

theorem WrappedS.refl : ∀ (t : Str) (p : Char), WrappedS p t t
  | [], p => .nil p
  | c :: t, p => .keep p c (WrappedS.refl t c)

theorem lastOr_append_ne (p : Char) (a b : Str) (hb : b ≠ []) : lastOr p (a ++ b) = lastOr p b := by
  unfold lastOr
  rw [List.getLast?_append]
  cases h : b.getLast? with
  | none => exact absurd (List.getLast?_eq_none_iff.mp h) hb
  | some c => rfl

theorem lastOr_reverse_cons (p c : Char) (w : Str) : lastOr p (c :: w).reverse = c := by
  simp [lastOr]

theorem wrapGo_wrappedS (lim : Nat) : ∀ (rest : Str) (current : Nat) (word space : Str) (p : Char),
    Plain rest → (∀ c ∈ space, c = ' ') → (space = [] → current = 0) → (∀ c ∈ word, isSpace c = false) →
    (space ≠ [] → p ≠ ' ') → (space = [] → word = [] → p ≠ ' ') →
    WrappedS p (wrapGo lim current word space rest) (space.reverse ++ word.reverse ++ rest)
  | [], current, word, space, p, _, hsp, _, _, _, _ => by
    unfold wrapGo
    split
    · rename_i hw
      have : word = [] := List.length_eq_zero_iff.mp hw
      subst this
      split
      · simpa using WrappedS.refl _ p
      · have hall : ∀ c ∈ space.reverse, c = ' ' := by simpa using hsp
        rw [eq_replicate_of_all_blank hall]
        cases hl : space.reverse.length with
        | zero => simpa using WrappedS.nil p
        | succ k => simpa using WrappedS.drop p k
    · simpa using WrappedS.refl _ p
  | c :: rest, current, word, space, p, hpl, hsp, hcur, hword, hp1, hp2 => by
    have hc : isSpace c = true → c = ' ' := hpl c List.mem_cons_self
    have hrest : Plain rest := fun d hd => hpl d (List.mem_cons_of_mem _ hd)
    have hnl : c ≠ '\n' := fun h => by
      have := hc (h ▸ isSpace_nl)
      rw [h] at this
      exact absurd this (by decide)
    unfold wrapGo
    rw [if_neg hnl]
    by_cases hs : isSpace c = true
    · rw [if_pos hs]
      split
      · rename_i hcond
        -- flush: the blank `c` starts a new run; the character before it is the last one written
        have hq : lastOr p (space.reverse ++ word.reverse) ≠ ' ' := by
          by_cases hw : word = []
          · subst hw
            have hs0 : space = [] := by
              rcases hcond with h | h
              · exact List.length_eq_zero_iff.mp h
              · simp at h
            subst hs0
            simpa [lastOr] using hp2 rfl rfl
          · cases hwr : word with
            | nil => exact absurd hwr hw
            | cons d w =>
              rw [lastOr_append_ne _ _ _ (by simp), lastOr_reverse_cons]
              intro e
              have := hword d (by rw [hwr]; exact List.mem_cons_self)
              rw [e] at this
              exact absurd this (by decide)
        have ih := wrapGo_wrappedS lim rest (current + (space.length + word.length)) [] [c]
          (lastOr p (space.reverse ++ word.reverse)) hrest
          (by intro d hd; rw [List.mem_singleton.mp hd]; exact hc hs) (by simp) (by simp) (fun _ => hq) (by simp)
        have := WrappedS.append_keep (space.reverse ++ word.reverse) p ih
        simpa [List.append_assoc] using this
      · rename_i hcond
        have hw : word = [] := by
          have : ¬ word.length > 0 := fun h => hcond (Or.inr h)
          exact List.length_eq_zero_iff.mp (by omega)
        have hsne : space ≠ [] := by
          intro e; apply hcond; left; simp [e]
        have ih := wrapGo_wrappedS lim rest current word (c :: space) p hrest
          (by
            intro d hd
            rcases List.mem_cons.mp hd with rfl | hd
            · exact hc hs
            · exact hsp d hd) (by simp) hword (fun _ => hp1 hsne) (by simp)
        subst hw
        simpa using ih
    · rw [if_neg hs]
      have hcs : isSpace c = false := by simpa using hs
      have hword' : ∀ d ∈ c :: word, isSpace d = false := by
        intro d hd
        rcases List.mem_cons.mp hd with rfl | hd
        · exact hcs
        · exact hword d hd
      split
      · rename_i hcond
        have hne : space ≠ [] := by
          intro h0
          have := hcur h0
          subst h0
          subst this
          simp only [List.length_nil, List.length_cons, Nat.zero_add] at hcond
          omega
        have ih := wrapGo_wrappedS lim rest 0 (c :: word) [] ' ' hrest (by simp) (by simp) hword' (by simp) (by simp)
        simp only [List.reverse_nil, List.nil_append] at ih
        have hall : ∀ d ∈ space.reverse, d = ' ' := by simpa using hsp
        -- the word under construction begins with a non-blank
        have hfirst : ∃ d r, (c :: word).reverse ++ rest = d :: r ∧ d ≠ ' ' := by
          cases hr : (c :: word).reverse with
          | nil => simp at hr
          | cons d r =>
            refine ⟨d, r ++ rest, rfl, ?_⟩
            intro e
            have hm : d ∈ c :: word := by
              have : d ∈ (c :: word).reverse := by rw [hr]; exact List.mem_cons_self
              exact List.mem_reverse.mp this
            have := hword' d hm
            rw [e] at this
            exact absurd this (by decide)
        have htarget : space.reverse ++ word.reverse ++ c :: rest = space.reverse ++ ((c :: word).reverse ++ rest) := by simp
        rw [htarget, eq_replicate_of_all_blank hall]
        cases hl : space.reverse.length with
        | zero =>
          have : space.reverse = [] := List.length_eq_zero_iff.mp hl
          exact absurd (List.reverse_eq_nil_iff.mp this) hne
        | succ k =>
          cases k with
          | zero => exact WrappedS.brk p (hp1 hne) hfirst ih
          | succ k => exact WrappedS.loss p k ih
      · have ih := wrapGo_wrappedS lim rest current (c :: word) space p hrest hsp hcur hword' hp1 (by simp)
        simpa using ih

theorem WrappedS.length_le {p : Char} {o t : Str} (h : WrappedS p o t) : o.length ≤ t.length := by
  induction h with
  | nil => simp
  | keep _ _ _ ih => simp; omega
  | brk _ _ _ _ ih => simp; omega
  | loss _ k _ ih => simp; omega
  | drop _ k => simp

end PolyVerif.Lemmas.GbWrapRel
