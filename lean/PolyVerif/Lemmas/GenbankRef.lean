import PolyVerif.Lemmas.GenbankSub
/-
C01: SOURCE / ORGANISM and REFERENCE sections.
-/
set_option linter.unusedSimpArgs false
namespace PolyVerif.Lemmas.Genbank
open PolyVerif PolyVerif.Str PolyVerif.Genbank PolyVerif.GbLayout

/-- a list of lines that starts with a line at which `joinSubLines` stops -/
def StartsStop (ls : List Str) : Prop := ∃ s r, ls = s :: r ∧ Stop s

/-! ### lines of a block, by kind -/

/-- a continuation line: neither keyword nor sub-keyword line -/
theorem quick_cont (c : Str) :
    quickMetaCheck (spaces 12 ++ c) = .ok false ∧ quickSubMetaCheck (spaces 12 ++ c) = .ok false ∧
      Str.at (spaces 12 ++ c) 0 = .ok ' ' :=
  ⟨(quick_blank6 6 c).1, (quick_blank6 6 c).2, rfl⟩

/-- a sub-keyword: upper-case word of 4..9 letters -/
def SubKw (kw : Str) : Prop := 4 ≤ kw.length ∧ kw.length ≤ 9 ∧ ' ' ∉ kw ∧ ∀ c ∈ kw, isUpper c = true

theorem isSpace_false_of_upper {c : Char} (h : isUpper c = true) : isSpace c = false := by
  simp only [isUpper, Bool.and_eq_true, decide_eq_true_eq] at h
  simp only [isSpace, Bool.or_eq_false_iff, beq_eq_false_iff_ne]
  refine ⟨⟨⟨⟨⟨?_, ?_⟩, ?_⟩, ?_⟩, ?_⟩, ?_⟩ <;> (rintro rfl; revert h; decide)

/-- the first line of a sub-keyword block: two blanks, the word, blanks up to column 12, first chunk -/
def subLine (kw c0 : Str) : Str := padRight (c!"  " ++ kw) 12 ++ c0

theorem subLine_eq (kw c0 : Str) (h : SubKw kw) :
    ∃ k, subLine kw c0 = spaces 2 ++ (kw ++ (spaces (k + 1) ++ c0)) := by
  obtain ⟨h4, h9, _, _⟩ := h
  refine ⟨9 - kw.length, ?_⟩
  simp only [subLine, padRight, List.length_append, List.append_assoc]
  have : 12 - (c!"  ".length + kw.length) = 9 - kw.length + 1 := by simp; omega
  rw [this]; rfl

theorem subLine_checks (kw c0 : Str) (h : SubKw kw) :
    quickMetaCheck (subLine kw c0) = .ok false ∧ quickSubMetaCheck (subLine kw c0) = .ok true ∧
      Str.at (subLine kw c0) 0 = .ok ' ' := by
  obtain ⟨k, hk⟩ := subLine_eq kw c0 h
  obtain ⟨h4, h9, hsp, hup⟩ := h
  rw [hk]
  obtain ⟨a, b, c, d, r, rfl⟩ : ∃ a b c d r, kw = a :: b :: c :: d :: r := by
    match kw, h4 with
    | a :: b :: c :: d :: r, _ => exact ⟨a, b, c, d, r, rfl⟩
  have hd : d ≠ ' ' := fun e => hsp (by simp [e])
  refine ⟨by simp [spaces, quickMetaCheck], ?_, rfl⟩
  simp [spaces, quickSubMetaCheck, Str.at, subMetaIndex, hd]

theorem SubKw.head_nonspace {kw : Str} (h : SubKw kw) : ∀ c, kw.head? = some c → isSpace c = false := by
  intro c hc
  exact isSpace_false_of_upper (h.2.2.2 c (List.mem_of_mem_head? hc))

theorem SubKw.ne_nil {kw : Str} (h : SubKw kw) : kw ≠ [] := by
  intro e; have := h.1; rw [e] at this; simp at this

/-- `TrimSpace` of the first line of a sub-keyword block -/
theorem trimSpace_subLine (kw c0 : Str) (h : SubKw kw) (hc : c0 = [] ∨ Chunk c0) :
    ∃ k, trimSpace (subLine kw c0) = (if c0 = [] then kw else kw ++ (spaces (k + 1) ++ c0)) := by
  obtain ⟨k, hk⟩ := subLine_eq kw c0 h
  refine ⟨k, ?_⟩
  rw [hk]
  have hlast : ∀ c, kw.getLast? = some c → isSpace c = false :=
    fun c hc => isSpace_false_of_upper (h.2.2.2 c (List.mem_of_getLast? hc))
  rcases hc with rfl | hch
  · simp only [if_true, List.append_nil]
    have := trimSpace_spaces 2 (k + 1) kw h.head_nonspace hlast
    rw [List.append_assoc] at this; exact this
  · have hne := hch.ne_nil
    simp only [hne, if_false]
    have := trimSpace_spaces 2 0 (kw ++ (spaces (k + 1) ++ c0)) (by
        intro c hc
        cases hkw : kw with
        | nil => exact absurd hkw h.ne_nil
        | cons x xs => rw [hkw] at hc; simp at hc; subst hc; exact h.head_nonspace x (by rw [hkw]; rfl))
      (by
        intro c hc
        obtain ⟨hp, ⟨x, xs, rfl, hx⟩, hl⟩ := hch
        rw [← List.append_assoc, getLast?_append_ne _ _ (by simp)] at hc
        exact isSpace_false_of_print (hp c (List.mem_of_getLast? hc)) (by rintro rfl; exact hl hc))
    simpa [spaces] using this

/-- a sub-keyword block read by `joinSubLines` (as `getReference` / `getSourceOrganism` call it:
on the trimmed line) gives back the text; the head word is the sub-keyword -/
theorem subBlock_join (kw t : Str) (bs : List Nat) (more : List Str) (h : SubKw kw) (ht : isText t = true)
    (hs : StartsStop more) :
    joinSubLines (split (trimSpace (subLine kw ((wrapText bs t).headD []))) c!" ")
        (((wrapText bs t).drop 1).map (spaces 12 ++ ·) ++ more) = .ok t
      ∧ headOf (split (trimSpace (subLine kw ((wrapText bs t).headD []))) c!" ") = kw := by
  obtain ⟨stop, rest, rfl, hstop⟩ := hs
  by_cases hne : t = []
  · subst hne
    obtain ⟨k, hk⟩ := trimSpace_subLine kw [] h (Or.inl rfl)
    simp only [wrapText, wrapAux, List.headD_cons, List.drop_succ_cons, List.drop_zero, List.map_nil, List.nil_append]
    rw [hk]; simp only [if_true]
    have : split kw c!" " = [kw] := splitC_of_not_mem ' ' kw h.2.2.1
    rw [this]
    exact ⟨joinLoop_empty stop rest hstop, rfl⟩
  · have hch := chunks_wrapText bs t ht hne
    cases hw : wrapText bs t with
    | nil => exact absurd hw (wrapAux_ne_nil _ _ _ _)
    | cons c0 cs =>
      have h0 : Chunk c0 := hch c0 (by rw [hw]; simp)
      obtain ⟨k, hk⟩ := trimSpace_subLine kw c0 h (Or.inr h0)
      simp only [List.headD_cons]
      rw [hk]; simp only [h0.ne_nil, if_false]
      have := joinSubLines_chunks kw k t bs stop rest h.2.2.1 ht hstop
      rw [hw] at this
      simp only [List.headD_cons] at this
      refine ⟨this, ?_⟩
      show headOf (splitC ' ' (kw ++ (spaces (k + 1) ++ c0))) = kw
      rw [spaces_succ_append, splitC_append ' ' kw _ h.2.2.1]; rfl

/-! ### SOURCE / ORGANISM -/

/-- the loop of `getSourceOrganism` over the continuation lines of SOURCE -/
theorem sourceLoop_conts (base : Str) (conts : List Str) (more : List Str)
    (hb : Chunk base) (hc : ∀ c ∈ conts, Chunk c) :
    sourceLoop base (conts.map (spaces 12 ++ ·) ++ more) = sourceLoop (join c!" " (base :: conts)) more := by
  induction conts generalizing base with
  | nil => rfl
  | cons c r ih =>
    have hcc := hc c (by simp)
    obtain ⟨q1, q2, q3⟩ := quick_cont c
    simp only [List.map_cons, List.cons_append, sourceLoop, q2, q3]
    simp only [Outcome.bind_ok', if_true, Bool.false_and, Bool.not_false]
    have e : trimSpace (trimSpace base ++ c!" " ++ trimSpace (spaces 12 ++ c)) = base ++ c!" " ++ c := by
      have := hcc.trim 12 0
      simp only [spaces, List.replicate_zero, List.append_nil] at this
      rw [hb.trim0, show spaces 12 = List.replicate 12 ' ' from rfl, this]
      exact (hb.join hcc).trim0
    rw [e, ih _ (hb.join hcc) (fun x hx => hc x (by simp [hx])), join_merge]

theorem organism_SubKw : SubKw c!"ORGANISM" := by
  refine ⟨by decide, by decide, by decide, by decide⟩

/-- the SOURCE block, whatever ends it: the source text is recovered for every wrapping, the organism is what
`sourceLoop` makes of the lines after the block (`horg`) -/
theorem getSourceOrganism_source (src org : Str) (bs : List Nat) (after : List Str)
    (hs : isText src = true) (horg : ∀ s : Str, sourceLoop s after = .ok (s, org)) :
    getSourceOrganism (split ((block c!"SOURCE" src bs).headD []) c!" ")
      ((block c!"SOURCE" src bs).drop 1 ++ after) = .ok (src, org) := by
  rw [block_eq c!"SOURCE"]
  simp only [List.headD_cons, List.drop_succ_cons, List.drop_zero]
  unfold getSourceOrganism
  have hpad : ∀ X : Str, padRight c!"SOURCE" 12 ++ X = c!"SOURCE" ++ ' ' :: (spaces 5 ++ X) := fun _ => rfl
  rw [hpad, join_drop_split c!"SOURCE" _ (by decide)]
  by_cases hne : src = []
  · subst hne
    simp only [wrapText, wrapAux, List.headD_cons, List.append_nil, List.drop_succ_cons, List.drop_zero, List.map_nil,
      List.nil_append]
    have : trimSpace (spaces 5) = [] := by
      have := trimSpace_spaces 5 0 [] (by simp) (by simp); simpa [spaces] using this
    rw [this]; exact horg []
  · have hch := chunks_wrapText bs src hs hne
    have hj' := join_wrapText bs src
    cases hw : wrapText bs src with
    | nil => exact absurd hw (wrapAux_ne_nil _ _ _ _)
    | cons c0 cs =>
      rw [hw] at hch hj'
      have h0 := hch c0 (by simp)
      have e : trimSpace (spaces 5 ++ c0) = c0 := by
        have := h0.trim 5 0; simpa [spaces] using this
      simp only [List.headD_cons, List.drop_succ_cons, List.drop_zero]
      rw [e, sourceLoop_conts c0 cs _ h0 (fun c hc => hch c (by simp [hc])), hj']
      exact horg src

/-- SOURCE and ORGANISM: both texts are recovered, for every wrapping -/
theorem getSourceOrganism_blocks (src org : Str) (bs bo : List Nat) (more : List Str)
    (hs : isText src = true) (ho : isText org = true) (hm : StartsStop more) :
    getSourceOrganism (split ((block c!"SOURCE" src bs).headD []) c!" ")
      ((block c!"SOURCE" src bs).drop 1 ++ (block c!"  ORGANISM" org bo ++ more)) = .ok (src, org) := by
  apply getSourceOrganism_source src org bs _ hs
  rw [block_eq c!"  ORGANISM"]
  simp only [List.cons_append]
  obtain ⟨hj, hh⟩ := subBlock_join c!"ORGANISM" org bo more organism_SubKw ho hm
  obtain ⟨o1, o2, o3⟩ := subLine_checks c!"ORGANISM" ((wrapText bo org).headD []) organism_SubKw
  intro s
  have e : padRight c!"  ORGANISM" 12 ++ (wrapText bo org).headD [] = subLine c!"ORGANISM" ((wrapText bo org).headD []) := rfl
  rw [e]
  simp only [sourceLoop, o2, o3, hh, hj]
  simp

/-- SOURCE without an ORGANISM line (6ccbb58): the keyword line that follows ends SOURCE and is not the organism -/
theorem getSourceOrganism_alone (src : Str) (bs : List Nat) (m : Str) (rest : List Str)
    (hs : isText src = true) (hm : quickMetaCheck m = .ok true) :
    getSourceOrganism (split ((block c!"SOURCE" src bs).headD []) c!" ")
      ((block c!"SOURCE" src bs).drop 1 ++ m :: rest) = .ok (src, []) := by
  apply getSourceOrganism_source src [] bs _ hs
  intro s
  cases m with
  | nil => simp [quickMetaCheck] at hm
  | cons c0 cs =>
    have hc0 : c0 ≠ ' ' := by
      intro h; subst h; simp [quickMetaCheck] at hm
    simp [sourceLoop, Str.at, quickSubMetaCheck, hc0]

/-! ### REFERENCE -/

theorem StartsStop_optBlock (kw t : Str) (bs : List Nat) (more : List Str) (h : SubKw kw) (hm : StartsStop more) :
    StartsStop (optBlock (c!"  " ++ kw) t bs ++ more) := by
  unfold optBlock
  split
  · exact hm
  · rw [block_eq]
    obtain ⟨c1, c2, _⟩ := subLine_checks kw ((wrapText bs t).headD []) h
    exact ⟨_, _, rfl, Or.inr ⟨c1, c2⟩⟩

theorem refLoop_skip_conts (r : Reference) (conts : List Str) (more : List Str) :
    refLoop r (conts.map (spaces 12 ++ ·) ++ more) = refLoop r more := by
  induction conts with
  | nil => rfl
  | cons c cs ih =>
    obtain ⟨q1, q2, _⟩ := quick_cont c
    simp only [List.map_cons, List.cons_append, refLoop, q1, q2]
    simpa using ih

theorem refLoop_stop (r : Reference) (m : Str) (rest : List Str) (hm : quickMetaCheck m = .ok true) :
    refLoop r (m :: rest) = .ok r := by
  simp [refLoop, hm]

/-- one optional sub-keyword block of a reference, generic in the sub-keyword: `step` says what
`refLoop` does at a sub-keyword line whose head word is `kw` -/
theorem refLoop_optBlock_gen (kw : Str) (upd : Reference → Str → Reference) (h : SubKw kw)
    (step : ∀ (r : Reference) (l : Str) (ls : List Str), quickMetaCheck l = .ok false → quickSubMetaCheck l = .ok true →
      headOf (split (trimSpace l) c!" ") = kw →
      refLoop r (l :: ls) = (joinSubLines (split (trimSpace l) c!" ") ls).bind fun v => refLoop (upd r v) ls)
    (r : Reference) (t : Str) (bs : List Nat) (more : List Str) (ht : isText t = true) (hm : StartsStop more) :
    refLoop r (optBlock (c!"  " ++ kw) t bs ++ more) = refLoop (if t = [] then r else upd r t) more := by
  unfold optBlock
  by_cases hne : t = []
  · simp [hne]
  · simp only [hne, if_false]
    rw [block_eq]
    obtain ⟨c1, c2, _⟩ := subLine_checks kw ((wrapText bs t).headD []) h
    obtain ⟨hj, hh⟩ := subBlock_join kw t bs more h ht hm
    have e : padRight (c!"  " ++ kw) 12 ++ (wrapText bs t).headD [] = subLine kw ((wrapText bs t).headD []) := rfl
    rw [e, List.cons_append, step r _ _ c1 c2 hh, hj]
    simp only [Outcome.bind_ok']
    exact refLoop_skip_conts _ _ _

theorem SubKw_authors : SubKw c!"AUTHORS" := ⟨by decide, by decide, by decide, by decide⟩
theorem SubKw_title : SubKw c!"TITLE" := ⟨by decide, by decide, by decide, by decide⟩
theorem SubKw_journal : SubKw c!"JOURNAL" := ⟨by decide, by decide, by decide, by decide⟩
theorem SubKw_pubmed : SubKw c!"PUBMED" := ⟨by decide, by decide, by decide, by decide⟩
theorem SubKw_remark : SubKw c!"REMARK" := ⟨by decide, by decide, by decide, by decide⟩

theorem step_authors (r : Reference) (l : Str) (ls : List Str) (h1 : quickMetaCheck l = .ok false)
    (h2 : quickSubMetaCheck l = .ok true) (h3 : headOf (split (trimSpace l) c!" ") = c!"AUTHORS") :
    refLoop r (l :: ls) = (joinSubLines (split (trimSpace l) c!" ") ls).bind fun v => refLoop { r with authors := v } ls := by
  simp [refLoop, h1, h2, h3]

theorem step_title (r : Reference) (l : Str) (ls : List Str) (h1 : quickMetaCheck l = .ok false)
    (h2 : quickSubMetaCheck l = .ok true) (h3 : headOf (split (trimSpace l) c!" ") = c!"TITLE") :
    refLoop r (l :: ls) = (joinSubLines (split (trimSpace l) c!" ") ls).bind fun v => refLoop { r with title := v } ls := by
  simp [refLoop, h1, h2, h3]

theorem step_journal (r : Reference) (l : Str) (ls : List Str) (h1 : quickMetaCheck l = .ok false)
    (h2 : quickSubMetaCheck l = .ok true) (h3 : headOf (split (trimSpace l) c!" ") = c!"JOURNAL") :
    refLoop r (l :: ls) = (joinSubLines (split (trimSpace l) c!" ") ls).bind fun v => refLoop { r with journal := v } ls := by
  simp [refLoop, h1, h2, h3]

theorem step_pubmed (r : Reference) (l : Str) (ls : List Str) (h1 : quickMetaCheck l = .ok false)
    (h2 : quickSubMetaCheck l = .ok true) (h3 : headOf (split (trimSpace l) c!" ") = c!"PUBMED") :
    refLoop r (l :: ls) = (joinSubLines (split (trimSpace l) c!" ") ls).bind fun v => refLoop { r with pubmed := v } ls := by
  simp [refLoop, h1, h2, h3]

theorem step_remark (r : Reference) (l : Str) (ls : List Str) (h1 : quickMetaCheck l = .ok false)
    (h2 : quickSubMetaCheck l = .ok true) (h3 : headOf (split (trimSpace l) c!" ") = c!"REMARK") :
    refLoop r (l :: ls) = (joinSubLines (split (trimSpace l) c!" ") ls).bind fun v => refLoop { r with remark := v } ls := by
  simp [refLoop, h1, h2, h3]

/-- printable digits -/
theorem isPrint_of_digit {c : Char} (h : isDigit c = true) : isPrint c = true := by
  simp only [isDigit, isPrint, Bool.and_eq_true, decide_eq_true_eq] at *; omega

theorem isText_parts {t : Str} (h : isText t = true) :
    (∀ c ∈ t, isPrint c = true) ∧ t.head? ≠ some ' ' ∧ t.getLast? ≠ some ' ' := by
  simp only [isText, Bool.and_eq_true, List.all_eq_true, bne_iff_ne, ne_eq] at h
  exact ⟨h.1.1, h.1.2, h.2⟩

theorem isText_of_parts {t : Str} (h1 : ∀ c ∈ t, isPrint c = true) (h2 : t.head? ≠ some ' ') (h3 : t.getLast? ≠ some ' ') :
    isText t = true := by
  simp only [isText, Bool.and_eq_true, List.all_eq_true, bne_iff_ne, ne_eq]
  exact ⟨⟨h1, h2⟩, h3⟩

/-- the number written for a reference is a non-empty blank-free printable token: the position in digits, or
the reference's own number -/
theorem refNumber_tok (i : Nat) (r : RRef) (hn : r.number.all isVisible = true) :
    refNumber i r ≠ [] ∧ (∀ c ∈ refNumber i r, isPrint c = true) ∧ ' ' ∉ refNumber i r := by
  unfold refNumber
  split
  · refine ⟨ofNat_ne_nil (i + 1), fun c hc => isPrint_of_digit (ofNat_isDigit (i + 1) c hc), ?_⟩
    intro h; have := ofNat_isDigit (i + 1) ' ' h; revert this; decide
  · rename_i hne
    simp only [List.all_eq_true, isVisible, Bool.and_eq_true, bne_iff_ne, ne_eq] at hn
    exact ⟨hne, fun c hc => (hn c hc).1, fun h => (hn ' ' h).2 rfl⟩

theorem isText_refHead (i : Nat) (r : RRef) (hn : r.number.all isVisible = true) (h : isText r.range = true) :
    isText (refHead i r) = true := by
  obtain ⟨hp, hh, hl⟩ := isText_parts h
  obtain ⟨hne, hd, hnsp⟩ := refNumber_tok i r hn
  obtain ⟨c, cs, hc⟩ : ∃ c cs, refNumber i r = c :: cs := by
    cases hn : refNumber i r with
    | nil => exact absurd hn hne
    | cons c cs => exact ⟨c, cs, rfl⟩
  unfold refHead
  split
  · simp only [List.append_nil]
    apply isText_of_parts
    · exact hd
    · rw [hc]; simp; rintro rfl; exact hnsp (by rw [hc]; simp)
    · intro hl'; exact hnsp (List.mem_of_getLast? hl')
  · rename_i hr
    apply isText_of_parts
    · intro x hx
      simp only [List.mem_append, List.mem_cons, List.not_mem_nil, or_false] at hx
      rcases hx with hx | (rfl | rfl) | hx
      · exact hd x hx
      · decide
      · decide
      · exact hp x hx
    · rw [hc]; simp; rintro rfl; exact hnsp (by rw [hc]; simp)
    · rw [getLast?_append_ne _ _ (by simp [hr]), getLast?_append_ne _ _ hr]; exact hl

/-- index and range from the joined REFERENCE line -/
theorem refHead_split (i : Nat) (r : RRef) (hn : r.number.all isVisible = true) (h : isText r.range = true) :
    headOf (split (refHead i r) c!" ") = refNumber i r ∧
      (if (refHead i r).length > 1 then trimSpace (join c!" " ((split (refHead i r) c!" ").drop 1)) else []) = r.range := by
  obtain ⟨hnne, -, hdsp⟩ := refNumber_tok i r hn
  have hnlen : 0 < (refNumber i r).length := List.length_pos_iff.mpr hnne
  unfold refHead
  split
  · rename_i hr
    simp only [List.append_nil, hr]
    have : split (refNumber i r) c!" " = [refNumber i r] := splitC_of_not_mem ' ' _ hdsp
    rw [this]
    refine ⟨rfl, ?_⟩
    split <;> rfl
  · rename_i hr
    obtain ⟨hp, hh, hl⟩ := isText_parts h
    have e : split (refNumber i r ++ (c!"  " ++ r.range)) c!" " = refNumber i r :: [] :: splitC ' ' r.range := by
      show splitC ' ' (refNumber i r ++ ' ' :: (' ' :: r.range)) = _
      rw [splitC_append ' ' _ _ hdsp]
      simp [splitC]
    rw [e]
    refine ⟨rfl, ?_⟩
    have hlen : (refNumber i r ++ (c!"  " ++ r.range)).length > 1 := by simp; omega
    simp only [hlen, if_true, List.drop_succ_cons, List.drop_zero]
    have hne := splitC_ne_nil ' ' r.range
    have hj : join c!" " ([] :: splitC ' ' r.range) = ' ' :: r.range := by
      cases hs : splitC ' ' r.range with
      | nil => exact absurd hs hne
      | cons x xs =>
        have := join_splitC ' ' r.range
        rw [hs] at this
        simp only [join, List.nil_append]
        rw [this]; rfl
    rw [hj]
    have := trimSpace_spaces 1 0 r.range
      (fun c hc => isSpace_false_of_print (hp c (List.mem_of_mem_head? hc)) (by rintro rfl; exact hh hc))
      (fun c hc => isSpace_false_of_print (hp c (List.mem_of_getLast? hc)) (by rintro rfl; exact hl hc))
    simpa [spaces] using this

/-- what the record states about reference number `i` -/
def toRef (i : Nat) (r : RRef) : Reference :=
  { index := refNumber i r, authors := r.authors, title := r.title, journal := r.journal
    pubmed := r.pubmed, remark := r.remark, range := r.range }

theorem toRefs_cons (i : Nat) (r : RRef) (rs : List RRef) : toRefs i (r :: rs) = toRef i r :: toRefs (i + 1) rs := rfl

theorem joinLoop_stop (base stop : Str) (rest : List Str) (hs : Stop stop) : joinLoop base (stop :: rest) = .ok base := by
  simp only [joinLoop]
  rcases hs with h | ⟨h1, h2⟩
  · simp [h]
  · simp [h1, h2]

/-- the REFERENCE line(s), in either form (wrapped `number  range`, or the number followed by two blanks
when the range is empty): a first line `REFERENCE   c0`, continuation chunks, and `joinSubLines` gives
back `refHead` -/
theorem refHeadLines_shape (i : Nat) (r : RRef) (ℓ : RefLayout) (stop : Str) (rest : List Str)
    (hnum : r.number.all isVisible = true) (hrange : isText r.range = true) (hstop : Stop stop) :
    ∃ (c0 : Str) (conts : List Str), refHeadLines i r ℓ = (padRight c!"REFERENCE" 12 ++ c0) :: conts.map (spaces 12 ++ ·) ∧
      joinSubLines (split (padRight c!"REFERENCE" 12 ++ c0) c!" ") (conts.map (spaces 12 ++ ·) ++ stop :: rest)
        = .ok (refHead i r) := by
  have hpad : ∀ X : Str, padRight c!"REFERENCE" 12 ++ X = c!"REFERENCE" ++ (spaces (2 + 1) ++ X) := fun _ => rfl
  unfold refHeadLines
  split
  · rename_i h
    refine ⟨refNumber i r ++ c!"  ", [], by simp [List.append_assoc], ?_⟩
    obtain ⟨hne, hd, hnsp⟩ := refNumber_tok i r hnum
    have hns : ∀ c ∈ refNumber i r, isSpace c = false := fun c hc =>
      isSpace_false_of_print (hd c hc) (by rintro rfl; exact hnsp hc)
    unfold joinSubLines
    rw [hpad, spaces_succ_append, join_drop_split c!"REFERENCE" _ (by decide)]
    have e : spaces 2 ++ (refNumber i r ++ c!"  ") = spaces 2 ++ refNumber i r ++ spaces 2 := by simp [spaces]
    rw [e, trimSpace_spaces 2 2 _ (fun c hc => hns c (List.mem_of_mem_head? hc)) (fun c hc => hns c (List.mem_of_getLast? hc))]
    simp only [List.map_nil, List.nil_append]
    rw [joinLoop_stop _ _ _ hstop]
    simp [refHead, h.2]
  · rw [block_eq]
    refine ⟨_, _, rfl, ?_⟩
    rw [hpad]
    exact joinSubLines_chunks c!"REFERENCE" 2 (refHead i r) ℓ.range stop rest (by decide) (isText_refHead i r hnum hrange) hstop

/-- REFERENCE: number, range and the five optional sub-keyword blocks are recovered, for every wrapping,
whatever keyword line `m` follows -/
theorem getReference_lines (i : Nat) (r : RRef) (ℓ : RefLayout) (m : Str) (rest : List Str)
    (h : wfRef r = true) (hm : quickMetaCheck m = .ok true) :
    getReference (split ((refLines i r ℓ).headD []) c!" ") ((refLines i r ℓ).drop 1 ++ m :: rest) = .ok (toRef i r) := by
  simp only [wfRef, Bool.and_eq_true] at h
  obtain ⟨⟨⟨⟨⟨⟨hnum, hrange⟩, hauth⟩, htitle⟩, hjour⟩, hpub⟩, hrem⟩ := h
  have hS0 : StartsStop (m :: rest) := ⟨m, rest, rfl, Or.inl hm⟩
  have hS5 := StartsStop_optBlock c!"REMARK" r.remark ℓ.remark _ SubKw_remark hS0
  have hS4 := StartsStop_optBlock c!"PUBMED" r.pubmed ℓ.pubmed _ SubKw_pubmed hS5
  have hS3 := StartsStop_optBlock c!"JOURNAL" r.journal ℓ.journal _ SubKw_journal hS4
  have hS2 := StartsStop_optBlock c!"TITLE" r.title ℓ.title _ SubKw_title hS3
  have hS1 := StartsStop_optBlock c!"AUTHORS" r.authors ℓ.authors _ SubKw_authors hS2
  simp only [show c!"  " ++ c!"AUTHORS" = c!"  AUTHORS" from rfl, show c!"  " ++ c!"TITLE" = c!"  TITLE" from rfl,
    show c!"  " ++ c!"JOURNAL" = c!"  JOURNAL" from rfl, show c!"  " ++ c!"PUBMED" = c!"  PUBMED" from rfl,
    show c!"  " ++ c!"REMARK" = c!"  REMARK" from rfl] at hS1 hS2 hS3 hS4 hS5
  obtain ⟨stop, rest', hrest, hstop⟩ := hS1
  obtain ⟨c0, conts, hshape, hbase⟩ := refHeadLines_shape i r ℓ stop rest' hnum hrange hstop
  unfold refLines
  rw [hshape]
  simp only [List.cons_append, List.headD_cons, List.drop_succ_cons, List.drop_zero, List.append_assoc]
  unfold getReference
  rw [hrest, hbase]
  simp only [Outcome.bind_ok']
  obtain ⟨hidx, hrng⟩ := refHead_split i r hnum hrange
  rw [refLoop_skip_conts, ← hrest]
  have e1 := refLoop_optBlock_gen c!"AUTHORS" (fun r v => { r with authors := v }) SubKw_authors step_authors
  have e2 := refLoop_optBlock_gen c!"TITLE" (fun r v => { r with title := v }) SubKw_title step_title
  have e3 := refLoop_optBlock_gen c!"JOURNAL" (fun r v => { r with journal := v }) SubKw_journal step_journal
  have e4 := refLoop_optBlock_gen c!"PUBMED" (fun r v => { r with pubmed := v }) SubKw_pubmed step_pubmed
  have e5 := refLoop_optBlock_gen c!"REMARK" (fun r v => { r with remark := v }) SubKw_remark step_remark
  simp only [show c!"  " ++ c!"AUTHORS" = c!"  AUTHORS" from rfl, show c!"  " ++ c!"TITLE" = c!"  TITLE" from rfl,
    show c!"  " ++ c!"JOURNAL" = c!"  JOURNAL" from rfl, show c!"  " ++ c!"PUBMED" = c!"  PUBMED" from rfl,
    show c!"  " ++ c!"REMARK" = c!"  REMARK" from rfl] at e1 e2 e3 e4 e5
  rw [e1 _ _ _ _ hauth hS2, e2 _ _ _ _ htitle hS3, e3 _ _ _ _ hjour hS4, e4 _ _ _ _ hpub hS5, e5 _ _ _ _ hrem hS0,
    refLoop_stop _ _ _ hm]
  simp only [toRef, hidx]
  congr 1
  have : (if (refHead i r).length > 1 then
      ({ index := refNumber i r, range := trimSpace (join c!" " ((split (refHead i r) c!" ").drop 1)) } : Reference)
      else { index := refNumber i r }) = { index := refNumber i r, range := r.range } := by
    split
    · rename_i hl; simp only [hl, if_true] at hrng; rw [hrng]
    · rename_i hl; simp only [hl, if_false] at hrng; rw [← hrng]
  rw [this]
  by_cases a1 : r.authors = [] <;> by_cases a2 : r.title = [] <;> by_cases a3 : r.journal = [] <;>
    by_cases a4 : r.pubmed = [] <;> by_cases a5 : r.remark = [] <;> simp [a1, a2, a3, a4, a5]

end PolyVerif.Lemmas.Genbank
