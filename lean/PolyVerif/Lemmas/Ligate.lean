import Mathlib.Data.List.Rotate
import Mathlib.Data.List.Chain
import PolyVerif.Model.Ligate
import PolyVerif.Spec.Rings
import PolyVerif.Lemmas.RotationSpec
import PolyVerif.Props.C11
/-
Helper lemmas for C09 (Props/C09.lean): the spawn tree of `recurseLigate`, the chain invariant
that ties a partial construct to a list of oriented fragments, rings under rotation and strand
exchange, the collector's fold, the canonical-form key, and the goroutine system.
-/
namespace PolyVerif.Ligate
open PolyVerif PolyVerif.Transform PolyVerif.Spec PolyVerif.Spec.Rings

/-! ### the spawn tree -/

theorem emits_foldr {α : Type} (f : α → Work) (l : List α) :
    emits (l.foldr (fun a rest => Work.spawn (f a) rest) Work.done) = l.flatMap fun a => emits (f a) := by
  induction l with
  | nil => rfl
  | cons a l ih => simp [emits, ih]

theorem noStuck_foldr {α : Type} (f : α → Work) (l : List α) :
    noStuck (l.foldr (fun a rest => Work.spawn (f a) rest) Work.done) = l.all fun a => noStuck (f a) := by
  induction l with
  | nil => rfl
  | cons a l ih => simp [noStuck, ih]

theorem depth_foldr_le {α : Type} (f : α → Work) (l : List α) (d : Nat) (h : ∀ a ∈ l, depth (f a) ≤ d) :
    depth (l.foldr (fun a rest => Work.spawn (f a) rest) Work.done) ≤ d + 1 := by
  induction l with
  | nil => simp [depth]
  | cons a l ih =>
    have h1 := h a (List.mem_cons_self ..)
    have h2 := ih fun b hb => h b (List.mem_cons_of_mem _ hb)
    simp only [List.foldr_cons, depth]
    omega

theorem emits_succ (pool : List Fragment) (fuel : Nat) (seed : Fragment) (used : List Fragment) :
    emits (recurseLigate pool (fuel + 1) seed used) =
      if seed.fwd = seed.rev then [seed.fwd ++ seed.seq]
      else (children pool seed used).flatMap fun ch => emits (recurseLigate pool fuel ch.1 ch.2) := by
  rw [recurseLigate]
  split
  · rfl
  · exact emits_foldr _ _

theorem alreadyUsed_iff (used : List Fragment) (n : Fragment) : alreadyUsed used n = true ↔ n ∈ used := by
  unfold alreadyUsed
  rw [List.any_eq_true]
  constructor
  · rintro ⟨u, hu, h⟩
    have : u = n := by simpa using h
    exact this ▸ hu
  · intro h
    exact ⟨n, h, by simp⟩

/-- the partial construct obtained by ligating the (oriented) fragment `g` to the open end of `seed` -/
def extend (seed g : Fragment) : Fragment := ⟨seed.seq ++ seed.rev ++ g.seq, seed.fwd, g.rev⟩

theorem extendFwd_eq (seed n : Fragment) : extendFwd seed n = extend seed (Oriented.get ⟨n, false⟩) := rfl
theorem extendRev_eq (seed n : Fragment) : extendRev seed n = extend seed (Oriented.get ⟨n, true⟩) := rfl

/-- the goroutines started by one pass of the loop, in terms of oriented fragments: any pool fragment
not yet used whose (oriented) forward overhang is the open overhang, flipped only onto a
non-palindromic overhang -/
theorem mem_children {pool : List Fragment} {seed : Fragment} {used : List Fragment} {ch : Fragment × List Fragment} :
    ch ∈ children pool seed used ↔
      ∃ o : Oriented, o.frag ∈ pool ∧ o.frag ∉ used ∧ seed.rev = o.get.fwd ∧
        (o.flipped = true → seed.rev ≠ revComp seed.rev) ∧ ch = (extend seed o.get, used ++ [o.frag]) := by
  unfold children
  simp only [List.mem_flatMap]
  constructor
  · rintro ⟨n, hn, h⟩
    by_cases hu : alreadyUsed used n = true
    · simp [hu] at h
    · have hnu : n ∉ used := fun hm => hu ((alreadyUsed_iff used n).2 hm)
      rw [if_neg hu, List.mem_append] at h
      rcases h with h | h
      · by_cases hc : seed.rev = n.fwd
        · rw [if_pos hc, List.mem_singleton] at h
          refine ⟨⟨n, false⟩, hn, hnu, hc, by simp, ?_⟩
          rw [h, extendFwd_eq]
        · rw [if_neg hc] at h; cases h
      · by_cases hc : seed.rev = revComp n.rev ∧ seed.rev ≠ revComp seed.rev
        · rw [if_pos hc, List.mem_singleton] at h
          refine ⟨⟨n, true⟩, hn, hnu, hc.1, fun _ => hc.2, ?_⟩
          rw [h, extendRev_eq]
        · rw [if_neg hc] at h; cases h
  · rintro ⟨⟨n, b⟩, hn, hnu, hf, hp, rfl⟩
    refine ⟨n, hn, ?_⟩
    have hu : ¬ alreadyUsed used n = true := fun h => hnu ((alreadyUsed_iff used n).1 h)
    rw [if_neg hu, List.mem_append]
    cases b
    · left
      have hc : seed.rev = n.fwd := hf
      simp [hc, extendFwd_eq]
    · right
      have hc : seed.rev = revComp n.rev := hf
      have hp' := hp rfl
      rw [if_pos ⟨hc, hp'⟩]
      simp [extendRev_eq]

/-! ### linked lists of fragments -/

/-- reverse overhang of the last fragment of `a :: l` -/
def lastRev (a : Fragment) : List Fragment → Str
  | [] => a.rev
  | b :: l => lastRev b l

theorem lastRev_snoc (a : Fragment) (l : List Fragment) (b : Fragment) : lastRev a (l ++ [b]) = b.rev := by
  induction l generalizing a with
  | nil => rfl
  | cons c l ih => exact ih c

theorem lastRev_append_cons (a : Fragment) (l : List Fragment) (b : Fragment) (r : List Fragment) :
    lastRev a (l ++ b :: r) = lastRev b r := by
  induction l generalizing a with
  | nil => rfl
  | cons c l ih => exact ih c

theorem getLast?_lastRev (a : Fragment) (l : List Fragment) : (a :: l).getLast?.map (·.rev) = some (lastRev a l) := by
  induction l generalizing a with
  | nil => rfl
  | cons c l ih => rw [List.getLast?_cons_cons]; exact ih c

theorem closes_cons (a : Fragment) (l : List Fragment) : closes (a :: l) = (lastRev a l == a.fwd) := by
  have h := getLast?_lastRev a l
  unfold closes
  simp only [List.head?_cons]
  cases hg : (a :: l).getLast? with
  | none => simp at hg
  | some t =>
    rw [hg] at h
    simp only [Option.map_some, Option.some.injEq] at h
    simp [h]

theorem linked_cons_cons (a b : Fragment) (l : List Fragment) :
    linked (a :: b :: l) = ((a.rev == b.fwd) && linked (b :: l)) := rfl

theorem linked_snoc (a : Fragment) (l : List Fragment) (b : Fragment) :
    linked (a :: l ++ [b]) = (linked (a :: l) && (lastRev a l == b.fwd)) := by
  induction l generalizing a with
  | nil => simp [linked, lastRev]
  | cons c l ih =>
    have := ih c
    simp only [List.cons_append] at this ⊢
    rw [linked_cons_cons, this, linked_cons_cons]
    simp [lastRev, Bool.and_assoc]

theorem linked_append_cons (a : Fragment) (l : List Fragment) (b : Fragment) (r : List Fragment) :
    linked (a :: l ++ b :: r) = (linked (a :: l) && (lastRev a l == b.fwd) && linked (b :: r)) := by
  induction l generalizing a with
  | nil => simp [linked, lastRev]
  | cons c l ih =>
    have := ih c
    simp only [List.cons_append] at this ⊢
    rw [linked_cons_cons, this, linked_cons_cons]
    simp [lastRev, Bool.and_assoc]

theorem molecule_cons (o : Oriented) (os : List Oriented) :
    molecule (o :: os) = o.get.fwd ++ o.get.seq ++ molecule os := by
  simp [molecule]

theorem molecule_append (a b : List Oriented) : molecule (a ++ b) = molecule a ++ molecule b := by
  simp [molecule]

/-! ### the chain invariant -/

/-- the partial construct `seed` with its `used` list is the chain of oriented fragments `o₀ :: mid` -/
structure Chain (pool : List Fragment) (o₀ : Oriented) (mid : List Oriented) (seed : Fragment) (used : List Fragment) : Prop where
  used_eq : used = (o₀ :: mid).map (·.frag)
  mem : ∀ o ∈ o₀ :: mid, o.frag ∈ pool
  nodup : used.Nodup
  linked : linked ((o₀ :: mid).map (·.get)) = true
  fwd_eq : seed.fwd = o₀.get.fwd
  rev_eq : seed.rev = lastRev o₀.get (mid.map (·.get))
  mol : seed.fwd ++ seed.seq = molecule (o₀ :: mid)

theorem Chain.start {pool : List Fragment} {f : Fragment} (hf : f ∈ pool) : Chain pool ⟨f, false⟩ [] f [f] where
  used_eq := rfl
  mem := by simp [hf]
  nodup := by simp
  linked := rfl
  fwd_eq := rfl
  rev_eq := rfl
  mol := by simp [molecule, Oriented.get]

theorem Chain.extend {pool : List Fragment} {o₀ : Oriented} {mid : List Oriented} {seed : Fragment} {used : List Fragment}
    (h : Chain pool o₀ mid seed used) {o : Oriented} (hp : o.frag ∈ pool) (hu : o.frag ∉ used) (hl : seed.rev = o.get.fwd) :
    Chain pool o₀ (mid ++ [o]) (Ligate.extend seed o.get) (used ++ [o.frag]) where
  used_eq := by rw [h.used_eq]; simp
  mem := by
    intro x hx
    rw [← List.cons_append, List.mem_append, List.mem_singleton] at hx
    rcases hx with hx | rfl
    · exact h.mem x hx
    · exact hp
  nodup := by
    rw [List.nodup_append]
    refine ⟨h.nodup, by simp, ?_⟩
    intro a ha b hb
    rw [List.mem_singleton] at hb
    subst hb
    intro e; exact hu (e ▸ ha)
  linked := by
    have := linked_snoc o₀.get (mid.map (·.get)) o.get
    simp only [List.map_cons, List.map_append, List.map_nil] at this ⊢
    rw [List.cons_append] at this
    rw [this, ← h.rev_eq, hl]
    have hk := h.linked
    simp only [List.map_cons] at hk
    simp [hk]
  fwd_eq := h.fwd_eq
  rev_eq := by
    simp only [List.map_append, List.map_cons, List.map_nil]
    rw [lastRev_snoc]; rfl
  mol := by
    rw [← List.cons_append, molecule_append, ← h.mol]
    simp [Ligate.extend, molecule, hl]

theorem Chain.ring_of_closed {pool : List Fragment} {o₀ : Oriented} {mid : List Oriented} {seed : Fragment} {used : List Fragment}
    (h : Chain pool o₀ mid seed used) (hc : seed.fwd = seed.rev) : Ring pool (o₀ :: mid) where
  nonempty := by simp
  mem := h.mem
  distinct := h.used_eq ▸ h.nodup
  linked := h.linked
  closes := by
    simp only [List.map_cons]
    rw [closes_cons, ← h.rev_eq, ← h.fwd_eq, hc]; simp

/-- soundness of the recursion: everything sent below a call is the molecule of a ring that extends the call's
chain, and the extension never returns to the seed's forward overhang before it closes and attaches flipped
fragments only at non-palindromic overhangs -/
theorem sound_aux (pool : List Fragment) : ∀ (fuel : Nat) (seed : Fragment) (used : List Fragment) (o₀ : Oriented) (mid : List Oriented),
    Chain pool o₀ mid seed used → ∀ c ∈ emits (recurseLigate pool fuel seed used),
      ∃ ext, Ring pool (o₀ :: mid ++ ext) ∧ c = molecule (o₀ :: mid ++ ext) ∧
        (∀ o ∈ ext, o.junction ≠ o₀.junction) ∧ (∀ o ∈ ext, o.flipped = true → revComp o.junction ≠ o.junction)
  | 0, _, _, _, _, _, c, hc => by simp [recurseLigate, emits] at hc
  | fuel + 1, seed, used, o₀, mid, h, c, hc => by
    rw [emits_succ] at hc
    split at hc
    · rename_i hcl
      rw [List.mem_singleton] at hc
      exact ⟨[], by simpa using h.ring_of_closed hcl, by rw [hc, h.mol]; simp, by simp, by simp⟩
    · rename_i hncl
      rw [List.mem_flatMap] at hc
      obtain ⟨ch, hch, hc⟩ := hc
      obtain ⟨o, hp, hu, hl, hpal, rfl⟩ := mem_children.1 hch
      obtain ⟨ext, hr, he, hj, hq⟩ := sound_aux pool fuel _ _ o₀ (mid ++ [o]) (h.extend hp hu hl) c hc
      refine ⟨o :: ext, by simpa using hr, by simpa using he, ?_, ?_⟩
      · intro x hx
        rcases List.mem_cons.1 hx with rfl | hx
        · intro e
          apply hncl
          rw [h.fwd_eq, hl]; exact e.symm
        · exact hj x hx
      · intro x hx hfl
        rcases List.mem_cons.1 hx with rfl | hx
        · have := hpal hfl
          rw [hl] at this
          exact fun e => this e.symm
        · exact hq x hx hfl

/-- completeness of the recursion along one path: a ring that extends the call's chain by `suf`, whose
remaining junction overhangs differ from the seed's forward overhang and are non-palindromic where a
flipped fragment is attached, is sent (fuel: one level per remaining fragment) -/
theorem complete_aux (pool : List Fragment) : ∀ (suf : List Oriented) (fuel : Nat) (seed : Fragment) (used : List Fragment)
    (o₀ : Oriented) (mid : List Oriented), Chain pool o₀ mid seed used →
    (∀ o ∈ suf, o.frag ∈ pool) → ((o₀ :: mid ++ suf).map (·.frag)).Nodup →
    linked ((o₀ :: mid ++ suf).map (·.get)) = true → closes ((o₀ :: mid ++ suf).map (·.get)) = true →
    (∀ o ∈ suf, o.junction ≠ o₀.junction) → (∀ o ∈ suf, o.flipped = true → revComp o.junction ≠ o.junction) →
    suf.length < fuel → molecule (o₀ :: mid ++ suf) ∈ emits (recurseLigate pool fuel seed used)
  | [], fuel, seed, used, o₀, mid, h, _, _, _, hcl, _, _, hf => by
    obtain ⟨fuel, rfl⟩ : ∃ k, fuel = k + 1 := ⟨fuel - 1, by simp at hf; omega⟩
    rw [emits_succ]
    have hc : seed.fwd = seed.rev := by
      simp only [List.append_nil, List.map_cons] at hcl
      rw [closes_cons] at hcl
      rw [h.fwd_eq, h.rev_eq]; exact (by simpa using hcl : _ = _).symm
    rw [if_pos hc, List.append_nil, h.mol]; simp
  | o :: suf, fuel, seed, used, o₀, mid, h, hm, hnd, hl, hcl, hj, hpal, hf => by
    obtain ⟨fuel, rfl⟩ : ∃ k, fuel = k + 1 := ⟨fuel - 1, by simp at hf; omega⟩
    have hlk : seed.rev = o.get.fwd := by
      have := linked_append_cons o₀.get (mid.map (·.get)) o.get (suf.map (·.get))
      simp only [List.map_cons, List.map_append] at hl this
      rw [this] at hl
      simp only [Bool.and_eq_true, beq_iff_eq] at hl
      rw [h.rev_eq]; exact hl.1.2
    have hne : ¬ seed.fwd = seed.rev := by
      rw [h.fwd_eq, hlk]
      exact fun e => hj o (List.mem_cons_self ..) e.symm
    have hu : o.frag ∉ used := by
      rw [h.used_eq]
      intro hmem
      have : (o₀ :: mid ++ o :: suf).map (·.frag) = (o₀ :: mid).map (·.frag) ++ o.frag :: suf.map (·.frag) := by simp
      rw [this, List.nodup_append] at hnd
      exact hnd.2.2 _ hmem _ (List.mem_cons_self ..) rfl
    have hch : (extend seed o.get, used ++ [o.frag]) ∈ children pool seed used :=
      mem_children.2 ⟨o, hm o (List.mem_cons_self ..), hu, hlk, fun hfl => by
        have := hpal o (List.mem_cons_self ..) hfl
        rw [hlk]; exact fun e => this e.symm, rfl⟩
    rw [emits_succ, if_neg hne, List.mem_flatMap]
    refine ⟨_, hch, ?_⟩
    have e : o₀ :: mid ++ o :: suf = o₀ :: (mid ++ [o]) ++ suf := by simp
    rw [e] at hnd hl hcl ⊢
    exact complete_aux pool suf fuel _ _ o₀ (mid ++ [o]) (h.extend (hm o (List.mem_cons_self ..)) hu hlk)
      (fun x hx => hm x (List.mem_cons_of_mem _ hx)) hnd hl hcl
      (fun x hx => hj x (List.mem_cons_of_mem _ hx)) (fun x hx => hpal x (List.mem_cons_of_mem _ hx))
      (by simp at hf; omega)

/-! ### rings under rotation -/

theorem isRotation_append_comm (a b : Str) : IsRotation (b ++ a) (a ++ b) :=
  ⟨a.length, by rw [rotl_eq_rotate, List.rotate_append_length_eq]⟩

theorem cyclic_rotate (p : Fragment) (pre : List Fragment) (o : Fragment) (post : List Fragment)
    (hl : linked (p :: pre ++ o :: post) = true) (hc : closes (p :: pre ++ o :: post) = true) :
    linked (o :: post ++ p :: pre) = true ∧ closes (o :: post ++ p :: pre) = true := by
  rw [linked_append_cons] at hl
  rw [List.cons_append, closes_cons, lastRev_append_cons] at hc
  simp only [Bool.and_eq_true] at hl
  rw [linked_append_cons, List.cons_append, closes_cons, lastRev_append_cons]
  simp [hl.1.1, hl.1.2, hl.2, hc]

theorem Ring.rotate {pool : List Fragment} {pre : List Oriented} {o : Oriented} {post : List Oriented}
    (h : Ring pool (pre ++ o :: post)) : Ring pool (o :: post ++ pre) := by
  have hperm : (o :: post ++ pre).Perm (pre ++ o :: post) := List.perm_append_comm
  cases pre with
  | nil => simpa using h
  | cons p pre =>
    have := cyclic_rotate p.get (pre.map (·.get)) o.get (post.map (·.get))
      (by simpa using h.linked) (by simpa using h.closes)
    exact { nonempty := by simp
            mem := fun x hx => h.mem x (hperm.mem_iff.1 hx)
            distinct := ((hperm.map _).nodup_iff).2 h.distinct
            linked := by simpa using this.1
            closes := by simpa using this.2 }

theorem Simple.rotate {pre : List Oriented} {o : Oriented} {post : List Oriented}
    (h : Simple (pre ++ o :: post)) : Simple (o :: post ++ pre) := by
  have hperm : (o :: post ++ pre).Perm (pre ++ o :: post) := List.perm_append_comm
  exact ⟨((hperm.map _).nodup_iff).2 h.1, fun x hx => h.2 x (hperm.mem_iff.1 hx)⟩

theorem mem_emitted {pool : List Fragment} {c : Str} :
    c ∈ emitted pool ↔ ∃ f ∈ pool, c ∈ emits (recurseLigate pool pool.length f [f]) := by
  simp [emitted, seedWorks, List.mem_flatMap]

/-- a ring whose first fragment is supplied in the orientation it is used in, whose other junction overhangs
differ from the first, and in which flipped fragments sit on non-palindromic overhangs, is sent — exactly -/
theorem complete_from_head {pool : List Fragment} {f : Fragment} {suf : List Oriented}
    (hr : Ring pool (⟨f, false⟩ :: suf)) (hj : ∀ o ∈ suf, o.junction ≠ f.fwd)
    (hpal : ∀ o ∈ suf, o.flipped = true → revComp o.junction ≠ o.junction) :
    molecule (⟨f, false⟩ :: suf) ∈ emitted pool := by
  have hf : f ∈ pool := hr.mem ⟨f, false⟩ (List.mem_cons_self ..)
  refine mem_emitted.2 ⟨f, hf, ?_⟩
  have hlen : (⟨f, false⟩ :: suf : List Oriented).length ≤ pool.length := by
    have := List.Nodup.length_le_of_subset hr.distinct (fun x hx => by
      obtain ⟨o, ho, rfl⟩ := List.mem_map.1 hx
      exact hr.mem o ho)
    simpa using this
  have := complete_aux pool suf pool.length f [f] ⟨f, false⟩ [] (Chain.start hf)
    (fun o ho => hr.mem o (List.mem_cons_of_mem _ ho)) (by simpa using hr.distinct) (by simpa using hr.linked)
    (by simpa using hr.closes) hj hpal (by simp at hlen; omega)
  simpa using this

/-! ### rings read from the other strand -/

/-- reverse-complementing twice gives the strings of the fragment back (true of every ACGT / IUPAC fragment) -/
def RcInv (f : Fragment) : Prop :=
  revComp (revComp f.seq) = f.seq ∧ revComp (revComp f.fwd) = f.fwd ∧ revComp (revComp f.rev) = f.rev

theorem linked_iff : ∀ l : List Fragment, linked l = true ↔ l.IsChain (fun a b => a.rev = b.fwd)
  | [] => by simp [linked]
  | [a] => by simp [linked]
  | a :: b :: l => by
    rw [linked_cons_cons, List.isChain_cons_cons, Bool.and_eq_true, beq_iff_eq, linked_iff (b :: l)]

theorem map_rev_eq (g : Fragment) (gs : List Fragment) (h : linked (g :: gs) = true) :
    (g :: gs).map (·.rev) = gs.map (·.fwd) ++ [lastRev g gs] := by
  induction gs generalizing g with
  | nil => rfl
  | cons b t ih =>
    rw [linked_cons_cons, Bool.and_eq_true, beq_iff_eq] at h
    have := ih b h.2
    simp only [List.map_cons] at this ⊢
    rw [this, h.1]; rfl

theorem mol_shift (g : Fragment) (gs : List Fragment) (h : linked (g :: gs) = true) :
    ((g :: gs).flatMap fun f => f.fwd ++ f.seq) ++ lastRev g gs = g.fwd ++ (g :: gs).flatMap fun f => f.seq ++ f.rev := by
  induction gs generalizing g with
  | nil => simp [lastRev]
  | cons b t ih =>
    rw [linked_cons_cons, Bool.and_eq_true, beq_iff_eq] at h
    have := ih b h.2
    rw [List.flatMap_cons, List.append_assoc, show lastRev g (b :: t) = lastRev b t from rfl, this]
    simp [h.1]

theorem revComp_nil : revComp [] = [] := rfl

theorem revComp_flatMap (φ : Fragment → Str) (F : List Fragment) :
    revComp (F.flatMap φ) = F.reverse.flatMap fun a => revComp (φ a) := by
  induction F with
  | nil => rfl
  | cons a F ih => simp [List.flatMap_cons, Props.C11.rc_append, ih, List.flatMap_append]

/-- a ring all of whose fragments are flipped, read from the other strand: the same pool fragments
in reverse order, all in the orientation they are supplied in -/
theorem mirror_ring {pool : List Fragment} {os : List Oriented} (hr : Ring pool os)
    (hall : ∀ o ∈ os, o.flipped = true) (hinv : ∀ f ∈ pool, RcInv f) :
    Ring pool (os.reverse.map fun o => (⟨o.frag, false⟩ : Oriented)) ∧
    IsRotation (revComp (molecule os)) (molecule (os.reverse.map fun o => (⟨o.frag, false⟩ : Oriented))) ∧
    ((os.map (·.junction)).Nodup → ((os.reverse.map fun o => (⟨o.frag, false⟩ : Oriented)).map (·.junction)).Nodup) := by
  -- everything in terms of the list of pool fragments
  obtain ⟨F, hF⟩ : ∃ F, F = os.map (·.frag) := ⟨_, rfl⟩
  have hget : os.map (·.get) = F.map flip := by
    rw [hF, List.map_map]
    exact List.map_congr_left fun o ho => by simp [Oriented.get, hall o ho]
  have hget' : (os.reverse.map fun o => (⟨o.frag, false⟩ : Oriented)).map (·.get) = F.reverse := by
    rw [hF, List.map_map, ← List.map_reverse]; rfl
  have hfrag' : (os.reverse.map fun o => (⟨o.frag, false⟩ : Oriented)).map (·.frag) = F.reverse := by
    rw [hF, List.map_map, ← List.map_reverse]; rfl
  have hFmem : ∀ f ∈ F, f ∈ pool := by
    intro f hf; rw [hF] at hf
    obtain ⟨o, ho, rfl⟩ := List.mem_map.1 hf
    exact hr.mem o ho
  have hFne : F ≠ [] := by rw [hF]; simpa using hr.nonempty
  have hlink : F.reverse.IsChain (fun a b => a.rev = b.fwd) := by
    rw [List.isChain_reverse]
    have h1 := (linked_iff _).1 (hget ▸ hr.linked)
    rw [List.isChain_map] at h1
    refine h1.imp_of_mem_imp fun a b ha hb hab => ?_
    have h2 : revComp a.fwd = revComp b.rev := hab
    have := congrArg revComp h2
    rw [(hinv a (hFmem a ha)).2.1, (hinv b (hFmem b hb)).2.2] at this
    exact this.symm
  have hlinked : linked F.reverse = true := (linked_iff _).2 hlink
  have hclose : closes F.reverse = true := by
    have h1 := hr.closes
    rw [hget] at h1
    unfold closes at h1 ⊢
    simp only [List.head?_map, List.getLast?_map, List.head?_reverse, List.getLast?_reverse] at h1 ⊢
    cases hh : F.head? with
    | none => simp [hh] at h1
    | some a =>
      cases ht : F.getLast? with
      | none => simp [hh, ht] at h1
      | some z =>
        rw [hh, ht] at h1
        simp only [Option.map_some, beq_iff_eq] at h1 ⊢
        have h2 : revComp z.fwd = revComp a.rev := h1
        have := congrArg revComp h2
        rw [(hinv z (hFmem z (List.mem_of_getLast? ht))).2.1, (hinv a (hFmem a (List.mem_of_head? hh))).2.2] at this
        exact this.symm
  refine ⟨?_, ?_, ?_⟩
  · exact { nonempty := by simpa using hr.nonempty
            mem := by
              intro o ho
              obtain ⟨o', ho', rfl⟩ := List.mem_map.1 ho
              exact hr.mem o' (List.mem_reverse.1 ho')
            distinct := by
              rw [hfrag', List.nodup_reverse, hF]; exact hr.distinct
            linked := by rw [hget']; exact hlinked
            closes := by rw [hget']; exact hclose }
  · -- the molecule
    have hm' : molecule (os.reverse.map fun o => (⟨o.frag, false⟩ : Oriented)) = F.reverse.flatMap fun f => f.fwd ++ f.seq := by
      unfold molecule; rw [hget']
    have hm : revComp (molecule os) = F.reverse.flatMap fun f => f.seq ++ f.rev := by
      unfold molecule
      rw [hget, List.flatMap_map, revComp_flatMap]
      refine List.flatMap_congr fun a ha => ?_
      have hi := hinv a (hFmem a (List.mem_reverse.1 ha))
      simp only [Rings.flip]
      rw [Props.C11.rc_append, hi.1, hi.2.2]
    rw [hm, hm']
    cases hG : F.reverse with
    | nil => simp at hG; exact absurd hG hFne
    | cons g gs =>
      rw [hG] at hlinked hclose
      have hsh := mol_shift g gs hlinked
      rw [closes_cons, beq_iff_eq] at hclose
      rw [hclose, List.flatMap_cons, List.append_assoc, List.append_assoc] at hsh
      have := List.append_cancel_left hsh
      -- this : g.seq ++ rest ++ g.fwd = (g :: gs).flatMap (seq ++ rev)
      rw [← this, List.flatMap_cons, List.append_assoc]
      have := isRotation_append_comm g.fwd (g.seq ++ (gs.flatMap fun f => f.fwd ++ f.seq))
      simpa [List.append_assoc] using this
  · intro hnd
    have h1 : (os.map (·.junction)) = F.map fun a => revComp a.rev := by
      have : os.map (·.junction) = (os.map (·.get)).map (·.fwd) := by rw [List.map_map]; rfl
      rw [this, hget, List.map_map]; rfl
    rw [h1] at hnd
    have h2 : (F.map (·.rev)).Nodup := by
      have : F.map (fun a => revComp a.rev) = (F.map (·.rev)).map revComp := by rw [List.map_map]; rfl
      rw [this] at hnd
      exact hnd.of_map _
    have h3 : ((os.reverse.map fun o => (⟨o.frag, false⟩ : Oriented)).map (·.junction)) = F.reverse.map (·.fwd) := by
      have : ∀ l : List Oriented, l.map (·.junction) = (l.map (·.get)).map (·.fwd) := fun l => by rw [List.map_map]; rfl
      rw [this, hget']
    rw [h3]
    cases hG : F.reverse with
    | nil => simp
    | cons g gs =>
      rw [hG] at hlinked hclose
      have hmr := map_rev_eq g gs hlinked
      rw [closes_cons, beq_iff_eq] at hclose
      rw [hclose] at hmr
      have hp : ((g :: gs).map (·.fwd)).Perm ((g :: gs).map (·.rev)) := by
        rw [hmr]; simp only [List.map_cons]
        exact (List.perm_append_singleton _ _).symm
      have : ((g :: gs).map (·.rev)).Nodup := by
        rw [← hG, List.map_reverse, List.nodup_reverse]; exact h2
      exact hp.nodup_iff.2 this

/-! ### the collector -/

theorem any_beq_iff (ex : List Key) (k : Key) : (ex.any fun e => e == k) = true ↔ k ∈ ex := by
  rw [List.any_eq_true]
  constructor
  · rintro ⟨u, hu, h⟩
    have : u = k := by simpa using h
    exact this ▸ hu
  · intro h; exact ⟨k, h, by simp⟩

theorem collect_spec (key : Str → Key) : ∀ (arr cs : List Str) (ex : List Key), ex = cs.map key → (cs.map key).Nodup →
    ((collect key arr cs ex).map key).Nodup ∧
    (∀ k, k ∈ (collect key arr cs ex).map key ↔ k ∈ cs.map key ∨ k ∈ arr.map key) ∧
    (∀ c ∈ collect key arr cs ex, c ∈ cs ∨ c ∈ arr)
  | [], cs, ex, _, hnd => by simp [collect, hnd]
  | c :: rest, cs, ex, hex, hnd => by
    by_cases hk : key c ∈ ex
    · have hc : collect key (c :: rest) cs ex = collect key rest cs ex := by
        simp only [collect]; rw [if_pos ((any_beq_iff ex (key c)).2 hk)]
      obtain ⟨h1, h2, h3⟩ := collect_spec key rest cs ex hex hnd
      rw [hc]
      refine ⟨h1, fun k => ?_, fun x hx => ?_⟩
      · rw [h2 k]; simp only [List.map_cons, List.mem_cons]
        constructor
        · rintro (h | h); exact Or.inl h; exact Or.inr (Or.inr h)
        · rintro (h | h | h)
          · exact Or.inl h
          · left; rw [h, ← hex]; exact hk
          · exact Or.inr h
      · rcases h3 x hx with h | h
        · exact Or.inl h
        · exact Or.inr (List.mem_cons_of_mem _ h)
    · have hc : collect key (c :: rest) cs ex = collect key rest (cs ++ [c]) (ex ++ [key c]) := by
        simp only [collect]; rw [if_neg (fun h => hk ((any_beq_iff ex (key c)).1 h))]
      have hnd' : ((cs ++ [c]).map key).Nodup := by
        rw [List.map_append, List.nodup_append]
        refine ⟨hnd, by simp, ?_⟩
        intro a ha b hb
        simp only [List.map_cons, List.map_nil, List.mem_singleton] at hb
        subst hb
        intro e; exact hk (hex ▸ e ▸ ha)
      obtain ⟨h1, h2, h3⟩ := collect_spec key rest (cs ++ [c]) (ex ++ [key c]) (by rw [hex]; simp) hnd'
      rw [hc]
      refine ⟨h1, fun k => ?_, fun x hx => ?_⟩
      · rw [h2 k]; simp only [List.map_append, List.map_cons, List.map_nil, List.mem_append, List.mem_cons, List.not_mem_nil, or_false]
        constructor
        · rintro ((h | h) | h)
          · exact Or.inl h
          · exact Or.inr (Or.inl h)
          · exact Or.inr (Or.inr h)
        · rintro (h | h | h)
          · exact Or.inl (Or.inl h)
          · exact Or.inl (Or.inr h)
          · exact Or.inr h
      · rcases h3 x hx with h | h
        · rw [List.mem_append, List.mem_singleton] at h
          rcases h with h | h
          · exact Or.inl h
          · exact Or.inr (h ▸ List.mem_cons_self ..)
        · exact Or.inr (List.mem_cons_of_mem _ h)

theorem getConstructsWith_nodup (key : Str → Key) (arr : List Str) : ((getConstructsWith key arr).map key).Nodup :=
  (collect_spec key arr [] [] rfl (by simp)).1

theorem mem_keys_getConstructsWith (key : Str → Key) (arr : List Str) (k : Key) :
    k ∈ (getConstructsWith key arr).map key ↔ k ∈ arr.map key := by
  have := (collect_spec key arr [] [] rfl (by simp)).2.1 k
  simpa [getConstructsWith] using this

theorem getConstructsWith_subset (key : Str → Key) (arr : List Str) : ∀ c ∈ getConstructsWith key arr, c ∈ arr := by
  intro c hc
  have := (collect_spec key arr [] [] rfl (by simp)).2.2 c hc
  simpa using this

/-! ### the key on DNA strings -/

theorem mem_acgt_of_isDna {a : Str} (h : isDna a = true) : ∀ x ∈ a, x ∈ Props.C11.acgt := by
  intro x hx
  have := (List.all_eq_true.1 h) x hx
  simp only [Bool.or_eq_true, beq_iff_eq] at this
  simp only [Props.C11.acgt, List.mem_cons, List.not_mem_nil, or_false]
  tauto

theorem isDna_of_mem_acgt {a : Str} (h : ∀ x ∈ a, x ∈ Props.C11.acgt) : isDna a = true := by
  refine List.all_eq_true.2 fun x hx => ?_
  have := h x hx
  simp only [Props.C11.acgt, List.mem_cons, List.not_mem_nil, or_false] at this
  simp only [Bool.or_eq_true, beq_iff_eq]
  tauto

theorem isDna_revComp {a : Str} (h : isDna a = true) : isDna (revComp a) = true :=
  isDna_of_mem_acgt (Props.C11.rc_acgt (mem_acgt_of_isDna h))

theorem isDna_append {a b : Str} : isDna (a ++ b) = true ↔ isDna a = true ∧ isDna b = true := by
  simp [isDna, List.all_append]

theorem rc_rc_of_isDna {a : Str} (h : isDna a = true) : revComp (revComp a) = a :=
  Props.C11.rc_rc (Props.C11.acgt_iupac (mem_acgt_of_isDna h))

theorem acgt_upper_valid : ∀ c ∈ Props.C11.acgt, c.toUpper = c ∧ Seqhash.nucleotideLetters.contains c = true ∧ ¬ c.toNat > 127 := by decide

theorem key_dna {a : Str} (h : isDna a = true) :
    key a = Key.canon (lexMin (leastRotation a) (leastRotation (revComp a))) := by
  have hm := mem_acgt_of_isDna h
  have hu : upper a = a := by
    unfold upper
    conv => rhs; rw [← List.map_id a]
    exact List.map_congr_left fun c hc => (acgt_upper_valid c (hm c hc)).1
  have hv : (a.all fun c => Seqhash.nucleotideLetters.contains c) = true :=
    List.all_eq_true.2 fun c hc => (acgt_upper_valid c (hm c hc)).2.1
  have ha : (a.any fun c => decide (c.toNat > 127)) = false := by
    rw [List.any_eq_false]
    intro c hc
    simpa using (acgt_upper_valid c (hm c hc)).2.2
  unfold key keyWith
  simp only [ha, hu, hv, if_true, Bool.false_eq_true, if_false]
  rfl

theorem revComp_isRotation {a b : Str} (h : IsRotation a b) : IsRotation (revComp a) (revComp b) := by
  unfold Transform.revComp Transform.complement
  exact (h.map _).reverse

/-- on DNA strings: equal key ⇔ same circular double-stranded molecule -/
theorem key_eq_iff {a b : Str} (ha : isDna a = true) (hb : isDna b = true) :
    key a = key b ↔ SameMolecule a b := by
  rw [key_dna ha, key_dna hb]
  have ra := rc_rc_of_isDna ha
  have rb := rc_rc_of_isDna hb
  constructor
  · intro h
    have h : lexMin (leastRotation a) (leastRotation (Transform.revComp a)) =
        lexMin (leastRotation b) (leastRotation (Transform.revComp b)) := by injection h
    rcases lexMin_eq_or (leastRotation a) (leastRotation (Transform.revComp a)) with e1 | e1 <;>
    rcases lexMin_eq_or (leastRotation b) (leastRotation (Transform.revComp b)) with e2 | e2 <;>
    rw [e1, e2] at h
    · exact Or.inl (leastRotation_eq_iff.1 h)
    · right
      have := revComp_isRotation (leastRotation_eq_iff.1 h)
      rwa [rb] at this
    · exact Or.inr (leastRotation_eq_iff.1 h)
    · left
      have := revComp_isRotation (leastRotation_eq_iff.1 h)
      rwa [ra, rb] at this
  · rintro (h | h)
    · rw [leastRotation_congr h, leastRotation_congr (revComp_isRotation h)]
    · have h' := revComp_isRotation h
      rw [ra] at h'
      rw [leastRotation_congr h, leastRotation_congr h', lexMin_comm]

/-! ### the order of the pool -/

theorem perm_flatMap_both {α β : Type} {l₁ l₂ : List α} {f g : α → List β} (hp : l₁.Perm l₂)
    (hfg : ∀ a ∈ l₁, (f a).Perm (g a)) : (l₁.flatMap f).Perm (l₂.flatMap g) := by
  refine List.Perm.trans ?_ (List.Perm.flatMap_right g hp)
  clear hp
  induction l₁ with
  | nil => simp
  | cons a l ih =>
    simp only [List.flatMap_cons]
    exact (hfg a (List.mem_cons_self ..)).append (ih fun b hb => hfg b (List.mem_cons_of_mem _ hb))

theorem emits_perm {pool' pool : List Fragment} (hp : pool'.Perm pool) : ∀ (fuel : Nat) (seed : Fragment) (used : List Fragment),
    (emits (recurseLigate pool' fuel seed used)).Perm (emits (recurseLigate pool fuel seed used))
  | 0, _, _ => by simp [recurseLigate, emits]
  | fuel + 1, seed, used => by
    rw [emits_succ, emits_succ]
    split
    · exact List.Perm.refl _
    · refine perm_flatMap_both ?_ fun ch _ => emits_perm hp fuel ch.1 ch.2
      unfold children
      exact List.Perm.flatMap_right _ hp

theorem emitted_perm {pool' pool : List Fragment} (hp : pool'.Perm pool) : (emitted pool').Perm (emitted pool) := by
  unfold emitted seedWorks
  rw [List.flatMap_map, List.flatMap_map, hp.length_eq]
  exact perm_flatMap_both hp fun f _ => emits_perm hp _ _ _

/-! ### fuel -/

/-- pool entries that may still be ligated in: the recursion's variant -/
def unused (pool used : List Fragment) : Nat := (pool.filter fun n => !alreadyUsed used n).length

theorem unused_lt {pool used : List Fragment} {n : Fragment} (hn : n ∈ pool) (hu : n ∉ used) :
    unused pool (used ++ [n]) < unused pool used := by
  unfold unused
  induction pool with
  | nil => cases hn
  | cons a pool ih =>
    have hmono : ∀ l : List Fragment, (l.filter fun x => !alreadyUsed (used ++ [n]) x).length ≤ (l.filter fun x => !alreadyUsed used x).length := by
      intro l
      induction l with
      | nil => simp
      | cons b l ihl =>
        simp only [List.filter_cons]
        by_cases hb : alreadyUsed used b = true
        · have hb' : alreadyUsed (used ++ [n]) b = true := (alreadyUsed_iff _ _).2 (List.mem_append_left _ ((alreadyUsed_iff _ _).1 hb))
          simp [hb, hb']; exact ihl
        · simp only [hb]; split <;> simp <;> omega
    simp only [List.filter_cons]
    by_cases han : a = n
    · subst han
      have h1 : alreadyUsed (used ++ [a]) a = true := (alreadyUsed_iff _ _).2 (by simp)
      have h2 : ¬ alreadyUsed used a = true := fun h => hu ((alreadyUsed_iff _ _).1 h)
      simp only [h1, h2]
      have := hmono pool
      simp; omega
    · have hn' : n ∈ pool := by
        rcases List.mem_cons.1 hn with h | h
        · exact absurd h.symm han
        · exact h
      have := ih hn'
      by_cases ha : alreadyUsed used a = true
      · have ha' : alreadyUsed (used ++ [n]) a = true := (alreadyUsed_iff _ _).2 (List.mem_append_left _ ((alreadyUsed_iff _ _).1 ha))
        simp [ha, ha']; exact this
      · have ha' : ¬ alreadyUsed (used ++ [n]) a = true := by
          intro h
          rcases List.mem_append.1 ((alreadyUsed_iff _ _).1 h) with h | h
          · exact ha ((alreadyUsed_iff _ _).2 h)
          · exact han (by simpa using h)
        simp [ha, ha']; exact this

theorem noStuck_aux (pool : List Fragment) : ∀ (fuel : Nat) (seed : Fragment) (used : List Fragment),
    unused pool used < fuel → noStuck (recurseLigate pool fuel seed used) = true
  | 0, _, _, h => by omega
  | fuel + 1, seed, used, h => by
    rw [recurseLigate]
    split
    · rfl
    · rw [noStuck_foldr, List.all_eq_true]
      intro ch hch
      obtain ⟨o, hp, hu, _, _, rfl⟩ := mem_children.1 hch
      exact noStuck_aux pool fuel _ _ (by have := unused_lt hp hu; show unused pool (used ++ [o.frag]) < fuel; omega)

theorem unused_seed_lt {pool : List Fragment} {f : Fragment} (hf : f ∈ pool) : unused pool [f] < pool.length := by
  unfold unused
  rw [List.length_filter_lt_length_iff_exists]
  exact ⟨f, hf, by simp [alreadyUsed]⟩

theorem depth_le (pool : List Fragment) : ∀ (fuel : Nat) (seed : Fragment) (used : List Fragment),
    depth (recurseLigate pool fuel seed used) ≤ fuel
  | 0, _, _ => by simp [recurseLigate, depth]
  | fuel + 1, seed, used => by
    rw [recurseLigate]
    split
    · simp [depth]
    · exact depth_foldr_le _ _ fuel fun ch _ => depth_le pool fuel ch.1 ch.2

/-! ### designed pools: the one-lap rings are the simple rings -/

theorem lastRev_suffix {s a : Fragment} {S L : List Fragment} (h : (s :: S) <:+ (a :: L)) : lastRev s S = lastRev a L := by
  obtain ⟨t, ht⟩ := h
  cases t with
  | nil => simp only [List.nil_append, List.cons.injEq] at ht; rw [ht.1, ht.2]
  | cons b t =>
    simp only [List.cons_append, List.cons.injEq] at ht
    rw [← ht.1, ← ht.2, lastRev_append_cons]

theorem linked_suffix {S L : List Fragment} (hl : linked L = true) (h : S <:+ L) : linked S = true :=
  (linked_iff S).2 (((linked_iff L).1 hl).suffix h)

/-- if two fragments of a linked list, whose forward overhang determines the reverse overhang, have the same
forward overhang, then (pushing the pair along the list) some fragment after the first of them has the
overhang that follows the last fragment -/
theorem shift_pair (c : Str) : ∀ (Y : List Fragment) (y x : Fragment) (X' : List Fragment),
    linked (x :: X') = true → lastRev x X' = c → (y :: Y) <:+ X' →
    (∀ a ∈ x :: X', ∀ b ∈ x :: X', a.fwd = b.fwd → a.rev = b.rev) → x.fwd = y.fwd → ∃ z ∈ X', z.fwd = c := by
  intro Y
  induction Y with
  | nil =>
    intro y x X' hl hlast hsuf hfun hxy
    cases X' with
    | nil => exact absurd (List.IsSuffix.length_le hsuf) (by simp)
    | cons x' X'' =>
      rw [linked_cons_cons, Bool.and_eq_true, beq_iff_eq] at hl
      have hy : y ∈ x' :: X'' := hsuf.subset (List.mem_cons_self ..)
      have hrev : x.rev = y.rev := hfun x (List.mem_cons_self ..) y (List.mem_cons_of_mem _ hy) hxy
      have : lastRev y [] = lastRev x' X'' := lastRev_suffix hsuf
      refine ⟨x', List.mem_cons_self .., ?_⟩
      rw [← hl.1, hrev, ← hlast]; exact this
  | cons y' Y'' ih =>
    intro y x X' hl hlast hsuf hfun hxy
    cases X' with
    | nil => exact absurd (List.IsSuffix.length_le hsuf) (by simp)
    | cons x' X'' =>
      rw [linked_cons_cons, Bool.and_eq_true, beq_iff_eq] at hl
      have hy : y ∈ x' :: X'' := hsuf.subset (List.mem_cons_self ..)
      have hrev : x.rev = y.rev := hfun x (List.mem_cons_self ..) y (List.mem_cons_of_mem _ hy) hxy
      have hly := linked_suffix hl.2 hsuf
      rw [linked_cons_cons, Bool.and_eq_true, beq_iff_eq] at hly
      have hsuf' : (y' :: Y'') <:+ X'' := by
        rcases List.suffix_cons_iff.1 hsuf with h | h
        · simp only [List.cons.injEq] at h
          rw [← h.2]
        · exact (List.suffix_cons y (y' :: Y'')).trans h
      obtain ⟨z, hz, hzc⟩ := ih y' x' X'' hl.2 hlast hsuf'
        (fun a ha b hb => hfun a (List.mem_cons_of_mem _ ha) b (List.mem_cons_of_mem _ hb))
        (by rw [← hl.1, hrev, hly.1])
      exact ⟨z, List.mem_cons_of_mem _ hz, hzc⟩

theorem nodup_fwd_of_func (c : Str) : ∀ (X' : List Fragment) (x : Fragment),
    linked (x :: X') = true → lastRev x X' = c →
    (∀ a ∈ x :: X', ∀ b ∈ x :: X', a.fwd = b.fwd → a.rev = b.rev) → (∀ z ∈ X', z.fwd ≠ c) →
    ((x :: X').map (·.fwd)).Nodup := by
  intro X'
  induction X' with
  | nil => intro x _ _ _ _; simp
  | cons x' X'' ih =>
    intro x hl hlast hfun hne
    rw [List.map_cons, List.nodup_cons]
    constructor
    · intro hmem
      obtain ⟨y, hy, hyx⟩ := List.mem_map.1 hmem
      obtain ⟨A, Y, hAY⟩ := List.append_of_mem hy
      have hsuf : (y :: Y) <:+ (x' :: X'') := ⟨A, hAY.symm⟩
      obtain ⟨z, hz, hzc⟩ := shift_pair c Y y x (x' :: X'') hl hlast hsuf hfun hyx.symm
      exact hne z hz hzc
    · rw [linked_cons_cons, Bool.and_eq_true] at hl
      exact ih x' hl.2 hlast (fun a ha b hb => hfun a (List.mem_cons_of_mem _ ha) b (List.mem_cons_of_mem _ hb))
        (fun z hz => hne z (List.mem_cons_of_mem _ hz))

theorem mem_orientations {pool : List Fragment} {o : Oriented} : o ∈ orientations pool ↔ o.frag ∈ pool := by
  obtain ⟨f, b⟩ := o
  simp only [orientations, List.mem_flatMap, List.mem_cons, Oriented.mk.injEq, List.not_mem_nil, or_false]
  constructor
  · rintro ⟨g, hg, (⟨rfl, _⟩ | ⟨rfl, _⟩)⟩ <;> exact hg
  · intro h
    refine ⟨f, h, ?_⟩
    cases b <;> simp

/-- in a closed linked list every fragment's reverse overhang is some fragment's forward overhang -/
theorem succ_exists (g : Fragment) (gs : List Fragment) (hl : linked (g :: gs) = true) (hc : lastRev g gs = g.fwd) :
    ∀ a ∈ g :: gs, ∃ b ∈ g :: gs, b.fwd = a.rev := by
  intro a ha
  have h1 : a.rev ∈ (g :: gs).map (·.rev) := List.mem_map.2 ⟨a, ha, rfl⟩
  rw [map_rev_eq g gs hl, hc, List.mem_append, List.mem_singleton] at h1
  rcases h1 with h1 | h1
  · obtain ⟨b, hb, hbe⟩ := List.mem_map.1 h1
    exact ⟨b, List.mem_cons_of_mem _ hb, hbe⟩
  · exact ⟨g, List.mem_cons_self .., h1.symm⟩

/-- … and every fragment's forward overhang is some fragment's reverse overhang -/
theorem pred_exists (g : Fragment) (gs : List Fragment) (hl : linked (g :: gs) = true) (hc : lastRev g gs = g.fwd) :
    ∀ a ∈ g :: gs, ∃ b ∈ g :: gs, b.rev = a.fwd := by
  intro a ha
  have h1 : a.fwd ∈ gs.map (·.fwd) ++ [g.fwd] := by
    rcases List.mem_cons.1 ha with rfl | ha
    · simp
    · exact List.mem_append_left _ (List.mem_map.2 ⟨a, ha, rfl⟩)
  rw [← hc, ← map_rev_eq g gs hl] at h1
  obtain ⟨b, hb, hbe⟩ := List.mem_map.1 h1
  exact ⟨b, hb, hbe⟩

/-- a set of oriented fragments in which everyone has a successor and a predecessor survives pruning -/
theorem subset_pruneN (R : List Oriented)
    (hs : ∀ o ∈ R, ∃ o' ∈ R, (o'.frag ≠ o.frag ∨ o' = o) ∧ o'.get.fwd = o.get.rev)
    (hp : ∀ o ∈ R, ∃ o' ∈ R, (o'.frag ≠ o.frag ∨ o' = o) ∧ o'.get.rev = o.get.fwd) :
    ∀ (n : Nat) (S : List Oriented), (∀ o ∈ R, o ∈ S) → ∀ o ∈ R, o ∈ pruneN n S
  | 0, _, h => h
  | n + 1, S, h => by
    refine subset_pruneN R hs hp n (pruneStep S) (fun o ho => ?_)
    obtain ⟨o₁, ho₁, d₁, e₁⟩ := hs o ho
    obtain ⟨o₂, ho₂, d₂, e₂⟩ := hp o ho
    simp only [pruneStep, List.mem_filter, Bool.and_eq_true, List.any_eq_true, beq_iff_eq, Bool.or_eq_true, bne_iff_ne]
    exact ⟨h o ho, ⟨o₁, h o₁ ho₁, d₁, e₁⟩, ⟨o₂, h o₂ ho₂, d₂, e₂⟩⟩

/-- every oriented fragment of a ring survives the pruning of dead ends -/
theorem ring_subset_core {pool : List Fragment} {os : List Oriented} (hr : Ring pool os) : ∀ o ∈ os, o ∈ core pool := by
  cases os with
  | nil => exact absurd rfl hr.nonempty
  | cons o₀ rest =>
    have hl : linked (o₀.get :: rest.map (·.get)) = true := by simpa using hr.linked
    have hc : lastRev o₀.get (rest.map (·.get)) = o₀.get.fwd := by
      have := hr.closes
      simp only [List.map_cons] at this
      rw [closes_cons] at this
      simpa using this
    have hgets : ∀ a ∈ o₀.get :: rest.map (·.get), ∃ o ∈ (o₀ :: rest : List Oriented), o.get = a := by
      intro a ha
      have : a ∈ (o₀ :: rest).map (·.get) := by simpa using ha
      obtain ⟨o, ho, rfl⟩ := List.mem_map.1 this
      exact ⟨o, ho, rfl⟩
    have hmem : ∀ o ∈ (o₀ :: rest : List Oriented), o.get ∈ o₀.get :: rest.map (·.get) := by
      intro o ho
      have : o.get ∈ (o₀ :: rest).map (·.get) := List.mem_map.2 ⟨o, ho, rfl⟩
      simpa using this
    have hdist : ∀ o ∈ (o₀ :: rest : List Oriented), ∀ o' ∈ (o₀ :: rest : List Oriented), o'.frag ≠ o.frag ∨ o' = o := by
      intro o ho o' ho'
      by_cases e : o'.frag = o.frag
      · exact Or.inr (List.inj_on_of_nodup_map hr.distinct ho' ho e)
      · exact Or.inl e
    refine subset_pruneN (o₀ :: rest) (fun o ho => ?_) (fun o ho => ?_) _ _ (fun o ho => mem_orientations.2 (hr.mem o ho))
    · obtain ⟨b, hb, hbe⟩ := succ_exists _ _ hl hc o.get (hmem o ho)
      obtain ⟨o', ho', rfl⟩ := hgets b hb
      exact ⟨o', ho', hdist o ho o' ho', hbe⟩
    · obtain ⟨b, hb, hbe⟩ := pred_exists _ _ hl hc o.get (hmem o ho)
      obtain ⟨o', ho', rfl⟩ := hgets b hb
      exact ⟨o', ho', hdist o ho o' ho', hbe⟩

/-- On a designed pool a ring of the class the code closes (`OneLap`) is simple. -/
theorem designed_oneLap_simple {pool : List Fragment} (hd : designed pool = true) {f : Fragment} {suf : List Oriented}
    (hr : Ring pool (⟨f, false⟩ :: suf)) (hone : OneLap f suf) : Simple (⟨f, false⟩ :: suf) := by
  simp only [designed, Bool.and_eq_true, List.all_eq_true] at hd
  obtain ⟨⟨_, hnp⟩, hfunc⟩ := hd
  have hcore := ring_subset_core hr
  have hl : linked (f :: suf.map (·.get)) = true := by simpa [Oriented.get] using hr.linked
  have hc : lastRev f (suf.map (·.get)) = f.fwd := by
    have := hr.closes
    simp only [List.map_cons] at this
    rw [closes_cons] at this
    simpa [Oriented.get] using this
  have hgets : ∀ a ∈ f :: suf.map (·.get), ∃ o ∈ (⟨f, false⟩ :: suf : List Oriented), o.get = a := by
    intro a ha
    rcases List.mem_cons.1 ha with rfl | ha
    · exact ⟨⟨a, false⟩, List.mem_cons_self .., rfl⟩
    · obtain ⟨o, ho, rfl⟩ := List.mem_map.1 ha
      exact ⟨o, List.mem_cons_of_mem _ ho, rfl⟩
  have hfun : ∀ a ∈ f :: suf.map (·.get), ∀ b ∈ f :: suf.map (·.get), a.fwd = b.fwd → a.rev = b.rev := by
    intro a ha b hb hab
    obtain ⟨oa, hoa, rfl⟩ := hgets a ha
    obtain ⟨ob, hob, rfl⟩ := hgets b hb
    have := hfunc oa (hcore oa hoa) ob (hcore ob hob)
    simp only [hab, beq_self_eq_true, Bool.not_true, Bool.false_or, beq_iff_eq] at this
    exact this
  have hne : ∀ z ∈ suf.map (·.get), z.fwd ≠ f.fwd := by
    intro z hz
    obtain ⟨o, ho, rfl⟩ := List.mem_map.1 hz
    exact hone.1 o ho
  have hnd := nodup_fwd_of_func f.fwd (suf.map (·.get)) f hl hc hfun hne
  refine ⟨?_, fun o ho => ?_⟩
  · have : (⟨f, false⟩ :: suf : List Oriented).map (·.junction) = (f :: suf.map (·.get)).map (·.fwd) := by
      simp [Oriented.junction, Oriented.get, List.map_map, Function.comp_def]
    rw [this]; exact hnd
  · have := hnp o (hcore o ho)
    simpa using this

end PolyVerif.Ligate
