import PolyVerif.Lemmas.DigestCirc
/-
C10: the linear case.  On every linear layout of the quantifier `cutWithEnzyme (linear s)`
yields the multiset `digestLin g s` (the stretches from a forward cut to the next cut to its right
when that one is a reverse cut).
-/
namespace PolyVerif.DigestSpec
open PolyVerif

theorem linStretch_eq_some_iff {fs rs : List Int} {c : Int} {d : Nat} :
    linStretch fs rs c = some d ↔
      (∃ r ∈ rs, c ≤ r ∧ r - c = (d : Int)) ∧ (∀ r ∈ rs, c ≤ r → (d : Int) ≤ r - c) ∧
      (∀ c' ∈ fs, c < c' → (d : Int) < c' - c) := by
  unfold linStretch
  cases hm : ((rs.filter (c ≤ ·)).map fun r => (r - c).toNat).min? with
  | none =>
    have hnil : rs.filter (c ≤ ·) = [] := by simpa using hm
    simp only [false_iff, reduceCtorEq]
    rintro ⟨⟨r, hr, hcr, _⟩, _⟩
    have : r ∈ rs.filter (c ≤ ·) := List.mem_filter.2 ⟨hr, by simpa using hcr⟩
    rw [hnil] at this; simp at this
  | some d0 =>
    have hd0 := List.min?_eq_some_iff.1 hm
    simp only [List.mem_map, List.mem_filter, decide_eq_true_eq, forall_exists_index, and_imp] at hd0
    obtain ⟨⟨r0, ⟨hr0, hcr0⟩, hr0d⟩, hmin⟩ := hd0
    simp only [List.all_eq_true, List.mem_filter, decide_eq_true_eq, and_imp]
    constructor
    · intro h
      split at h
      · rename_i hall
        have : d0 = d := by simpa using h
        subst this
        refine ⟨⟨r0, hr0, hcr0, by omega⟩, ?_, hall⟩
        intro r hr hcr
        have := hmin _ r hr hcr rfl
        omega
      · simp at h
    · rintro ⟨⟨r, hr, hcr, hrd⟩, hmin', hall⟩
      have hdd : d0 = d := by
        have h1 := hmin _ r hr hcr rfl
        have h2 := hmin' r0 hr0 hcr0
        omega
      subst hdd
      rw [if_pos hall]

theorem linStretch_eq_none_of {fs rs : List Int} {c : Int} (h : ∀ r ∈ rs, r < c) : linStretch fs rs c = none := by
  rw [Option.eq_none_iff_forall_ne_some]
  intro d hd
  obtain ⟨⟨r, hr, hcr, _⟩, _⟩ := linStretch_eq_some_iff.1 hd
  have := h r hr
  omega

end PolyVerif.DigestSpec

namespace PolyVerif.Digest
open PolyVerif PolyVerif.Transform PolyVerif.DigestSpec PolyVerif.Driver.C10

/-! ### adjacency in a strictly sorted cut list = "the next cut to the right" -/

section Adjacent
variable {S : List Overhang} (hs : S.Pairwise KeyLt) {fs rs extra : List Int}
  (hfs : ∀ c, c ∈ fs ↔ (∃ o ∈ S, o.forward = true ∧ o.position = c) ∨ c ∈ extra)
  (hrs : ∀ c, c ∈ rs ↔ ∃ o ∈ S, o.forward = false ∧ o.position = c)
  (hextra : ∀ e ∈ extra, ∀ r ∈ rs, r < e)
include hs hfs hrs hextra

theorem linStretch_adjacent {a b : Overhang} (hab : (a, b) ∈ adjPairs S) (haf : a.forward = true) :
    a.position ≤ b.position ∧
    linStretch fs rs a.position = if b.forward = false then some (b.position - a.position).toNat else none := by
  obtain ⟨l1, l2, hdec⟩ := adjPairs_decomp _ a b hab
  have hs' := hs
  rw [hdec] at hs'
  obtain ⟨_, h2, h3⟩ := List.pairwise_append.1 hs'
  obtain ⟨h4, h5⟩ := List.pairwise_cons.1 h2
  obtain ⟨h6, _⟩ := List.pairwise_cons.1 h5
  have habk : KeyLt a b := h4 b (by simp)
  have habp : a.position ≤ b.position := by unfold KeyLt at habk; omega
  -- every other element lies strictly left of `a`, or at/right of `b` (strictly unless `b` forward, it reverse)
  have hbet : ∀ c ∈ S, c = a ∨ c = b ∨ c.position < a.position ∨ KeyLt b c := by
    intro c hc
    rw [hdec] at hc
    simp only [List.mem_append, List.mem_cons] at hc
    rcases hc with h | h | h | h
    · have : KeyLt c a := h3 c h a (by simp)
      rcases this with h' | ⟨_, _, h'⟩
      · exact Or.inr (Or.inr (Or.inl h'))
      · rw [haf] at h'; exact absurd h' (by simp)
    · exact Or.inl h
    · exact Or.inr (Or.inl h)
    · exact Or.inr (Or.inr (Or.inr (h6 c h)))
  have haS : a ∈ S := by rw [hdec]; simp
  have hbS : b ∈ S := by rw [hdec]; simp
  refine ⟨habp, ?_⟩
  split
  · rename_i hbf
    rw [linStretch_eq_some_iff]
    refine ⟨⟨b.position, (hrs _).2 ⟨b, hbS, hbf, rfl⟩, by omega, by omega⟩, ?_, ?_⟩
    · intro r hr hcr
      obtain ⟨c, hc, hcf, rfl⟩ := (hrs r).1 hr
      rcases hbet c hc with h | h | h | h
      · rw [h, haf] at hcf; exact absurd hcf (by simp)
      · rw [h]; omega
      · omega
      · unfold KeyLt at h; omega
    · intro c' hc' hlt
      rcases (hfs c').1 hc' with ⟨c, hc, hcf, rfl⟩ | he
      · rcases hbet c hc with h | h | h | h
        · rw [h] at hlt; omega
        · rw [h, hbf] at hcf; exact absurd hcf (by simp)
        · omega
        · rcases h with h' | ⟨_, h', _⟩
          · omega
          · rw [hbf] at h'; exact absurd h' (by simp)
      · have := hextra c' he b.position ((hrs _).2 ⟨b, hbS, hbf, rfl⟩)
        omega
  · rename_i hbf
    have hbt : b.forward = true := by simpa using hbf
    have hablt : a.position < b.position := by
      rcases habk with h | ⟨_, _, h⟩
      · exact h
      · rw [hbt] at h; exact absurd h (by simp)
    rw [Option.eq_none_iff_forall_ne_some]
    intro d hd
    obtain ⟨⟨r, hr, hcr, hrd⟩, _, hall⟩ := linStretch_eq_some_iff.1 hd
    obtain ⟨c, hc, hcf, rfl⟩ := (hrs r).1 hr
    have hb := hall b.position ((hfs _).2 (Or.inl ⟨b, hbS, hbt, rfl⟩)) hablt
    rcases hbet c hc with h | h | h | h
    · rw [h, haf] at hcf; exact absurd hcf (by simp)
    · rw [h, hbt] at hcf; exact absurd hcf (by simp)
    · omega
    · unfold KeyLt at h; omega

omit hs hfs hextra in
theorem linStretch_max {a : Overhang} (hmax : ∀ c ∈ S, c = a ∨ KeyLt c a)
    (haf : a.forward = true) : linStretch fs rs a.position = none := by
  apply linStretch_eq_none_of
  intro r hr
  obtain ⟨c, hc, hcf, rfl⟩ := (hrs r).1 hr
  rcases hmax c hc with h | h
  · rw [h, haf] at hcf; exact absurd hcf (by simp)
  · rcases h with h' | ⟨_, _, h'⟩
    · exact h'
    · rw [haf] at h'; exact absurd h' (by simp)

end Adjacent

theorem adjPairs_map_fst {α : Type} : ∀ (L : List α), (adjPairs L).map Prod.fst = L.dropLast := by
  intro L
  induction L with
  | nil => simp [adjPairs]
  | cons a r ih =>
    cases r with
    | nil => simp [adjPairs]
    | cons b r =>
      simp only [adjPairs, List.map_cons, List.dropLast_cons_cons]
      rw [ih]

theorem filterMap_forward {β : Type} (F : Int → Option β) : ∀ S : List Overhang,
    S.filterMap (fun o => if o.forward then F o.position else none) =
      ((S.filter (·.forward)).map (·.position)).filterMap F := by
  intro S
  induction S with
  | nil => simp
  | cons o r ih =>
    by_cases h : o.forward = true
    · simp only [List.filterMap_cons, h, if_true, List.filter_cons_of_pos, List.map_cons]
      rw [← ih]
    · have h' : o.forward = false := by simpa using h
      simp only [List.filterMap_cons, h', List.filter_cons_of_neg, Bool.false_eq_true, if_false, not_false_eq_true]
      rw [← ih]

/-! ### reading the linear word -/

theorem linear_getElem? (u : Str) {t : Nat} (ht : t < u.length) : u[t]? = some (letter u t) := by
  rw [List.getElem?_eq_getElem ht, letter_lt ht]

theorem linear_slice (u : Str) {c d : Nat} (h : c + d ≤ u.length) :
    (u.drop c).take d = window (letter u) c d := by
  apply List.ext_getElem?
  intro j
  simp only [window, List.getElem?_take, List.getElem?_drop, List.getElem?_map]
  by_cases hj : j < d
  · rw [if_pos hj, linear_getElem? u (by omega), List.getElem?_range hj]
    rfl
  · rw [if_neg hj, List.getElem?_eq_none (by simp; omega)]
    rfl

theorem prefix_linear_iff (u x : Str) (hx : x ≠ []) (i : Nat) :
    x <+: u.drop i ↔ i + x.length ≤ u.length ∧ occurs (letter u) x i = true := by
  have hxl : 0 < x.length := List.length_pos_iff.2 hx
  rw [List.prefix_iff_eq_take]
  constructor
  · intro h
    have hfit : i + x.length ≤ u.length := by
      have := congrArg List.length h
      simp only [List.length_take, List.length_drop] at this
      omega
    refine ⟨hfit, ?_⟩
    rw [linear_slice u hfit] at h
    rw [occurs_iff]
    intro j hj
    have : x[j]? = (window (letter u) i x.length)[j]? := by rw [← h]
    simp only [window, List.getElem?_map, List.getElem?_range hj, Option.map_some] at this
    rw [List.getD_eq_getElem?_getD, this]
    rfl
  · rintro ⟨hfit, hocc⟩
    rw [linear_slice u hfit]
    rw [occurs_iff] at hocc
    apply List.ext_getElem?
    intro j
    by_cases hj : j < x.length
    · simp only [window, List.getElem?_map, List.getElem?_range hj, Option.map_some]
      rw [hocc j hj, List.getD_eq_getElem?_getD, List.getElem?_eq_getElem hj]
      rfl
    · rw [List.getElem?_eq_none (by omega), List.getElem?_eq_none (by simp [window]; omega)]

theorem mem_linSites {w : Nat → Char} {n : Nat} {x : Str} {p : Nat} :
    p ∈ linSites w n x ↔ p + x.length ≤ n ∧ occurs w x p = true := by
  simp only [linSites, List.mem_filter, List.mem_range]
  constructor
  · rintro ⟨h1, h2⟩; exact ⟨by omega, h2⟩
  · rintro ⟨h1, h2⟩; exact ⟨by omega, h2⟩

theorem linSites_nodup (w : Nat → Char) (n : Nat) (x : Str) : (linSites w n x).Nodup :=
  List.Nodup.filter _ List.nodup_range

/-! ### the quantifier for linear parts, unpacked -/

structure WFL (g : Geometry) (w : Nat → Char) (n : Nat) : Prop where
  site_ne : g.site ≠ []
  acgt : g.site.all isUpperAcgt = true
  nonpal : g.site ≠ rcSite g.site
  apartF : ∀ p ∈ linSites w n g.site, ∀ p' ∈ linSites w n g.site, p ≠ p' →
    p + g.site.length ≤ p' ∨ p' + g.site.length ≤ p
  apartR : ∀ p ∈ linSites w n (rcSite g.site), ∀ p' ∈ linSites w n (rcSite g.site), p ≠ p' →
    p + g.site.length ≤ p' ∨ p' + g.site.length ≤ p
  paired : ∀ c ∈ linFwdCuts g w n, ∀ d, linStretch (linFwdCuts g w n) (linRevCuts g w n) c = some d → 2 * g.oh ≤ d

theorem wfl_of_wfLinearW {g : Geometry} {w : Nat → Char} {n : Nat} (h : wfLinearW g w n = true) : WFL g w n := by
  simp only [wfLinearW, wfGeometry, noOverlapLin, pairedApartLin, Bool.and_eq_true, decide_eq_true_eq, List.all_eq_true,
    List.mem_append, Bool.or_eq_true, beq_iff_eq, bne_iff_ne, ne_eq, ge_iff_le] at h
  obtain ⟨⟨⟨⟨h1, h2⟩, h3⟩, h6⟩, h7⟩ := h
  refine ⟨?_, ?_, h3, ?_, ?_, ?_⟩
  · intro h; rw [h] at h1; simp at h1
  · exact List.all_eq_true.2 h2
  · intro p hp p' hp' hne
    rcases h6 p (Or.inl hp) p' (Or.inl hp') with (h | h) | h
    · exact absurd h hne
    · exact Or.inl h
    · exact Or.inr h
  · intro p hp p' hp' hne
    rcases h6 p (Or.inr hp) p' (Or.inr hp') with (h | h) | h
    · exact absurd h hne
    · exact Or.inl h
    · exact Or.inr h
  · intro c hc d hd
    have := h7 c hc
    rw [hd] at this
    simpa using this

theorem nonOverlapping_linear (u x : Str) (hx : x ≠ [])
    (H : ∀ p ∈ linSites (letter u) u.length x, ∀ p' ∈ linSites (letter u) u.length x, p ≠ p' →
      p + x.length ≤ p' ∨ p' + x.length ≤ p) : NonOverlapping x u := by
  intro a b hab ha hb
  have ha' := mem_linSites.2 ((prefix_linear_iff u x hx a).1 ha)
  have hb' := mem_linSites.2 ((prefix_linear_iff u x hx b).1 hb)
  rcases H a ha' b hb' (by omega) with h | h
  · exact h
  · omega

/-! ### the overhang records of a linear part -/

def linF0 (g : Geometry) (u : Str) : List Overhang :=
  (findAll g.site u).map fun m => (⟨g.oh, (m.2 : Int) + g.skip, true⟩ : Overhang)

def linR0 (g : Geometry) (u : Str) : List Overhang :=
  (findAll (rcSite g.site) u).map fun m => (⟨g.oh, (m.1 : Int) - g.skip, false⟩ : Overhang)

theorem mem_linF0 (g : Geometry) (u : Str) (hx : g.site ≠ []) (hno : NonOverlapping g.site u) (o : Overhang) :
    o ∈ linF0 g u ↔ ∃ p ∈ linSites (letter u) u.length g.site,
      o = ⟨g.oh, ((p + g.site.length + g.skip : Nat) : Int), true⟩ := by
  simp only [linF0, List.mem_map, Prod.exists, mem_findAll hx hno, mem_linSites]
  constructor
  · rintro ⟨a, b, ⟨rfl, hp⟩, rfl⟩
    exact ⟨a, (prefix_linear_iff u g.site hx a).1 hp, by push_cast; rfl⟩
  · rintro ⟨p, hp, rfl⟩
    exact ⟨p, p + g.site.length, ⟨rfl, (prefix_linear_iff u g.site hx p).2 hp⟩, by push_cast; rfl⟩

theorem mem_linR0 (g : Geometry) (u y : Str) (hy : y ≠ []) (hno : NonOverlapping y u) (o : Overhang) :
    o ∈ (findAll y u).map (fun m => (⟨g.oh, (m.1 : Int) - g.skip, false⟩ : Overhang)) ↔
      ∃ q ∈ linSites (letter u) u.length y, o = ⟨g.oh, (q : Int) - g.skip, false⟩ := by
  simp only [List.mem_map, Prod.exists, mem_findAll hy hno, mem_linSites]
  constructor
  · rintro ⟨a, b, ⟨rfl, hp⟩, rfl⟩
    exact ⟨a, (prefix_linear_iff u y hy a).1 hp, rfl⟩
  · rintro ⟨q, hq, rfl⟩
    exact ⟨q, q + y.length, ⟨rfl, (prefix_linear_iff u y hy q).2 hq⟩, rfl⟩

theorem findAll_snd (x : Str) (hx : x ≠ []) (z : Str) (m : Nat × Nat) (h : m ∈ findAll x z) : m.2 = m.1 + x.length := by
  obtain ⟨a, b⟩ := m
  obtain ⟨j, h1, h2, _⟩ := findAllAux_sound x hx z 0 0 a b h
  simp only; omega

theorem linF0_sorted (g : Geometry) (u : Str) (hx : g.site ≠ []) : (linF0 g u).Pairwise PosLt := by
  unfold linF0
  rw [List.pairwise_map]
  have := findAllAux_sorted g.site hx u 0 0
  refine this.imp_of_mem ?_
  intro m m' hm hm' hlt
  have h1 := findAll_snd g.site hx u m hm
  have h2 := findAll_snd g.site hx u m' hm'
  unfold PosLt
  simp only
  omega

theorem linR0_sorted (g : Geometry) (u y : Str) (hy : y ≠ []) :
    ((findAll y u).map fun m => (⟨g.oh, (m.1 : Int) - g.skip, false⟩ : Overhang)).Pairwise PosLt := by
  rw [List.pairwise_map]
  have := findAllAux_sorted y hy u 0 0
  refine this.imp ?_
  intro m m' hlt
  unfold PosLt
  simp only
  omega

theorem trimLast_cases (e : Enzyme) (len : Nat) (set : List Overhang) :
    trimLast false e len set = set ∨
    ∃ l, set = trimLast false e len set ++ [l] ∧ l.position + (e.skip : Int) + (e.ohLen : Int) > (len : Int) := by
  unfold trimLast
  cases hl : set.getLast? with
  | none => exact Or.inl rfl
  | some l =>
    simp only [Bool.not_false, Bool.true_and]
    by_cases hc : l.position + (e.skip : Int) + (e.ohLen : Int) > (len : Int)
    · right
      refine ⟨l, ?_, hc⟩
      simp only [hc, decide_true, if_true]
      exact (List.dropLast_append_getLast? l hl).symm
    · left
      simp [hc]

/-- the fragment the linear spec attaches to a forward cut -/
def fragAtLin (g : Geometry) (w : Nat → Char) (n : Nat) (c : Int) : Option (Str × Str × Str) :=
  (linStretch (linFwdCuts g w n) (linRevCuts g w n) c).map fun d => triple g.oh (window w c.toNat d)

theorem digestLinW_eq (g : Geometry) (w : Nat → Char) (n : Nat) :
    digestLinW g w n = (linFwdCuts g w n).filterMap (fragAtLin g w n) := rfl

theorem linFwdCuts_nodup (g : Geometry) (w : Nat → Char) (n : Nat) : (linFwdCuts g w n).Nodup := by
  unfold linFwdCuts
  apply List.Nodup.map_on _ (linSites_nodup _ _ _)
  intro a _ b _ h
  have : ((a + g.site.length + g.skip : Nat) : Int) = ((b + g.site.length + g.skip : Nat) : Int) := h
  omega

theorem overhangsCore_lin (name : String) (g : Geometry) (u : Str) (hpal : isPalindromic g.site = false) :
    overhangsCore u u.length false (enzymeOf name g) =
      some (sortByPos (trimLast false (enzymeOf name g) u.length (linF0 g u) ++ linR0 g u)) := by
  simp only [overhangsCore, enzymeOf, hpal, Bool.false_and, Bool.false_eq_true, if_false]
  rfl

/-- the linear case, for a forward set `T` that is `linF0` without a (possibly empty, at most one
element long) suffix of overhangs lying too far right -/
theorem lin_core (g : Geometry) (u : Str) (hwf : WFL g (letter u) u.length)
    (T extraO : List Overhang) (hsplit : linF0 g u = T ++ extraO) (hlen : extraO.length ≤ 1)
    (hfar : ∀ l ∈ extraO, l.position + (g.skip : Int) + (g.oh : Int) > (u.length : Int)) :
    ∃ fr, (match pairLoop u u.length true (sortByPos (T ++ linR0 g u)) with
        | none => Outcome.panic
        | some fragmentSeqs =>
          match allSome (fragmentSeqs.map (toFragment g.oh)) with
          | none => Outcome.panic
          | some fr => Outcome.ok fr) = Outcome.ok fr ∧
      (fr.map fun f => (f.fwd, f.seq, f.rev)).Perm (digestLinW g (letter u) u.length) := by
  have hnoF := nonOverlapping_linear u g.site hwf.site_ne hwf.apartF
  have hrcne : rcSite g.site ≠ [] := by
    intro h
    have := congrArg List.length h
    rw [rcSite_length] at this
    exact hwf.site_ne (List.length_eq_zero_iff.1 this)
  have hnoR := nonOverlapping_linear u (rcSite g.site) hrcne (by rw [rcSite_length]; exact hwf.apartR)
  have hF0s := linF0_sorted g u hwf.site_ne
  have hR0s : (linR0 g u).Pairwise PosLt := linR0_sorted g u (rcSite g.site) hrcne
  rw [hsplit] at hF0s
  obtain ⟨hTs, _, hTlt⟩ := List.pairwise_append.1 hF0s
  -- membership
  have hF0mem : ∀ o, o ∈ linF0 g u ↔ o ∈ T ∨ o ∈ extraO := by intro o; rw [hsplit]; simp
  have hF0fwd : ∀ o ∈ linF0 g u, o.forward = true ∧ 0 ≤ o.position := by
    intro o ho
    obtain ⟨p, _, rfl⟩ := (mem_linF0 g u hwf.site_ne hnoF o).1 ho
    exact ⟨rfl, by simp only; omega⟩
  have hR0rev : ∀ o ∈ linR0 g u, o.forward = false ∧ o.position + (g.skip : Int) + (g.site.length : Int) ≤ (u.length : Int) := by
    intro o ho
    obtain ⟨q, hq, rfl⟩ := (mem_linR0 g u (rcSite g.site) hrcne hnoR o).1 ho
    have := (mem_linSites.1 hq).1
    rw [rcSite_length] at this
    exact ⟨rfl, by simp only; omega⟩
  have hfsF0 : ∀ c, c ∈ linFwdCuts g (letter u) u.length ↔ ∃ o ∈ linF0 g u, o.position = c := by
    intro c
    simp only [linFwdCuts, List.mem_map]
    constructor
    · rintro ⟨p, hp, rfl⟩
      exact ⟨_, (mem_linF0 g u hwf.site_ne hnoF _).2 ⟨p, hp, rfl⟩, rfl⟩
    · rintro ⟨o, ho, rfl⟩
      obtain ⟨p, hp, rfl⟩ := (mem_linF0 g u hwf.site_ne hnoF o).1 ho
      exact ⟨p, hp, rfl⟩
  have hrsR0 : ∀ c, c ∈ linRevCuts g (letter u) u.length ↔ ∃ o ∈ linR0 g u, o.position = c := by
    intro c
    simp only [linRevCuts, List.mem_map]
    constructor
    · rintro ⟨q, hq, rfl⟩
      exact ⟨_, (mem_linR0 g u (rcSite g.site) hrcne hnoR _).2 ⟨q, hq, rfl⟩, rfl⟩
    · rintro ⟨o, ho, rfl⟩
      obtain ⟨q, hq, rfl⟩ := (mem_linR0 g u (rcSite g.site) hrcne hnoR o).1 ho
      exact ⟨q, hq, rfl⟩
  -- no reverse cut lies at or beyond an overhang that is too far right
  have hextra : ∀ e ∈ extraO.map (·.position), ∀ r ∈ linRevCuts g (letter u) u.length, r < e := by
    intro e he r hr
    obtain ⟨l, hl, rfl⟩ := List.mem_map.1 he
    by_contra hge
    have hge' : l.position ≤ r := by omega
    have hlmax : ∀ c' ∈ linFwdCuts g (letter u) u.length, c' ≤ l.position := by
      intro c' hc'
      obtain ⟨o, ho, rfl⟩ := (hfsF0 c').1 hc'
      rcases (hF0mem o).1 ho with h | h
      · have := hTlt o h l hl; unfold PosLt at this; omega
      · have : extraO = [l] := by
          match extraO, hlen, hl with
          | [x], _, hl => simp at hl; rw [hl]
        rw [this] at h
        have : o = l := by simpa using h
        rw [this]
    have hlF0 : l ∈ linF0 g u := (hF0mem l).2 (Or.inr hl)
    have hc : l.position ∈ linFwdCuts g (letter u) u.length := (hfsF0 _).2 ⟨l, hlF0, rfl⟩
    cases hst : linStretch (linFwdCuts g (letter u) u.length) (linRevCuts g (letter u) u.length) l.position with
    | none =>
      -- impossible: there is a reverse cut to the right and no forward cut beyond
      unfold linStretch at hst
      cases hm : (((linRevCuts g (letter u) u.length).filter (l.position ≤ ·)).map fun r => (r - l.position).toNat).min? with
      | none =>
        have hnil : (linRevCuts g (letter u) u.length).filter (l.position ≤ ·) = [] := by simpa using hm
        have : r ∈ (linRevCuts g (letter u) u.length).filter (l.position ≤ ·) := List.mem_filter.2 ⟨hr, by simpa using hge'⟩
        rw [hnil] at this; simp at this
      | some d0 =>
        rw [hm] at hst
        simp only at hst
        split at hst
        · simp at hst
        · rename_i hall
          apply hall
          simp only [List.all_eq_true, List.mem_filter, decide_eq_true_eq, and_imp]
          intro c' hc' hlt
          have := hlmax c' hc'
          omega
    | some d =>
      have h2 := hwf.paired _ hc d hst
      obtain ⟨⟨r', hr', hcr', hrd⟩, _, _⟩ := linStretch_eq_some_iff.1 hst
      obtain ⟨o, ho, rfl⟩ := (hrsR0 r').1 hr'
      have := (hR0rev o ho).2
      have := hfar l hl
      have := List.length_pos_iff.2 hwf.site_ne
      omega
  -- the sorted list
  have hSmem : ∀ o, o ∈ sortByPos (T ++ linR0 g u) ↔ o ∈ T ∨ o ∈ linR0 g u := by
    intro o; rw [(sortByPos_perm _).mem_iff]; simp
  have hTF0 : ∀ o ∈ T, o ∈ linF0 g u := fun o ho => (hF0mem o).2 (Or.inl ho)
  have hfs : ∀ c, c ∈ linFwdCuts g (letter u) u.length ↔
      (∃ o ∈ sortByPos (T ++ linR0 g u), o.forward = true ∧ o.position = c) ∨ c ∈ extraO.map (·.position) := by
    intro c
    rw [hfsF0]
    constructor
    · rintro ⟨o, ho, rfl⟩
      rcases (hF0mem o).1 ho with h | h
      · exact Or.inl ⟨o, (hSmem o).2 (Or.inl h), (hF0fwd o ho).1, rfl⟩
      · exact Or.inr (List.mem_map.2 ⟨o, h, rfl⟩)
    · rintro (⟨o, ho, hf, rfl⟩ | h)
      · rcases (hSmem o).1 ho with h | h
        · exact ⟨o, hTF0 o h, rfl⟩
        · rw [(hR0rev o h).1] at hf; exact absurd hf (by simp)
      · obtain ⟨l, hl, rfl⟩ := List.mem_map.1 h
        exact ⟨l, (hF0mem l).2 (Or.inr hl), rfl⟩
  have hrs : ∀ c, c ∈ linRevCuts g (letter u) u.length ↔
      ∃ o ∈ sortByPos (T ++ linR0 g u), o.forward = false ∧ o.position = c := by
    intro c
    rw [hrsR0]
    constructor
    · rintro ⟨o, ho, rfl⟩
      exact ⟨o, (hSmem o).2 (Or.inr ho), (hR0rev o ho).1, rfl⟩
    · rintro ⟨o, ho, hf, rfl⟩
      rcases (hSmem o).1 ho with h | h
      · rw [(hF0fwd o (hTF0 o h)).1] at hf; exact absurd hf (by simp)
      · exact ⟨o, h, rfl⟩
  have hinj : ∀ c ∈ sortByPos (T ++ linR0 g u), ∀ d ∈ sortByPos (T ++ linR0 g u),
      c.position = d.position → c.forward = d.forward → c = d := by
    intro c hc d hd h hf
    rcases (hSmem c).1 hc with hc' | hc' <;> rcases (hSmem d).1 hd with hd' | hd'
    · exact posLt_inj hTs hc' hd' h
    · rw [(hF0fwd c (hTF0 c hc')).1, (hR0rev d hd').1] at hf; exact absurd hf (by simp)
    · rw [(hF0fwd d (hTF0 d hd')).1, (hR0rev c hc').1] at hf; exact absurd hf (by simp)
    · exact posLt_inj hR0s hc' hd' h
  have hnodup : (sortByPos (T ++ linR0 g u)).Nodup := by
    rw [(sortByPos_perm _).nodup_iff, List.nodup_append]
    refine ⟨?_, ?_, ?_⟩
    · exact (hTs.imp (fun {a b} (h : PosLt a b) => by intro e; rw [e] at h; unfold PosLt at h; omega))
    · exact (hR0s.imp (fun {a b} (h : PosLt a b) => by intro e; rw [e] at h; unfold PosLt at h; omega))
    · intro a ha b hb e
      have h1 := (hF0fwd a (hTF0 a ha)).1
      have h2 := (hR0rev b hb).1
      rw [e, h2] at h1; exact absurd h1 (by simp)
  have hsorted : (sortByPos (T ++ linR0 g u)).Pairwise KeyLt := by
    refine keyLt_of_keyLe (sortByPos_keySorted _ ?_) hnodup hinj
    rw [List.pairwise_append]
    refine ⟨?_, ?_, ?_⟩
    · exact List.Pairwise.imp_of_mem (fun {a b} ha _ _ => Or.inl (hF0fwd a (hTF0 a ha)).1) hTs
    · exact List.Pairwise.imp_of_mem (fun {a b} _ hb _ => Or.inr (hR0rev b hb).1) hR0s
    · intro a ha b _
      exact Or.inl (hF0fwd a (hTF0 a ha)).1
  -- one pair of the loop
  have hkey : ∀ p ∈ adjPairs (sortByPos (T ++ linR0 g u)),
      (pieceOf u p).map (triple g.oh) = (if p.1.forward then fragAtLin g (letter u) u.length p.1.position else none) ∧
      (∀ f, pieceOf u p = some f → 2 * g.oh ≤ f.length) ∧
      (p.1.forward = true → p.2.forward = false →
        0 ≤ p.1.position ∧ p.1.position ≤ p.2.position ∧ p.2.position ≤ (u.length : Int)) := by
    rintro ⟨a, b⟩ hab
    have hmem := adjPairs_snd_mem _ _ hab
    have haS : a ∈ sortByPos (T ++ linR0 g u) := hmem.1
    have hbS : b ∈ sortByPos (T ++ linR0 g u) := hmem.2
    by_cases haf : a.forward = true
    · obtain ⟨hlt, hst⟩ := linStretch_adjacent hsorted hfs hrs hextra hab haf
      have ha0 : 0 ≤ a.position := by
        rcases (hSmem a).1 haS with h | h
        · exact (hF0fwd a (hTF0 a h)).2
        · rw [(hR0rev a h).1] at haf; exact absurd haf (by simp)
      by_cases hbf : b.forward = false
      · rw [if_pos hbf] at hst
        have hbn : b.position ≤ (u.length : Int) := by
          rcases (hSmem b).1 hbS with h | h
          · rw [(hF0fwd b (hTF0 b h)).1] at hbf; exact absurd hbf (by simp)
          · have := (hR0rev b h).2; omega
        have hslice : (List.drop a.position.toNat u).take (b.position.toNat - a.position.toNat) =
            window (letter u) a.position.toNat (b.position - a.position).toNat := by
          rw [linear_slice u (by omega)]
          congr 1; omega
        have hpiece : pieceOf u (a, b) = some (window (letter u) a.position.toNat (b.position - a.position).toNat) := by
          simp only [pieceOf, haf, hbf, Bool.not_false, Bool.and_self, if_true, hslice]
        refine ⟨?_, ?_, fun _ _ => ⟨ha0, hlt, hbn⟩⟩
        · rw [hpiece]
          simp only [haf, if_true, fragAtLin, hst, Option.map_some]
        · intro f hf
          rw [hpiece] at hf
          have : f = window (letter u) a.position.toNat (b.position - a.position).toNat := by simpa using hf.symm
          rw [this, window_length]
          exact hwf.paired _ ((hfs _).2 (Or.inl ⟨a, haS, haf, rfl⟩)) _ hst
      · have hbt : b.forward = true := by simpa using hbf
        rw [if_neg hbf] at hst
        have hpiece : pieceOf u (a, b) = none := by simp [pieceOf, haf, hbt]
        refine ⟨?_, ?_, fun _ h => by rw [hbt] at h; exact absurd h (by simp)⟩
        · rw [hpiece]; simp only [haf, if_true, fragAtLin, hst, Option.map_none]
        · intro f hf; rw [hpiece] at hf; exact absurd hf (by simp)
    · have haf' : a.forward = false := by simpa using haf
      have hpiece : pieceOf u (a, b) = none := by simp [pieceOf, haf']
      refine ⟨?_, ?_, fun h _ => by rw [haf'] at h; exact absurd h (by simp)⟩
      · rw [hpiece]; simp [haf']
      · intro f hf; rw [hpiece] at hf; exact absurd hf (by simp)
  -- the loop as a filterMap
  have hpl : pairLoop u u.length true (sortByPos (T ++ linR0 g u)) =
      some ((adjPairs (sortByPos (T ++ linR0 g u))).filterMap (pieceOf u)) := by
    apply pairLoop_eq_lin
    · exact sortByPos_sorted _
    · intro o ho hgt
      rcases (hSmem o).1 ho with h | h
      · exact (hF0fwd o (hTF0 o h)).1
      · have := (hR0rev o h).2; omega
    · intro p hp h1 h2
      exact (hkey p hp).2.2 h1 h2
  have hall : allSome (((adjPairs (sortByPos (T ++ linR0 g u))).filterMap (pieceOf u)).map (toFragment g.oh)) =
      some (((adjPairs (sortByPos (T ++ linR0 g u))).filterMap (pieceOf u)).map
        fun f => (⟨(f.drop g.oh).take (f.length - 2 * g.oh), f.take g.oh, f.drop (f.length - g.oh)⟩ : Fragment)) := by
    apply allSome_map
    intro f hf
    obtain ⟨p, hp, hpf⟩ := List.mem_filterMap.1 hf
    exact toFragment_eq ((hkey p hp).2.1 f hpf)
  refine ⟨((adjPairs (sortByPos (T ++ linR0 g u))).filterMap (pieceOf u)).map
        fun f => (⟨(f.drop g.oh).take (f.length - 2 * g.oh), f.take g.oh, f.drop (f.length - g.oh)⟩ : Fragment),
    by rw [hpl]; simp only [hall], ?_⟩
  -- the multiset
  rw [List.map_map]
  have e1 : ((fun f : Fragment => (f.fwd, f.seq, f.rev)) ∘
      fun f : Str => (⟨(f.drop g.oh).take (f.length - 2 * g.oh), f.take g.oh, f.drop (f.length - g.oh)⟩ : Fragment)) =
      triple g.oh := by
    funext f; rfl
  rw [e1, List.map_filterMap]
  have e2 : (adjPairs (sortByPos (T ++ linR0 g u))).filterMap (fun p => (pieceOf u p).map (triple g.oh)) =
      (adjPairs (sortByPos (T ++ linR0 g u))).filterMap
        (fun p => if p.1.forward then fragAtLin g (letter u) u.length p.1.position else none) :=
    List.filterMap_congr (fun p hp => (hkey p hp).1)
  rw [e2]
  have e3 := List.filterMap_map (f := Prod.fst)
    (g := fun o : Overhang => if o.forward then fragAtLin g (letter u) u.length o.position else none)
    (l := adjPairs (sortByPos (T ++ linR0 g u)))
  rw [show (fun p : Overhang × Overhang => if p.1.forward then fragAtLin g (letter u) u.length p.1.position else none) =
    (fun o : Overhang => if o.forward then fragAtLin g (letter u) u.length o.position else none) ∘ Prod.fst from rfl,
    ← e3, adjPairs_map_fst]
  -- the last element of the sorted list yields nothing
  have hlast : (sortByPos (T ++ linR0 g u)).dropLast.filterMap
        (fun o : Overhang => if o.forward then fragAtLin g (letter u) u.length o.position else none) =
      (sortByPos (T ++ linR0 g u)).filterMap
        (fun o : Overhang => if o.forward then fragAtLin g (letter u) u.length o.position else none) := by
    rcases List.eq_nil_or_concat (sortByPos (T ++ linR0 g u)) with hnil | ⟨L, a, hLa⟩
    · rw [hnil]; rfl
    · rw [hLa] at hsorted hfs hrs ⊢
      simp only [List.concat_eq_append] at hsorted hfs hrs ⊢
      rw [List.dropLast_concat, List.filterMap_append]
      have hmax : ∀ c ∈ L ++ [a], c = a ∨ KeyLt c a := by
        intro c hc
        rcases List.mem_append.1 hc with h | h
        · exact Or.inr ((List.pairwise_append.1 hsorted).2.2 c h a (by simp))
        · exact Or.inl (by simpa using h)
      have : [a].filterMap (fun o : Overhang => if o.forward then fragAtLin g (letter u) u.length o.position else none) = [] := by
        by_cases haf : a.forward = true
        · have := linStretch_max (S := L ++ [a]) (fs := linFwdCuts g (letter u) u.length) hrs hmax haf
          simp [haf, fragAtLin, this]
        · have : a.forward = false := by simpa using haf
          simp [this]
      rw [this, List.append_nil]
  rw [hlast, filterMap_forward, digestLinW_eq]
  -- forward cuts of the spec = forward overhangs of the list, plus the ones too far right (which yield nothing)
  have hperm : (linFwdCuts g (letter u) u.length).Perm
      (((sortByPos (T ++ linR0 g u)).filter (·.forward)).map (·.position) ++ extraO.map (·.position)) := by
    rw [List.perm_ext_iff_of_nodup (linFwdCuts_nodup _ _ _)]
    · intro c
      rw [hfs c]
      simp only [List.mem_append, List.mem_map, List.mem_filter]
      constructor
      · rintro (⟨o, ho, hf, rfl⟩ | h)
        · exact Or.inl ⟨o, ⟨ho, hf⟩, rfl⟩
        · exact Or.inr h
      · rintro (⟨o, ⟨ho, hf⟩, rfl⟩ | h)
        · exact Or.inl ⟨o, ho, hf, rfl⟩
        · exact Or.inr h
    · rw [List.nodup_append]
      refine ⟨?_, ?_, ?_⟩
      · apply List.Nodup.map_on _ (hnodup.filter _)
        intro a ha b hb h
        exact hinj a (List.mem_filter.1 ha).1 b (List.mem_filter.1 hb).1 h
          (by rw [(List.mem_filter.1 ha).2, (List.mem_filter.1 hb).2])
      · match extraO, hlen with
        | [], _ => simp
        | [x], _ => simp
      · intro a ha b hb e
        obtain ⟨o, ho, rfl⟩ := List.mem_map.1 ha
        obtain ⟨l, hl, rfl⟩ := List.mem_map.1 hb
        have hoS := (List.mem_filter.1 ho).1
        have hof : o.forward = true := by simpa using (List.mem_filter.1 ho).2
        rcases (hSmem o).1 hoS with h | h
        · have := hTlt o h l hl; unfold PosLt at this; omega
        · rw [(hR0rev o h).1] at hof; exact absurd hof (by simp)
  refine List.Perm.trans ?_ (hperm.filterMap _).symm
  rw [List.filterMap_append]
  have : (extraO.map (·.position)).filterMap (fragAtLin g (letter u) u.length) = [] := by
    rw [List.filterMap_eq_nil_iff]
    intro e he
    unfold fragAtLin
    rw [linStretch_eq_none_of (hextra e he)]
    rfl
  rw [this, List.append_nil]

theorem cutCore_lin_eq (z : Str) (n : Nat) (e : Enzyme) (O : List Overhang) (hO : overhangsCore z n false e = some O)
    (hpal : isPalindromic e.site = false) :
    cutCore z n false true e =
      (match pairLoop z n true O with
        | none => Outcome.panic
        | some fragmentSeqs =>
          match allSome (fragmentSeqs.map (toFragment e.ohLen)) with
          | none => Outcome.panic
          | some fr => Outcome.ok fr) := by
  unfold cutCore
  rw [hO]
  simp only [hpal, Bool.not_true, Bool.and_false, Bool.not_false, Bool.and_true,
    Bool.false_eq_true, if_false]
  by_cases hlen : O.length > 1
  · rw [if_pos hlen]
    cases pairLoop z n true O with
    | none => rfl
    | some ps => cases allSome (ps.map (toFragment e.ohLen)) <;> rfl
  · rw [if_neg hlen]
    match O, hlen with
    | [], _ => simp [pairLoop, allSome]
    | [x], _ => simp [pairLoop, allSome]
    | _ :: _ :: _, h => simp at h

/-- **The linear case on the upper-cased word**: the model's fragments are the linear spec's, as a multiset. -/
theorem cutCore_linear (name : String) (g : Geometry) (u : Str) (hwf : WFL g (letter u) u.length) :
    ∃ fr, cutCore u u.length false true (enzymeOf name g) = .ok fr ∧
      (fr.map fun f => (f.fwd, f.seq, f.rev)).Perm (digestLinW g (letter u) u.length) := by
  have hpal : isPalindromic (enzymeOf name g).site = false := not_palindromic hwf.acgt hwf.nonpal
  have hO := overhangsCore_lin name g u (not_palindromic hwf.acgt hwf.nonpal)
  rw [cutCore_lin_eq u u.length (enzymeOf name g) _ hO hpal]
  rcases trimLast_cases (enzymeOf name g) u.length (linF0 g u) with hT | ⟨l, hset, hl⟩
  · rw [hT]
    exact lin_core g u hwf (linF0 g u) [] (by simp) (by simp) (by simp)
  · refine lin_core g u hwf (trimLast false (enzymeOf name g) u.length (linF0 g u)) [l] hset (by simp) ?_
    intro l' hl'
    have : l' = l := by simpa using hl'
    rw [this]
    exact hl

/-- Every fragment of the linear spec has the enzyme's geometry and lies inside the part: it starts
`|site| + skip` letters after a forward site at `p`, ends `skip` letters before a backward-pointing
site at `q`, is the `d ≥ 2·oh` letters in between, and no other cut lies in that stretch. -/
theorem digestLinW_geometry (g : Geometry) {w : Nat → Char} {n : Nat}
    (hpa : ∀ c ∈ linFwdCuts g w n, ∀ d, linStretch (linFwdCuts g w n) (linRevCuts g w n) c = some d → 2 * g.oh ≤ d)
    {t : Str × Str × Str} (ht : t ∈ digestLinW g w n) :
    ∃ p ∈ linSites w n g.site, ∃ q ∈ linSites w n (rcSite g.site), ∃ d,
      p + g.site.length + g.skip + d + g.skip = q ∧ q + g.site.length ≤ n ∧ 2 * g.oh ≤ d ∧
      (∀ r ∈ linRevCuts g w n, ((p + g.site.length + g.skip : Nat) : Int) ≤ r → ((p + g.site.length + g.skip + d : Nat) : Int) ≤ r) ∧
      (∀ c' ∈ linFwdCuts g w n, ((p + g.site.length + g.skip : Nat) : Int) < c' → ((p + g.site.length + g.skip + d : Nat) : Int) < c') ∧
      t.1 = window w (p + g.site.length + g.skip) g.oh ∧
      t.2.2 = window w (p + g.site.length + g.skip + d - g.oh) g.oh ∧
      t.1 ++ t.2.1 ++ t.2.2 = window w (p + g.site.length + g.skip) d := by
  rw [digestLinW_eq] at ht
  obtain ⟨c, hc, hfc⟩ := List.mem_filterMap.1 ht
  unfold fragAtLin at hfc
  obtain ⟨d, hst, rfl⟩ := Option.map_eq_some_iff.1 hfc
  have h2 := hpa c hc d hst
  obtain ⟨p, hp, rfl⟩ := List.mem_map.1 hc
  obtain ⟨⟨r, hr, hcr, hrd⟩, hmin, hall⟩ := linStretch_eq_some_iff.1 hst
  obtain ⟨q, hq, rfl⟩ := List.mem_map.1 hr
  have hqn := (mem_linSites.1 hq).1
  rw [rcSite_length] at hqn
  simp only [Int.toNat_natCast]
  refine ⟨p, hp, q, hq, d, by omega, hqn, h2, ?_, ?_, ?_, ?_, ?_⟩
  · intro r' hr' hle
    have := hmin r' hr' hle
    push_cast at this ⊢; omega
  · intro c' hc' hlt
    have := hall c' hc' hlt
    push_cast at this ⊢; omega
  · simp only [triple]
    rw [window_take _ _ (by omega)]
  · simp only [triple, window_length]
    rw [window_drop, show d - (d - g.oh) = g.oh by omega]
    congr 1; omega
  · rw [triple_concat _ _ (by rw [window_length]; exact h2)]

/-! ### inside the quantifier (no coincident cuts) the resolution of ties is immaterial -/

theorem dist_eq_zero {n a b : Nat} (ha : a < n) (hb : b < n) (h : dist n a b = 0) : a = b := by
  rcases Nat.lt_or_ge b a with hlt | hge
  · rw [dist_of_gt ha hlt] at h; omega
  · rw [dist_of_le hb hge] at h; omega

theorem dist_inj_right {n c x y : Nat} (hc : c < n) (hx : x < n) (hy : y < n) (h : dist n c x = dist n c y) : x = y := by
  rcases Nat.lt_or_ge x c with hxc | hxc <;> rcases Nat.lt_or_ge y c with hyc | hyc
  · rw [dist_of_gt hc hxc, dist_of_gt hc hyc] at h; omega
  · rw [dist_of_gt hc hxc, dist_of_le hy hyc] at h; omega
  · rw [dist_of_le hx hxc, dist_of_gt hc hyc] at h; omega
  · rw [dist_of_le hx hxc, dist_of_le hy hyc] at h; omega

theorem stretchAlt_eq {n : Nat} {fs rs : List Nat} {c : Nat} (hfs : ∀ a ∈ fs, a < n) (hrs : ∀ a ∈ rs, a < n)
    (hc : c ∈ fs) (hno : ∀ f ∈ fs, f ∉ rs) : stretchAlt n fs rs c = stretch n fs rs c := by
  unfold stretchAlt stretch
  cases hm : (rs.map (dist n c)).min? with
  | none => rfl
  | some d =>
    have hd := List.min?_eq_some_iff.1 hm
    obtain ⟨r, hr, hrd⟩ := List.mem_map.1 hd.1
    have hcn := hfs c hc
    have hd0 : (d == 0) = false := by
      rw [beq_eq_false_iff_ne]
      intro h0
      rw [h0] at hrd
      have := dist_eq_zero hcn (hrs r hr) hrd
      exact hno c hc (this ▸ hr)
    simp only [hd0, Bool.false_eq_true, if_false]
    have hiff : ((fs.filter (· != c)).all fun c' => decide (d ≤ dist n c c')) =
        ((fs.filter (· != c)).all fun c' => decide (d < dist n c c')) := by
      rw [Bool.eq_iff_iff]
      simp only [List.all_eq_true, List.mem_filter, decide_eq_true_eq, and_imp]
      constructor
      · intro H c' hc' hne
        have hle := H c' hc' hne
        rcases Nat.lt_or_eq_of_le hle with hlt | heq
        · exact hlt
        · exfalso
          rw [← hrd] at heq
          have := dist_inj_right hcn (hrs r hr) (hfs c' hc') heq
          exact hno c' hc' (this ▸ hr)
      · intro H c' hc' hne
        exact Nat.le_of_lt (H c' hc' hne)
    rw [hiff]

/-- **tie_free (circular)**: on a layout without coincident forward/reverse cuts, resolving both ties
the other way gives the same digestion -/
theorem digestAltW_eq (g : Geometry) {w : Nat → Char} {n : Nat} (hn : 0 < n) (h : noCoincident g w n = true) :
    digestAltW g w n = digestW g w n := by
  unfold digestAltW digestW
  simp only [noCoincident, List.all_eq_true, Bool.not_eq_true', List.contains_eq_mem, decide_eq_false_iff_not] at h
  apply List.filterMap_congr
  intro c hc
  rw [stretchAlt_eq (fun a ha => mem_fwdCuts_lt g hn ha) (fun a ha => mem_revCuts_lt g hn ha) hc h]

theorem linStretchAlt_eq {fs rs : List Int} {c : Int} (hc : c ∈ fs) (hno : ∀ f ∈ fs, f ∉ rs) :
    linStretchAlt fs rs c = linStretch fs rs c := by
  unfold linStretchAlt linStretch
  have hfilt : rs.filter (c < ·) = rs.filter (c ≤ ·) := by
    apply List.filter_congr
    intro r hr
    have hne : r ≠ c := fun e => hno c hc (e ▸ hr)
    rw [Bool.eq_iff_iff]
    simp only [decide_eq_true_eq]
    omega
  rw [hfilt]
  cases hm : ((rs.filter (c ≤ ·)).map fun r => (r - c).toNat).min? with
  | none => rfl
  | some d =>
    have hd := List.min?_eq_some_iff.1 hm
    obtain ⟨r, hr, hrd⟩ := List.mem_map.1 hd.1
    obtain ⟨hr1, hr2⟩ := List.mem_filter.1 hr
    have hcr : c ≤ r := by simpa using hr2
    have hiff : ((fs.filter (c < ·)).all fun c' => decide ((d : Int) ≤ c' - c)) =
        ((fs.filter (c < ·)).all fun c' => decide ((d : Int) < c' - c)) := by
      rw [Bool.eq_iff_iff]
      simp only [List.all_eq_true, List.mem_filter, decide_eq_true_eq, and_imp]
      constructor
      · intro H c' hc' hlt
        have hle := H c' hc' hlt
        rcases Int.lt_or_eq_of_le hle with h1 | heq
        · exact h1
        · exfalso
          have : c' = r := by omega
          exact hno c' hc' (this ▸ hr1)
      · intro H c' hc' hlt
        exact Int.le_of_lt (H c' hc' hlt)
    simp only [hiff]

/-- **tie_free (linear)** -/
theorem digestLinAltW_eq (g : Geometry) {w : Nat → Char} {n : Nat} (h : noCoincidentLin g w n = true) :
    digestLinAltW g w n = digestLinW g w n := by
  unfold digestLinAltW digestLinW
  simp only [noCoincidentLin, List.all_eq_true, Bool.not_eq_true', List.contains_eq_mem, decide_eq_false_iff_not] at h
  apply List.filterMap_congr
  intro c hc
  rw [linStretchAlt_eq hc h]

end PolyVerif.Digest
