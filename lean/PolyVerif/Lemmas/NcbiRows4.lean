import PolyVerif.Lemmas.NcbiRowDefs
namespace PolyVerif.CodonTranslate
/-- decided on the regenerated tables: NCBI's residue = the compiled Translate's answer = the model's lookup, 64 codons per table -/
theorem rows_ok_d : ∀ id ∈ [23, 24, 25, 26, 27], rowOk id = true := by decide +kernel
end PolyVerif.CodonTranslate
