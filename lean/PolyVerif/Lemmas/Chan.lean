import PolyVerif.Base.Chan
/-
General theorems about the channel transition system of Base/Chan.lean, for ALL schedules
(`Reach` = every finite `Step`-path):

* `Inv` / `inv_reach`   : for a well-formed producer program (sends, then one close, per channel) no
                          schedule panics, and on every channel  received ++ buffered ++ still-to-send
                          = everything the program sends  (FIFO, nothing lost, nothing duplicated);
* `measure` / `reachN_measure` / `no_infinite_path` : every step decreases a measure, so every run is
                          finite and at most `measure init` steps long;
* `stuck_concurrent`    : with a consumer that drains the program's channels concurrently, a maximal run
                          ends with the program finished, every channel closed exactly once, observed
                          closed, and everything received;
* `stuck_sequential`    : the same for the consumer that drains channel 0 first and channel 1 afterwards,
                          provided channel 1 can buffer what is sent to it BEFORE channel 0 is closed (nothing,
                          for a producer that closes channel 0 first: then every capacity will do);
* `sequential_blocks`   : conversely, a producer program that performs more sends on channel 1 BEFORE closing
                          channel 0 than channel 1 can buffer never finishes against that consumer (a statement
                          about that send order, not about all producers).
-/
namespace PolyVerif.Chan
variable {α : Type}

/-! ### list bookkeeping -/

theorem recvd_append (ch : Nat) (a b : List (Obs α)) : recvd ch (a ++ b) = recvd ch a ++ recvd ch b := by
  induction a with
  | nil => rfl
  | cons o a ih =>
    obtain ⟨c, v⟩ := o
    cases v with
    | none => simpa [recvd] using ih
    | some v =>
      by_cases h : c = ch
      · simp [recvd, h, ih]
      · simp [recvd, h, ih]

@[simp] theorem recvd_nil (ch : Nat) : recvd ch ([] : List (Obs α)) = [] := rfl

theorem recvd_one_some (ch c : Nat) (v : α) : recvd ch [(c, some v)] = if c = ch then [v] else [] := by
  by_cases h : c = ch <;> simp [recvd, h]

@[simp] theorem recvd_one_none (ch c : Nat) : recvd ch [((c, none) : Obs α)] = [] := rfl

theorem seen_append (a b : List (Obs α)) (ch : Nat) : seen (a ++ b) ch = (seen a ch || seen b ch) := by
  simp [seen, List.any_append]

@[simp] theorem seen_nil (ch : Nat) : seen ([] : List (Obs α)) ch = false := rfl

theorem seen_one_some (ch c : Nat) (v : α) : seen [((c, some v) : Obs α)] ch = false := by
  simp [seen]

theorem seen_one_none (ch c : Nat) : seen [((c, none) : Obs α)] ch = decide (c = ch) := by
  by_cases h : c = ch <;> simp [seen, h]

theorem sends_send (ch c : Nat) (v : α) (r : List (Op α)) :
    sends ch (.send c v :: r) = if c = ch then v :: sends ch r else sends ch r := rfl

@[simp] theorem sends_close (ch c : Nat) (r : List (Op α)) : sends ch (.close c :: r) = sends ch r := rfl

@[simp] theorem sends_nil (ch : Nat) : sends ch ([] : List (Op α)) = [] := rfl

theorem sends_append (ch : Nat) (a b : List (Op α)) : sends ch (a ++ b) = sends ch a ++ sends ch b := by
  induction a with
  | nil => rfl
  | cons op a ih =>
    cases op with
    | send c v => by_cases h : c = ch <;> simp [sends, h, ih]
    | close c => simpa [sends] using ih

theorem quiet_cons (ch : Nat) (op : Op α) (r : List (Op α)) :
    quiet ch (op :: r) = (op.chan != ch && quiet ch r) := rfl

@[simp] theorem quiet_nil (ch : Nat) : quiet ch ([] : List (Op α)) = true := rfl

theorem sends_of_quiet {ch : Nat} {p : List (Op α)} (h : quiet ch p = true) : sends ch p = [] := by
  induction p with
  | nil => rfl
  | cons op p ih =>
    simp only [quiet_cons, Bool.and_eq_true, bne_iff_ne, ne_eq] at h
    cases op with
    | send c v => simp only [Op.chan] at h; simp [sends, h.1, ih h.2]
    | close c => simpa [sends] using ih h.2

/-! ### the invariant of a well-formed program -/

structure Inv (chs : List Nat) (caps : Nat → Nat) (P : List (Op α)) (s : Sys α) : Prop where
  noPanic : s.panicked = false
  chansIn : ∀ op ∈ s.prog, op.chan ∈ chs
  wf : ∀ ch ∈ chs, if (s.chans ch).closed = true then quiet ch s.prog = true else closesLast ch s.prog = true
  unused : ∀ ch, ch ∉ chs → (s.chans ch).closed = false
  conserve : ∀ ch, recvd ch s.hist ++ (s.chans ch).buf ++ sends ch s.prog = sends ch P
  seenOk : ∀ ch, seen s.hist ch = true → (s.chans ch).closed = true ∧ (s.chans ch).buf = []
  capOk : ∀ ch, (s.chans ch).buf.length ≤ (s.chans ch).cap ∧ (s.chans ch).cap = caps ch
  closesOk : ∀ ch, (s.chans ch).closes = if (s.chans ch).closed = true then 1 else 0

theorem inv_init (chs : List Nat) (caps : Nat → Nat) (P : List (Op α)) (h : WFProg chs P) :
    Inv chs caps P (init caps P) where
  noPanic := rfl
  chansIn := h.1
  wf := fun ch hch => by simpa [init] using (h.2 ch hch).2
  unused := fun _ _ => rfl
  conserve := fun ch => by simp [init]
  seenOk := fun ch hs => by simp [init] at hs
  capOk := fun ch => by simp [init]
  closesOk := fun ch => by simp [init]

theorem inv_step {chs : List Nat} {caps : Nat → Nat} {P : List (Op α)} {C : Consumer α} {s t : Sys α}
    (hi : Inv chs caps P s) (hst : Step C s t) : Inv chs caps P t := by
  obtain ⟨hnp, hin, hwf, hun, hcons, hseen, hcap, hcl⟩ := hi
  cases hst with
  | @sendBuf ch v rest hp hopen hroom =>
    have hchs : ch ∈ chs := by simpa [Op.chan] using hin (.send ch v) (by simp [hp])
    refine ⟨hnp, fun op hop => hin op (by simp [hp, hop]), ?_, ?_, ?_, ?_, ?_, ?_⟩
    · intro c hc
      have := hwf c hc
      by_cases e : c = ch
      · subst e; simp only [upd_same]; simpa [hopen, hp, closesLast] using this
      · simp only [upd_other _ _ e]
        simpa [hp, closesLast, quiet_cons, Op.chan, Ne.symm e] using this
    · intro c hc
      have e : c ≠ ch := fun e => hc (e ▸ hchs)
      simpa [upd_other _ _ e] using hun c hc
    · intro c
      have := hcons c
      by_cases e : c = ch
      · subst e; simp only [upd_same]; simpa [hp, sends_send] using this
      · simp only [upd_other _ _ e]; simpa [hp, sends_send, Ne.symm e] using this
    · intro c hs
      by_cases e : c = ch
      · subst e; have := (hseen c hs).1; simp [hopen] at this
      · simpa [upd_other _ _ e] using hseen c hs
    · intro c
      by_cases e : c = ch
      · subst e; simp only [upd_same, List.length_append, List.length_singleton]
        exact ⟨by omega, (hcap c).2⟩
      · simpa [upd_other _ _ e] using hcap c
    · intro c
      by_cases e : c = ch
      · subst e; simpa using hcl c
      · simpa [upd_other _ _ e] using hcl c
  | @sendSync ch v rest hp hopen hzero hready =>
    refine ⟨hnp, fun op hop => hin op (by simp [hp, hop]), ?_, hun, ?_, ?_, hcap, hcl⟩
    · intro c hc
      have := hwf c hc
      by_cases e : c = ch
      · subst e; simpa [hopen, hp, closesLast] using this
      · simpa [hp, closesLast, quiet_cons, Op.chan, Ne.symm e] using this
    · intro c
      have := hcons c
      have hb : (s.chans ch).buf = [] := by
        have := (hcap ch).1; rw [hzero] at this
        exact List.eq_nil_of_length_eq_zero (by omega)
      by_cases e : c = ch
      · subst e
        simp only [recvd_append, recvd_one_some, if_true]
        simpa [hp, sends_send, hb] using this
      · simp only [recvd_append, recvd_one_some, if_neg (Ne.symm e), List.append_nil]
        simpa [hp, sends_send, Ne.symm e] using this
    · intro c hs
      simp only [seen_append, seen_one_some, Bool.or_false] at hs
      exact hseen c hs
  | @sendClosed ch v rest hp hclosed =>
    exfalso
    have hchs : ch ∈ chs := by simpa [Op.chan] using hin (.send ch v) (by simp [hp])
    have := hwf ch hchs
    simp [hclosed, hp, quiet_cons, Op.chan] at this
  | @close ch rest hp hopen =>
    have hchs : ch ∈ chs := by simpa [Op.chan] using hin (.close ch) (by simp [hp])
    refine ⟨hnp, fun op hop => hin op (by simp [hp, hop]), ?_, ?_, ?_, ?_, ?_, ?_⟩
    · intro c hc
      have := hwf c hc
      by_cases e : c = ch
      · subst e; simp only [upd_same]; simpa [hopen, hp, closesLast] using this
      · simp only [upd_other _ _ e]
        simpa [hp, closesLast, quiet_cons, Op.chan, Ne.symm e] using this
    · intro c hc
      have e : c ≠ ch := fun e => hc (e ▸ hchs)
      simpa [upd_other _ _ e] using hun c hc
    · intro c
      have := hcons c
      by_cases e : c = ch
      · subst e; simp only [upd_same]; simpa [hp] using this
      · simp only [upd_other _ _ e]; simpa [hp] using this
    · intro c hs
      by_cases e : c = ch
      · subst e; have := (hseen c hs).1; simp [hopen] at this
      · simpa [upd_other _ _ e] using hseen c hs
    · intro c
      by_cases e : c = ch
      · subst e; simpa using hcap c
      · simpa [upd_other _ _ e] using hcap c
    · intro c
      by_cases e : c = ch
      · subst e; have := hcl c; simp [hopen] at this; simp [this]
      · simpa [upd_other _ _ e] using hcl c
  | @closeClosed ch rest hp hclosed =>
    exfalso
    have hchs : ch ∈ chs := by simpa [Op.chan] using hin (.close ch) (by simp [hp])
    have := hwf ch hchs
    simp [hclosed, hp, quiet_cons, Op.chan] at this
  | @recv ch v b hready hb =>
    refine ⟨hnp, hin, ?_, ?_, ?_, ?_, ?_, ?_⟩
    · intro c hc
      have := hwf c hc
      by_cases e : c = ch
      · subst e; simpa using this
      · simpa [upd_other _ _ e] using this
    · intro c hc
      by_cases e : c = ch
      · subst e; simpa using hun c hc
      · simpa [upd_other _ _ e] using hun c hc
    · intro c
      have := hcons c
      by_cases e : c = ch
      · subst e
        simp only [upd_same, recvd_append, recvd_one_some, if_true]
        simpa [hb] using this
      · simp only [upd_other _ _ e, recvd_append, recvd_one_some, if_neg (Ne.symm e), List.append_nil]
        exact this
    · intro c hs
      simp only [seen_append, seen_one_some, Bool.or_false] at hs
      have := hseen c hs
      by_cases e : c = ch
      · subst e; rw [this.2] at hb; cases hb
      · simpa [upd_other _ _ e] using this
    · intro c
      by_cases e : c = ch
      · subst e; have := hcap c; simp only [upd_same]; rw [hb] at this
        simp only [List.length_cons] at this; exact ⟨by omega, this.2⟩
      · simpa [upd_other _ _ e] using hcap c
    · intro c
      by_cases e : c = ch
      · subst e; simpa using hcl c
      · simpa [upd_other _ _ e] using hcl c
  | @recvClosed ch hready hb hclosed =>
    refine ⟨hnp, hin, hwf, hun, ?_, ?_, hcap, hcl⟩
    · intro c
      simpa [recvd_append] using hcons c
    · intro c hs
      simp only [seen_append, seen_one_none, Bool.or_eq_true, decide_eq_true_eq] at hs
      rcases hs with hs | hs
      · exact hseen c hs
      · subst hs; exact ⟨hclosed, hb⟩

theorem inv_reach {chs : List Nat} {caps : Nat → Nat} {P : List (Op α)} {C : Consumer α} {s : Sys α}
    (hwf : WFProg chs P) (hr : Reach C (init caps P) s) : Inv chs caps P s := by
  generalize hi : init caps P = i at hr
  induction hr with
  | refl => subst hi; exact inv_init chs caps P hwf
  | tail _ hst ih => exact inv_step ih hst

theorem ReachN.reach {C : Consumer α} {n : Nat} {s t : Sys α} (h : ReachN C n s t) : Reach C s t := by
  induction h with
  | refl => exact .refl _
  | tail _ hst ih => exact .tail ih hst

theorem Reach.reachN {C : Consumer α} {s t : Sys α} (h : Reach C s t) : ∃ n, ReachN C n s t := by
  induction h with
  | refl => exact ⟨0, .refl _⟩
  | tail _ hst ih => obtain ⟨n, hn⟩ := ih; exact ⟨n + 1, .tail hn hst⟩

/-! ### safety corollaries (any consumer, any capacities, any schedule) -/

/-- what has been received on a channel is a prefix of what the program sends on it -/
theorem recvd_prefix {chs : List Nat} {caps : Nat → Nat} {P : List (Op α)} {s : Sys α}
    (hi : Inv chs caps P s) (ch : Nat) : recvd ch s.hist <+: sends ch P :=
  ⟨(s.chans ch).buf ++ sends ch s.prog, by rw [← List.append_assoc]; exact hi.conserve ch⟩

/-! ### termination -/

def unseen (h : List (Obs α)) (ch : Nat) : Nat := if seen h ch = true then 0 else 1

/-- decreases on every step (for consumers that stop at "closed" and use channels 0 and 1) -/
def measure (s : Sys α) : Nat :=
  3 * s.prog.length + (s.chans 0).buf.length + (s.chans 1).buf.length + unseen s.hist 0 + unseen s.hist 1

theorem unseen_append_some (h : List (Obs α)) (c : Nat) (v : α) (ch : Nat) :
    unseen (h ++ [(c, some v)]) ch = unseen h ch := by
  simp [unseen, seen_append, seen_one_some]

theorem buf_len_upd (f : Nat → Chan α) (ch : Nat) (c : Chan α) (i : Nat) :
    ((upd f ch c) i).buf.length = if i = ch then c.buf.length else (f i).buf.length := by
  by_cases e : i = ch <;> simp [upd, e]

/-- only the channels 0 and 1 ever hold anything -/
def Only2 (s : Sys α) : Prop := ∀ op ∈ s.prog, op.chan < 2

theorem only2_step {C : Consumer α} {s t : Sys α} (h : Only2 s) (hst : Step C s t) : Only2 t := by
  cases hst with
  | sendBuf hp _ _ => exact fun op hop => h op (by simp [hp, hop])
  | sendSync hp _ _ _ => exact fun op hop => h op (by simp [hp, hop])
  | sendClosed _ _ => exact fun op hop => by simp at hop
  | close hp _ => exact fun op hop => h op (by simp [hp, hop])
  | closeClosed _ _ => exact fun op hop => by simp at hop
  | recv _ _ => exact h
  | recvClosed _ _ _ => exact h

theorem measure_step {C : Consumer α} (hstop : StopsAtClosed C) (h2 : TwoChan C) {s t : Sys α}
    (ho : Only2 s) (hst : Step C s t) : measure t < measure s := by
  cases hst with
  | @sendBuf ch v rest hp hopen hroom =>
    have hc : ch < 2 := by simpa [Op.chan] using ho (.send ch v) (by simp [hp])
    simp only [measure, hp, List.length_cons, buf_len_upd, List.length_append]
    have : ch = 0 ∨ ch = 1 := by omega
    rcases this with rfl | rfl <;> (repeat' split) <;> (try simp only [List.length_nil]) <;> omega
  | @sendSync ch v rest hp _ _ _ =>
    simp only [measure, hp, List.length_cons, unseen_append_some]; omega
  | @sendClosed ch v rest hp _ =>
    simp only [measure, hp, List.length_cons, List.length_nil]; omega
  | @close ch rest hp hopen =>
    have hc : ch < 2 := by simpa [Op.chan] using ho (.close ch) (by simp [hp])
    simp only [measure, hp, List.length_cons, buf_len_upd]
    have : ch = 0 ∨ ch = 1 := by omega
    rcases this with rfl | rfl <;> (repeat' split) <;> omega
  | @closeClosed ch rest hp _ =>
    simp only [measure, hp, List.length_cons, List.length_nil]; omega
  | @recv ch v b hready hb =>
    have hc : ch < 2 := h2 _ _ hready
    simp only [measure, buf_len_upd, unseen_append_some]
    have : ch = 0 ∨ ch = 1 := by omega
    rcases this with rfl | rfl <;> (repeat' split) <;> simp only [hb, List.length_cons] <;> omega
  | @recvClosed ch hready hb hclosed =>
    have hc : ch < 2 := h2 _ _ hready
    have hns := hstop _ _ hready
    have : ch = 0 ∨ ch = 1 := by omega
    rcases this with rfl | rfl
    · have h1 : unseen (s.hist ++ [((0, none) : Obs α)]) 0 = 0 := by simp [unseen, seen_append, seen_one_none]
      have h2 : unseen (s.hist ++ [((0, none) : Obs α)]) 1 = unseen s.hist 1 := by
        simp [unseen, seen_append, seen_one_none]
      have h3 : unseen s.hist 0 = 1 := by simp [unseen, hns]
      simp only [measure, h1, h2, h3]; omega
    · have h1 : unseen (s.hist ++ [((1, none) : Obs α)]) 1 = 0 := by simp [unseen, seen_append, seen_one_none]
      have h2 : unseen (s.hist ++ [((1, none) : Obs α)]) 0 = unseen s.hist 0 := by
        simp [unseen, seen_append, seen_one_none]
      have h3 : unseen s.hist 1 = 1 := by simp [unseen, hns]
      simp only [measure, h1, h2, h3]; omega

/-- a run of `n` steps uses up `n` units of the measure -/
theorem reachN_measure {C : Consumer α} (hstop : StopsAtClosed C) (h2 : TwoChan C) {n : Nat} {s t : Sys α}
    (ho : Only2 s) (h : ReachN C n s t) : Only2 t ∧ n + measure t ≤ measure s := by
  induction h with
  | refl => exact ⟨ho, by omega⟩
  | tail _ hst ih =>
    have ih := ih ho
    have := measure_step hstop h2 ih.1 hst
    exact ⟨only2_step ih.1 hst, by omega⟩

/-- there is no infinite run -/
theorem no_infinite_path {C : Consumer α} (hstop : StopsAtClosed C) (h2 : TwoChan C) (s : Sys α) (ho : Only2 s) :
    ¬ ∃ f : Nat → Sys α, f 0 = s ∧ ∀ n, Step C (f n) (f (n + 1)) := by
  rintro ⟨f, h0, hf⟩
  have hr : ∀ n, ReachN C n s (f n) := by
    intro n
    induction n with
    | zero => rw [h0]; exact .refl _
    | succ n ih => exact .tail ih (hf n)
  have := (reachN_measure hstop h2 ho (hr (measure s + 1))).2
  omega

/-! ### the consumers -/

theorem concurrent_stops (D : List Nat) : StopsAtClosed (concurrent D : Consumer α) := by
  intro h ch hr
  simp only [concurrent, Bool.and_eq_true, Bool.not_eq_true'] at hr
  exact hr.2

theorem concurrent_two {D : List Nat} (hD : ∀ ch ∈ D, ch < 2) : TwoChan (concurrent D : Consumer α) := by
  intro h ch hr
  simp only [concurrent, Bool.and_eq_true, List.contains_iff_mem] at hr
  exact hD ch (by simpa using hr.1)

theorem sequential_stops : StopsAtClosed (sequential : Consumer α) := by
  intro h ch hr
  simp only [sequential] at hr
  split at hr
  · subst ch; simpa using hr
  · split at hr
    · subst ch; simp only [Bool.and_eq_true, Bool.not_eq_true'] at hr; exact hr.2
    · cases hr

theorem sequential_two : TwoChan (sequential : Consumer α) := by
  intro h ch hr
  by_cases h0 : ch = 0
  · omega
  · by_cases h1 : ch = 1
    · omega
    · simp [sequential, h0, h1] at hr

theorem wfProg_only2 {chs : List Nat} {P : List (Op α)} (h : WFProg chs P) (caps : Nat → Nat) :
    Only2 (init caps P) := fun op hop => (h.2 _ (h.1 op hop)).1

/-! ### maximal runs -/

theorem closesLast_ne_nil {ch : Nat} {p : List (Op α)} (h : closesLast ch p = true) : p ≠ [] := by
  intro e; subst e; cases h

/-- What a stuck state looks like, for any consumer: the producer is finished, or blocked on a send
to a channel that is open, full, and on which the consumer is not ready. -/
theorem stuck_cases {chs : List Nat} {caps : Nat → Nat} {P : List (Op α)} {C : Consumer α} {s : Sys α}
    (hi : Inv chs caps P s) (hs : Stuck C s) :
    (s.prog = [] ∨ ∃ ch v rest, s.prog = .send ch v :: rest ∧ ch ∈ chs ∧ (s.chans ch).closed = false ∧
        C.ready s.hist ch = false ∧ (s.chans ch).cap ≤ (s.chans ch).buf.length) ∧
    (∀ ch, C.ready s.hist ch = true → (s.chans ch).buf = [] ∧ (s.chans ch).closed = false) := by
  constructor
  · cases hp : s.prog with
    | nil => exact .inl rfl
    | cons op rest =>
      right
      cases op with
      | close ch =>
        exfalso
        cases hc : (s.chans ch).closed with
        | false => exact hs _ (.close hp hc)
        | true => exact hs _ (.closeClosed hp hc)
      | send ch v =>
        have hchs : ch ∈ chs := by simpa [Op.chan] using hi.chansIn (.send ch v) (by simp [hp])
        cases hc : (s.chans ch).closed with
        | true => exact absurd (Step.sendClosed (C := C) hp hc) (hs _)
        | false =>
          refine ⟨ch, v, rest, rfl, hchs, hc, ?_, ?_⟩
          · cases hr : C.ready s.hist ch with
            | false => rfl
            | true =>
              exfalso
              cases hb : (s.chans ch).buf with
              | cons x b => exact hs _ (.recv hr hb)
              | nil =>
                by_cases hz : (s.chans ch).cap = 0
                · exact hs _ (.sendSync hp hc hz hr)
                · exact hs _ (.sendBuf hp hc (by rw [hb]; simp; omega))
          · by_cases hlt : (s.chans ch).buf.length < (s.chans ch).cap
            · exact absurd (Step.sendBuf (C := C) hp hc hlt) (hs _)
            · omega
  · intro ch hr
    cases hb : (s.chans ch).buf with
    | cons x b => exact absurd (Step.recv hr hb) (hs _)
    | nil =>
      refine ⟨hb ▸ rfl, ?_⟩
      cases hc : (s.chans ch).closed with
      | false => first | rfl | exact hc
      | true => exact absurd (Step.recvClosed hr hb hc) (hs _)


/-- the state in which everything has happened: program finished without panic, every channel of
`chs` closed exactly once and observed closed, and exactly the program's values received on it -/
def Finished (chs : List Nat) (P : List (Op α)) (s : Sys α) : Prop :=
  s.prog = [] ∧ s.panicked = false ∧
  ∀ ch ∈ chs, (s.chans ch).closed = true ∧ (s.chans ch).closes = 1 ∧ (s.chans ch).buf = [] ∧
    seen s.hist ch = true ∧ recvd ch s.hist = sends ch P

theorem finished_of_prog_nil {chs : List Nat} {caps : Nat → Nat} {P : List (Op α)} {s : Sys α}
    (hi : Inv chs caps P s) (hp : s.prog = []) (hseen : ∀ ch ∈ chs, seen s.hist ch = true) :
    Finished chs P s := by
  refine ⟨hp, hi.noPanic, fun ch hch => ?_⟩
  have hs := hi.seenOk ch (hseen ch hch)
  have hc := hi.conserve ch
  have hcl := hi.closesOk ch
  rw [hs.1] at hcl
  rw [hs.2, hp] at hc
  exact ⟨hs.1, by simpa using hcl, hs.2, hseen ch hch, by simpa using hc⟩

theorem closed_of_prog_nil {chs : List Nat} {caps : Nat → Nat} {P : List (Op α)} {s : Sys α}
    (hi : Inv chs caps P s) (hp : s.prog = []) {ch : Nat} (hch : ch ∈ chs) : (s.chans ch).closed = true := by
  have := hi.wf ch hch
  cases hc : (s.chans ch).closed with
  | true => rfl
  | false => simp [hc, hp, closesLast] at this

/-- Concurrent draining consumer: every maximal run ends in the finished state, for all capacities. -/
theorem stuck_concurrent {chs : List Nat} {caps : Nat → Nat} {P : List (Op α)} {s : Sys α}
    (hwf : WFProg chs P) (hr : Reach (concurrent chs) (init caps P) s) (hs : Stuck (concurrent chs) s) :
    Finished chs P s := by
  have hi := inv_reach hwf hr
  obtain ⟨hprod, hcons⟩ := stuck_cases hi hs
  have hp : s.prog = [] := by
    rcases hprod with hp | ⟨ch, v, rest, hp, hch, hopen, hnr, _⟩
    · exact hp
    · exfalso
      have hns : seen s.hist ch = false := by
        cases h : seen s.hist ch with
        | false => rfl
        | true => have := (hi.seenOk ch h).1; simp [hopen] at this
      simp [concurrent, hch, hns] at hnr
  refine finished_of_prog_nil hi hp (fun ch hch => ?_)
  cases h : seen s.hist ch with
  | true => rfl
  | false =>
    exfalso
    have hready : (concurrent chs : Consumer α).ready s.hist ch = true := by simp [concurrent, hch, h]
    have := (hcons ch hready).2
    rw [closed_of_prog_nil hi hp hch] at this
    cases this

/-- everything still buffered on a channel was sent by the program -/
theorem buf_le_sends {chs : List Nat} {caps : Nat → Nat} {P : List (Op α)} {s : Sys α}
    (hi : Inv chs caps P s) (ch : Nat) :
    (recvd ch s.hist).length + (s.chans ch).buf.length + (sends ch s.prog).length = (sends ch P).length := by
  have := congrArg List.length (hi.conserve ch)
  simp only [List.length_append] at this
  omega

/-- number of sends on channel 1 that the program performs before its first `close 0`
(`none`: the program never closes channel 0) -/
def sendsBeforeClose0 : List (Op α) → Option Nat
  | [] => none
  | .close c :: r => if c = 0 then some 0 else sendsBeforeClose0 r
  | .send c _ :: r => (sendsBeforeClose0 r).map (fun k => k + if c = 1 then 1 else 0)

theorem sequential_ready_zero {h : List (Obs α)} {ch : Nat} (hu : seen h 0 = false)
    (hr : (sequential : Consumer α).ready h ch = true) : ch = 0 := by
  by_cases h0 : ch = 0
  · exact h0
  · by_cases h1 : ch = 1 <;> simp [sequential, h0, h1, hu] at hr

/-- while channel 0 is open, the sends on channel 1 that precede `close 0` are either still to do or
sitting in channel 1's buffer (the sequential consumer has not touched channel 1 yet) -/
def SeqInv (n : Nat) (s : Sys α) : Prop :=
  (s.chans 0).closed = false → ∃ k, sendsBeforeClose0 s.prog = some k ∧ k + (s.chans 1).buf.length = n

theorem seqInv_step {chs : List Nat} {caps : Nat → Nat} {P : List (Op α)} {n : Nat} {s t : Sys α}
    (hi : Inv chs caps P s) (hq : SeqInv n s) (hst : Step sequential s t) : SeqInv n t := by
  have hnp := (inv_step hi hst).noPanic
  have hunseen : (s.chans 0).closed = false → seen s.hist 0 = false := by
    intro hc
    cases h : seen s.hist 0 with
    | false => rfl
    | true => have := (hi.seenOk 0 h).1; rw [hc] at this; cases this
  cases hst with
  | @sendBuf ch v rest hp hopen hroom =>
    intro hc
    have hc0 : (s.chans 0).closed = false := by
      by_cases e0 : ch = 0
      · subst e0; exact hopen
      · simpa [upd_other _ _ (fun h : 0 = ch => e0 h.symm)] using hc
    obtain ⟨k, hk, hn⟩ := hq hc0
    rw [hp] at hk
    simp only [sendsBeforeClose0, Option.map_eq_some_iff] at hk
    obtain ⟨k', hk', rfl⟩ := hk
    refine ⟨k', hk', ?_⟩
    by_cases e : ch = 1
    · subst e; simp only [upd_same, List.length_append, List.length_singleton]; simp at hn; omega
    · simp only [upd_other _ _ (fun h : 1 = ch => e h.symm)]; simpa [e] using hn
  | @sendSync ch v rest hp hopen hzero hready =>
    intro hc
    obtain ⟨k, hk, hn⟩ := hq hc
    have e0 := sequential_ready_zero (hunseen hc) hready
    subst e0
    rw [hp] at hk
    simp only [sendsBeforeClose0, Option.map_eq_some_iff] at hk
    obtain ⟨k', hk', rfl⟩ := hk
    exact ⟨k', hk', by simpa using hn⟩
  | sendClosed _ _ => cases hnp
  | @close ch rest hp hopen =>
    intro hc
    by_cases e0 : ch = 0
    · subst e0; simp at hc
    · have hc0 : (s.chans 0).closed = false := by
        simpa [upd_other _ _ (fun h : 0 = ch => e0 h.symm)] using hc
      obtain ⟨k, hk, hn⟩ := hq hc0
      rw [hp] at hk
      simp only [sendsBeforeClose0, if_neg e0] at hk
      refine ⟨k, hk, ?_⟩
      by_cases e : ch = 1
      · subst e; simpa using hn
      · simpa [upd_other _ _ (fun h : 1 = ch => e h.symm)] using hn
  | closeClosed _ _ => cases hnp
  | @recv ch v b hready hb =>
    intro hc
    by_cases e0 : ch = 0
    · subst e0
      have hc0 : (s.chans 0).closed = false := by simpa using hc
      obtain ⟨k, hk, hn⟩ := hq hc0
      exact ⟨k, hk, by simpa [upd_other _ _ (show (1 : Nat) ≠ 0 by decide)] using hn⟩
    · have hc0 : (s.chans 0).closed = false := by
        simpa [upd_other _ _ (fun h : 0 = ch => e0 h.symm)] using hc
      exact absurd (sequential_ready_zero (hunseen hc0) hready) e0
  | @recvClosed ch hready hb hclosed =>
    intro hc
    have e0 := sequential_ready_zero (hunseen hc) hready
    subst e0
    rw [hc] at hclosed; cases hclosed

theorem seqInv_reach {caps : Nat → Nat} {P : List (Op α)} {n : Nat} {s : Sys α}
    (hwf : WFProg [0, 1] P) (hn : sendsBeforeClose0 P = some n) (hr : Reach sequential (init caps P) s) :
    Inv [0, 1] caps P s ∧ SeqInv n s := by
  generalize hi : init caps P = i at hr
  induction hr with
  | refl => subst hi; exact ⟨inv_init _ caps P hwf, fun _ => ⟨n, hn, by simp [init]⟩⟩
  | tail _ hst ih => exact ⟨inv_step ih.1 hst, seqInv_step ih.1 ih.2 hst⟩

/-- Sequential consumer (channel 0 until closed, then channel 1): every maximal run ends in the finished
state, for every capacity of channel 0, provided channel 1 can buffer the values that are sent on it BEFORE
channel 0 is closed (`n` of them; a producer that closes channel 0 first has `n = 0`, and then every
capacity of channel 1 will do, 0 included). -/
theorem stuck_sequential {caps : Nat → Nat} {P : List (Op α)} {n : Nat} {s : Sys α}
    (hwf : WFProg [0, 1] P) (hn : sendsBeforeClose0 P = some n) (hcap : n ≤ caps 1)
    (hr : Reach sequential (init caps P) s) (hs : Stuck sequential s) :
    Finished [0, 1] P s := by
  obtain ⟨hi, hq⟩ := seqInv_reach hwf hn hr
  obtain ⟨hprod, hcons⟩ := stuck_cases hi hs
  have hp : s.prog = [] := by
    rcases hprod with hp | ⟨ch, v, rest, hp, hch, hopen, hnr, hfull⟩
    · exact hp
    · exfalso
      have hns : seen s.hist ch = false := by
        cases h : seen s.hist ch with
        | false => rfl
        | true => have := (hi.seenOk ch h).1; simp [hopen] at this
      simp only [List.mem_cons, List.not_mem_nil, or_false] at hch
      rcases hch with rfl | rfl
      · simp [sequential, hns] at hnr
      · -- blocked on a send to channel 1: the consumer is not ready there, so it has not seen channel 0 closed
        have h0 : seen s.hist 0 = false := by
          cases h : seen s.hist 0 with
          | false => rfl
          | true => simp [sequential, h, hns] at hnr
        -- it is ready on channel 0, so (stuck) channel 0 is open and empty
        have hready0 : (sequential : Consumer α).ready s.hist 0 = true := by simp [sequential, h0]
        have hopen0 := (hcons 0 hready0).2
        obtain ⟨k, hk, hkn⟩ := hq hopen0
        rw [hp] at hk
        simp only [sendsBeforeClose0, Option.map_eq_some_iff] at hk
        obtain ⟨k', _, rfl⟩ := hk
        have hc1 := (hi.capOk 1).2
        simp only [if_true] at hkn
        omega
  have h0 : seen s.hist 0 = true := by
    cases h : seen s.hist 0 with
    | true => rfl
    | false =>
      exfalso
      have hready : (sequential : Consumer α).ready s.hist 0 = true := by simp [sequential, h]
      have := (hcons 0 hready).2
      rw [closed_of_prog_nil hi hp (by simp)] at this
      cases this
  have h1 : seen s.hist 1 = true := by
    cases h : seen s.hist 1 with
    | true => rfl
    | false =>
      exfalso
      have hready : (sequential : Consumer α).ready s.hist 1 = true := by simp [sequential, h, h0]
      have := (hcons 1 hready).2
      rw [closed_of_prog_nil hi hp (by simp)] at this
      cases this
  refine finished_of_prog_nil hi hp (fun ch hch => ?_)
  simp only [List.mem_cons, List.not_mem_nil, or_false] at hch
  rcases hch with rfl | rfl
  · exact h0
  · exact h1

/-! ### the one-channel producer `send v₁ … send v_k, close` -/

theorem closesLast_sendAll (ch : Nat) (vs : List α) : closesLast ch (vs.map (Op.send ch) ++ [Op.close ch]) = true := by
  induction vs with
  | nil => simp [closesLast]
  | cons v vs ih => simpa [closesLast] using ih

theorem sends_sendAll (ch : Nat) (vs : List α) : sends ch (vs.map (Op.send ch) ++ [Op.close ch]) = vs := by
  induction vs with
  | nil => rfl
  | cons v vs ih => simp only [List.map_cons, List.cons_append, sends_send, if_true, ih]

theorem wfProg_sendAll (vs : List α) : WFProg [0] (vs.map (Op.send 0) ++ [Op.close 0]) := by
  refine ⟨fun op hop => ?_, fun ch hch => ?_⟩
  · simp only [List.mem_append, List.mem_map, List.mem_singleton] at hop
    rcases hop with ⟨v, _, rfl⟩ | rfl <;> simp [Op.chan]
  · simp only [List.mem_singleton] at hch
    subst hch
    exact ⟨by omega, closesLast_sendAll 0 vs⟩

/-- in a state of a one-channel program: once the channel is closed the producer has nothing left to do -/
theorem prog_nil_of_closed {caps : Nat → Nat} {P : List (Op α)} {s : Sys α}
    (hi : Inv [0] caps P s) (hc : (s.chans 0).closed = true) : s.prog = [] := by
  have hq := hi.wf 0 (by simp)
  simp only [hc, if_true] at hq
  cases hp : s.prog with
  | nil => rfl
  | cons op rest =>
    exfalso
    have h0 : op.chan = 0 := by simpa using hi.chansIn op (by simp [hp])
    simp [hp, quiet_cons, h0] at hq

/-! ### the corner: a sequential consumer and an error channel that is too small -/

structure BlockInv (n c : Nat) (s : Sys α) : Prop where
  pending : ∃ k, sendsBeforeClose0 s.prog = some k ∧ n ≤ k + (s.chans 1).buf.length
  open0 : (s.chans 0).closed = false
  unseen0 : seen s.hist 0 = false
  cap1 : (s.chans 1).buf.length ≤ (s.chans 1).cap ∧ (s.chans 1).cap = c

theorem blockInv_step {n c : Nat} (hc : c < n) {s t : Sys α}
    (hi : s.panicked = true ∨ BlockInv n c s) (hst : Step sequential s t) :
    t.panicked = true ∨ BlockInv n c t := by
  rcases hi with hp | ⟨⟨k, hk, hn⟩, ho, hu, hcap⟩
  · left
    cases hst <;> first | exact hp | rfl
  · cases hst with
    | @sendBuf ch v rest hp hopen hroom =>
      right
      rw [hp] at hk
      simp only [sendsBeforeClose0, Option.map_eq_some_iff] at hk
      obtain ⟨k', hk', rfl⟩ := hk
      by_cases e : ch = 1
      · subst e
        refine ⟨⟨k', hk', ?_⟩, ?_, hu, ?_⟩
        · simp only [upd_same, List.length_append, List.length_singleton]; simp at hn; omega
        · simpa [upd_other _ _ (show (0 : Nat) ≠ 1 by decide)] using ho
        · simp only [upd_same, List.length_append, List.length_singleton]; exact ⟨by omega, hcap.2⟩
      · have e' : (1 : Nat) ≠ ch := fun h => e h.symm
        refine ⟨⟨k', hk', ?_⟩, ?_, hu, ?_⟩
        · simp only [upd_other _ _ e']; simp [e] at hn; exact hn
        · by_cases e0 : ch = 0
          · subst e0; simpa using ho
          · simpa [upd_other _ _ (fun h : 0 = ch => e0 h.symm)] using ho
        · simpa [upd_other _ _ e'] using hcap
    | @sendSync ch v rest hp hopen hzero hready =>
      right
      have e0 := sequential_ready_zero hu hready
      subst e0
      rw [hp] at hk
      simp only [sendsBeforeClose0, Option.map_eq_some_iff] at hk
      obtain ⟨k', hk', rfl⟩ := hk
      exact ⟨⟨k', hk', by simpa using hn⟩, ho, by simp [seen_append, seen_one_some, hu], hcap⟩
    | sendClosed _ _ => left; rfl
    | @close ch rest hp hopen =>
      right
      rw [hp] at hk
      by_cases e0 : ch = 0
      · subst e0
        simp only [sendsBeforeClose0, if_true, Option.some.injEq] at hk
        omega
      · simp only [sendsBeforeClose0, if_neg e0] at hk
        refine ⟨⟨k, hk, ?_⟩, ?_, hu, ?_⟩
        · by_cases e : ch = 1
          · subst e; simpa using hn
          · simpa [upd_other _ _ (fun h : 1 = ch => e h.symm)] using hn
        · simpa [upd_other _ _ (fun h : 0 = ch => e0 h.symm)] using ho
        · by_cases e : ch = 1
          · subst e; simpa using hcap
          · simpa [upd_other _ _ (fun h : 1 = ch => e h.symm)] using hcap
    | closeClosed _ _ => left; rfl
    | @recv ch v b hready hb =>
      right
      have e0 := sequential_ready_zero hu hready
      subst e0
      refine ⟨⟨k, hk, ?_⟩, ?_, by simp [seen_append, seen_one_some, hu], ?_⟩
      · simpa [upd_other _ _ (show (1 : Nat) ≠ 0 by decide)] using hn
      · simpa using ho
      · simpa [upd_other _ _ (show (1 : Nat) ≠ 0 by decide)] using hcap
    | @recvClosed ch hready hb hclosed =>
      have e0 := sequential_ready_zero hu hready
      subst e0
      rw [ho] at hclosed; cases hclosed

/-- ANY producer (well-formed or not) that performs `n` sends on channel 1 before it closes channel 0,
against the sequential consumer and with room for fewer than `n` values on channel 1, never finishes:
in every reachable state it has panicked, or it still has work to do while channel 0 is open and the
consumer is still waiting on channel 0. -/
theorem sequential_blocks {caps : Nat → Nat} {P : List (Op α)} {n : Nat}
    (hP : sendsBeforeClose0 P = some n) (hcap : caps 1 < n) {s : Sys α}
    (hr : Reach sequential (init caps P) s) :
    s.panicked = true ∨ (s.prog ≠ [] ∧ (s.chans 0).closed = false ∧ seen s.hist 0 = false) := by
  have h : s.panicked = true ∨ BlockInv n (caps 1) s := by
    generalize hi : init caps P = i at hr
    induction hr with
    | refl =>
      subst hi
      exact .inr ⟨⟨n, hP, by simp [init]⟩, rfl, rfl, by simp [init]⟩
    | tail _ hst ih => exact blockInv_step hcap ih hst
  rcases h with h | ⟨⟨k, hk, _⟩, ho, hu, _⟩
  · exact .inl h
  · refine .inr ⟨?_, ho, hu⟩
    intro e; rw [e] at hk; cases hk

/-! ### the deterministic scheduler produces `Step`-paths and stops only when nothing can move -/

theorem prodStep_sound {C : Consumer α} {s t : Sys α} (h : prodStep C s = some t) : Step C s t := by
  unfold prodStep at h
  split at h
  · cases h
  · rename_i ch v rest hp
    split at h
    · cases h; exact .sendClosed hp (by assumption)
    · split at h
      · cases h; exact .sendBuf hp (Bool.eq_false_iff.mpr ‹¬ (s.chans ch).closed = true›) (by assumption)
      · split at h
        · cases h; rename_i hz; exact .sendSync hp (Bool.eq_false_iff.mpr ‹¬ (s.chans ch).closed = true›) hz.1 hz.2
        · cases h
  · rename_i ch rest hp
    split at h
    · cases h; exact .closeClosed hp (by assumption)
    · cases h; exact .close hp (Bool.eq_false_iff.mpr ‹¬ (s.chans ch).closed = true›)

theorem consStep_sound {C : Consumer α} {s t : Sys α} {ch : Nat} (h : consStep C s ch = some t) : Step C s t := by
  unfold consStep at h
  split at h
  · rename_i hr
    split at h
    · rename_i v b hb; cases h; exact .recv hr hb
    · rename_i hb
      split at h
      · cases h; exact .recvClosed hr hb (by assumption)
      · cases h
  · cases h

theorem next_sound {C : Consumer α} {e : Bool} {s t : Sys α} (h : next C e s = some t) : Step C s t := by
  unfold next at h
  have key : ∀ {a b : Option (Sys α)}, (a.orElse fun _ => b) = some t → a = some t ∨ b = some t := by
    intro a b hab; cases a with
    | none => exact .inr (by simpa [Option.orElse] using hab)
    | some x => exact .inl (by simpa [Option.orElse] using hab)
  cases e with
  | true =>
    simp only [if_true] at h
    rcases key h with h | h
    · exact prodStep_sound h
    · rcases key h with h | h <;> exact consStep_sound h
  | false =>
    simp only [Bool.false_eq_true, if_false] at h
    rcases key h with h | h
    · rcases key h with h | h <;> exact consStep_sound h
    · exact prodStep_sound h

theorem prodStep_none {C : Consumer α} {s t : Sys α} (h : prodStep C s = none) (hst : Step C s t) :
    ∃ ch, C.ready s.hist ch = true ∧ ((∃ v b, (s.chans ch).buf = v :: b) ∨ ((s.chans ch).buf = [] ∧ (s.chans ch).closed = true)) := by
  cases hst with
  | sendBuf hp ho hroom => simp [prodStep, hp, ho, hroom] at h
  | sendSync hp ho hz hr =>
    unfold prodStep at h; simp only [hp, ho] at h
    split at h
    · cases h
    · simp [hz, hr] at h
  | sendClosed hp hc => simp [prodStep, hp, hc] at h
  | close hp ho => simp [prodStep, hp, ho] at h
  | closeClosed hp hc => simp [prodStep, hp, hc] at h
  | @recv ch v b hr hb => exact ⟨ch, hr, .inl ⟨v, b, hb⟩⟩
  | @recvClosed ch hr hb hc => exact ⟨ch, hr, .inr ⟨hb, hc⟩⟩

theorem next_none {C : Consumer α} (h2 : TwoChan C) {e : Bool} {s : Sys α} (h : next C e s = none) : Stuck C s := by
  intro t hst
  have hall : prodStep C s = none ∧ consStep C s 0 = none ∧ consStep C s 1 = none := by
    unfold next at h
    cases hp : prodStep C s <;> cases h0 : consStep C s 0 <;> cases h1 : consStep C s 1 <;>
      cases e <;> simp [hp, h0, h1, Option.orElse] at h ⊢
  obtain ⟨ch, hr, hcase⟩ := prodStep_none hall.1 hst
  have hc := h2 _ _ hr
  have hcs : consStep C s ch = none := by
    have : ch = 0 ∨ ch = 1 := by omega
    rcases this with rfl | rfl
    · exact hall.2.1
    · exact hall.2.2
  unfold consStep at hcs
  rcases hcase with ⟨v, b, hb⟩ | ⟨hb, hcl⟩
  · simp [hr, hb] at hcs
  · simp [hr, hb, hcl] at hcs

theorem Reach.trans {C : Consumer α} {s t u : Sys α} (h1 : Reach C s t) (h2 : Reach C t u) : Reach C s u := by
  induction h2 with
  | refl => exact h1
  | tail _ hst ih => exact .tail ih hst

theorem runFuel_reach (C : Consumer α) (e : Bool) (n : Nat) (s : Sys α) : Reach C s (runFuel C e n s) := by
  induction n generalizing s with
  | zero => exact .refl _
  | succ n ih =>
    unfold runFuel
    split
    · rename_i t ht
      exact Reach.trans (.tail (.refl _) (next_sound ht)) (ih t)
    · exact .refl _

theorem fuelFor_ge_measure (s : Sys α) : measure s ≤ fuelFor s := by
  simp only [measure, fuelFor, unseen]
  split <;> split <;> omega

/-- with fuel `≥ measure s` the scheduler's run is maximal -/
theorem runFuel_stuck {C : Consumer α} (hstop : StopsAtClosed C) (h2 : TwoChan C) (e : Bool) :
    ∀ (n : Nat) (s : Sys α), Only2 s → measure s ≤ n → Stuck C (runFuel C e n s) := by
  intro n
  induction n with
  | zero =>
    intro s ho hm t hst
    have := measure_step hstop h2 ho hst
    omega
  | succ n ih =>
    intro s ho hm
    unfold runFuel
    split
    · rename_i t ht
      have hst := next_sound ht
      have := measure_step hstop h2 ho hst
      exact ih t (only2_step ho hst) (by omega)
    · rename_i hn
      exact next_none h2 hn

end PolyVerif.Chan
