import PolyVerif.Lemmas.GenbankFeat
/-
C01: composition — `parse` on the text of a whole record, `parseMulti` / `parseFlat` on files.
-/
set_option linter.unusedSimpArgs false
namespace PolyVerif.Lemmas.Genbank
open PolyVerif PolyVerif.Str PolyVerif.Genbank PolyVerif.GbLayout

/-! ### lines the main loop skips -/

/-- empty, or starting with a blank -/
def Blank (l : Str) : Prop := l = [] ∨ ∃ r, l = ' ' :: r

theorem parseStep_blank (l : Str) (sub : List Str) (s : Sequence) (h : Blank l) : parseStep l sub s = .ok s := by
  rcases h with rfl | ⟨r, rfl⟩
  · rfl
  · have : trimSpace (headOf (split (' ' :: r) c!" ")) = [] := by
      show trimSpace (headOf (splitC ' ' (' ' :: r))) = []
      simp [splitC, headOf, trimSpace_nil]
    unfold parseStep
    simp only [this, if_true]

theorem parseLoop_blank (body rest : List Str) (s : Sequence) (h : ∀ l ∈ body, Blank l) :
    parseLoop (body ++ rest) s = parseLoop rest s := by
  induction body with
  | nil => rfl
  | cons l ls ih =>
    simp only [List.cons_append, parseLoop, parseStep_blank l _ s (h l (by simp)), Outcome.bind_ok']
    exact ih (fun x hx => h x (by simp [hx]))

theorem blank_spaces (n : Nat) (c : Str) : Blank (spaces (n + 1) ++ c) :=
  Or.inr ⟨spaces n ++ c, by simp [spaces, List.replicate_succ]⟩

theorem blank_map_spaces (n : Nat) (cs : List Str) : ∀ l ∈ cs.map (spaces (n + 1) ++ ·), Blank l := by
  intro l hl; obtain ⟨c, _, rfl⟩ := List.mem_map.mp hl; exact blank_spaces n c

/-- the continuation lines of a block -/
theorem blank_block_tail (kw t : Str) (bs : List Nat) : ∀ l ∈ (block kw t bs).drop 1, Blank l := by
  rw [block_eq]; exact blank_map_spaces 11 _

/-- all lines of a block whose keyword starts with a blank (sub-keywords) -/
theorem blank_subblock (kw t : Str) (bs : List Nat) : ∀ l ∈ block (' ' :: kw) t bs, Blank l := by
  rw [block_eq]
  intro l hl
  rcases List.mem_cons.mp hl with rfl | hl
  · exact Or.inr ⟨_, rfl⟩
  · exact blank_map_spaces 11 _ l hl

theorem blank_optBlock (kw t : Str) (bs : List Nat) : ∀ l ∈ optBlock (' ' :: kw) t bs, Blank l := by
  unfold optBlock; split
  · simp
  · exact blank_subblock kw t bs

theorem refHeadLines_cons (i : Nat) (r : RRef) (ℓ : RefLayout) :
    ∃ (c0 : Str) (conts : List Str), refHeadLines i r ℓ = (padRight c!"REFERENCE" 12 ++ c0) :: conts.map (spaces 12 ++ ·) := by
  unfold refHeadLines; split
  · exact ⟨refNumber i r ++ c!"  ", [], by simp [List.append_assoc]⟩
  · rw [block_eq]; exact ⟨_, _, rfl⟩

theorem blank_refLines_tail (i : Nat) (r : RRef) (ℓ : RefLayout) : ∀ l ∈ (refLines i r ℓ).drop 1, Blank l := by
  obtain ⟨c0, conts, hsh⟩ := refHeadLines_cons i r ℓ
  unfold refLines
  rw [hsh]
  simp only [List.cons_append, List.drop_succ_cons, List.drop_zero]
  intro l hl
  simp only [List.mem_append] at hl
  rcases hl with hl | ((((hl | hl) | hl) | hl) | hl)
  · exact blank_map_spaces 11 _ l hl
  · exact blank_optBlock _ _ _ l hl
  · exact blank_optBlock _ _ _ l hl
  · exact blank_optBlock _ _ _ l hl
  · exact blank_optBlock _ _ _ l hl
  · exact blank_optBlock _ _ _ l hl

theorem blank_qualLines (k v : Str) (bs : List Nat) (st : Nat) : ∀ l ∈ qualLines k v bs st, Blank l := by
  unfold qualLines
  split
  · intro l hl; simp at hl; subst hl
    exact Or.inr ⟨spaces 20 ++ (c!"/" ++ k), by simp [spaces, List.replicate_succ]⟩
  · split
    · intro l hl; simp at hl; subst hl
      exact Or.inr ⟨spaces 20 ++ (c!"/" ++ k ++ c!"=" ++ v), by simp [spaces, List.replicate_succ]⟩
    · cases closeLast (valueChunks k v bs) with
      | nil => intro l hl; simp [hang] at hl; subst hl; exact Or.inr ⟨_, by simp [spaces, List.replicate_succ]; rfl⟩
      | cons c cs =>
        intro l hl
        simp only [hang, List.mem_cons] at hl
        rcases hl with rfl | hl
        · exact Or.inr ⟨spaces 20 ++ (c!"/" ++ k ++ c!"=\"" ++ c), by simp [spaces, List.replicate_succ]⟩
        · exact blank_map_spaces 20 _ l hl

theorem blank_qualsLines (qs : List (Str × Str)) (ls : List (List Nat)) (sts : List Nat) :
    ∀ l ∈ qualsLines qs ls sts, Blank l := by
  induction qs generalizing ls sts with
  | nil => simp [qualsLines]
  | cons q r ih =>
    obtain ⟨k, v⟩ := q
    rw [qualsLines_cons]
    intro l hl
    rcases List.mem_append.mp hl with hl | hl
    · exact blank_qualLines k v _ _ l hl
    · exact ih _ _ l hl

theorem blank_featsLines (fs : List RFeature) (ls : List FeatLayout) : ∀ l ∈ featsLines fs ls, Blank l := by
  induction fs generalizing ls with
  | nil => simp [featsLines]
  | cons f r ih =>
    rw [featsLines_cons]
    intro l hl
    rcases List.mem_append.mp hl with hl | hl
    · obtain ⟨lc0, lcs, _, hfl⟩ := featLines_eq f (ls.headD {})
      rw [hfl] at hl
      simp only [List.mem_cons, List.mem_append] at hl
      rcases hl with rfl | hl | hl
      · exact Or.inr ⟨spaces 4 ++ f.key ++ spaces (21 - (5 + f.key.length)) ++ lc0, by
          simp [fLine, padRight, spaces, List.replicate_succ, List.append_assoc]; omega⟩
      · exact blank_map_spaces 20 _ l hl
      · exact blank_qualsLines _ _ _ l hl
    · exact ih _ l hl

/-! ### sequence lines start with a blank as long as the counter has at most 8 digits -/

theorem digitsF_length (f : Nat) : ∀ (n k : Nat), n < 10 ^ k → 1 ≤ k → (digitsF f n).length ≤ k := by
  induction f with
  | zero => intro n k _ _; simp [digitsF]
  | succ g ih =>
    intro n k hn hk
    simp only [digitsF]
    split
    · simp; exact hk
    · rename_i h10
      have hk2 : 2 ≤ k := by
        rcases Nat.lt_or_ge k 2 with h | h
        · have : k = 1 := by omega
          subst this; simp at hn; omega
        · exact h
      have : n / 10 < 10 ^ (k - 1) := by
        have e : 10 ^ k = 10 ^ (k - 1) * 10 := by rw [← Nat.pow_succ]; congr 1; omega
        rw [e] at hn
        exact Nat.div_lt_of_lt_mul (by rw [Nat.mul_comm]; exact hn)
      have := ih (n / 10) (k - 1) this (by omega)
      simp only [List.length_append, List.length_cons, List.length_nil]; omega

theorem ofNat_length_le8 (n : Nat) (h : n < 100000000) : (ofNat n).length ≤ 8 :=
  digitsF_length _ n 8 (by simpa using h) (by omega)

theorem chunk_nil (n f : Nat) : chunk n f [] = [] := by
  cases f <;> simp [chunk]

theorem blank_originLine (bl start : Nat) (letters : Str) (h : start + 1 < 100000000) : Blank (originLine bl start letters) := by
  have := ofNat_length_le8 (start + 1) h
  simp only [originLine, padLeft]
  obtain ⟨k, hk⟩ : ∃ k, 9 - (ofNat (start + 1)).length = k + 1 := ⟨8 - (ofNat (start + 1)).length, by omega⟩
  rw [hk, List.append_assoc]
  exact blank_spaces k _

theorem blank_originLinesAux (bl n : Nat) : ∀ (f : Nat) (s : Str) (start : Nat), s.length ≤ f → start + s.length < 100000000 →
    ∀ l ∈ originLinesAux bl (n + 1) start (chunk n f s), Blank l := by
  intro f
  induction f with
  | zero => intro s start _ _ l hl; simp [chunk, originLinesAux] at hl
  | succ g ih =>
    intro s start hs hb l hl
    simp only [chunk] at hl
    split at hl
    · simp [originLinesAux] at hl
    · rename_i hne
      simp only [originLinesAux, List.mem_cons] at hl
      have hpos : 0 < s.length := List.length_pos_iff.mpr hne
      rcases hl with rfl | hl
      · exact blank_originLine bl start _ (by omega)
      · by_cases hlen : s.length ≤ n + 1
        · have : s.drop (n + 1) = [] := List.drop_eq_nil_of_le hlen
          rw [this, chunk_nil] at hl; simp [originLinesAux] at hl
        · exact ih (s.drop (n + 1)) (start + (n + 1)) (by simp; omega) (by simp; omega) l hl

theorem blank_originLines (seq : Str) (bl pl : Nat) (h : seq.length < 100000000) :
    ∀ l ∈ originLines seq bl pl, Blank l := by
  simp only [originLines]
  obtain ⟨n, hn⟩ : ∃ n, (bl + 1) * (pl + 1) = n + 1 := ⟨(bl + 1) * (pl + 1) - 1, by
    have : 0 < (bl + 1) * (pl + 1) := Nat.mul_pos (by omega) (by omega)
    omega⟩
  rw [hn]
  simp only [Nat.add_sub_cancel, chunks]
  exact blank_originLinesAux bl n _ seq 0 (Nat.le_refl _) (by simpa using h)

/-! ### keyword lines -/

/-- a keyword: a blank-free visible word of at most 11 columns that begins with a letter -/
def KwOK (kw : Str) : Prop :=
  kw ≠ [] ∧ kw.length ≤ 11 ∧ (∀ c ∈ kw, isVisible c = true) ∧ ∀ c, kw.head? = some c → isLetter c = true

/-- a list of lines that starts with a keyword line -/
def MetaHead (X : List Str) : Prop := ∃ m rest, X = m :: rest ∧ quickMetaCheck m = .ok true

theorem MetaHead.startsStop {X : List Str} (h : MetaHead X) : StartsStop X := by
  obtain ⟨m, rest, rfl, hm⟩ := h; exact ⟨m, rest, rfl, Or.inl hm⟩

theorem kw_nosp {kw : Str} (h : KwOK kw) : ' ' ∉ kw := by
  intro hm; have := h.2.2.1 _ hm; revert this; decide

theorem kwLine_eq (kw c0 : Str) (h : KwOK kw) : ∃ k, padRight kw 12 ++ c0 = kw ++ (spaces (k + 1) ++ c0) := by
  refine ⟨11 - kw.length, ?_⟩
  simp only [padRight, List.append_assoc]
  have : 12 - kw.length = 11 - kw.length + 1 := by have := h.2.1; omega
  rw [this]

theorem kwLine_kw (kw c0 : Str) (h : KwOK kw) :
    trimSpace (headOf (split (padRight kw 12 ++ c0) c!" ")) = kw ∧ quickMetaCheck (padRight kw 12 ++ c0) = .ok true := by
  obtain ⟨k, hk⟩ := kwLine_eq kw c0 h
  rw [hk]
  constructor
  · show trimSpace (headOf (splitC ' ' _)) = kw
    rw [splitC_gap kw c0 k (kw_nosp h)]
    exact trimSpace_id kw (fun c hc => (isVisible_facts (h.2.2.1 c (List.mem_of_mem_head? hc))).2.1)
      (fun c hc => (isVisible_facts (h.2.2.1 c (List.mem_of_getLast? hc))).2.1)
  · obtain ⟨x, xs, rfl⟩ : ∃ x xs, kw = x :: xs := by
      cases kw with | nil => exact absurd rfl h.1 | cons x xs => exact ⟨x, xs, rfl⟩
    have hx := h.2.2.2 x rfl
    have h1 : x ≠ ' ' := by rintro rfl; revert hx; decide
    have h2 : x ≠ '/' := by rintro rfl; revert hx; decide
    simp only [quickMetaCheck, List.cons_append, ne_eq, h1, not_false_eq_true, if_true]
    rw [if_neg (by simp [spaces]; omega)]
    have : ((x :: (xs ++ (spaces (k + 1) ++ c0))).take 2 != c!"//") = true := by
      cases xs <;> simp [spaces, List.replicate_succ, h2]
    rw [this]

theorem block_head (kw t : Str) (bs : List Nat) (rest : List Str) (h : KwOK kw) : MetaHead (block kw t bs ++ rest) := by
  rw [block_eq]; exact ⟨_, _, rfl, (kwLine_kw kw _ h).2⟩

/-! ### one step of the main loop, by keyword -/

section steps
variable (line : Str) (sub : List Str) (s : Sequence)

theorem parseStep_locus (h : trimSpace (headOf (split line c!" ")) = c!"LOCUS") :
    parseStep line sub s = (parseLocus line).bind fun l => .ok { s with md := { s.md with locus := l } } := by
  unfold parseStep; simp only [h]; rfl

theorem parseStep_definition (h : trimSpace (headOf (split line c!" ")) = c!"DEFINITION") :
    parseStep line sub s = (joinSubLines (split line c!" ") sub).bind fun v => .ok { s with md := { s.md with definition := v } } := by
  unfold parseStep; simp only [h]; rfl

theorem parseStep_accession (h : trimSpace (headOf (split line c!" ")) = c!"ACCESSION") :
    parseStep line sub s = (joinSubLines (split line c!" ") sub).bind fun v => .ok { s with md := { s.md with accession := v } } := by
  unfold parseStep; simp only [h]; rfl

theorem parseStep_version (h : trimSpace (headOf (split line c!" ")) = c!"VERSION") :
    parseStep line sub s = (joinSubLines (split line c!" ") sub).bind fun v => .ok { s with md := { s.md with version := v } } := by
  unfold parseStep; simp only [h]; rfl

theorem parseStep_keywords (h : trimSpace (headOf (split line c!" ")) = c!"KEYWORDS") :
    parseStep line sub s = (joinSubLines (split line c!" ") sub).bind fun v => .ok { s with md := { s.md with keywords := v } } := by
  unfold parseStep; simp only [h]; rfl

theorem parseStep_source (h : trimSpace (headOf (split line c!" ")) = c!"SOURCE") :
    parseStep line sub s = (getSourceOrganism (split line c!" ") sub).bind fun so =>
      .ok { s with md := { s.md with source := so.1, organism := so.2 } } := by
  unfold parseStep; simp only [h]; rfl

theorem parseStep_reference (h : trimSpace (headOf (split line c!" ")) = c!"REFERENCE") :
    parseStep line sub s = (getReference (split line c!" ") sub).bind fun r =>
      .ok { s with md := { s.md with references := s.md.references ++ [r] } } := by
  unfold parseStep; simp only [h]; rfl

theorem parseStep_features (h : trimSpace (headOf (split line c!" ")) = c!"FEATURES") :
    parseStep line sub s = (getFeatures sub).bind fun fs => .ok { s with features := fs } := by
  unfold parseStep; simp only [h]; rfl

theorem parseStep_origin (h : trimSpace (headOf (split line c!" ")) = c!"ORIGIN") :
    parseStep line sub s = .ok { s with seq := getSequence sub } := by
  unfold parseStep; simp only [h]; rfl

/-- any other keyword -/
theorem parseStep_other (kw : Str) (h : trimSpace (headOf (split line c!" ")) = kw)
    (hne : kw ≠ []) (hr : reservedKeys.contains kw = false) :
    parseStep line sub s = (quickMetaCheck line).bind fun m =>
      if m then (joinSubLines (split line c!" ") sub).bind fun v =>
          .ok { s with md := { s.md with other := mapInsert s.md.other kw v } }
      else .ok s := by
  have hr' : ∀ x ∈ reservedKeys, kw ≠ x := by
    intro x hx e; subst e
    have : reservedKeys.contains kw = true := by simpa using hx
    rw [hr] at this; cases this
  unfold parseStep
  simp only [h, if_neg hne, if_neg (hr' c!"LOCUS" (by decide)), if_neg (hr' c!"DEFINITION" (by decide)),
    if_neg (hr' c!"ACCESSION" (by decide)), if_neg (hr' c!"VERSION" (by decide)), if_neg (hr' c!"KEYWORDS" (by decide)),
    if_neg (hr' c!"SOURCE" (by decide)), if_neg (hr' c!"REFERENCE" (by decide)), if_neg (hr' c!"FEATURES" (by decide)),
    if_neg (hr' c!"ORIGIN" (by decide))]

end steps

/-! ### the sections of a record, from the end -/

def originHead (ℓ : RecLayout) : Str := if ℓ.originTrail then c!"ORIGIN      " else c!"ORIGIN"

theorem originHead_facts (ℓ : RecLayout) :
    trimSpace (headOf (split (originHead ℓ) c!" ")) = c!"ORIGIN" ∧ quickMetaCheck (originHead ℓ) = .ok true
      ∧ FStop (originHead ℓ) := by
  unfold originHead
  split
  · exact ⟨by decide, by decide, ⟨by decide, by decide, by decide⟩⟩
  · exact ⟨by decide, by decide, ⟨by decide, by decide, by decide⟩⟩

/-- after the sequence: the sequence lines, the terminator, empty lines -/
theorem parseLoop_end (seq : Str) (bl pl : Nat) (tail : List Str) (s : Sequence) (h : seq.length < 100000000)
    (ht : ∀ l ∈ tail, l = []) :
    parseLoop (originLines seq bl pl ++ c!"//" :: tail) s = .ok s := by
  rw [parseLoop_blank _ _ _ (blank_originLines seq bl pl h)]
  have : parseStep c!"//" tail s = .ok s := by rfl
  simp only [parseLoop, this, Outcome.bind_ok']
  have := parseLoop_blank tail [] s (fun l hl => Or.inl (ht l hl))
  simpa [parseLoop] using this

theorem getSequence_end (seq : Str) (bl pl : Nat) (tail : List Str) (h : seq.all isLetter = true) (ht : ∀ l ∈ tail, l = []) :
    getSequence (originLines seq bl pl ++ c!"//" :: tail) = seq := by
  simp only [getSequence, List.flatten_append, List.filter_append, filter_originLines seq bl pl h, List.flatten_cons]
  have : tail.flatten = [] := by
    rw [List.flatten_eq_nil_iff]; exact ht
  rw [this]
  have : List.filter isLetter c!"//" = [] := by decide
  simp [this]

theorem featsLines_length (fs : List RFeature) (ls : List FeatLayout) : fs.length ≤ (featsLines fs ls).length := by
  induction fs generalizing ls with
  | nil => simp
  | cons f r ih =>
    obtain ⟨lc0, lcs, _, hfl⟩ := featLines_eq f (ls.headD {})
    rw [featsLines_cons, hfl]
    have := ih ls.tail
    simp only [List.length_cons, List.length_append]; omega

/-- FEATURES: the whole feature table, as the parser's map keeps the qualifiers (repeated keys: last wins) -/
theorem getFeatures_table_loose (fs : List RFeature) (ls : List FeatLayout) (stop : Str) (B : List Str)
    (hw : ∀ f ∈ fs, wfFeatureLoose f = true) (hm : quickMetaCheck stop = .ok true) (hs : FStop stop) :
    getFeatures (featsLines fs ls ++ stop :: B) = .ok (fs.map toFeatureM) := by
  unfold getFeatures
  have := featLoop_feats (featsLines fs ls ++ stop :: B) stop B hm hs fs ls [] []
    ((featsLines fs ls ++ stop :: B).length + 1) (by simp) hw (by
      have := featsLines_length fs ls
      simp only [List.length_append, List.length_cons]; omega)
  simpa using this

/-- FEATURES: with pairwise distinct qualifier keys every value is kept -/
theorem getFeatures_table (fs : List RFeature) (ls : List FeatLayout) (stop : Str) (B : List Str)
    (hw : ∀ f ∈ fs, wfFeature f = true) (hm : quickMetaCheck stop = .ok true) (hs : FStop stop) :
    getFeatures (featsLines fs ls ++ stop :: B) = .ok (fs.map toFeature) := by
  rw [getFeatures_table_loose fs ls stop B (fun f hf => (wfFeature_loose (hw f hf)).1) hm hs]
  congr 1
  apply List.map_congr_left
  intro f hf
  exact toFeatureM_eq (wfFeature_loose (hw f hf)).2

/-! ### extra keyword blocks -/

theorem extraKey_facts {k : Str} (h : isExtraKey k = true) : KwOK k ∧ k ≠ [] ∧ reservedKeys.contains k = false := by
  simp only [isExtraKey, Bool.and_eq_true, decide_eq_true_eq, List.all_eq_true, Bool.not_eq_true'] at h
  obtain ⟨⟨⟨h1, h2⟩, h3⟩, h4⟩ := h
  cases k with
  | nil => simp at h3
  | cons c cs =>
    refine ⟨⟨by simp, h1, h2, ?_⟩, by simp, h4⟩
    intro x hx; simp at hx; subst hx; exact h3

theorem extrasLines_cons (k t : Str) (es : List (Str × Str)) (ls : List (List Nat)) :
    extrasLines ((k, t) :: es) ls = block k t (ls.headD []) ++ extrasLines es ls.tail := rfl

theorem MetaHead_extras (es : List (Str × Str)) (ls : List (List Nat)) (X : List Str)
    (he : ∀ e ∈ es, isExtraKey e.1 = true) (hX : MetaHead X) : MetaHead (extrasLines es ls ++ X) := by
  cases es with
  | nil => exact hX
  | cons e r =>
    obtain ⟨k, t⟩ := e
    rw [extrasLines_cons, List.append_assoc]
    exact block_head k t _ _ (extraKey_facts (he (k, t) (by simp))).1

theorem parseLoop_extras (es : List (Str × Str)) :
    ∀ (ls : List (List Nat)) (X : List Str) (s : Sequence),
      (∀ e ∈ es, isExtraKey e.1 = true ∧ isText e.2 = true) → distinct (es.map (·.1)) = true →
      (∀ e ∈ es, e.1 ∉ s.md.other.map (·.1)) → MetaHead X →
      parseLoop (extrasLines es ls ++ X) s = parseLoop X { s with md := { s.md with other := s.md.other ++ es } } := by
  induction es with
  | nil => intro ls X s _ _ _ _; simp [extrasLines]
  | cons e r ih =>
    intro ls X s he hd hfresh hX
    obtain ⟨k, t⟩ := e
    obtain ⟨hk, ht⟩ := he (k, t) (by simp)
    obtain ⟨hkw, hne, hres⟩ := extraKey_facts hk
    obtain ⟨hd1, hd2⟩ := distinct_cons (by simpa using hd)
    have hX' : MetaHead (extrasLines r ls.tail ++ X) := MetaHead_extras r ls.tail X (fun e he' => (he e (by simp [he'])).1) hX
    obtain ⟨stop, rest, hrest, hstop⟩ := hX'.startsStop
    rw [extrasLines_cons, block_eq, List.append_assoc, List.cons_append]
    obtain ⟨q1, q2⟩ := kwLine_kw k ((wrapText (ls.headD []) t).headD []) hkw
    obtain ⟨kk, hkk⟩ := kwLine_eq k ((wrapText (ls.headD []) t).headD []) hkw
    have hjoin : joinSubLines (split (padRight k 12 ++ (wrapText (ls.headD []) t).headD []) c!" ")
        (((wrapText (ls.headD []) t).drop 1).map (spaces 12 ++ ·) ++ (extrasLines r ls.tail ++ X)) = .ok t := by
      rw [hkk, hrest]
      exact joinSubLines_chunks k kk t _ stop rest (kw_nosp hkw) ht hstop
    simp only [parseLoop]
    rw [parseStep_other _ _ _ k q1 hne hres, q2]
    simp only [Outcome.bind_ok', if_true, hjoin]
    rw [parseLoop_blank _ _ _ (blank_map_spaces 11 _)]
    rw [ih ls.tail X _ (fun e he' => he e (by simp [he'])) hd2 ?_ hX]
    · rw [mapInsert_fresh _ k t (hfresh (k, t) (by simp))]
      simp [List.append_assoc]
    · intro e he'
      rw [mapInsert_fresh _ k t (hfresh (k, t) (by simp))]
      simp only [List.map_append, List.map_cons, List.map_nil, List.mem_append, List.mem_singleton, not_or]
      refine ⟨hfresh e (by simp [he']), ?_⟩
      intro heq; exact hd1 (by rw [← heq]; exact List.mem_map.mpr ⟨e, he', rfl⟩)

/-! ### references -/

theorem refsLines_cons (i : Nat) (r : RRef) (rs : List RRef) (ls : List RefLayout) :
    refsLines i (r :: rs) ls = refLines i r (ls.headD {}) ++ refsLines (i + 1) rs ls.tail := rfl

theorem KwOK_reference : KwOK c!"REFERENCE" := ⟨by decide, by decide, by decide, by decide⟩

theorem refLines_eq (i : Nat) (r : RRef) (ℓ : RefLayout) :
    refLines i r ℓ = (refLines i r ℓ).headD [] :: (refLines i r ℓ).drop 1
      ∧ trimSpace (headOf (split ((refLines i r ℓ).headD []) c!" ")) = c!"REFERENCE"
      ∧ quickMetaCheck ((refLines i r ℓ).headD []) = .ok true := by
  obtain ⟨c0, conts, hsh⟩ := refHeadLines_cons i r ℓ
  unfold refLines
  rw [hsh]
  simp only [List.cons_append, List.headD_cons, List.drop_succ_cons, List.drop_zero, true_and]
  exact kwLine_kw c!"REFERENCE" _ KwOK_reference

theorem MetaHead_refs (i : Nat) (rs : List RRef) (ls : List RefLayout) (X : List Str) (hX : MetaHead X) :
    MetaHead (refsLines i rs ls ++ X) := by
  cases rs with
  | nil => exact hX
  | cons r rs' =>
    obtain ⟨h1, _, h3⟩ := refLines_eq i r (ls.headD {})
    rw [refsLines_cons, h1]
    exact ⟨_, _, rfl, h3⟩

theorem parseLoop_refs (rs : List RRef) :
    ∀ (i : Nat) (ls : List RefLayout) (X : List Str) (s : Sequence),
      (∀ r ∈ rs, wfRef r = true) → MetaHead X →
      parseLoop (refsLines i rs ls ++ X) s
        = parseLoop X { s with md := { s.md with references := s.md.references ++ toRefs i rs } } := by
  induction rs with
  | nil => intro i ls X s _ _; simp [refsLines, toRefs]
  | cons r rs' ih =>
    intro i ls X s hw hX
    obtain ⟨h1, h2, _⟩ := refLines_eq i r (ls.headD {})
    obtain ⟨m, rest, hrest, hm⟩ := MetaHead_refs (i + 1) rs' ls.tail X hX
    have hget := getReference_lines i r (ls.headD {}) m rest (hw r (by simp)) hm
    rw [refsLines_cons, List.append_assoc, h1, List.cons_append]
    simp only [parseLoop]
    rw [parseStep_reference _ _ _ h2, hrest, hget]
    simp only [Outcome.bind_ok']
    rw [parseLoop_blank _ _ _ (blank_refLines_tail i r (ls.headD {})), ← hrest,
      ih (i + 1) ls.tail X _ (fun x hx => hw x (by simp [hx])) hX]
    simp [toRefs_cons, toRef, toRefs, List.append_assoc]

/-! ### simple keyword blocks, SOURCE, LOCUS -/

/-- a keyword block whose step is `field = joinSubLines(...)` -/
theorem parseLoop_block (kw : Str) (upd : Sequence → Str → Sequence) (hkw : KwOK kw)
    (hstep : ∀ (line : Str) (sub : List Str) (s : Sequence), trimSpace (headOf (split line c!" ")) = kw →
      parseStep line sub s = (joinSubLines (split line c!" ") sub).bind fun v => .ok (upd s v))
    (t : Str) (bs : List Nat) (X : List Str) (s : Sequence) (ht : isText t = true) (hX : MetaHead X) :
    parseLoop (block kw t bs ++ X) s = parseLoop X (upd s t) := by
  obtain ⟨stop, rest, hrest, hstop⟩ := hX.startsStop
  rw [block_eq, List.cons_append]
  obtain ⟨q1, _⟩ := kwLine_kw kw ((wrapText bs t).headD []) hkw
  obtain ⟨kk, hkk⟩ := kwLine_eq kw ((wrapText bs t).headD []) hkw
  have hjoin : joinSubLines (split (padRight kw 12 ++ (wrapText bs t).headD []) c!" ")
      (((wrapText bs t).drop 1).map (spaces 12 ++ ·) ++ X) = .ok t := by
    rw [hkk, hrest]
    exact joinSubLines_chunks kw kk t _ stop rest (kw_nosp hkw) ht hstop
  simp only [parseLoop]
  rw [hstep _ _ _ q1, hjoin]
  simp only [Outcome.bind_ok']
  exact parseLoop_blank _ _ _ (blank_map_spaces 11 _)

theorem parseLoop_source (src org : Str) (bs bo : List Nat) (X : List Str) (s : Sequence)
    (hs : isText src = true) (ho : isText org = true) (hX : MetaHead X) :
    parseLoop (block c!"SOURCE" src bs ++ (block c!"  ORGANISM" org bo ++ X)) s
      = parseLoop X { s with md := { s.md with source := src, organism := org } } := by
  have hkw : KwOK c!"SOURCE" := ⟨by decide, by decide, by decide, by decide⟩
  have h1 : block c!"SOURCE" src bs = (block c!"SOURCE" src bs).headD [] :: (block c!"SOURCE" src bs).drop 1 := by
    rw [block_eq]; rfl
  have hq : trimSpace (headOf (split ((block c!"SOURCE" src bs).headD []) c!" ")) = c!"SOURCE" := by
    rw [block_eq]; exact (kwLine_kw c!"SOURCE" _ hkw).1
  have hget := getSourceOrganism_blocks src org bs bo X hs ho hX.startsStop
  rw [h1, List.cons_append]
  simp only [parseLoop]
  rw [parseStep_source _ _ _ hq, hget]
  simp only [Outcome.bind_ok']
  rw [parseLoop_blank _ _ _ (blank_block_tail c!"SOURCE" src bs),
    parseLoop_blank _ _ _ (blank_subblock c!" ORGANISM" org bo)]

/-- SOURCE written without an ORGANISM line: the source is set, the organism stays empty (6ccbb58) -/
theorem parseLoop_source_alone (src : Str) (bs : List Nat) (X : List Str) (s : Sequence)
    (hs : isText src = true) (hX : MetaHead X) :
    parseLoop (block c!"SOURCE" src bs ++ X) s
      = parseLoop X { s with md := { s.md with source := src, organism := [] } } := by
  have hkw : KwOK c!"SOURCE" := ⟨by decide, by decide, by decide, by decide⟩
  have h1 : block c!"SOURCE" src bs = (block c!"SOURCE" src bs).headD [] :: (block c!"SOURCE" src bs).drop 1 := by
    rw [block_eq]; rfl
  have hq : trimSpace (headOf (split ((block c!"SOURCE" src bs).headD []) c!" ")) = c!"SOURCE" := by
    rw [block_eq]; exact (kwLine_kw c!"SOURCE" _ hkw).1
  have hget : getSourceOrganism (split ((block c!"SOURCE" src bs).headD []) c!" ")
      ((block c!"SOURCE" src bs).drop 1 ++ X) = .ok (src, []) := by
    obtain ⟨m, rest, rfl, hm⟩ := hX
    exact getSourceOrganism_alone src bs m rest hs hm
  rw [h1, List.cons_append]
  simp only [parseLoop]
  rw [parseStep_source _ _ _ hq, hget]
  simp only [Outcome.bind_ok']
  rw [parseLoop_blank _ _ _ (blank_block_tail c!"SOURCE" src bs)]

theorem locusLine_kw (l : RLocus) (ℓ : RecLayout) :
    trimSpace (headOf (split (locusLine l ℓ) c!" ")) = c!"LOCUS" := by
  show trimSpace (headOf (splitC ' ' _)) = _
  have : ∃ k R, locusLine l ℓ = c!"LOCUS" ++ (spaces (k + 1) ++ R) := by
    refine ⟨ℓ.pads.getD 0 0, l.name ++ gapped ((locusToks l ℓ).drop 1) ++ spaces ℓ.locusTrail, ?_⟩
    simp [locusLine, locusToks, gapped, List.append_assoc]
  obtain ⟨k, R, hk⟩ := this
  rw [hk, splitC_gap _ _ _ (by decide)]
  simp only [headOf]
  decide

/-! ### the whole record -/

theorem KwOK_std : KwOK c!"DEFINITION" ∧ KwOK c!"ACCESSION" ∧ KwOK c!"VERSION" ∧ KwOK c!"KEYWORDS" ∧ KwOK c!"SOURCE" :=
  ⟨⟨by decide, by decide, by decide, by decide⟩, ⟨by decide, by decide, by decide, by decide⟩, ⟨by decide, by decide, by decide, by decide⟩,
   ⟨by decide, by decide, by decide, by decide⟩, ⟨by decide, by decide, by decide, by decide⟩⟩

/-! ### optional blocks -/

theorem MetaHead_mblock (om : Bool) (kw t : Str) (bs : List Nat) (X : List Str) (hkw : KwOK kw) (hX : MetaHead X) :
    MetaHead (mblock om kw t bs ++ X) := by
  unfold mblock; split
  · exact hX
  · exact block_head kw t bs X hkw

theorem MetaHead_sourceBlock (om oo : Bool) (src org : Str) (bs bo : List Nat) (X : List Str) (hX : MetaHead X) :
    MetaHead (sourceBlock om oo src org bs bo ++ X) := by
  unfold sourceBlock; split
  · exact hX
  · rw [List.append_assoc]; exact block_head c!"SOURCE" src bs _ KwOK_std.2.2.2.2

/-- an optional keyword block: written, it sets the field; left out (its text is empty), the field keeps
its initial empty value — `h0`: setting the field to the empty text does not change the state -/
theorem parseLoop_mblock (om : Bool) (kw : Str) (upd : Sequence → Str → Sequence) (hkw : KwOK kw)
    (hstep : ∀ (line : Str) (sub : List Str) (s : Sequence), trimSpace (headOf (split line c!" ")) = kw →
      parseStep line sub s = (joinSubLines (split line c!" ") sub).bind fun v => .ok (upd s v))
    (t : Str) (bs : List Nat) (X : List Str) (s : Sequence) (ht : isText t = true) (hX : MetaHead X)
    (h0 : upd s [] = s) :
    parseLoop (mblock om kw t bs ++ X) s = parseLoop X (upd s t) := by
  unfold mblock; split
  · rename_i h; rw [h.2, h0]; rfl
  · exact parseLoop_block kw upd hkw hstep t bs X s ht hX

/-- SOURCE / ORGANISM: both written, both left out, or the empty ORGANISM line alone left out (6ccbb58) -/
theorem parseLoop_sourceBlock (om oo : Bool) (src org : Str) (bs bo : List Nat) (X : List Str) (s : Sequence)
    (hs : isText src = true) (ho : isText org = true) (hX : MetaHead X)
    (h0 : ({ s with md := { s.md with source := [], organism := [] } } : Sequence) = s) :
    parseLoop (sourceBlock om oo src org bs bo ++ X) s
      = parseLoop X { s with md := { s.md with source := src, organism := org } } := by
  unfold sourceBlock; split
  · rename_i h; rw [h.2.1, h.2.2, h0]; rfl
  · split
    · rename_i h2; rw [h2.2, List.append_nil]; exact parseLoop_source_alone src bs X s hs hX
    · rw [List.append_assoc]; exact parseLoop_source src org bs bo X s hs ho hX

/-! ### the slots of the extra keyword blocks -/

theorem distinct_iff_nodup (l : List Str) : distinct l = true ↔ l.Nodup := by
  induction l with
  | nil => simp [distinct]
  | cons a r ih =>
    simp only [distinct, Bool.and_eq_true, Bool.not_eq_true', List.nodup_cons, ih]
    constructor
    · rintro ⟨h1, h2⟩; exact ⟨by intro hm; simp [hm] at h1, h2⟩
    · rintro ⟨h1, h2⟩; exact ⟨by simpa using h1, h2⟩

/-- a slice of a list with distinct keys: its keys are distinct and none occurs before the slice -/
theorem slice_keys (l : List (Str × Str)) (m c : Nat) (hd : distinct (l.map (·.1)) = true) :
    distinct (((l.drop m).take c).map (·.1)) = true ∧ ∀ e ∈ (l.drop m).take c, e.1 ∉ (l.take m).map (·.1) := by
  rw [distinct_iff_nodup] at hd ⊢
  have hsplit : l.map (·.1) = (l.take m).map (·.1) ++ (l.drop m).map (·.1) := by
    rw [← List.map_append, List.take_append_drop]
  rw [hsplit, List.nodup_append] at hd
  obtain ⟨_, h2, h3⟩ := hd
  constructor
  · exact h2.sublist ((List.take_sublist c _).map _)
  · intro e he hmem
    exact h3 _ hmem _ (List.mem_map.mpr ⟨e, List.mem_of_mem_take he, rfl⟩) rfl

theorem off_succ (cs : List Nat) (k : Nat) : off cs (k + 1) = off cs k + cs.getD k 0 := rfl

theorem MetaHead_extraSlot (r : GbRec) (ℓ : RecLayout) (k : Nat) (X : List Str)
    (he : ∀ e ∈ r.extras, isExtraKey e.1 = true) (hX : MetaHead X) : MetaHead (extraSlot r ℓ k ++ X) :=
  MetaHead_extras _ _ X (fun e hm => he e (List.mem_of_mem_drop (List.mem_of_mem_take hm))) hX

theorem MetaHead_extraRest (r : GbRec) (ℓ : RecLayout) (X : List Str)
    (he : ∀ e ∈ r.extras, isExtraKey e.1 = true) (hX : MetaHead X) : MetaHead (extraRest r ℓ ++ X) :=
  MetaHead_extras _ _ X (fun e hm => he e (List.mem_of_mem_drop (List.mem_of_mem_take hm))) hX

/-- a line at which the feature table ends: a keyword line that is no feature-table line -/
def FeatEnd (X : List Str) : Prop := ∃ m rest, X = m :: rest ∧ quickMetaCheck m = .ok true ∧ FStop m

theorem dropWhile_snoc_ne (p : Char → Bool) (A : Str) (x : Char) (hx : p x = false) : (A ++ [x]).dropWhile p ≠ [] := by
  induction A with
  | nil => simp [List.dropWhile, hx]
  | cons a as ih =>
    by_cases ha : p a = true
    · simpa [List.dropWhile, ha] using ih
    · simp [List.dropWhile, ha]

theorem trimSpace_cons_ne (x : Char) (r : Str) (hx : isSpace x = false) : trimSpace (x :: r) ≠ [] := by
  simp only [trimSpace, trimLeftSpace, dropWhile_of_head hx, trimRightSpace]
  intro h
  have := congrArg List.reverse h
  simp only [List.reverse_reverse, List.reverse_nil, List.reverse_cons] at this
  exact dropWhile_snoc_ne isSpace r.reverse x hx this

theorem kwLine_FStop (kw c0 : Str) (h : KwOK kw) : FStop (padRight kw 12 ++ c0) := by
  obtain ⟨x, xs, rfl⟩ : ∃ x xs, kw = x :: xs := by
    cases kw with | nil => exact absurd rfl h.1 | cons x xs => exact ⟨x, xs, rfl⟩
  have hx := h.2.2.2 x rfl
  have h1 : x ≠ ' ' := by rintro rfl; revert hx; decide
  have hsx : isSpace x = false := (isVisible_facts (h.2.2.1 x (by simp))).2.1
  have hhead : ∃ r, padRight (x :: xs) 12 ++ c0 = x :: r := ⟨_, rfl⟩
  obtain ⟨r0, hr0⟩ := hhead
  rw [hr0]
  refine ⟨?_, ?_, ?_⟩
  · simp [quickQualifierCheck, Str.at, h1]
  · simp [quickQualifierSubLineCheck, Str.at, h1]
  · intro ⟨_, h2, _⟩
    have : (x :: r0).take qualifierIndex = x :: r0.take 20 := rfl
    rw [this] at h2
    exact trimSpace_cons_ne x _ hsx h2

theorem FeatEnd_extras (es : List (Str × Str)) (ls : List (List Nat)) (X : List Str)
    (he : ∀ e ∈ es, isExtraKey e.1 = true) (hX : FeatEnd X) : FeatEnd (extrasLines es ls ++ X) := by
  cases es with
  | nil => exact hX
  | cons e r =>
    obtain ⟨k, t⟩ := e
    have hk := (extraKey_facts (he (k, t) (by simp))).1
    rw [extrasLines_cons, List.append_assoc, block_eq]
    exact ⟨_, _, rfl, (kwLine_kw k _ hk).2, kwLine_FStop k _ hk⟩

theorem FeatEnd.metaHead {X : List Str} (h : FeatEnd X) : MetaHead X := by
  obtain ⟨m, rest, rfl, hm, _⟩ := h; exact ⟨m, rest, rfl, hm⟩

/-- slot `k`: the blocks written there are added to `Other`, which then holds the first
`off (k+1)` extra blocks of the record -/
theorem parseLoop_extraSlot (r : GbRec) (ℓ : RecLayout) (k : Nat) (X : List Str) (s : Sequence)
    (he : ∀ e ∈ r.extras, isExtraKey e.1 = true ∧ isText e.2 = true) (hd : distinct (r.extras.map (·.1)) = true)
    (hs : s.md.other = r.extras.take (off ℓ.extraCuts k)) (hX : MetaHead X) :
    parseLoop (extraSlot r ℓ k ++ X) s
      = parseLoop X { s with md := { s.md with other := r.extras.take (off ℓ.extraCuts (k + 1)) } } := by
  obtain ⟨h1, h2⟩ := slice_keys r.extras (off ℓ.extraCuts k) (ℓ.extraCuts.getD k 0) hd
  unfold extraSlot
  rw [parseLoop_extras _ _ X s (fun e hm => he e (List.mem_of_mem_drop (List.mem_of_mem_take hm))) h1
    (by rw [hs]; exact h2) hX, hs, off_succ, List.take_add]

/-- a slice of the extra blocks: `Other` held the first `m`, then holds the first `m + c` -/
theorem parseLoop_extrasSlice (r : GbRec) (m c : Nat) (bl : List (List Nat)) (X : List Str) (s : Sequence)
    (he : ∀ e ∈ r.extras, isExtraKey e.1 = true ∧ isText e.2 = true) (hd : distinct (r.extras.map (·.1)) = true)
    (hs : s.md.other = r.extras.take m) (hX : MetaHead X) :
    parseLoop (extrasLines ((r.extras.drop m).take c) bl ++ X) s
      = parseLoop X { s with md := { s.md with other := r.extras.take (m + c) } } := by
  obtain ⟨h1, h2⟩ := slice_keys r.extras m c hd
  rw [parseLoop_extras _ _ X s (fun e hm => he e (List.mem_of_mem_drop (List.mem_of_mem_take hm))) h1
    (by rw [hs]; exact h2) hX, hs, List.take_add]

/-- all the extra blocks that are left: `Other` held the first `m`, then holds them all -/
theorem parseLoop_extrasTail (r : GbRec) (m : Nat) (bl : List (List Nat)) (X : List Str) (s : Sequence)
    (he : ∀ e ∈ r.extras, isExtraKey e.1 = true ∧ isText e.2 = true) (hd : distinct (r.extras.map (·.1)) = true)
    (hs : s.md.other = r.extras.take m) (hX : MetaHead X) :
    parseLoop (extrasLines (r.extras.drop m) bl ++ X) s = parseLoop X { s with md := { s.md with other := r.extras } } := by
  have := slice_keys r.extras m (r.extras.length) hd
  have hfull : (r.extras.drop m).take r.extras.length = r.extras.drop m := List.take_of_length_le (by simp)
  rw [hfull] at this
  obtain ⟨h1, h2⟩ := this
  rw [parseLoop_extras _ _ X s (fun e hm => he e (List.mem_of_mem_drop hm)) h1 (by rw [hs]; exact h2) hX, hs,
    List.take_append_drop]

/-! ### the whole record -/

theorem wf_loose {r : GbRec} (h : wf r = true) :
    wfLoose r = true ∧ ∀ f ∈ r.features, distinct (f.quals.map (·.1)) = true := by
  simp only [wf, wfLoose, Bool.and_eq_true, List.all_eq_true] at h ⊢
  obtain ⟨⟨⟨h1, hf⟩, h2⟩, h3⟩ := h
  exact ⟨⟨⟨⟨h1, fun f hm => (wfFeature_loose (hf f hm)).1⟩, h2⟩, h3⟩, fun f hm => (wfFeature_loose (hf f hm)).2⟩

theorem toSequenceM_eq {r : GbRec} (h : ∀ f ∈ r.features, distinct (f.quals.map (·.1)) = true) :
    toSequenceM r = toSequence r := by
  simp only [toSequenceM, toSequence]
  congr 1
  apply List.map_congr_left
  intro f hf; exact toFeatureM_eq (h f hf)

/-- the main loop over the lines of a laid-out record (followed by empty lines), for every record of the
quantifier, repeated qualifier keys included -/
theorem parseLoop_layout_loose (r : GbRec) (ℓ : RecLayout) (tail : List Str) (h : wfLoose r = true)
    (ht : ∀ l ∈ tail, l = []) :
    parseLoop (layout r ℓ ++ tail) {} = .ok (toSequenceM r) := by
  simp only [wfLoose, Bool.and_eq_true, decide_eq_true_eq, List.all_eq_true] at h
  obtain ⟨⟨⟨⟨⟨⟨⟨⟨⟨⟨⟨⟨hlocus, hdef⟩, hacc⟩, hver⟩, hkey⟩, hsrc⟩, horg⟩, hrefs⟩, hex⟩, hexd⟩, hfeat⟩, hseq⟩, hlen⟩ := h
  have hex' : ∀ e ∈ r.extras, isExtraKey e.1 = true ∧ isText e.2 = true := fun e he => hex e he
  have hexk : ∀ e ∈ r.extras, isExtraKey e.1 = true := fun e he => (hex e he).1
  obtain ⟨k1, k2, k3, k4, _⟩ := KwOK_std
  obtain ⟨o1, o2, o3⟩ := originHead_facts ℓ
  have hfh : trimSpace (headOf (split featuresHeader c!" ")) = c!"FEATURES" := by decide
  -- the sections, from the end
  have hO : FeatEnd (originHead ℓ :: (originLines r.seq ℓ.blockLen ℓ.perLine ++ c!"//" :: tail)) :=
    ⟨_, _, rfl, o2, o3⟩
  have hAF : FeatEnd (extraAfterFeat r ℓ ++ originHead ℓ :: (originLines r.seq ℓ.blockLen ℓ.perLine ++ c!"//" :: tail)) :=
    FeatEnd_extras _ _ _ (fun e hm => hexk e (List.mem_of_mem_drop hm)) hO
  have hF : MetaHead (featuresHeader ::
      (featsLines r.features ℓ.feats ++ (extraAfterFeat r ℓ ++ originHead ℓ ::
        (originLines r.seq ℓ.blockLen ℓ.perLine ++ c!"//" :: tail)))) :=
    ⟨_, _, rfl, by decide⟩
  have hE6 := MetaHead_extraRest r ℓ _ hexk hF
  have hR := MetaHead_refs 0 r.refs ℓ.refs _ hE6
  have hE5 := MetaHead_extraSlot r ℓ 5 _ hexk hR
  have hS := MetaHead_sourceBlock ℓ.omitSource ℓ.omitOrganism r.source r.organism ℓ.source ℓ.organism _ hE5
  have hE4 := MetaHead_extraSlot r ℓ 4 _ hexk hS
  have hK := MetaHead_mblock ℓ.omitKeywords c!"KEYWORDS" r.keywords ℓ.keywords _ k4 hE4
  have hE3 := MetaHead_extraSlot r ℓ 3 _ hexk hK
  have hV := MetaHead_mblock ℓ.omitVersion c!"VERSION" r.version ℓ.version _ k3 hE3
  have hE2 := MetaHead_extraSlot r ℓ 2 _ hexk hV
  have hA := MetaHead_mblock ℓ.omitAccession c!"ACCESSION" r.accession ℓ.accession _ k2 hE2
  have hE1 := MetaHead_extraSlot r ℓ 1 _ hexk hA
  have hD := MetaHead_mblock ℓ.omitDefinition c!"DEFINITION" r.definition ℓ.definition _ k1 hE1
  unfold layout
  simp only [List.append_assoc, List.cons_append, List.nil_append, List.singleton_append]
  rw [show (if ℓ.originTrail = true then c!"ORIGIN      " else c!"ORIGIN") = originHead ℓ from rfl]
  -- LOCUS
  simp only [parseLoop]
  rw [parseStep_locus _ _ _ (locusLine_kw r.locus ℓ), parseLocus_locusLine r.locus ℓ hlocus]
  simp only [Outcome.bind_ok']
  -- slot 0, DEFINITION, slot 1, ACCESSION, slot 2, VERSION, slot 3, KEYWORDS
  rw [parseLoop_extraSlot r ℓ 0 _ _ hex' hexd rfl hD]
  rw [parseLoop_mblock _ c!"DEFINITION" (fun s v => { s with md := { s.md with definition := v } }) k1
    (fun line sub s hq => parseStep_definition line sub s hq) _ _ _ _ hdef hE1 rfl]
  rw [parseLoop_extraSlot r ℓ 1 _ _ hex' hexd rfl hA]
  rw [parseLoop_mblock _ c!"ACCESSION" (fun s v => { s with md := { s.md with accession := v } }) k2
    (fun line sub s hq => parseStep_accession line sub s hq) _ _ _ _ hacc hE2 rfl]
  rw [parseLoop_extraSlot r ℓ 2 _ _ hex' hexd rfl hV]
  rw [parseLoop_mblock _ c!"VERSION" (fun s v => { s with md := { s.md with version := v } }) k3
    (fun line sub s hq => parseStep_version line sub s hq) _ _ _ _ hver hE3 rfl]
  rw [parseLoop_extraSlot r ℓ 3 _ _ hex' hexd rfl hK]
  rw [parseLoop_mblock _ c!"KEYWORDS" (fun s v => { s with md := { s.md with keywords := v } }) k4
    (fun line sub s hq => parseStep_keywords line sub s hq) _ _ _ _ hkey hE4 rfl]
  -- slot 4, SOURCE / ORGANISM, slot 5, REFERENCE, the remaining extra blocks
  rw [parseLoop_extraSlot r ℓ 4 _ _ hex' hexd rfl hS]
  rw [parseLoop_sourceBlock _ _ _ _ _ _ _ _ hsrc horg hE5 rfl]
  rw [parseLoop_extraSlot r ℓ 5 _ _ hex' hexd rfl hR]
  rw [parseLoop_refs r.refs 0 ℓ.refs _ _ hrefs hE6]
  rw [show extraRest r ℓ = extrasLines ((r.extras.drop (off ℓ.extraCuts 6)).take (afterRefsCount r ℓ))
      (ℓ.extras.drop (off ℓ.extraCuts 6)) from rfl, parseLoop_extrasSlice r _ _ _ _ _ hex' hexd rfl hF]
  -- FEATURES
  simp only [parseLoop]
  obtain ⟨stopF, restF, hstopF, hmF, hsF⟩ := hAF
  rw [hstopF, parseStep_features _ _ _ hfh, getFeatures_table_loose r.features ℓ.feats _ _ hfeat hmF hsF]
  simp only [Outcome.bind_ok']
  rw [parseLoop_blank _ _ _ (blank_featsLines r.features ℓ.feats), ← hstopF]
  -- the extra blocks after the feature table
  rw [show extraAfterFeat r ℓ = extrasLines (r.extras.drop (off ℓ.extraCuts 6 + afterRefsCount r ℓ))
      (ℓ.extras.drop (off ℓ.extraCuts 6 + afterRefsCount r ℓ)) from rfl,
    parseLoop_extrasTail r _ _ _ _ hex' hexd rfl hO.metaHead]
  -- ORIGIN
  simp only [parseLoop]
  have hseq' : r.seq.all isLetter = true := by rw [List.all_eq_true]; exact hseq
  rw [parseStep_origin _ _ _ o1, getSequence_end r.seq _ _ tail hseq' ht]
  simp only [Outcome.bind_ok']
  rw [parseLoop_end r.seq _ _ tail _ hlen ht]
  simp [toSequenceM, toSequence]

/-- with pairwise distinct qualifier keys: exactly what the record states -/
theorem parseLoop_layout (r : GbRec) (ℓ : RecLayout) (tail : List Str) (h : wf r = true) (ht : ∀ l ∈ tail, l = []) :
    parseLoop (layout r ℓ ++ tail) {} = .ok (toSequence r) := by
  obtain ⟨hl, hd⟩ := wf_loose h
  rw [parseLoop_layout_loose r ℓ tail hl ht, toSequenceM_eq hd]

end PolyVerif.Lemmas.Genbank
