import PolyVerif.Lemmas.NcbiRowDefs
namespace PolyVerif.CodonTranslate
/-- decided on the regenerated tables: NCBI's residue = the compiled Translate's answer = the model's lookup, 64 codons per table -/
theorem rows_ok_c : ∀ id ∈ [13, 14, 16, 21, 22], rowOk id = true := by decide +kernel
end PolyVerif.CodonTranslate
