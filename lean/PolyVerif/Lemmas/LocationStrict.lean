import PolyVerif.Lemmas.LocationRep
/-
Helper lemmas for C02, part 6: the known-finding class is EXACT.  Whenever a location has a
3′-partial span, the strict recogniser rejects the text BuildLocationString writes: at the first
such span the strict `readLeaf` stops in front of the misplaced `>`, and no enclosing production
(`)` after a complement's operand, `,`/`)` inside a join, end of text at the top) accepts a `>`.
-/
namespace PolyVerif.Lemmas.Location
open PolyVerif PolyVerif.Location PolyVerif.Insdc

/-- the strict reader gave up, or stopped in front of a `>` -/
def Stuck {α : Type} (o : Option (α × Str)) : Prop := o = none ∨ ∃ a r, o = some (a, '>' :: r)

theorem readTail_gt (f : Nat) (r : Str) :
    readTail false f ('>' :: r) = none ∨ readTail false f ('>' :: r) = some ([], '>' :: r) := by
  cases f with
  | zero => left; rfl
  | succ f => right; unfold readTail; rfl

/-- strict reading of a 3′-partial span in the writer's style stops in front of the `>` -/
theorem readLeaf_gt (a b : Nat) (lt : Bool) (rest : Str) (h1 : 1 ≤ a) (h2 : a ≤ b) :
    readLeaf false (tprint true (.span a b lt true) ++ rest) = some (.span a b lt false, '>' :: rest) := by
  obtain ⟨cb, tb, hsb, hcb⟩ := itoa_cons b
  have nb := isDig_ne hcb
  have e : tprint true (.span a b lt true) ++ rest =
      (if lt then ['<'] else []) ++ (itoa a ++ '.' :: '.' :: (cb :: (tb ++ '>' :: rest))) := by
    simp [tprint, hsb]
  rw [e, readLeaf_front false a lt _ h1]
  have nd : NoDigHead ('>' :: rest) := by intro c t e; cases e; decide
  have r2 := readNat_itoa b _ (by omega) nd
  rw [hsb] at r2
  simp only [List.cons_append] at r2
  have hh : ((cb :: (tb ++ '>' :: rest)).head? == some '>') = false := by simp [nb.2.2.2.1]
  simp only [hh, Bool.false_eq_true, if_false, r2]
  simp [h1, h2]

/-- a sibling without 3′ marker is read by the strict recogniser also in the writer's style -/
theorem readLoc_noGt (l : Loc) (n f : Nat) (rest : Str) (hg : hasGt l = false) (hr : inRange l n = true)
    (ha : arity l = true) (hf : (tprint true l).length + rest.length < f) (hs : Stop rest) :
    readLoc false f (tprint true l ++ rest) = some (l, rest) := by
  rw [tprint_noGt l hg] at hf ⊢
  exact readLoc_tprint false false (by intro h; cases h) l n f rest hr ha hf hs

mutual
theorem readLoc_stuck : ∀ (l : Loc) (n f : Nat) (rest : Str), hasGt l = true → inRange l n = true →
    arity l = true → (tprint true l).length + rest.length < f → Stuck (readLoc false f (tprint true l ++ rest))
  | .span a b lt gt, n, f, rest, hg, hr, _, hf => by
    simp only [hasGt] at hg
    subst hg
    cases f with
    | zero => omega
    | succ f =>
      simp only [inRange, Bool.and_eq_true, decide_eq_true_eq] at hr
      obtain ⟨c, t, e, hc, hj⟩ := span_head true a b lt true rest
      rw [e, readLoc_leaf false f c t hc hj, ← e, readLeaf_gt a b lt rest hr.1.1 hr.1.2]
      exact Or.inr ⟨_, _, rfl⟩
  | .base _, _, _, _, hg, _, _, _ => by simp [hasGt] at hg
  | .join [], _, _, _, _, _, ha, _ => by simp [arity] at ha
  | .join [_], _, _, _, _, _, ha, _ => by simp [arity] at ha
  | .join (x :: y :: ys), n, f, rest, hg, hr, ha, hf => by
    cases f with
    | zero => omega
    | succ f =>
      simp only [inRange, inRangeList, Bool.and_eq_true] at hr
      simp only [arity, arityList, Bool.and_eq_true] at ha
      have hlen : (tprint true (.join (x :: y :: ys))).length =
          5 + ((tprint true x).length + ((tprintTail true (y :: ys)).length + 1)) := by
        simp only [tprint, txtJoin, List.length_append, List.length_cons, List.length_nil]
      have e : tprint true (.join (x :: y :: ys)) ++ rest =
          txtJoin ++ (tprint true x ++ (tprintTail true (y :: ys) ++ ')' :: rest)) := by
        simp [tprint]
      rw [e]
      unfold readLoc
      simp only [stripCompl_join, stripPrefix_append]
      cases hx : hasGt x
      · -- the first operand is read; the marker is further right
        have hg' : hasGtList (y :: ys) = true := by
          simp only [hasGt, hasGtList, hx, Bool.false_or] at hg
          simpa [hasGtList] using hg
        have ihx := readLoc_noGt x n f (tprintTail true (y :: ys) ++ ')' :: rest) hx hr.1 ha.2.1
          (by simp only [List.length_append, List.length_cons]; omega) (stop_tail true _ _)
        have iht := readTail_stuck (y :: ys) n f rest hg' (by simp [inRangeList, hr.2.1, hr.2.2])
          (by simp [arityList, ha.2.2.1, ha.2.2.2]) (by omega)
        simp only [ihx]
        rcases iht with h | ⟨zs, r, h⟩
        · rw [h]; exact Or.inl rfl
        · rw [h]
          cases zs with
          | nil => exact Or.inl rfl
          | cons z zs => exact Or.inl rfl
      · have ihx := readLoc_stuck x n f (tprintTail true (y :: ys) ++ ')' :: rest) hx hr.1 ha.2.1
          (by simp only [List.length_append, List.length_cons]; omega)
        rcases ihx with h | ⟨x', r, h⟩
        · rw [h]; exact Or.inl rfl
        · rw [h]
          simp only
          rcases readTail_gt f r with h2 | h2
          · rw [h2]; exact Or.inl rfl
          · rw [h2]; exact Or.inl rfl
  | .compl x, n, f, rest, hg, hr, ha, hf => by
    cases f with
    | zero => omega
    | succ f =>
      simp only [hasGt] at hg
      simp only [inRange] at hr
      simp only [arity] at ha
      have hlen : (tprint true (.compl x)).length = 11 + ((tprint true x).length + 1) := by
        simp only [tprint, txtCompl, List.length_append, List.length_cons, List.length_nil]
      have ihx := readLoc_stuck x n f (')' :: rest) hg hr ha (by simp only [List.length_cons]; omega)
      have e : tprint true (.compl x) ++ rest = txtCompl ++ (tprint true x ++ ')' :: rest) := by
        simp [tprint]
      rw [e]
      unfold readLoc
      simp only [stripPrefix_append]
      rcases ihx with h | ⟨x', r, h⟩
      · rw [h]; exact Or.inl rfl
      · rw [h]; exact Or.inl rfl
theorem readTail_stuck : ∀ (xs : List Loc) (n f : Nat) (rest : Str), hasGtList xs = true →
    inRangeList xs n = true → arityList xs = true → (tprintTail true xs).length + rest.length + 1 < f →
    Stuck (readTail false f (tprintTail true xs ++ ')' :: rest))
  | [], _, _, _, hg, _, _, _ => by simp [hasGtList] at hg
  | x :: xs, n, f, rest, hg, hr, ha, hf => by
    cases f with
    | zero => omega
    | succ f =>
      simp only [inRangeList, Bool.and_eq_true] at hr
      simp only [arityList, Bool.and_eq_true] at ha
      rw [length_tprintTail_cons] at hf
      have e : tprintTail true (x :: xs) ++ ')' :: rest =
          ',' :: (tprint true x ++ (tprintTail true xs ++ ')' :: rest)) := by
        simp [tprintTail]
      rw [e]
      unfold readTail
      simp only
      cases hx : hasGt x
      · have hg' : hasGtList xs = true := by
          simpa [hasGtList, hx] using hg
        have ihx := readLoc_noGt x n f (tprintTail true xs ++ ')' :: rest) hx hr.1 ha.1
          (by simp only [List.length_append, List.length_cons]; omega) (stop_tail true _ _)
        have iht := readTail_stuck xs n f rest hg' hr.2 ha.2 (by omega)
        simp only [ihx]
        rcases iht with h | ⟨zs, r, h⟩
        · rw [h]; exact Or.inl rfl
        · rw [h]; exact Or.inr ⟨_, _, rfl⟩
      · have ihx := readLoc_stuck x n f (tprintTail true xs ++ ')' :: rest) hx hr.1 ha.1
          (by simp only [List.length_append, List.length_cons]; omega)
        rcases ihx with h | ⟨x', r, h⟩
        · rw [h]; exact Or.inl rfl
        · rw [h]
          simp only
          rcases readTail_gt f r with h2 | h2
          · rw [h2]; exact Or.inl rfl
          · rw [h2]; exact Or.inr ⟨_, _, rfl⟩
end

/-- the strict recogniser rejects the writer's text of every location with a 3′-partial span -/
theorem insdcParse_tprint_gt (l : Loc) (n : Nat) (hg : hasGt l = true) (hr : inRange l n = true)
    (ha : arity l = true) : insdcParse (tprint true l) = none := by
  have h := readLoc_stuck l n ((tprint true l).length + 1) [] hg hr ha (by simp)
  rw [List.append_nil] at h
  unfold insdcParse parseWith
  rcases h with h | ⟨a, r, h⟩
  · rw [h]
  · rw [h]

theorem insdcParse_buildLoc_gt {p : PLoc} {l : Loc} (hp : Rep p l) (n : Nat) (hr : inRange l n = true)
    (ha : arity l = true) (hg : hasGt l = true) : insdcParse (buildLoc p) = none := by
  rw [buildLoc_rep hp ha]
  exact insdcParse_tprint_gt (norm l) n (by rw [hasGt_norm]; exact hg) (inRange_norm l n hr) (arity_norm l ha)

end PolyVerif.Lemmas.Location
