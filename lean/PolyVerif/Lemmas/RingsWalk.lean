import PolyVerif.Lemmas.Ligate
/-
The ring enumerator of the judge (Spec/Rings.lean `walks` / `ringsWalk`) is correct with respect to the spec's own
definition of a ring:
* `ringsWalk_sound`    : everything it returns is a `Ring` of the pool;
* `ringsWalk_complete` : it returns EVERY ring of the pool (as a list, at every starting fragment and on both strands);
                          with `simpleOnly` every ring whose junction overhangs are pairwise distinct — in particular
                          every `Simple` ring.
So for a designed pool the set the judge compares the real result with, `(ringsWalk true pool).filter Simple`, is exactly the
set of simple rings (`mem_simpleRingsWalk_iff`).  (What remains unproved about the judge is downstream of the rings: the
canonical-form key `keyFast` — compared with the proved `key` on every returned construct of ≤ 200 letters — and the
sorting / deduplication of key lists.)
-/
namespace PolyVerif.Ligate
open PolyVerif PolyVerif.Transform PolyVerif.Spec PolyVerif.Spec.Rings

/-- one extension step of a walk, for any continuation `W` -/
theorem mem_walk_step {vals : List Fragment} {path : List Oriented} {last : Fragment}
    {W : List Oriented → Fragment → List (List Oriented)} {x : List Oriented} :
    (x ∈ vals.flatMap fun n =>
        if path.any (fun o => o.frag == n) then [] else
          [false, true].flatMap fun b =>
            let o : Oriented := ⟨n, b⟩
            if last.rev == o.get.fwd then W (o :: path) o.get else []) ↔
      ∃ o : Oriented, o.frag ∈ vals ∧ (∀ p ∈ path, p.frag ≠ o.frag) ∧ last.rev = o.get.fwd ∧ x ∈ W (o :: path) o.get := by
  simp only [List.mem_flatMap]
  constructor
  · rintro ⟨n, hn, h⟩
    by_cases hu : (path.any fun o => o.frag == n) = true
    · rw [if_pos hu] at h; cases h
    · rw [if_neg hu, List.mem_flatMap] at h
      obtain ⟨b, _, h⟩ := h
      by_cases hl : (last.rev == (Oriented.mk n b).get.fwd) = true
      · simp only [hl, if_true] at h
        refine ⟨⟨n, b⟩, hn, ?_, by simpa using hl, h⟩
        intro p hp e
        exact hu (List.any_eq_true.2 ⟨p, hp, by simpa using e⟩)
      · simp only [hl] at h; cases h
  · rintro ⟨⟨n, b⟩, hn, hu, hl, h⟩
    refine ⟨n, hn, ?_⟩
    have hu' : ¬ (path.any fun o => o.frag == n) = true := by
      intro ha
      obtain ⟨p, hp, e⟩ := List.any_eq_true.1 ha
      exact hu p hp (by simpa using e)
    rw [if_neg hu', List.mem_flatMap]
    refine ⟨b, by cases b <;> simp, ?_⟩
    have hl' : (last.rev == (Oriented.mk n b).get.fwd) = true := by simpa using hl
    simp only [hl', if_true]
    exact h

/-- invariant of a walk: the path (kept reversed) is `o₀ :: mid`, linked, over distinct values, ending in `last` -/
structure WalkInv (vals : List Fragment) (o₀ : Oriented) (mid : List Oriented) (last : Fragment) : Prop where
  mem : ∀ o ∈ o₀ :: mid, o.frag ∈ vals
  nodup : ((o₀ :: mid).map (·.frag)).Nodup
  linked : linked ((o₀ :: mid).map (·.get)) = true
  last_rev : last.rev = lastRev o₀.get (mid.map (·.get))

theorem WalkInv.start {vals : List Fragment} {o : Oriented} (h : o.frag ∈ vals) : WalkInv vals o [] o.get where
  mem := by simpa using h
  nodup := by simp
  linked := rfl
  last_rev := rfl

theorem WalkInv.extend {vals : List Fragment} {o₀ : Oriented} {mid : List Oriented} {last : Fragment}
    (h : WalkInv vals o₀ mid last) {o : Oriented} (hv : o.frag ∈ vals) (hu : ∀ p ∈ o₀ :: mid, p.frag ≠ o.frag)
    (hl : last.rev = o.get.fwd) : WalkInv vals o₀ (mid ++ [o]) o.get where
  mem := by
    intro x hx
    rw [← List.cons_append, List.mem_append, List.mem_singleton] at hx
    rcases hx with hx | rfl
    · exact h.mem x hx
    · exact hv
  nodup := by
    rw [← List.cons_append, List.map_append, List.nodup_append]
    refine ⟨h.nodup, by simp, ?_⟩
    intro a ha b hb
    simp only [List.map_cons, List.map_nil, List.mem_singleton] at hb
    subst hb
    obtain ⟨p, hp, rfl⟩ := List.mem_map.1 ha
    exact hu p hp
  linked := by
    have := linked_snoc o₀.get (mid.map (·.get)) o.get
    simp only [List.map_cons, List.map_append, List.map_nil] at this ⊢
    rw [List.cons_append] at this
    rw [this, ← h.last_rev, hl]
    have hk := h.linked
    simp only [List.map_cons] at hk
    simp [hk]
  last_rev := by
    simp only [List.map_append, List.map_cons, List.map_nil]
    rw [lastRev_snoc]

theorem reverse_cons_path (o₀ : Oriented) (mid : List Oriented) (o : Oriented) :
    o :: (o₀ :: mid).reverse = (o₀ :: (mid ++ [o])).reverse := by simp

/-- soundness of the walk -/
theorem walks_sound {pool vals : List Fragment} (hv : ∀ f ∈ vals, f ∈ pool) (b : Bool) (o₀ : Oriented) :
    ∀ (fuel : Nat) (mid : List Oriented) (last : Fragment), WalkInv vals o₀ mid last →
      ∀ os ∈ walks b vals o₀.get fuel (o₀ :: mid).reverse last, Ring pool os
  | 0, _, _, _, os, h => by simp [walks] at h
  | fuel + 1, mid, last, inv, os, h => by
    rw [walks, List.mem_append] at h
    rcases h with h | h
    · by_cases hc : (last.rev == o₀.get.fwd) = true
      · rw [if_pos hc, List.mem_singleton, List.reverse_reverse] at h
        subst h
        exact { nonempty := by simp
                mem := fun o ho => hv _ (inv.mem o ho)
                distinct := inv.nodup
                linked := inv.linked
                closes := by
                  simp only [List.map_cons]
                  rw [closes_cons, ← inv.last_rev]; exact hc }
      · rw [if_neg hc] at h; cases h
    · split at h
      · cases h
      · obtain ⟨o, hov, hou, hol, hx⟩ := mem_walk_step.1 h
        rw [reverse_cons_path] at hx
        exact walks_sound hv b o₀ fuel (mid ++ [o]) o.get
          (inv.extend hov (fun p hp => hou p (List.mem_reverse.2 hp)) hol) os hx

/-- completeness of the walk along one ring -/
theorem walks_complete {vals : List Fragment} (b : Bool) (o₀ : Oriented) :
    ∀ (suf : List Oriented) (fuel : Nat) (mid : List Oriented) (last : Fragment), WalkInv vals o₀ mid last →
      (∀ o ∈ suf, o.frag ∈ vals) → ((o₀ :: mid ++ suf).map (·.frag)).Nodup →
      linked ((o₀ :: mid ++ suf).map (·.get)) = true → closes ((o₀ :: mid ++ suf).map (·.get)) = true →
      (b = true → ((o₀ :: mid ++ suf).map (·.junction)).Nodup) → suf.length < fuel →
      (o₀ :: mid ++ suf) ∈ walks b vals o₀.get fuel (o₀ :: mid).reverse last
  | [], fuel, mid, last, inv, _, _, _, hcl, _, hf => by
    obtain ⟨fuel, rfl⟩ : ∃ k, fuel = k + 1 := ⟨fuel - 1, by simp at hf; omega⟩
    rw [walks, List.mem_append]
    left
    have hc : (last.rev == o₀.get.fwd) = true := by
      simp only [List.append_nil, List.map_cons] at hcl
      rw [closes_cons] at hcl
      rw [inv.last_rev]; exact hcl
    rw [if_pos hc]; simp
  | o :: suf, fuel, mid, last, inv, hm, hnd, hl, hcl, hj, hf => by
    obtain ⟨fuel, rfl⟩ : ∃ k, fuel = k + 1 := ⟨fuel - 1, by simp at hf; omega⟩
    have hlk : last.rev = o.get.fwd := by
      have := linked_append_cons o₀.get (mid.map (·.get)) o.get (suf.map (·.get))
      simp only [List.map_cons, List.map_append] at hl this
      rw [this] at hl
      simp only [Bool.and_eq_true, beq_iff_eq] at hl
      rw [inv.last_rev]; exact hl.1.2
    have hu : ∀ p ∈ o₀ :: mid, p.frag ≠ o.frag := by
      intro p hp e
      have : (o₀ :: mid ++ o :: suf).map (·.frag) = (o₀ :: mid).map (·.frag) ++ o.frag :: suf.map (·.frag) := by simp
      rw [this, List.nodup_append] at hnd
      exact hnd.2.2 _ (List.mem_map.2 ⟨p, hp, rfl⟩) _ (List.mem_cons_self ..) e
    rw [walks, List.mem_append]
    right
    have hprune : ¬ ((b && (o₀ :: mid).reverse.any fun p => p.get.fwd == last.rev) = true) := by
      intro hp
      rw [Bool.and_eq_true] at hp
      obtain ⟨p, hpm, hpe⟩ := List.any_eq_true.1 hp.2
      have hpm' : p ∈ o₀ :: mid := List.mem_reverse.1 hpm
      have hjn := hj hp.1
      have : (o₀ :: mid ++ o :: suf).map (·.junction) = (o₀ :: mid).map (·.junction) ++ o.junction :: suf.map (·.junction) := by simp
      rw [this, List.nodup_append] at hjn
      refine hjn.2.2 _ (List.mem_map.2 ⟨p, hpm', rfl⟩) _ (List.mem_cons_self ..) ?_
      show p.get.fwd = o.get.fwd
      rw [← hlk]; simpa using hpe
    rw [if_neg hprune]
    refine mem_walk_step.2 ⟨o, hm o (List.mem_cons_self ..), fun p hp => hu p (List.mem_reverse.1 hp), hlk, ?_⟩
    rw [reverse_cons_path]
    have e : o₀ :: mid ++ o :: suf = o₀ :: (mid ++ [o]) ++ suf := by simp
    rw [e] at hnd hl hcl hj ⊢
    exact walks_complete b o₀ suf fuel (mid ++ [o]) o.get (inv.extend (hm o (List.mem_cons_self ..)) hu hlk)
      (fun x hx => hm x (List.mem_cons_of_mem _ hx)) hnd hl hcl hj (by simp at hf; omega)

theorem mem_ringsWalk {b : Bool} {pool : List Fragment} {os : List Oriented} :
    os ∈ ringsWalk b pool ↔ ∃ o : Oriented, o.frag ∈ pool.eraseDups ∧
      os ∈ walks b pool.eraseDups o.get (pool.eraseDups.length + 1) [o] o.get := by
  simp only [ringsWalk, List.mem_flatMap]
  constructor
  · rintro ⟨n, hn, bb, _, h⟩
    exact ⟨⟨n, bb⟩, hn, h⟩
  · rintro ⟨⟨n, bb⟩, hn, h⟩
    exact ⟨n, hn, bb, by cases bb <;> simp, h⟩

/-- Everything the ring walk returns is a ring of the pool. -/
theorem ringsWalk_sound (b : Bool) (pool : List Fragment) : ∀ os ∈ ringsWalk b pool, Ring pool os := by
  intro os h
  obtain ⟨o, ho, h⟩ := mem_ringsWalk.1 h
  exact walks_sound (fun f hf => List.mem_eraseDups.1 hf) b o _ [] o.get (WalkInv.start ho) os (by simpa using h)

/-- The ring walk returns every ring of the pool; with `simpleOnly` every ring whose junction overhangs are pairwise distinct. -/
theorem ringsWalk_complete (b : Bool) {pool : List Fragment} {os : List Oriented} (hr : Ring pool os)
    (hj : b = true → (os.map (·.junction)).Nodup) : os ∈ ringsWalk b pool := by
  cases os with
  | nil => exact absurd rfl hr.nonempty
  | cons o suf =>
    have hmem : ∀ x ∈ o :: suf, x.frag ∈ pool.eraseDups := fun x hx => List.mem_eraseDups.2 (hr.mem x hx)
    have hlen : (o :: suf).length ≤ pool.eraseDups.length := by
      have := List.Nodup.length_le_of_subset hr.distinct (fun x hx => by
        obtain ⟨y, hy, rfl⟩ := List.mem_map.1 hx
        exact hmem y hy)
      simpa using this
    refine mem_ringsWalk.2 ⟨o, hmem o (List.mem_cons_self ..), ?_⟩
    have := walks_complete b o suf (pool.eraseDups.length + 1) [] o.get (WalkInv.start (hmem o (List.mem_cons_self ..)))
      (fun x hx => hmem x (List.mem_cons_of_mem _ hx)) (by simpa using hr.distinct) (by simpa using hr.linked)
      (by simpa using hr.closes) (by simpa using hj) (by simp at hlen; omega)
    simpa using this

/-- the set the judge compares a designed pool's result with is exactly the set of simple rings -/
theorem mem_simpleRingsWalk_iff (pool : List Fragment) (os : List Oriented) :
    os ∈ (ringsWalk true pool).filter (fun os => decide (Simple os)) ↔ Ring pool os ∧ Simple os := by
  rw [List.mem_filter, decide_eq_true_eq]
  exact ⟨fun ⟨h, hs⟩ => ⟨ringsWalk_sound true pool os h, hs⟩, fun ⟨hr, hs⟩ => ⟨ringsWalk_complete true hr (fun _ => hs.1), hs⟩⟩

/-- … and without pruning it is exactly the set of all rings -/
theorem mem_ringsWalk_iff (pool : List Fragment) (os : List Oriented) : os ∈ ringsWalk false pool ↔ Ring pool os :=
  ⟨ringsWalk_sound false pool os, fun hr => ringsWalk_complete false hr (fun h => by cases h)⟩

/-! ### the one-lap walk (upper bound of the judge on pools that are not designed) -/

theorem mem_oneLap_step {vals : List Fragment} {path : List Oriented} {last : Fragment}
    {W : List Oriented → Fragment → List (List Oriented)} {x : List Oriented} :
    (x ∈ vals.flatMap fun n =>
        if path.any (fun o => o.frag == n) then [] else
          [false, true].flatMap fun b =>
            let o : Oriented := ⟨n, b⟩
            if last.rev == o.get.fwd && (!b || revComp last.rev != last.rev) then W (o :: path) o.get else []) ↔
      ∃ o : Oriented, o.frag ∈ vals ∧ (∀ p ∈ path, p.frag ≠ o.frag) ∧ last.rev = o.get.fwd ∧
        (o.flipped = true → revComp last.rev ≠ last.rev) ∧ x ∈ W (o :: path) o.get := by
  simp only [List.mem_flatMap]
  constructor
  · rintro ⟨n, hn, h⟩
    by_cases hu : (path.any fun o => o.frag == n) = true
    · rw [if_pos hu] at h; cases h
    · rw [if_neg hu, List.mem_flatMap] at h
      obtain ⟨b, _, h⟩ := h
      by_cases hl : (last.rev == (Oriented.mk n b).get.fwd && (!b || revComp last.rev != last.rev)) = true
      · simp only [hl, if_true] at h
        rw [Bool.and_eq_true] at hl
        refine ⟨⟨n, b⟩, hn, ?_, by simpa using hl.1, ?_, h⟩
        · intro p hp e
          exact hu (List.any_eq_true.2 ⟨p, hp, by simpa using e⟩)
        · intro hb
          have hb' : b = true := hb
          have := hl.2
          simpa [hb'] using this
      · simp only [hl] at h; cases h
  · rintro ⟨⟨n, b⟩, hn, hu, hl, hp, h⟩
    refine ⟨n, hn, ?_⟩
    have hu' : ¬ (path.any fun o => o.frag == n) = true := by
      intro ha
      obtain ⟨p, hp, e⟩ := List.any_eq_true.1 ha
      exact hu p hp (by simpa using e)
    rw [if_neg hu', List.mem_flatMap]
    refine ⟨b, by cases b <;> simp, ?_⟩
    have hl' : (last.rev == (Oriented.mk n b).get.fwd && (!b || revComp last.rev != last.rev)) = true := by
      rw [Bool.and_eq_true]
      refine ⟨by simpa using hl, ?_⟩
      cases b
      · simp
      · have := hp rfl
        simpa using this
    simp only [hl', if_true]
    exact h

theorem walksOneLap_sound {pool vals : List Fragment} (hv : ∀ f ∈ vals, f ∈ pool) (o₀ : Oriented) :
    ∀ (fuel : Nat) (mid : List Oriented) (last : Fragment), WalkInv vals o₀ mid last →
      (∀ o ∈ mid, o.junction ≠ o₀.get.fwd) → (∀ o ∈ mid, o.flipped = true → revComp o.junction ≠ o.junction) →
      ∀ os ∈ walksOneLap vals o₀.get fuel (o₀ :: mid).reverse last,
        ∃ suf, os = o₀ :: suf ∧ Ring pool os ∧ OneLap o₀.get suf
  | 0, _, _, _, _, _, os, h => by simp [walksOneLap] at h
  | fuel + 1, mid, last, inv, hj, hp, os, h => by
    rw [walksOneLap] at h
    split at h
    · rename_i hc
      rw [List.mem_singleton, List.reverse_reverse] at h
      subst h
      refine ⟨mid, rfl, ?_, hj, hp⟩
      exact { nonempty := by simp
              mem := fun o ho => hv _ (inv.mem o ho)
              distinct := inv.nodup
              linked := inv.linked
              closes := by
                simp only [List.map_cons]
                rw [closes_cons, ← inv.last_rev]; exact hc }
    · rename_i hnc
      obtain ⟨o, hov, hou, hol, hop, hx⟩ := mem_oneLap_step.1 h
      rw [reverse_cons_path] at hx
      refine walksOneLap_sound hv o₀ fuel (mid ++ [o]) o.get
        (inv.extend hov (fun p hp => hou p (List.mem_reverse.2 hp)) hol) ?_ ?_ os hx
      · intro x hx
        rcases List.mem_append.1 hx with hx | hx
        · exact hj x hx
        · rw [List.mem_singleton] at hx; subst hx
          intro e
          apply hnc
          have : x.get.fwd = o₀.get.fwd := e
          rw [hol, this]; simp
      · intro x hx hfl
        rcases List.mem_append.1 hx with hx | hx
        · exact hp x hx hfl
        · rw [List.mem_singleton] at hx; subst hx
          have := hop hfl
          rw [hol] at this
          exact this

theorem walksOneLap_complete {vals : List Fragment} (o₀ : Oriented) :
    ∀ (suf : List Oriented) (fuel : Nat) (mid : List Oriented) (last : Fragment), WalkInv vals o₀ mid last →
      (∀ o ∈ suf, o.frag ∈ vals) → ((o₀ :: mid ++ suf).map (·.frag)).Nodup →
      linked ((o₀ :: mid ++ suf).map (·.get)) = true → closes ((o₀ :: mid ++ suf).map (·.get)) = true →
      (∀ o ∈ suf, o.junction ≠ o₀.get.fwd) → (∀ o ∈ suf, o.flipped = true → revComp o.junction ≠ o.junction) →
      suf.length < fuel → (o₀ :: mid ++ suf) ∈ walksOneLap vals o₀.get fuel (o₀ :: mid).reverse last
  | [], fuel, mid, last, inv, _, _, _, hcl, _, _, hf => by
    obtain ⟨fuel, rfl⟩ : ∃ k, fuel = k + 1 := ⟨fuel - 1, by simp at hf; omega⟩
    rw [walksOneLap]
    have hc : (last.rev == o₀.get.fwd) = true := by
      simp only [List.append_nil, List.map_cons] at hcl
      rw [closes_cons] at hcl
      rw [inv.last_rev]; exact hcl
    rw [if_pos hc]; simp
  | o :: suf, fuel, mid, last, inv, hm, hnd, hl, hcl, hj, hp, hf => by
    obtain ⟨fuel, rfl⟩ : ∃ k, fuel = k + 1 := ⟨fuel - 1, by simp at hf; omega⟩
    have hlk : last.rev = o.get.fwd := by
      have := linked_append_cons o₀.get (mid.map (·.get)) o.get (suf.map (·.get))
      simp only [List.map_cons, List.map_append] at hl this
      rw [this] at hl
      simp only [Bool.and_eq_true, beq_iff_eq] at hl
      rw [inv.last_rev]; exact hl.1.2
    have hu : ∀ p ∈ o₀ :: mid, p.frag ≠ o.frag := by
      intro p hp e
      have : (o₀ :: mid ++ o :: suf).map (·.frag) = (o₀ :: mid).map (·.frag) ++ o.frag :: suf.map (·.frag) := by simp
      rw [this, List.nodup_append] at hnd
      exact hnd.2.2 _ (List.mem_map.2 ⟨p, hp, rfl⟩) _ (List.mem_cons_self ..) e
    have hnc : ¬ (last.rev == o₀.get.fwd) = true := by
      intro hc
      have : last.rev = o₀.get.fwd := by simpa using hc
      exact hj o (List.mem_cons_self ..) (by show o.get.fwd = _; rw [← hlk, this])
    rw [walksOneLap, if_neg hnc]
    refine mem_oneLap_step.2 ⟨o, hm o (List.mem_cons_self ..), fun p hp => hu p (List.mem_reverse.1 hp), hlk, ?_, ?_⟩
    · intro hfl
      have := hp o (List.mem_cons_self ..) hfl
      rw [hlk]; exact this
    · rw [reverse_cons_path]
      have e : o₀ :: mid ++ o :: suf = o₀ :: (mid ++ [o]) ++ suf := by simp
      rw [e] at hnd hl hcl ⊢
      exact walksOneLap_complete o₀ suf fuel (mid ++ [o]) o.get (inv.extend (hm o (List.mem_cons_self ..)) hu hlk)
        (fun x hx => hm x (List.mem_cons_of_mem _ hx)) hnd hl hcl
        (fun x hx => hj x (List.mem_cons_of_mem _ hx)) (fun x hx => hp x (List.mem_cons_of_mem _ hx)) (by simp at hf; omega)

/-- the one-lap walk returns exactly the rings of class `OneLap` (the class `ligate_exact` shows the code sends) -/
theorem mem_ringsOneLap_iff (pool : List Fragment) (os : List Oriented) :
    os ∈ ringsOneLap pool ↔ ∃ f suf, os = ⟨f, false⟩ :: suf ∧ Ring pool os ∧ OneLap f suf := by
  simp only [ringsOneLap, List.mem_flatMap]
  constructor
  · rintro ⟨n, hn, h⟩
    obtain ⟨suf, rfl, hr, ho⟩ := walksOneLap_sound (fun f hf => List.mem_eraseDups.1 hf) ⟨n, false⟩ _ [] n
      (WalkInv.start (o := ⟨n, false⟩) hn) (by simp) (by simp) os (by simpa [Oriented.get] using h)
    exact ⟨n, suf, rfl, hr, ho⟩
  · rintro ⟨f, suf, rfl, hr, ho⟩
    have hmem : ∀ x ∈ (⟨f, false⟩ :: suf : List Oriented), x.frag ∈ pool.eraseDups := fun x hx => List.mem_eraseDups.2 (hr.mem x hx)
    have hlen : (⟨f, false⟩ :: suf : List Oriented).length ≤ pool.eraseDups.length := by
      have := List.Nodup.length_le_of_subset hr.distinct (fun x hx => by
        obtain ⟨y, hy, rfl⟩ := List.mem_map.1 hx
        exact hmem y hy)
      simpa using this
    refine ⟨f, hmem _ (List.mem_cons_self ..), ?_⟩
    have := walksOneLap_complete (vals := pool.eraseDups) ⟨f, false⟩ suf (pool.eraseDups.length + 1) [] f
      (WalkInv.start (o := ⟨f, false⟩) (hmem _ (List.mem_cons_self ..)))
      (fun x hx => hmem x (List.mem_cons_of_mem _ hx)) (by simpa using hr.distinct) (by simpa using hr.linked)
      (by simpa using hr.closes) ho.1 ho.2 (by simp at hlen; omega)
    simpa [Oriented.get] using this

end PolyVerif.Ligate
