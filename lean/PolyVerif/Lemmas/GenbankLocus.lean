import PolyVerif.Lemmas.GenbankStr
import PolyVerif.Lemmas.GenbankOrigin
import PolyVerif.Lemmas.GenbankWrap
/-
C01, LOCUS section: `parseLocus (locusLine l n ℓ) = toLocus l n`.
-/
set_option linter.unusedSimpArgs false
namespace PolyVerif.Lemmas.Genbank
open PolyVerif PolyVerif.Str PolyVerif.Genbank PolyVerif.GbLayout

/-! ### splitting into tokens -/

theorem splitC_spaces (k : Nat) (rest : Str) :
    splitC ' ' (spaces k ++ rest) = List.replicate k [] ++ splitC ' ' rest := by
  induction k with
  | zero => rfl
  | succ j ih =>
    have : spaces (j + 1) ++ rest = ' ' :: (spaces j ++ rest) := by simp [spaces, List.replicate_succ]
    rw [this, splitC, if_pos rfl, ih, List.replicate_succ]; rfl

theorem splitC_gap (t rest : Str) (k : Nat) (ht : ' ' ∉ t) :
    splitC ' ' (t ++ (spaces (k + 1) ++ rest)) = t :: (List.replicate k [] ++ splitC ' ' rest) := by
  have : t ++ (spaces (k + 1) ++ rest) = t ++ ' ' :: (spaces k ++ rest) := by simp [spaces, List.replicate_succ]
  rw [this, splitC_append ' ' t _ ht, splitC_spaces]

theorem filter_ne_nil_replicate (k : Nat) (xs : List Str) :
    (List.replicate k ([] : Str) ++ xs).filter (· ≠ []) = xs.filter (· ≠ []) := by
  induction k with
  | zero => rfl
  | succ j ih => simp [List.replicate_succ, ih]

/-! ### ` \d+ \w{2} ` -/

theorem matchBasePair_none_of_head {c : Char} {s : Str} (h : c ≠ ' ') : matchBasePair (c :: s) = none := by
  unfold matchBasePair
  split
  · rename_i heq; simp at heq; exact absurd heq.1 h
  · rfl

theorem matchBasePair_none_of_second {s : Str} (h : ∀ d, s.head? = some d → isDigit d = false) :
    matchBasePair (' ' :: s) = none := by
  cases s with
  | nil => simp [matchBasePair]
  | cons d ds =>
    have hd := h d rfl
    simp [matchBasePair, List.takeWhile, hd]

theorem findBasePair_skip_token (t R : Str) (ht : ' ' ∉ t) : findBasePair (t ++ R) = findBasePair R := by
  induction t with
  | nil => rfl
  | cons y ys ih =>
    have hy : y ≠ ' ' := fun e => ht (by simp [e])
    simp only [List.cons_append, findBasePair, matchBasePair_none_of_head hy]
    exact ih (fun e => ht (by simp [e]))

/-- blanks followed by something that does not start with a digit -/
theorem findBasePair_skip_spaces (k : Nat) (R : Str) (h : ∀ d, R.head? = some d → isDigit d = false) :
    findBasePair (spaces k ++ R) = findBasePair R := by
  induction k with
  | zero => rfl
  | succ j ih =>
    have e : spaces (j + 1) ++ R = ' ' :: (spaces j ++ R) := by simp [spaces, List.replicate_succ]
    rw [e, findBasePair, matchBasePair_none_of_second, ih]
    intro d hd
    cases j with
    | zero => exact h d hd
    | succ i =>
      simp [spaces, List.replicate_succ] at hd
      subst hd; decide

theorem takeWhile_digits (ds rest : Str) (h : ∀ c ∈ ds, isDigit c = true) (hr : ∀ d, rest.head? = some d → isDigit d = false) :
    (ds ++ rest).takeWhile isDigit = ds ∧ (ds ++ rest).dropWhile isDigit = rest := by
  induction ds with
  | nil =>
    cases rest with
    | nil => simp
    | cons d r => simp [List.takeWhile, List.dropWhile, hr d rfl]
  | cons x xs ih =>
    have hx := h x (by simp)
    have := ih (fun c hc => h c (by simp [hc]))
    simp [List.takeWhile, List.dropWhile, hx, this.1, this.2]

/-- the match at the length field -/
theorem findBasePair_at (ds post : Str) (a b : Char) (hne : ds ≠ []) (h : ∀ c ∈ ds, isDigit c = true)
    (ha : isWord a = true) (hb : isWord b = true) :
    findBasePair (' ' :: (ds ++ (' ' :: a :: b :: ' ' :: post))) = ' ' :: ds ++ [' ', a, b, ' '] := by
  have hsp : isDigit ' ' = false := by decide
  obtain ⟨h1, h2⟩ := takeWhile_digits ds (' ' :: a :: b :: ' ' :: post) h (by intro d hd; simp at hd; subst hd; exact hsp)
  simp only [findBasePair, matchBasePair, h1, h2, hne, if_false, ha, hb, Bool.and_self, if_true]

/-! ### the date -/

theorem matchDate_false {s : Str} (h : s[2]? ≠ some '-') : matchDate s = false := by
  unfold matchDate
  split
  · rename_i d1 d2 h1 m1 m2 m3 h2 y1 y2 y3 y4 r
    simp at h
    simp [h]
  · rfl

theorem findDate_skip (pre date : Str) (hp : '-' ∉ pre) (h0 : date[0]? ≠ some '-') (h1 : date[1]? ≠ some '-') :
    findDate (pre ++ date) = findDate date := by
  induction pre with
  | nil => rfl
  | cons c cs ih =>
    have hcs : '-' ∉ cs := fun e => hp (by simp [e])
    simp only [List.cons_append, findDate]
    rw [matchDate_false, if_neg (by simp), ih hcs]
    match cs, hcs with
    | [], _ => simpa using h1
    | [x], _ => simpa using h0
    | x :: y :: r, hcs =>
      have : y ≠ '-' := fun e => hcs (by simp [e])
      simpa using this

theorem findDate_self (d : Str) (h : isDateText d = true) : findDate d = d := by
  unfold isDateText at h
  split at h
  · rename_i d1 d2 m1 m2 m3 y1 y2 y3 y4
    simp only [Bool.and_eq_true] at h
    obtain ⟨⟨⟨⟨⟨⟨a1, a2⟩, am⟩, b1⟩, b2⟩, b3⟩, b4⟩ := h
    have hm : isUpper m1 = true ∧ isUpper m2 = true ∧ isUpper m3 = true := by
      have : ∀ m ∈ monthNames, m.all isUpper = true := by decide
      have := this [m1, m2, m3] (by simpa using am)
      simpa using this
    simp [findDate, matchDate, a1, a2, b1, b2, b3, b4, hm.1, hm.2.1, hm.2.2]
  · exact absurd h (by simp)

/-! ### token lists: the fields of the line and the text that is searched -/

theorem spaces_succ_append (k : Nat) (x : Str) : spaces (k + 1) ++ x = ' ' :: (spaces k ++ x) := by
  simp [spaces, List.replicate_succ]

theorem spaces_succ_append' (k : Nat) (x : Str) : spaces (k + 1) ++ x = spaces k ++ ' ' :: x := by
  induction k with
  | zero => rfl
  | succ j ih => rw [spaces_succ_append, ih, spaces_succ_append]

theorem getLast?_append_ne (a b : Str) (h : b ≠ []) : (a ++ b).getLast? = b.getLast? := by
  rw [List.getLast?_append]
  cases hb : b.getLast? with
  | none => exact absurd (List.getLast?_eq_none_iff.mp hb) h
  | some x => rfl

/-- a token: not empty, no white space -/
def Tok (t : Str) : Prop := t ≠ [] ∧ ∀ c ∈ t, isSpace c = false

theorem Tok.nosp {t : Str} (h : Tok t) : ' ' ∉ t := fun hm => by have := h.2 _ hm; revert this; decide

theorem gapped_cons (g : Nat) (t : Str) (ps : List (Nat × Str)) :
    gapped ((g, t) :: ps) = spaces (g + 1) ++ (t ++ gapped ps) := by
  simp [gapped, List.append_assoc]

/-- `strings.Split(line, " ")` without the empty fields: the tokens -/
theorem fields_gapped (ps : List (Nat × Str)) : ∀ (t : Str), Tok t → (∀ p ∈ ps, Tok p.2) →
    (splitC ' ' (t ++ gapped ps)).filter (· ≠ []) = t :: ps.map (·.2) := by
  induction ps with
  | nil =>
    intro t ht _
    simp only [gapped, List.map_nil, List.flatten_nil, List.append_nil]
    rw [splitC_of_not_mem ' ' t ht.nosp]
    simp [ht.1]
  | cons p ps ih =>
    intro t ht hps
    obtain ⟨g, t'⟩ := p
    rw [gapped_cons, splitC_gap t _ g ht.nosp, List.filter_cons_of_pos (by simpa using ht.1), filter_ne_nil_replicate,
      ih t' (hps (g, t') (by simp)) (fun q hq => hps q (by simp [hq]))]
    rfl

/-- `" " + strings.Join(tokens, " ") + " "`: a blank, then every token followed by a blank -/
def sOf : List Str → Str
  | [] => [' ']
  | t :: ts => ' ' :: (t ++ sOf ts)

theorem sOf_eq_join (toks : List Str) (h : toks ≠ []) : c!" " ++ join c!" " toks ++ c!" " = sOf toks := by
  induction toks with
  | nil => exact absurd rfl h
  | cons t ts ih =>
    cases ts with
    | nil => simp [join, sOf]
    | cons u us =>
      have := ih (by simp)
      simp only [join, sOf, List.cons_append, List.nil_append, List.append_assoc] at this ⊢
      rw [← this]

theorem contains_cons_blank (X lit : Str) (h : ' ' ∉ lit) (hne : lit ≠ []) : contains (' ' :: X) lit = contains X lit := by
  have := contains_append_sep ' ' lit [] X h hne
  simpa [contains_nil_lit lit hne] using this

/-- a blank-free pattern lies inside one token -/
theorem contains_sOf (lit : Str) (h : ' ' ∉ lit) (hne : lit ≠ []) (toks : List Str) :
    contains (sOf toks) lit = toks.any (contains · lit) := by
  induction toks with
  | nil =>
    simp only [sOf, List.any_nil]
    rw [contains_cons_blank [] lit h hne, contains_nil_lit lit hne]
  | cons t ts ih =>
    obtain ⟨X, hX⟩ : ∃ X, sOf ts = ' ' :: X := by cases ts <;> exact ⟨_, rfl⟩
    rw [hX, contains_cons_blank X lit h hne] at ih
    rw [sOf, contains_cons_blank _ lit h hne, hX, contains_append_sep ' ' lit t X h hne, ih]
    simp

theorem contains_skip_token (t R v : Str) (ht : ' ' ∉ t) : contains (t ++ R) (' ' :: v) = contains R (' ' :: v) := by
  induction t with
  | nil => rfl
  | cons y ys ih =>
    have hy : y ≠ ' ' := fun e => ht (by simp [e])
    simp only [List.cons_append, contains]
    rw [ih (fun e => ht (by simp [e]))]
    simp [List.isPrefixOf, Ne.symm hy]

/-- blank + blank-free pattern `v`: `v` starts a token -/
theorem contains_sOf_sp (v : Str) (hv : ' ' ∉ v) (hne : v ≠ []) (toks : List Str) (ht : ∀ t ∈ toks, ' ' ∉ t) :
    contains (sOf toks) (' ' :: v) = toks.any (v.isPrefixOf ·) := by
  induction toks with
  | nil =>
    cases v with
    | nil => exact absurd rfl hne
    | cons c w => simp [sOf, contains, List.isPrefixOf]
  | cons t ts ih =>
    have e : sOf ts = ' ' :: (sOf ts).tail := by cases ts <;> rfl
    simp only [sOf, contains, List.isPrefixOf, List.any_cons, Bool.true_and]
    rw [contains_skip_token t _ v (ht t (by simp)), ih (fun x hx => ht x (by simp [hx]))]
    congr 1
    rw [e]; exact isPrefixOf_append_sep ' ' v t _ hv

/-- blank + blank-free `u` + blank: `u` is one of the tokens -/
theorem contains_sOf_tok (u : Str) (hu : ' ' ∉ u) (hne : u ≠ []) (toks : List Str) (ht : ∀ t ∈ toks, ' ' ∉ t) :
    contains (sOf toks) (' ' :: (u ++ [' '])) = toks.any (u == ·) := by
  induction toks with
  | nil =>
    cases u with
    | nil => exact absurd rfl hne
    | cons c w =>
      have hc : c ≠ ' ' := fun e => hu (by simp [e])
      simp [sOf, contains, List.isPrefixOf, hc]
  | cons t ts ih =>
    have e : sOf ts = ' ' :: (sOf ts).tail := by cases ts <;> rfl
    simp only [sOf, contains, List.isPrefixOf, List.any_cons, Bool.true_and]
    rw [contains_skip_token t _ _ (ht t (by simp)), ih (fun x hx => ht x (by simp [hx]))]
    congr 1
    rw [e]; exact isPrefixOf_token u t _ hu (ht t (by simp))

/-! ### ` \d+ \w{2} ` without a length field -/

/-- a token that is not a number -/
def NotNum (t : Str) : Prop := ∃ c ∈ t, isDigit c = false

theorem matchBasePair_token (t R : Str) (ht : ' ' ∉ t) (hn : NotNum t) : matchBasePair (' ' :: (t ++ ' ' :: R)) = none := by
  obtain ⟨c, hc, hcd⟩ := hn
  -- the digits at the front of t are followed by a character of t that is neither digit nor blank
  have key : ∀ (t : Str), ' ' ∉ t → (∃ c ∈ t, isDigit c = false) →
      ∃ x r, (t ++ ' ' :: R).dropWhile isDigit = x :: r ∧ x ≠ ' ' := by
    intro t
    induction t with
    | nil => intro _ h; obtain ⟨c, hc, _⟩ := h; simp at hc
    | cons y ys ih =>
      intro hsp hex
      have hy : y ≠ ' ' := fun e => hsp (by simp [e])
      by_cases hd : isDigit y = true
      · obtain ⟨c, hc, hcd⟩ := hex
        have hcys : c ∈ ys := by
          rcases List.mem_cons.mp hc with rfl | h
          · rw [hd] at hcd; cases hcd
          · exact h
        obtain ⟨x, r, hx, hxne⟩ := ih (fun e => hsp (by simp [e])) ⟨c, hcys, hcd⟩
        exact ⟨x, r, by simp [List.dropWhile, hd, hx], hxne⟩
      · exact ⟨y, ys ++ ' ' :: R, by simp [List.dropWhile, hd], hy⟩
  obtain ⟨x, r, hx, hxne⟩ := key t ht ⟨c, hc, hcd⟩
  simp only [matchBasePair]
  split
  · rfl
  · rw [hx]
    split
    · rename_i heq; simp at heq; exact absurd heq.1 hxne
    · rfl

theorem findBasePair_sOf_none (toks : List Str) (ht : ∀ t ∈ toks, ' ' ∉ t ∧ NotNum t) : findBasePair (sOf toks) = [] := by
  induction toks with
  | nil => simp [sOf, findBasePair, matchBasePair]
  | cons t ts ih =>
    obtain ⟨X, hX⟩ : ∃ X, sOf ts = ' ' :: X := by cases ts <;> exact ⟨_, rfl⟩
    obtain ⟨h1, h2⟩ := ht t (by simp)
    have hm : matchBasePair (' ' :: (t ++ sOf ts)) = none := by rw [hX]; exact matchBasePair_token t X h1 h2
    rw [sOf, findBasePair, hm, findBasePair_skip_token t _ h1]
    exact ih (fun x hx => ht x (by simp [hx]))

/-! ### the date -/

theorem findDate_none (s : Str) (h : '-' ∉ s) : findDate s = [] := by
  induction s with
  | nil => rfl
  | cons c cs ih =>
    simp only [findDate]
    rw [matchDate_false, if_neg (by simp)]
    · exact ih (fun e => h (by simp [e]))
    · intro e
      exact h (List.mem_of_getElem? e)

theorem findDate_self_sp (d : Str) (h : isDateText d = true) : findDate (d ++ [' ']) = d := by
  unfold isDateText at h
  split at h
  · rename_i d1 d2 m1 m2 m3 y1 y2 y3 y4
    simp only [Bool.and_eq_true] at h
    obtain ⟨⟨⟨⟨⟨⟨a1, a2⟩, am⟩, b1⟩, b2⟩, b3⟩, b4⟩ := h
    have hm : isUpper m1 = true ∧ isUpper m2 = true ∧ isUpper m3 = true := by
      have : ∀ m ∈ monthNames, m.all isUpper = true := by decide
      have := this [m1, m2, m3] (by simpa using am)
      simpa using this
    simp [findDate, matchDate, a1, a2, b1, b2, b3, b4, hm.1, hm.2.1, hm.2.2]
  · exact absurd h (by simp)

/-! ### facts about the tokens -/

theorem firstContained_of_eq (s x : Str) (l : List Str) (h : ∀ y ∈ l, contains s y = (x == y)) (hx : x ∈ l) :
    firstContained s l = x := by
  induction l with
  | nil => simp at hx
  | cons y ys ih =>
    simp only [firstContained, h y (by simp)]
    by_cases e : x = y
    · subst e; simp
    · have : (x == y) = false := by simpa using e
      simp only [this]
      exact ih (fun z hz => h z (by simp [hz])) (by simpa [e] using hx)

theorem firstContained_none (s : Str) (l : List Str) (h : ∀ y ∈ l, contains s y = false) : firstContained s l = [] := by
  induction l with
  | nil => rfl
  | cons y ys ih =>
    simp only [firstContained, h y (by simp)]
    exact ih (fun z hz => h z (by simp [hz]))

theorem longestContained_congr (s : Str) (cur : Str) (l : List Str) (f : Str → Bool)
    (h : ∀ x ∈ l, contains s x = f x) :
    longestContained s cur l = l.foldl (fun cur x => if (if f x then x else []).length > cur.length then (if f x then x else []) else cur) cur := by
  induction l generalizing cur with
  | nil => rfl
  | cons x xs ih =>
    simp only [longestContained, List.foldl_cons, h x (by simp)]
    exact ih _ (fun y hy => h y (by simp [hy]))

theorem isUpper_false_of_digit {c : Char} (h : isDigit c = true) : isUpper c = false := by
  simp only [isDigit, isUpper, Bool.and_eq_true, decide_eq_true_eq, Bool.and_eq_false_iff, decide_eq_false_iff_not] at *
  omega

theorem isLower_false_of_digit {c : Char} (h : isDigit c = true) : isLower c = false := by
  simp only [isDigit, isLower, Bool.and_eq_true, decide_eq_true_eq, Bool.and_eq_false_iff, decide_eq_false_iff_not] at *
  omega

theorem ne_of_isDigit {c d : Char} (h : isDigit c = true) (hd : isDigit d = false) : c ≠ d := by
  rintro rfl; simp [h] at hd

theorem isSpace_false_of_digit {c : Char} (h : isDigit c = true) : isSpace c = false := by
  simp only [isDigit, Bool.and_eq_true, decide_eq_true_eq] at h
  simp only [isSpace, Bool.or_eq_false_iff, beq_eq_false_iff_ne]
  refine ⟨⟨⟨⟨⟨?_, ?_⟩, ?_⟩, ?_⟩, ?_⟩, ?_⟩ <;> (rintro rfl; revert h; decide)

structure DigitFacts (ds : Str) : Prop where
  nosp : ' ' ∉ ds
  nodash : '-' ∉ ds
  noupper : ∀ c ∈ ds, isUpper c = false
  nolower : ∀ c ∈ ds, isLower c = false

theorem digitFacts {ds : Str} (h : ∀ c ∈ ds, isDigit c = true) : DigitFacts ds :=
  { nosp := fun hm => by have := h _ hm; revert this; decide
    nodash := fun hm => by have := h _ hm; revert this; decide
    noupper := fun c hc => isUpper_false_of_digit (h c hc)
    nolower := fun c hc => isLower_false_of_digit (h c hc) }

/-- a well-formed date, taken apart -/
theorem date_parts {d : Str} (h : isDateText d = true) :
    ∃ d1 d2 mon y1 y2 y3 y4, d = [d1, d2] ++ '-' :: (mon ++ '-' :: [y1, y2, y3, y4]) ∧ mon ∈ monthNames
      ∧ isDigit d1 = true ∧ isDigit d2 = true ∧ isDigit y1 = true ∧ isDigit y2 = true ∧ isDigit y3 = true ∧ isDigit y4 = true := by
  unfold isDateText at h
  split at h
  · rename_i d1 d2 m1 m2 m3 y1 y2 y3 y4
    simp only [Bool.and_eq_true] at h
    obtain ⟨⟨⟨⟨⟨⟨a1, a2⟩, am⟩, b1⟩, b2⟩, b3⟩, b4⟩ := h
    exact ⟨d1, d2, [m1, m2, m3], y1, y2, y3, y4, rfl, by simpa using am, a1, a2, b1, b2, b3, b4⟩
  · exact absurd h (by simp)

/-- words searched in the LOCUS text: the one-word molecule types and the first words of the two-word
ones (`molLits`), the second words of the two-word ones (`secondWords`) -/
def molLits : List Str := [c!"DNA", c!"mRNA", c!"tRNA", c!"rRNA", c!"genomic", c!"other", c!"transcribed", c!"viral", c!"unassigned"]
def secondWords : List Str := [c!"DNA", c!"RNA", c!"cRNA"]

theorem lits_props : ∀ lit ∈ molLits ++ divisionCodes, ' ' ∉ lit ∧ '-' ∉ lit ∧ lit ≠ [] ∧ (∃ c ∈ lit, isLetter c = true) := by decide

instance (t : Str) : Decidable (Tok t) := by unfold Tok; exact inferInstance
instance (t : Str) : Decidable (NotNum t) := by unfold NotNum; exact inferInstance

/-- a token other than the molecule type: no molecule-type word occurs in it and it does not begin like
the second word of one -/
def Other (t : Str) : Prop := (∀ x ∈ molLits, contains t x = false) ∧ (∀ x ∈ secondWords, x.isPrefixOf t = false)
/-- not a topology word -/
def NoCirc (t : Str) : Prop := (c!"circular" == t) = false ∧ (c!"linear" == t) = false
/-- no division code occurs in it -/
def DivFree (t : Str) : Prop := ∀ y ∈ divisionCodes, contains t y = false

instance (t : Str) : Decidable (Other t) := by unfold Other; exact inferInstance
instance (t : Str) : Decidable (NoCirc t) := by unfold NoCirc; exact inferInstance
instance (t : Str) : Decidable (DivFree t) := by unfold DivFree; exact inferInstance

theorem isLetter_false_of_digit {c : Char} (h : isDigit c = true) : isLetter c = false := by
  simp only [isLetter, Bool.or_eq_false_iff]; exact ⟨isUpper_false_of_digit h, isLower_false_of_digit h⟩

theorem contains_digits_false {t lit : Str} (h : ∀ c ∈ t, isDigit c = true) (hl : lit ∈ molLits ++ divisionCodes) :
    contains t lit = false :=
  contains_false_of_class isLetter (lits_props lit hl).2.2.2 (fun c hc => isLetter_false_of_digit (h c hc))

theorem prefix_false_of_head {x t : Str} {c d : Char} {r r' : Str} (hx : x = c :: r) (ht : t = d :: r') (h : c ≠ d) :
    x.isPrefixOf t = false := by
  subst hx ht; simp [List.isPrefixOf, h]

theorem beq_false_of_head {x t : Str} {c d : Char} {r r' : Str} (hx : x = c :: r) (ht : t = d :: r') (h : c ≠ d) :
    (x == t) = false := by
  subst hx ht; rw [beq_eq_false_iff_ne]; intro e; exact h (List.cons.inj e).1

/-- a token that begins with a digit and whose parts between '-' are digits or a month name -/
theorem digits_token {t : Str} (h : ∀ c ∈ t, isDigit c = true) (hne : t ≠ []) :
    Tok t ∧ Other t ∧ NoCirc t ∧ DivFree t ∧ '-' ∉ t := by
  obtain ⟨x, xs, rfl⟩ : ∃ x xs, t = x :: xs := by cases t with | nil => exact absurd rfl hne | cons x xs => exact ⟨x, xs, rfl⟩
  have hx := h x (by simp)
  have hh : ∀ (c : Char), isDigit c = false → c ≠ x := fun c hc e => by rw [e, hx] at hc; cases hc
  refine ⟨⟨hne, fun c hc => isSpace_false_of_digit (h c hc)⟩, ⟨?_, ?_⟩, ⟨?_, ?_⟩, ?_, (digitFacts h).nodash⟩
  · intro y hy; exact contains_digits_false h (by simp [hy])
  · intro y hy
    simp only [secondWords, List.mem_cons, List.not_mem_nil, or_false] at hy
    rcases hy with rfl | rfl | rfl
    · exact prefix_false_of_head rfl rfl (hh 'D' (by decide))
    · exact prefix_false_of_head rfl rfl (hh 'R' (by decide))
    · exact prefix_false_of_head rfl rfl (hh 'c' (by decide))
  · exact beq_false_of_head rfl rfl (hh 'c' (by decide))
  · exact beq_false_of_head rfl rfl (hh 'l' (by decide))
  · intro y hy; exact contains_digits_false h (by simp [hy])

theorem month_facts : ∀ m ∈ monthNames, (∀ c ∈ m, isSpace c = false) ∧ (∀ lit ∈ molLits ++ divisionCodes, contains m lit = false) := by decide

theorem date_token {d : Str} (h : isDateText d = true) : Tok d ∧ Other d ∧ NoCirc d ∧ DivFree d ∧ NotNum d := by
  obtain ⟨d1, d2, mon, y1, y2, y3, y4, rfl, hm, a1, a2, b1, b2, b3, b4⟩ := date_parts h
  have hsp : isDigit ' ' = false := by decide
  obtain ⟨hmon, hmlit⟩ := month_facts mon hm
  have hh : ∀ (c : Char), isDigit c = false → c ≠ d1 := fun c hc e => by rw [e, a1] at hc; cases hc
  have hcont : ∀ lit ∈ molLits ++ divisionCodes, contains ([d1, d2] ++ '-' :: (mon ++ '-' :: [y1, y2, y3, y4])) lit = false := by
    intro lit hl
    obtain ⟨_, hd, hne, _⟩ := lits_props lit hl
    rw [contains_append_sep '-' lit _ _ hd hne, contains_append_sep '-' lit _ _ hd hne, hmlit lit hl,
      contains_digits_false (t := [d1, d2]) (by intro c hc; simp at hc; rcases hc with rfl | rfl <;> assumption) hl,
      contains_digits_false (t := [y1, y2, y3, y4]) (by intro c hc; simp at hc; rcases hc with rfl | rfl | rfl | rfl <;> assumption) hl]
    rfl
  refine ⟨⟨by simp, ?_⟩, ⟨fun y hy => hcont y (by simp [hy]), ?_⟩, ⟨?_, ?_⟩, fun y hy => hcont y (by simp [hy]), ⟨'-', by simp, by decide⟩⟩
  · intro c hmem
    simp only [List.mem_append, List.mem_cons, List.not_mem_nil, or_false] at hmem
    rcases hmem with (h | h) | h | h | h | h | h | h | h
    · subst h; exact isSpace_false_of_digit a1
    · subst h; exact isSpace_false_of_digit a2
    · subst h; decide
    · exact hmon c h
    · subst h; decide
    · subst h; exact isSpace_false_of_digit b1
    · subst h; exact isSpace_false_of_digit b2
    · subst h; exact isSpace_false_of_digit b3
    · subst h; exact isSpace_false_of_digit b4
  · intro y hy
    simp only [secondWords, List.mem_cons, List.not_mem_nil, or_false] at hy
    rcases hy with rfl | rfl | rfl
    · exact prefix_false_of_head rfl rfl (hh 'D' (by decide))
    · exact prefix_false_of_head rfl rfl (hh 'R' (by decide))
    · exact prefix_false_of_head rfl rfl (hh 'c' (by decide))
  · exact beq_false_of_head rfl rfl (hh 'c' (by decide))
  · exact beq_false_of_head rfl rfl (hh 'l' (by decide))

theorem date_dash {d : Str} (h : isDateText d = true) : d[0]? ≠ some '-' ∧ d[1]? ≠ some '-' := by
  obtain ⟨d1, d2, mon, y1, y2, y3, y4, rfl, _, a1, a2, _⟩ := date_parts h
  constructor
  · simp; rintro rfl; revert a1; decide
  · simp; rintro rfl; revert a2; decide

theorem bp_token : Tok c!"bp" ∧ Other c!"bp" ∧ NoCirc c!"bp" ∧ DivFree c!"bp" ∧ NotNum c!"bp" ∧ '-' ∉ c!"bp" := by decide

theorem topo_token (t : Topology) : Tok t.text ∧ Other t.text ∧ DivFree t.text ∧ NotNum t.text ∧ '-' ∉ t.text := by
  cases t <;> decide

theorem div_token : ∀ d ∈ divisionCodes, Tok d ∧ Other d ∧ NoCirc d ∧ NotNum d ∧ '-' ∉ d
    ∧ ∀ y ∈ divisionCodes, contains d y = (d == y) := by decide

/-- the words of a molecule type -/
def molWords (mol : Str) : List Str := if mol = [] then [] else splitC ' ' mol

theorem molWords_facts : ∀ m ∈ [] :: molTypes, ∀ w ∈ molWords m, Tok w ∧ NoCirc w ∧ DivFree w ∧ NotNum w ∧ '-' ∉ w := by decide

/-- the two-word molecule types: first word, second word -/
def spaced : List (Str × Str) :=
  [(c!"genomic", c!"DNA"), (c!"genomic", c!"RNA"), (c!"other", c!"RNA"), (c!"other", c!"DNA"), (c!"transcribed", c!"RNA"),
   (c!"viral", c!"cRNA"), (c!"unassigned", c!"DNA"), (c!"unassigned", c!"RNA")]

theorem molTypes_cases : ∀ x ∈ genBankMoleculeTypes,
    (x ∈ molLits ∧ ' ' ∉ x) ∨ ∃ p ∈ spaced, x = p.1 ++ ' ' :: p.2 := by decide

theorem spaced_props : ∀ p ∈ spaced, p.1 ∈ molLits ∧ p.2 ∈ secondWords ∧ ' ' ∉ p.2 ∧ p.2 ≠ [] := by decide

/-- what the molecule-type search finds depends on the words of the molecule type only: a two-word type
whose first word occurs in a word of the molecule type and whose second word begins one, stands there … -/
theorem mol_table : ∀ m ∈ [] :: molTypes, ∀ p ∈ spaced,
    (molWords m).any (contains · p.1) = true → (molWords m).any (p.2.isPrefixOf ·) = true →
      contains (sOf (molWords m)) (p.1 ++ ' ' :: p.2) = true := by decide

/-- … and the longest type found is the one that stands there -/
theorem mol_longest : ∀ m ∈ [] :: molTypes, longestContained (sOf (molWords m)) [] genBankMoleculeTypes = m := by decide

/-! ### the tokens of a LOCUS line -/

def optS (t : Str) : List Str := if t = [] then [] else [t]

/-- the tokens after the name -/
def restToks (l : RLocus) : List Str :=
  optS l.len ++ ([c!"bp"] ++ (molWords l.mol ++ (optS (topoText l.topo) ++ (optS l.division ++ optS l.date))))

theorem molToks_map (pad : Nat) (mol : Str) : (molToks pad mol).map (·.2) = molWords mol := by
  unfold molToks molWords
  split
  · rfl
  · cases h : splitC ' ' mol with
    | nil => exact absurd h (splitC_ne_nil _ _)
    | cons w ws => simp [List.map_map, Function.comp_def]

theorem optTok_map (pad : Nat) (t : Str) : (optTok pad t).map (·.2) = optS t := by
  unfold optTok optS; split <;> rfl

theorem locusToks_map (l : RLocus) (ℓ : RecLayout) : (locusToks l ℓ).map (·.2) = l.name :: restToks l := by
  unfold locusToks restToks
  simp only [List.map_append, molToks_map, optTok_map, List.map_cons, List.map_nil, List.cons_append, List.nil_append]
  congr 1
  unfold optS
  split <;> simp

theorem any_false {α : Type} (L : List α) (P : α → Bool) (h : ∀ t ∈ L, P t = false) : L.any P = false := by
  rw [List.any_eq_false]; intro x hx; simp [h x hx]

theorem any_drop_left {α : Type} (A B : List α) (P : α → Bool) (h : ∀ t ∈ A, P t = false) : (A ++ B).any P = B.any P := by
  rw [List.any_append, any_false A P h]; rfl

theorem any_drop_right {α : Type} (A B : List α) (P : α → Bool) (h : ∀ t ∈ B, P t = false) : (A ++ B).any P = A.any P := by
  rw [List.any_append, any_false B P h]; simp

theorem sOf_snoc (T : List Str) (d : Str) : sOf (T ++ [d]) = sOf T ++ (d ++ [' ']) := by
  induction T with
  | nil => simp [sOf]
  | cons t ts ih => simp [sOf, ih, List.append_assoc]

theorem sOf_append (A B : List Str) : ∃ pre, sOf (A ++ B) = pre ++ sOf B := by
  induction A with
  | nil => exact ⟨[], rfl⟩
  | cons t ts ih => obtain ⟨pre, h⟩ := ih; exact ⟨' ' :: (t ++ pre), by simp [sOf, h, List.append_assoc]⟩

theorem sOf_prefix (ws B : List Str) : sOf ws <+: sOf (ws ++ B) := by
  induction ws with
  | nil =>
    cases B with
    | nil => exact List.prefix_refl _
    | cons b bs => exact ⟨b ++ sOf bs, rfl⟩
  | cons t ts ih =>
    simp only [sOf, List.cons_append]
    exact (List.prefix_cons_inj _).mpr ((List.prefix_append_right_inj _).mpr ih)

theorem sOf_infix (A ws B : List Str) : sOf ws <:+: sOf (A ++ (ws ++ B)) := by
  obtain ⟨pre, h⟩ := sOf_append A (ws ++ B)
  rw [h]
  exact (sOf_prefix ws B).isInfix.trans (List.suffix_append pre _).isInfix

theorem dash_sOf (T : List Str) (h : ∀ t ∈ T, '-' ∉ t) : '-' ∉ sOf T := by
  induction T with
  | nil => simp [sOf]
  | cons t ts ih =>
    simp only [sOf, List.mem_cons, List.mem_append, not_or]
    exact ⟨by decide, h t (by simp), ih (fun x hx => h x (by simp [hx]))⟩

theorem longestContained_congr2 (s s' : Str) (l : List Str) (h : ∀ x ∈ l, contains s x = contains s' x) :
    ∀ cur, longestContained s cur l = longestContained s' cur l := by
  induction l with
  | nil => intro _; rfl
  | cons x xs ih =>
    intro cur
    simp only [longestContained, h x (by simp)]
    exact ih (fun y hy => h y (by simp [hy])) _

theorem molTypes_same : genBankMoleculeTypes = molTypes := rfl
theorem divisions_same : genbankDivisions = divisionCodes := rfl

/-- every token of the line after the name, with what the searches need of it -/
structure RestFacts (l : RLocus) : Prop where
  tok : ∀ t ∈ restToks l, Tok t
  notnum_nolen : l.len = [] → ∀ t ∈ restToks l, NotNum t
  other : ∀ t ∈ optS l.len ++ [c!"bp"], Other t
  other' : ∀ t ∈ optS (topoText l.topo) ++ (optS l.division ++ optS l.date), Other t
  nocirc : ∀ t ∈ optS l.len ++ ([c!"bp"] ++ molWords l.mol), NoCirc t
  nocirc' : ∀ t ∈ optS l.division ++ optS l.date, NoCirc t
  divfree : ∀ t ∈ optS l.len ++ ([c!"bp"] ++ (molWords l.mol ++ optS (topoText l.topo))), DivFree t
  divfree' : ∀ t ∈ optS l.date, DivFree t
  nodash : ∀ t ∈ optS l.len ++ ([c!"bp"] ++ (molWords l.mol ++ (optS (topoText l.topo) ++ optS l.division))), '-' ∉ t

theorem mem_optS {t x : Str} (h : x ∈ optS t) : x = t ∧ t ≠ [] := by
  unfold optS at h; split at h
  · simp at h
  · rename_i hne; simp at h; exact ⟨h, hne⟩

theorem restFacts (l : RLocus) (h : wfLocus l = true) :
    RestFacts l ∧ l.mol ∈ [] :: molTypes ∧ (l.division = [] ∨ l.division ∈ divisionCodes) ∧ (l.date = [] ∨ isDateText l.date = true) := by
  simp only [wfLocus, Bool.and_eq_true, Bool.or_eq_true, beq_iff_eq, List.all_eq_true] at h
  obtain ⟨⟨⟨⟨_, hlen⟩, hmol⟩, hdiv⟩, hdate⟩ := h
  have hmol' : l.mol ∈ [] :: molTypes := by
    rcases hmol with h | h
    · rw [h]; simp
    · exact List.mem_cons_of_mem _ (by simpa using h)
  have hdiv' : l.division = [] ∨ l.division ∈ divisionCodes := by
    rcases hdiv with h | h
    · exact Or.inl h
    · exact Or.inr (by simpa using h)
  have hdate' : l.date = [] ∨ isDateText l.date = true := hdate
  -- facts per token
  have fLen : ∀ t ∈ optS l.len, Tok t ∧ Other t ∧ NoCirc t ∧ DivFree t ∧ '-' ∉ t := by
    intro t ht; obtain ⟨rfl, hne⟩ := mem_optS ht; exact digits_token hlen hne
  have fMol := molWords_facts l.mol hmol'
  have fTopo : ∀ t ∈ optS (topoText l.topo), Tok t ∧ Other t ∧ DivFree t ∧ NotNum t ∧ '-' ∉ t := by
    intro t ht; obtain ⟨rfl, hne⟩ := mem_optS ht
    cases htp : l.topo with
    | none => rw [htp] at hne; exact absurd rfl hne
    | some x => exact topo_token x
  have fDiv : ∀ t ∈ optS l.division, Tok t ∧ Other t ∧ NoCirc t ∧ NotNum t ∧ '-' ∉ t := by
    intro t ht; obtain ⟨rfl, hne⟩ := mem_optS ht
    rcases hdiv' with h | h
    · exact absurd h hne
    · obtain ⟨a, b, c, d, e, _⟩ := div_token _ h; exact ⟨a, b, c, d, e⟩
  have fDate : ∀ t ∈ optS l.date, Tok t ∧ Other t ∧ NoCirc t ∧ DivFree t ∧ NotNum t := by
    intro t ht; obtain ⟨rfl, hne⟩ := mem_optS ht
    rcases hdate' with h | h
    · exact absurd h hne
    · exact date_token h
  obtain ⟨b1, b2, b3, b4, b5, b6⟩ := bp_token
  refine ⟨⟨?_, ?_, ?_, ?_, ?_, ?_, ?_, ?_, ?_⟩, hmol', hdiv', hdate'⟩
  · intro t ht
    simp only [restToks, List.mem_append, List.mem_singleton] at ht
    rcases ht with h | rfl | h | h | h | h
    · exact (fLen t h).1
    · exact b1
    · exact (fMol t h).1
    · exact (fTopo t h).1
    · exact (fDiv t h).1
    · exact (fDate t h).1
  · intro hl t ht
    simp only [restToks, optS, hl, if_true, List.nil_append, List.mem_append, List.mem_singleton] at ht
    rcases ht with rfl | h | h | h | h
    · exact b5
    · exact (fMol t h).2.2.2.1
    · exact (fTopo t (by simpa [optS] using h)).2.2.2.1
    · exact (fDiv t (by simpa [optS] using h)).2.2.2.1
    · exact (fDate t (by simpa [optS] using h)).2.2.2.2
  · intro t ht
    simp only [List.mem_append, List.mem_singleton] at ht
    rcases ht with h | rfl
    · exact (fLen t h).2.1
    · exact b2
  · intro t ht
    simp only [List.mem_append] at ht
    rcases ht with h | h | h
    · exact (fTopo t h).2.1
    · exact (fDiv t h).2.1
    · exact (fDate t h).2.1
  · intro t ht
    simp only [List.mem_append, List.mem_singleton] at ht
    rcases ht with h | rfl | h
    · exact (fLen t h).2.2.1
    · exact b3
    · exact (fMol t h).2.1
  · intro t ht
    simp only [List.mem_append] at ht
    rcases ht with h | h
    · exact (fDiv t h).2.2.1
    · exact (fDate t h).2.2.1
  · intro t ht
    simp only [List.mem_append, List.mem_singleton] at ht
    rcases ht with h | rfl | h | h
    · exact (fLen t h).2.2.2.1
    · exact b4
    · exact (fMol t h).2.2.1
    · exact (fTopo t h).2.2.1
  · intro t ht; exact (fDate t ht).2.2.2.1
  · intro t ht
    simp only [List.mem_append, List.mem_singleton] at ht
    rcases ht with h | rfl | h | h | h
    · exact (fLen t h).2.2.2.2
    · exact b6
    · exact (fMol t h).2.2.2.2
    · exact (fTopo t h).2.2.2.2
    · exact (fDiv t h).2.2.2.2

/-- the LOCUS line when every field is present and the molecule type is one word (what a record with all
fields looks like; used by the C03 bridge) -/
theorem locusLine_full (l : RLocus) (ℓ : RecLayout) (tp : Topology) (hlen : l.len ≠ []) (hmol : l.mol ≠ [] ∧ ' ' ∉ l.mol)
    (htopo : l.topo = some tp) (hdiv : l.division ≠ []) (hdate : l.date ≠ []) :
    locusLine l ℓ = c!"LOCUS" ++ gap ℓ 0 ++ l.name ++ gap ℓ 1 ++ l.len ++ c!" bp" ++ gap ℓ 2 ++ l.mol ++ gap ℓ 3
      ++ tp.text ++ gap ℓ 4 ++ l.division ++ gap ℓ 5 ++ l.date ++ spaces ℓ.locusTrail := by
  have htt : topoText l.topo = tp.text := by rw [htopo]; rfl
  have htx : tp.text ≠ [] := by cases tp <;> decide
  have hm : molToks (ℓ.pads.getD 2 0) l.mol = [(ℓ.pads.getD 2 0, l.mol)] := by
    unfold molToks; rw [if_neg hmol.1, splitC_of_not_mem ' ' _ hmol.2]; rfl
  unfold locusLine locusToks
  rw [if_neg hlen, hm]
  simp only [optTok, htt, htx, hdiv, hdate, if_false, gapped, gap, List.map_append, List.map_cons, List.map_nil,
    List.flatten_append, List.flatten_cons, List.flatten_nil, List.append_assoc, List.append_nil, List.cons_append,
    List.nil_append]
  simp [spaces, List.append_assoc]

theorem gapped_snoc (ps : List (Nat × Str)) (g : Nat) (t : Str) : gapped (ps ++ [(g, t)]) = gapped ps ++ (spaces (g + 1) ++ t) := by
  simp [gapped]

/-- `parseLocus` recovers every field of the LOCUS line: every name (a blank-free token), a stated length of
any number of digits or none, each of the twelve molecule types or none, a topology or none, a division
or none, a date or none, every choice of the gaps and of the trailing blanks -/
theorem parseLocus_locusLine (l : RLocus) (ℓ : RecLayout) (h : wfLocus l = true) :
    parseLocus (locusLine l ℓ) = .ok (toLocus l) := by
  obtain ⟨F, hmol, hdiv, hdate⟩ := restFacts l h
  have hname : Tok l.name := by
    simp only [wfLocus, Bool.and_eq_true, isLocusName, bne_iff_ne, ne_eq, List.all_eq_true] at h
    obtain ⟨⟨⟨⟨⟨h1, h2⟩, _⟩, _⟩, _⟩, _⟩ := h
    exact ⟨h1, fun c hc => isSpace_false_of_print (h2 c hc).1 (h2 c hc).2⟩
  have hmap := locusToks_map l ℓ
  have htoks : ∀ p ∈ locusToks l ℓ, Tok p.2 := by
    intro p hp
    have : p.2 ∈ (locusToks l ℓ).map (·.2) := List.mem_map.mpr ⟨p, hp, rfl⟩
    rw [hmap] at this
    rcases List.mem_cons.mp this with e | e
    · rw [e]; exact hname
    · exact F.tok _ e
  have hLOC : Tok c!"LOCUS" := by decide
  -- (1) the line without its trailing blanks
  have htrim : trimSpace (locusLine l ℓ) = c!"LOCUS" ++ gapped (locusToks l ℓ) := by
    have hne : locusToks l ℓ ≠ [] := by intro e; rw [e] at hmap; simp at hmap
    have := trimSpace_spaces 0 ℓ.locusTrail (c!"LOCUS" ++ gapped (locusToks l ℓ))
      (by intro c hc; simp at hc; subst hc; decide)
      (by
        intro c hc
        have hsplit := List.dropLast_concat_getLast hne
        rcases hp : (locusToks l ℓ).getLast hne with ⟨g, t⟩
        rw [← hsplit, hp, gapped_snoc] at hc
        have ht := htoks (g, t) (by rw [← hp]; exact List.getLast_mem hne)
        rw [← List.append_assoc, ← List.append_assoc, getLast?_append_ne _ _ ht.1] at hc
        exact ht.2 c (List.mem_of_getLast? hc))
    simp only [spaces, List.replicate_zero, List.nil_append] at this
    rw [← this]; simp [locusLine, spaces, List.append_assoc]
  -- (2) the fields
  have hfields : (split (c!"LOCUS" ++ gapped (locusToks l ℓ)) c!" ").filter (· ≠ []) = c!"LOCUS" :: l.name :: restToks l := by
    show (splitC ' ' _).filter (· ≠ []) = _
    rw [fields_gapped _ _ hLOC htoks, hmap]
  have hrne : restToks l ≠ [] := by simp [restToks]
  have hnsp : ∀ t ∈ restToks l, ' ' ∉ t := fun t ht => (F.tok t ht).nosp
  generalize hSx : sOf (restToks l) = Sx
  -- (3) length and coding
  have hbp : lenCodingOf (findBasePair Sx) = (l.len, if l.len = [] then [] else c!"bp") := by
    by_cases hl : l.len = []
    · have : findBasePair Sx = [] := by
        rw [← hSx]; exact findBasePair_sOf_none _ (fun t ht => ⟨hnsp t ht, F.notnum_nolen hl t ht⟩)
      simp [this, hl, lenCodingOf]
    · have hd : ∀ c ∈ l.len, isDigit c = true := by
        simp only [wfLocus, Bool.and_eq_true, List.all_eq_true] at h; exact h.1.1.1.2
      obtain ⟨lc, lr, hleq⟩ : ∃ c r, l.len = c :: r := by
        cases hn : l.len with
        | nil => exact absurd hn hl
        | cons c r => exact ⟨c, r, rfl⟩
      have hlc : isDigit lc = true := hd lc (by rw [hleq]; simp)
      obtain ⟨X, hX⟩ : ∃ X, sOf (molWords l.mol ++ (optS (topoText l.topo) ++ (optS l.division ++ optS l.date))) = ' ' :: X := by
        cases (molWords l.mol ++ (optS (topoText l.topo) ++ (optS l.division ++ optS l.date))) <;> exact ⟨_, rfl⟩
      have hS : Sx = ' ' :: (l.len ++ (' ' :: 'b' :: 'p' :: ' ' :: X)) := by
        have e : restToks l = l.len :: c!"bp" :: (molWords l.mol ++ (optS (topoText l.topo) ++ (optS l.division ++ optS l.date))) := by
          simp [restToks, optS, hl]
        rw [← hSx, e]
        simp only [sOf]
        rw [hX]; simp
      have hf : findBasePair Sx = ' ' :: l.len ++ [' ', 'b', 'p', ' '] := by
        rw [hS]; exact findBasePair_at l.len X 'b' 'p' hl hd (by decide) (by decide)
      have hsplit : split (trimSpace (' ' :: l.len ++ [' ', 'b', 'p', ' '])) c!" " = [l.len, c!"bp"] := by
        have e : ' ' :: l.len ++ [' ', 'b', 'p', ' '] = spaces 1 ++ (l.len ++ c!" bp") ++ spaces 1 := by simp [spaces]
        rw [e, trimSpace_spaces 1 1]
        · show splitC ' ' (l.len ++ ' ' :: c!"bp") = _
          rw [splitC_append ' ' _ _ (digitFacts hd).nosp]; rfl
        · intro c hc; rw [hleq] at hc; simp at hc; subst hc; exact isSpace_false_of_digit hlc
        · intro c hc; rw [getLast?_append_ne _ _ (by simp)] at hc; simp at hc; subst hc; decide
      have hsplit' : split (trimSpace (' ' :: (l.len ++ [' ', 'b', 'p', ' ']))) c!" " = [l.len, c!"bp"] := hsplit
      simp [lenCodingOf, hf, hl]
      rw [hsplit']
  -- (4) the molecule type
  have hmolType : longestContained Sx [] genBankMoleculeTypes = l.mol := by
    have hdecomp : restToks l = (optS l.len ++ [c!"bp"]) ++ (molWords l.mol ++ (optS (topoText l.topo) ++ (optS l.division ++ optS l.date))) := by
      simp [restToks, List.append_assoc]
    have hother : ∀ (P : Str → Bool), (∀ t, Other t → P t = false) → (restToks l).any P = (molWords l.mol).any P := by
      intro P hP
      rw [hdecomp, any_drop_left _ _ P (fun t ht => hP t (F.other t ht)),
        any_drop_right _ _ P (fun t ht => hP t (F.other' t ht))]
    rw [← mol_longest l.mol hmol]
    apply longestContained_congr2
    intro x hx
    rw [← hSx]
    rcases molTypes_cases x hx with ⟨hxl, hxs⟩ | ⟨p, hp, rfl⟩
    · have hne : x ≠ [] := (lits_props x (by simp [hxl])).2.2.1
      rw [contains_sOf x hxs hne, contains_sOf x hxs hne]
      exact hother _ (fun t ht => ht.1 x hxl)
    · obtain ⟨p1, p2, p3, p4⟩ := spaced_props p hp
      cases hc : contains (sOf (molWords l.mol)) (p.1 ++ ' ' :: p.2) with
      | true =>
        rw [contains_iff] at hc ⊢
        rw [hdecomp]
        exact hc.trans (sOf_infix _ _ _)
      | false =>
        cases hS : contains (sOf (restToks l)) (p.1 ++ ' ' :: p.2) with
        | false => rfl
        | true =>
          exfalso
          have hne1 : p.1 ≠ [] := (lits_props p.1 (by simp [p1])).2.2.1
          have hs1 : ' ' ∉ p.1 := (lits_props p.1 (by simp [p1])).1
          have h1 : contains (sOf (restToks l)) p.1 = true := by
            rw [contains_iff] at hS ⊢
            exact (List.prefix_append p.1 _).isInfix.trans hS
          have h2 : contains (sOf (restToks l)) (' ' :: p.2) = true := by
            rw [contains_iff] at hS ⊢
            exact (List.suffix_append p.1 _).isInfix.trans hS
          rw [contains_sOf p.1 hs1 hne1, hother _ (fun t ht => ht.1 p.1 p1)] at h1
          rw [contains_sOf_sp p.2 p3 p4 _ hnsp, hother _ (fun t ht => ht.2 p.2 p2)] at h2
          have := mol_table l.mol hmol p hp h1 h2
          rw [hc] at this; cases this
  -- (5) topology
  have htopoAny : ∀ (u : Str) (tp : Topology), u = tp.text → (∀ tp' : Topology, (u == tp'.text) = (tp' == tp)) →
      (∀ t, NoCirc t → (u == t) = false) → (restToks l).any (u == ·) = (l.topo == some tp) := by
    intro u tp hu hcmp hnc
    have e : restToks l = (optS l.len ++ ([c!"bp"] ++ molWords l.mol)) ++ (optS (topoText l.topo) ++ (optS l.division ++ optS l.date)) := by
      simp [restToks, List.append_assoc]
    rw [e, any_drop_left _ _ _ (fun t ht => hnc t (F.nocirc t ht)),
      any_drop_right _ _ _ (fun t ht => hnc t (F.nocirc' t ht))]
    cases htp : l.topo with
    | none => simp [topoText, optS]
    | some x =>
      have hne : x.text ≠ [] := by cases x <;> decide
      simp only [topoText, optS, hne, if_false, List.any_cons, List.any_nil, Bool.or_false, Bool.false_or]
      rw [hcmp x]; cases x <;> cases tp <;> rfl
  have hcirc : contains Sx c!" circular " = (l.topo == some Topology.circular) := by
    rw [← hSx]
    have := contains_sOf_tok c!"circular" (by decide) (by decide) (restToks l) hnsp
    rw [show (' ' :: (c!"circular" ++ [' '])) = c!" circular " from rfl] at this
    rw [this]
    exact htopoAny _ .circular rfl (by intro tp'; cases tp' <;> rfl) (fun t ht => ht.1)
  have hlin : contains Sx c!" linear " = (l.topo == some Topology.linear) := by
    rw [← hSx]
    have := contains_sOf_tok c!"linear" (by decide) (by decide) (restToks l) hnsp
    rw [show (' ' :: (c!"linear" ++ [' '])) = c!" linear " from rfl] at this
    rw [this]
    exact htopoAny _ .linear rfl (by intro tp'; cases tp' <;> rfl) (fun t ht => ht.2)
  -- (6) division
  have hdivision : firstContained Sx genbankDivisions = l.division := by
    rw [divisions_same, ← hSx]
    have e : restToks l = (optS l.len ++ ([c!"bp"] ++ (molWords l.mol ++ optS (topoText l.topo)))) ++ (optS l.division ++ optS l.date) := by
      simp [restToks, List.append_assoc]
    have hany : ∀ y ∈ divisionCodes, contains (sOf (restToks l)) y = (optS l.division).any (contains · y) := by
      intro y hy
      obtain ⟨hs, _, hne, _⟩ := lits_props y (by simp [hy])
      rw [contains_sOf y hs hne, e, any_drop_left _ _ _ (fun t ht => F.divfree t ht y hy),
        any_drop_right _ _ _ (fun t ht => F.divfree' t ht y hy)]
    rcases hdiv with hd | hd
    · rw [hd]
      apply firstContained_none
      intro y hy; rw [hany y hy, hd]; rfl
    · apply firstContained_of_eq _ _ _ _ hd
      intro y hy
      have hne : l.division ≠ [] := (div_token _ hd).1.1
      rw [hany y hy]
      simp only [optS, hne, if_false, List.any_cons, List.any_nil, Bool.or_false]
      exact (div_token _ hd).2.2.2.2.2 y hy
  -- (7) the date
  have hfd : findDate Sx = l.date := by
    rw [← hSx]
    have e : restToks l = (optS l.len ++ ([c!"bp"] ++ (molWords l.mol ++ (optS (topoText l.topo) ++ optS l.division)))) ++ optS l.date := by
      simp [restToks, List.append_assoc]
    rcases hdate with hd | hd
    · rw [hd]
      apply findDate_none
      rw [e, hd]
      simp only [optS, if_true, List.append_nil]
      exact dash_sOf _ F.nodash
    · have hne : l.date ≠ [] := (date_token hd).1.1
      have ed : optS l.date = [l.date] := by simp [optS, hne]
      rw [e, ed]
      rw [sOf_snoc, findDate_skip _ _ (dash_sOf _ F.nodash) ?_ ?_, findDate_self_sp _ hd]
      · have := (date_dash hd).1
        cases hdd : l.date with
        | nil => exact absurd hdd hne
        | cons a r => rw [hdd] at this; simpa using this
      · have := (date_dash hd).2
        cases hdd : l.date with
        | nil => exact absurd hdd hne
        | cons a r =>
          rw [hdd] at this
          cases r with
          | nil => simp
          | cons b r' => simpa using this
  -- assemble
  unfold parseLocus
  simp only [htrim, hfields]
  have hj : c!" " ++ join c!" " (List.drop 2 (c!"LOCUS" :: l.name :: restToks l)) ++ c!" " = Sx := by
    rw [← hSx, ← sOf_eq_join _ hrne]; rfl
  simp only [List.getElem?_cons_succ, List.getElem?_cons_zero]
  rw [hj]
  simp only [hmolType, hcirc, hlin, hdivision, hfd, hbp]
  simp [toLocus]

end PolyVerif.Lemmas.Genbank
