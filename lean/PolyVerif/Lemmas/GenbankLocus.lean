import PolyVerif.Lemmas.GenbankStr
import PolyVerif.Lemmas.GenbankOrigin
/-
C01, LOCUS section: `parseLocus (locusLine l n ℓ) = toLocus l n`.
-/
set_option linter.unusedSimpArgs false
namespace PolyVerif.Lemmas.Genbank
open PolyVerif PolyVerif.Str PolyVerif.Genbank PolyVerif.GbLayout

/-- the LOCUS line, associated to the right: token, gap, token, gap, … -/
def L (p0 p1 p2 p3 p4 p5 : Nat) (name len mol topo div date : Str) : Str :=
  c!"LOCUS" ++ (spaces (p0 + 1) ++ (name ++ (spaces (p1 + 1) ++ (len ++ (spaces (0 + 1) ++ (c!"bp" ++ (spaces (p2 + 1)
    ++ (mol ++ (spaces (p3 + 1) ++ (topo ++ (spaces (p4 + 1) ++ (div ++ (spaces (p5 + 1) ++ date)))))))))))))

theorem locusLine_eq (l : RLocus) (n : Nat) (ℓ : RecLayout) :
    locusLine l n ℓ = L (ℓ.pads.getD 0 0) (ℓ.pads.getD 1 0) (ℓ.pads.getD 2 0) (ℓ.pads.getD 3 0) (ℓ.pads.getD 4 0)
      (ℓ.pads.getD 5 0) l.name (ofNat n) l.mol.text l.topo.text (divisionCodes.getD l.division []) l.date := by
  simp only [locusLine, gap, L, List.append_assoc]
  rfl

/-! ### splitting into tokens -/

theorem splitC_spaces (k : Nat) (rest : Str) :
    splitC ' ' (spaces k ++ rest) = List.replicate k [] ++ splitC ' ' rest := by
  induction k with
  | zero => rfl
  | succ j ih =>
    have : spaces (j + 1) ++ rest = ' ' :: (spaces j ++ rest) := by simp [spaces, List.replicate_succ]
    rw [this, splitC, if_pos rfl, ih, List.replicate_succ]; rfl

theorem splitC_gap (t rest : Str) (k : Nat) (ht : ' ' ∉ t) :
    splitC ' ' (t ++ (spaces (k + 1) ++ rest)) = t :: (List.replicate k [] ++ splitC ' ' rest) := by
  have : t ++ (spaces (k + 1) ++ rest) = t ++ ' ' :: (spaces k ++ rest) := by simp [spaces, List.replicate_succ]
  rw [this, splitC_append ' ' t _ ht, splitC_spaces]

theorem filter_ne_nil_replicate (k : Nat) (xs : List Str) :
    (List.replicate k ([] : Str) ++ xs).filter (· ≠ []) = xs.filter (· ≠ []) := by
  induction k with
  | zero => rfl
  | succ j ih => simp [List.replicate_succ, ih]

/-- the second blank-separated non-empty field of `tok gap tok gap rest` -/
theorem second_field (t1 t2 rest : Str) (k1 k2 : Nat) (h1 : ' ' ∉ t1) (h2 : ' ' ∉ t2) (n1 : t1 ≠ []) (n2 : t2 ≠ []) :
    ((splitC ' ' (t1 ++ (spaces (k1 + 1) ++ (t2 ++ (spaces (k2 + 1) ++ rest))))).filter (· ≠ []))[1]? = some t2 := by
  rw [splitC_gap t1 _ k1 h1, splitC_gap t2 _ k2 h2]
  rw [List.filter_cons_of_pos (by simpa using n1), filter_ne_nil_replicate, List.filter_cons_of_pos (by simpa using n2)]
  rfl

/-! ### ` \d+ \w{2} ` -/

theorem matchBasePair_none_of_head {c : Char} {s : Str} (h : c ≠ ' ') : matchBasePair (c :: s) = none := by
  unfold matchBasePair
  split
  · rename_i heq; simp at heq; exact absurd heq.1 h
  · rfl

theorem matchBasePair_none_of_second {s : Str} (h : ∀ d, s.head? = some d → isDigit d = false) :
    matchBasePair (' ' :: s) = none := by
  cases s with
  | nil => simp [matchBasePair]
  | cons d ds =>
    have hd := h d rfl
    simp [matchBasePair, List.takeWhile, hd]

theorem findBasePair_skip_token (t R : Str) (ht : ' ' ∉ t) : findBasePair (t ++ R) = findBasePair R := by
  induction t with
  | nil => rfl
  | cons y ys ih =>
    have hy : y ≠ ' ' := fun e => ht (by simp [e])
    simp only [List.cons_append, findBasePair, matchBasePair_none_of_head hy]
    exact ih (fun e => ht (by simp [e]))

/-- blanks followed by something that does not start with a digit -/
theorem findBasePair_skip_spaces (k : Nat) (R : Str) (h : ∀ d, R.head? = some d → isDigit d = false) :
    findBasePair (spaces k ++ R) = findBasePair R := by
  induction k with
  | zero => rfl
  | succ j ih =>
    have e : spaces (j + 1) ++ R = ' ' :: (spaces j ++ R) := by simp [spaces, List.replicate_succ]
    rw [e, findBasePair, matchBasePair_none_of_second, ih]
    intro d hd
    cases j with
    | zero => exact h d hd
    | succ i =>
      simp [spaces, List.replicate_succ] at hd
      subst hd; decide

theorem takeWhile_digits (ds rest : Str) (h : ∀ c ∈ ds, isDigit c = true) (hr : ∀ d, rest.head? = some d → isDigit d = false) :
    (ds ++ rest).takeWhile isDigit = ds ∧ (ds ++ rest).dropWhile isDigit = rest := by
  induction ds with
  | nil =>
    cases rest with
    | nil => simp
    | cons d r => simp [List.takeWhile, List.dropWhile, hr d rfl]
  | cons x xs ih =>
    have hx := h x (by simp)
    have := ih (fun c hc => h c (by simp [hc]))
    simp [List.takeWhile, List.dropWhile, hx, this.1, this.2]

/-- the match at the length field -/
theorem findBasePair_at (ds post : Str) (a b : Char) (hne : ds ≠ []) (h : ∀ c ∈ ds, isDigit c = true)
    (ha : isWord a = true) (hb : isWord b = true) :
    findBasePair (' ' :: (ds ++ (' ' :: a :: b :: ' ' :: post))) = ' ' :: ds ++ [' ', a, b, ' '] := by
  have hsp : isDigit ' ' = false := by decide
  obtain ⟨h1, h2⟩ := takeWhile_digits ds (' ' :: a :: b :: ' ' :: post) h (by intro d hd; simp at hd; subst hd; exact hsp)
  simp only [findBasePair, matchBasePair, h1, h2, hne, if_false, ha, hb, Bool.and_self, if_true]

/-! ### the date -/

theorem matchDate_false {s : Str} (h : s[2]? ≠ some '-') : matchDate s = false := by
  unfold matchDate
  split
  · rename_i d1 d2 h1 m1 m2 m3 h2 y1 y2 y3 y4 r
    simp at h
    simp [h]
  · rfl

theorem findDate_skip (pre date : Str) (hp : '-' ∉ pre) (h0 : date[0]? ≠ some '-') (h1 : date[1]? ≠ some '-') :
    findDate (pre ++ date) = findDate date := by
  induction pre with
  | nil => rfl
  | cons c cs ih =>
    have hcs : '-' ∉ cs := fun e => hp (by simp [e])
    simp only [List.cons_append, findDate]
    rw [matchDate_false, if_neg (by simp), ih hcs]
    match cs, hcs with
    | [], _ => simpa using h1
    | [x], _ => simpa using h0
    | x :: y :: r, hcs =>
      have : y ≠ '-' := fun e => hcs (by simp [e])
      simpa using this

theorem findDate_self (d : Str) (h : isDateText d = true) : findDate d = d := by
  unfold isDateText at h
  split at h
  · rename_i d1 d2 m1 m2 m3 y1 y2 y3 y4
    simp only [Bool.and_eq_true] at h
    obtain ⟨⟨⟨⟨⟨⟨a1, a2⟩, am⟩, b1⟩, b2⟩, b3⟩, b4⟩ := h
    have hm : isUpper m1 = true ∧ isUpper m2 = true ∧ isUpper m3 = true := by
      have : ∀ m ∈ monthNames, m.all isUpper = true := by decide
      have := this [m1, m2, m3] (by simpa using am)
      simpa using this
    simp [findDate, matchDate, a1, a2, b1, b2, b3, b4, hm.1, hm.2.1, hm.2.2]
  · exact absurd h (by simp)

/-! ### the text that is searched: `" " + Join(filtered[2:], " ") + " "` -/

theorem spaces_succ_append (k : Nat) (x : Str) : spaces (k + 1) ++ x = ' ' :: (spaces k ++ x) := by
  simp [spaces, List.replicate_succ]

theorem spaces_succ_append' (k : Nat) (x : Str) : spaces (k + 1) ++ x = spaces k ++ ' ' :: x := by
  induction k with
  | zero => rfl
  | succ j ih => rw [spaces_succ_append, ih, spaces_succ_append]

/-- blank, then the six tokens after the name, each followed by one blank -/
def S6 (len mol topo div date : Str) : Str :=
  spaces (0 + 1) ++ (len ++ (spaces (0 + 1) ++ (c!"bp" ++ (spaces (0 + 1) ++ (mol ++ (spaces (0 + 1) ++ (topo
    ++ (spaces (0 + 1) ++ (div ++ (spaces (0 + 1) ++ (date ++ (spaces (0 + 1) ++ []))))))))))))

theorem S6_eq (len mol topo div date : Str) :
    c!" " ++ join c!" " [len, c!"bp", mol, topo, div, date] ++ c!" " = S6 len mol topo div date := by
  simp [S6, join, spaces, List.append_assoc]

/-- all eight blank-separated fields of the LOCUS line -/
theorem fields_L (p0 p1 p2 p3 p4 p5 : Nat) (name len mol topo div date : Str)
    (h1 : ' ' ∉ name) (h2 : ' ' ∉ len) (h3 : ' ' ∉ mol) (h4 : ' ' ∉ topo) (h5 : ' ' ∉ div) (h6 : ' ' ∉ date)
    (n1 : name ≠ []) (n2 : len ≠ []) (n3 : mol ≠ []) (n4 : topo ≠ []) (n5 : div ≠ []) (n6 : date ≠ []) :
    (splitC ' ' (L p0 p1 p2 p3 p4 p5 name len mol topo div date)).filter (· ≠ [])
      = [c!"LOCUS", name, len, c!"bp", mol, topo, div, date] := by
  have hL : ' ' ∉ c!"LOCUS" := by decide
  have hbp : ' ' ∉ c!"bp" := by decide
  simp only [L]
  rw [splitC_gap _ _ _ hL, splitC_gap _ _ _ h1, splitC_gap _ _ _ h2, splitC_gap _ _ _ hbp, splitC_gap _ _ _ h3,
    splitC_gap _ _ _ h4, splitC_gap _ _ _ h5, splitC_of_not_mem ' ' date h6]
  simp only [List.filter_cons_of_pos, filter_ne_nil_replicate, ne_eq, n1, n2, n3, n4, n5, n6, not_false_eq_true,
    decide_true, List.filter_nil, List.cons_ne_nil]

section
variable (len mol topo div date : Str)

/-- a blank-free pattern lies inside one token -/
theorem contains_S6 (lit : Str) (h : ' ' ∉ lit) (hne : lit ≠ []) :
    contains (S6 len mol topo div date) lit =
      (contains len lit || (contains c!"bp" lit || (contains mol lit
        || (contains topo lit || (contains div lit || contains date lit))))) := by
  have e : S6 len mol topo div date = [] ++ S6 len mol topo div date := rfl
  rw [e]
  simp only [S6, contains_gap _ _ _ _ h hne, contains_nil_lit lit hne, Bool.false_or, Bool.or_false]

variable (hlen : ' ' ∉ len) (hmol : ' ' ∉ mol) (htopo : ' ' ∉ topo) (hdiv : ' ' ∉ div) (hdate : ' ' ∉ date)
include hlen hmol htopo hdiv hdate

/-- blank + blank-free pattern `v`: `v` starts a token -/
theorem contains_S6_sp (c : Char) (w : Str) (hc : c ≠ ' ') (hw : ' ' ∉ w) :
    contains (S6 len mol topo div date) (' ' :: c :: w) =
      ((c :: w).isPrefixOf len || ((c :: w).isPrefixOf c!"bp" || ((c :: w).isPrefixOf mol
        || ((c :: w).isPrefixOf topo || ((c :: w).isPrefixOf div || (c :: w).isPrefixOf date))))) := by
  have hv : ' ' ∉ c :: w := by simp [Ne.symm hc, hw]
  have hbp : ' ' ∉ c!"bp" := by decide
  have hnil : ' ' ∉ ([] : Str) := by simp
  have e : S6 len mol topo div date = [] ++ S6 len mol topo div date := rfl
  rw [e]
  simp only [S6]
  rw [contains_gap_sp w _ _ c 0 hc hnil, contains_gap_sp w _ _ c 0 hc hlen, contains_gap_sp w _ _ c 0 hc hbp,
    contains_gap_sp w _ _ c 0 hc hmol, contains_gap_sp w _ _ c 0 hc htopo, contains_gap_sp w _ _ c 0 hc hdiv,
    contains_gap_sp w _ _ c 0 hc hdate]
  simp only [spaces_succ_append, isPrefixOf_append_sep ' ' (c :: w) _ _ hv, Bool.or_false, Bool.or_assoc, contains,
    List.isPrefixOf]

/-- blank + blank-free `u` + blank: `u` is one of the tokens -/
theorem contains_S6_tok (c : Char) (u : Str) (hc : c ≠ ' ') (hu : ' ' ∉ u) :
    contains (S6 len mol topo div date) (' ' :: c :: (u ++ [' '])) =
      ((c :: u) == len || ((c :: u) == c!"bp" || ((c :: u) == mol
        || ((c :: u) == topo || ((c :: u) == div || (c :: u) == date))))) := by
  have hv : ' ' ∉ c :: u := by simp [Ne.symm hc, hu]
  have hbp : ' ' ∉ c!"bp" := by decide
  have hnil : ' ' ∉ ([] : Str) := by simp
  have e : S6 len mol topo div date = [] ++ S6 len mol topo div date := rfl
  rw [e]
  simp only [S6]
  rw [contains_gap_sp _ _ _ c 0 hc hnil, contains_gap_sp _ _ _ c 0 hc hlen, contains_gap_sp _ _ _ c 0 hc hbp,
    contains_gap_sp _ _ _ c 0 hc hmol, contains_gap_sp _ _ _ c 0 hc htopo, contains_gap_sp _ _ _ c 0 hc hdiv,
    contains_gap_sp _ _ _ c 0 hc hdate]
  have key : ∀ (t rest : Str), ' ' ∉ t → (c :: (u ++ [' '])).isPrefixOf (t ++ ' ' :: rest) = ((c :: u) == t) :=
    fun t rest ht => isPrefixOf_token (c :: u) t rest hv ht
  simp only [spaces_succ_append, key _ _ hlen, key _ _ hbp, key _ _ hmol, key _ _ htopo, key _ _ hdiv, key _ _ hdate,
    Bool.or_false, Bool.or_assoc, contains, List.isPrefixOf]

end

/-! ### facts about the tokens -/

theorem firstContained_of_eq (s x : Str) (l : List Str) (h : ∀ y ∈ l, contains s y = (x == y)) (hx : x ∈ l) :
    firstContained s l = x := by
  induction l with
  | nil => simp at hx
  | cons y ys ih =>
    simp only [firstContained, h y (by simp)]
    by_cases e : x = y
    · subst e; simp
    · have : (x == y) = false := by simpa using e
      simp only [this]
      exact ih (fun z hz => h z (by simp [hz])) (by simpa [e] using hx)

/-- the blank-free literals searched in the LOCUS line -/
def lits : List Str := [c!"DNA", c!"mRNA", c!"tRNA", c!"rRNA"] ++ divisionCodes

/-- the lower-case first words of the molecule types that contain a blank -/
def lowWords : List Str := [c!"genomic", c!"other", c!"transcribed", c!"viral", c!"unassigned"]

theorem lits_props : ∀ lit ∈ lits, ' ' ∉ lit ∧ '-' ∉ lit ∧ lit ≠ [] ∧ (∃ c ∈ lit, isUpper c = true) := by decide

theorem lowWords_props : ∀ w ∈ lowWords, ' ' ∉ w ∧ w ≠ [] ∧ (∃ c ∈ w, isLower c = true) := by decide

theorem isUpper_false_of_digit {c : Char} (h : isDigit c = true) : isUpper c = false := by
  simp only [isDigit, isUpper, Bool.and_eq_true, decide_eq_true_eq, Bool.and_eq_false_iff, decide_eq_false_iff_not] at *
  omega

theorem isLower_false_of_digit {c : Char} (h : isDigit c = true) : isLower c = false := by
  simp only [isDigit, isLower, Bool.and_eq_true, decide_eq_true_eq, Bool.and_eq_false_iff, decide_eq_false_iff_not] at *
  omega

theorem ne_of_isDigit {c d : Char} (h : isDigit c = true) (hd : isDigit d = false) : c ≠ d := by
  rintro rfl; simp [h] at hd

structure DigitFacts (ds : Str) : Prop where
  nosp : ' ' ∉ ds
  nodash : '-' ∉ ds
  noupper : ∀ c ∈ ds, isUpper c = false
  nolower : ∀ c ∈ ds, isLower c = false

theorem digitFacts {ds : Str} (h : ∀ c ∈ ds, isDigit c = true) : DigitFacts ds :=
  { nosp := fun hm => by have := h _ hm; revert this; decide
    nodash := fun hm => by have := h _ hm; revert this; decide
    noupper := fun c hc => isUpper_false_of_digit (h c hc)
    nolower := fun c hc => isLower_false_of_digit (h c hc) }

/-- a well-formed date, taken apart -/
theorem date_parts {d : Str} (h : isDateText d = true) :
    ∃ d1 d2 mon y1 y2 y3 y4, d = [d1, d2] ++ '-' :: (mon ++ '-' :: [y1, y2, y3, y4]) ∧ mon ∈ monthNames
      ∧ isDigit d1 = true ∧ isDigit d2 = true ∧ isDigit y1 = true ∧ isDigit y2 = true ∧ isDigit y3 = true ∧ isDigit y4 = true := by
  unfold isDateText at h
  split at h
  · rename_i d1 d2 m1 m2 m3 y1 y2 y3 y4
    simp only [Bool.and_eq_true] at h
    obtain ⟨⟨⟨⟨⟨⟨a1, a2⟩, am⟩, b1⟩, b2⟩, b3⟩, b4⟩ := h
    exact ⟨d1, d2, [m1, m2, m3], y1, y2, y3, y4, rfl, by simpa using am, a1, a2, b1, b2, b3, b4⟩
  · exact absurd h (by simp)

theorem month_facts : ∀ m ∈ monthNames, ' ' ∉ m ∧ (∀ lit ∈ lits, contains m lit = false)
    ∧ (∀ c ∈ m, isLower c = false) := by decide

/-- every character of a date is a digit, '-' or an upper-case letter -/
theorem date_chars {d : Str} (h : isDateText d = true) : ∀ c ∈ d, isLower c = false ∧ c ≠ ' ' := by
  obtain ⟨d1, d2, mon, y1, y2, y3, y4, rfl, hm, a1, a2, b1, b2, b3, b4⟩ := date_parts h
  have hsp : isDigit ' ' = false := by decide
  obtain ⟨hmon, _, hmlow⟩ := month_facts mon hm
  have dg : ∀ c, isDigit c = true → isLower c = false ∧ c ≠ ' ' :=
    fun c hc => ⟨isLower_false_of_digit hc, ne_of_isDigit hc hsp⟩
  intro c hmem
  simp only [List.mem_append, List.mem_cons, List.not_mem_nil, or_false] at hmem
  rcases hmem with (h | h) | h | h | h | h | h | h | h
  · subst h; exact dg _ a1
  · subst h; exact dg _ a2
  · subst h; decide
  · exact ⟨hmlow c h, by rintro rfl; exact hmon h⟩
  · subst h; decide
  · subst h; exact dg _ b1
  · subst h; exact dg _ b2
  · subst h; exact dg _ b3
  · subst h; exact dg _ b4

theorem date_nosp {d : Str} (h : isDateText d = true) : ' ' ∉ d := fun hm => (date_chars h _ hm).2 rfl

theorem date_head_digit {d : Str} (h : isDateText d = true) : ∃ c r, d = c :: r ∧ isDigit c = true := by
  obtain ⟨d1, d2, mon, y1, y2, y3, y4, rfl, _, a1, _⟩ := date_parts h
  exact ⟨d1, _, rfl, a1⟩

theorem date_last {d : Str} (h : isDateText d = true) : ∃ c, d.getLast? = some c ∧ isDigit c = true := by
  obtain ⟨d1, d2, mon, y1, y2, y3, y4, rfl, _, _, _, _, _, _, b4⟩ := date_parts h
  exact ⟨y4, List.getLast?_eq_some_iff.mpr ⟨[d1, d2, '-'] ++ mon ++ ['-', y1, y2, y3], by simp⟩, b4⟩

theorem date_contains_lit {d : Str} (h : isDateText d = true) (lit : Str) (hl : lit ∈ lits) : contains d lit = false := by
  obtain ⟨d1, d2, mon, y1, y2, y3, y4, rfl, hm, a1, a2, b1, b2, b3, b4⟩ := date_parts h
  obtain ⟨_, hd, hne, hup⟩ := lits_props lit hl
  rw [contains_append_sep '-' lit _ _ hd hne, contains_append_sep '-' lit _ _ hd hne, (month_facts mon hm).2.1 lit hl,
    contains_false_of_class isUpper hup, contains_false_of_class isUpper hup]
  · rfl
  · intro c hc; simp at hc; rcases hc with rfl | rfl | rfl | rfl <;> exact isUpper_false_of_digit (by assumption)
  · intro c hc; simp at hc; rcases hc with rfl | rfl <;> exact isUpper_false_of_digit (by assumption)

theorem fixed_contains : (∀ lit ∈ lits, contains c!"bp" lit = false) ∧ (∀ w ∈ lowWords, contains c!"bp" w = false) := by
  decide

theorem mol_facts (m : MolType) : ' ' ∉ m.text ∧ m.text ≠ [] ∧ m.text ∈ lits ∧ (∀ lit ∈ lits, contains m.text lit = (m.text == lit))
    ∧ (∀ w ∈ lowWords, contains m.text w = false)
    ∧ (c!"circular" == m.text) = false ∧ (c!"linear" == m.text) = false := by
  cases m <;> decide

theorem topo_facts (t : Topology) : ' ' ∉ t.text ∧ t.text ≠ [] ∧ (∀ lit ∈ lits, contains t.text lit = false)
    ∧ (∀ w ∈ lowWords, contains t.text w = false) := by
  cases t <;> decide

theorem div_facts : ∀ d ∈ divisionCodes, ' ' ∉ d ∧ d ≠ [] ∧ d ∈ lits ∧ (∀ lit ∈ lits, contains d lit = (d == lit))
    ∧ (∀ w ∈ lowWords, contains d w = false)
    ∧ (c!"circular" == d) = false ∧ (c!"linear" == d) = false := by decide

theorem divisions_same : genbankDivisions = divisionCodes := rfl

theorem isSpace_false_of_digit {c : Char} (h : isDigit c = true) : isSpace c = false := by
  simp only [isDigit, Bool.and_eq_true, decide_eq_true_eq] at h
  simp only [isSpace, Bool.or_eq_false_iff, beq_eq_false_iff_ne]
  refine ⟨⟨⟨⟨⟨?_, ?_⟩, ?_⟩, ?_⟩, ?_⟩, ?_⟩ <;> (rintro rfl; revert h; decide)

theorem ne_of_head_digit {lit ds : Str} {c : Char} {r : Str} (hd : ds = c :: r) (hc : isDigit c = true)
    (hl : ∀ x, lit.head? = some x → isDigit x = false) : (lit == ds) = false := by
  rw [beq_eq_false_iff_ne]; rintro rfl
  have := hl c (by rw [hd]; rfl); simp [hc] at this

theorem getLast?_append_ne (a b : Str) (h : b ≠ []) : (a ++ b).getLast? = b.getLast? := by
  rw [List.getLast?_append]
  cases hb : b.getLast? with
  | none => exact absurd (List.getLast?_eq_none_iff.mp hb) h
  | some x => rfl

/-- everything before the date -/
def Lpre (p0 p1 p2 p3 p4 p5 : Nat) (name len mol topo div : Str) : Str :=
  c!"LOCUS" ++ (spaces (p0 + 1) ++ (name ++ (spaces (p1 + 1) ++ (len ++ (spaces (0 + 1) ++ (c!"bp" ++ (spaces (p2 + 1)
    ++ (mol ++ (spaces (p3 + 1) ++ (topo ++ (spaces (p4 + 1) ++ (div ++ spaces (p5 + 1)))))))))))))

theorem L_eq_pre (p0 p1 p2 p3 p4 p5 : Nat) (name len mol topo div date : Str) :
    L p0 p1 p2 p3 p4 p5 name len mol topo div date = Lpre p0 p1 p2 p3 p4 p5 name len mol topo div ++ date := by
  simp only [L, Lpre, List.append_assoc]

theorem findDate_self_sp (d : Str) (h : isDateText d = true) : findDate (d ++ [' ']) = d := by
  unfold isDateText at h
  split at h
  · rename_i d1 d2 m1 m2 m3 y1 y2 y3 y4
    simp only [Bool.and_eq_true] at h
    obtain ⟨⟨⟨⟨⟨⟨a1, a2⟩, am⟩, b1⟩, b2⟩, b3⟩, b4⟩ := h
    have hm : isUpper m1 = true ∧ isUpper m2 = true ∧ isUpper m3 = true := by
      have : ∀ m ∈ monthNames, m.all isUpper = true := by decide
      have := this [m1, m2, m3] (by simpa using am)
      simpa using this
    simp [findDate, matchDate, a1, a2, b1, b2, b3, b4, hm.1, hm.2.1, hm.2.2]
  · exact absurd h (by simp)

/-- the longest molecule type that occurs, when exactly the types in `present` occur -/
theorem longestContained_congr (s : Str) (cur : Str) (l : List Str) (f : Str → Bool)
    (h : ∀ x ∈ l, contains s x = f x) :
    longestContained s cur l = l.foldl (fun cur x => if (if f x then x else []).length > cur.length then (if f x then x else []) else cur) cur := by
  induction l generalizing cur with
  | nil => rfl
  | cons x xs ih =>
    simp only [longestContained, List.foldl_cons, h x (by simp)]
    exact ih _ (fun y hy => h y (by simp [hy]))

/-- `parseLocus` recovers every field of the LOCUS line, for every locus name (a blank-free token), every
length, molecule type, topology, division, date and every choice of the six gaps -/
theorem parseLocus_locusLine (l : RLocus) (n : Nat) (ℓ : RecLayout) (h : wfLocus l = true) :
    parseLocus (locusLine l n ℓ) = .ok (toLocus l n) := by
  simp only [wfLocus, Bool.and_eq_true, decide_eq_true_eq] at h
  obtain ⟨⟨hname, hdivlt⟩, hdate⟩ := h
  rw [locusLine_eq]
  generalize ℓ.pads.getD 0 0 = p0; generalize ℓ.pads.getD 1 0 = p1; generalize ℓ.pads.getD 2 0 = p2
  generalize ℓ.pads.getD 3 0 = p3; generalize ℓ.pads.getD 4 0 = p4; generalize ℓ.pads.getD 5 0 = p5
  have hname0 : l.name ≠ [] := by
    simp only [isLocusName, Bool.and_eq_true, bne_iff_ne, ne_eq] at hname; exact hname.1
  have hname_sp : ' ' ∉ l.name := by
    simp only [isLocusName, Bool.and_eq_true, List.all_eq_true, bne_iff_ne, ne_eq] at hname
    intro hm; exact (hname.2 _ hm).2 rfl
  have hlenD := ofNat_isDigit n
  have hD := digitFacts hlenD
  have hlen0 := ofNat_ne_nil n
  have hdivmem : divisionCodes.getD l.division [] ∈ divisionCodes := by
    rw [List.getD_eq_getElem?_getD, List.getElem?_eq_getElem hdivlt]; exact List.getElem_mem _
  generalize hdv : divisionCodes.getD l.division [] = dv at *
  obtain ⟨hdiv_sp, hdiv0, hdiv_lit, hdiv_c, hdiv_low, hdiv_circ, hdiv_lin⟩ := div_facts _ hdivmem
  obtain ⟨hmol_sp, hmol0, hmol_lit, hmol_c, hmol_low, hmol_circ, hmol_lin⟩ := mol_facts l.mol
  obtain ⟨htopo_sp, htopo0, htopo_c, htopo_low⟩ := topo_facts l.topo
  have hdate_sp := date_nosp hdate
  obtain ⟨dc, dr, hdeq, hdc⟩ := date_head_digit hdate
  obtain ⟨dl, hdl, hdld⟩ := date_last hdate
  have hdate0 : l.date ≠ [] := by rw [hdeq]; simp
  obtain ⟨lc, lr, hleq⟩ : ∃ c r, ofNat n = c :: r := by
    cases hn : ofNat n with
    | nil => exact absurd hn hlen0
    | cons c r => exact ⟨c, r, rfl⟩
  have hlc : isDigit lc = true := hlenD lc (by rw [hleq]; simp)
  generalize hLx : L p0 p1 p2 p3 p4 p5 l.name (ofNat n) l.mol.text l.topo.text dv l.date = Lx
  -- (1) the line is its own TrimSpace
  have htrim : trimSpace Lx = Lx := by
    apply trimSpace_id
    · intro c hc; rw [← hLx] at hc; simp [L] at hc; subst hc; decide
    · intro c hc
      rw [← hLx, L_eq_pre, getLast?_append_ne _ _ hdate0, hdl] at hc
      cases hc; exact isSpace_false_of_digit hdld
  -- (2) the fields
  have hfields : (split Lx c!" ").filter (· ≠ []) = [c!"LOCUS", l.name, ofNat n, c!"bp", l.mol.text, l.topo.text, dv, l.date] := by
    rw [← hLx]
    exact fields_L _ _ _ _ _ _ _ _ _ _ _ _ hname_sp hD.nosp hmol_sp htopo_sp hdiv_sp hdate_sp hname0 hlen0 hmol0 htopo0 hdiv0 hdate0
  generalize hSx : S6 (ofNat n) l.mol.text l.topo.text dv l.date = Sx
  -- (3) the base-pair pattern
  have hbp : findBasePair Sx = ' ' :: ofNat n ++ [' ', 'b', 'p', ' '] := by
    rw [← hSx]
    exact findBasePair_at (ofNat n) _ 'b' 'p' hlen0 hlenD (by decide) (by decide)
  have hsplit : split (trimSpace (' ' :: ofNat n ++ [' ', 'b', 'p', ' '])) c!" " = [ofNat n, c!"bp"] := by
    have e : ' ' :: ofNat n ++ [' ', 'b', 'p', ' '] = spaces 1 ++ (ofNat n ++ c!" bp") ++ spaces 1 := by
      simp [spaces]
    rw [e, trimSpace_spaces 1 1]
    · show splitC ' ' (ofNat n ++ ' ' :: c!"bp") = _
      rw [splitC_append ' ' _ _ hD.nosp]; rfl
    · intro c hc; rw [hleq] at hc; simp at hc; subst hc; exact isSpace_false_of_digit hlc
    · intro c hc; rw [getLast?_append_ne _ _ (by simp)] at hc; simp at hc; subst hc; decide
  -- (4) literal searches
  have hcl : ∀ lit ∈ lits, contains Sx lit = (l.mol.text == lit || dv == lit) := by
    intro lit hl
    obtain ⟨hs, _, hne, hup⟩ := lits_props lit hl
    rw [← hSx, contains_S6 _ _ _ _ _ lit hs hne, fixed_contains.1 lit hl,
      contains_false_of_class isUpper hup hD.noupper, hmol_c lit hl, htopo_c lit hl, hdiv_c lit hl,
      date_contains_lit hdate lit hl]
    simp
  have hlow : ∀ w ∈ lowWords, contains Sx w = false := by
    intro w hw
    obtain ⟨hs, hne, hlo⟩ := lowWords_props w hw
    rw [← hSx, contains_S6 _ _ _ _ _ w hs hne, fixed_contains.2 w hw, contains_false_of_class isLower hlo hD.nolower,
      hmol_low w hw, htopo_low w hw, hdiv_low w hw,
      contains_false_of_class isLower hlo (fun c hc => (date_chars hdate c hc).1)]
    rfl
  have hdivision : firstContained Sx genbankDivisions = dv := by
    rw [divisions_same]
    apply firstContained_of_eq _ _ _ _ hdivmem
    intro y hy
    have hyl : y ∈ lits := by simp [lits, hy]
    rw [hcl y hyl]
    have : (l.mol.text == y) = false := by
      have : ∀ m : MolType, ∀ y ∈ divisionCodes, (m.text == y) = false := by intro m; cases m <;> decide
      exact this _ _ hy
    simp [this]
  have hmolType : longestContained Sx [] genBankMoleculeTypes = l.mol.text := by
    have hdvf : ∀ lit ∈ [c!"DNA", c!"mRNA", c!"tRNA", c!"rRNA"], (dv == lit) = false := by
      have : ∀ d ∈ divisionCodes, ∀ lit ∈ [c!"DNA", c!"mRNA", c!"tRNA", c!"rRNA"], (d == lit) = false := by decide
      exact this _ hdivmem
    have part : ∀ (w lit : Str), w ∈ lowWords → w <:+: lit → contains Sx lit = false :=
      fun w lit hw hp => contains_false_of_part hp (hlow w hw)
    rw [longestContained_congr Sx [] genBankMoleculeTypes (fun x => x == l.mol.text)]
    · cases l.mol <;> decide
    · intro x hx
      simp only [genBankMoleculeTypes, List.mem_cons, List.not_mem_nil, or_false] at hx
      have h4 : ∀ lit ∈ [c!"DNA", c!"mRNA", c!"tRNA", c!"rRNA"], contains Sx lit = (lit == l.mol.text) := by
        intro lit hl
        rw [hcl lit (by simp only [lits, List.mem_append]; exact Or.inl hl), hdvf lit hl, Bool.or_false]
        exact Bool.beq_comm
      have hm4 : ∀ m : MolType, ∀ lit ∈ [c!"genomic DNA", c!"genomic RNA", c!"other RNA", c!"other DNA",
          c!"transcribed RNA", c!"viral cRNA", c!"unassigned DNA", c!"unassigned RNA"], (lit == m.text) = false := by
        intro m; cases m <;> decide
      rcases hx with rfl | rfl | rfl | rfl | rfl | rfl | rfl | rfl | rfl | rfl | rfl | rfl
      · exact h4 _ (by decide)
      · rw [part c!"genomic" c!"genomic DNA" (by decide) ⟨[], c!" DNA", rfl⟩, hm4 _ _ (by decide)]
      · rw [part c!"genomic" c!"genomic RNA" (by decide) ⟨[], c!" RNA", rfl⟩, hm4 _ _ (by decide)]
      · exact h4 _ (by decide)
      · exact h4 _ (by decide)
      · exact h4 _ (by decide)
      · rw [part c!"other" c!"other RNA" (by decide) ⟨[], c!" RNA", rfl⟩, hm4 _ _ (by decide)]
      · rw [part c!"other" c!"other DNA" (by decide) ⟨[], c!" DNA", rfl⟩, hm4 _ _ (by decide)]
      · rw [part c!"transcribed" c!"transcribed RNA" (by decide) ⟨[], c!" RNA", rfl⟩, hm4 _ _ (by decide)]
      · rw [part c!"viral" c!"viral cRNA" (by decide) ⟨[], c!" cRNA", rfl⟩, hm4 _ _ (by decide)]
      · rw [part c!"unassigned" c!"unassigned DNA" (by decide) ⟨[], c!" DNA", rfl⟩, hm4 _ _ (by decide)]
      · rw [part c!"unassigned" c!"unassigned RNA" (by decide) ⟨[], c!" RNA", rfl⟩, hm4 _ _ (by decide)]
  have hne_len : ∀ lit : Str, (∀ x, lit.head? = some x → isDigit x = false) → (lit == ofNat n) = false :=
    fun lit hl => ne_of_head_digit hleq hlc hl
  have hne_date : ∀ lit : Str, (∀ x, lit.head? = some x → isDigit x = false) → (lit == l.date) = false :=
    fun lit hl => ne_of_head_digit hdeq hdc hl
  have hcirc : contains Sx c!" circular " = (l.topo == Topology.circular) := by
    rw [← hSx]
    have := contains_S6_tok _ _ _ _ _ hD.nosp hmol_sp htopo_sp hdiv_sp hdate_sp 'c' c!"ircular" (by decide) (by decide)
    rw [show (' ' :: 'c' :: (c!"ircular" ++ [' '])) = c!" circular " from rfl] at this
    rw [this, hne_len _ (by intro x hx; cases hx; decide), hne_date _ (by intro x hx; cases hx; decide), hmol_circ, hdiv_circ]
    cases l.topo <;> decide
  have hlin : contains Sx c!" linear " = (l.topo == Topology.linear) := by
    rw [← hSx]
    have := contains_S6_tok _ _ _ _ _ hD.nosp hmol_sp htopo_sp hdiv_sp hdate_sp 'l' c!"inear" (by decide) (by decide)
    rw [show (' ' :: 'l' :: (c!"inear" ++ [' '])) = c!" linear " from rfl] at this
    rw [this, hne_len _ (by intro x hx; cases hx; decide), hne_date _ (by intro x hx; cases hx; decide), hmol_lin, hdiv_lin]
    cases l.topo <;> decide
  -- (5) the date
  have hfd : findDate Sx = l.date := by
    have : ∃ pre, Sx = pre ++ (l.date ++ [' ']) ∧ '-' ∉ pre := by
      rw [← hSx]
      refine ⟨spaces (0 + 1) ++ (ofNat n ++ (spaces (0 + 1) ++ (c!"bp" ++ (spaces (0 + 1) ++ (l.mol.text ++ (spaces (0 + 1)
        ++ (l.topo.text ++ (spaces (0 + 1) ++ (dv ++ spaces (0 + 1)))))))))), by simp only [S6, List.append_assoc, List.append_nil]; rfl, ?_⟩
      have hmd : ∀ m : MolType, '-' ∉ m.text := by intro m; cases m <;> decide
      have htd : ∀ t : Topology, '-' ∉ t.text := by intro t; cases t <;> decide
      have hdd : ∀ d ∈ divisionCodes, '-' ∉ d := by decide
      simp only [List.mem_append, not_or, spaces, List.mem_replicate]
      simp [hD.nodash, hmd, htd, hdd _ hdivmem]
    obtain ⟨pre, hpre, hnd⟩ := this
    obtain ⟨d1, d2, mon, y1, y2, y3, y4, hd, _, a1, a2, _⟩ := date_parts hdate
    rw [hpre, findDate_skip pre _ hnd, findDate_self_sp _ hdate]
    · rw [hd]; simp; rintro rfl; revert a1; decide
    · rw [hd]; simp; rintro rfl; revert a2; decide
  -- assemble
  unfold parseLocus
  simp only [htrim, hfields]
  have hj : c!" " ++ join c!" " (List.drop 2 [c!"LOCUS", l.name, ofNat n, c!"bp", l.mol.text, l.topo.text, dv, l.date]) ++ c!" " = Sx := by
    rw [← hSx, ← S6_eq]; rfl
  simp only [List.getElem?_cons_succ, List.getElem?_cons_zero]
  rw [hj]
  simp only [hbp, hsplit, hmolType, hcirc, hlin, hdivision, hfd]
  rw [← hdv]; simp [toLocus]

end PolyVerif.Lemmas.Genbank
