import PolyVerif.Lemmas.GenbankStr
import PolyVerif.Lemmas.GenbankOrigin
/-
C01, LOCUS section: `parseLocus (locusLine l n ℓ) = toLocus l n`.
-/
set_option linter.unusedSimpArgs false
namespace PolyVerif.Lemmas.Genbank
open PolyVerif PolyVerif.Str PolyVerif.Genbank PolyVerif.GbLayout

/-- the LOCUS line, associated to the right: token, gap, token, gap, … -/
def L (p0 p1 p2 p3 p4 p5 : Nat) (name len mol topo div date : Str) : Str :=
  c!"LOCUS" ++ (spaces (p0 + 1) ++ (name ++ (spaces (p1 + 1) ++ (len ++ (spaces (0 + 1) ++ (c!"bp" ++ (spaces (p2 + 1)
    ++ (mol ++ (spaces (p3 + 1) ++ (topo ++ (spaces (p4 + 1) ++ (div ++ (spaces (p5 + 1) ++ date)))))))))))))

theorem locusLine_eq (l : RLocus) (n : Nat) (ℓ : RecLayout) :
    locusLine l n ℓ = L (ℓ.pads.getD 0 0) (ℓ.pads.getD 1 0) (ℓ.pads.getD 2 0) (ℓ.pads.getD 3 0) (ℓ.pads.getD 4 0)
      (ℓ.pads.getD 5 0) l.name (ofNat n) l.mol.text l.topo.text (divisionCodes.getD l.division []) l.date := by
  simp only [locusLine, gap, L, List.append_assoc]
  rfl

/-! ### splitting into tokens -/

theorem splitC_spaces (k : Nat) (rest : Str) :
    splitC ' ' (spaces k ++ rest) = List.replicate k [] ++ splitC ' ' rest := by
  induction k with
  | zero => rfl
  | succ j ih =>
    have : spaces (j + 1) ++ rest = ' ' :: (spaces j ++ rest) := by simp [spaces, List.replicate_succ]
    rw [this, splitC, if_pos rfl, ih, List.replicate_succ]; rfl

theorem splitC_gap (t rest : Str) (k : Nat) (ht : ' ' ∉ t) :
    splitC ' ' (t ++ (spaces (k + 1) ++ rest)) = t :: (List.replicate k [] ++ splitC ' ' rest) := by
  have : t ++ (spaces (k + 1) ++ rest) = t ++ ' ' :: (spaces k ++ rest) := by simp [spaces, List.replicate_succ]
  rw [this, splitC_append ' ' t _ ht, splitC_spaces]

theorem filter_ne_nil_replicate (k : Nat) (xs : List Str) :
    (List.replicate k ([] : Str) ++ xs).filter (· ≠ []) = xs.filter (· ≠ []) := by
  induction k with
  | zero => rfl
  | succ j ih => simp [List.replicate_succ, ih]

/-- the second blank-separated non-empty field of `tok gap tok gap rest` -/
theorem second_field (t1 t2 rest : Str) (k1 k2 : Nat) (h1 : ' ' ∉ t1) (h2 : ' ' ∉ t2) (n1 : t1 ≠ []) (n2 : t2 ≠ []) :
    ((splitC ' ' (t1 ++ (spaces (k1 + 1) ++ (t2 ++ (spaces (k2 + 1) ++ rest))))).filter (· ≠ []))[1]? = some t2 := by
  rw [splitC_gap t1 _ k1 h1, splitC_gap t2 _ k2 h2]
  rw [List.filter_cons_of_pos (by simpa using n1), filter_ne_nil_replicate, List.filter_cons_of_pos (by simpa using n2)]
  rfl

/-! ### ` \d+ \w{2} ` -/

theorem matchBasePair_none_of_head {c : Char} {s : Str} (h : c ≠ ' ') : matchBasePair (c :: s) = none := by
  unfold matchBasePair
  split
  · rename_i heq; simp at heq; exact absurd heq.1 h
  · rfl

theorem matchBasePair_none_of_second {s : Str} (h : ∀ d, s.head? = some d → isDigit d = false) :
    matchBasePair (' ' :: s) = none := by
  cases s with
  | nil => simp [matchBasePair]
  | cons d ds =>
    have hd := h d rfl
    simp [matchBasePair, List.takeWhile, hd]

theorem findBasePair_skip_token (t R : Str) (ht : ' ' ∉ t) : findBasePair (t ++ R) = findBasePair R := by
  induction t with
  | nil => rfl
  | cons y ys ih =>
    have hy : y ≠ ' ' := fun e => ht (by simp [e])
    simp only [List.cons_append, findBasePair, matchBasePair_none_of_head hy]
    exact ih (fun e => ht (by simp [e]))

/-- blanks followed by something that does not start with a digit -/
theorem findBasePair_skip_spaces (k : Nat) (R : Str) (h : ∀ d, R.head? = some d → isDigit d = false) :
    findBasePair (spaces k ++ R) = findBasePair R := by
  induction k with
  | zero => rfl
  | succ j ih =>
    have e : spaces (j + 1) ++ R = ' ' :: (spaces j ++ R) := by simp [spaces, List.replicate_succ]
    rw [e, findBasePair, matchBasePair_none_of_second, ih]
    intro d hd
    cases j with
    | zero => exact h d hd
    | succ i =>
      simp [spaces, List.replicate_succ] at hd
      subst hd; decide

theorem takeWhile_digits (ds rest : Str) (h : ∀ c ∈ ds, isDigit c = true) (hr : ∀ d, rest.head? = some d → isDigit d = false) :
    (ds ++ rest).takeWhile isDigit = ds ∧ (ds ++ rest).dropWhile isDigit = rest := by
  induction ds with
  | nil =>
    cases rest with
    | nil => simp
    | cons d r => simp [List.takeWhile, List.dropWhile, hr d rfl]
  | cons x xs ih =>
    have hx := h x (by simp)
    have := ih (fun c hc => h c (by simp [hc]))
    simp [List.takeWhile, List.dropWhile, hx, this.1, this.2]

/-- the match at the length field -/
theorem findBasePair_at (ds post : Str) (a b : Char) (hne : ds ≠ []) (h : ∀ c ∈ ds, isDigit c = true)
    (ha : isWord a = true) (hb : isWord b = true) :
    findBasePair (' ' :: (ds ++ (' ' :: a :: b :: ' ' :: post))) = ' ' :: ds ++ [' ', a, b, ' '] := by
  have hsp : isDigit ' ' = false := by decide
  obtain ⟨h1, h2⟩ := takeWhile_digits ds (' ' :: a :: b :: ' ' :: post) h (by intro d hd; simp at hd; subst hd; exact hsp)
  simp only [findBasePair, matchBasePair, h1, h2, hne, if_false, ha, hb, Bool.and_self, if_true]

/-! ### the date -/

theorem matchDate_false {s : Str} (h : s[2]? ≠ some '-') : matchDate s = false := by
  unfold matchDate
  split
  · rename_i d1 d2 h1 m1 m2 m3 h2 y1 y2 y3 y4 r
    simp at h
    simp [h]
  · rfl

theorem findDate_skip (pre date : Str) (hp : '-' ∉ pre) (h0 : date[0]? ≠ some '-') (h1 : date[1]? ≠ some '-') :
    findDate (pre ++ date) = findDate date := by
  induction pre with
  | nil => rfl
  | cons c cs ih =>
    have hcs : '-' ∉ cs := fun e => hp (by simp [e])
    simp only [List.cons_append, findDate]
    rw [matchDate_false, if_neg (by simp), ih hcs]
    match cs, hcs with
    | [], _ => simpa using h1
    | [x], _ => simpa using h0
    | x :: y :: r, hcs =>
      have : y ≠ '-' := fun e => hcs (by simp [e])
      simpa using this

theorem findDate_self (d : Str) (h : isDateText d = true) : findDate d = d := by
  unfold isDateText at h
  split at h
  · rename_i d1 d2 m1 m2 m3 y1 y2 y3 y4
    simp only [Bool.and_eq_true] at h
    obtain ⟨⟨⟨⟨⟨⟨a1, a2⟩, am⟩, b1⟩, b2⟩, b3⟩, b4⟩ := h
    have hm : isUpper m1 = true ∧ isUpper m2 = true ∧ isUpper m3 = true := by
      have : ∀ m ∈ monthNames, m.all isUpper = true := by decide
      have := this [m1, m2, m3] (by simpa using am)
      simpa using this
    simp [findDate, matchDate, a1, a2, b1, b2, b3, b4, hm.1, hm.2.1, hm.2.2]
  · exact absurd h (by simp)

/-! ### literal searches on the LOCUS line -/

theorem spaces_succ_append (k : Nat) (x : Str) : spaces (k + 1) ++ x = ' ' :: (spaces k ++ x) := by
  simp [spaces, List.replicate_succ]

section
variable (p0 p1 p2 p3 p4 p5 : Nat) (name len mol topo div date : Str)

/-- a blank-free pattern lies inside one token -/
theorem contains_L (lit : Str) (h : ' ' ∉ lit) (hne : lit ≠ []) :
    contains (L p0 p1 p2 p3 p4 p5 name len mol topo div date) lit =
      (contains c!"LOCUS" lit || (contains name lit || (contains len lit || (contains c!"bp" lit || (contains mol lit
        || (contains topo lit || (contains div lit || contains date lit))))))) := by
  simp only [L, contains_gap _ _ _ _ h hne]

variable (hname : ' ' ∉ name) (hlen : ' ' ∉ len) (hmol : ' ' ∉ mol) (htopo : ' ' ∉ topo) (hdiv : ' ' ∉ div)
  (hdate : ' ' ∉ date)
include hname hlen hmol htopo hdiv hdate

/-- blank + blank-free pattern `v`: `v` starts a token other than the first -/
theorem contains_L_sp (c : Char) (w : Str) (hc : c ≠ ' ') (hw : ' ' ∉ w) :
    contains (L p0 p1 p2 p3 p4 p5 name len mol topo div date) (' ' :: c :: w) =
      ((c :: w).isPrefixOf name || ((c :: w).isPrefixOf len || ((c :: w).isPrefixOf c!"bp" || ((c :: w).isPrefixOf mol
        || ((c :: w).isPrefixOf topo || ((c :: w).isPrefixOf div || (c :: w).isPrefixOf date)))))) := by
  have hv : ' ' ∉ c :: w := by simp [Ne.symm hc, hw]
  have hL : ' ' ∉ c!"LOCUS" := by decide
  have hbp : ' ' ∉ c!"bp" := by decide
  have hlast : contains date (' ' :: c :: w) = false :=
    contains_false_of_class (· == ' ') ⟨' ', by simp, by simp⟩ (by intro x hx; simp; rintro rfl; exact hdate hx)
  simp only [L]
  rw [contains_gap_sp w _ _ c p0 hc hL, contains_gap_sp w _ _ c p1 hc hname, contains_gap_sp w _ _ c 0 hc hlen,
    contains_gap_sp w _ _ c p2 hc hbp, contains_gap_sp w _ _ c p3 hc hmol, contains_gap_sp w _ _ c p4 hc htopo,
    contains_gap_sp w _ _ c p5 hc hdiv, hlast]
  simp only [spaces_succ_append, isPrefixOf_append_sep ' ' (c :: w) _ _ hv, Bool.or_false, Bool.or_assoc]

/-- blank + blank-free `u` + blank: `u` is one of the tokens between the first and the last -/
theorem contains_L_sp_tok (c : Char) (u : Str) (hc : c ≠ ' ') (hu : ' ' ∉ u) :
    contains (L p0 p1 p2 p3 p4 p5 name len mol topo div date) (' ' :: c :: (u ++ [' '])) =
      ((c :: u) == name || ((c :: u) == len || ((c :: u) == c!"bp" || ((c :: u) == mol
        || ((c :: u) == topo || (c :: u) == div))))) := by
  have hv : ' ' ∉ c :: u := by simp [Ne.symm hc, hu]
  have hL : ' ' ∉ c!"LOCUS" := by decide
  have hbp : ' ' ∉ c!"bp" := by decide
  have hlast : contains date (' ' :: c :: (u ++ [' '])) = false :=
    contains_false_of_class (· == ' ') ⟨' ', by simp, by simp⟩ (by intro x hx; simp; rintro rfl; exact hdate hx)
  have hlast2 : (c :: (u ++ [' '])).isPrefixOf date = false :=
    isPrefixOf_false_of_mem ' ' _ _ (by simp) hdate
  simp only [L]
  rw [contains_gap_sp _ _ _ c p0 hc hL, contains_gap_sp _ _ _ c p1 hc hname, contains_gap_sp _ _ _ c 0 hc hlen,
    contains_gap_sp _ _ _ c p2 hc hbp, contains_gap_sp _ _ _ c p3 hc hmol, contains_gap_sp _ _ _ c p4 hc htopo,
    contains_gap_sp _ _ _ c p5 hc hdiv, hlast, hlast2]
  have key : ∀ (t rest : Str), ' ' ∉ t → (c :: (u ++ [' '])).isPrefixOf (t ++ ' ' :: rest) = ((c :: u) == t) :=
    fun t rest ht => isPrefixOf_token (c :: u) t rest hv ht
  simp only [spaces_succ_append, key _ _ hname, key _ _ hlen, key _ _ hbp, key _ _ hmol, key _ _ htopo, key _ _ hdiv,
    Bool.or_false, Bool.or_assoc]

end

/-! ### facts about the tokens -/

theorem firstContained_of_eq (s x : Str) (l : List Str) (h : ∀ y ∈ l, contains s y = (x == y)) (hx : x ∈ l) :
    firstContained s l = x := by
  induction l with
  | nil => simp at hx
  | cons y ys ih =>
    simp only [firstContained, h y (by simp)]
    by_cases e : x = y
    · subst e; simp
    · have : (x == y) = false := by simpa using e
      simp only [this]
      exact ih (fun z hz => h z (by simp [hz])) (by simpa [e] using hx)

/-- the blank-free literals searched in the LOCUS line -/
def lits : List Str := [c!"DNA", c!"mRNA", c!"tRNA", c!"rRNA"] ++ divisionCodes

theorem lits_props : ∀ lit ∈ lits, ' ' ∉ lit ∧ '-' ∉ lit ∧ lit ≠ [] ∧ (∃ c ∈ lit, isUpper c = true) := by decide

theorem isUpper_false_of_nameChar {c : Char} (h : isNameChar c = true) : isUpper c = false := by
  simp only [isNameChar, isLower, isDigit, isUpper, Bool.or_eq_true, Bool.and_eq_true, decide_eq_true_eq, beq_iff_eq,
    Bool.and_eq_false_iff, decide_eq_false_iff_not] at *
  rcases h with (h | h) | h
  · omega
  · omega
  · subst h; decide

theorem isUpper_false_of_digit {c : Char} (h : isDigit c = true) : isUpper c = false := by
  simp only [isDigit, isUpper, Bool.and_eq_true, decide_eq_true_eq, Bool.and_eq_false_iff, decide_eq_false_iff_not] at *
  omega

theorem ne_of_isDigit {c d : Char} (h : isDigit c = true) (hd : isDigit d = false) : c ≠ d := by
  rintro rfl; simp [h] at hd

structure NameFacts (name : Str) : Prop where
  ne : name ≠ []
  nosp : ' ' ∉ name
  nodash : '-' ∉ name
  noupper : ∀ c ∈ name, isUpper c = false
  head_lower : ∀ c, name.head? = some c → isLower c = true

theorem nameFacts {name : Str} (h : isLocusName name = true) : NameFacts name := by
  cases name with
  | nil => simp [isLocusName] at h
  | cons c cs =>
    simp only [isLocusName, Bool.and_eq_true, List.all_eq_true] at h
    obtain ⟨hc, hall⟩ := h
    have hsp : isNameChar ' ' = false := by decide
    have hdash : isNameChar '-' = false := by decide
    exact { ne := by simp
            nosp := fun hm => by have := hall _ hm; simp [hsp] at this
            nodash := fun hm => by have := hall _ hm; simp [hdash] at this
            noupper := fun x hx => isUpper_false_of_nameChar (hall x hx)
            head_lower := fun x hx => by simp at hx; subst hx; exact hc }

structure DigitFacts (ds : Str) : Prop where
  nosp : ' ' ∉ ds
  nodash : '-' ∉ ds
  noupper : ∀ c ∈ ds, isUpper c = false

theorem digitFacts {ds : Str} (h : ∀ c ∈ ds, isDigit c = true) : DigitFacts ds :=
  { nosp := fun hm => by have := h _ hm; revert this; decide
    nodash := fun hm => by have := h _ hm; revert this; decide
    noupper := fun c hc => isUpper_false_of_digit (h c hc) }

/-- a well-formed date, taken apart -/
theorem date_parts {d : Str} (h : isDateText d = true) :
    ∃ d1 d2 mon y1 y2 y3 y4, d = [d1, d2] ++ '-' :: (mon ++ '-' :: [y1, y2, y3, y4]) ∧ mon ∈ monthNames
      ∧ isDigit d1 = true ∧ isDigit d2 = true ∧ isDigit y1 = true ∧ isDigit y2 = true ∧ isDigit y3 = true ∧ isDigit y4 = true := by
  unfold isDateText at h
  split at h
  · rename_i d1 d2 m1 m2 m3 y1 y2 y3 y4
    simp only [Bool.and_eq_true] at h
    obtain ⟨⟨⟨⟨⟨⟨a1, a2⟩, am⟩, b1⟩, b2⟩, b3⟩, b4⟩ := h
    exact ⟨d1, d2, [m1, m2, m3], y1, y2, y3, y4, rfl, by simpa using am, a1, a2, b1, b2, b3, b4⟩
  · exact absurd h (by simp)

theorem month_facts : ∀ m ∈ monthNames, ' ' ∉ m ∧ (∀ lit ∈ lits, contains m lit = false) := by decide

theorem date_nosp {d : Str} (h : isDateText d = true) : ' ' ∉ d := by
  obtain ⟨d1, d2, mon, y1, y2, y3, y4, rfl, hm, a1, a2, b1, b2, b3, b4⟩ := date_parts h
  have hsp : isDigit ' ' = false := by decide
  have hmon := (month_facts mon hm).1
  intro hmem
  simp only [List.mem_append, List.mem_cons, List.not_mem_nil, or_false] at hmem
  rcases hmem with (h | h) | h | h | h | h | h | h | h
  · exact ne_of_isDigit a1 hsp h.symm
  · exact ne_of_isDigit a2 hsp h.symm
  · exact absurd h (by decide)
  · exact hmon h
  · exact absurd h (by decide)
  · exact ne_of_isDigit b1 hsp h.symm
  · exact ne_of_isDigit b2 hsp h.symm
  · exact ne_of_isDigit b3 hsp h.symm
  · exact ne_of_isDigit b4 hsp h.symm

theorem date_head_digit {d : Str} (h : isDateText d = true) : ∃ c r, d = c :: r ∧ isDigit c = true := by
  obtain ⟨d1, d2, mon, y1, y2, y3, y4, rfl, _, a1, _⟩ := date_parts h
  exact ⟨d1, _, rfl, a1⟩

theorem date_last {d : Str} (h : isDateText d = true) : ∃ c, d.getLast? = some c ∧ isDigit c = true := by
  obtain ⟨d1, d2, mon, y1, y2, y3, y4, rfl, _, _, _, _, _, _, b4⟩ := date_parts h
  exact ⟨y4, List.getLast?_eq_some_iff.mpr ⟨[d1, d2, '-'] ++ mon ++ ['-', y1, y2, y3], by simp⟩, b4⟩

theorem date_contains_lit {d : Str} (h : isDateText d = true) (lit : Str) (hl : lit ∈ lits) : contains d lit = false := by
  obtain ⟨d1, d2, mon, y1, y2, y3, y4, rfl, hm, a1, a2, b1, b2, b3, b4⟩ := date_parts h
  obtain ⟨_, hd, hne, hup⟩ := lits_props lit hl
  rw [contains_append_sep '-' lit _ _ hd hne, contains_append_sep '-' lit _ _ hd hne, (month_facts mon hm).2 lit hl,
    contains_false_of_class isUpper hup, contains_false_of_class isUpper hup]
  · rfl
  · intro c hc; simp at hc; rcases hc with rfl | rfl | rfl | rfl <;> exact isUpper_false_of_digit (by assumption)
  · intro c hc; simp at hc; rcases hc with rfl | rfl <;> exact isUpper_false_of_digit (by assumption)

theorem fixed_contains_lit : ∀ lit ∈ lits, contains c!"LOCUS" lit = false ∧ contains c!"bp" lit = false
    ∧ contains c!"circular" lit = false ∧ contains c!"linear" lit = false := by decide

theorem mol_facts (m : MolType) : ' ' ∉ m.text ∧ m.text ∈ lits ∧ (∀ lit ∈ lits, contains m.text lit = (m.text == lit))
    ∧ (c!"RNA").isPrefixOf m.text = false ∧ (c!"circular" == m.text) = false ∧ (c!"linear" == m.text) = false := by
  cases m <;> decide

theorem topo_facts (t : Topology) : ' ' ∉ t.text ∧ (∀ lit ∈ lits, contains t.text lit = false)
    ∧ (c!"RNA").isPrefixOf t.text = false := by
  cases t <;> decide

theorem div_facts : ∀ d ∈ divisionCodes, ' ' ∉ d ∧ d ∈ lits ∧ (∀ lit ∈ lits, contains d lit = (d == lit))
    ∧ (c!"RNA").isPrefixOf d = false ∧ (c!"circular" == d) = false ∧ (c!"linear" == d) = false := by decide

theorem divisions_same : genbankDivisions = divisionCodes := rfl

theorem spaces_succ_append' (k : Nat) (x : Str) : spaces (k + 1) ++ x = spaces k ++ ' ' :: x := by
  induction k with
  | zero => rfl
  | succ j ih => rw [spaces_succ_append, ih, spaces_succ_append]

theorem isSpace_false_of_digit {c : Char} (h : isDigit c = true) : isSpace c = false := by
  simp only [isDigit, Bool.and_eq_true, decide_eq_true_eq] at h
  simp only [isSpace, Bool.or_eq_false_iff, beq_eq_false_iff_ne]
  refine ⟨⟨⟨⟨⟨?_, ?_⟩, ?_⟩, ?_⟩, ?_⟩, ?_⟩ <;> (rintro rfl; revert h; decide)

theorem ne_of_digits_letter {ds lit : Str} (h : ∀ c ∈ ds, isDigit c = true) (hl : ∃ c ∈ lit, isDigit c = false) :
    (lit == ds) = false := by
  obtain ⟨c, hc, hd⟩ := hl
  rw [beq_eq_false_iff_ne]; rintro rfl
  simp [h c hc] at hd

theorem getLast?_append_ne (a b : Str) (h : b ≠ []) : (a ++ b).getLast? = b.getLast? := by
  rw [List.getLast?_append]
  cases hb : b.getLast? with
  | none => exact absurd (List.getLast?_eq_none_iff.mp hb) h
  | some x => rfl

/-- everything before the date -/
def Lpre (p0 p1 p2 p3 p4 p5 : Nat) (name len mol topo div : Str) : Str :=
  c!"LOCUS" ++ (spaces (p0 + 1) ++ (name ++ (spaces (p1 + 1) ++ (len ++ (spaces (0 + 1) ++ (c!"bp" ++ (spaces (p2 + 1)
    ++ (mol ++ (spaces (p3 + 1) ++ (topo ++ (spaces (p4 + 1) ++ (div ++ spaces (p5 + 1)))))))))))))

theorem L_eq_pre (p0 p1 p2 p3 p4 p5 : Nat) (name len mol topo div date : Str) :
    L p0 p1 p2 p3 p4 p5 name len mol topo div date = Lpre p0 p1 p2 p3 p4 p5 name len mol topo div ++ date := by
  simp only [L, Lpre, List.append_assoc]

/-- `parseLocus` recovers every field of the LOCUS line, for every length, molecule type, topology,
division, date and every choice of the six gaps — unless the locus is called `linear`/`circular` and
has the other topology -/
theorem parseLocus_locusLine (l : RLocus) (n : Nat) (ℓ : RecLayout) (h : wfLocus l = true)
    (ht : nameTopoTrapL l = false) : parseLocus (locusLine l n ℓ) = .ok (toLocus l n) := by
  simp only [wfLocus, Bool.and_eq_true, decide_eq_true_eq] at h
  obtain ⟨⟨hname, hdivlt⟩, hdate⟩ := h
  rw [locusLine_eq]
  generalize ℓ.pads.getD 0 0 = p0; generalize ℓ.pads.getD 1 0 = p1; generalize ℓ.pads.getD 2 0 = p2
  generalize ℓ.pads.getD 3 0 = p3; generalize ℓ.pads.getD 4 0 = p4; generalize ℓ.pads.getD 5 0 = p5
  have hN := nameFacts hname
  have hlenD := ofNat_isDigit n
  have hD := digitFacts hlenD
  have hlen0 := ofNat_ne_nil n
  have hdivmem : divisionCodes.getD l.division [] ∈ divisionCodes := by
    rw [List.getD_eq_getElem?_getD, List.getElem?_eq_getElem hdivlt]; exact List.getElem_mem _
  obtain ⟨hdiv_sp, hdiv_lit, hdiv_c, hdiv_rna, hdiv_circ, hdiv_lin⟩ := div_facts _ hdivmem
  obtain ⟨hmol_sp, hmol_lit, hmol_c, hmol_rna, hmol_circ, hmol_lin⟩ := mol_facts l.mol
  obtain ⟨htopo_sp, htopo_c, htopo_rna⟩ := topo_facts l.topo
  have hdate_sp := date_nosp hdate
  obtain ⟨dc, dr, hdeq, hdc⟩ := date_head_digit hdate
  obtain ⟨dl, hdl, hdld⟩ := date_last hdate
  obtain ⟨nc, nr, hneq⟩ : ∃ c r, l.name = c :: r := by
    cases hn : l.name with
    | nil => exact absurd hn hN.ne
    | cons c r => exact ⟨c, r, rfl⟩
  have hnc : isLower nc = true := hN.head_lower nc (by rw [hneq]; rfl)
  obtain ⟨lc, lr, hleq⟩ : ∃ c r, ofNat n = c :: r := by
    cases hn : ofNat n with
    | nil => exact absurd hn hlen0
    | cons c r => exact ⟨c, r, rfl⟩
  have hlc : isDigit lc = true := hlenD lc (by rw [hleq]; simp)
  generalize hLx : L p0 p1 p2 p3 p4 p5 l.name (ofNat n) l.mol.text l.topo.text (divisionCodes.getD l.division []) l.date = Lx
  -- (1) the line is its own TrimSpace
  have htrim : trimSpace Lx = Lx := by
    apply trimSpace_id
    · intro c hc; rw [← hLx] at hc; simp [L] at hc; subst hc; decide
    · intro c hc
      rw [← hLx, L_eq_pre, getLast?_append_ne _ _ (by rw [hdeq]; simp), hdl] at hc
      cases hc; exact isSpace_false_of_digit hdld
  -- (2) the name
  have hname2 : ((split Lx c!" ").filter (· ≠ []))[1]? = some l.name := by
    rw [← hLx]; exact second_field _ _ _ _ _ (by decide) hN.nosp (by decide) hN.ne
  -- (3) the base-pair pattern
  have hbp : findBasePair Lx = ' ' :: ofNat n ++ [' ', 'b', 'p', ' '] := by
    rw [← hLx]; simp only [L]
    rw [findBasePair_skip_token _ _ (by decide), findBasePair_skip_spaces _ _ (by
          intro d hd; rw [hneq] at hd; simp at hd; subst hd
          simp only [isLower, isDigit, Bool.and_eq_true, decide_eq_true_eq, Bool.and_eq_false_iff, decide_eq_false_iff_not] at *; omega),
      findBasePair_skip_token _ _ hN.nosp, spaces_succ_append',
      findBasePair_skip_spaces _ _ (by intro d hd; simp at hd; subst hd; decide)]
    exact findBasePair_at (ofNat n) _ 'b' 'p' hlen0 hlenD (by decide) (by decide)
  have hsplit : split (trimSpace (' ' :: ofNat n ++ [' ', 'b', 'p', ' '])) c!" " = [ofNat n, c!"bp"] := by
    have e : ' ' :: ofNat n ++ [' ', 'b', 'p', ' '] = spaces 1 ++ (ofNat n ++ c!" bp") ++ spaces 1 := by
      simp [spaces]
    rw [e, trimSpace_spaces 1 1]
    · show splitC ' ' (ofNat n ++ ' ' :: c!"bp") = _
      rw [splitC_append ' ' _ _ hD.nosp]; rfl
    · intro c hc; rw [hleq] at hc; simp at hc; subst hc; exact isSpace_false_of_digit hlc
    · intro c hc; rw [getLast?_append_ne _ _ (by simp)] at hc; simp at hc; subst hc; decide
  -- (4) literal searches
  have hcl : ∀ lit ∈ lits, contains Lx lit = (l.mol.text == lit || divisionCodes.getD l.division [] == lit) := by
    intro lit hl
    obtain ⟨hs, _, hne, hup⟩ := lits_props lit hl
    obtain ⟨f1, f2, _, _⟩ := fixed_contains_lit lit hl
    rw [← hLx, contains_L _ _ _ _ _ _ _ _ _ _ _ _ lit hs hne, f1, f2, contains_false_of_class isUpper hup hN.noupper,
      contains_false_of_class isUpper hup hD.noupper, hmol_c lit hl, htopo_c lit hl, hdiv_c lit hl,
      date_contains_lit hdate lit hl]
    simp
  have hdivision : firstContained Lx genbankDivisions = divisionCodes.getD l.division [] := by
    rw [divisions_same]
    apply firstContained_of_eq _ _ _ _ hdivmem
    intro y hy
    have hyl : y ∈ lits := by simp [lits, hy]
    rw [hcl y hyl]
    have : (l.mol.text == y) = false := by
      have : ∀ m : MolType, ∀ y ∈ divisionCodes, (m.text == y) = false := by intro m; cases m <;> decide
      exact this _ _ hy
    simp [this]
  have hRNA : contains Lx c!" RNA" = false := by
    rw [← hLx, contains_L_sp _ _ _ _ _ _ _ _ _ _ _ _ hN.nosp hD.nosp hmol_sp htopo_sp hdiv_sp hdate_sp 'R' c!"NA" (by decide) (by decide),
      hmol_rna, htopo_rna, hdiv_rna, hneq, hleq, hdeq]
    have e1 : nc ≠ 'R' := by rintro rfl; revert hnc; decide
    have e2 : lc ≠ 'R' := by rintro rfl; revert hlc; decide
    have e3 : dc ≠ 'R' := by rintro rfl; revert hdc; decide
    simp [List.isPrefixOf, Ne.symm e1, Ne.symm e2, Ne.symm e3]
  have hmolType : firstContained Lx genBankMoleculeTypes = l.mol.text := by
    have hDNA := hcl c!"DNA" (by decide)
    have hm := hcl c!"mRNA" (by decide)
    have htr := hcl c!"tRNA" (by decide)
    have hr := hcl c!"rRNA" (by decide)
    have hdv : ∀ lit ∈ [c!"DNA", c!"mRNA", c!"tRNA", c!"rRNA"], (divisionCodes.getD l.division [] == lit) = false := by
      have : ∀ d ∈ divisionCodes, ∀ lit ∈ [c!"DNA", c!"mRNA", c!"tRNA", c!"rRNA"], (d == lit) = false := by decide
      exact this _ hdivmem
    rw [hdv _ (by decide)] at hDNA hm htr hr
    have hgR : contains Lx c!"genomic RNA" = false :=
      contains_false_of_part (part := c!" RNA") ⟨c!"genomic", [], rfl⟩ hRNA
    cases hmol : l.mol <;> rw [hmol] at hDNA hm htr hr <;> simp only [MolType.text] at hDNA hm htr hr ⊢
    · simp only [genBankMoleculeTypes, firstContained, hDNA]; rfl
    all_goals
      have hgD : contains Lx c!"genomic DNA" = false :=
        contains_false_of_part (part := c!"DNA") ⟨c!"genomic ", [], rfl⟩ (by rw [hDNA]; rfl)
      simp only [genBankMoleculeTypes, firstContained, hDNA, hm, htr, hr, hgD, hgR]
      rfl
  have hne_len : ∀ lit : Str, (∃ c ∈ lit, isDigit c = false) → (lit == ofNat n) = false :=
    fun lit hl => ne_of_digits_letter hlenD hl
  have hcirc : contains Lx c!" circular " = (l.topo == Topology.circular) := by
    rw [← hLx]
    have := contains_L_sp_tok p0 p1 p2 p3 p4 p5 _ _ _ _ _ _ hN.nosp hD.nosp hmol_sp htopo_sp hdiv_sp hdate_sp 'c' c!"ircular" (by decide) (by decide)
    rw [show (' ' :: 'c' :: (c!"ircular" ++ [' '])) = c!" circular " from rfl] at this
    rw [this, hne_len _ ⟨'c', by simp, by decide⟩, hmol_circ, hdiv_circ]
    simp only [nameTopoTrapL, Bool.or_eq_false_iff, Bool.and_eq_false_iff] at ht
    cases htp : l.topo <;> simp only [htp, Topology.text] at ht ⊢
    · simp
    · have : (c!"circular" == l.name) = false := by
        rcases ht.2 with h | h
        · rw [beq_eq_false_iff_ne] at h ⊢; exact fun e => h e.symm
        · simp at h
      simp [this]
  have hlin : contains Lx c!" linear " = (l.topo == Topology.linear) := by
    rw [← hLx]
    have := contains_L_sp_tok p0 p1 p2 p3 p4 p5 _ _ _ _ _ _ hN.nosp hD.nosp hmol_sp htopo_sp hdiv_sp hdate_sp 'l' c!"inear" (by decide) (by decide)
    rw [show (' ' :: 'l' :: (c!"inear" ++ [' '])) = c!" linear " from rfl] at this
    rw [this, hne_len _ ⟨'l', by simp, by decide⟩, hmol_lin, hdiv_lin]
    simp only [nameTopoTrapL, Bool.or_eq_false_iff, Bool.and_eq_false_iff] at ht
    cases htp : l.topo <;> simp only [htp, Topology.text] at ht ⊢
    · have : (c!"linear" == l.name) = false := by
        rcases ht.1 with h | h
        · rw [beq_eq_false_iff_ne] at h ⊢; exact fun e => h e.symm
        · simp at h
      simp [this]
    · simp
  -- (5) the date
  have hfd : findDate Lx = l.date := by
    have : ∃ pre, Lx = pre ++ l.date ∧ '-' ∉ pre := by
      rw [← hLx]
      refine ⟨_, L_eq_pre _ _ _ _ _ _ _ _ _ _ _ _, ?_⟩
      have hmd : ∀ m : MolType, '-' ∉ m.text := by intro m; cases m <;> decide
      have htd : ∀ t : Topology, '-' ∉ t.text := by intro t; cases t <;> decide
      have hdd : ∀ d ∈ divisionCodes, '-' ∉ d := by decide
      simp only [Lpre, List.mem_append, not_or, spaces, List.mem_replicate]
      simp [hN.nodash, hD.nodash, hmd, htd, hdd _ hdivmem, -List.getD_eq_getElem?_getD]
    obtain ⟨pre, hpre, hnd⟩ := this
    obtain ⟨d1, d2, mon, y1, y2, y3, y4, hd, _, a1, a2, _⟩ := date_parts hdate
    rw [hpre, findDate_skip pre _ hnd, findDate_self _ hdate]
    · rw [hd]; simp; rintro rfl; revert a1; decide
    · rw [hd]; simp; rintro rfl; revert a2; decide
  -- assemble
  unfold parseLocus
  simp only [htrim, hname2, hbp, hsplit, hmolType, hcirc, hlin, hdivision, hfd]
  simp [toLocus]

end PolyVerif.Lemmas.Genbank
