import PolyVerif.Lemmas.XmlCut
import PolyVerif.Lemmas.UniprotDoc
/-
A document of Spec/UniprotDoc cut at any byte offset before the end of its root element: the reader of
Spec/XmlScan always reports it (`scanDoc_cut_not_clean`), and the complete entries it has seen by then are
the first entries of the document (`scanDoc_cut_entries`).
-/
namespace PolyVerif.Spec.UniprotSpec
open PolyVerif PolyVerif.Uniprot PolyVerif.Spec.XmlScan

/-! ### the token sequence of a document is balanced -/

/-- never closes more than was opened, and ends at the depth it started from -/
def Balanced (ts : List Tok) : Prop := depthAfter 0 ts = some 0

instance (ts : List Tok) : Decidable (Balanced ts) := by unfold Balanced; infer_instance

theorem depthAfter_balanced {ts : List Tok} (h : Balanced ts) (d : Nat) : depthAfter d ts = some d := by
  simpa using depthAfter_shift ts 0 0 d h

theorem balanced_append {a b : List Tok} (ha : Balanced a) (hb : Balanced b) : Balanced (a ++ b) := by
  unfold Balanced
  rw [depthAfter_append, ha]; exact hb

theorem balanced_wrap {x : List Tok} (hx : Balanced x) (n m : Str) (as : List (Str × Str)) :
    Balanced (.start n as false :: (x ++ [.close m])) := by
  unfold Balanced
  simp only [depthAfter, tokDepth, Option.bind_some, depthAfter_append, depthAfter_balanced hx 1]
  rfl

theorem balanced_nl : Balanced [nl] := by decide

theorem balanced_elemToks (tag : String) (text : Str) : Balanced (elemToks tag text) := by
  unfold Balanced elemToks
  by_cases h : text.isEmpty = true <;> simp [h, depthAfter, tokDepth, nl]

theorem balanced_flatMap {α : Type} (f : α → List Tok) (hf : ∀ x, Balanced (f x)) : ∀ (xs : List α), Balanced (xs.flatMap f)
  | [] => rfl
  | x :: xs => by simpa [List.flatMap_cons] using balanced_append (hf x) (balanced_flatMap f hf xs)

theorem balanced_entryToks (d : DocEntry) : Balanced (entryToks d) := by
  have hinner : Balanced (nl :: (d.accessions.flatMap (elemToks "accession") ++ d.names.flatMap (elemToks "name") ++
      (if d.extra then extraToks else []) ++
      .start (s "sequence") (seqAttrs d) false :: (if d.seq.isEmpty then [] else [.chars d.seq]) ++
      [.close (s "sequence"), nl])) := by
    have hseq : Balanced (.start (s "sequence") (seqAttrs d) false :: (if d.seq.isEmpty then [] else [.chars d.seq]) ++
        [.close (s "sequence"), nl]) := by
      unfold Balanced
      by_cases h : d.seq.isEmpty = true <;> simp [h, depthAfter, tokDepth, nl]
    have hextra : Balanced (if d.extra then extraToks else []) := by
      cases d.extra
      · rfl
      · exact (by decide : Balanced extraToks)
    have := balanced_append balanced_nl (balanced_append (balanced_append (balanced_append
      (balanced_flatMap _ (balanced_elemToks "accession") d.accessions)
      (balanced_flatMap _ (balanced_elemToks "name") d.names)) hextra) hseq)
    simpa using this
  have := balanced_wrap hinner (s "entry") (s "entry") (entryAttrs d.attrs)
  have he : entryToks d = .start (s "entry") (entryAttrs d.attrs) false ::
      ((nl :: (d.accessions.flatMap (elemToks "accession") ++ d.names.flatMap (elemToks "name") ++
        (if d.extra then extraToks else []) ++
        .start (s "sequence") (seqAttrs d) false :: (if d.seq.isEmpty then [] else [.chars d.seq]) ++
        [.close (s "sequence"), nl])) ++ [.close (s "entry")]) := by
    simp [entryToks, entryBodyToks]
  rw [he]; exact this

theorem balanced_filler (n : Nat) : Balanced (fillerToks n) := by
  match n with
  | 0 => decide
  | 1 => decide
  | 2 => decide
  | 3 => decide
  | 4 => decide
  | _ + 5 => rfl

theorem balanced_entriesToks (ds : List DocEntry) : Balanced (entriesToks ds) :=
  balanced_flatMap _ (fun d => balanced_append (balanced_entryToks d) (balanced_filler d.filler)) ds

/-! ### the end of a trace -/

theorem finish_lexErr (st : St) : (finish st true).fin = .err := by
  unfold finish; split
  · rfl
  · split <;> simp

theorem finish_eof {st : St} (h : (finish st false).fin = .eof) : st.dead = false ∧ st.ent = none ∧ st.stack = [] := by
  unfold finish at h
  split at h
  · cases h
  · rename_i hd
    split at h
    · cases h
    · rename_i hent
      refine ⟨by simpa using hd, hent, ?_⟩
      cases hs : st.stack with
      | nil => rfl
      | cons a b => simp [hs] at h

theorem not_clean_of_err {t : Trace} (h : t.fin = .err) : ¬ Clean t := fun hc => by rw [hc.1] at h; cases h

/-- a state of positive depth does not end a well-formed document -/
theorem finish_deep (st : St) (h : 1 ≤ depth st) : (finish st false).fin = .err := by
  cases hf : (finish st false).fin with
  | err => rfl
  | eof =>
    obtain ⟨_, hent, hstack⟩ := finish_eof hf
    simp [depth, hent, hstack] at h

/-! ### tokens that are neither start nor end tags -/

def isQuiet : Tok → Bool
  | .pi _ => true
  | .comment _ => true
  | .chars _ => true
  | _ => false

theorem run_quiet : ∀ (ts : List Tok) (evs : List Ev), (∀ t ∈ ts, isQuiet t = true) → (∀ e ∈ evs, isStartEv e = false) →
    ∃ evs', run (atTop false [] evs) ts = atTop false [] evs' ∧ ∀ e ∈ evs', isStartEv e = false
  | [], evs, _, he => ⟨evs, rfl, he⟩
  | t :: ts, evs, h, he => by
    have hq := h t (by simp)
    have hstep : step (atTop false [] evs) t = atTop false [] (.other :: evs) := by
      cases t <;> simp_all [isQuiet, step, atTop]
    rw [run_cons, hstep]
    exact run_quiet ts _ (fun x hx => h x (by simp [hx])) (by
      intro e hm; rcases List.mem_cons.mp hm with rfl | hm
      · rfl
      · exact he e hm)

theorem prolog_quiet (n : Nat) : ∀ t ∈ prologToks n, isQuiet t = true := by
  match n with
  | 0 => simp [prologToks]
  | 1 => decide
  | _ + 2 => exact (by decide : ∀ t ∈ prologToks 2, isQuiet t = true)

theorem depthAfter_quiet : ∀ (ts : List Tok) (d : Nat), (∀ t ∈ ts, isQuiet t = true) → depthAfter d ts = some d
  | [], _, _ => rfl
  | t :: ts, d, h => by
    have hq := h t (by simp)
    have : tokDepth d t = some d := by cases t <;> simp_all [isQuiet, tokDepth]
    simp only [depthAfter, this, Option.bind_some]
    exact depthAfter_quiet ts d (fun x hx => h x (by simp [hx]))

/-! ### prefixes of well-formed token sequences -/

theorem wfToks_prefix : ∀ (a b : List Tok), WFToks (a ++ b) → WFToks a
  | [], _, _ => trivial
  | [t], b, h => ⟨h.1, by simp, trivial⟩
  | t :: t' :: a, b, h => ⟨h.1, by simpa using h.2.1, wfToks_prefix (t' :: a) b h.2.2⟩

theorem wfToks_suffix : ∀ (a b : List Tok), WFToks (a ++ b) → WFToks b
  | [], _, h => h
  | _ :: a, b, h => wfToks_suffix a b h.2.2

/-- in a well-formed sequence character data is followed by markup -/
theorem wfToks_boundary : ∀ (a : List Tok) (t : Tok) (b : List Tok), WFToks (a ++ t :: b) →
    ∀ x ∈ a.getLast?, isChars x = true → isChars t = false
  | [], _, _, _ => by simp
  | [x], t, b, h => by
    intro y hy hc
    simp at hy; subst hy
    exact h.2.1 hc t (by simp)
  | x :: x' :: a, t, b, h => by
    intro y hy hc
    exact wfToks_boundary (x' :: a) t b h.2.2 y (by simpa [List.getLast?_cons_cons] using hy) hc

/-! ### the document cut inside its root element -/

/-- the tokens of a document up to (excluding) the end tag of its root element -/
def bodyToks (prolog : Nat) (ds : List DocEntry) : List Tok := prologToks prolog ++ (rootOpenToks ++ entriesToks ds)

/-- … and including it: the document without a trailing newline -/
def closedToks (prolog : Nat) (ds : List DocEntry) : List Tok := bodyToks prolog ds ++ [.close (s "uniprot")]

theorem wfToks_closedToks (prolog : Nat) (ds : List DocEntry) (h : ∀ e ∈ ds, WFDocEntry e) :
    WFToks (closedToks prolog ds) := by
  have hent := wfToks_entries ds [.close (s "uniprot")] h (by decide) (by decide)
  unfold closedToks bodyToks
  simp only [List.append_assoc]
  exact wfToks_head prolog _ hent.1 hent.2

/-- what the lexer makes of the beginning `p` of a token's text when the input ends there: an error, or
(character data) tokens that are neither start nor end tags -/
theorem lexFuel_cut (t : Tok) (p q : Str) (f : Nat) (hw : WFTok t) (h : p ++ q = renderTok t) (hq : q ≠ [])
    (hf : p.length + 1 ≤ f) :
    lexFuel f p = ([], true) ∨ ∀ x ∈ (lexFuel f p).1, isQuiet x = true := by
  by_cases hp : p = []
  · subst hp
    right
    cases f with
    | zero => simp at hf
    | succ f => simp [lexFuel, nextTok]
  · have hlen : 0 < p.length := List.length_pos_iff.mpr hp
    obtain ⟨f1, rfl⟩ : ∃ f1, f = f1 + 1 := ⟨f - 1, by omega⟩
    by_cases hm : isChars t = true
    · cases t with
      | chars x =>
        rcases nextTok_cut_chars x p q hw h hp with he | hc
        · left; rw [lexFuel, he]
        · right
          obtain ⟨f2, rfl⟩ : ∃ f2, f1 = f2 + 1 := ⟨f1 - 1, by omega⟩
          have h2 : lexFuel (f2 + 1) [] = ([], false) := by simp [lexFuel, nextTok]
          have h3 : lexFuel (f2 + 1 + 1) p = ([.chars p], false) := by
            rw [lexFuel, hc]; simp only [h2]
          rw [h3]
          simp [isQuiet]
      | pi _ => cases hm
      | comment _ => cases hm
      | start _ _ _ => cases hm
      | close _ => cases hm
    · left
      have := nextTok_cut_markup t p q hw (by simpa using hm) h hp hq
      rw [lexFuel, this]

/-- THE DOCUMENT CUT ANYWHERE BEFORE THE END OF ITS ROOT ELEMENT IS NOT A WELL-FORMED DOCUMENT FOR THE READER:
the trace ends with an error, or (cut before the root element) has no element at all -/
theorem scan_cut_not_clean (prolog : Nat) (ds : List DocEntry) (hwf : ∀ e ∈ ds, WFDocEntry e) (n : Nat)
    (hn : n < (renderToks (closedToks prolog ds)).length) :
    ¬ Clean (scanDoc ((renderToks (closedToks prolog ds)).take n)) := by
  obtain ⟨A, t, B, p, q, hts, hr, hq, htake⟩ := take_renderToks _ n hn
  have hw := wfToks_closedToks prolog ds hwf
  rw [hts] at hw
  have hwA := wfToks_prefix A (t :: B) hw
  have hwt : WFTok t := (wfToks_suffix A (t :: B) hw).1
  have hend : EndOk A p := by
    intro x hx hc
    obtain ⟨r, hr'⟩ := renderTok_markup (wfToks_boundary A t B hw x hx hc)
    rw [hr'] at hr
    cases p with
    | nil => exact .inl rfl
    | cons c p' =>
      simp only [List.cons_append, List.cons.injEq] at hr
      right; simp [← hr.1]
  -- the tokens of the cut text
  have hlex := lexFuel_render' A p ((renderToks A ++ p).length + 1) hwA hend (by
    have := renderToks_length A hwA; simp only [List.length_append]; omega)
  have hcut := lexFuel_cut t p q ((renderToks A ++ p).length + 1 - A.length) hwt hr.symm hq (by
    have := renderToks_length A hwA; simp only [List.length_append]; omega)
  rw [htake]
  intro hclean
  have hfin := hclean.1
  unfold scanDoc lexAll at hfin hclean
  rw [hlex] at hfin hclean
  simp only [scanToks] at hfin hclean
  generalize hT : (lexFuel ((renderToks A ++ p).length + 1 - A.length) p).1 = tl at hcut hfin hclean
  generalize hE : (lexFuel ((renderToks A ++ p).length + 1 - A.length) p).2 = e at hcut hfin hclean
  rcases hcut with he | hquiet
  · rw [he] at hT hE; subst hE; rw [finish_lexErr] at hfin; cases hfin
  · cases e with
    | true => rw [finish_lexErr] at hfin; cases hfin
    | false =>
      obtain ⟨hdead, hent, hstack⟩ := finish_eof hfin
      -- where does A end?
      have hbody : ∃ x, bodyToks prolog ds = A ++ x := by
        have : A ++ t :: B = bodyToks prolog ds ++ [.close (s "uniprot")] := hts.symm
        rcases List.append_eq_append_iff.mp this with ⟨a', hb, _⟩ | ⟨c', hA, hc⟩
        · exact ⟨a', hb⟩
        · have : c' = [] := by
            cases c' with
            | nil => rfl
            | cons y c' => have := congrArg List.length hc; simp at this
          subst this
          exact ⟨[], by simpa using hA.symm⟩
      obtain ⟨x, hx⟩ := hbody
      unfold bodyToks at hx
      rcases List.append_eq_append_iff.mp hx.symm with ⟨y, hpro, _⟩ | ⟨a2, hA, hR⟩
      · -- the cut lies in the prolog: no element has been seen
        have hq1 : ∀ u ∈ A ++ tl, isQuiet u = true := by
          intro u hu
          rcases List.mem_append.mp hu with hu | hu
          · exact prolog_quiet prolog u (by rw [hpro]; exact List.mem_append_left _ hu)
          · exact hquiet u hu
        obtain ⟨evs', hrun, hno⟩ := run_quiet (A ++ tl) [] hq1 (by simp)
        have h3 := hclean.2.2
        rw [show St.init = atTop false [] [] from rfl, hrun] at h3
        simp only [finish, atTop, Bool.false_eq_true, if_false, List.isEmpty_nil, Bool.not_true, Bool.or_self,
          List.any_reverse, List.any_eq_true] at h3
        obtain ⟨ev, hev, hs⟩ := h3
        rw [hno ev hev] at hs; cases hs
      · cases a2 with
        | nil =>
          -- exactly the prolog
          simp only [List.append_nil] at hA
          have hq1 : ∀ u ∈ A ++ tl, isQuiet u = true := by
            intro u hu
            rcases List.mem_append.mp hu with hu | hu
            · exact prolog_quiet prolog u (by rw [← hA]; exact hu)
            · exact hquiet u hu
          obtain ⟨evs', hrun, hno⟩ := run_quiet (A ++ tl) [] hq1 (by simp)
          have h3 := hclean.2.2
          rw [show St.init = atTop false [] [] from rfl, hrun] at h3
          simp only [finish, atTop, Bool.false_eq_true, if_false, List.isEmpty_nil, Bool.not_true, Bool.or_self,
            List.any_reverse, List.any_eq_true] at h3
          obtain ⟨ev, hev, hs⟩ := h3
          rw [hno ev hev] at hs; cases hs
        | cons r0 a3 =>
          -- the root element is open: the depth is at least one
          simp only [rootOpenToks, List.cons_append, List.nil_append, List.cons.injEq] at hR
          obtain ⟨hr0, hY⟩ := hR
          have hbal : Balanced (nl :: entriesToks ds) := by
            have := balanced_append balanced_nl (balanced_entriesToks ds); simpa using this
          obtain ⟨m', hm'⟩ := depthAfter_prefix a3 x 0 0 (by rw [← hY]; exact hbal)
          have hd := run_depth (A ++ tl) St.init hdead
          have hdepth0 : depth (run St.init (A ++ tl)) = 0 := by simp [depth, hent, hstack]
          rw [hdepth0, hA, ← hr0] at hd
          simp only [List.append_assoc, List.cons_append, depthAfter_append, depth, St.init, List.length_nil,
            depthAfter_quiet _ _ (prolog_quiet prolog), Option.bind_some, depthAfter, tokDepth,
            depthAfter_shift a3 0 m' 1 hm', depthAfter_quiet tl _ hquiet] at hd
          simp at hd

/-! ### the complete entries seen before the cut -/

/-- the entries that were decoded completely -/
def completeOf : List Ev → List Entry
  | [] => []
  | .entry e :: r => e :: completeOf r
  | _ :: r => completeOf r

theorem completeOf_append (a b : List Ev) : completeOf (a ++ b) = completeOf a ++ completeOf b := by
  induction a with
  | nil => rfl
  | cons ev a ih => cases ev <;> simp [completeOf, ih]

theorem completeOf_bodyEvs (ds : List DocEntry) : completeOf (bodyEvs ds) = ds.map DocEntry.toEntry := by
  have hf : ∀ n, completeOf (fillerEvs n) = [] := by
    intro n
    match n with
    | 0 => rfl
    | 1 => rfl
    | 2 => rfl
    | 3 => rfl
    | 4 => rfl
    | _ + 5 => rfl
  induction ds with
  | nil => rfl
  | cons d ds ih => simp [bodyEvs, List.flatMap_cons, completeOf, completeOf_append, hf] at ih ⊢; exact ih

/-- a token that is neither a start nor an end tag completes no entry -/
theorem step_quiet_complete (st : St) (t : Tok) (hq : isQuiet t = true) :
    completeOf (step st t).evs.reverse = completeOf st.evs.reverse := by
  unfold step
  split
  · rfl
  · split
    · rename_i es _
      cases t with
      | pi b => rfl
      | comment b => rfl
      | chars x => simp only [stepEntry]; split <;> rfl
      | start _ _ _ => cases hq
      | close _ => cases hq
    · cases t with
      | pi b => simp [completeOf_append, completeOf]
      | comment b => simp [completeOf_append, completeOf]
      | chars x => simp [completeOf_append, completeOf]
      | start _ _ _ => cases hq
      | close _ => cases hq

theorem run_quiet_complete : ∀ (ts : List Tok) (st : St), (∀ t ∈ ts, isQuiet t = true) →
    completeOf (run st ts).evs.reverse = completeOf st.evs.reverse
  | [], _, _ => rfl
  | t :: ts, st, h => by
    rw [run_cons, run_quiet_complete ts _ (fun x hx => h x (by simp [hx])), step_quiet_complete st t (h t (by simp))]

theorem finish_complete (st : St) (e : Bool) : completeOf (finish st e).evs = completeOf st.evs.reverse := by
  unfold finish
  split
  · rfl
  · split
    · simp [completeOf_append, completeOf]
    · rfl

/-- the events of the reader on the whole (closed) document -/
theorem run_closedToks (prolog : Nat) (ds : List DocEntry) :
    (run St.init (closedToks prolog ds)).evs.reverse = prologEvs prolog ++ [.start, .other] ++ bodyEvs ds ++ [.other] := by
  unfold closedToks bodyToks
  simp only [List.append_assoc]
  rw [run_prolog, run_rootOpen, run_entriesToks _ _ _ _ _ (fun _ => rfl)]
  simp [run_cons, run_nil, atTop, step]

/-- the complete entries the reader has seen in a document cut before the end of its root element are the
first entries of the document, in order, with their accessions, names and sequence texts -/
theorem scan_cut_entries (prolog : Nat) (ds : List DocEntry) (hwf : ∀ e ∈ ds, WFDocEntry e) (n : Nat)
    (hn : n < (renderToks (closedToks prolog ds)).length) :
    completeOf (scanDoc ((renderToks (closedToks prolog ds)).take n)).evs <+: ds.map DocEntry.toEntry := by
  obtain ⟨A, t, B, p, q, hts, hr, hq, htake⟩ := take_renderToks _ n hn
  have hw := wfToks_closedToks prolog ds hwf
  rw [hts] at hw
  have hwA := wfToks_prefix A (t :: B) hw
  have hwt : WFTok t := (wfToks_suffix A (t :: B) hw).1
  have hend : EndOk A p := by
    intro x hx hc
    obtain ⟨r, hr'⟩ := renderTok_markup (wfToks_boundary A t B hw x hx hc)
    rw [hr'] at hr
    cases p with
    | nil => exact .inl rfl
    | cons c p' =>
      simp only [List.cons_append, List.cons.injEq] at hr
      right; simp [← hr.1]
  have hlex := lexFuel_render' A p ((renderToks A ++ p).length + 1) hwA hend (by
    have := renderToks_length A hwA; simp only [List.length_append]; omega)
  have hcut := lexFuel_cut t p q ((renderToks A ++ p).length + 1 - A.length) hwt hr.symm hq (by
    have := renderToks_length A hwA; simp only [List.length_append]; omega)
  have htl : ∀ x ∈ (lexFuel ((renderToks A ++ p).length + 1 - A.length) p).1, isQuiet x = true := by
    rcases hcut with he | hquiet
    · rw [he]; simp
    · exact hquiet
  rw [htake]
  unfold scanDoc lexAll
  rw [hlex]
  simp only [scanToks]
  rw [finish_complete, run_append, run_quiet_complete _ _ htl]
  -- the events after A are the first events of the whole document
  obtain ⟨more, hmore⟩ := run_evs (t :: B) (run St.init A)
  have hfull := run_closedToks prolog ds
  rw [hts, run_append, hmore, List.reverse_append] at hfull
  have hpre : (run St.init A).evs.reverse <+: prologEvs prolog ++ [.start, .other] ++ bodyEvs ds ++ [.other] :=
    ⟨more.reverse, hfull⟩
  obtain ⟨rest, hrest⟩ := hpre
  have hc := congrArg completeOf hrest
  have hp0 : completeOf (prologEvs prolog) = [] := by
    match prolog with
    | 0 => rfl
    | 1 => rfl
    | _ + 2 => rfl
  simp only [completeOf_append, hp0, completeOf_bodyEvs, completeOf, List.nil_append, List.append_nil] at hc
  exact ⟨completeOf rest, hc⟩

end PolyVerif.Spec.UniprotSpec
