import PolyVerif.Lemmas.NcbiRowDefs
namespace PolyVerif.CodonTranslate
/-- decided on the regenerated tables: NCBI's residue = the compiled Translate's answer = the model's lookup, 64 codons per table -/
theorem rows_ok_b : ∀ id ∈ [6, 9, 10, 11, 12], rowOk id = true := by decide +kernel
end PolyVerif.CodonTranslate
