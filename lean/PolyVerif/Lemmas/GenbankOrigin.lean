import PolyVerif.Model.Genbank
import PolyVerif.Spec.GbLayout
/-
Helper lemmas for C01, ORIGIN section: decimal digits are digits, chunks concatenate back, and the
letters of a laid-out sequence line are the letters that were put in.
-/
namespace PolyVerif.Lemmas.Genbank
open PolyVerif PolyVerif.Str PolyVerif.Genbank PolyVerif.GbLayout

theorem digitChar_isDigit (d : Nat) (h : d < 10) : isDigit (digitChar d) = true := by
  match d, h with
  | 0, _ => rfl | 1, _ => rfl | 2, _ => rfl | 3, _ => rfl | 4, _ => rfl
  | 5, _ => rfl | 6, _ => rfl | 7, _ => rfl | 8, _ => rfl | 9, _ => rfl
  | n + 10, h => exact absurd h (by omega)

theorem digitsF_isDigit (f n : Nat) : ∀ c ∈ digitsF f n, isDigit c = true := by
  induction f generalizing n with
  | zero => intro c hc; simp [digitsF] at hc
  | succ k ih =>
    intro c hc
    simp only [digitsF] at hc
    split at hc
    · rename_i h
      simp at hc; subst hc; exact digitChar_isDigit n h
    · simp only [List.mem_append, List.mem_singleton] at hc
      rcases hc with hc | hc
      · exact ih _ c hc
      · subst hc; exact digitChar_isDigit _ (Nat.mod_lt _ (by omega))

theorem ofNat_isDigit (n : Nat) : ∀ c ∈ ofNat n, isDigit c = true := digitsF_isDigit _ _

theorem digitsF_ne_nil (f n : Nat) : digitsF (f + 1) n ≠ [] := by
  simp only [digitsF]; split <;> simp

theorem ofNat_ne_nil (n : Nat) : ofNat n ≠ [] := digitsF_ne_nil _ _

theorem isLetter_of_isDigit {c : Char} (h : isDigit c = true) : isLetter c = false := by
  simp only [isDigit, isLetter, isUpper, isLower, Bool.and_eq_true, decide_eq_true_eq, Bool.or_eq_false_iff,
    Bool.and_eq_false_iff, decide_eq_false_iff_not] at *
  omega

theorem filter_isLetter_of_digits (s : Str) (h : ∀ c ∈ s, isDigit c = true) : s.filter isLetter = [] := by
  rw [List.filter_eq_nil_iff]
  intro c hc
  simp [isLetter_of_isDigit (h c hc)]

theorem filter_all {α : Type} (p : α → Bool) (s : List α) (h : s.all p = true) : s.filter p = s := by
  rw [List.filter_eq_self]; simpa using h

/-! chunks -/

theorem chunk_flatten (n : Nat) : ∀ (f : Nat) (s : Str), s.length ≤ f → (chunk n f s).flatten = s := by
  intro f
  induction f with
  | zero => intro s h; have : s = [] := List.eq_nil_of_length_eq_zero (by omega); subst this; rfl
  | succ k ih =>
    intro s h
    simp only [chunk]
    split
    · rename_i hs; simp [hs]
    · rw [List.flatten_cons, ih _ (by simp; omega), List.take_append_drop]

theorem chunks_flatten (n : Nat) (s : Str) : (chunks n s).flatten = s := chunk_flatten n _ s (Nat.le_refl _)

theorem chunk_all (n : Nat) (p : Char → Bool) : ∀ (f : Nat) (s : Str), s.all p = true → ∀ l ∈ chunk n f s, l.all p = true := by
  intro f
  induction f with
  | zero => intro s _ l hl; simp [chunk] at hl
  | succ k ih =>
    intro s hs l hl
    simp only [chunk] at hl
    split at hl
    · simp at hl
    · simp only [List.mem_cons] at hl
      rcases hl with hl | hl
      · subst hl
        rw [List.all_eq_true] at hs ⊢
        intro c hc; exact hs c (List.mem_of_mem_take hc)
      · refine ih _ ?_ l hl
        rw [List.all_eq_true] at hs ⊢
        intro c hc; exact hs c (List.mem_of_mem_drop hc)

theorem chunks_all (n : Nat) (p : Char → Bool) (s : Str) (h : s.all p = true) : ∀ l ∈ chunks n s, l.all p = true :=
  chunk_all n p _ s h

/-! one sequence line -/

theorem filter_blocks (ls : List Str) (h : ∀ l ∈ ls, l.all isLetter = true) :
    ((ls.map (' ' :: ·)).flatten).filter isLetter = ls.flatten := by
  induction ls with
  | nil => rfl
  | cons l rest ih =>
    have hb : isLetter ' ' = false := by decide
    simp only [List.map_cons, List.flatten_cons, List.cons_append, List.filter_cons, hb, List.filter_append]
    rw [ih (fun x hx => h x (by simp [hx])), filter_all isLetter l (h l (by simp))]
    rfl

theorem filter_originLine (bl start : Nat) (letters : Str) (h : letters.all isLetter = true) :
    (originLine bl start letters).filter isLetter = letters := by
  simp only [originLine, padLeft, List.filter_append]
  rw [filter_spaces isLetter (by decide), filter_isLetter_of_digits _ (ofNat_isDigit _),
    filter_blocks _ (chunks_all bl isLetter _ h), chunks_flatten]
  rfl

theorem filter_originLinesAux (bl ll : Nat) (ls : List Str) (h : ∀ l ∈ ls, l.all isLetter = true) (start : Nat) :
    ((originLinesAux bl ll start ls).flatten).filter isLetter = ls.flatten := by
  induction ls generalizing start with
  | nil => rfl
  | cons l rest ih =>
    simp only [originLinesAux, List.flatten_cons, List.filter_append]
    rw [filter_originLine bl start l (h l (by simp)), ih (fun x hx => h x (by simp [hx]))]

/-- the letters of the laid-out sequence block are the sequence -/
theorem filter_originLines (seq : Str) (bl pl : Nat) (h : seq.all isLetter = true) :
    ((originLines seq bl pl).flatten).filter isLetter = seq := by
  simp only [originLines]
  rw [filter_originLinesAux _ _ _ (chunks_all _ isLetter _ h), chunks_flatten]

end PolyVerif.Lemmas.Genbank
