import Mathlib.Tactic.Linarith
import Mathlib.Tactic.Ring
import Mathlib.Tactic.FieldSimp
import Mathlib.Tactic.Positivity
import Mathlib.Tactic.NormNum
import PolyVerif.Model.CodonOps
/- Helper lemmas for C18's float64 bridge: `rne` (IEEE binary64 round-to-nearest-even over Nat, Model/CodonOps.lean)
   is within a relative 2⁻⁵³ of its argument. -/
namespace PolyVerif.Lemmas.CodonF64
open PolyVerif.CodonTables

/-- the rounding step: nearest integer to n/d -/
def nearest (n d : Nat) : Nat :=
  let m := n / d
  let r := n % d
  if 2 * r > d then m + 1 else if 2 * r = d then (if m % 2 = 0 then m else m + 1) else m

theorem nearest_err (n d : Nat) (hd : 0 < d) : |((nearest n d : ℚ)) - (n : ℚ) / d| ≤ 1 / 2 := by
  have hdq : (0 : ℚ) < d := by exact_mod_cast hd
  have hn : (n : ℚ) = (d : ℚ) * ((n / d : Nat) : ℚ) + ((n % d : Nat) : ℚ) := by exact_mod_cast (Nat.div_add_mod n d).symm
  have hr : ((n % d : Nat) : ℚ) < d := by exact_mod_cast Nat.mod_lt n hd
  have hr0 : (0 : ℚ) ≤ ((n % d : Nat) : ℚ) := by positivity
  have hq : (n : ℚ) / d = ((n / d : Nat) : ℚ) + ((n % d : Nat) : ℚ) / d := by
    rw [hn]; field_simp
  have hρ1 : ((n % d : Nat) : ℚ) / d < 1 := by rw [div_lt_one hdq]; exact hr
  have hρ0 : (0 : ℚ) ≤ ((n % d : Nat) : ℚ) / d := by positivity
  rw [hq, abs_le]
  unfold nearest
  simp only []
  split_ifs with h1 h2 h3
  · have : (1 : ℚ) / 2 < ((n % d : Nat) : ℚ) / d := by
      rw [lt_div_iff₀ hdq]; have : (d : ℚ) < 2 * ((n % d : Nat) : ℚ) := by exact_mod_cast h1
      linarith
    push_cast; constructor <;> linarith
  · have : ((n % d : Nat) : ℚ) / d = 1 / 2 := by
      rw [div_eq_iff hdq.ne']; have : 2 * ((n % d : Nat) : ℚ) = d := by exact_mod_cast h2
      linarith
    push_cast; constructor <;> linarith
  · have : ((n % d : Nat) : ℚ) / d = 1 / 2 := by
      rw [div_eq_iff hdq.ne']; have : 2 * ((n % d : Nat) : ℚ) = d := by exact_mod_cast h2
      linarith
    push_cast; constructor <;> linarith
  · have : ((n % d : Nat) : ℚ) / d < 1 / 2 := by
      rw [div_lt_iff₀ hdq]
      have h1' : 2 * (n % d) ≤ d := Nat.le_of_not_gt h1
      have h2' : 2 * (n % d) < d := lt_of_le_of_ne h1' h2
      have : 2 * ((n % d : Nat) : ℚ) < d := by exact_mod_cast h2'
      linarith
    push_cast; constructor <;> linarith

def flOf (p q : Nat) : Int :=
  let k : Int := (Nat.log2 p : Int) - (Nat.log2 q : Int)
  if geTwoPow p q k then k else k - 1

theorem rne_eq (p q : Nat) (hp : p ≠ 0) (hq : q ≠ 0) :
    rne p q = (if flOf p q - 52 ≥ 0 then (nearest p (q * 2 ^ (flOf p q - 52).toNat) * 2 ^ (flOf p q - 52).toNat, 1)
               else (nearest (p * 2 ^ (-(flOf p q - 52)).toNat) q, 2 ^ (-(flOf p q - 52)).toNat)) := by
  unfold rne flOf nearest
  simp only [hp, hq, or_self, if_false]
  split_ifs <;> rfl

/-- `x = p/q ≥ 2^fl` in the integer form `geTwoPow` uses -/
theorem geTwoPow_flOf (p q : Nat) (hp : p ≠ 0) (_hq : q ≠ 0) : geTwoPow p q (flOf p q) = true := by
  unfold flOf
  simp only []
  split_ifs with h
  · exact h
  · -- k - 1 with k = log2 p - log2 q : p ≥ 2^lp, q < 2^(lq+1)
    have h1 : 2 ^ Nat.log2 p ≤ p := Nat.log2_self_le hp
    have h2 : q < 2 ^ (Nat.log2 q + 1) := Nat.lt_log2_self
    generalize Nat.log2 p = a at *
    generalize Nat.log2 q = b at *
    unfold geTwoPow
    split_ifs with hk
    · -- a - b - 1 ≥ 0 : q * 2^(a-b-1) < 2^(b+1) * 2^(a-b-1) = 2^a ≤ p
      have e : ((a : Int) - b - 1).toNat = a - b - 1 := by omega
      have hab : b + 1 + (a - b - 1) = a := by omega
      rw [e, decide_eq_true_eq]
      calc q * 2 ^ (a - b - 1) ≤ 2 ^ (b + 1) * 2 ^ (a - b - 1) := Nat.mul_le_mul_right _ (Nat.le_of_lt h2)
        _ = 2 ^ a := by rw [← pow_add, hab]
        _ ≤ p := h1
    · have e : (-((a : Int) - b - 1)).toNat = b + 1 - a := by omega
      have hab : a + (b + 1 - a) = b + 1 := by omega
      rw [e, decide_eq_true_eq]
      calc q ≤ 2 ^ (b + 1) := Nat.le_of_lt h2
        _ = 2 ^ a * 2 ^ (b + 1 - a) := by rw [← pow_add, hab]
        _ ≤ p * 2 ^ (b + 1 - a) := Nat.mul_le_mul_right _ h1

theorem err_scale (N y s : ℚ) (hy : (2 : ℚ) ^ 52 ≤ y) (h : |N - y| ≤ 1 / 2) (hs : 0 < s) :
    |N * s - y * s| ≤ (y * s) / 2 ^ 53 := by
  have : N * s - y * s = (N - y) * s := by ring
  rw [this, abs_mul, abs_of_pos hs]
  have h53 : (2 : ℚ) ^ 53 = 2 * 2 ^ 52 := by norm_num
  rw [le_div_iff₀ (by positivity), h53]
  have h0 : 0 ≤ |N - y| := abs_nonneg _
  nlinarith [mul_le_mul_of_nonneg_right h (le_of_lt hs), mul_le_mul_of_nonneg_right hy (le_of_lt hs)]

/-- value of a fraction pair -/
def val (r : Nat × Nat) : ℚ := (r.1 : ℚ) / (r.2 : ℚ)

/-- RELATIVE ERROR of `rne`: the binary64 value nearest to p/q is within p/q · 2⁻⁵³ of it -/
theorem rne_rel_err (p q : Nat) (hp : p ≠ 0) (hq : q ≠ 0) :
    0 < (rne p q).2 ∧ |val (rne p q) - (p : ℚ) / q| ≤ ((p : ℚ) / q) / 2 ^ 53 := by
  have G := geTwoPow_flOf p q hp hq
  have hqpos : (0 : ℚ) < q := by exact_mod_cast Nat.pos_of_ne_zero hq
  have hppos : (0 : ℚ) < p := by exact_mod_cast Nat.pos_of_ne_zero hp
  rw [rne_eq p q hp hq]
  generalize flOf p q = fl at *
  unfold geTwoPow at G
  split_ifs with he
  · -- e ≥ 0 : fl ≥ 52
    have hfl : fl ≥ 0 := by omega
    simp only [hfl, if_true, decide_eq_true_eq] at G
    obtain ⟨a, rfl⟩ : ∃ a : Nat, fl = (a : Int) + 52 := ⟨(fl - 52).toNat, by omega⟩
    have e1 : ((a : Int) + 52 - 52).toNat = a := by omega
    have e2 : ((a : Int) + 52).toNat = a + 52 := by omega
    rw [e1]; rw [e2] at G
    refine ⟨Nat.one_pos, ?_⟩
    set s : ℚ := (2 : ℚ) ^ a with hs
    have hspos : 0 < s := by positivity
    have hd : 0 < q * 2 ^ a := Nat.mul_pos (Nat.pos_of_ne_zero hq) (by positivity)
    have hN := nearest_err p (q * 2 ^ a) hd
    have hy : (2 : ℚ) ^ 52 ≤ (p : ℚ) / ((q * 2 ^ a : Nat) : ℚ) := by
      rw [le_div_iff₀ (by exact_mod_cast hd)]
      have : ((q * 2 ^ (a + 52) : Nat) : ℚ) ≤ p := by exact_mod_cast G
      push_cast at this ⊢
      rw [pow_add] at this
      linarith
    have := err_scale _ _ s hy hN hspos
    have hv : val (nearest p (q * 2 ^ a) * 2 ^ a, 1) = (nearest p (q * 2 ^ a) : ℚ) * s := by
      simp [val, hs]
    have hx : (p : ℚ) / ((q * 2 ^ a : Nat) : ℚ) * s = (p : ℚ) / q := by
      push_cast; rw [hs]; field_simp
    rw [hv, ← hx]
    exact this
  · -- e < 0
    have he' : fl - 52 < 0 := by omega
    refine ⟨by positivity, ?_⟩
    obtain ⟨b, hb⟩ : ∃ b : Nat, (-(fl - 52)).toNat = b := ⟨_, rfl⟩
    rw [hb]
    have hspos : (0 : ℚ) < (2 : ℚ) ^ b := by positivity
    have hd : 0 < q := Nat.pos_of_ne_zero hq
    have hN := nearest_err (p * 2 ^ b) q hd
    have hy : (2 : ℚ) ^ 52 ≤ ((p * 2 ^ b : Nat) : ℚ) / (q : ℚ) := by
      rw [le_div_iff₀ hqpos]
      by_cases hfl : fl ≥ 0
      · simp only [hfl, if_true, decide_eq_true_eq] at G
        obtain ⟨c, rfl⟩ : ∃ c : Nat, fl = (c : Int) := ⟨fl.toNat, by omega⟩
        have e2 : ((c : Int)).toNat = c := by omega
        rw [e2] at G
        have hbc : b + c = 52 := by omega
        have : ((q * 2 ^ c : Nat) : ℚ) ≤ p := by exact_mod_cast G
        push_cast at this ⊢
        have h52 : (2 : ℚ) ^ 52 = 2 ^ b * 2 ^ c := by rw [← pow_add, hbc]
        rw [h52]
        nlinarith [mul_le_mul_of_nonneg_right this (le_of_lt hspos)]
      · simp only [hfl, if_false, decide_eq_true_eq] at G
        obtain ⟨c, hc⟩ : ∃ c : Nat, (-fl).toNat = c := ⟨_, rfl⟩
        rw [hc] at G
        have hbc : b = 52 + c := by omega
        have : (q : ℚ) ≤ ((p * 2 ^ c : Nat) : ℚ) := by exact_mod_cast G
        push_cast at this ⊢
        rw [hbc, pow_add]
        nlinarith [mul_le_mul_of_nonneg_left this (by positivity : (0 : ℚ) ≤ 2 ^ 52)]
    have := err_scale _ _ (1 / (2 : ℚ) ^ b) hy hN (by positivity)
    have hv : val (nearest (p * 2 ^ b) q, 2 ^ b) = (nearest (p * 2 ^ b) q : ℚ) * (1 / (2 : ℚ) ^ b) := by
      simp [val, div_eq_mul_inv]
    have hx : ((p * 2 ^ b : Nat) : ℚ) / (q : ℚ) * (1 / (2 : ℚ) ^ b) = (p : ℚ) / q := by
      push_cast; field_simp
    rw [hv, ← hx]
    exact this

/-- two successive roundings: 10000·(w/tot) computed as fl(fl(w/tot)·10000) -/
theorem two_round (x α' β δ : ℚ) (hδ0 : 0 ≤ δ) (hδ1 : δ ≤ 1) (hx0 : 0 ≤ x)
    (h1 : |α' - x| ≤ x * δ) (h2 : |β - α'| ≤ α' * δ) : |β - x| ≤ x * (2 * δ + δ ^ 2) := by
  rw [abs_le] at h1 h2 ⊢
  have ha0 : 0 ≤ α' := by nlinarith [h1.1]
  constructor <;> nlinarith [mul_nonneg hx0 hδ0, mul_nonneg ha0 hδ0, mul_nonneg (mul_nonneg hx0 hδ0) hδ0,
    mul_le_mul_of_nonneg_right h1.2 hδ0, mul_le_mul_of_nonneg_right h1.1 hδ0]


end PolyVerif.Lemmas.CodonF64
